(* C17 - Line endings, comments and blank space do not change the recipe.

   Proved here, for every input (no bound) and for the character classification dumped from the
   implementation on this run (Gen/CharClass.v); the first theorem also for any classification
   with three finite properties:

   lexer level   CRLF conversion keeps every token kind and changes token texts only as
                 [crlf_tok_rel] says; " --c" before a line end adds exactly a Ws and a LineComment
                 token; [-c-] at a token boundary adds exactly one BlockComment token; in general
                 lexing is compositional at every position where the last token on the left cannot
                 absorb the first character on the right.
   parser level  the text builder (BlockParser::text) renders token lists that differ only by
                 comment tokens and newline spelling to the same string and the same emptiness
                 test; block splitting ignores blank and comment-only lines at the start, after a
                 block and at every place between blocks; the front-matter fence test ignores
                 blanks, CR and LF after the dashes.

   event level    (Proofs/EditSim*.v) a relational reading of the whole block parser: token streams
                 with the same kinds token by token ([ksim]: positions free, comment and newline
                 texts free) give [proj]-equal events - every parser function, one block, the
                 block loop, a document.  Hence, at DOCUMENT level ([C17_edit_invariant_partial]):
                 CRLF conversion of every source without backslash / lone CR, with or without a
                 front matter (the first conjunct of [C17_full_statement]), and a blank or
                 comment-only line at any place between blocks, with or without a front matter
                 (its last conjunct; the inserted line must not be the comment "---").
                 For comments after ANY word and blanks / comments appended at the end of a block
                 ([esim], general [tsim]), at BLOCK level: the metadata line, the section line, step
                 blocks without component markers and paragraph blocks.

                 A block comment directly after a word or a number token, before a blank, outside
                 braces: a relational Hoare logic (Proofs/EditIns*.v, [jsim], [HJ]) through every function,
                 components included (the two runs are briefly out of step after a one-word
                 component), block splitting, and documents: [C17_mid_comment_events(_fm)].

   [C17_full_statement] as first written (ALL diagnostics compared) is REFUTED
   ([C17_full_statement_refuted], witness "Add @\nx": a lone marker at a line end draws a warning
   that a trailing comment or trailing blanks remove; same on the implementation).  The statement
   of the property (recipe and validity) is [C17_full_statement_v].
   analysis level (Proofs/EditAnalysis.v) the analysis pass and the metadata map read the events
                 only through [proj] ([C17_analysis_blind], [C17_metadata_blind]), so for the model of
                 CooklangParser::parse ([parse_model] of C03_parse_total, plus the metadata map) the
                 three document-level edits leave the recipe, its validity and the metadata map
                 EQUAL: [C17_crlf_recipe], [C17_extra_line_recipe(_fm)], [C17_mid_comment_recipe(_fm)].
                 Hypotheses: the YAML oracles do not see LF/CRLF; the source does not select text
                 mode (`[mode]: text`), where the collector copies component SOURCE by span -
                 before the repair 200c896 comments included ([C17_text_mode_refuted_before_fix],
                 a defect found here), now without them ([C17_strip_mid_comment], [C17_strip_crlf]).

   trailing edit  (Proofs/EditTrail*.v) U+0020s and / or a line comment appended at the end of ANY line -
                 before LF, CRLF or the end of the input; inside a step, a component name, an alias, a
                 note, a quantity, a modifier group, a metadata line, a section header, a paragraph; the line
                 may already end with blank space.  A second relational Hoare logic ([wsimb], [WL]) through every
                 parser function, block splitting, documents with and without a front matter:
                 [C17_trailing_comment_events(_fm)] (same observation, same validity: [ev_equiv_v]) and, with
                 the analysis pass proved blind up to the normal form [rnorm] ("up to whitespace inside step
                 text", [C17_analysis_wblind]), [C17_trailing_comment_recipe(_fm)] about CooklangParser::parse:
                 same normal form of the recipe, same validity, same panic site, EQUAL metadata map.
                 The statement says "trailing spaces": with a trailing TAB the generalisation is false, on the
                 model and on the implementation ([C17_trailing_tab_refuted]: the TAB of a line end inside a
                 component that wraps stays in its name).

   padded comment (Proofs/EditPad*.v) `word [- c -] next`: the blank between a word or number and what follows
                 replaced by blank + block comment + blank (also `word [- c -]next`, longer runs of U+0020 on
                 either side): the step text gains a blank, so - as for the trailing edit - events are related
                 up to U+0020 runs ([fwr]); names, aliases, notes, units, text values, section names and metadata
                 KEYS are read through Text::text_trimmed and are equal.  A third relational pass ([psim]: a blank
                 token after a word replaced by a GAP of blank and comment tokens) through every parser function,
                 block splitting, documents: [C17_padded_comment_events(_fm)], [C17_padded_comment_recipe(_fm)].
                 Places: outside braces, not in the VALUE of a metadata line (the value is read through str::trim
                 only and does change: [C17_padded_meta_value_refuted]; the monitor does not judge that place); the
                 blank that is lengthened must end with U+0020 ([C17_padded_tab_refuted]); inside braces the
                 glued spelling changes an ADVANCED_UNITS quantity ([C17_padded_brace_refuted]).

   NOT proved: text mode at document level.  It is decided on every run by the metamorphic monitor of checks/c17.py on the
   implementation (text-mode readings included), the model being held to the implementation on the
   edited texts by the L-lex/L-ev correspondence. *)
From Coq Require Import Permutation.
From CL Require Import Base.StrLemmas Model.Lexer Model.PText Model.CommentMask Model.Parser Model.Edits
  Proofs.LexerProofs Proofs.MaskProofs Proofs.MaskGen Proofs.EditProofs Proofs.EditParserProofs Proofs.EditLink
  Proofs.ParserTotal Proofs.EditSimDefs Proofs.EditSimBlock Proofs.EditSimDoc Proofs.EditSimAll Proofs.EditSimCrlf Proofs.EditSimText Proofs.EditSimExtra Gen.CharClass.
From CL Require Proofs.EditSimLine.
From CL Require Import Proofs.EditInsDefs Proofs.EditInsStep Proofs.EditInsAll.
From CL Require Model.Analysis Model.EventBridge Model.MetaMap Gen.ExtBits Proofs.AnalysisTotal Proofs.ParseTotal Proofs.EditAnalysis.

(* ---------------------------------------------------------------- lexer level *)

Theorem C17_crlf_lex :
  forall s off off' ts,
    no_backslash s = true -> no_lone_cr s = true -> lex_at U s off = Some ts ->
    exists ts', lex_at U (crlf s) off' = Some ts'
                /\ map kind ts' = map kind ts /\ Forall2 crlf_tok_rel ts ts'.
Proof.
  intros s off off' ts Hb Hc H.
  destruct (crlf_lex U gen_eol_breaks s off off' ts Hb Hc H) as [ts' [L R]].
  exists ts'. split; [exact L | split; [apply crlf_rel_kinds; exact R | exact R]].
Qed.
Print Assumptions C17_crlf_lex.

Theorem C17_crlf_lex_any_classification :
  forall (V : N -> ucls),
    (forall c, (c =? 10) || (c =? 13) = true -> is_word_char V c = false /\ is_lex_ws V c = false) ->
    forall s off off' ts,
      no_backslash s = true -> no_lone_cr s = true -> lex_at V s off = Some ts ->
      exists ts', lex_at V (crlf s) off' = Some ts' /\ Forall2 crlf_tok_rel ts ts'.
Proof. exact crlf_lex. Qed.
Print Assumptions C17_crlf_lex_any_classification.

(* the hypotheses are satisfiable, and the lone CR / backslash restrictions are needed *)
Example C17_crlf_hypotheses_satisfiable :
  no_backslash [97; 10; 45; 45; 99; 10; 98] = true /\ no_lone_cr [97; 10; 45; 45; 99; 10; 98] = true.
Proof. split; reflexivity. Qed.
Example C17_crlf_backslash_needed :
  option_map (map kind) (lex U [92; 10]) = Some [KEscaped]
  /\ option_map (map kind) (lex U (crlf [92; 10])) = Some [KEscaped; KNewline].
Proof. split; vm_compute; reflexivity. Qed.

(* [a] and [b] are lexed separately: the position between them is a token boundary *)
Theorem C17_trail_comment_lex :
  forall a b off ta tb c,
    no_newline c = true -> (b = [] \/ exists y, b = 10 :: y) ->
    lex_at U a off = Some ta -> lex_at U b (off + blen a) = Some tb ->
    last_open_ended ta = false -> last_is_ws ta = false ->
    lex_at U (trail_comment (length a) c (a ++ b)) off =
    Some (ta ++ shift (off + blen a) [mk KWs [32] 0; mk KLineComment (line_comment_text c) 1]
             ++ shift (blen (32 :: line_comment_text c)) tb).
Proof. exact (trail_comment_lex U gen_special_breaks gen_eol_breaks gen_blank_ws). Qed.
Print Assumptions C17_trail_comment_lex.

(* ... and the unedited text has exactly the tokens [ta ++ tb] *)
Theorem C17_line_end_boundary :
  forall a b off ta tb,
    (b = [] \/ exists y, b = 10 :: y) ->
    lex_at U a off = Some ta -> lex_at U b (off + blen a) = Some tb ->
    safe_end U ta 10 = true ->
    lex_at U (a ++ b) off = Some (ta ++ tb).
Proof. exact (line_end_boundary U gen_special_breaks gen_eol_breaks). Qed.
Print Assumptions C17_line_end_boundary.

Theorem C17_mid_comment_lex :
  forall a b off ta tb c,
    no_close c = true ->
    lex_at U a off = Some ta -> lex_at U b (off + blen a) = Some tb ->
    last_open_ended ta = false ->
    lex_at U (mid_comment (length a) c (a ++ b)) off =
    Some (ta ++ [mk KBlockComment (block_comment_text c) (off + blen a)]
             ++ shift (blen (block_comment_text c)) tb).
Proof. exact (mid_comment_lex U gen_special_breaks gen_eol_breaks). Qed.
Print Assumptions C17_mid_comment_lex.

(* any inserted text: its tokens are inserted, the others only move *)
Theorem C17_insert_lex :
  forall a x b off ta tx tb d y,
    b = d :: y ->
    lex_at U a off = Some ta -> lex_at U x 0 = Some tx -> x <> [] ->
    lex_at U b (off + blen a) = Some tb ->
    safe_end U ta (hd 0 x) = true -> safe_end U tx d = true ->
    lex_at U (a ++ x ++ b) off = Some (ta ++ shift (off + blen a) tx ++ shift (blen x) tb).
Proof. exact (lex_insert U gen_special_breaks gen_eol_breaks). Qed.
Print Assumptions C17_insert_lex.

Example C17_insert_hypotheses_satisfiable :
  exists ta tb, lex_at U [97; 100; 100] 0 = Some ta /\ lex_at U [32; 120] 3 = Some tb
                /\ last_open_ended ta = false /\ last_is_ws ta = false.
Proof. eexists. eexists. repeat split; vm_compute; reflexivity. Qed.

(* ---------------------------------------------------------------- parser level *)

Theorem C17_text_blind :
  forall cfg o1 o2 ts1 ts2 t1 t2,
    tsim ts1 ts2 ->
    Forall (fun tk => tstr tk <> []) ts1 -> Forall (fun tk => tstr tk <> []) ts2 ->
    Forall newline_ok ts1 -> Forall newline_ok ts2 ->
    text_of cfg o1 ts1 = Done t1 -> text_of cfg o2 ts2 = Done t2 ->
    text_str t1 = text_str t2 /\ is_text_empty t1 = is_text_empty t2.
Proof.
  intros cfg o1 o2 ts1 ts2 t1 t2 S N1 N2 L1 L2 H1 H2. split.
  - exact (text_blind cfg o1 o2 ts1 ts2 t1 t2 S N1 N2 H1 H2).
  - exact (text_blind_empty cfg o1 o2 ts1 ts2 t1 t2 S N1 N2 L1 L2 H1 H2).
Qed.
Print Assumptions C17_text_blind.

(* both [Done] hypotheses hold for adjacent token lists (those of the lexer) *)
Theorem C17_text_no_panic :
  forall cfg o ts,
    p_strict_escape cfg = false -> Forall (fun tk => tstr tk <> []) ts -> adjacent_from o ts ->
    exists t, text_of cfg o ts = Done t.
Proof. exact text_of_no_panic. Qed.
Print Assumptions C17_text_no_panic.

(* lexer and text builder together: a text and its CRLF conversion render to the same string *)
Theorem C17_crlf_text_blind :
  forall cfg s ts ts' t t',
    no_backslash s = true -> no_lone_cr s = true ->
    lex_at U s 0 = Some ts -> lex_at U (crlf s) 0 = Some ts' ->
    text_of cfg 0 ts = Done t -> text_of cfg 0 ts' = Done t' ->
    text_str t = text_str t' /\ is_text_empty t = is_text_empty t'.
Proof.
  intros cfg s ts ts' t t' Hb Hc L L' T T'.
  destruct (crlf_lex U gen_eol_breaks s 0 0 ts Hb Hc L) as [ts2 [L2 R]].
  assert (E : ts2 = ts') by congruence. subst ts2.
  apply (C17_text_blind cfg 0 0 ts ts' t t'); try assumption.
  - apply crlf_rel_tsim. exact R.
  - apply (lex_nonempty U s 0). exact L.
  - apply (lex_nonempty U (crlf s) 0). exact L'.
  - apply (lex_newline_ok U s 0). exact L.
  - apply (crlf_rel_newline_ok ts). exact R.
Qed.
Print Assumptions C17_crlf_text_blind.

(* ... and so do a text and the same text with a block comment at a token boundary *)
Theorem C17_mid_comment_text_blind :
  forall cfg a b ta tb c ts' t t',
    no_close c = true ->
    lex_at U a 0 = Some ta -> lex_at U b (blen a) = Some tb -> last_open_ended ta = false ->
    lex_at U (mid_comment (length a) c (a ++ b)) 0 = Some ts' ->
    text_of cfg 0 (ta ++ tb) = Done t -> text_of cfg 0 ts' = Done t' ->
    text_str t = text_str t' /\ is_text_empty t = is_text_empty t'.
Proof.
  intros cfg a b ta tb c ts' t t' Hc La Lb Ho L' T T'.
  pose proof (mid_comment_lex U gen_special_breaks gen_eol_breaks a b 0 ta tb c Hc La Lb Ho) as L2.
  assert (E : Some ts' = Some (ta ++ [mk KBlockComment (block_comment_text c) (0 + blen a)]
                                 ++ shift (blen (block_comment_text c)) tb)) by (rewrite <- L'; exact L2).
  injection E as E. clear L2.
  pose proof (lex_nonempty U _ _ _ La) as Na. pose proof (lex_nonempty U _ _ _ Lb) as Nb.
  pose proof (lex_nonempty U _ _ _ L') as N'.
  pose proof (lex_newline_ok U _ _ _ La) as Oa. pose proof (lex_newline_ok U _ _ _ Lb) as Ob.
  pose proof (lex_newline_ok U _ _ _ L') as O'.
  apply (C17_text_blind cfg 0 0 (ta ++ tb) ts' t t'); try assumption.
  - rewrite E. apply tsim_insert_comment. reflexivity.
  - apply Forall_app. split; assumption.
  - apply Forall_app. split; assumption.
Qed.
Print Assumptions C17_mid_comment_text_blind.

Theorem C17_split_blind_leading :
  forall cfg l r f old evs,
    blank_line l -> blocks_loop cfg f (l ++ r) old evs = blocks_loop cfg f r old evs.
Proof. exact blocks_blind_leading. Qed.
Print Assumptions C17_split_blind_leading.

Theorem C17_split_blind_after :
  forall pre r blk l f f',
    next_block f (pre ++ r) = Some (blk, r) ->
    (length (pre ++ r) < f)%nat -> (length (pre ++ l ++ r) < f')%nat ->
    (exists p nl, pre = p ++ [nl] /\ kind nl = KNewline) -> blank_line l ->
    exists r', next_block f' (pre ++ l ++ r) = Some (blk, r') /\ (r' = r \/ r' = l ++ r).
Proof. exact split_blind_after. Qed.
Print Assumptions C17_split_blind_after.

(* a blank or comment-only line at any place between blocks ([reach]) leaves the event
   stream of the block loop unchanged *)
Theorem C17_split_blind_between :
  forall cfg l ts r,
    reach ts r -> forall pre f old evs,
    ts = pre ++ r -> (pre = [] \/ exists p nl, pre = p ++ [nl] /\ kind nl = KNewline) -> blank_line l ->
    blocks_loop cfg f (pre ++ l ++ r) old evs = blocks_loop cfg f (pre ++ r) old evs.
Proof. exact blocks_blind_between. Qed.
Print Assumptions C17_split_blind_between.

Theorem C17_fence_blind :
  forall l w, forallb uni_ws w = true -> is_fence (l ++ w) = is_fence l.
Proof. exact fence_blind. Qed.
Print Assumptions C17_fence_blind.

Example C17_fence_crlf : is_fence [45; 45; 45; 13; 10] = true /\ is_fence [45; 45; 45; 32; 9; 10] = true.
Proof. split; reflexivity. Qed.

(* ---------------------------------------------------------------- the full statement *)
(* Events without positions, as the analysis stage reads them: names, aliases, units, notes,
   section names and metadata keys as their trimmed strings (text_trimmed), metadata values as
   text_outer_trimmed, step and paragraph text as the raw rendered string, the front matter up to
   its line endings; [C17_analysis_blind] below: the analysis result is a function of this. *)
(* [tx], [pq], [pev], [proj]: Proofs/EditSimDefs.v *)
Definition is_pdiag (e : pev) : bool := match e with PDiag _ _ => true | _ => false end.

(* "up to whitespace inside step text": adjacent text items merged, runs of blanks and tabs
   collapsed to one blank, blanks at the start and end of a step or paragraph dropped, text
   items that become empty dropped *)
Fixpoint merge (l : list pev) : list pev :=
  match l with
  | [] => []
  | PText a :: r => match merge r with PText b :: r' => PText (a ++ b) :: r' | m => PText a :: m end
  | x :: r => x :: merge r
  end.
Definition is_blank (c : N) : bool := (c =? 32) || (c =? 9).
Fixpoint squeeze (prev : bool) (s : str) : str :=
  match s with
  | [] => []
  | c :: r => if is_blank c then (if prev then squeeze true r else 32 :: squeeze true r)
              else c :: squeeze false r
  end.
Definition drop_last_blank (s : str) : str :=
  match rev s with c :: r => if is_blank c then rev r else s | [] => [] end.
Fixpoint norm (at_start : bool) (l : list pev) : list pev :=
  match l with
  | [] => []
  | PText s :: r =>
      let s1 := squeeze at_start s in
      let s2 := match r with PEnd _ :: _ => drop_last_blank s1 | _ => s1 end in
      match s2 with [] => norm at_start r | _ => PText s2 :: norm false r end
  | PStart b :: r => PStart b :: norm true r
  | x :: r => x :: norm false r
  end.
Definition observed (evs : list pevent) : list pev :=
  norm true (merge (filter (fun e => negb (is_pdiag e)) (map proj evs))).
Definition diags_of (evs : list pevent) : list pev := filter is_pdiag (map proj evs).

(* the relation of the statement on two parser outcomes: same content up to blank space in
   step text, same diagnostics as a multiset (hence same validity) *)
Definition ev_equiv (o1 o2 : outcome (list pevent)) : Prop :=
  match o1, o2 with
  | Done e1, Done e2 => observed e1 = observed e2 /\ Permutation (diags_of e1) (diags_of e2)
  | Panic _, Panic _ => True
  | _, _ => False
  end.

(* ---------------------------------------------------------------- event level: proved part *)
(* Token streams with the same kinds token by token ([ksim]: positions free, comment and newline
   texts free, every other text equal) give the same events up to positions: every function
   of the block parser, one block, the block loop, a whole document.  [MR R m m] reads: from
   related parser states, when both runs finish, R-related results and related states. *)
Theorem C17_metadata_entry_ksim : forall cfg, MR (orel mdrel) (metadata_entry cfg) (metadata_entry cfg).
Proof. exact metadata_entry_rel. Qed.
Print Assumptions C17_metadata_entry_ksim.

Theorem C17_section_ksim : forall cfg, MR (orel erel) (section_p cfg) (section_p cfg).
Proof. exact section_rel. Qed.
Print Assumptions C17_section_ksim.

Theorem C17_component_ksim :
  forall cfg, MR (orel erel) (ingredient_p cfg) (ingredient_p cfg)
              /\ MR (orel erel) (cookware_p cfg) (cookware_p cfg)
              /\ MR (orel erel) (timer_p cfg) (timer_p cfg).
Proof. intro cfg. repeat split; [apply ingredient_ksim | apply cookware_ksim | apply timer_ksim]. Qed.
Print Assumptions C17_component_ksim.

Theorem C17_step_ksim : forall cfg, MR anyrel (parse_step cfg) (parse_step cfg).
Proof. exact step_ksim. Qed.
Print Assumptions C17_step_ksim.

Theorem C17_block_ksim :
  forall cfg blk1 blk2 evs1 evs2 old,
    ksim blk1 blk2 -> Forall2 erel evs1 evs2 ->
    OR (Forall2 erel) (run_block blk1 evs1 (parse_block cfg old)) (run_block blk2 evs2 (parse_block cfg old)).
Proof. exact block_ksim. Qed.
Print Assumptions C17_block_ksim.

Theorem C17_blocks_ksim :
  forall cfg fuel ts1 ts2 old evs1 evs2,
    ksim ts1 ts2 -> Forall2 erel evs1 evs2 ->
    OR (Forall2 erel) (blocks_loop cfg fuel ts1 old evs1) (blocks_loop cfg fuel ts2 old evs2).
Proof. exact blocks_ksim. Qed.
Print Assumptions C17_blocks_ksim.

(* comments ANYWHERE (general [tsim]): a step block without component markers.  [st0 b evs] is the
   parser state at the start of block [b]. *)
Theorem C17_step_text_blind :
  forall cfg x1 r1 x2 r2 evs1 evs2,
    no_marker (x1 :: r1) = true -> no_marker (x2 :: r2) = true ->
    tsim (x1 :: r1) (x2 :: r2) ->
    Forall (fun t => tstr t <> []) (x1 :: r1) -> Forall (fun t => tstr t <> []) (x2 :: r2) ->
    Forall2 erel evs1 evs2 ->
    match parse_step cfg (st0 (x1 :: r1) evs1), parse_step cfg (st0 (x2 :: r2) evs2) with
    | Done (_, s1), Done (_, s2) => Forall2 erel (b_evs s1) (b_evs s2) /\ b_rest s1 = [] /\ b_rest s2 = []
    | _, _ => True
    end.
Proof. exact step_text_blind. Qed.
Print Assumptions C17_step_text_blind.

Theorem C17_plain_step_block_tsim :
  forall cfg old x1 r1 x2 r2 evs1 evs2,
    plain_start (kind x1) = true -> kind x1 = kind x2 ->
    forallb (fun t => is_empty_tok (kind t)) (x1 :: r1) = false ->
    no_marker (x1 :: r1) = true -> no_marker (x2 :: r2) = true ->
    tsim (x1 :: r1) (x2 :: r2) ->
    Forall (fun t => tstr t <> []) (x1 :: r1) -> Forall (fun t => tstr t <> []) (x2 :: r2) ->
    Forall2 erel evs1 evs2 ->
    OR (Forall2 erel) (run_block (x1 :: r1) evs1 (parse_block cfg old)) (run_block (x2 :: r2) evs2 (parse_block cfg old)).
Proof. exact text_block_blind. Qed.
Print Assumptions C17_plain_step_block_tsim.

(* inserted comments and appended blanks: the one-sided edit relation [esim] of
   Proofs/EditSimLine.v (left = source, right = edited): tokens correspond, except that the edited
   side may have a comment token directly after a word token, and a run of comments and blanks
   at the very end of the block (the trailing ` --c`).  [st0 b evs] = parser state at the start
   of block [b]; [erelw] = [erel], or two text events whose texts are equal after trimming. *)
Theorem C17_metadata_entry_blind :
  forall cfg m1 r1 m2 r2 evs1 evs2 o1 s1 o2 s2,
    kind m1 = KMeta -> kind m2 = KMeta -> EditSimLine.esim KMeta r1 r2 ->
    EditSimLine.ne_toks r1 -> EditSimLine.ne_toks r2 -> EditSimLine.nl_toks r1 -> EditSimLine.nl_toks r2 ->
    Forall2 erel evs1 evs2 ->
    metadata_entry cfg (EditSimLine.st0 (m1 :: r1) evs1) = Done (o1, s1) ->
    metadata_entry cfg (EditSimLine.st0 (m2 :: r2) evs2) = Done (o2, s2) ->
    orel EditSimLine.meta_rel o1 o2 /\ Forall2 erel (b_evs s1) (b_evs s2)
    /\ (o1 <> None -> b_rest s1 = [] /\ b_rest s2 = [])
    /\ (o1 = None <-> position EditSimLine.is_colon r1 = None).
Proof. exact EditSimLine.metadata_entry_blind. Qed.
Print Assumptions C17_metadata_entry_blind.

Theorem C17_metadata_block_blind :
  forall cfg m1 r1 m2 r2 evs1 evs2 l1 l2,
    kind m1 = KMeta -> kind m2 = KMeta -> EditSimLine.esim KMeta r1 r2 ->
    EditSimLine.ne_toks r1 -> EditSimLine.ne_toks r2 -> EditSimLine.nl_toks r1 -> EditSimLine.nl_toks r2 ->
    Forall2 erel evs1 evs2 -> position EditSimLine.is_colon r1 <> None ->
    run_block (m1 :: r1) evs1 (parse_block cfg true) = Done l1 ->
    run_block (m2 :: r2) evs2 (parse_block cfg true) = Done l2 -> Forall2 erel l1 l2.
Proof. exact EditSimLine.metadata_block_blind. Qed.
Print Assumptions C17_metadata_block_blind.

Theorem C17_section_blind :
  forall cfg e1 r1 e2 r2 evs1 evs2 o1 s1 o2 s2,
    kind e1 = KEq -> kind e2 = KEq -> EditSimLine.esim KEq r1 r2 ->
    EditSimLine.ne_toks r1 -> EditSimLine.ne_toks r2 -> EditSimLine.nl_toks r1 -> EditSimLine.nl_toks r2 ->
    Forall2 erel evs1 evs2 ->
    section_p cfg (EditSimLine.st0 (e1 :: r1) evs1) = Done (o1, s1) ->
    section_p cfg (EditSimLine.st0 (e2 :: r2) evs2) = Done (o2, s2) ->
    orel erel o1 o2 /\ Forall2 erel (b_evs s1) (b_evs s2)
    /\ (b_rest s1 = [] <-> b_rest s2 = []) /\ (o1 <> None -> b_rest s1 = [] /\ b_rest s2 = []).
Proof. exact EditSimLine.section_blind. Qed.
Print Assumptions C17_section_blind.

Theorem C17_section_block_blind :
  forall cfg old e1 r1 e2 r2 evs1 evs2 l1 l2,
    kind e1 = KEq -> kind e2 = KEq -> EditSimLine.esim KEq r1 r2 ->
    EditSimLine.ne_toks r1 -> EditSimLine.ne_toks r2 -> EditSimLine.nl_toks r1 -> EditSimLine.nl_toks r2 ->
    Forall2 erel evs1 evs2 ->
    (forall s, section_p cfg (EditSimLine.st0 (e1 :: r1) evs1) <> Done (None, s)) ->
    run_block (e1 :: r1) evs1 (parse_block cfg old) = Done l1 ->
    run_block (e2 :: r2) evs2 (parse_block cfg old) = Done l2 -> Forall2 erel l1 l2.
Proof. exact EditSimLine.section_block_blind. Qed.
Print Assumptions C17_section_block_blind.

(* a step block without component markers, and a paragraph block (`> ...`, any number of lines):
   step and paragraph text up to the appended blanks *)
Theorem C17_plain_step_block_blind :
  forall cfg old b1 b2 evs1 evs2 l1 l2,
    EditSimLine.esim KEof b1 b2 ->
    (exists t q, b1 = t :: q /\ EditSimLine.plain_head (kind t)) ->
    EditSimLine.no_marker b1 ->
    EditSimLine.ne_toks b1 -> EditSimLine.ne_toks b2 -> EditSimLine.nl_toks b1 -> EditSimLine.nl_toks b2 ->
    Forall EditSimLine.esc_ok b1 ->
    Forall2 EditSimLine.erelw evs1 evs2 ->
    run_block b1 evs1 (parse_block cfg old) = Done l1 ->
    run_block b2 evs2 (parse_block cfg old) = Done l2 -> Forall2 EditSimLine.erelw l1 l2.
Proof. exact EditSimLine.plain_step_block_blind. Qed.
Print Assumptions C17_plain_step_block_blind.

Theorem C17_paragraph_block_blind :
  forall cfg old b1 b2 evs1 evs2 l1 l2,
    EditSimLine.esim KEof b1 b2 ->
    (exists t q, b1 = t :: q /\ kind t = KTextStep) ->
    EditSimLine.ne_toks b1 -> EditSimLine.ne_toks b2 -> EditSimLine.nl_toks b1 -> EditSimLine.nl_toks b2 ->
    Forall2 EditSimLine.erelw evs1 evs2 ->
    run_block b1 evs1 (parse_block cfg old) = Done l1 ->
    run_block b2 evs2 (parse_block cfg old) = Done l2 -> Forall2 EditSimLine.erelw l1 l2.
Proof. exact EditSimLine.text_block_blind. Qed.
Print Assumptions C17_paragraph_block_blind.

(* the two token-level edits are instances of [esim] *)
Theorem C17_edits_are_esim :
  (forall tl p ta w tb cm n, kind w = KWord -> is_comment (kind cm) = true ->
     EditSimLine.esimb tl p (ta ++ w :: tb) (ta ++ w :: cm :: shift n tb))
  /\ (forall p ts suffix, Forall EditSimLine.tail_tok suffix -> EditSimLine.esim p ts (ts ++ suffix)).
Proof. split; [exact EditSimLine.esim_insert_after_word | exact EditSimLine.esim_append_tail]. Qed.
Print Assumptions C17_edits_are_esim.

Lemma same_events_equiv e1 e2 : same_events e1 e2 -> ev_equiv (Done e1) (Done e2).
Proof.
  unfold same_events, ev_equiv, observed, diags_of. intro H. rewrite H. split; [reflexivity | apply Permutation_refl].
Qed.

Lemma OR_same_equiv cfg s1 s2 :
  p_strict_escape cfg = false -> OR same_events (events U cfg s1) (events U cfg s2) ->
  ev_equiv (events U cfg s2) (events U cfg s1).
Proof.
  intros Hc H. destruct (events_ok U cfg s1 Hc) as (e1 & E1 & _). destruct (events_ok U cfg s2 Hc) as (e2 & E2 & _).
  rewrite E1, E2 in *. apply same_events_equiv. unfold OR, same_events in *. symmetry. exact H.
Qed.

(* document level, CRLF: the first conjunct of [C17_full_statement], for every source without a
   backslash or a lone carriage return, with or without a front matter (the observation compares
   the YAML text up to its line endings: [proj]) *)
Theorem C17_crlf_events :
  forall cfg s,
    p_strict_escape cfg = false -> no_backslash s = true -> no_lone_cr s = true ->
    ev_equiv (events U cfg (crlf s)) (events U cfg s).
Proof.
  intros cfg s Hc Hb Hl. apply OR_same_equiv; [exact Hc|].
  apply (crlf_events_full U cfg gen_eol_breaks); assumption.
Qed.
Print Assumptions C17_crlf_events.

(* document level, a blank or comment-only line [l] between blocks: the last conjunct of
   [C17_full_statement].  The hypothesis on [l] is needed: the comment-only line "---" is a YAML
   fence (two of them at the top of a source make a front matter). *)
Theorem C17_extra_line_events :
  forall cfg a l b ta tl tb,
    p_strict_escape cfg = false ->
    parse_frontmatter cfg (a ++ b) = None ->
    Forall (fun x => is_fence x = false) (lines_inclusive l) ->
    lex_at U a 0 = Some ta -> lex_at U l 0 = Some tl -> lex_at U b (blen a) = Some tb ->
    (ta = [] \/ exists p nl, ta = p ++ [nl] /\ kind nl = KNewline) -> blank_line tl ->
    reach (ta ++ tb) tb ->
    ev_equiv (events U cfg (a ++ l ++ b)) (events U cfg (a ++ b)).
Proof.
  intros cfg a l b ta tl tb Hc F1 Hf La Ll Lb Hta Hl Hr. apply OR_same_equiv; [exact Hc|].
  apply (extra_line_none U cfg gen_special_breaks gen_eol_breaks a l b ta tl tb); assumption.
Qed.
Print Assumptions C17_extra_line_events.

(* ... and below a front matter, whose Cooklang part is [a ++ b] (any inserted line: what follows
   the second fence is never looked at by the splitter) *)
Theorem C17_extra_line_events_fm :
  forall cfg s fm a l b ta tl tb,
    p_strict_escape cfg = false ->
    parse_frontmatter cfg s = Some fm -> cook_text fm = a ++ b -> a ++ b <> [] ->
    lex_at U a (cook_off fm) = Some ta -> lex_at U l 0 = Some tl -> lex_at U b (cook_off fm + blen a) = Some tb ->
    (ta = [] \/ exists p nl, ta = p ++ [nl] /\ kind nl = KNewline) -> blank_line tl ->
    reach (ta ++ tb) tb ->
    ev_equiv (events U cfg (take_bytes s (cook_off fm) ++ a ++ l ++ b)) (events U cfg s).
Proof.
  intros cfg s fm a l b ta tl tb Hc F C Hne La Ll Lb Hta Hl Hr. apply OR_same_equiv; [exact Hc|].
  apply (extra_line_some U cfg gen_special_breaks gen_eol_breaks s fm a l b ta tl tb); assumption.
Qed.
Print Assumptions C17_extra_line_events_fm.

(* ---------------------------------------------------------------- a block comment after a word *)
(* [jsim]: the right token list is the left one with block comment tokens inserted directly after
   a word or number token ([is_single_word_tok]) and directly before a blank token, outside `{...}`
   (token-level bracket state).
   The relational Hoare logic of Proofs/EditIns*.v: [HJ P m1 m2 Q]; [St jany] = the two runs are
   in step, [St anyR] = in step or the left run before the blank and the right one before the
   inserted comment; [CP erel anyR] = both fail (events related) or both succeed with equal events. *)
Theorem C17_component_name_blind :
  forall cfg,
    HJ (St jany) (ingredient_p cfg) (ingredient_p cfg) (CP erel anyR)
    /\ HJ (St jany) (cookware_p cfg) (cookware_p cfg) (CP erel anyR)
    /\ HJ (St jany) (timer_p cfg) (timer_p cfg) (CP erel anyR).
Proof. exact components_jsim. Qed.
Print Assumptions C17_component_name_blind.

(* any block, components included: name, alias, note positions, after a one-word component, step
   text around components, metadata keys and values, section names, paragraphs *)
Theorem C17_step_block_blind :
  forall cfg blk1 blk2 evs1 evs2 old,
    jany blk1 blk2 -> Forall2 erel evs1 evs2 ->
    OR (Forall2 erel) (run_block blk1 evs1 (parse_block cfg old)) (run_block blk2 evs2 (parse_block cfg old)).
Proof. exact block_jsim. Qed.
Print Assumptions C17_step_block_blind.

(* block splitting and the block loop (the two token lists have different lengths: any two fuels) *)
Theorem C17_blocks_jsim :
  forall cfg f1 f2 ts1 ts2 old evs1 evs2,
    jany ts1 ts2 -> Forall2 erel evs1 evs2 ->
    OR (Forall2 erel) (blocks_loop cfg f1 ts1 old evs1) (blocks_loop cfg f2 ts2 old evs2).
Proof. exact blocks_jsim. Qed.
Print Assumptions C17_blocks_jsim.

(* document level: [a | b] is a token boundary, the last token of [a] is a word or a number, the
   first token of [b] a blank, and the boundary is not inside braces ([mode_after MOut p = MOut]).
   These are the places where the monitor puts the unspaced comment: step text (between the value and
   the unit of an inline quantity too: `180[-c-] °C` - the text is assembled without the comment, so
   the events are the same and nothing is assumed about the inline-quantity oracle), paragraph text,
   metadata keys and values, section names, component names, aliases, notes, after a one-word
   component.  The hypothesis
   on the edited source is needed: a form feed is a word character for the lexer and blank space
   for the fence test, so "---<FF> " is a fence line with a word in it. *)
Theorem C17_mid_comment_events :
  forall cfg a b c p wd ws tb',
    p_strict_escape cfg = false -> no_close c = true ->
    parse_frontmatter cfg (a ++ b) = None -> parse_frontmatter cfg (a ++ block_comment_text c ++ b) = None ->
    lex_at U a 0 = Some (p ++ [wd]) -> lex_at U b (blen a) = Some (ws :: tb') ->
    lex_at U (a ++ b) 0 = Some ((p ++ [wd]) ++ ws :: tb') ->
    is_single_word_tok (kind wd) = true -> kind ws = KWs -> mode_after MOut p = MOut ->
    ev_equiv (events U cfg (a ++ block_comment_text c ++ b)) (events U cfg (a ++ b)).
Proof.
  intros cfg a b c p wd ws tb' Hs Hc F1 F2 La Lb Lab Kw Ks Hm. apply OR_same_equiv; [exact Hs|].
  apply (mid_comment_events_all cfg U gen_special_breaks gen_eol_breaks a b c p wd ws tb'); assumption.
Qed.
Print Assumptions C17_mid_comment_events.

Theorem C17_mid_comment_events_fm :
  forall cfg s fm a b c p wd ws tb',
    p_strict_escape cfg = false -> no_close c = true ->
    parse_frontmatter cfg s = Some fm -> cook_text fm = a ++ b -> a ++ b <> [] ->
    lex_at U a (cook_off fm) = Some (p ++ [wd]) -> lex_at U b (cook_off fm + blen a) = Some (ws :: tb') ->
    lex_at U (a ++ b) (cook_off fm) = Some ((p ++ [wd]) ++ ws :: tb') ->
    is_single_word_tok (kind wd) = true -> kind ws = KWs -> mode_after MOut p = MOut ->
    ev_equiv (events U cfg (take_bytes s (cook_off fm) ++ a ++ block_comment_text c ++ b)) (events U cfg s).
Proof.
  intros cfg s fm a b c p wd ws tb' Hs Hc F C Hne La Lb Lab Kw Ks Hm. apply OR_same_equiv; [exact Hs|].
  apply (mid_comment_events_fm_all cfg U gen_special_breaks gen_eol_breaks s fm a b c p wd ws tb'); assumption.
Qed.
Print Assumptions C17_mid_comment_events_fm.

(* the hypotheses are satisfiable: "Add @salt and" with the comment after "salt" *)
Example C17_mid_comment_hypotheses_satisfiable :
  exists p wd ws tb',
    lex_at U [65; 100; 100; 32; 64; 115; 97; 108; 116] 0 = Some (p ++ [wd])
    /\ lex_at U [32; 97; 110; 100] 9 = Some (ws :: tb')
    /\ is_single_word_tok (kind wd) = true /\ kind ws = KWs /\ mode_after MOut p = MOut.
Proof.
  eexists [_; _; _], _, _, _. split; [vm_compute; reflexivity|]. split; [vm_compute; reflexivity|].
  repeat split.
Qed.

(* ... also after a number: "Bake at 180" | " C now", the comment between the value and the unit of
   an inline quantity *)
Example C17_mid_comment_number_satisfiable :
  exists p wd ws tb',
    lex_at U [66; 97; 107; 101; 32; 97; 116; 32; 49; 56; 48] 0 = Some (p ++ [wd])
    /\ lex_at U [32; 67; 32; 110; 111; 119] 11 = Some (ws :: tb')
    /\ kind wd = KInt /\ is_single_word_tok (kind wd) = true /\ kind ws = KWs /\ mode_after MOut p = MOut.
Proof.
  eexists [_; _; _; _], _, _, _. split; [vm_compute; reflexivity|]. split; [vm_compute; reflexivity|].
  repeat split.
Qed.

(* the part of [C17_full_statement] that is a theorem, at document level, in one statement *)
Theorem C17_edit_invariant_partial :
  forall cfg, p_strict_escape cfg = false ->
    (* line endings *)
    (forall s, no_backslash s = true -> no_lone_cr s = true ->
       ev_equiv (events U cfg (crlf s)) (events U cfg s))
    /\ (* a blank or comment-only line between blocks *)
       (forall a l b ta tl tb,
         parse_frontmatter cfg (a ++ b) = None ->
         Forall (fun x => is_fence x = false) (lines_inclusive l) ->
         lex_at U a 0 = Some ta -> lex_at U l 0 = Some tl -> lex_at U b (blen a) = Some tb ->
         (ta = [] \/ exists p nl, ta = p ++ [nl] /\ kind nl = KNewline) -> blank_line tl ->
         reach (ta ++ tb) tb ->
         ev_equiv (events U cfg (a ++ l ++ b)) (events U cfg (a ++ b)))
    /\ (forall s fm a l b ta tl tb,
         parse_frontmatter cfg s = Some fm -> cook_text fm = a ++ b -> a ++ b <> [] ->
         lex_at U a (cook_off fm) = Some ta -> lex_at U l 0 = Some tl ->
         lex_at U b (cook_off fm + blen a) = Some tb ->
         (ta = [] \/ exists p nl, ta = p ++ [nl] /\ kind nl = KNewline) -> blank_line tl ->
         reach (ta ++ tb) tb ->
         ev_equiv (events U cfg (take_bytes s (cook_off fm) ++ a ++ l ++ b)) (events U cfg s))
    /\ (* a block comment directly after a word, before a blank, outside braces *)
       (forall a b c p wd ws tb',
         no_close c = true ->
         parse_frontmatter cfg (a ++ b) = None -> parse_frontmatter cfg (a ++ block_comment_text c ++ b) = None ->
         lex_at U a 0 = Some (p ++ [wd]) -> lex_at U b (blen a) = Some (ws :: tb') ->
         lex_at U (a ++ b) 0 = Some ((p ++ [wd]) ++ ws :: tb') ->
         is_single_word_tok (kind wd) = true -> kind ws = KWs -> mode_after MOut p = MOut ->
         ev_equiv (events U cfg (a ++ block_comment_text c ++ b)) (events U cfg (a ++ b)))
    /\ (forall s fm a b c p wd ws tb',
         no_close c = true ->
         parse_frontmatter cfg s = Some fm -> cook_text fm = a ++ b -> a ++ b <> [] ->
         lex_at U a (cook_off fm) = Some (p ++ [wd]) -> lex_at U b (cook_off fm + blen a) = Some (ws :: tb') ->
         lex_at U (a ++ b) (cook_off fm) = Some ((p ++ [wd]) ++ ws :: tb') ->
         is_single_word_tok (kind wd) = true -> kind ws = KWs -> mode_after MOut p = MOut ->
         ev_equiv (events U cfg (take_bytes s (cook_off fm) ++ a ++ block_comment_text c ++ b)) (events U cfg s)).
Proof.
  intros cfg Hc. split; [|split; [|split; [|split]]].
  - intros s. apply C17_crlf_events. exact Hc.
  - intros a l b ta tl tb. apply C17_extra_line_events. exact Hc.
  - intros s fm a l b ta tl tb. apply C17_extra_line_events_fm. exact Hc.
  - intros a b c p wd ws tb' Hn. apply C17_mid_comment_events; assumption.
  - intros s fm a b c p wd ws tb' Hn. apply C17_mid_comment_events_fm; assumption.
Qed.
Print Assumptions C17_edit_invariant_partial.

(* the hypotheses of [C17_extra_line_events] are satisfiable: "a\n\n" | "--c\n" | "b" *)
Example C17_extra_line_hypotheses_satisfiable :
  exists ta tl tb,
    lex_at U [97; 10; 10] 0 = Some ta /\ lex_at U [45; 45; 99; 10] 0 = Some tl /\ lex_at U [98] 3 = Some tb
    /\ (exists p nl, ta = p ++ [nl] /\ kind nl = KNewline) /\ blank_line tl /\ reach (ta ++ tb) tb.
Proof.
  eexists. eexists. eexists. split; [vm_compute; reflexivity|]. split; [vm_compute; reflexivity|].
  split; [vm_compute; reflexivity|]. split; [|split].
  - eexists [_; _], _. split; reflexivity.
  - eexists [_], _. split; [reflexivity | split; reflexivity].
  - eapply reach_step; [vm_compute; reflexivity | apply reach_here].
Qed.

(* well-formed: parses without an error *)
Definition well_formed (cfg : pcfg) (s : str) : Prop :=
  exists evs, events U cfg s = Done evs
              /\ Forall (fun e => match e with EvDiag d => d_err d = false | _ => True end) evs.

(* the Cooklang part of a source: what follows the front matter *)
Definition body_split (cfg : pcfg) (s : str) : str * str :=
  match parse_frontmatter cfg s with
  | Some fm => (take_bytes s (cook_off fm), cook_text fm)
  | None => ([], s)
  end.

(* the tokens of the current line: those after the last newline token *)
Fixpoint cur_line_rev (rts : list tok) : list tok :=
  match rts with
  | [] => []
  | t :: r => if tk_eqb (kind t) KNewline then [] else t :: cur_line_rev r
  end.
Definition cur_line (ta : list tok) : list tok := rev (cur_line_rev (rev ta)).
Definition count_kind (k : tkind) (ts : list tok) : nat := length (filter (fun t => tk_eqb (kind t) k) ts).

Definition in_meta_key (ta : list tok) : bool :=
  match cur_line ta with
  | t :: r => tk_eqb (kind t) KMeta && negb (existsb (fun x => tk_eqb (kind x) KColon) r)
  | [] => false
  end.

(* where the statement lets a comment go "between words": after a word or a number, before a blank,
   not inside braces, not inside a metadata key *)
Definition between_words (ta tb : list tok) : Prop :=
  (exists p w, ta = p ++ [w] /\ is_single_word_tok (kind w) = true) /\ (exists b r, tb = b :: r /\ kind b = KWs)
  /\ count_kind KOpenBrace ta = count_kind KCloseBrace ta /\ in_meta_key ta = false.

Definition line_end (tb : list tok) : Prop := tb = [] \/ exists n r, tb = n :: r /\ kind n = KNewline.

(* The statement of C17 on the model.  NOT a theorem here: it is decided on every run by the
   metamorphic monitor on the implementation (checks/c17.py), and the model is compared with the
   implementation on the edited texts.  (The padded comment `word [- c -] next` and trailing blanks on the
   fence lines of a front matter are monitored too; the former is [C17_padded_comment_events] below,
   the latter [C17_fence_blind].) *)
Definition C17_full_statement : Prop :=
  forall (cfg : pcfg) (s : str),
    (* line endings: every input without a backslash or a lone carriage return *)
    (no_backslash s = true -> no_lone_cr s = true -> ev_equiv (events U cfg (crlf s)) (events U cfg s))
    /\
    (* insertions: well-formed recipes, insertion point [a | b] in the Cooklang part, at a token
       boundary, not inside a comment or after a backslash *)
    (well_formed cfg s ->
     forall pre a b ta tb,
       body_split cfg s = (pre, a ++ b) ->
       lex_at U a 0 = Some ta -> lex_at U b (blen a) = Some tb -> lex_at U (a ++ b) 0 = Some (ta ++ tb) ->
       last_open_ended ta = false ->
       (* a trailing comment, trailing blanks or tabs at the end of a line *)
       (line_end tb -> forall c w, no_newline c = true -> forallb is_blank w = true ->
          ev_equiv (events U cfg (pre ++ a ++ (32 :: line_comment_text c) ++ b)) (events U cfg s)
          /\ ev_equiv (events U cfg (pre ++ a ++ w ++ b)) (events U cfg s))
       /\
       (* a block comment directly after a word *)
       (between_words ta tb -> forall c, no_close c = true ->
          ev_equiv (events U cfg (pre ++ a ++ block_comment_text c ++ b)) (events U cfg s))
       /\
       (* a blank or comment-only line between blocks *)
       (reach (ta ++ tb) tb -> (ta = [] \/ exists p nl, ta = p ++ [nl] /\ kind nl = KNewline) ->
        forall l tl, lex_at U l 0 = Some tl -> blank_line tl ->
          ev_equiv (events U cfg (pre ++ a ++ l ++ b)) (events U cfg s))).

(* ---------------------------------------------------------------- the full statement is too strong *)
(* [C17_full_statement] compares ALL diagnostics.  That is false on the model, and on the
   implementation (replayed through harness/src/bin/recipe.rs): a lone component marker at the end
   of a line, "Add @\nx", draws the warning "invalid single word name" (block_parser: the token
   after the marker is not a blank); with a trailing comment or trailing blanks, "Add @ --c\nx",
   the marker is followed by a blank and the warning is not issued.  Recipe and validity are the
   same.  The property statement speaks of the recipe and its validity only: [ev_equiv_v] /
   [C17_full_statement_v] below compare the content and whether there is an ERROR. *)
Definition cfg_plain : pcfg :=
  {| p_ext := 0; p_debug := true; p_strict_escape := false; p_note_label_old := false; p_fm_anywhere := false |}.

Definition wit_ta : list tok :=
  Eval vm_compute in match lex_at U [65; 100; 100; 32; 64] 0 with Some t => t | None => [] end.
Definition wit_tb : list tok :=
  Eval vm_compute in match lex_at U [10; 120] 5 with Some t => t | None => [] end.
Definition wit_src : str := [65; 100; 100; 32; 64; 10; 120].
Definition wit_edited : str := [] ++ [65; 100; 100; 32; 64] ++ (32 :: line_comment_text [99]) ++ [10; 120].
Definition wit_e1 : outcome (list pevent) := Eval vm_compute in events U cfg_plain wit_edited.
Definition wit_e2 : outcome (list pevent) := Eval vm_compute in events U cfg_plain wit_src.
Lemma wit_e1_eq : events U cfg_plain wit_edited = wit_e1. Proof. vm_compute. reflexivity. Qed.
Lemma wit_e2_eq : events U cfg_plain wit_src = wit_e2. Proof. vm_compute. reflexivity. Qed.
Lemma wit_false : ev_equiv (events U cfg_plain wit_edited) (events U cfg_plain wit_src) -> False.
Proof.
  rewrite wit_e1_eq, wit_e2_eq. unfold wit_e1, wit_e2, ev_equiv. intros [_ P].
  assert (D1 : diags_of (match wit_e1 with Done e => e | _ => [] end) = []) by (vm_compute; reflexivity).
  assert (D2 : diags_of (match wit_e2 with Done e => e | _ => [] end) = [PDiag false 1]) by (vm_compute; reflexivity).
  unfold wit_e1 in D1. unfold wit_e2 in D2. rewrite D1, D2 in P. apply Permutation_nil in P. discriminate.
Qed.

Theorem C17_full_statement_refuted : ~ C17_full_statement.
Proof.
  intro H. destruct (H cfg_plain wit_src) as [_ H2].
  assert (W : well_formed cfg_plain wit_src).
  { exists (match wit_e2 with Done e => e | _ => [] end). split; [exact wit_e2_eq|].
    unfold wit_e2. repeat (constructor; [first [exact I | reflexivity]|]). constructor. }
  destruct (H2 W [] [65; 100; 100; 32; 64] [10; 120] wit_ta wit_tb) as [Hline _];
    [vm_compute; reflexivity | vm_compute; reflexivity | vm_compute; reflexivity | vm_compute; reflexivity
    | vm_compute; reflexivity |].
  assert (Le : line_end wit_tb) by (right; eexists; eexists; split; reflexivity).
  destruct (Hline Le [99] [32] eq_refl eq_refl) as [E _].
  exact (wit_false E).
Qed.
Print Assumptions C17_full_statement_refuted.

Definition has_error (evs : list pevent) : bool :=
  existsb (fun e => match e with EvDiag d => d_err d | _ => false end) evs.
Definition ev_equiv_v (o1 o2 : outcome (list pevent)) : Prop :=
  match o1, o2 with
  | Done e1, Done e2 => observed e1 = observed e2 /\ has_error e1 = has_error e2
  | Panic _, Panic _ => True
  | _, _ => False
  end.

Lemma has_error_proj e : has_error e = existsb (fun x => match x with PDiag b _ => b | _ => false end) (map proj e).
Proof. induction e as [|x r IH]; [reflexivity|]. cbn [has_error existsb map]. fold (has_error r). rewrite IH. destruct x; reflexivity. Qed.

(* every event-level theorem above gives the weaker relation too *)
Theorem C17_same_events_valid :
  forall e1 e2, same_events e1 e2 -> ev_equiv_v (Done e1) (Done e2).
Proof.
  intros e1 e2 H. unfold same_events in H. split.
  - unfold observed. rewrite H. reflexivity.
  - rewrite !has_error_proj, H. reflexivity.
Qed.
Print Assumptions C17_same_events_valid.

(* the statement of the property on the model: as [C17_full_statement], comparing the content and
   the presence of an error, the appended blanks being U+0020 ("trailing spaces": for TAB see
   [C17_trailing_tab_refuted] below).  Proved, each at document level with and without a front matter:
   the first conjunct ([C17_crlf_events]), the trailing comment / trailing spaces
   ([C17_trailing_comment_events(_fm)], [C17_trailing_edits_events]; hypothesis that the edited text has
   no new front-matter fence), the block comment after a word or number token
   ([C17_mid_comment_events]; with blanks around the comment [C17_padded_comment_events]: outside metadata
   values, the blank run ending with U+0020), extra lines ([C17_extra_line_events(_fm)], inserted line not "---"). *)
Definition C17_full_statement_v : Prop :=
  forall (cfg : pcfg) (s : str),
    (no_backslash s = true -> no_lone_cr s = true -> ev_equiv_v (events U cfg (crlf s)) (events U cfg s))
    /\
    (well_formed cfg s ->
     forall pre a b ta tb,
       body_split cfg s = (pre, a ++ b) ->
       lex_at U a 0 = Some ta -> lex_at U b (blen a) = Some tb -> lex_at U (a ++ b) 0 = Some (ta ++ tb) ->
       last_open_ended ta = false ->
       (line_end tb -> forall c w, no_newline c = true -> forallb (fun x => x =? 32) w = true ->
          ev_equiv_v (events U cfg (pre ++ a ++ (32 :: line_comment_text c) ++ b)) (events U cfg s)
          /\ ev_equiv_v (events U cfg (pre ++ a ++ w ++ b)) (events U cfg s))
       /\
       (between_words ta tb -> forall c, no_close c = true ->
          ev_equiv_v (events U cfg (pre ++ a ++ block_comment_text c ++ b)) (events U cfg s))
       /\
       (reach (ta ++ tb) tb -> (ta = [] \/ exists p nl, ta = p ++ [nl] /\ kind nl = KNewline) ->
        forall l tl, lex_at U l 0 = Some tl -> blank_line tl ->
          Forall (fun x => is_fence x = false) (lines_inclusive l) ->
          ev_equiv_v (events U cfg (pre ++ a ++ l ++ b)) (events U cfg s))).

(* ---------------------------------------------------------------- the analysis stage *)
(* From events to the recipe (Proofs/EditAnalysis.v).  [parse_model] (Proofs/ParseTotal.v, the
   subject of C03_parse_total) is CooklangParser::parse = analysis . bridge . events, returning the
   recipe of Model/Analysis.v - sections, steps, items, the ingredient / cookware / timer tables with
   names, aliases, notes, quantities (value, unit, fixed or linear), modifiers and relations, the
   inline-quantity count; it carries
   no span - and its validity; [parse_meta_model] is the metadata map of the same call
   (Model/MetaMap.v).  [same_parse_cfg ac] = both are EQUAL for the two sources (equal outcomes:
   same recipe, same validity, same panic site if any; that there is no panic is C03_parse_total),
   for the analysis code selected by [ac] ([Analysis.cfgF] = the code as it is now:
   [parse_model_cfg cfgF] is [parse_model]; the theorems hold for the earlier code too).

   ANALYSIS BLINDNESS.  Two event streams with the same projection [proj] - whatever their spans,
   comment and newline texts, and whatever the two source texts - give the same analysis result and
   the same metadata map.  Hypotheses, both needed:
     [no_text_mode]  no metadata entry `[mode]: text` / `[define]: text` (or MODES off): in text
                     mode the collector copies the SOURCE of a component, by its span, into the
                     paragraph (event_consumer.rs:570-595), so the recipe depends on more than the
                     events' content.  Before the repair 200c896 the copy included comments and
                     the property failed ([C17_text_mode_refuted_before_fix]); now the copy leaves
                     comments out ([C17_strip_*] below), but a document-level theorem for text
                     mode would need the component spans related through the whole parser, which
                     the event relation [erel] does not carry: text mode stays a hypothesis here
                     and is decided by the monitor of checks/c17.py.
     [crlf_blind]    the YAML oracles answer alike on texts that differ in LF / CRLF only ([proj]
                     keeps the front matter up to its line endings, as the CRLF edit requires).
   The other oracles (case folding, inline quantities, unit class) are applied to strings that the
   projection keeps, hence to equal arguments; nothing is assumed about them. *)
Theorem C17_analysis_blind :
  forall ci_key yaml_ok find_iq unit_class x acfg in1 in2 e1 e2,
    EditAnalysis.crlf_blind yaml_ok ->
    same_events e1 e2 -> EditAnalysis.no_text_mode x e1 ->
    Analysis.analyse ci_key yaml_ok find_iq unit_class in1 x acfg (EventBridge.abstract_events e1)
    = Analysis.analyse ci_key yaml_ok find_iq unit_class in2 x acfg (EventBridge.abstract_events e2).
Proof. intros. apply EditAnalysis.analyse_blind; assumption. Qed.
Print Assumptions C17_analysis_blind.

Theorem C17_metadata_blind :
  forall (Y : Type) (ystr : str -> Y) (yeqb : Y -> Y -> bool) (yaml : str -> option (list (Y * Y))) modes e1 e2,
    EditAnalysis.crlf_blind yaml -> same_events e1 e2 ->
    MetaMap.metadata_of Y ystr yeqb yaml modes e1 = MetaMap.metadata_of Y ystr yeqb yaml modes e2.
Proof. intros. apply EditAnalysis.metadata_blind; assumption. Qed.
Print Assumptions C17_metadata_blind.

(* CooklangParser::parse, CRLF conversion: every source without a backslash or a lone carriage
   return, with or without a front matter *)
Theorem C17_crlf_recipe :
  forall ac cfg ci_key yaml_ok find_iq unit_class x Y ystr yeqb yaml s,
    p_strict_escape cfg = false -> no_backslash s = true -> no_lone_cr s = true ->
    EditAnalysis.crlf_blind yaml_ok -> EditAnalysis.crlf_blind yaml ->
    EditAnalysis.src_no_text_mode U cfg x s ->
    EditAnalysis.same_parse_cfg ac U cfg ci_key yaml_ok find_iq unit_class x Y ystr yeqb yaml s (crlf s).
Proof.
  intros ac cfg ci_key yaml_ok find_iq unit_class x Y ystr yeqb yaml s Hc Hb Hl By Bm Hm.
  apply EditAnalysis.parse_blind; try assumption.
  apply (crlf_events_full U cfg gen_eol_breaks); assumption.
Qed.
Print Assumptions C17_crlf_recipe.

(* a blank or comment-only line between blocks (hypotheses of [C17_extra_line_events(_fm)]) *)
Theorem C17_extra_line_recipe :
  forall ac cfg ci_key yaml_ok find_iq unit_class x Y ystr yeqb yaml a l b ta tl tb,
    p_strict_escape cfg = false ->
    parse_frontmatter cfg (a ++ b) = None ->
    Forall (fun y => is_fence y = false) (lines_inclusive l) ->
    lex_at U a 0 = Some ta -> lex_at U l 0 = Some tl -> lex_at U b (blen a) = Some tb ->
    (ta = [] \/ exists p nl, ta = p ++ [nl] /\ kind nl = KNewline) -> blank_line tl ->
    reach (ta ++ tb) tb ->
    EditAnalysis.crlf_blind yaml_ok -> EditAnalysis.crlf_blind yaml ->
    EditAnalysis.src_no_text_mode U cfg x (a ++ b) ->
    EditAnalysis.same_parse_cfg ac U cfg ci_key yaml_ok find_iq unit_class x Y ystr yeqb yaml (a ++ b) (a ++ l ++ b).
Proof.
  intros ac cfg ci_key yaml_ok find_iq unit_class x Y ystr yeqb yaml a l b ta tl tb Hc F1 Hf La Ll Lb Hta Hl Hr By Bm Hm.
  apply EditAnalysis.parse_blind; try assumption.
  apply (extra_line_none U cfg gen_special_breaks gen_eol_breaks a l b ta tl tb); assumption.
Qed.
Print Assumptions C17_extra_line_recipe.

Theorem C17_extra_line_recipe_fm :
  forall ac cfg ci_key yaml_ok find_iq unit_class x Y ystr yeqb yaml s fm a l b ta tl tb,
    p_strict_escape cfg = false ->
    parse_frontmatter cfg s = Some fm -> cook_text fm = a ++ b -> a ++ b <> [] ->
    lex_at U a (cook_off fm) = Some ta -> lex_at U l 0 = Some tl -> lex_at U b (cook_off fm + blen a) = Some tb ->
    (ta = [] \/ exists p nl, ta = p ++ [nl] /\ kind nl = KNewline) -> blank_line tl ->
    reach (ta ++ tb) tb ->
    EditAnalysis.crlf_blind yaml_ok -> EditAnalysis.crlf_blind yaml ->
    EditAnalysis.src_no_text_mode U cfg x s ->
    EditAnalysis.same_parse_cfg ac U cfg ci_key yaml_ok find_iq unit_class x Y ystr yeqb yaml
      s (take_bytes s (cook_off fm) ++ a ++ l ++ b).
Proof.
  intros ac cfg ci_key yaml_ok find_iq unit_class x Y ystr yeqb yaml s fm a l b ta tl tb Hc F C Hne La Ll Lb Hta Hl Hr By Bm Hm.
  apply EditAnalysis.parse_blind; try assumption.
  apply (extra_line_some U cfg gen_special_breaks gen_eol_breaks s fm a l b ta tl tb); assumption.
Qed.
Print Assumptions C17_extra_line_recipe_fm.

(* an unspaced block comment directly after a word, before a blank, outside braces (hypotheses of
   [C17_mid_comment_events(_fm)]) *)
Theorem C17_mid_comment_recipe :
  forall ac cfg ci_key yaml_ok find_iq unit_class x Y ystr yeqb yaml a b c p wd ws tb',
    p_strict_escape cfg = false -> no_close c = true ->
    parse_frontmatter cfg (a ++ b) = None -> parse_frontmatter cfg (a ++ block_comment_text c ++ b) = None ->
    lex_at U a 0 = Some (p ++ [wd]) -> lex_at U b (blen a) = Some (ws :: tb') ->
    lex_at U (a ++ b) 0 = Some ((p ++ [wd]) ++ ws :: tb') ->
    is_single_word_tok (kind wd) = true -> kind ws = KWs -> mode_after MOut p = MOut ->
    EditAnalysis.crlf_blind yaml_ok -> EditAnalysis.crlf_blind yaml ->
    EditAnalysis.src_no_text_mode U cfg x (a ++ b) ->
    EditAnalysis.same_parse_cfg ac U cfg ci_key yaml_ok find_iq unit_class x Y ystr yeqb yaml
      (a ++ b) (a ++ block_comment_text c ++ b).
Proof.
  intros ac cfg ci_key yaml_ok find_iq unit_class x Y ystr yeqb yaml a b c p wd ws tb' Hs Hc F1 F2 La Lb Lab Kw Ks Hmo By Bm Hm.
  apply EditAnalysis.parse_blind; try assumption.
  apply (mid_comment_events_all cfg U gen_special_breaks gen_eol_breaks a b c p wd ws tb'); assumption.
Qed.
Print Assumptions C17_mid_comment_recipe.

Theorem C17_mid_comment_recipe_fm :
  forall ac cfg ci_key yaml_ok find_iq unit_class x Y ystr yeqb yaml s fm a b c p wd ws tb',
    p_strict_escape cfg = false -> no_close c = true ->
    parse_frontmatter cfg s = Some fm -> cook_text fm = a ++ b -> a ++ b <> [] ->
    lex_at U a (cook_off fm) = Some (p ++ [wd]) -> lex_at U b (cook_off fm + blen a) = Some (ws :: tb') ->
    lex_at U (a ++ b) (cook_off fm) = Some ((p ++ [wd]) ++ ws :: tb') ->
    is_single_word_tok (kind wd) = true -> kind ws = KWs -> mode_after MOut p = MOut ->
    EditAnalysis.crlf_blind yaml_ok -> EditAnalysis.crlf_blind yaml ->
    EditAnalysis.src_no_text_mode U cfg x s ->
    EditAnalysis.same_parse_cfg ac U cfg ci_key yaml_ok find_iq unit_class x Y ystr yeqb yaml
      s (take_bytes s (cook_off fm) ++ a ++ block_comment_text c ++ b).
Proof.
  intros ac cfg ci_key yaml_ok find_iq unit_class x Y ystr yeqb yaml s fm a b c p wd ws tb' Hs Hc F C Hne La Lb Lab Kw Ks Hmo By Bm Hm.
  apply EditAnalysis.parse_blind; try assumption.
  apply (mid_comment_events_fm_all cfg U gen_special_breaks gen_eol_breaks s fm a b c p wd ws tb'); assumption.
Qed.
Print Assumptions C17_mid_comment_recipe_fm.

(* the hypotheses are satisfiable: all extensions on (MODES included), "Add @salt and" with the
   comment after "salt"; oracles that ignore their argument are [crlf_blind]; the source selects
   text mode nowhere.  With C03_parse_total both parses then return the same recipe. *)
Definition cfg_all : pcfg :=
  {| p_ext := ExtBits.X_ALL; p_debug := true; p_strict_escape := false; p_note_label_old := false; p_fm_anywhere := false |}.
Definition x_all : Analysis.aext := {| Analysis.x_modes := true; Analysis.x_inline := true; Analysis.x_advanced := true |}.

Example C17_recipe_hypotheses_satisfiable :
  EditAnalysis.crlf_blind (fun _ : str => true)
  /\ EditAnalysis.crlf_blind (fun _ : str => @None (list (str * str)))
  /\ EditAnalysis.src_no_text_mode U cfg_all x_all ([65; 100; 100; 32; 64; 115; 97; 108; 116] ++ [32; 97; 110; 100])
  /\ parse_frontmatter cfg_all ([65; 100; 100; 32; 64; 115; 97; 108; 116] ++ [32; 97; 110; 100]) = None
  /\ parse_frontmatter cfg_all ([65; 100; 100; 32; 64; 115; 97; 108; 116] ++ block_comment_text [99] ++ [32; 97; 110; 100]) = None.
Proof.
  split; [intros a b _; reflexivity|]. split; [intros a b _; reflexivity|].
  split; [apply EditAnalysis.src_no_text_mode_dec; vm_compute; reflexivity|].
  split; vm_compute; reflexivity.
Qed.

Example C17_mid_comment_recipe_instance :
  forall ci_key find_iq unit_class,
    AnalysisTotal.iq_shrinks find_iq ->
    exists r,
      ParseTotal.parse_model U cfg_all ci_key (fun _ => true) find_iq unit_class x_all
        ([65; 100; 100; 32; 64; 115; 97; 108; 116] ++ [32; 97; 110; 100]) = Done r
      /\ ParseTotal.parse_model U cfg_all ci_key (fun _ => true) find_iq unit_class x_all
           ([65; 100; 100; 32; 64; 115; 97; 108; 116] ++ block_comment_text [99] ++ [32; 97; 110; 100]) = Done r.
Proof.
  intros ci_key find_iq unit_class Hq.
  destruct (ParseTotal.parse_total U cfg_all ci_key (fun _ => true) find_iq unit_class x_all
              ([65; 100; 100; 32; 64; 115; 97; 108; 116] ++ [32; 97; 110; 100]) eq_refl eq_refl Hq) as (r & E);
    [vm_compute; reflexivity|].
  exists r. split; [exact E|]. rewrite <- E. symmetry.
  destruct C17_recipe_hypotheses_satisfiable as (B1 & B2 & Hm & F1 & F2).
  refine (proj1 (C17_mid_comment_recipe Analysis.cfgF cfg_all ci_key (fun _ => true) find_iq unit_class x_all
            (list N) (fun s => s) (fun _ _ => true) (fun _ => None)
            [65; 100; 100; 32; 64; 115; 97; 108; 116] [32; 97; 110; 100] [99] _ _ _ _
            eq_refl eq_refl F1 F2 _ _ _ _ _ _ B1 B2 Hm)).
  - instantiate (2 := [_; _; _]). vm_compute. reflexivity.
  - vm_compute. reflexivity.
  - vm_compute. reflexivity.
  - reflexivity.
  - reflexivity.
  - reflexivity.
Qed.

(* ---------------------------------------------------------------- a trailing comment, trailing spaces *)
(* U+0020s and / or a line comment appended at the end of ANY line of the Cooklang part - inside a step,
   a component name, an alias, a note, a quantity, a modifier group, a metadata line, a section header,
   a paragraph; before a newline token or at the end of the input (Proofs/EditTrail*.v).

   [wsimb e l1 l2]: the right token list is the left one with blank tokens of U+0020 and line comment
   tokens inserted directly before a newline token (and, when [e], at the very end), and blank tokens
   standing there lengthened by U+0020s.  The parser is read relationally (logic [HJ], state relation
   [Sw]): the two runs are in step except at the very end of a step, where the edited side may do one
   more round of the loop and emit one blank text item.  [fwr]: the relation on event streams that
   results - same events up to positions; text events up to U+0020s inserted directly before a U+0020
   (the blank a line break renders to), the last text of a block also up to U+0020s at its end; one
   blank text item more before the End event, after a component; a warning may come or go (the lone
   marker of [C17_full_statement_refuted]); an error corresponds to an error. *)
From CL Require Proofs.EditTrailDefs Proofs.EditTrailStr Proofs.EditTrailPrim Proofs.EditTrailStep Proofs.EditTrailSplit
  Proofs.EditTrailLex Proofs.EditTrailObs Proofs.EditTrailAnalysis Proofs.EditTrailDoc Proofs.EditTrailFM Proofs.AnalysisTotal.

(* lexer: the tokens of the edited source (the line may already end with blanks: that token grows) *)
Theorem C17_trailing_lex :
  forall a b off ta tb w lc,
    lex_at U a off = Some ta -> lex_at U b (off + blen a) = Some tb -> lex_at U (a ++ b) off = Some (ta ++ tb) ->
    last_open_ended ta = false -> EditTrailLex.line_end b ->
    EditTrailDefs.sp32 w ->
    (lc = [] \/ exists c, lc = line_comment_text c /\ no_newline c = true /\ w <> []) ->
    exists ts2, lex_at U (a ++ (w ++ lc) ++ b) off = Some ts2 /\ EditTrailDefs.wsimb true (ta ++ tb) ts2.
Proof. exact (EditTrailLex.trail_tokens U gen_special_breaks gen_eol_breaks gen_blank_ws). Qed.
Print Assumptions C17_trailing_lex.

(* the text builder: related token lists render to [spins]-related strings, equally blank *)
Theorem C17_trailing_text :
  forall cfg e o1 o2 l1 l2,
    EditTrailDefs.wsimb e l1 l2 -> OR (EditTrailDefs.trw e) (text_of cfg o1 l1) (text_of cfg o2 l2).
Proof. exact EditTrailStr.wsimb_text. Qed.
Print Assumptions C17_trailing_text.

(* ... which the name / alias / note / unit / text-value reading (Text::text_trimmed) does not see *)
Theorem C17_trailing_text_trimmed :
  forall e t1 t2, EditTrailDefs.trw e t1 t2 -> text_trimmed t1 = text_trimmed t2 /\ is_text_empty t1 = is_text_empty t2.
Proof. intros e t1 t2 H. split; [exact (EditTrailStr.trw_trimmed e t1 t2 H) | exact (EditTrailStr.trw_empty e t1 t2 H)]. Qed.
Print Assumptions C17_trailing_text_trimmed.

(* the three components, a line end anywhere inside them (name, alias, modifiers, quantity, note) *)
Theorem C17_trailing_components :
  forall cfg,
    EditTrailDefs.WL EditTrailDefs.W (orel EditTrailStep.crel) (ingredient_p cfg) (ingredient_p cfg) EditTrailDefs.W
    /\ EditTrailDefs.WL EditTrailDefs.W (orel EditTrailStep.crel) (cookware_p cfg) (cookware_p cfg) EditTrailDefs.W
    /\ EditTrailDefs.WL EditTrailDefs.W (orel EditTrailStep.crel) (timer_p cfg) (timer_p cfg) EditTrailDefs.W.
Proof. intro cfg. repeat split; [apply EditTrailStep.ingredient_w | apply EditTrailStep.cookware_w | apply EditTrailStep.timer_w]. Qed.
Print Assumptions C17_trailing_components.

(* any block (a block that starts with `>>` is one line), block splitting and the block loop *)
Theorem C17_trailing_block :
  forall cfg blk1 blk2 evs1 evs2 old,
    EditTrailDefs.W blk1 blk2 -> EditTrailDefs.evw evs1 evs2 -> (EditInsPrim.hdk blk1 = KMeta -> EditTrailStr.no_nl blk1) ->
    OR EditTrailDefs.evw (run_block blk1 evs1 (parse_block cfg old)) (run_block blk2 evs2 (parse_block cfg old)).
Proof. exact EditTrailStep.block_w. Qed.
Print Assumptions C17_trailing_block.

Theorem C17_trailing_blocks :
  forall cfg f1 f2 ts1 ts2 old evs1 evs2,
    EditTrailDefs.W ts1 ts2 -> EditTrailDefs.evw evs1 evs2 ->
    OR EditTrailDefs.evw (blocks_loop cfg f1 ts1 old evs1) (blocks_loop cfg f2 ts2 old evs2).
Proof. exact EditTrailDoc.blocks_w. Qed.
Print Assumptions C17_trailing_blocks.

(* [fwr]-related event streams have the same observation ("up to whitespace inside step text":
   [observed]) and the same validity *)
Theorem C17_trailing_observed :
  forall e1 e2, EditTrailDefs.fwr e1 e2 -> ev_equiv_v (Done e2) (Done e1).
Proof.
  intros e1 e2 H. split.
  - symmetry. exact (EditTrailObs.fwr_observed e1 e2 H).
  - symmetry. exact (EditTrailObs.fwr_has_error e1 e2 H).
Qed.
Print Assumptions C17_trailing_observed.

Lemma OR_fwr_equiv cfg s1 s2 :
  p_strict_escape cfg = false -> OR EditTrailDefs.fwr (events U cfg s1) (events U cfg s2) ->
  ev_equiv_v (events U cfg s2) (events U cfg s1).
Proof.
  intros Hc H. destruct (events_ok U cfg s1 Hc) as (e1 & E1 & _). destruct (events_ok U cfg s2 Hc) as (e2 & E2 & _).
  rewrite E1, E2 in *. apply C17_trailing_observed. exact H.
Qed.

(* DOCUMENT level.  [a | b] is a line end of the source [a ++ b]: a token boundary, [b] empty or
   starting with LF or CRLF ([line_end]; before CRLF an appended comment takes the CR and the line then
   ends with LF: the tokens still correspond), the last token of [a] not one that swallows what follows (a line comment, an
   unterminated block comment, a lone backslash: [last_open_ended]).  Appended: [w], U+0020s, then
   nothing or a line comment `--c` ([trailing_text]: with the comment at least one blank, as in the
   statement's ` -- c`).  A line that already ends with blank space is covered (its last token grows).
   That the edited text has no front matter either needs no hypothesis: an appended blank or comment
   cannot make a fence line of a line that is none ([C17_trailing_fence]). *)
Theorem C17_trailing_fence :
  forall cfg a b w lc,
    parse_frontmatter cfg (a ++ b) = None -> EditTrailLex.line_end b -> EditTrailDoc.trailing_text w lc ->
    parse_frontmatter cfg (a ++ (w ++ lc) ++ b) = None.
Proof. exact EditTrailFM.parse_frontmatter_trail_none. Qed.
Print Assumptions C17_trailing_fence.

Theorem C17_trailing_comment_events :
  forall cfg a b ta tb w lc,
    p_strict_escape cfg = false ->
    parse_frontmatter cfg (a ++ b) = None ->
    lex_at U a 0 = Some ta -> lex_at U b (blen a) = Some tb -> lex_at U (a ++ b) 0 = Some (ta ++ tb) ->
    last_open_ended ta = false -> EditTrailLex.line_end b -> EditTrailDoc.trailing_text w lc ->
    ev_equiv_v (events U cfg (a ++ (w ++ lc) ++ b)) (events U cfg (a ++ b)).
Proof.
  intros cfg a b ta tb w lc Hs F1 La Lb Lab Ho Hb Ht. apply OR_fwr_equiv; [exact Hs|].
  pose proof (C17_trailing_fence cfg a b w lc F1 Hb Ht) as F2.
  apply (EditTrailDoc.trail_events U cfg gen_special_breaks gen_eol_breaks gen_blank_ws a b ta tb w lc); assumption.
Qed.
Print Assumptions C17_trailing_comment_events.

Theorem C17_trailing_comment_events_fm :
  forall cfg s fm a b ta tb w lc,
    p_strict_escape cfg = false ->
    parse_frontmatter cfg s = Some fm -> cook_text fm = a ++ b -> a ++ b <> [] ->
    lex_at U a (cook_off fm) = Some ta -> lex_at U b (cook_off fm + blen a) = Some tb ->
    lex_at U (a ++ b) (cook_off fm) = Some (ta ++ tb) ->
    last_open_ended ta = false -> EditTrailLex.line_end b -> EditTrailDoc.trailing_text w lc ->
    ev_equiv_v (events U cfg (take_bytes s (cook_off fm) ++ a ++ (w ++ lc) ++ b)) (events U cfg s).
Proof.
  intros cfg s fm a b ta tb w lc Hs F C Hne La Lb Lab Ho Hb Ht. apply OR_fwr_equiv; [exact Hs|].
  apply (EditTrailDoc.trail_events_fm U cfg gen_special_breaks gen_eol_breaks gen_blank_ws s fm a b ta tb w lc); assumption.
Qed.
Print Assumptions C17_trailing_comment_events_fm.

(* the two edits of the statement, spelled as there: ` --c`, and U+0020s alone *)
Theorem C17_trailing_edits_events :
  forall cfg a b ta tb,
    p_strict_escape cfg = false -> parse_frontmatter cfg (a ++ b) = None ->
    lex_at U a 0 = Some ta -> lex_at U b (blen a) = Some tb -> lex_at U (a ++ b) 0 = Some (ta ++ tb) ->
    last_open_ended ta = false -> EditTrailLex.line_end b ->
    (forall c, no_newline c = true ->
       ev_equiv_v (events U cfg (a ++ (32 :: line_comment_text c) ++ b)) (events U cfg (a ++ b)))
    /\ (forall w, EditTrailDefs.sp32 w ->
          ev_equiv_v (events U cfg (a ++ w ++ b)) (events U cfg (a ++ b))).
Proof.
  intros cfg a b ta tb Hs F1 La Lb Lab Ho Hb. split.
  - intros c Hc. change (32 :: line_comment_text c) with ([32] ++ line_comment_text c) in *.
    apply (C17_trailing_comment_events cfg a b ta tb [32] (line_comment_text c)); try assumption.
    split; [reflexivity|]. right. exists c. split; [reflexivity|]. split; [exact Hc | discriminate].
  - intros w Hw. rewrite <- (app_nil_r w).
    apply (C17_trailing_comment_events cfg a b ta tb w []); try assumption. split; [exact Hw | left; reflexivity].
Qed.
Print Assumptions C17_trailing_edits_events.

(* ANALYSIS up to blank space.  [rnorm] is the normal form of a recipe "up to whitespace inside step
   text" (Proofs/EditTrailAnalysis.v): in every step adjacent text items merged, runs of blanks and tabs
   squeezed to one U+0020, blanks dropped at the start and the end of the step, text items that become
   empty dropped ([norm_items], the shape of [norm] above); a paragraph squeezed and trimmed
   ([norm_text]); names, tables, numbers, relations, step numbers, the inline count exactly.
   [fwr]-related event streams give analysis outcomes with the same normal form, the same validity,
   the same panic site.  Hypotheses: as for [C17_analysis_blind], and [iq_ok]: the INLINE_QUANTITIES
   extension is off, or the oracle [find_iq] (find_inline_quantity) reads texts that differ in runs
   of U+0020 alike ([iq_ws_stable]: None together; else the texts before the match related strictly
   and the remainders related) and shrinks its argument ([iq_shrinks] of C03_parse_total). *)
Theorem C17_analysis_wblind :
  forall ci_key yaml_ok find_iq unit_class x acfg in1 in2 e1 e2,
    EditAnalysis.crlf_blind yaml_ok ->
    EditTrailDefs.fwr e1 e2 -> EditAnalysis.no_text_mode x e1 -> EditTrailDoc.iq_ok x find_iq ->
    EditTrailDoc.orelw
      (Analysis.analyse ci_key yaml_ok find_iq unit_class in1 x acfg (EventBridge.abstract_events e1))
      (Analysis.analyse ci_key yaml_ok find_iq unit_class in2 x acfg (EventBridge.abstract_events e2)).
Proof.
  intros ci_key yaml_ok find_iq unit_class x acfg in1 in2 e1 e2 By H Hm Hq.
  pose proof (EditTrailAnalysis.analyse_wblind_iq ci_key yaml_ok find_iq unit_class x acfg By in1 in2 e1 e2 H Hm Hq) as X.
  unfold EditTrailDoc.orelw.
  destruct (Analysis.analyse ci_key yaml_ok find_iq unit_class in1 x acfg (EventBridge.abstract_events e1)) as [[r1 v1]|p1];
    destruct (Analysis.analyse ci_key yaml_ok find_iq unit_class in2 x acfg (EventBridge.abstract_events e2)) as [[r2 v2]|p2]; exact X.
Qed.
Print Assumptions C17_analysis_wblind.

Theorem C17_metadata_wblind :
  forall (Y : Type) (ystr : str -> Y) (yeqb : Y -> Y -> bool) (yaml : str -> option (list (Y * Y))) modes e1 e2,
    EditAnalysis.crlf_blind yaml -> EditTrailDefs.fwr e1 e2 ->
    MetaMap.metadata_of Y ystr yeqb yaml modes e1 = MetaMap.metadata_of Y ystr yeqb yaml modes e2.
Proof. intros. apply EditTrailDoc.metadata_wblind; assumption. Qed.
Print Assumptions C17_metadata_wblind.

(* CooklangParser::parse: [same_parse_w] = the two outcomes have the same normal form [rnorm], the same
   validity, the same panic site if any (no panic: C03_parse_total), and the metadata maps are EQUAL *)
Theorem C17_trailing_comment_recipe :
  forall ac cfg ci_key yaml_ok find_iq unit_class x Y ystr yeqb yaml a b ta tb w lc,
    p_strict_escape cfg = false ->
    parse_frontmatter cfg (a ++ b) = None ->
    lex_at U a 0 = Some ta -> lex_at U b (blen a) = Some tb -> lex_at U (a ++ b) 0 = Some (ta ++ tb) ->
    last_open_ended ta = false -> EditTrailLex.line_end b -> EditTrailDoc.trailing_text w lc ->
    EditAnalysis.crlf_blind yaml_ok -> EditAnalysis.crlf_blind yaml ->
    EditAnalysis.src_no_text_mode U cfg x (a ++ b) -> EditTrailDoc.iq_ok x find_iq ->
    EditTrailDoc.same_parse_w ac U cfg ci_key yaml_ok find_iq unit_class x Y ystr yeqb yaml (a ++ b) (a ++ (w ++ lc) ++ b).
Proof.
  intros ac cfg ci_key yaml_ok find_iq unit_class x Y ystr yeqb yaml a b ta tb w lc Hs F1 La Lb Lab Ho Hb Ht By Bm Hm Hq.
  pose proof (C17_trailing_fence cfg a b w lc F1 Hb Ht) as F2.
  apply EditTrailDoc.parse_wblind; try assumption.
  apply (EditTrailDoc.trail_events U cfg gen_special_breaks gen_eol_breaks gen_blank_ws a b ta tb w lc); assumption.
Qed.
Print Assumptions C17_trailing_comment_recipe.

Theorem C17_trailing_comment_recipe_fm :
  forall ac cfg ci_key yaml_ok find_iq unit_class x Y ystr yeqb yaml s fm a b ta tb w lc,
    p_strict_escape cfg = false ->
    parse_frontmatter cfg s = Some fm -> cook_text fm = a ++ b -> a ++ b <> [] ->
    lex_at U a (cook_off fm) = Some ta -> lex_at U b (cook_off fm + blen a) = Some tb ->
    lex_at U (a ++ b) (cook_off fm) = Some (ta ++ tb) ->
    last_open_ended ta = false -> EditTrailLex.line_end b -> EditTrailDoc.trailing_text w lc ->
    EditAnalysis.crlf_blind yaml_ok -> EditAnalysis.crlf_blind yaml ->
    EditAnalysis.src_no_text_mode U cfg x s -> EditTrailDoc.iq_ok x find_iq ->
    EditTrailDoc.same_parse_w ac U cfg ci_key yaml_ok find_iq unit_class x Y ystr yeqb yaml
      s (take_bytes s (cook_off fm) ++ a ++ (w ++ lc) ++ b).
Proof.
  intros ac cfg ci_key yaml_ok find_iq unit_class x Y ystr yeqb yaml s fm a b ta tb w lc Hs F C Hne La Lb Lab Ho Hb Ht By Bm Hm Hq.
  apply EditTrailDoc.parse_wblind; try assumption.
  apply (EditTrailDoc.trail_events_fm U cfg gen_special_breaks gen_eol_breaks gen_blank_ws s fm a b ta tb w lc); assumption.
Qed.
Print Assumptions C17_trailing_comment_recipe_fm.

(* the hypotheses are satisfiable: "Mix @extra virgin" | "\nolive oil{} well", the line end INSIDE the
   component name, ` --c` appended; all extensions on; an inline-quantity oracle that never finds one *)
Definition tr_a : str := [77;105;120;32;64;101;120;116;114;97;32;118;105;114;103;105;110].
Definition tr_b : str := [10;111;108;105;118;101;32;111;105;108;123;125;32;119;101;108;108].

Example C17_trailing_hypotheses_satisfiable :
  exists ta tb,
    lex_at U tr_a 0 = Some ta /\ lex_at U tr_b (blen tr_a) = Some tb /\ lex_at U (tr_a ++ tr_b) 0 = Some (ta ++ tb)
    /\ last_open_ended ta = false /\ EditTrailLex.line_end tr_b
    /\ EditTrailDoc.trailing_text [32] (line_comment_text [99])
    /\ parse_frontmatter cfg_all (tr_a ++ tr_b) = None
    /\ EditAnalysis.src_no_text_mode U cfg_all x_all (tr_a ++ tr_b)
    /\ EditTrailDoc.iq_ok x_all (fun _ => None).
Proof.
  eexists. eexists. split; [vm_compute; reflexivity|]. split; [vm_compute; reflexivity|]. split; [vm_compute; reflexivity|].
  split; [vm_compute; reflexivity|]. split; [right; left; eexists; reflexivity|].
  split; [split; [reflexivity | right; exists [99]; split; [reflexivity | split; [reflexivity | discriminate]]]|].
  split; [vm_compute; reflexivity|].
  split; [apply EditAnalysis.src_no_text_mode_dec; vm_compute; reflexivity|].
  right. split.
  - intros e s1 s2 _. exact I.
  - intros s b0 a0 H. discriminate H.
Qed.

(* what the theorem says there: the ingredient is called "extra virgin olive oil" on both sides *)
Example C17_trailing_name_instance :
  match events U cfg_all (tr_a ++ tr_b), events U cfg_all (tr_a ++ ([32] ++ line_comment_text [99]) ++ tr_b) with
  | Done e1, Done e2 => map proj e1 = map proj e2
                        /\ existsb (fun e => match e with
                                             | PIngr _ _ n _ _ _ => str_eqb n [101;120;116;114;97;32;118;105;114;103;105;110;32;111;108;105;118;101;32;111;105;108]
                                             | _ => false end) (map proj e1) = true
  | _, _ => False
  end.
Proof. vm_compute. split; reflexivity. Qed.

(* TRAILING TAB: the statement says "trailing spaces".  With a TAB the generalisation is false on the
   model, and on the implementation (replayed through harness/src/bin/recipe.rs, both profiles):
   "Mix @extra virgin<TAB>\nolive oil{} well" names the ingredient "extra virgin<TAB> olive oil" -
   Text::text_trimmed collapses runs of U+0020 only, and the line break renders as U+0020 after the
   TAB.  Every other hypothesis of [C17_trailing_comment_events] holds.  (The monitor appends U+0020
   only; TAB / mixed blanks are a reported probe.) *)
Theorem C17_trailing_tab_refuted :
  exists ta tb,
    parse_frontmatter cfg_plain (tr_a ++ tr_b) = None /\ parse_frontmatter cfg_plain (tr_a ++ [9] ++ tr_b) = None
    /\ lex_at U tr_a 0 = Some ta /\ lex_at U tr_b (blen tr_a) = Some tb /\ lex_at U (tr_a ++ tr_b) 0 = Some (ta ++ tb)
    /\ last_open_ended ta = false /\ EditTrailLex.line_end tr_b /\ forallb is_blank [9] = true
    /\ ~ ev_equiv_v (events U cfg_plain (tr_a ++ [9] ++ tr_b)) (events U cfg_plain (tr_a ++ tr_b)).
Proof.
  eexists. eexists. split; [vm_compute; reflexivity|]. split; [vm_compute; reflexivity|].
  split; [vm_compute; reflexivity|]. split; [vm_compute; reflexivity|]. split; [vm_compute; reflexivity|].
  split; [vm_compute; reflexivity|]. split; [right; left; eexists; reflexivity|]. split; [reflexivity|].
  intro H.
  assert (E : exists e1 e2, events U cfg_plain (tr_a ++ [9] ++ tr_b) = Done e1 /\ events U cfg_plain (tr_a ++ tr_b) = Done e2
                            /\ observed e1 <> observed e2).
  { eexists. eexists. split; [vm_compute; reflexivity|]. split; [vm_compute; reflexivity|]. vm_compute. discriminate. }
  destruct E as (e1 & e2 & E1 & E2 & D). rewrite E1, E2 in H. destruct H as [H _]. exact (D H).
Qed.
Print Assumptions C17_trailing_tab_refuted.

(* a block comment between the value and the unit of an inline quantity, "Bake at 180" | " C now" (every
   hypothesis of [C17_mid_comment_recipe] holds, [C17_mid_comment_number_satisfiable]): the step text is
   assembled without the comment, so whatever the inline-quantity oracle answers it is asked the same *)
Example C17_mid_comment_inline_instance :
  forall ci_key find_iq unit_class,
    EditAnalysis.same_parse_cfg Analysis.cfgF U cfg_all ci_key (fun _ => true) find_iq unit_class x_all
      (list N) (fun s => s) (fun _ _ => true) (fun _ => None)
      ([66; 97; 107; 101; 32; 97; 116; 32; 49; 56; 48] ++ [32; 67; 32; 110; 111; 119])
      ([66; 97; 107; 101; 32; 97; 116; 32; 49; 56; 48] ++ block_comment_text [99] ++ [32; 67; 32; 110; 111; 119]).
Proof.
  intros ci_key find_iq unit_class.
  refine (C17_mid_comment_recipe Analysis.cfgF cfg_all ci_key (fun _ => true) find_iq unit_class x_all
            (list N) (fun s => s) (fun _ _ => true) (fun _ => None)
            [66; 97; 107; 101; 32; 97; 116; 32; 49; 56; 48] [32; 67; 32; 110; 111; 119] [99] _ _ _ _
            eq_refl eq_refl _ _ _ _ _ _ _ _ _ _ _).
  - vm_compute. reflexivity.
  - vm_compute. reflexivity.
  - instantiate (2 := [_; _; _; _]). vm_compute. reflexivity.
  - vm_compute. reflexivity.
  - vm_compute. reflexivity.
  - reflexivity.
  - reflexivity.
  - reflexivity.
  - intros a b _. reflexivity.
  - intros a b _. reflexivity.
  - apply EditAnalysis.src_no_text_mode_dec. vm_compute. reflexivity.
Qed.

(* ---------------------------------------------------------------- text mode *)
(* ">> [mode]: text\n@sea" | " salt{}": the comment goes after the word "sea", before the blank,
   outside braces - every hypothesis of [C17_mid_comment_events] holds and the events are
   [proj]-equal - but the block is read in text mode, where the collector copies the component's
   source.  With the code before the repair 200c896 ([Analysis.cfgT]) the copy included the comment:
   Content::Text("@sea salt{}") against Content::Text("@sea[-c-] salt{}").  The implementation at
   17e6a01 did the same (replayed through harness/src/bin/recipe.rs, all extensions, both results
   valid); also with CRLF ("@a\nb{}" / "@a\r\nb{}") and with a trailing comment inside a component
   that spans two lines. *)
Definition tm_a : str := [62;62;32;91;109;111;100;101;93;58;32;116;101;120;116;10; 64;115;101;97].
Definition tm_b : str := [32;115;97;108;116;123;125].

Theorem C17_text_mode_refuted_before_fix :
  exists p wd ws tb',
    parse_frontmatter cfg_all (tm_a ++ tm_b) = None
    /\ parse_frontmatter cfg_all (tm_a ++ block_comment_text [99] ++ tm_b) = None
    /\ lex_at U tm_a 0 = Some (p ++ [wd]) /\ lex_at U tm_b (blen tm_a) = Some (ws :: tb')
    /\ lex_at U (tm_a ++ tm_b) 0 = Some ((p ++ [wd]) ++ ws :: tb')
    /\ is_single_word_tok (kind wd) = true /\ kind ws = KWs /\ mode_after MOut p = MOut
    /\ forall ci_key yaml_ok find_iq unit_class,
         EditAnalysis.parse_model_cfg Analysis.cfgT U cfg_all ci_key yaml_ok find_iq unit_class x_all
           (tm_a ++ block_comment_text [99] ++ tm_b)
         <> EditAnalysis.parse_model_cfg Analysis.cfgT U cfg_all ci_key yaml_ok find_iq unit_class x_all (tm_a ++ tm_b).
Proof.
  eexists (firstn 10 (match lex_at U tm_a 0 with Some t => t | None => [] end)), _, _, _.
  split; [vm_compute; reflexivity|]. split; [vm_compute; reflexivity|].
  split; [vm_compute; reflexivity|]. split; [vm_compute; reflexivity|]. split; [vm_compute; reflexivity|].
  split; [reflexivity|]. split; [reflexivity|]. split; [vm_compute; reflexivity|].
  intros ci_key yaml_ok find_iq unit_class. vm_compute. discriminate.
Qed.
Print Assumptions C17_text_mode_refuted_before_fix.

(* the same pair with the code as it is now: equal recipes *)
Example C17_text_mode_fixed_instance :
  forall ci_key yaml_ok find_iq unit_class,
    ParseTotal.parse_model U cfg_all ci_key yaml_ok find_iq unit_class x_all (tm_a ++ block_comment_text [99] ++ tm_b)
    = ParseTotal.parse_model U cfg_all ci_key yaml_ok find_iq unit_class x_all (tm_a ++ tm_b).
Proof. intros. vm_compute. reflexivity. Qed.

(* What text mode keeps of a component's source after the repair: [Analysis.strip_comments], defined
   by the comment mask of Model/CommentMask.v.  It is what the code computes - the texts of the tokens
   of `lexer::Cursor` over the slice, LineComment and BlockComment tokens left out: *)
Theorem C17_strip_is_lexer :
  forall s off ts,
    lex_at U s off = Some ts ->
    Analysis.strip_comments s = concat (map tstr (filter EditAnalysis.not_comment ts)).
Proof. exact (EditAnalysis.strip_comments_is_lexer U gen_special_breaks). Qed.
Print Assumptions C17_strip_is_lexer.

(* a block comment at a token boundary of the source, after a token that is not open-ended, does
   not change it ("@sea[-c-] salt{}" / "@sea salt{}") *)
Theorem C17_strip_mid_comment :
  forall a b ta tb c,
    no_close c = true ->
    lex_at U a 0 = Some ta -> lex_at U b (blen a) = Some tb -> lex_at U (a ++ b) 0 = Some (ta ++ tb) ->
    last_open_ended ta = false ->
    Analysis.strip_comments (a ++ block_comment_text c ++ b) = Analysis.strip_comments (a ++ b).
Proof. exact (EditAnalysis.strip_mid_comment U gen_special_breaks gen_eol_breaks). Qed.
Print Assumptions C17_strip_mid_comment.

(* CRLF conversion changes it in its line endings only (a step may wrap inside a component) *)
Theorem C17_strip_crlf :
  forall s,
    no_backslash s = true -> no_lone_cr s = true ->
    EditAnalysis.drop_cr (Analysis.strip_comments (crlf s)) = EditAnalysis.drop_cr (Analysis.strip_comments s).
Proof. exact (EditAnalysis.strip_crlf U gen_special_breaks gen_eol_breaks). Qed.
Print Assumptions C17_strip_crlf.

(* ---------------------------------------------------------------- a padded block comment: `word [- c -] next` *)
(* The blank between a word (or number) and what follows it replaced by blank + block comment + blank; also the
   comment glued to what follows (`word [- c -]next`), longer runs of U+0020 on either side.  The text assembled
   without the comment then holds a blank more (`word  next`): as for the trailing edit, step and paragraph text
   is related up to runs of U+0020 ([fwr]), while names, aliases, notes, units, text values, section names and
   metadata keys - read through Text::text_trimmed - are EQUAL (Proofs/EditPad*.v).

   [psim m l1 l2]: the right token list is the left one where a blank token that stands directly after a word or
   number token, outside braces and not in the value of a metadata line ([pmode]: [gap_ok]), is replaced by a GAP -
   blank and block comment tokens, a blank token first - whose blanks concatenated are the text of the replaced
   token with U+0020s inserted before a U+0020 ([gapl]).  [qsim]: the same without places (what a function that is
   handed a token list needs).  Both runs stand before a blank token wherever one of them does, so they are in
   step throughout: one relation on the remaining tokens ([pany]); a paragraph line starts without a gap ([pnog]),
   a block at the first token of a line ([pstart]). *)
From CL Require Proofs.EditPadDefs Proofs.EditPadPrim Proofs.EditPadFun Proofs.EditPadStep Proofs.EditPadSplit Proofs.EditPadDoc.

(* lexer: the tokens of the source [a ++ b] and of the edited text; [x1] lengthens the blank token [ws] that ends
   [a], [x2] is a blank token of its own *)
Theorem C17_padded_lex :
  forall a b c x1 x2 off p wd ws tb' d y,
    no_close c = true -> EditTrailDefs.sp32 x1 -> EditTrailDefs.sp32 x2 ->
    lex_at U a off = Some (p ++ [wd; ws]) -> b = d :: y -> is_lex_ws U d = false -> lex_at U b (off + blen a) = Some tb' ->
    is_single_word_tok (kind wd) = true -> kind ws = KWs -> mode_after MOut p = MOut ->
    EditPadDoc.lmode_after EditPadDefs.LStart p <> EditPadDefs.LVal ->
    (x1 ++ x2 = [] \/ exists u, tstr ws = u ++ [32]) ->
    exists ts2, lex_at U (a ++ b) off = Some ((p ++ [wd; ws]) ++ tb')
                /\ lex_at U (a ++ (x1 ++ block_comment_text c ++ x2) ++ b) off = Some ts2
                /\ EditPadDefs.pline ((p ++ [wd; ws]) ++ tb') ts2.
Proof. exact (EditPadDoc.pad_tokens U gen_special_breaks gen_eol_breaks gen_blank_ws). Qed.
Print Assumptions C17_padded_lex.

(* the text builder: token lists that differ by gaps render to [spins]-related strings, equally blank ... *)
Theorem C17_padded_text :
  forall cfg o1 o2 l1 l2,
    EditPadDefs.qsim l1 l2 -> OR (EditTrailDefs.trw false) (text_of cfg o1 l1) (text_of cfg o2 l2).
Proof. exact EditPadPrim.qsim_text. Qed.
Print Assumptions C17_padded_text.

(* ... which the name / alias / note / unit / text-value / section-name / metadata-key reading does not see:
   [C17_trailing_text_trimmed] *)

(* the three components, a gap anywhere between the words of the name, the alias, the note, after a one-word
   component, inside `&(...)` *)
Theorem C17_padded_components :
  forall cfg,
    EditTrailDefs.WL EditPadDefs.pany (orel EditTrailStep.crel) (ingredient_p cfg) (ingredient_p cfg) EditPadDefs.pany
    /\ EditTrailDefs.WL EditPadDefs.pany (orel EditTrailStep.crel) (cookware_p cfg) (cookware_p cfg) EditPadDefs.pany
    /\ EditTrailDefs.WL EditPadDefs.pany (orel EditTrailStep.crel) (timer_p cfg) (timer_p cfg) EditPadDefs.pany.
Proof. intro cfg. repeat split; [apply EditPadStep.ingredient_pp | apply EditPadStep.cookware_pp | apply EditPadStep.timer_pp]. Qed.
Print Assumptions C17_padded_components.

(* the metadata line: the key up to blank runs, the VALUE in lock step (no gap stands there) *)
Theorem C17_padded_metadata_entry :
  forall cfg,
    HJ (EditTrailDefs.Sw (EditPadFun.pL EditPadDefs.LStart)) (metadata_entry cfg) (metadata_entry cfg)
       (fun o1 s1 o2 s2 => orel EditPadFun.mdp o1 o2 /\ EditTrailDefs.Sw EditPadDefs.pany s1 s2).
Proof. exact EditPadFun.metadata_entry_p. Qed.
Print Assumptions C17_padded_metadata_entry.

(* any block, block splitting and the block loop *)
Theorem C17_padded_block :
  forall cfg blk1 blk2 evs1 evs2 old,
    EditPadStep.pstart blk1 blk2 -> EditTrailDefs.evw evs1 evs2 ->
    OR EditTrailDefs.evw (run_block blk1 evs1 (parse_block cfg old)) (run_block blk2 evs2 (parse_block cfg old)).
Proof. exact EditPadStep.block_p. Qed.
Print Assumptions C17_padded_block.

Theorem C17_padded_blocks :
  forall cfg f1 f2 ts1 ts2 old evs1 evs2,
    EditPadDefs.pline ts1 ts2 -> EditTrailDefs.evw evs1 evs2 ->
    OR EditTrailDefs.evw (blocks_loop cfg f1 ts1 old evs1) (blocks_loop cfg f2 ts2 old evs2).
Proof. exact EditPadDoc.blocks_p. Qed.
Print Assumptions C17_padded_blocks.

(* DOCUMENT level.  [a | b] is a token boundary of the source [a ++ b]: [a] ends with a word or number token [wd]
   and a blank token [ws], [b] starts with a character that is not blank space (so [ws] is the whole blank run;
   [b] is not empty: at the end of a line the edit is the trailing one).  Inserted at the boundary:
   [x1 ++ [-c-] ++ x2], [x1] and [x2] made of U+0020 - `word [- c -] next` is [x1 = []], [x2 = " "]; the glued
   spelling `word [- c -]next` is [x1 = x2 = []]; `word  [- c -]  next` is [x1 = " "], [x2 = "  "].
   Places: outside braces ([mode_after MOut p = MOut]); not in the value of a metadata line
   ([lmode_after LStart p <> LVal]: [p] does not end in a line whose first token is `>>` after its first colon) -
   step text, paragraph text, component names, aliases, notes, after a one-word component, section names,
   metadata KEYS.  When a blank is added the blank run must end with U+0020.  The hypothesis on the edited source
   is needed as for [C17_mid_comment_events] (a block comment may hold fence lines). *)
Theorem C17_padded_comment_events :
  forall cfg a b c x1 x2 p wd ws tb' d y,
    p_strict_escape cfg = false -> no_close c = true -> EditTrailDefs.sp32 x1 -> EditTrailDefs.sp32 x2 ->
    parse_frontmatter cfg (a ++ b) = None -> parse_frontmatter cfg (a ++ (x1 ++ block_comment_text c ++ x2) ++ b) = None ->
    lex_at U a 0 = Some (p ++ [wd; ws]) -> b = d :: y -> is_lex_ws U d = false -> lex_at U b (blen a) = Some tb' ->
    is_single_word_tok (kind wd) = true -> kind ws = KWs -> mode_after MOut p = MOut ->
    EditPadDoc.lmode_after EditPadDefs.LStart p <> EditPadDefs.LVal ->
    (x1 ++ x2 = [] \/ exists u, tstr ws = u ++ [32]) ->
    ev_equiv_v (events U cfg (a ++ (x1 ++ block_comment_text c ++ x2) ++ b)) (events U cfg (a ++ b)).
Proof.
  intros cfg a b c x1 x2 p wd ws tb' d y Hs Hc H1 H2 F1 F2 La Eb Hd Lb Kw Ks Hm Hl Hsp. apply OR_fwr_equiv; [exact Hs|].
  apply (EditPadDoc.pad_events U cfg gen_special_breaks gen_eol_breaks gen_blank_ws a b c x1 x2 p wd ws tb' d y); assumption.
Qed.
Print Assumptions C17_padded_comment_events.

Theorem C17_padded_comment_events_fm :
  forall cfg s fm a b c x1 x2 p wd ws tb' d y,
    p_strict_escape cfg = false -> no_close c = true -> EditTrailDefs.sp32 x1 -> EditTrailDefs.sp32 x2 ->
    parse_frontmatter cfg s = Some fm -> cook_text fm = a ++ b ->
    lex_at U a (cook_off fm) = Some (p ++ [wd; ws]) -> b = d :: y -> is_lex_ws U d = false ->
    lex_at U b (cook_off fm + blen a) = Some tb' ->
    is_single_word_tok (kind wd) = true -> kind ws = KWs -> mode_after MOut p = MOut ->
    EditPadDoc.lmode_after EditPadDefs.LStart p <> EditPadDefs.LVal ->
    (x1 ++ x2 = [] \/ exists u, tstr ws = u ++ [32]) ->
    ev_equiv_v (events U cfg (take_bytes s (cook_off fm) ++ a ++ (x1 ++ block_comment_text c ++ x2) ++ b)) (events U cfg s).
Proof.
  intros cfg s fm a b c x1 x2 p wd ws tb' d y Hs Hc H1 H2 F C La Eb Hd Lb Kw Ks Hm Hl Hsp. apply OR_fwr_equiv; [exact Hs|].
  apply (EditPadDoc.pad_events_fm U cfg gen_special_breaks gen_eol_breaks gen_blank_ws s fm a b c x1 x2 p wd ws tb' d y); assumption.
Qed.
Print Assumptions C17_padded_comment_events_fm.

(* CooklangParser::parse: the same normal form [rnorm] of the recipe ("up to whitespace inside step text"), the same
   validity, the same panic site if any, and EQUAL metadata maps ([same_parse_w]); hypotheses on the oracles as for
   the trailing edit ([C17_analysis_wblind]) *)
Theorem C17_padded_comment_recipe :
  forall ac cfg ci_key yaml_ok find_iq unit_class x Y ystr yeqb yaml a b c x1 x2 p wd ws tb' d y,
    p_strict_escape cfg = false -> no_close c = true -> EditTrailDefs.sp32 x1 -> EditTrailDefs.sp32 x2 ->
    parse_frontmatter cfg (a ++ b) = None -> parse_frontmatter cfg (a ++ (x1 ++ block_comment_text c ++ x2) ++ b) = None ->
    lex_at U a 0 = Some (p ++ [wd; ws]) -> b = d :: y -> is_lex_ws U d = false -> lex_at U b (blen a) = Some tb' ->
    is_single_word_tok (kind wd) = true -> kind ws = KWs -> mode_after MOut p = MOut ->
    EditPadDoc.lmode_after EditPadDefs.LStart p <> EditPadDefs.LVal ->
    (x1 ++ x2 = [] \/ exists u, tstr ws = u ++ [32]) ->
    EditAnalysis.crlf_blind yaml_ok -> EditAnalysis.crlf_blind yaml ->
    EditAnalysis.src_no_text_mode U cfg x (a ++ b) -> EditTrailDoc.iq_ok x find_iq ->
    EditTrailDoc.same_parse_w ac U cfg ci_key yaml_ok find_iq unit_class x Y ystr yeqb yaml
      (a ++ b) (a ++ (x1 ++ block_comment_text c ++ x2) ++ b).
Proof.
  intros ac cfg ci_key yaml_ok find_iq unit_class x Y ystr yeqb yaml a b c x1 x2 p wd ws tb' d y
         Hs Hc H1 H2 F1 F2 La Eb Hd Lb Kw Ks Hm Hl Hsp By Bm Hmo Hq.
  apply EditTrailDoc.parse_wblind; try assumption.
  apply (EditPadDoc.pad_events U cfg gen_special_breaks gen_eol_breaks gen_blank_ws a b c x1 x2 p wd ws tb' d y); assumption.
Qed.
Print Assumptions C17_padded_comment_recipe.

Theorem C17_padded_comment_recipe_fm :
  forall ac cfg ci_key yaml_ok find_iq unit_class x Y ystr yeqb yaml s fm a b c x1 x2 p wd ws tb' d y,
    p_strict_escape cfg = false -> no_close c = true -> EditTrailDefs.sp32 x1 -> EditTrailDefs.sp32 x2 ->
    parse_frontmatter cfg s = Some fm -> cook_text fm = a ++ b ->
    lex_at U a (cook_off fm) = Some (p ++ [wd; ws]) -> b = d :: y -> is_lex_ws U d = false ->
    lex_at U b (cook_off fm + blen a) = Some tb' ->
    is_single_word_tok (kind wd) = true -> kind ws = KWs -> mode_after MOut p = MOut ->
    EditPadDoc.lmode_after EditPadDefs.LStart p <> EditPadDefs.LVal ->
    (x1 ++ x2 = [] \/ exists u, tstr ws = u ++ [32]) ->
    EditAnalysis.crlf_blind yaml_ok -> EditAnalysis.crlf_blind yaml ->
    EditAnalysis.src_no_text_mode U cfg x s -> EditTrailDoc.iq_ok x find_iq ->
    EditTrailDoc.same_parse_w ac U cfg ci_key yaml_ok find_iq unit_class x Y ystr yeqb yaml
      s (take_bytes s (cook_off fm) ++ a ++ (x1 ++ block_comment_text c ++ x2) ++ b).
Proof.
  intros ac cfg ci_key yaml_ok find_iq unit_class x Y ystr yeqb yaml s fm a b c x1 x2 p wd ws tb' d y
         Hs Hc H1 H2 F C La Eb Hd Lb Kw Ks Hm Hl Hsp By Bm Hmo Hq.
  apply EditTrailDoc.parse_wblind; try assumption.
  apply (EditPadDoc.pad_events_fm U cfg gen_special_breaks gen_eol_breaks gen_blank_ws s fm a b c x1 x2 p wd ws tb' d y); assumption.
Qed.
Print Assumptions C17_padded_comment_recipe_fm.

(* the hypotheses are satisfiable: "Add @sea " | "salt{} and stir" with " [- c -] " made of the blank that is there,
   the comment and [x2 = " "] - the boundary lies INSIDE the component name; all extensions on *)
Definition pd_a : str := [65;100;100;32;64;115;101;97;32].
Definition pd_b : str := [115;97;108;116;123;125;32;97;110;100;32;115;116;105;114].
Definition pd_c : str := [32;99;32].

Example C17_padded_hypotheses_satisfiable :
  exists p wd ws tb' d y,
    lex_at U pd_a 0 = Some (p ++ [wd; ws]) /\ pd_b = d :: y /\ is_lex_ws U d = false /\ lex_at U pd_b (blen pd_a) = Some tb'
    /\ is_single_word_tok (kind wd) = true /\ kind ws = KWs /\ mode_after MOut p = MOut
    /\ EditPadDoc.lmode_after EditPadDefs.LStart p <> EditPadDefs.LVal
    /\ (exists u, tstr ws = u ++ [32])
    /\ no_close pd_c = true /\ EditTrailDefs.sp32 [] /\ EditTrailDefs.sp32 [32]
    /\ parse_frontmatter cfg_all (pd_a ++ pd_b) = None
    /\ parse_frontmatter cfg_all (pd_a ++ ([] ++ block_comment_text pd_c ++ [32]) ++ pd_b) = None
    /\ EditAnalysis.src_no_text_mode U cfg_all x_all (pd_a ++ pd_b)
    /\ EditTrailDoc.iq_ok x_all (fun _ => None).
Proof.
  eexists [_; _; _], _, _, _, _, _. split; [vm_compute; reflexivity|]. split; [reflexivity|]. split; [vm_compute; reflexivity|].
  split; [vm_compute; reflexivity|]. split; [reflexivity|]. split; [reflexivity|]. split; [reflexivity|].
  split; [vm_compute; discriminate|]. split; [exists []; reflexivity|]. split; [reflexivity|]. split; [reflexivity|]. split; [reflexivity|].
  split; [vm_compute; reflexivity|]. split; [vm_compute; reflexivity|].
  split; [apply EditAnalysis.src_no_text_mode_dec; vm_compute; reflexivity|].
  right. split.
  - intros e s1 s2 _. exact I.
  - intros s b0 a0 H. discriminate H.
Qed.

(* what the theorems say there, twice: "Add @sea [- c -] salt{} and [- d -] stir" against "Add @sea salt{} and stir" -
   the ingredient is called "sea salt" on both sides, the step text differs by one blank *)
Definition pd_src : str := pd_a ++ pd_b.
Definition pd_ed2 : str :=
  [65;100;100;32;64;115;101;97;32] ++ block_comment_text [32;99;32] ++ [32;115;97;108;116;123;125;32;97;110;100;32]
  ++ block_comment_text [32;100;32] ++ [32;115;116;105;114].

Example C17_padded_instance :
  ev_equiv_v (events U cfg_all pd_ed2) (events U cfg_all pd_src)
  /\ match events U cfg_all pd_src, events U cfg_all pd_ed2 with
     | Done e1, Done e2 =>
         existsb (fun e => match e with PIngr _ _ n _ _ _ => str_eqb n [115;101;97;32;115;97;108;116] | _ => false end) (map proj e1) = true
         /\ existsb (fun e => match e with PIngr _ _ n _ _ _ => str_eqb n [115;101;97;32;115;97;108;116] | _ => false end) (map proj e2) = true
         /\ existsb (fun e => match e with PText t => str_eqb t [32;97;110;100;32;115;116;105;114] | _ => false end) (map proj e1) = true
         /\ existsb (fun e => match e with PText t => str_eqb t [32;97;110;100;32;32;115;116;105;114] | _ => false end) (map proj e2) = true
     | _, _ => False
     end.
Proof. split; [vm_compute; split; reflexivity | vm_compute; repeat split; reflexivity]. Qed.

(* ... and from the theorem: one padded comment, CooklangParser::parse *)
Example C17_padded_recipe_instance :
  forall ci_key find_iq unit_class,
    EditTrailDoc.iq_ok x_all find_iq ->
    EditTrailDoc.same_parse_w Analysis.cfgF U cfg_all ci_key (fun _ => true) find_iq unit_class x_all
      (list N) (fun s => s) (fun _ _ => true) (fun _ => None)
      (pd_a ++ pd_b) (pd_a ++ ([] ++ block_comment_text pd_c ++ [32]) ++ pd_b).
Proof.
  intros ci_key find_iq unit_class Hq.
  refine (C17_padded_comment_recipe Analysis.cfgF cfg_all ci_key (fun _ => true) find_iq unit_class x_all
            (list N) (fun s => s) (fun _ _ => true) (fun _ => None)
            pd_a pd_b pd_c [] [32] _ _ _ _ _ _ eq_refl eq_refl eq_refl eq_refl _ _ _ eq_refl _ _ _ _ _ _ _ _ _ _ Hq).
  - vm_compute. reflexivity.
  - vm_compute. reflexivity.
  - instantiate (3 := [_; _; _]). vm_compute. reflexivity.
  - vm_compute. reflexivity.
  - vm_compute. reflexivity.
  - reflexivity.
  - reflexivity.
  - reflexivity.
  - vm_compute. discriminate.
  - right. exists []. reflexivity.
  - intros a b _. reflexivity.
  - intros a b _. reflexivity.
  - apply EditAnalysis.src_no_text_mode_dec. vm_compute. reflexivity.
Qed.

(* THE PLACES ARE NEEDED.  (1) The VALUE of a metadata line is read through str::trim only: ">> k: a " | "b" with
   "[- c -] " inserted reads "a  b".  Every other hypothesis of [C17_padded_comment_events] holds; the
   implementation does the same (replayed through harness/src/bin/recipe.rs).  The statement of the property speaks
   of whitespace inside STEP TEXT, the monitor's padded edit is not judged inside metadata values
   (probe_value_spaced of checks/c17_edits.py). *)
Definition pv_a : str := [62;62;32;107;58;32;97;32].
Definition pv_b : str := [98].

Theorem C17_padded_meta_value_refuted :
  exists p wd ws tb' d y,
    parse_frontmatter cfg_plain (pv_a ++ pv_b) = None
    /\ parse_frontmatter cfg_plain (pv_a ++ ([] ++ block_comment_text pd_c ++ [32]) ++ pv_b) = None
    /\ lex_at U pv_a 0 = Some (p ++ [wd; ws]) /\ pv_b = d :: y /\ is_lex_ws U d = false /\ lex_at U pv_b (blen pv_a) = Some tb'
    /\ is_single_word_tok (kind wd) = true /\ kind ws = KWs /\ mode_after MOut p = MOut
    /\ (exists u, tstr ws = u ++ [32])
    /\ EditPadDoc.lmode_after EditPadDefs.LStart p = EditPadDefs.LVal
    /\ ~ ev_equiv_v (events U cfg_plain (pv_a ++ ([] ++ block_comment_text pd_c ++ [32]) ++ pv_b)) (events U cfg_plain (pv_a ++ pv_b)).
Proof.
  eexists [_; _; _; _; _], _, _, _, _, _. split; [vm_compute; reflexivity|]. split; [vm_compute; reflexivity|].
  split; [vm_compute; reflexivity|]. split; [reflexivity|]. split; [vm_compute; reflexivity|]. split; [vm_compute; reflexivity|].
  split; [reflexivity|]. split; [reflexivity|]. split; [reflexivity|]. split; [exists []; reflexivity|]. split; [vm_compute; reflexivity|].
  intro H.
  assert (E : exists e1 e2, events U cfg_plain (pv_a ++ ([] ++ block_comment_text pd_c ++ [32]) ++ pv_b) = Done e1
                            /\ events U cfg_plain (pv_a ++ pv_b) = Done e2 /\ observed e1 <> observed e2).
  { eexists. eexists. split; [vm_compute; reflexivity|]. split; [vm_compute; reflexivity|]. vm_compute. discriminate. }
  destruct E as (e1 & e2 & E1 & E2 & D). rewrite E1, E2 in H. destruct H as [H _]. exact (D H).
Qed.
Print Assumptions C17_padded_meta_value_refuted.

(* (2) The blank that is lengthened must end with U+0020: "@sea<TAB>" | "salt{}" with "[- c -] " inserted names the
   ingredient "sea<TAB> salt" - Text::text_trimmed collapses runs of U+0020 only (as in [C17_trailing_tab_refuted];
   same on the implementation). *)
Definition pt_a : str := [64;115;101;97;9].
Definition pt_b : str := [115;97;108;116;123;125].

Theorem C17_padded_tab_refuted :
  exists p wd ws tb' d y,
    parse_frontmatter cfg_plain (pt_a ++ pt_b) = None
    /\ parse_frontmatter cfg_plain (pt_a ++ ([] ++ block_comment_text pd_c ++ [32]) ++ pt_b) = None
    /\ lex_at U pt_a 0 = Some (p ++ [wd; ws]) /\ pt_b = d :: y /\ is_lex_ws U d = false /\ lex_at U pt_b (blen pt_a) = Some tb'
    /\ is_single_word_tok (kind wd) = true /\ kind ws = KWs /\ mode_after MOut p = MOut
    /\ EditPadDoc.lmode_after EditPadDefs.LStart p <> EditPadDefs.LVal
    /\ tstr ws = [9]
    /\ ~ ev_equiv_v (events U cfg_plain (pt_a ++ ([] ++ block_comment_text pd_c ++ [32]) ++ pt_b)) (events U cfg_plain (pt_a ++ pt_b)).
Proof.
  eexists [_], _, _, _, _, _. split; [vm_compute; reflexivity|]. split; [vm_compute; reflexivity|].
  split; [vm_compute; reflexivity|]. split; [reflexivity|]. split; [vm_compute; reflexivity|]. split; [vm_compute; reflexivity|].
  split; [reflexivity|]. split; [reflexivity|]. split; [reflexivity|]. split; [vm_compute; discriminate|]. split; [reflexivity|].
  intro H.
  assert (E : exists e1 e2, events U cfg_plain (pt_a ++ ([] ++ block_comment_text pd_c ++ [32]) ++ pt_b) = Done e1
                            /\ events U cfg_plain (pt_a ++ pt_b) = Done e2 /\ observed e1 <> observed e2).
  { eexists. eexists. split; [vm_compute; reflexivity|]. split; [vm_compute; reflexivity|]. vm_compute. discriminate. }
  destruct E as (e1 & e2 & E1 & E2 & D). rewrite E1, E2 in H. destruct H as [H _]. exact (D H).
Qed.
Print Assumptions C17_padded_tab_refuted.

(* (3) Inside braces.  A padded comment between the words of a text value or of a unit leaves them equal
   (Text::text_trimmed), and between a number and its unit too when a blank follows the comment; the GLUED
   spelling does not: with ADVANCED_UNITS "@x{1 " | "kg}" reads the number 1 with the unit kg, "@x{1 [- c -]kg}"
   the text value "1 kg" (the value must end with a blank token: quantity.rs parse_advanced_quantity).  Same on the
   implementation.  The statement puts the comment "between words", the monitor reports places inside braces
   without judging them. *)
Definition pb_a : str := [64;120;123;49;32].
Definition pb_b : str := [107;103;125].

Theorem C17_padded_brace_refuted :
  exists p wd ws tb' d y,
    parse_frontmatter cfg_all (pb_a ++ pb_b) = None
    /\ parse_frontmatter cfg_all (pb_a ++ ([] ++ block_comment_text pd_c ++ []) ++ pb_b) = None
    /\ lex_at U pb_a 0 = Some (p ++ [wd; ws]) /\ pb_b = d :: y /\ is_lex_ws U d = false /\ lex_at U pb_b (blen pb_a) = Some tb'
    /\ is_single_word_tok (kind wd) = true /\ kind ws = KWs
    /\ EditPadDoc.lmode_after EditPadDefs.LStart p <> EditPadDefs.LVal
    /\ mode_after MOut p = MIn
    /\ ~ ev_equiv_v (events U cfg_all (pb_a ++ ([] ++ block_comment_text pd_c ++ []) ++ pb_b)) (events U cfg_all (pb_a ++ pb_b)).
Proof.
  eexists [_; _; _], _, _, _, _, _. split; [vm_compute; reflexivity|]. split; [vm_compute; reflexivity|].
  split; [vm_compute; reflexivity|]. split; [reflexivity|]. split; [vm_compute; reflexivity|]. split; [vm_compute; reflexivity|].
  split; [reflexivity|]. split; [reflexivity|]. split; [vm_compute; discriminate|]. split; [reflexivity|].
  intro H.
  assert (E : exists e1 e2, events U cfg_all (pb_a ++ ([] ++ block_comment_text pd_c ++ []) ++ pb_b) = Done e1
                            /\ events U cfg_all (pb_a ++ pb_b) = Done e2 /\ observed e1 <> observed e2).
  { eexists. eexists. split; [vm_compute; reflexivity|]. split; [vm_compute; reflexivity|]. vm_compute. discriminate. }
  destruct E as (e1 & e2 & E1 & E2 & D). rewrite E1, E2 in H. destruct H as [H _]. exact (D H).
Qed.
Print Assumptions C17_padded_brace_refuted.

(* inside braces with blanks on both sides: text value "@x{a [- c -] pinch}", unit "@x{1%fl [- c -] oz}", number and
   unit "@x{1 [- c -] kg}" - the same events *)
Definition same_proj (s1 s2 : str) : Prop :=
  match events U cfg_all s1, events U cfg_all s2 with
  | Done e1, Done e2 => map proj e1 = map proj e2
  | _, _ => False
  end.
Example C17_padded_brace_instances :
  same_proj [64;120;123;97;32;112;105;110;99;104;125] ([64;120;123;97;32] ++ block_comment_text pd_c ++ [32;112;105;110;99;104;125])
  /\ same_proj [64;120;123;49;37;102;108;32;111;122;125] ([64;120;123;49;37;102;108;32] ++ block_comment_text pd_c ++ [32;111;122;125])
  /\ same_proj [64;120;123;49;32;107;103;125] ([64;120;123;49;32] ++ block_comment_text pd_c ++ [32;107;103;125]).
Proof. split; [|split]; vm_compute; reflexivity. Qed.

(* ---------------------------------------------------------------- text mode at document level *)
(* With `>> [mode]: text` / `>> [define]: text` every step is read as a paragraph and a component is
   kept AS WRITTEN: `RecipeCollector::in_text` copies `self.input[span.range()]`, comment tokens
   removed (event_consumer.rs:570-595, the repair 200c896; [Analysis.in_text], [Analysis.comp_src]).
   The recipe then depends on the component event's SPAN and on the source text, which the event
   relations above do not carry; the *_recipe theorems above exclude it by [src_no_text_mode].

   Proofs/EditText*.v close this for the [ksim] family (same kinds token by token: CRLF conversion):

   [EditTextSim.crel s1 s2 D1 D2 e1 e2]  for two component events: their spans cut out of the
        sources [s1], [s2] the texts of two [ksim]-related runs [c1], [c2] of the documents' token
        lists [D1], [D2] - the tokens the component parser consumed on either side.
   [EditTextSim.evrel]  two event streams are [proj]-equal and [crel] event by event.

   The relational reading of the parser is not proved again: the judgement [MRp] is [MR] over states
   whose token tape is a run of the document's tokens ([tinv]) and whose event queues are [crel];
   every parser function that pushes no component event is lifted from its [MR] lemma by a unary
   frame judgement (Proofs/EditTextFrame.v [fr]: tokens only move forward, only non-component events
   are added), and for the three component parsers [comp_p] combines their [MR] lemma with the frame
   "the event's span is exactly what was consumed" of Proofs/ParserCoverFrame.v (C05).

   On the analysis side [C17_analysis_text_blind] replaces [C17_analysis_blind]: NO hypothesis about
   modes; paragraph texts are related by any congruence [teq] the component sources are related by.
   What `lexer::Cursor` over the copied slice removes is what the slice's tokens are in the document:
   [C17_strip_token_run] (a token boundary of the input is a boundary of every piece cut at token
   boundaries; Proofs/EditTextLex.v).

   NORMAL FORM for CRLF: paragraph texts are equal after [EditAnalysis.drop_cr] (every U+000D deleted);
   everything else - panic site, validity, tables, sections, steps, metadata map - is equal.  A
   component may wrap over a line end ("@sea\nsalt{}"): the copy keeps "\n" resp. "\r\n", so the
   normal form is needed ([C17_crlf_text_mode_normal_form_needed]); text events already have LF
   (soft breaks are events of their own).

   The other edits follow below, each WITHOUT [src_no_text_mode]: the block comment after a word or
   number ([jsim]: [C17_mid_comment_recipe_text_mode(_fm)]), the extra line
   ([C17_extra_line_recipe_text_mode(_fm)]: the block loop followed directly along [reach]), the
   trailing comment / trailing spaces and the padded comment ([wsimb], [psim]:
   [C17_trailing_comment_recipe_text_mode(_fm)], [C17_padded_comment_recipe_text_mode(_fm)], with the
   normal form [rnormN] in which the line ends of paragraph text count as blank space). *)
From CL Require Proofs.EditTextFrame Proofs.EditTextSim Proofs.EditTextAnalysis Proofs.EditTextLex Proofs.EditTextCrlf.

(* the stripped copy of a run of the document's tokens: its non-comment tokens *)
Theorem C17_strip_token_run :
  forall s off D c,
    lex_at U s off = Some D -> EditTextSim.sr D c ->
    Analysis.strip_comments (concat (map tstr c)) = concat (map tstr (filter EditAnalysis.not_comment c)).
Proof. exact (EditTextLex.strip_run U gen_special_breaks). Qed.
Print Assumptions C17_strip_token_run.

(* [ksim]-related token streams: the events are [proj]-equal AND every pair of component events
   copies [ksim]-related token runs out of the two sources (no front matter; with one:
   [EditTextSim.events_ksim_fm_p]) *)
Theorem C17_component_source_ksim :
  forall cfg s1 s2 ts1 ts2,
    parse_frontmatter cfg s1 = None -> parse_frontmatter cfg s2 = None ->
    lex_at U s1 0 = Some ts1 -> lex_at U s2 0 = Some ts2 -> ksim ts1 ts2 ->
    OR (EditTextSim.evrel s1 s2 ts1 ts2) (events U cfg s1) (events U cfg s2).
Proof.
  intros cfg. exact (EditTextSim.events_ksim_p U cfg (ingredient_ksim cfg) (cookware_ksim cfg) (timer_ksim cfg)).
Qed.
Print Assumptions C17_component_source_ksim.

(* ANALYSIS BLINDNESS, text mode included: same projection, [teq] component copies => the same
   outcome with [teq] paragraph texts ([EditTextAnalysis.rrel]: same validity, tables, section names,
   steps; paragraph texts [teq] one by one).  [teq]: any relation closed under concatenation that
   keeps emptiness (an empty paragraph is not pushed). *)
Theorem C17_analysis_text_blind :
  forall ci_key yaml_ok find_iq unit_class x acfg (teq : str -> str -> Prop) in1 in2 e1 e2,
    EditAnalysis.crlf_blind yaml_ok ->
    (forall a, teq a a) -> (forall a b c d, teq a b -> teq c d -> teq (a ++ c) (b ++ d)) ->
    (forall a b, teq a b -> Events.is_nil a = Events.is_nil b) ->
    EditTextAnalysis.evs_ok acfg teq in1 in2 e1 e2 ->
    EditTextAnalysis.out_rel (EditTextAnalysis.rrel teq)
      (Analysis.analyse ci_key yaml_ok find_iq unit_class in1 x acfg (EventBridge.abstract_events e1))
      (Analysis.analyse ci_key yaml_ok find_iq unit_class in2 x acfg (EventBridge.abstract_events e2)).
Proof. intros. apply EditTextAnalysis.analyse_text; assumption. Qed.
Print Assumptions C17_analysis_text_blind.

(* CooklangParser::parse, CRLF conversion, NO hypothesis about modes: every source without a backslash
   or a lone carriage return, with or without a front matter, text mode selected anywhere or nowhere.
   [ac]: the analysis code after the repair 200c896 ([Analysis.cfgF] is the code as it is). *)
Theorem C17_crlf_recipe_text_mode :
  forall ac cfg ci_key yaml_ok find_iq unit_class x Y ystr yeqb yaml s,
    p_strict_escape cfg = false -> Analysis.text_raw ac = false ->
    no_backslash s = true -> no_lone_cr s = true ->
    EditAnalysis.crlf_blind yaml_ok -> EditAnalysis.crlf_blind yaml ->
    EditTextCrlf.same_parse_upto EditAnalysis.drop_cr ac U cfg ci_key yaml_ok find_iq unit_class x Y ystr yeqb yaml s (crlf s).
Proof.
  intros. apply EditTextCrlf.crlf_text_mode; try assumption; [exact gen_special_breaks | exact gen_eol_breaks].
Qed.
Print Assumptions C17_crlf_recipe_text_mode.

(* the hypotheses are satisfiable on a source that selects text mode, with a component that wraps
   over a line end: ">> [mode]: text\nAdd @sea\nsalt{} now" *)
Definition tx_src : str :=
  [62;62;32;91;109;111;100;101;93;58;32;116;101;120;116;10] ++ [65;100;100;32;64;115;101;97;10]
  ++ [115;97;108;116;123;125;32;110;111;119].

Example C17_crlf_text_mode_hypotheses_satisfiable :
  p_strict_escape cfg_all = false /\ Analysis.text_raw Analysis.cfgF = false
  /\ no_backslash tx_src = true /\ no_lone_cr tx_src = true
  /\ EditAnalysis.crlf_blind (fun _ : str => true) /\ EditAnalysis.crlf_blind (fun _ : str => @None (list (str * str)))
  /\ EditAnalysis.src_no_text_mode_b U cfg_all tx_src = false.
Proof.
  split; [reflexivity|]. split; [reflexivity|]. split; [vm_compute; reflexivity|]. split; [vm_compute; reflexivity|].
  split; [intros a b _; reflexivity|]. split; [intros a b _; reflexivity|]. vm_compute. reflexivity.
Qed.

(* the instance: the two parses are equal after [drop_cr] on paragraph text - and NOT equal before:
   the paragraph is "Add @sea\nsalt{} now" resp. "Add @sea\r\nsalt{} now" *)
Example C17_crlf_text_mode_instance :
  forall ci_key yaml_ok find_iq unit_class,
    EditTextAnalysis.pmap EditAnalysis.drop_cr (ParseTotal.parse_model U cfg_all ci_key yaml_ok find_iq unit_class x_all tx_src)
    = EditTextAnalysis.pmap EditAnalysis.drop_cr (ParseTotal.parse_model U cfg_all ci_key yaml_ok find_iq unit_class x_all (crlf tx_src)).
Proof. intros. vm_compute. reflexivity. Qed.

Example C17_crlf_text_mode_normal_form_needed :
  forall ci_key yaml_ok find_iq unit_class,
    ParseTotal.parse_model U cfg_all ci_key yaml_ok find_iq unit_class x_all tx_src
    <> ParseTotal.parse_model U cfg_all ci_key yaml_ok find_iq unit_class x_all (crlf tx_src).
Proof. intros. vm_compute. discriminate. Qed.

(* ---------------------------------------------------------------- text mode: the block comment after a word or number *)
(* The same for [jsim] (Proofs/EditTextIns.v, EditTextInsDoc.v).  The logic [HJ] has arbitrary pre-
   and postconditions: the ghost (tape invariants, [crelF] event queues) is added to both and the
   frame judgement lifts every computation that pushes no component event.  [crelF]: the two spans
   cut out of the two sources token runs whose NON-COMMENT tokens are [ksim]-related - both rests are
   [anyR]-related before and after the component parser, [anyR] keeps the non-comment tokens one to
   one, so what the two rests lose is related the same way; the inserted comment is a comment token
   of the run and `in_text` removes it ([C17_strip_token_run]).
   Hypotheses of [C17_mid_comment_recipe(_fm)] WITHOUT [src_no_text_mode]; conclusion
   [same_parse_upto drop_cr] as for CRLF ([jsim] relates tokens by [krel], which does not record the
   spelling of a newline token; on the edited pair the line ends are the same, and the instance
   below is an equality). *)
From CL Require Proofs.EditTextIns Proofs.EditTextInsDoc.

Theorem C17_mid_comment_recipe_text_mode :
  forall ac cfg ci_key yaml_ok find_iq unit_class x Y ystr yeqb yaml a b c p wd ws tb',
    p_strict_escape cfg = false -> Analysis.text_raw ac = false -> no_close c = true ->
    parse_frontmatter cfg (a ++ b) = None -> parse_frontmatter cfg (a ++ block_comment_text c ++ b) = None ->
    lex_at U a 0 = Some (p ++ [wd]) -> lex_at U b (blen a) = Some (ws :: tb') ->
    lex_at U (a ++ b) 0 = Some ((p ++ [wd]) ++ ws :: tb') ->
    is_single_word_tok (kind wd) = true -> kind ws = KWs -> mode_after MOut p = MOut ->
    EditAnalysis.crlf_blind yaml_ok -> EditAnalysis.crlf_blind yaml ->
    EditTextCrlf.same_parse_upto EditAnalysis.drop_cr ac U cfg ci_key yaml_ok find_iq unit_class x Y ystr yeqb yaml
      (a ++ b) (a ++ block_comment_text c ++ b).
Proof.
  intros ac cfg. intros. apply (EditTextInsDoc.mid_comment_text_mode U cfg gen_special_breaks gen_eol_breaks ac) with (p := p) (wd := wd) (ws := ws) (tb' := tb'); assumption.
Qed.
Print Assumptions C17_mid_comment_recipe_text_mode.

Theorem C17_mid_comment_recipe_text_mode_fm :
  forall ac cfg ci_key yaml_ok find_iq unit_class x Y ystr yeqb yaml s fm a b c p wd ws tb',
    p_strict_escape cfg = false -> Analysis.text_raw ac = false -> no_close c = true ->
    parse_frontmatter cfg s = Some fm -> cook_text fm = a ++ b -> a ++ b <> [] ->
    lex_at U a (cook_off fm) = Some (p ++ [wd]) -> lex_at U b (cook_off fm + blen a) = Some (ws :: tb') ->
    lex_at U (a ++ b) (cook_off fm) = Some ((p ++ [wd]) ++ ws :: tb') ->
    is_single_word_tok (kind wd) = true -> kind ws = KWs -> mode_after MOut p = MOut ->
    EditAnalysis.crlf_blind yaml_ok -> EditAnalysis.crlf_blind yaml ->
    EditTextCrlf.same_parse_upto EditAnalysis.drop_cr ac U cfg ci_key yaml_ok find_iq unit_class x Y ystr yeqb yaml
      s (take_bytes s (cook_off fm) ++ a ++ block_comment_text c ++ b).
Proof.
  intros ac cfg. intros. apply (EditTextInsDoc.mid_comment_text_mode_fm U cfg gen_special_breaks gen_eol_breaks ac) with (fm := fm) (p := p) (wd := wd) (ws := ws) (tb' := tb'); assumption.
Qed.
Print Assumptions C17_mid_comment_recipe_text_mode_fm.

(* the hypotheses are satisfiable on the text-mode pair of [C17_text_mode_refuted_before_fix]:
   ">> [mode]: text\n@sea" ++ [-c-] ++ " salt{}" (the comment inside a component of a text-mode
   block: the defect 200c896 repaired) *)
Example C17_mid_comment_text_mode_hypotheses_satisfiable :
  exists p wd ws tb',
    parse_frontmatter cfg_all (tm_a ++ tm_b) = None
    /\ parse_frontmatter cfg_all (tm_a ++ block_comment_text [99] ++ tm_b) = None
    /\ lex_at U tm_a 0 = Some (p ++ [wd]) /\ lex_at U tm_b (blen tm_a) = Some (ws :: tb')
    /\ lex_at U (tm_a ++ tm_b) 0 = Some ((p ++ [wd]) ++ ws :: tb')
    /\ is_single_word_tok (kind wd) = true /\ kind ws = KWs /\ mode_after MOut p = MOut
    /\ EditAnalysis.src_no_text_mode_b U cfg_all (tm_a ++ tm_b) = false.
Proof.
  eexists (firstn 10 (match lex_at U tm_a 0 with Some t => t | None => [] end)), _, _, _.
  split; [vm_compute; reflexivity|]. split; [vm_compute; reflexivity|].
  split; [vm_compute; reflexivity|]. split; [vm_compute; reflexivity|]. split; [vm_compute; reflexivity|].
  split; [reflexivity|]. split; [reflexivity|]. split; [vm_compute; reflexivity|]. vm_compute. reflexivity.
Qed.

(* ---------------------------------------------------------------- text mode: a blank or comment-only line between blocks *)
(* Proofs/EditTextExtra.v.  The event-level proof goes through an unshifted token list that is the
   token list of no source; here the block loop is followed directly along [reach]: up to the place
   of the inserted line the two loops cut the SAME blocks out of the same tokens (where a block ends
   depends on what follows only through the kind of the next token), at the place the edited side
   skips the line, after it the tokens are the shifted ones ([ksim]).  Every block is parsed on both
   sides from [ksim]-related LOCATED tokens, so the component sources are related by [crel].
   Hypotheses of [C17_extra_line_recipe(_fm)] WITHOUT [src_no_text_mode]; conclusion
   [same_parse_upto drop_cr] ([ksim] does not record the spelling of a newline token; the component
   sources are the same strings here and the instance below is an equality). *)
From CL Require Proofs.EditTextExtra.

Theorem C17_extra_line_recipe_text_mode :
  forall ac cfg ci_key yaml_ok find_iq unit_class x Y ystr yeqb yaml a l b ta tl tb,
    p_strict_escape cfg = false -> Analysis.text_raw ac = false ->
    parse_frontmatter cfg (a ++ b) = None ->
    Forall (fun y => is_fence y = false) (lines_inclusive l) ->
    lex_at U a 0 = Some ta -> lex_at U l 0 = Some tl -> lex_at U b (blen a) = Some tb ->
    (ta = [] \/ exists p nl, ta = p ++ [nl] /\ kind nl = KNewline) -> blank_line tl ->
    reach (ta ++ tb) tb ->
    EditAnalysis.crlf_blind yaml_ok -> EditAnalysis.crlf_blind yaml ->
    EditTextCrlf.same_parse_upto EditAnalysis.drop_cr ac U cfg ci_key yaml_ok find_iq unit_class x Y ystr yeqb yaml
      (a ++ b) (a ++ l ++ b).
Proof.
  intros ac cfg. intros.
  apply (EditTextExtra.extra_line_text_mode U cfg gen_special_breaks gen_eol_breaks ac) with (ta := ta) (tl := tl) (tb := tb); assumption.
Qed.
Print Assumptions C17_extra_line_recipe_text_mode.

Theorem C17_extra_line_recipe_text_mode_fm :
  forall ac cfg ci_key yaml_ok find_iq unit_class x Y ystr yeqb yaml s fm a l b ta tl tb,
    p_strict_escape cfg = false -> Analysis.text_raw ac = false ->
    parse_frontmatter cfg s = Some fm -> cook_text fm = a ++ b -> a ++ b <> [] ->
    lex_at U a (cook_off fm) = Some ta -> lex_at U l 0 = Some tl -> lex_at U b (cook_off fm + blen a) = Some tb ->
    (ta = [] \/ exists p nl, ta = p ++ [nl] /\ kind nl = KNewline) -> blank_line tl ->
    reach (ta ++ tb) tb ->
    EditAnalysis.crlf_blind yaml_ok -> EditAnalysis.crlf_blind yaml ->
    EditTextCrlf.same_parse_upto EditAnalysis.drop_cr ac U cfg ci_key yaml_ok find_iq unit_class x Y ystr yeqb yaml
      s (take_bytes s (cook_off fm) ++ a ++ l ++ b).
Proof.
  intros ac cfg. intros.
  apply (EditTextExtra.extra_line_text_mode_fm U cfg gen_special_breaks gen_eol_breaks ac) with (fm := fm) (ta := ta) (tl := tl) (tb := tb); assumption.
Qed.
Print Assumptions C17_extra_line_recipe_text_mode_fm.

(* satisfiable on a source that selects text mode: ">> [mode]: text\nAdd @sea salt{} now\n\n" | "-- c\n" | "Stir" *)
Definition xl_a : str :=
  [62;62;32;91;109;111;100;101;93;58;32;116;101;120;116;10] ++ [65;100;100;32;64;115;101;97;32;115;97;108;116;123;125;32;110;111;119;10;10].
Definition xl_l : str := [45;45;32;99;10].
Definition xl_b : str := [83;116;105;114].

Example C17_extra_line_text_mode_hypotheses_satisfiable :
  exists ta tl tb,
    parse_frontmatter cfg_all (xl_a ++ xl_b) = None
    /\ Forall (fun y => is_fence y = false) (lines_inclusive xl_l)
    /\ lex_at U xl_a 0 = Some ta /\ lex_at U xl_l 0 = Some tl /\ lex_at U xl_b (blen xl_a) = Some tb
    /\ (exists p nl, ta = p ++ [nl] /\ kind nl = KNewline) /\ blank_line tl /\ reach (ta ++ tb) tb
    /\ EditAnalysis.src_no_text_mode_b U cfg_all (xl_a ++ xl_b) = false.
Proof.
  eexists. eexists. eexists. split; [vm_compute; reflexivity|].
  split; [repeat constructor|].
  split; [vm_compute; reflexivity|]. split; [vm_compute; reflexivity|]. split; [vm_compute; reflexivity|].
  split; [|split; [|split]].
  - match goal with |- exists p nl, ?l = _ /\ _ => exists (removelast l), (last l (mk KNewline [] 0)) end. split; vm_compute; reflexivity.
  - match goal with |- blank_line ?l => exists (removelast l), (last l (mk KNewline [] 0)) end.
    split; [vm_compute; reflexivity | split; vm_compute; reflexivity].
  - eapply reach_step; [vm_compute; reflexivity|]. eapply reach_step; [vm_compute; reflexivity | apply reach_here].
  - vm_compute. reflexivity.
Qed.

Example C17_extra_line_text_mode_instance :
  forall ci_key yaml_ok find_iq unit_class,
    ParseTotal.parse_model U cfg_all ci_key yaml_ok find_iq unit_class x_all (xl_a ++ xl_b)
    = ParseTotal.parse_model U cfg_all ci_key yaml_ok find_iq unit_class x_all (xl_a ++ xl_l ++ xl_b).
Proof. intros. vm_compute. reflexivity. Qed.

(* ---------------------------------------------------------------- text mode: a trailing comment, trailing spaces *)
(* Proofs/EditTextNorm.v, EditTextTrailTok.v, EditTextSolid.v, EditTextTrail.v, EditTextTrailAnalysis.v,
   EditTextTrailDoc.v.

   The event stacks of the two runs are not in step ([evw]: warnings on one side only, one more blank
   text before an End) but component events are never skipped, so the ghost is stated on the component
   events alone, in order; every computation that pushes no component event preserves it whatever the
   relation between the two runs, and the step loop of Proofs/EditTrailStep.v is followed once more
   with the ghost threaded through.  At a component attempt the remaining tokens are [wsimb true]-
   related before and after; both consumed runs end in a token that is neither blank nor comment - a
   closing brace, the closing parenthesis of a note, the last word of a name (unary,
   Proofs/EditTextSolid.v) - so the relation splits along the cut: inside the runs tokens are inserted,
   or a blank lengthened, only directly before a NEWLINE TOKEN of the run ([EditTextTrailTok.wrun]).

   NORMAL FORM.  What `in_text` keeps of the two runs differs by U+0020s in front of a line end
   ("@sea \nsalt{}" / "@sea\nsalt{}" once the comment is removed), and the copy keeps the line end:
   [rnorm] - which squeezes U+0020 and TAB only - is too fine for a paragraph of text mode
   ([C17_trailing_text_mode_rnorm_too_fine]).  [EditTextTrailAnalysis.rnormN]: step text as in
   [rnorm]; PARAGRAPH text with runs of U+0020, TAB, LF and CR squeezed to one U+0020 and none at
   either end ([EditTextNorm.norm_textN]) - what the monitor of checks/c17_edits.py judges of
   paragraph text (it collapses [ \t\r\n]+).  Everything else is equal, and so are the metadata maps.
   [EditTextTrailDoc.same_parse_wN] = [same_parse_w] with [rnormN] for [rnorm].

   Hypotheses of [C17_trailing_comment_recipe(_fm)] WITHOUT [src_no_text_mode]. *)
From CL Require Proofs.EditTextNorm Proofs.EditTextTrailTok Proofs.EditTextSolid Proofs.EditTextTrail
  Proofs.EditTextTrailAnalysis Proofs.EditTextTrailDoc.

(* the consumed runs of a component attempt: related inside, whatever was inserted at the cut *)
Theorem C17_trailing_consumed_runs :
  forall c0 t1 r1 d0 t2 r2,
    EditTrailDefs.wsimb true ((c0 ++ [t1]) ++ r1) ((d0 ++ [t2]) ++ r2) -> EditTrailDefs.wsimb true r1 r2 ->
    EditTextTrailTok.solid t1 = true -> EditTextTrailTok.solid t2 = true ->
    EditTextTrailTok.wrun (c0 ++ [t1]) (d0 ++ [t2])
    /\ EditTextNorm.Tq (EditTextTrailTok.tx (c0 ++ [t1])) (EditTextTrailTok.tx (d0 ++ [t2])).
Proof.
  intros c0 t1 r1 d0 t2 r2 H Hr S1 S2. pose proof (EditTextTrailTok.consumed_wrun _ _ _ _ _ _ H Hr S1 S2) as W.
  split; [exact W | exact (proj1 (EditTextTrailTok.wrun_Tq _ _ W))].
Qed.
Print Assumptions C17_trailing_consumed_runs.

(* ANALYSIS, trailing / padded relation, text mode included *)
Theorem C17_analysis_wblind_text :
  forall ci_key yaml_ok find_iq unit_class x acfg in1 in2 e1 e2,
    EditAnalysis.crlf_blind yaml_ok -> EditTrailDoc.iq_ok x find_iq ->
    EditTrailDefs.fwr e1 e2 -> EditTextTrailAnalysis.SK acfg in1 in2 e1 e2 ->
    EditTextTrailDoc.orelwN
      (Analysis.analyse ci_key yaml_ok find_iq unit_class in1 x acfg (EventBridge.abstract_events e1))
      (Analysis.analyse ci_key yaml_ok find_iq unit_class in2 x acfg (EventBridge.abstract_events e2)).
Proof.
  intros ci_key yaml_ok find_iq unit_class x acfg in1 in2 e1 e2 By Hq Hf Hk.
  pose proof (EditTextTrailAnalysis.analyse_wblind_text ci_key yaml_ok find_iq unit_class x acfg By Hq in1 in2 e1 e2 Hf Hk) as X.
  unfold EditTextTrailDoc.orelwN.
  destruct (Analysis.analyse ci_key yaml_ok find_iq unit_class in1 x acfg (EventBridge.abstract_events e1)) as [[r1 v1]|p1];
    destruct (Analysis.analyse ci_key yaml_ok find_iq unit_class in2 x acfg (EventBridge.abstract_events e2)) as [[r2 v2]|p2]; exact X.
Qed.
Print Assumptions C17_analysis_wblind_text.

Theorem C17_trailing_comment_recipe_text_mode :
  forall ac cfg ci_key yaml_ok find_iq unit_class x Y ystr yeqb yaml a b ta tb w lc,
    p_strict_escape cfg = false -> Analysis.text_raw ac = false ->
    parse_frontmatter cfg (a ++ b) = None ->
    lex_at U a 0 = Some ta -> lex_at U b (blen a) = Some tb -> lex_at U (a ++ b) 0 = Some (ta ++ tb) ->
    last_open_ended ta = false -> EditTrailLex.line_end b -> EditTrailDoc.trailing_text w lc ->
    EditAnalysis.crlf_blind yaml_ok -> EditAnalysis.crlf_blind yaml -> EditTrailDoc.iq_ok x find_iq ->
    EditTextTrailDoc.same_parse_wN ac U cfg ci_key yaml_ok find_iq unit_class x Y ystr yeqb yaml (a ++ b) (a ++ (w ++ lc) ++ b).
Proof.
  intros ac cfg ci_key yaml_ok find_iq unit_class x Y ystr yeqb yaml a b ta tb w lc Hs Hr F1 La Lb Lab Ho Hb Ht By Bm Hq.
  pose proof (C17_trailing_fence cfg a b w lc F1 Hb Ht) as F2.
  apply (EditTextTrailDoc.trail_text_mode U cfg gen_special_breaks gen_eol_breaks gen_blank_ws ac) with (ta := ta) (tb := tb); assumption.
Qed.
Print Assumptions C17_trailing_comment_recipe_text_mode.

Theorem C17_trailing_comment_recipe_text_mode_fm :
  forall ac cfg ci_key yaml_ok find_iq unit_class x Y ystr yeqb yaml s fm a b ta tb w lc,
    p_strict_escape cfg = false -> Analysis.text_raw ac = false ->
    parse_frontmatter cfg s = Some fm -> cook_text fm = a ++ b -> a ++ b <> [] ->
    lex_at U a (cook_off fm) = Some ta -> lex_at U b (cook_off fm + blen a) = Some tb ->
    lex_at U (a ++ b) (cook_off fm) = Some (ta ++ tb) ->
    last_open_ended ta = false -> EditTrailLex.line_end b -> EditTrailDoc.trailing_text w lc ->
    EditAnalysis.crlf_blind yaml_ok -> EditAnalysis.crlf_blind yaml -> EditTrailDoc.iq_ok x find_iq ->
    EditTextTrailDoc.same_parse_wN ac U cfg ci_key yaml_ok find_iq unit_class x Y ystr yeqb yaml
      s (take_bytes s (cook_off fm) ++ a ++ (w ++ lc) ++ b).
Proof.
  intros ac cfg ci_key yaml_ok find_iq unit_class x Y ystr yeqb yaml s fm a b ta tb w lc Hs Hr F C Hne La Lb Lab Ho Hb Ht By Bm Hq.
  apply (EditTextTrailDoc.trail_text_mode_fm U cfg gen_special_breaks gen_eol_breaks gen_blank_ws ac) with (fm := fm) (ta := ta) (tb := tb); assumption.
Qed.
Print Assumptions C17_trailing_comment_recipe_text_mode_fm.

(* ">> [mode]: text\nAdd @sea" | "\nsalt{} now", ` -- c` appended to the first line of the wrapped
   component: the two paragraphs are "Add @sea\nsalt{} now" and "Add @sea \nsalt{} now" - equal under
   [rnormN], NOT under [rnorm] *)
Definition tt_a : str := [62;62;32;91;109;111;100;101;93;58;32;116;101;120;116;10] ++ [65;100;100;32;64;115;101;97].
Definition tt_b : str := [10;115;97;108;116;123;125;32;110;111;119].
Definition tt_w : str := [32].
Definition tt_lc : str := line_comment_text [32;99].

Example C17_trailing_text_mode_hypotheses_satisfiable :
  exists ta tb,
    parse_frontmatter cfg_all (tt_a ++ tt_b) = None
    /\ lex_at U tt_a 0 = Some ta /\ lex_at U tt_b (blen tt_a) = Some tb /\ lex_at U (tt_a ++ tt_b) 0 = Some (ta ++ tb)
    /\ last_open_ended ta = false /\ EditTrailLex.line_end tt_b /\ EditTrailDoc.trailing_text tt_w tt_lc
    /\ EditAnalysis.src_no_text_mode_b U cfg_all (tt_a ++ tt_b) = false.
Proof.
  eexists. eexists. split; [vm_compute; reflexivity|]. split; [vm_compute; reflexivity|]. split; [vm_compute; reflexivity|].
  split; [vm_compute; reflexivity|]. split; [vm_compute; reflexivity|].
  split; [right; left; eexists; reflexivity|].
  split; [split; [reflexivity | right; eexists; split; [reflexivity | split; [reflexivity | discriminate]]]|].
  vm_compute. reflexivity.
Qed.

Example C17_trailing_text_mode_instance :
  forall ci_key yaml_ok unit_class,
    EditTextTrailDoc.orelwN
      (ParseTotal.parse_model U cfg_all ci_key yaml_ok (fun _ => None) unit_class x_all (tt_a ++ tt_b))
      (ParseTotal.parse_model U cfg_all ci_key yaml_ok (fun _ => None) unit_class x_all (tt_a ++ (tt_w ++ tt_lc) ++ tt_b)).
Proof. intros. vm_compute. split; reflexivity. Qed.

Example C17_trailing_text_mode_rnorm_too_fine :
  forall ci_key yaml_ok unit_class,
    ~ EditTrailDoc.orelw
        (ParseTotal.parse_model U cfg_all ci_key yaml_ok (fun _ => None) unit_class x_all (tt_a ++ tt_b))
        (ParseTotal.parse_model U cfg_all ci_key yaml_ok (fun _ => None) unit_class x_all (tt_a ++ (tt_w ++ tt_lc) ++ tt_b)).
Proof. intros ci_key yaml_ok unit_class. vm_compute. intros [H _]. discriminate H. Qed.

(* ---------------------------------------------------------------- text mode: the padded block comment *)
(* Proofs/EditTextPad.v, EditTextPadDoc.v: the same for [psim] (Proofs/EditPadStep.v followed once more with
   the ghost).  A gap stands for ONE blank token of the left run, so it lies on one side of the cut; the
   consumed runs are [qsim]-related ([C17_padded_consumed_runs]) and what `in_text` keeps of them differs
   by U+0020s inserted before a U+0020 (the comment tokens of the gap are removed).
   Hypotheses of [C17_padded_comment_recipe(_fm)] WITHOUT [src_no_text_mode]; conclusion [same_parse_wN]. *)
From CL Require Proofs.EditTextPad Proofs.EditTextPadDoc.

Theorem C17_padded_consumed_runs :
  forall c0 t1 r1 d0 t2 r2,
    EditPadDefs.qsim ((c0 ++ [t1]) ++ r1) ((d0 ++ [t2]) ++ r2) -> EditPadDefs.qsim r1 r2 ->
    EditTextTrailTok.solid t1 = true -> EditTextTrailTok.solid t2 = true ->
    EditPadDefs.qsim (c0 ++ [t1]) (d0 ++ [t2])
    /\ EditTextNorm.Tq (EditTextTrailTok.tx (c0 ++ [t1])) (EditTextTrailTok.tx (d0 ++ [t2])).
Proof.
  intros c0 t1 r1 d0 t2 r2 H Hr S1 S2. pose proof (EditTextPad.consumed_qsim _ _ _ _ _ _ H Hr S1 S2) as W.
  split; [exact W | exact (proj1 (EditTextPad.qsim_Tq _ _ W))].
Qed.
Print Assumptions C17_padded_consumed_runs.

Theorem C17_padded_comment_recipe_text_mode :
  forall ac cfg ci_key yaml_ok find_iq unit_class x Y ystr yeqb yaml a b c x1 x2 p wd ws tb' d y,
    p_strict_escape cfg = false -> Analysis.text_raw ac = false ->
    no_close c = true -> EditTrailDefs.sp32 x1 -> EditTrailDefs.sp32 x2 ->
    parse_frontmatter cfg (a ++ b) = None -> parse_frontmatter cfg (a ++ (x1 ++ block_comment_text c ++ x2) ++ b) = None ->
    lex_at U a 0 = Some (p ++ [wd; ws]) -> b = d :: y -> is_lex_ws U d = false -> lex_at U b (blen a) = Some tb' ->
    is_single_word_tok (kind wd) = true -> kind ws = KWs -> mode_after MOut p = MOut ->
    EditPadDoc.lmode_after EditPadDefs.LStart p <> EditPadDefs.LVal ->
    (x1 ++ x2 = [] \/ exists u, tstr ws = u ++ [32]) ->
    EditAnalysis.crlf_blind yaml_ok -> EditAnalysis.crlf_blind yaml -> EditTrailDoc.iq_ok x find_iq ->
    EditTextTrailDoc.same_parse_wN ac U cfg ci_key yaml_ok find_iq unit_class x Y ystr yeqb yaml
      (a ++ b) (a ++ (x1 ++ block_comment_text c ++ x2) ++ b).
Proof.
  intros ac cfg. intros.
  apply (EditTextPadDoc.pad_text_mode U cfg gen_special_breaks gen_eol_breaks gen_blank_ws ac) with (p := p) (wd := wd) (ws := ws) (tb' := tb') (d := d) (y := y); assumption.
Qed.
Print Assumptions C17_padded_comment_recipe_text_mode.

Theorem C17_padded_comment_recipe_text_mode_fm :
  forall ac cfg ci_key yaml_ok find_iq unit_class x Y ystr yeqb yaml s fm a b c x1 x2 p wd ws tb' d y,
    p_strict_escape cfg = false -> Analysis.text_raw ac = false ->
    no_close c = true -> EditTrailDefs.sp32 x1 -> EditTrailDefs.sp32 x2 ->
    parse_frontmatter cfg s = Some fm -> cook_text fm = a ++ b ->
    lex_at U a (cook_off fm) = Some (p ++ [wd; ws]) -> b = d :: y -> is_lex_ws U d = false ->
    lex_at U b (cook_off fm + blen a) = Some tb' ->
    is_single_word_tok (kind wd) = true -> kind ws = KWs -> mode_after MOut p = MOut ->
    EditPadDoc.lmode_after EditPadDefs.LStart p <> EditPadDefs.LVal ->
    (x1 ++ x2 = [] \/ exists u, tstr ws = u ++ [32]) ->
    EditAnalysis.crlf_blind yaml_ok -> EditAnalysis.crlf_blind yaml -> EditTrailDoc.iq_ok x find_iq ->
    EditTextTrailDoc.same_parse_wN ac U cfg ci_key yaml_ok find_iq unit_class x Y ystr yeqb yaml
      s (take_bytes s (cook_off fm) ++ a ++ (x1 ++ block_comment_text c ++ x2) ++ b).
Proof.
  intros ac cfg. intros.
  apply (EditTextPadDoc.pad_text_mode_fm U cfg gen_special_breaks gen_eol_breaks gen_blank_ws ac) with (fm := fm) (p := p) (wd := wd) (ws := ws) (tb' := tb') (d := d) (y := y); assumption.
Qed.
Print Assumptions C17_padded_comment_recipe_text_mode_fm.

(* ">> [mode]: text\nAdd @sea " | "salt{} and stir" with "[- c -] " after the blank that is there: the
   paragraphs are "Add @sea salt{} and stir" and "Add @sea  salt{} and stir" *)
Definition pm_a : str := [62;62;32;91;109;111;100;101;93;58;32;116;101;120;116;10] ++ pd_a.

Example C17_padded_text_mode_hypotheses_satisfiable :
  exists p wd ws tb' d y,
    lex_at U pm_a 0 = Some (p ++ [wd; ws]) /\ pd_b = d :: y /\ is_lex_ws U d = false /\ lex_at U pd_b (blen pm_a) = Some tb'
    /\ is_single_word_tok (kind wd) = true /\ kind ws = KWs /\ mode_after MOut p = MOut
    /\ EditPadDoc.lmode_after EditPadDefs.LStart p <> EditPadDefs.LVal
    /\ (exists u, tstr ws = u ++ [32])
    /\ parse_frontmatter cfg_all (pm_a ++ pd_b) = None
    /\ parse_frontmatter cfg_all (pm_a ++ ([] ++ block_comment_text pd_c ++ [32]) ++ pd_b) = None
    /\ EditAnalysis.src_no_text_mode_b U cfg_all (pm_a ++ pd_b) = false.
Proof.
  eexists (firstn 12 (match lex_at U pm_a 0 with Some t => t | None => [] end)), _, _, _, _, _.
  split; [vm_compute; reflexivity|]. split; [reflexivity|]. split; [vm_compute; reflexivity|].
  split; [vm_compute; reflexivity|]. split; [reflexivity|]. split; [reflexivity|]. split; [vm_compute; reflexivity|].
  split; [vm_compute; discriminate|]. split; [exists []; reflexivity|].
  split; [vm_compute; reflexivity|]. split; [vm_compute; reflexivity|]. vm_compute. reflexivity.
Qed.

Example C17_padded_text_mode_instance :
  forall ci_key yaml_ok unit_class,
    EditTextTrailDoc.orelwN
      (ParseTotal.parse_model U cfg_all ci_key yaml_ok (fun _ => None) unit_class x_all (pm_a ++ pd_b))
      (ParseTotal.parse_model U cfg_all ci_key yaml_ok (fun _ => None) unit_class x_all (pm_a ++ ([] ++ block_comment_text pd_c ++ [32]) ++ pd_b)).
Proof. intros. vm_compute. split; reflexivity. Qed.
