(* C02 - Core-syntax recipes parse identically under every extension subset.
   Proved: the gate lemmas of the parser model and of the analysis model, one pair per
   extension (extension off: its syntax is never consulted and the core reading results;
   extension on but trigger absent: same result as off); their composition over the step loop
   (C02_step_invariant_partial, C02_block_invariant_partial: a step block of core tokens gives
   the same events for every configuration that differs only in the extension bits); and the
   enumeration of the 192 extension sets over the REGENERATED bit values.
   C02_full_statement (whole documents of the statement's class) is NOT proved: it is kept
   visible as a Definition and monitored on the implementation under all 192 sets. *)
From CL Require Import Base.StrLemmas Model.Parser Gen.CharClass Proofs.ParserGates Proofs.C02Invariance.
From CL Require Model.Analysis Proofs.C02AnalysisGates.

Theorem C02_range_off : forall cfg ts, has cfg X_RANGE_VALUES = false -> range_value cfg ts = None.
Proof. exact range_off. Qed.
Print Assumptions C02_range_off.

Theorem C02_range_untriggered :
  forall cfg ts, position (fun k => tk_eqb k KMinus) ts = None -> range_value cfg ts = None.
Proof. exact range_untriggered. Qed.
Print Assumptions C02_range_untriggered.

Theorem C02_alias_off :
  forall cfg ts off, has cfg X_COMPONENT_ALIAS = false ->
    parse_alias cfg ts off = bind (textM cfg off ts) (fun nt => ret (nt, None)).
Proof. exact alias_off. Qed.
Print Assumptions C02_alias_off.

Theorem C02_alias_untriggered :
  forall cfg ts off, position (fun k => tk_eqb k KOr) ts = None ->
    parse_alias cfg ts off = bind (textM cfg off ts) (fun nt => ret (nt, None)).
Proof. exact alias_untriggered. Qed.
Print Assumptions C02_alias_untriggered.

Theorem C02_modifiers_off : forall cfg, has cfg X_COMPONENT_MODIFIERS = false -> modifiers cfg = ret [].
Proof. exact modifiers_off. Qed.
Print Assumptions C02_modifiers_off.

Theorem C02_modifiers_untriggered :
  forall cfg s, is_modifier_kind (peek_of s) = false -> modifiers cfg s = Done ([], s).
Proof. exact modifiers_untriggered. Qed.
Print Assumptions C02_modifiers_untriggered.

Theorem C02_advanced_off :
  forall cfg t ts, has cfg X_ADVANCED_UNITS = false ->
    parse_quantity cfg (t :: ts) = sub_block (t :: ts) (parse_regular_quantity cfg).
Proof. exact advanced_off. Qed.
Print Assumptions C02_advanced_off.

Theorem C02_advanced_untriggered :
  forall cfg s, existsb (fun t => tk_eqb (kind t) KPercent) (b_all s) = true ->
    parse_advanced_quantity cfg s = Done (None, s).
Proof. exact advanced_untriggered. Qed.
Print Assumptions C02_advanced_untriggered.

Theorem C02_modes_off :
  forall cfg old_style key, has cfg X_MODES = false -> meta_kept cfg old_style key = old_style.
Proof. exact modes_off. Qed.
Print Assumptions C02_modes_off.

Theorem C02_modes_untriggered :
  forall cfg old_style key, is_config_key key = false -> meta_kept cfg old_style key = old_style.
Proof. exact modes_untriggered. Qed.
Print Assumptions C02_modes_untriggered.

(* 192 distinct sets, computed from the bit values regenerated from src/lib.rs *)
Theorem C02_subsets_192 :
  length ext_sets = 192%nat
  /\ forallb (fun e => implb (ext_has e X_INTERMEDIATE_PREPARATIONS) (ext_has e X_COMPONENT_MODIFIERS)) ext_sets = true
  /\ forallb (fun e => N.land e X_ALL =? e) ext_sets = true.
Proof. exact (conj ext_sets_192 (conj ext_sets_intermediate_implies_modifiers ext_sets_within_all)). Qed.
Print Assumptions C02_subsets_192.

(* ---- TIMER_REQUIRES_TIME (step.rs 460-467): the gate of timer_p ------------------------- *)
Theorem C02_timer_time_off :
  forall cfg q bd name, has cfg X_TIMER_REQUIRES_TIME = false -> timer_time_gate cfg q bd name = ret q.
Proof. exact timer_time_off. Qed.
Print Assumptions C02_timer_time_off.

Theorem C02_timer_time_untriggered :
  forall cfg q0 bd name, timer_time_gate cfg (Some q0) bd name = ret (Some q0).
Proof. exact timer_time_untriggered. Qed.
Print Assumptions C02_timer_time_untriggered.

(* ---- INTERMEDIATE_PREPARATIONS (step.rs 103-111, 155-157) --------------------------------- *)
Theorem C02_intermediate_off :
  forall cfg fuel, has cfg X_INTERMEDIATE_PREPARATIONS = false ->
    forall ts msp mods inter s m i s',
      parse_mods_loop cfg fuel ts msp mods inter s = Done ((m, i), s') -> i = inter.
Proof. exact intermediate_off. Qed.
Print Assumptions C02_intermediate_off.

Theorem C02_intermediate_off_loop :
  forall cfg f acc s, has cfg X_INTERMEDIATE_PREPARATIONS = false -> peek_of s = KAnd ->
    modifiers_loop cfg (S f) acc s = (t <- bump_any ;; modifiers_loop cfg f (acc ++ [t])) s.
Proof. exact intermediate_off_loop. Qed.
Print Assumptions C02_intermediate_off_loop.

Theorem C02_intermediate_untriggered :
  forall ts, tk_eqb (head_kind ts) KOpenParen = false -> parse_inter ts = ret (None, ts).
Proof. exact intermediate_untriggered. Qed.
Print Assumptions C02_intermediate_untriggered.

(* The analysis model reuses names of the parser model (timer, modifiers, ...): its theorems
   live in a module that imports it locally. *)
Module AnalysisSide.
Import CL.Model.Analysis CL.Proofs.C02AnalysisGates.

(* ---- INLINE_QUANTITIES (event_consumer.rs 518): gate of the analysis model ---------------- *)
Theorem C02_inline_off :
  forall ci_key find_iq unit_class x s t items,
    x_inline x = false -> dm_eqb (a_define s) DMComponents = false ->
    in_step ci_key find_iq unit_class x s (EText t) items
    = Done (set_block s (Some (BStep (items ++ [IText (text_str t)])))).
Proof. exact inline_off. Qed.
Print Assumptions C02_inline_off.

Theorem C02_inline_untriggered :
  forall ci_key find_iq unit_class x s t items,
    find_iq (text_str t) = None -> is_nil (text_str t) = false ->
    in_step ci_key find_iq unit_class (with_inline x true) s (EText t) items
    = in_step ci_key find_iq unit_class (with_inline x false) s (EText t) items.
Proof. exact inline_untriggered. Qed.
Print Assumptions C02_inline_untriggered.

(* ---- MODES and ADVANCED_UNITS as consulted by the analysis model --------------------------- *)
Theorem C02_modes_analysis_off :
  forall x s key value, x_modes x = false -> metadata x s key value = s.
Proof. exact modes_analysis_off. Qed.
Print Assumptions C02_modes_analysis_off.

Theorem C02_timer_units_off :
  forall unit_class x s t, x_advanced x = false ->
    a_errors (fst (timer unit_class x s t)) = a_errors s.
Proof. exact timer_units_off. Qed.
Print Assumptions C02_timer_units_off.

Theorem C02_timer_units_untriggered :
  forall unit_class x s t,
    (match pt_quantity t with
     | Some q => negb (pvalue_is_text (qv_value (pq_value q)))
                 && match pq_unit q with Some u => unit_class (text_trimmed u) =? 1 | None => true end
     | None => true
     end) = true ->
    timer unit_class (with_advanced x true) s t = timer unit_class (with_advanced x false) s t.
Proof. exact timer_units_untriggered. Qed.
Print Assumptions C02_timer_units_untriggered.
End AnalysisSide.

(* ---- composition: quantities, components, the step loop ------------------------------------ *)
(* a quantity that introduces its unit with `%` and holds no `-` is read the same way *)
Theorem C02_quantity_invariant :
  forall cfg e1 e2 q s,
    Forall goodt q -> existsb (fun t => tk_eqb (kind t) KPercent) q = true ->
    parse_quantity (with_ext cfg e1) q s = parse_quantity (with_ext cfg e2) q s.
Proof. exact parse_quantity_inv. Qed.
Print Assumptions C02_quantity_invariant.

(* PARTIAL: the class core_tokens is narrower than the statement's (no timers, every non-blank
   braced quantity has a `%`, no `-` at all); within it, for EVERY pair of extension words
   (in particular the 192 sets) a step block yields the same events, diagnostics and panics. *)
Theorem C02_step_invariant_partial :
  forall cfg e1 e2 ts evs, core_tokens ts = true ->
    run_block ts evs (parse_step (with_ext cfg e1)) = run_block ts evs (parse_step (with_ext cfg e2)).
Proof. exact step_invariant. Qed.
Print Assumptions C02_step_invariant_partial.

Theorem C02_block_invariant_partial :
  forall cfg e1 e2 old ts evs, step_start (head_kind ts) = true -> core_tokens ts = true ->
    run_block ts evs (parse_block (with_ext cfg e1) old) = run_block ts evs (parse_block (with_ext cfg e2) old).
Proof. exact block_invariant. Qed.
Print Assumptions C02_block_invariant_partial.

(* the hypotheses are satisfiable: "@salt{1%kg}(fine) mix 2 eggs #pot" lexed with the
   implementation's character classes is a core block starting a step *)
Example C02_core_tokens_satisfiable :
  match lex U [64;115;97;108;116;123;49;37;107;103;125;40;102;105;110;101;41;32;109;105;120;32;50;32;
               101;103;103;115;32;35;112;111;116] with
  | Some ts => core_tokens ts && step_start (head_kind ts)
  | None => false
  end = true.
Proof. vm_compute. reflexivity. Qed.

(* and the class really excludes extension syntax: "@salt{1 kg}" is not core *)
Example C02_core_tokens_rejects_unit_without_percent :
  match lex U [64;115;97;108;116;123;49;32;107;103;125] with
  | Some ts => core_tokens ts
  | None => true
  end = false.
Proof. vm_compute. reflexivity. Qed.

(* ---- the full statement, parser half: NOT proved (monitored by checks/c02.py) -------------- *)
(* every source of the statement's class (core_source: Proofs/C02Invariance.v section 7) gives the
   same event stream under any two of the 192 sets; the analysis half adds: analysing that
   stream with any two sets gives the same recipe and reports no error. *)
Definition C02_full_statement : Prop :=
  forall (Ucls : N -> ucls) (cfg : pcfg) (e1 e2 : N) (s : str),
    In e1 ext_sets -> In e2 ext_sets -> core_source Ucls s = true ->
    events Ucls (with_ext cfg e1) s = events Ucls (with_ext cfg e2) s.
