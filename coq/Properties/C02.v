(* C02 - Core-syntax recipes parse identically under every extension subset.
   Proved: the gate lemmas of the parser model and of the analysis model, one pair per
   extension (extension off: its syntax is never consulted and the core reading results;
   extension on but trigger absent: same result as off); their composition over the step loop
   (C02_step_invariant_partial, C02_block_invariant_partial: first, narrow class; then
   C02_step_invariant, C02_block_invariant over the wider class core2 / block_ok that admits
   unit-less quantities, `-`, timers with a quantity and every block kind); the lift to whole
   documents (C02_events_invariant: same event stream for any two extension words when every
   block of the source is block_ok; C02_meta_events_invariant unconditionally); the analysis
   pass on quiet event streams (C02_analyse_invariant) and both halves together
   (C02_pipeline_invariant), with the event postcondition C02_events_quiet that makes core_doc
   alone sufficient; C02_full : C02_full_statement; and the enumeration of the 192 extension
   sets over the REGENERATED bit values.
   Converse half at document level for any source: C02_alias_off_document, C02_range_off_document
   (generic event postcondition, Proofs/C02Converse.v); the other six families have gate lemmas.
   Not theorems: absence of errors on well-formed core recipes, the converse readings of the other
   families at document level - monitored on the implementation under all 192 sets. *)
From CL Require Import Base.StrLemmas Model.Parser Gen.CharClass Proofs.ParserGates Proofs.C02Invariance
  Proofs.C02Wide Model.EventBridge Proofs.C02Pipeline Proofs.C02Quiet Proofs.C02Full Proofs.C02Converse.
From CL Require Model.Analysis Proofs.C02AnalysisGates Proofs.C02AnalyseInv.

Theorem C02_range_off : forall cfg ts, has cfg X_RANGE_VALUES = false -> range_value cfg ts = None.
Proof. exact range_off. Qed.
Print Assumptions C02_range_off.

Theorem C02_range_untriggered :
  forall cfg ts, position (fun k => tk_eqb k KMinus) ts = None -> range_value cfg ts = None.
Proof. exact range_untriggered. Qed.
Print Assumptions C02_range_untriggered.

Theorem C02_alias_off :
  forall cfg ts off, has cfg X_COMPONENT_ALIAS = false ->
    parse_alias cfg ts off = bind (textM cfg off ts) (fun nt => ret (nt, None)).
Proof. exact alias_off. Qed.
Print Assumptions C02_alias_off.

Theorem C02_alias_untriggered :
  forall cfg ts off, position (fun k => tk_eqb k KOr) ts = None ->
    parse_alias cfg ts off = bind (textM cfg off ts) (fun nt => ret (nt, None)).
Proof. exact alias_untriggered. Qed.
Print Assumptions C02_alias_untriggered.

Theorem C02_modifiers_off : forall cfg, has cfg X_COMPONENT_MODIFIERS = false -> modifiers cfg = ret [].
Proof. exact modifiers_off. Qed.
Print Assumptions C02_modifiers_off.

Theorem C02_modifiers_untriggered :
  forall cfg s, is_modifier_kind (peek_of s) = false -> modifiers cfg s = Done ([], s).
Proof. exact modifiers_untriggered. Qed.
Print Assumptions C02_modifiers_untriggered.

Theorem C02_advanced_off :
  forall cfg t ts, has cfg X_ADVANCED_UNITS = false ->
    parse_quantity cfg (t :: ts) = sub_block (t :: ts) (parse_regular_quantity cfg).
Proof. exact advanced_off. Qed.
Print Assumptions C02_advanced_off.

Theorem C02_advanced_untriggered :
  forall cfg s, existsb (fun t => tk_eqb (kind t) KPercent) (b_all s) = true ->
    parse_advanced_quantity cfg s = Done (None, s).
Proof. exact advanced_untriggered. Qed.
Print Assumptions C02_advanced_untriggered.

Theorem C02_modes_off :
  forall cfg old_style key, has cfg X_MODES = false -> meta_kept cfg old_style key = old_style.
Proof. exact modes_off. Qed.
Print Assumptions C02_modes_off.

Theorem C02_modes_untriggered :
  forall cfg old_style key, is_config_key key = false -> meta_kept cfg old_style key = old_style.
Proof. exact modes_untriggered. Qed.
Print Assumptions C02_modes_untriggered.

(* 192 distinct sets, computed from the bit values regenerated from src/lib.rs *)
Theorem C02_subsets_192 :
  length ext_sets = 192%nat
  /\ forallb (fun e => implb (ext_has e X_INTERMEDIATE_PREPARATIONS) (ext_has e X_COMPONENT_MODIFIERS)) ext_sets = true
  /\ forallb (fun e => N.land e X_ALL =? e) ext_sets = true.
Proof. exact (conj ext_sets_192 (conj ext_sets_intermediate_implies_modifiers ext_sets_within_all)). Qed.
Print Assumptions C02_subsets_192.

(* ---- TIMER_REQUIRES_TIME (step.rs 460-467): the gate of timer_p ------------------------- *)
Theorem C02_timer_time_off :
  forall cfg q bd name, has cfg X_TIMER_REQUIRES_TIME = false -> timer_time_gate cfg q bd name = ret q.
Proof. exact timer_time_off. Qed.
Print Assumptions C02_timer_time_off.

Theorem C02_timer_time_untriggered :
  forall cfg q0 bd name, timer_time_gate cfg (Some q0) bd name = ret (Some q0).
Proof. exact timer_time_untriggered. Qed.
Print Assumptions C02_timer_time_untriggered.

(* ---- INTERMEDIATE_PREPARATIONS (step.rs 103-111, 155-157) --------------------------------- *)
Theorem C02_intermediate_off :
  forall cfg fuel, has cfg X_INTERMEDIATE_PREPARATIONS = false ->
    forall ts msp mods inter s m i s',
      parse_mods_loop cfg fuel ts msp mods inter s = Done ((m, i), s') -> i = inter.
Proof. exact intermediate_off. Qed.
Print Assumptions C02_intermediate_off.

Theorem C02_intermediate_off_loop :
  forall cfg f acc s, has cfg X_INTERMEDIATE_PREPARATIONS = false -> peek_of s = KAnd ->
    modifiers_loop cfg (S f) acc s = (t <- bump_any ;; modifiers_loop cfg f (acc ++ [t])) s.
Proof. exact intermediate_off_loop. Qed.
Print Assumptions C02_intermediate_off_loop.

Theorem C02_intermediate_untriggered :
  forall ts, tk_eqb (head_kind ts) KOpenParen = false -> parse_inter ts = ret (None, ts).
Proof. exact intermediate_untriggered. Qed.
Print Assumptions C02_intermediate_untriggered.

(* The analysis model reuses names of the parser model (timer, modifiers, ...): its theorems
   live in a module that imports it locally. *)
Module AnalysisSide.
Import CL.Model.Analysis CL.Proofs.C02AnalysisGates.

(* ---- INLINE_QUANTITIES (event_consumer.rs 518): gate of the analysis model ---------------- *)
Theorem C02_inline_off :
  forall ci_key find_iq unit_class x s t items,
    x_inline x = false -> dm_eqb (a_define s) DMComponents = false ->
    in_step ci_key find_iq unit_class x s (EText t) items
    = Done (set_block s (Some (BStep (items ++ [IText (text_str t)])))).
Proof. exact inline_off. Qed.
Print Assumptions C02_inline_off.

Theorem C02_inline_untriggered :
  forall ci_key find_iq unit_class x s t items,
    find_iq (text_str t) = None -> is_nil (text_str t) = false ->
    in_step ci_key find_iq unit_class (with_inline x true) s (EText t) items
    = in_step ci_key find_iq unit_class (with_inline x false) s (EText t) items.
Proof. exact inline_untriggered. Qed.
Print Assumptions C02_inline_untriggered.

(* ---- MODES and ADVANCED_UNITS as consulted by the analysis model --------------------------- *)
Theorem C02_modes_analysis_off :
  forall x s key value, x_modes x = false -> metadata x s key value = s.
Proof. exact modes_analysis_off. Qed.
Print Assumptions C02_modes_analysis_off.

Theorem C02_timer_units_off :
  forall unit_class x s t, x_advanced x = false ->
    a_errors (fst (timer unit_class x s t)) = a_errors s.
Proof. exact timer_units_off. Qed.
Print Assumptions C02_timer_units_off.

Theorem C02_timer_units_untriggered :
  forall unit_class x s t,
    (match pt_quantity t with
     | Some q => negb (pvalue_is_text (qv_value (pq_value q)))
                 && match pq_unit q with Some u => unit_class (text_trimmed u) =? 1 | None => true end
     | None => true
     end) = true ->
    timer unit_class (with_advanced x true) s t = timer unit_class (with_advanced x false) s t.
Proof. exact timer_units_untriggered. Qed.
Print Assumptions C02_timer_units_untriggered.

(* the collector on a quiet stream (no bracketed key, no number+known-unit phrase in step text,
   timers with a number and a time unit, no reference modifier): same recipe, validity and
   output under ANY two extension records; induction over the stream with the invariant
   "define = all, duplicate = new" *)
Import CL.Proofs.C02AnalyseInv.
Theorem C02_analyse_invariant :
  forall ci_key yaml_ok find_iq unit_class input cfg x1 x2 evs,
    forallb (quiet_event find_iq unit_class) evs = true ->
    analyse ci_key yaml_ok find_iq unit_class input x1 cfg evs
    = analyse ci_key yaml_ok find_iq unit_class input x2 cfg evs.
Proof. exact analyse_quiet. Qed.
Print Assumptions C02_analyse_invariant.
End AnalysisSide.

(* ---- composition: quantities, components, the step loop ------------------------------------ *)
(* a quantity that introduces its unit with `%` and holds no `-` is read the same way *)
Theorem C02_quantity_invariant :
  forall cfg e1 e2 q s,
    Forall goodt q -> existsb (fun t => tk_eqb (kind t) KPercent) q = true ->
    parse_quantity (with_ext cfg e1) q s = parse_quantity (with_ext cfg e2) q s.
Proof. exact parse_quantity_inv. Qed.
Print Assumptions C02_quantity_invariant.

(* PARTIAL: the class core_tokens is narrower than the statement's (no timers, every non-blank
   braced quantity has a `%`, no `-` at all); within it, for EVERY pair of extension words
   (in particular the 192 sets) a step block yields the same events, diagnostics and panics. *)
Theorem C02_step_invariant_partial :
  forall cfg e1 e2 ts evs, core_tokens ts = true ->
    run_block ts evs (parse_step (with_ext cfg e1)) = run_block ts evs (parse_step (with_ext cfg e2)).
Proof. exact step_invariant. Qed.
Print Assumptions C02_step_invariant_partial.

Theorem C02_block_invariant_partial :
  forall cfg e1 e2 old ts evs, step_start (head_kind ts) = true -> core_tokens ts = true ->
    run_block ts evs (parse_block (with_ext cfg e1) old) = run_block ts evs (parse_block (with_ext cfg e2) old).
Proof. exact block_invariant. Qed.
Print Assumptions C02_block_invariant_partial.

(* the hypotheses are satisfiable: "@salt{1%kg}(fine) mix 2 eggs #pot" lexed with the
   implementation's character classes is a core block starting a step *)
Example C02_core_tokens_satisfiable :
  match lex U [64;115;97;108;116;123;49;37;107;103;125;40;102;105;110;101;41;32;109;105;120;32;50;32;
               101;103;103;115;32;35;112;111;116] with
  | Some ts => core_tokens ts && step_start (head_kind ts)
  | None => false
  end = true.
Proof. vm_compute. reflexivity. Qed.

(* and the class really excludes extension syntax: "@salt{1 kg}" is not core *)
Example C02_core_tokens_rejects_unit_without_percent :
  match lex U [64;115;97;108;116;123;49;32;107;103;125] with
  | Some ts => core_tokens ts
  | None => true
  end = false.
Proof. vm_compute. reflexivity. Qed.

(* ---- the wider class (Proofs/C02Wide.v) ------------------------------------------------------ *)
(* ADVANCED_UNITS on, no `%`: the shape of the tokens alone sends the quantity down the regular
   path ({2}, {some}, {1/2}, {=3}, {2x}: no word, word first, or no blank before the first word) *)
Theorem C02_advanced_untriggered_shape :
  forall cfg q evs, adv_none q = true ->
    exists s', parse_advanced_quantity cfg {| b_all := q; b_done := []; b_rest := q; b_evs := evs |} = Done (None, s')
               /\ b_evs s' = evs.
Proof. exact adv_none_sound. Qed.
Print Assumptions C02_advanced_untriggered_shape.

(* RANGE_VALUES on: a `-` that has no number on both sides is no range *)
Theorem C02_range_untriggered_numbers :
  forall cfg ts, range_quiet ts = true -> range_value cfg ts = None.
Proof. exact range_value_quiet. Qed.
Print Assumptions C02_range_untriggered_numbers.

Theorem C02_quantity_invariant_wide :
  forall cfg e1 e2 q s, adv_none q = true -> range_quiet (value_tokens q) = true ->
    parse_quantity (with_ext cfg e1) q s = parse_quantity (with_ext cfg e2) q s.
Proof. exact parse_quantity_inv2. Qed.
Print Assumptions C02_quantity_invariant_wide.

(* timers with a quantity in braces: TIMER_REQUIRES_TIME is not consulted *)
Theorem C02_timer_invariant :
  forall cfg e1 e2 s, core2 (b_rest s) = true -> timer_p (with_ext cfg e1) s = timer_p (with_ext cfg e2) s.
Proof. exact timer_inv2. Qed.
Print Assumptions C02_timer_invariant.

(* step blocks of the class core2: unit-less quantities, `-` and `|` outside values and names,
   `& ? +` anywhere but right after a marker, timers with a quantity *)
Theorem C02_step_invariant :
  forall cfg e1 e2 s, core2 (b_rest s) = true -> parse_step (with_ext cfg e1) s = parse_step (with_ext cfg e2) s.
Proof. exact parse_step_inv2. Qed.
Print Assumptions C02_step_invariant.

(* the class of the first two invariance theorems is contained in the wider one *)
Theorem C02_class_widened : forall ts, core_tokens ts = true -> core2 ts = true.
Proof. exact core_tokens_core2. Qed.
Print Assumptions C02_class_widened.

(* on a core block an ingredient event carries no modifier bits and no intermediate data (this
   is what makes it "quiet" for the analysis pass) *)
Theorem C02_ingredient_plain :
  forall cfg s ev s', core2 (b_rest s) = true -> ingredient_p cfg s = Done (Some ev, s') ->
    exists i, ev = EvIngredient i /\ i_mods i = 0 /\ i_inter i = None.
Proof. exact ingredient_plain. Qed.
Print Assumptions C02_ingredient_plain.

(* every block kind: `>>` line with a plain key, section line, `>` text block, step *)
Theorem C02_block_invariant :
  forall cfg e1 e2 old ts evs, block_ok cfg ts = true ->
    run_block ts evs (parse_block (with_ext cfg e1) old) = run_block ts evs (parse_block (with_ext cfg e2) old).
Proof. exact block_invariant2. Qed.
Print Assumptions C02_block_invariant.

(* whole documents: the parser half of C02_full_statement, proved completely for its class
   core_doc (every block of the source is block_ok) and for ANY two extension words *)
Theorem C02_events_invariant :
  forall Ucls cfg e1 e2 s, core_doc Ucls cfg s = true ->
    events Ucls (with_ext cfg e1) s = events Ucls (with_ext cfg e2) s.
Proof. exact events_invariant. Qed.
Print Assumptions C02_events_invariant.

(* the metadata-only iterator does not consult the extensions at all: no side condition *)
Theorem C02_meta_events_invariant :
  forall Ucls cfg e1 e2 s, meta_events Ucls (with_ext cfg e1) s = meta_events Ucls (with_ext cfg e2) s.
Proof. exact meta_events_invariant. Qed.
Print Assumptions C02_meta_events_invariant.

(* the parser's test for a bracketed key (outer-trimmed key, mod.rs 361-371) and the collector's
   (text_trimmed key, event_consumer.rs 352-354) agree *)
Theorem C02_bracket_tests_agree :
  forall key, is_config_key key = false -> key_bracketed_str (text_trimmed key) = false.
Proof. exact bracket_tests_agree. Qed.
Print Assumptions C02_bracket_tests_agree.

(* core_doc alone: every ingredient event of the stream has no modifier bits and no intermediate
   data, every metadata event a key that is no config key (event postcondition carried through
   step_loop, parse_block, blocks_loop) *)
Theorem C02_events_quiet :
  forall Ucls cfg e s evs, core_doc Ucls cfg s = true -> events Ucls (with_ext cfg e) s = Done evs -> Forall Pev evs.
Proof. exact events_evs. Qed.
Print Assumptions C02_events_quiet.

(* both halves, for ANY two extension words and ANY two extension records: same events, same
   analysis result; the only hypothesis besides core_doc is the converter-dependent one *)
Theorem C02_pipeline_invariant :
  forall Ucls cfg e1 e2 s evs ci_key yaml_ok find_iq unit_class input acfg x1 x2,
    core_doc Ucls cfg s = true ->
    events Ucls (with_ext cfg e1) s = Done evs ->
    oracle_quiet find_iq unit_class (abstract_events evs) = true ->
    events Ucls (with_ext cfg e2) s = Done evs
    /\ CL.Model.Analysis.analyse ci_key yaml_ok find_iq unit_class input x1 acfg (abstract_events evs)
       = CL.Model.Analysis.analyse ci_key yaml_ok find_iq unit_class input x2 acfg (abstract_events evs).
Proof. exact pipeline_full. Qed.
Print Assumptions C02_pipeline_invariant.

(* the hypotheses are satisfiable: a recipe with a front matter, a plain `>>` line in the body, a
   section, a text block, unit-less and fractional quantities, a locked quantity, a number-led
   text value with `%`, `-` and `|` in step text, a note, and a timer with a time quantity:
   ---\na: 1\n---\n>> k: v\n= Dough\n> rest well\n\nMix @flour{2} and @eggs{1/2}, @salt{=3} - a | b
   @potatoes{2 medium%pieces}(peeled) #pot{some} ~{5%min} well-done *)
Definition C02_sample_cfg : pcfg :=
  {| p_ext := 0; p_debug := true; p_strict_escape := false; p_note_label_old := false; p_fm_anywhere := false |}.
Definition C02_sample_source : str :=
  [45;45;45;10;97;58;32;49;10;45;45;45;10;62;62;32;107;58;32;118;10;61;32;68;111;117;103;104;10;62;32;114;101;
   115;116;32;119;101;108;108;10;10;77;105;120;32;64;102;108;111;117;114;123;50;125;32;97;110;100;32;64;101;
   103;103;115;123;49;47;50;125;44;32;64;115;97;108;116;123;61;51;125;32;45;32;97;32;124;32;98;10;64;112;111;
   116;97;116;111;101;115;123;50;32;109;101;100;105;117;109;37;112;105;101;99;101;115;125;40;112;101;101;108;
   101;100;41;32;35;112;111;116;123;115;111;109;101;125;32;126;123;53;37;109;105;110;125;32;119;101;108;108;
   45;100;111;110;101].
Example C02_core_doc_satisfiable :
  core_doc U C02_sample_cfg C02_sample_source = true
  /\ (exists evs, events U (with_ext C02_sample_cfg 0) C02_sample_source = Done evs /\ (10 <= length evs)%nat).
Proof. split; [vm_compute; reflexivity|]. eexists. split; [vm_compute; reflexivity | vm_compute; repeat constructor]. Qed.

(* and the class still excludes what the statement excludes *)
Example C02_core_doc_rejects :
  (* "@a{1 kg}", "@a{2-3}", "~rest", "@a|b{}", ">> [mode]: x" *)
  map (core_doc U C02_sample_cfg)
    [[64;97;123;49;32;107;103;125]; [64;97;123;50;45;51;125]; [126;114;101;115;116]; [64;97;124;98;123;125];
     [62;62;32;91;109;111;100;101;93;58;32;120]]
  = [false; false; false; false; false].
Proof. vm_compute. reflexivity. Qed.

(* ---- the full statement, and its proof --------------------------------------------------------- *)
(* For every source of the class core_doc and any two of the 192 sets: the same event stream, and
   the same analysis result under the extension records read off the two sets, as soon as the
   converter-dependent triggers are absent (oracle_quiet: no number+known-unit phrase in a step
   text, timers with a number and a time unit - both are answers of the converter, an oracle).
   Not part of it: the statement's "with no errors" (core_doc admits malformed input such as
   "@{}", which reports the same error under every set; equal streams carry the absence of errors
   from one set to every other) and the converse readings (gate lemmas *_off above). *)
Definition C02_full_statement : Prop :=
  forall (Ucls : N -> ucls) (cfg : pcfg) (e1 e2 : N) (s : str) (evs : list pevent)
         ci_key yaml_ok find_iq unit_class input acfg,
    In e1 ext_sets -> In e2 ext_sets -> core_doc Ucls cfg s = true ->
    events Ucls (with_ext cfg e1) s = Done evs ->
    oracle_quiet find_iq unit_class (abstract_events evs) = true ->
    events Ucls (with_ext cfg e2) s = Done evs
    /\ CL.Model.Analysis.analyse ci_key yaml_ok find_iq unit_class input (aext_of e1) acfg (abstract_events evs)
       = CL.Model.Analysis.analyse ci_key yaml_ok find_iq unit_class input (aext_of e2) acfg (abstract_events evs).

Theorem C02_full : C02_full_statement.
Proof.
  intros Ucls cfg e1 e2 s evs ci_key yaml_ok find_iq unit_class input acfg _ _ Hc He Ho.
  exact (pipeline_full Ucls cfg e1 e2 s evs ci_key yaml_ok find_iq unit_class input acfg (aext_of e1) (aext_of e2) Hc He Ho).
Qed.
Print Assumptions C02_full.

(* the converter-dependent hypothesis is satisfiable on the sample: a converter that knows no
   unit in step text and takes every timer unit for a time unit *)
Example C02_oracle_quiet_satisfiable :
  exists evs, events U (with_ext C02_sample_cfg 0) C02_sample_source = Done evs
              /\ oracle_quiet (fun _ => None) (fun _ => 1) (abstract_events evs) = true.
Proof. eexists. split; [vm_compute; reflexivity|]. vm_compute. reflexivity. Qed.

(* ---- the converse half at document level, for ANY source ----------------------------------- *)
(* COMPONENT_ALIAS off: no ingredient or cookware event of the stream carries an alias, i.e. a `|`
   between the marker and `{` is never split off the name (with C02_alias_off: the name is the
   text of all the name tokens) *)
Theorem C02_alias_off_document :
  forall Ucls c s evs, has c X_COMPONENT_ALIAS = false -> events Ucls c s = Done evs -> Forall Palias evs.
Proof. exact alias_off_document. Qed.
Print Assumptions C02_alias_off_document.

(* RANGE_VALUES off: no quantity of any ingredient, cookware or timer event is a range - `2-3`
   can only be a number-free text value *)
Theorem C02_range_off_document :
  forall Ucls c s evs, has c X_RANGE_VALUES = false -> events Ucls c s = Done evs -> Forall Prange evs.
Proof. intros Ucls c s evs H. exact (range_off_document c H Ucls s evs). Qed.
Print Assumptions C02_range_off_document.

(* and on "@a|b{2-3}" under the empty set: name "a|b", text value "2-3" *)
Example C02_converse_sample :
  match events U (with_ext C02_sample_cfg 0) [64;97;124;98;123;50;45;51;125] with
  | Done [EvStart true; EvIngredient i; EvEnd true] =>
      match i_alias i, i_qty i with
      | None, Some q => match qv (q_val q) with VText t => str_eqb t [50;45;51] | _ => false end
                        && str_eqb (text_str (i_name i)) [97;124;98]
      | _, _ => false
      end
  | _ => false
  end = true.
Proof. vm_compute. reflexivity. Qed.

(* the first formulation (syntactic class on the whole token list), kept for reference; not proved *)
Definition C02_full_statement_tokens : Prop :=
  forall (Ucls : N -> ucls) (cfg : pcfg) (e1 e2 : N) (s : str),
    In e1 ext_sets -> In e2 ext_sets -> core_source Ucls s = true ->
    events Ucls (with_ext cfg e1) s = events Ucls (with_ext cfg e2) s.
