(* C02 - Core-syntax recipes parse identically under every extension subset.
   Proved: the gate lemmas of the parser model, both directions (extension off: its
   syntax is never consulted; extension on but trigger token absent: same path as off),
   and the enumeration of the 192 extension sets over the REGENERATED bit values.
   The whole-document statement is monitored on the implementation under all 192 sets. *)
From CL Require Import Base.StrLemmas Model.Parser Proofs.ParserGates.

Theorem C02_range_off : forall cfg ts, has cfg X_RANGE_VALUES = false -> range_value cfg ts = None.
Proof. exact range_off. Qed.
Print Assumptions C02_range_off.

Theorem C02_range_untriggered :
  forall cfg ts, position (fun k => tk_eqb k KMinus) ts = None -> range_value cfg ts = None.
Proof. exact range_untriggered. Qed.
Print Assumptions C02_range_untriggered.

Theorem C02_alias_off :
  forall cfg ts off, has cfg X_COMPONENT_ALIAS = false ->
    parse_alias cfg ts off = bind (textM cfg off ts) (fun nt => ret (nt, None)).
Proof. exact alias_off. Qed.
Print Assumptions C02_alias_off.

Theorem C02_alias_untriggered :
  forall cfg ts off, position (fun k => tk_eqb k KOr) ts = None ->
    parse_alias cfg ts off = bind (textM cfg off ts) (fun nt => ret (nt, None)).
Proof. exact alias_untriggered. Qed.
Print Assumptions C02_alias_untriggered.

Theorem C02_modifiers_off : forall cfg, has cfg X_COMPONENT_MODIFIERS = false -> modifiers cfg = ret [].
Proof. exact modifiers_off. Qed.
Print Assumptions C02_modifiers_off.

Theorem C02_modifiers_untriggered :
  forall cfg s, is_modifier_kind (peek_of s) = false -> modifiers cfg s = Done ([], s).
Proof. exact modifiers_untriggered. Qed.
Print Assumptions C02_modifiers_untriggered.

Theorem C02_advanced_off :
  forall cfg t ts, has cfg X_ADVANCED_UNITS = false ->
    parse_quantity cfg (t :: ts) = sub_block (t :: ts) (parse_regular_quantity cfg).
Proof. exact advanced_off. Qed.
Print Assumptions C02_advanced_off.

Theorem C02_advanced_untriggered :
  forall cfg s, existsb (fun t => tk_eqb (kind t) KPercent) (b_all s) = true ->
    parse_advanced_quantity cfg s = Done (None, s).
Proof. exact advanced_untriggered. Qed.
Print Assumptions C02_advanced_untriggered.

Theorem C02_modes_off :
  forall cfg old_style key, has cfg X_MODES = false -> meta_kept cfg old_style key = old_style.
Proof. exact modes_off. Qed.
Print Assumptions C02_modes_off.

Theorem C02_modes_untriggered :
  forall cfg old_style key, is_config_key key = false -> meta_kept cfg old_style key = old_style.
Proof. exact modes_untriggered. Qed.
Print Assumptions C02_modes_untriggered.

(* 192 distinct sets, computed from the bit values regenerated from src/lib.rs *)
Theorem C02_subsets_192 :
  length ext_sets = 192%nat
  /\ forallb (fun e => implb (ext_has e X_INTERMEDIATE_PREPARATIONS) (ext_has e X_COMPONENT_MODIFIERS)) ext_sets = true
  /\ forallb (fun e => N.land e X_ALL =? e) ext_sets = true.
Proof. exact (conj ext_sets_192 (conj ext_sets_intermediate_implies_modifiers ext_sets_within_all)). Qed.
Print Assumptions C02_subsets_192.
