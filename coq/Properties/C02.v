(* C02 - Core-syntax recipes parse identically under every extension subset.
   Proved: the gate lemmas of the parser model and of the analysis model, one pair per
   extension (extension off: its syntax is never consulted and the core reading results;
   extension on but trigger absent: same result as off); their composition over the step loop
   (C02_step_invariant_partial, C02_block_invariant_partial: first, narrow class; then
   C02_step_invariant, C02_block_invariant over the wider class core2 / block_ok that admits
   unit-less quantities, `-`, timers with a quantity and every block kind); the lift to whole
   documents (C02_events_invariant: same event stream for any two extension words when every
   block of the source is block_ok; C02_meta_events_invariant unconditionally); the analysis
   pass on quiet event streams (C02_analyse_invariant) and both halves together
   (C02_pipeline_invariant), with the event postcondition C02_events_quiet that makes core_doc
   alone sufficient; C02_full : C02_full_statement; and the enumeration of the 192 extension
   sets over the REGENERATED bit values.
   Converse half at document level, for ANY source and any extension word lacking the flag
   (generic event postconditions, Proofs/C02Converse.v and Proofs/C02Off.v; the analysis pass on
   ANY event stream, Proofs/C02OffAnalysis.v):
     COMPONENT_ALIAS            C02_alias_off_document, C02_alias_diagnostics_off_document
     RANGE_VALUES               C02_range_off_document
     COMPONENT_MODIFIERS        C02_modifiers_off_document, C02_modifier_diagnostics_off_document,
                                C02_no_references_analysis, C02_no_references_pipeline
     INTERMEDIATE_PREPARATIONS  C02_intermediate_off_document, C02_intermediate_diagnostics_off_document
     TIMER_REQUIRES_TIME        C02_timer_time_off_document
     ADVANCED_UNITS             C02_advanced_off_document, C02_advanced_off_quantity,
                                C02_advanced_off_no_percent, C02_advanced_off_analysis
     MODES                      C02_modes_off_document, C02_modes_off_analysis, C02_modes_constant_analysis
     INLINE_QUANTITIES          C02_inline_off_analysis, C02_inline_off_no_inline
   and C02_diag_codes_document (every diagnostic of any stream has a code that is possible under
   the extension word).
   "With no errors": C02_core_no_errors_partial - a text that spells a document specification
   which is well formed under each of the 192 sets parses under each of them without panic and
   without ANY diagnostic to the denoted events (decidable class core_spelling; partial: no front
   matter, the specification is a certificate given with the text); C02_no_errors_transport -
   for every core_doc source, the streams of any two extension words are equal, so absence of
   errors carries from one set to all.
   Not theorems: absence of errors for core_doc sources without such a certificate - monitored on
   the implementation under all 192 sets. *)
From CL Require Import Base.StrLemmas Model.Parser Gen.CharClass Proofs.ParserGates Proofs.C02Invariance
  Proofs.C02Wide Model.EventBridge Proofs.C02Pipeline Proofs.C02Quiet Proofs.C02Full Proofs.C02Converse Proofs.C02Off Proofs.C02OffPipeline.
From CL Require Model.Analysis Proofs.C02AnalysisGates Proofs.C02AnalyseInv Proofs.C02OffAnalysis.
From CL Require Model.Printer Proofs.C02NoErrors.

Theorem C02_range_off : forall cfg ts, has cfg X_RANGE_VALUES = false -> range_value cfg ts = None.
Proof. exact range_off. Qed.
Print Assumptions C02_range_off.

Theorem C02_range_untriggered :
  forall cfg ts, position (fun k => tk_eqb k KMinus) ts = None -> range_value cfg ts = None.
Proof. exact range_untriggered. Qed.
Print Assumptions C02_range_untriggered.

Theorem C02_alias_off :
  forall cfg ts off, has cfg X_COMPONENT_ALIAS = false ->
    parse_alias cfg ts off = bind (textM cfg off ts) (fun nt => ret (nt, None)).
Proof. exact alias_off. Qed.
Print Assumptions C02_alias_off.

Theorem C02_alias_untriggered :
  forall cfg ts off, position (fun k => tk_eqb k KOr) ts = None ->
    parse_alias cfg ts off = bind (textM cfg off ts) (fun nt => ret (nt, None)).
Proof. exact alias_untriggered. Qed.
Print Assumptions C02_alias_untriggered.

Theorem C02_modifiers_off : forall cfg, has cfg X_COMPONENT_MODIFIERS = false -> modifiers cfg = ret [].
Proof. exact modifiers_off. Qed.
Print Assumptions C02_modifiers_off.

Theorem C02_modifiers_untriggered :
  forall cfg s, is_modifier_kind (peek_of s) = false -> modifiers cfg s = Done ([], s).
Proof. exact modifiers_untriggered. Qed.
Print Assumptions C02_modifiers_untriggered.

Theorem C02_advanced_off :
  forall cfg t ts, has cfg X_ADVANCED_UNITS = false ->
    parse_quantity cfg (t :: ts) = sub_block (t :: ts) (parse_regular_quantity cfg).
Proof. exact advanced_off. Qed.
Print Assumptions C02_advanced_off.

Theorem C02_advanced_untriggered :
  forall cfg s, existsb (fun t => tk_eqb (kind t) KPercent) (b_all s) = true ->
    parse_advanced_quantity cfg s = Done (None, s).
Proof. exact advanced_untriggered. Qed.
Print Assumptions C02_advanced_untriggered.

Theorem C02_modes_off :
  forall cfg old_style key, has cfg X_MODES = false -> meta_kept cfg old_style key = old_style.
Proof. exact modes_off. Qed.
Print Assumptions C02_modes_off.

Theorem C02_modes_untriggered :
  forall cfg old_style key, is_config_key key = false -> meta_kept cfg old_style key = old_style.
Proof. exact modes_untriggered. Qed.
Print Assumptions C02_modes_untriggered.

(* 192 distinct sets, computed from the bit values regenerated from src/lib.rs *)
Theorem C02_subsets_192 :
  length ext_sets = 192%nat
  /\ forallb (fun e => implb (ext_has e X_INTERMEDIATE_PREPARATIONS) (ext_has e X_COMPONENT_MODIFIERS)) ext_sets = true
  /\ forallb (fun e => N.land e X_ALL =? e) ext_sets = true.
Proof. exact (conj ext_sets_192 (conj ext_sets_intermediate_implies_modifiers ext_sets_within_all)). Qed.
Print Assumptions C02_subsets_192.

(* ---- TIMER_REQUIRES_TIME (step.rs 460-467): the gate of timer_p ------------------------- *)
Theorem C02_timer_time_off :
  forall cfg q bd name, has cfg X_TIMER_REQUIRES_TIME = false -> timer_time_gate cfg q bd name = ret q.
Proof. exact timer_time_off. Qed.
Print Assumptions C02_timer_time_off.

Theorem C02_timer_time_untriggered :
  forall cfg q0 bd name, timer_time_gate cfg (Some q0) bd name = ret (Some q0).
Proof. exact timer_time_untriggered. Qed.
Print Assumptions C02_timer_time_untriggered.

(* ---- INTERMEDIATE_PREPARATIONS (step.rs 103-111, 155-157) --------------------------------- *)
Theorem C02_intermediate_off :
  forall cfg fuel, has cfg X_INTERMEDIATE_PREPARATIONS = false ->
    forall ts msp mods inter s m i s',
      parse_mods_loop cfg fuel ts msp mods inter s = Done ((m, i), s') -> i = inter.
Proof. exact intermediate_off. Qed.
Print Assumptions C02_intermediate_off.

Theorem C02_intermediate_off_loop :
  forall cfg f acc s, has cfg X_INTERMEDIATE_PREPARATIONS = false -> peek_of s = KAnd ->
    modifiers_loop cfg (S f) acc s = (t <- bump_any ;; modifiers_loop cfg f (acc ++ [t])) s.
Proof. exact intermediate_off_loop. Qed.
Print Assumptions C02_intermediate_off_loop.

Theorem C02_intermediate_untriggered :
  forall ts, tk_eqb (head_kind ts) KOpenParen = false -> parse_inter ts = ret (None, ts).
Proof. exact intermediate_untriggered. Qed.
Print Assumptions C02_intermediate_untriggered.

(* The analysis model reuses names of the parser model (timer, modifiers, ...): its theorems
   live in a module that imports it locally. *)
Module AnalysisSide.
Import CL.Model.Analysis CL.Proofs.C02AnalysisGates.

(* ---- INLINE_QUANTITIES (event_consumer.rs 518): gate of the analysis model ---------------- *)
Theorem C02_inline_off :
  forall ci_key find_iq unit_class x s t items,
    x_inline x = false -> dm_eqb (a_define s) DMComponents = false ->
    in_step ci_key find_iq unit_class x s (EText t) items
    = Done (set_block s (Some (BStep (items ++ [IText (text_str t)])))).
Proof. exact inline_off. Qed.
Print Assumptions C02_inline_off.

Theorem C02_inline_untriggered :
  forall ci_key find_iq unit_class x s t items,
    find_iq (text_str t) = None -> is_nil (text_str t) = false ->
    in_step ci_key find_iq unit_class (with_inline x true) s (EText t) items
    = in_step ci_key find_iq unit_class (with_inline x false) s (EText t) items.
Proof. exact inline_untriggered. Qed.
Print Assumptions C02_inline_untriggered.

(* ---- MODES and ADVANCED_UNITS as consulted by the analysis model --------------------------- *)
Theorem C02_modes_analysis_off :
  forall x s key value, x_modes x = false -> metadata x s key value = s.
Proof. exact modes_analysis_off. Qed.
Print Assumptions C02_modes_analysis_off.

Theorem C02_timer_units_off :
  forall unit_class x s t, x_advanced x = false ->
    a_errors (fst (timer unit_class x s t)) = a_errors s.
Proof. exact timer_units_off. Qed.
Print Assumptions C02_timer_units_off.

Theorem C02_timer_units_untriggered :
  forall unit_class x s t,
    (match pt_quantity t with
     | Some q => negb (pvalue_is_text (qv_value (pq_value q)))
                 && match pq_unit q with Some u => unit_class (text_trimmed u) =? 1 | None => true end
     | None => true
     end) = true ->
    timer unit_class (with_advanced x true) s t = timer unit_class (with_advanced x false) s t.
Proof. exact timer_units_untriggered. Qed.
Print Assumptions C02_timer_units_untriggered.

(* the collector on a quiet stream (no bracketed key, no number+known-unit phrase in step text,
   timers with a number and a time unit, no reference modifier): same recipe, validity and
   output under ANY two extension records; induction over the stream with the invariant
   "define = all, duplicate = new" *)
Import CL.Proofs.C02AnalyseInv.
Theorem C02_analyse_invariant :
  forall ci_key yaml_ok find_iq unit_class input cfg x1 x2 evs,
    forallb (quiet_event find_iq unit_class) evs = true ->
    analyse ci_key yaml_ok find_iq unit_class input x1 cfg evs
    = analyse ci_key yaml_ok find_iq unit_class input x2 cfg evs.
Proof. exact analyse_quiet. Qed.
Print Assumptions C02_analyse_invariant.
End AnalysisSide.

(* ---- composition: quantities, components, the step loop ------------------------------------ *)
(* a quantity that introduces its unit with `%` and holds no `-` is read the same way *)
Theorem C02_quantity_invariant :
  forall cfg e1 e2 q s,
    Forall goodt q -> existsb (fun t => tk_eqb (kind t) KPercent) q = true ->
    parse_quantity (with_ext cfg e1) q s = parse_quantity (with_ext cfg e2) q s.
Proof. exact parse_quantity_inv. Qed.
Print Assumptions C02_quantity_invariant.

(* PARTIAL: the class core_tokens is narrower than the statement's (no timers, every non-blank
   braced quantity has a `%`, no `-` at all); within it, for EVERY pair of extension words
   (in particular the 192 sets) a step block yields the same events, diagnostics and panics. *)
Theorem C02_step_invariant_partial :
  forall cfg e1 e2 ts evs, core_tokens ts = true ->
    run_block ts evs (parse_step (with_ext cfg e1)) = run_block ts evs (parse_step (with_ext cfg e2)).
Proof. exact step_invariant. Qed.
Print Assumptions C02_step_invariant_partial.

Theorem C02_block_invariant_partial :
  forall cfg e1 e2 old ts evs, step_start (head_kind ts) = true -> core_tokens ts = true ->
    run_block ts evs (parse_block (with_ext cfg e1) old) = run_block ts evs (parse_block (with_ext cfg e2) old).
Proof. exact block_invariant. Qed.
Print Assumptions C02_block_invariant_partial.

(* the hypotheses are satisfiable: "@salt{1%kg}(fine) mix 2 eggs #pot" lexed with the
   implementation's character classes is a core block starting a step *)
Example C02_core_tokens_satisfiable :
  match lex U [64;115;97;108;116;123;49;37;107;103;125;40;102;105;110;101;41;32;109;105;120;32;50;32;
               101;103;103;115;32;35;112;111;116] with
  | Some ts => core_tokens ts && step_start (head_kind ts)
  | None => false
  end = true.
Proof. vm_compute. reflexivity. Qed.

(* and the class really excludes extension syntax: "@salt{1 kg}" is not core *)
Example C02_core_tokens_rejects_unit_without_percent :
  match lex U [64;115;97;108;116;123;49;32;107;103;125] with
  | Some ts => core_tokens ts
  | None => true
  end = false.
Proof. vm_compute. reflexivity. Qed.

(* ---- the wider class (Proofs/C02Wide.v) ------------------------------------------------------ *)
(* ADVANCED_UNITS on, no `%`: the shape of the tokens alone sends the quantity down the regular
   path ({2}, {some}, {1/2}, {=3}, {2x}: no word, word first, or no blank before the first word) *)
Theorem C02_advanced_untriggered_shape :
  forall cfg q evs, adv_none q = true ->
    exists s', parse_advanced_quantity cfg {| b_all := q; b_done := []; b_rest := q; b_evs := evs |} = Done (None, s')
               /\ b_evs s' = evs.
Proof. exact adv_none_sound. Qed.
Print Assumptions C02_advanced_untriggered_shape.

(* RANGE_VALUES on: a `-` that has no number on both sides is no range *)
Theorem C02_range_untriggered_numbers :
  forall cfg ts, range_quiet ts = true -> range_value cfg ts = None.
Proof. exact range_value_quiet. Qed.
Print Assumptions C02_range_untriggered_numbers.

Theorem C02_quantity_invariant_wide :
  forall cfg e1 e2 q s, adv_none q = true -> range_quiet (value_tokens q) = true ->
    parse_quantity (with_ext cfg e1) q s = parse_quantity (with_ext cfg e2) q s.
Proof. exact parse_quantity_inv2. Qed.
Print Assumptions C02_quantity_invariant_wide.

(* timers with a quantity in braces: TIMER_REQUIRES_TIME is not consulted *)
Theorem C02_timer_invariant :
  forall cfg e1 e2 s, core2 (b_rest s) = true -> timer_p (with_ext cfg e1) s = timer_p (with_ext cfg e2) s.
Proof. exact timer_inv2. Qed.
Print Assumptions C02_timer_invariant.

(* step blocks of the class core2: unit-less quantities, `-` and `|` outside values and names,
   `& ? +` anywhere but right after a marker, timers with a quantity *)
Theorem C02_step_invariant :
  forall cfg e1 e2 s, core2 (b_rest s) = true -> parse_step (with_ext cfg e1) s = parse_step (with_ext cfg e2) s.
Proof. exact parse_step_inv2. Qed.
Print Assumptions C02_step_invariant.

(* the class of the first two invariance theorems is contained in the wider one *)
Theorem C02_class_widened : forall ts, core_tokens ts = true -> core2 ts = true.
Proof. exact core_tokens_core2. Qed.
Print Assumptions C02_class_widened.

(* on a core block an ingredient event carries no modifier bits and no intermediate data (this
   is what makes it "quiet" for the analysis pass) *)
Theorem C02_ingredient_plain :
  forall cfg s ev s', core2 (b_rest s) = true -> ingredient_p cfg s = Done (Some ev, s') ->
    exists i, ev = EvIngredient i /\ i_mods i = 0 /\ i_inter i = None.
Proof. exact ingredient_plain. Qed.
Print Assumptions C02_ingredient_plain.

(* every block kind: `>>` line with a plain key, section line, `>` text block, step *)
Theorem C02_block_invariant :
  forall cfg e1 e2 old ts evs, block_ok cfg ts = true ->
    run_block ts evs (parse_block (with_ext cfg e1) old) = run_block ts evs (parse_block (with_ext cfg e2) old).
Proof. exact block_invariant2. Qed.
Print Assumptions C02_block_invariant.

(* whole documents: the parser half of C02_full_statement, proved completely for its class
   core_doc (every block of the source is block_ok) and for ANY two extension words *)
Theorem C02_events_invariant :
  forall Ucls cfg e1 e2 s, core_doc Ucls cfg s = true ->
    events Ucls (with_ext cfg e1) s = events Ucls (with_ext cfg e2) s.
Proof. exact events_invariant. Qed.
Print Assumptions C02_events_invariant.

(* the metadata-only iterator does not consult the extensions at all: no side condition *)
Theorem C02_meta_events_invariant :
  forall Ucls cfg e1 e2 s, meta_events Ucls (with_ext cfg e1) s = meta_events Ucls (with_ext cfg e2) s.
Proof. exact meta_events_invariant. Qed.
Print Assumptions C02_meta_events_invariant.

(* the parser's test for a bracketed key (outer-trimmed key, mod.rs 361-371) and the collector's
   (text_trimmed key, event_consumer.rs 352-354) agree *)
Theorem C02_bracket_tests_agree :
  forall key, is_config_key key = false -> key_bracketed_str (text_trimmed key) = false.
Proof. exact bracket_tests_agree. Qed.
Print Assumptions C02_bracket_tests_agree.

(* core_doc alone: every ingredient event of the stream has no modifier bits and no intermediate
   data, every metadata event a key that is no config key (event postcondition carried through
   step_loop, parse_block, blocks_loop) *)
Theorem C02_events_quiet :
  forall Ucls cfg e s evs, core_doc Ucls cfg s = true -> events Ucls (with_ext cfg e) s = Done evs -> Forall Pev evs.
Proof. exact events_evs. Qed.
Print Assumptions C02_events_quiet.

(* both halves, for ANY two extension words and ANY two extension records: same events, same
   analysis result; the only hypothesis besides core_doc is the converter-dependent one *)
Theorem C02_pipeline_invariant :
  forall Ucls cfg e1 e2 s evs ci_key yaml_ok find_iq unit_class input acfg x1 x2,
    core_doc Ucls cfg s = true ->
    events Ucls (with_ext cfg e1) s = Done evs ->
    oracle_quiet find_iq unit_class (abstract_events evs) = true ->
    events Ucls (with_ext cfg e2) s = Done evs
    /\ CL.Model.Analysis.analyse ci_key yaml_ok find_iq unit_class input x1 acfg (abstract_events evs)
       = CL.Model.Analysis.analyse ci_key yaml_ok find_iq unit_class input x2 acfg (abstract_events evs).
Proof. exact pipeline_full. Qed.
Print Assumptions C02_pipeline_invariant.

(* the hypotheses are satisfiable: a recipe with a front matter, a plain `>>` line in the body, a
   section, a text block, unit-less and fractional quantities, a locked quantity, a number-led
   text value with `%`, `-` and `|` in step text, a note, and a timer with a time quantity:
   ---\na: 1\n---\n>> k: v\n= Dough\n> rest well\n\nMix @flour{2} and @eggs{1/2}, @salt{=3} - a | b
   @potatoes{2 medium%pieces}(peeled) #pot{some} ~{5%min} well-done *)
Definition C02_sample_cfg : pcfg :=
  {| p_ext := 0; p_debug := true; p_strict_escape := false; p_note_label_old := false; p_fm_anywhere := false |}.
Definition C02_sample_source : str :=
  [45;45;45;10;97;58;32;49;10;45;45;45;10;62;62;32;107;58;32;118;10;61;32;68;111;117;103;104;10;62;32;114;101;
   115;116;32;119;101;108;108;10;10;77;105;120;32;64;102;108;111;117;114;123;50;125;32;97;110;100;32;64;101;
   103;103;115;123;49;47;50;125;44;32;64;115;97;108;116;123;61;51;125;32;45;32;97;32;124;32;98;10;64;112;111;
   116;97;116;111;101;115;123;50;32;109;101;100;105;117;109;37;112;105;101;99;101;115;125;40;112;101;101;108;
   101;100;41;32;35;112;111;116;123;115;111;109;101;125;32;126;123;53;37;109;105;110;125;32;119;101;108;108;
   45;100;111;110;101].
Example C02_core_doc_satisfiable :
  core_doc U C02_sample_cfg C02_sample_source = true
  /\ (exists evs, events U (with_ext C02_sample_cfg 0) C02_sample_source = Done evs /\ (10 <= length evs)%nat).
Proof. split; [vm_compute; reflexivity|]. eexists. split; [vm_compute; reflexivity | vm_compute; repeat constructor]. Qed.

(* and the class still excludes what the statement excludes *)
Example C02_core_doc_rejects :
  (* "@a{1 kg}", "@a{2-3}", "~rest", "@a|b{}", ">> [mode]: x" *)
  map (core_doc U C02_sample_cfg)
    [[64;97;123;49;32;107;103;125]; [64;97;123;50;45;51;125]; [126;114;101;115;116]; [64;97;124;98;123;125];
     [62;62;32;91;109;111;100;101;93;58;32;120]]
  = [false; false; false; false; false].
Proof. vm_compute. reflexivity. Qed.

(* a `|` after a single-word component is text: "@salt and a|b then @pepper{}" is in the class *)
Example C02_core_doc_accepts_bar_after_word :
  core_doc U C02_sample_cfg
    [64;115;97;108;116;32;97;110;100;32;97;124;98;32;116;104;101;110;32;64;112;101;112;112;101;114;123;125] = true.
Proof. vm_compute. reflexivity. Qed.

(* ---- the full statement, and its proof --------------------------------------------------------- *)
(* For every source of the class core_doc and any two of the 192 sets: the same event stream, and
   the same analysis result under the extension records read off the two sets, as soon as the
   converter-dependent triggers are absent (oracle_quiet: no number+known-unit phrase in a step
   text, timers with a number and a time unit - both are answers of the converter, an oracle).
   Not part of it: the statement's "with no errors" (core_doc admits malformed input such as
   "@{}", which reports the same error under every set; equal streams carry the absence of errors
   from one set to every other) and the converse readings (gate lemmas *_off above). *)
Definition C02_full_statement : Prop :=
  forall (Ucls : N -> ucls) (cfg : pcfg) (e1 e2 : N) (s : str) (evs : list pevent)
         ci_key yaml_ok find_iq unit_class input acfg,
    In e1 ext_sets -> In e2 ext_sets -> core_doc Ucls cfg s = true ->
    events Ucls (with_ext cfg e1) s = Done evs ->
    oracle_quiet find_iq unit_class (abstract_events evs) = true ->
    events Ucls (with_ext cfg e2) s = Done evs
    /\ CL.Model.Analysis.analyse ci_key yaml_ok find_iq unit_class input (aext_of e1) acfg (abstract_events evs)
       = CL.Model.Analysis.analyse ci_key yaml_ok find_iq unit_class input (aext_of e2) acfg (abstract_events evs).

Theorem C02_full : C02_full_statement.
Proof.
  intros Ucls cfg e1 e2 s evs ci_key yaml_ok find_iq unit_class input acfg _ _ Hc He Ho.
  exact (pipeline_full Ucls cfg e1 e2 s evs ci_key yaml_ok find_iq unit_class input acfg (aext_of e1) (aext_of e2) Hc He Ho).
Qed.
Print Assumptions C02_full.

(* the converter-dependent hypothesis is satisfiable on the sample: a converter that knows no
   unit in step text and takes every timer unit for a time unit *)
Example C02_oracle_quiet_satisfiable :
  exists evs, events U (with_ext C02_sample_cfg 0) C02_sample_source = Done evs
              /\ oracle_quiet (fun _ => None) (fun _ => 1) (abstract_events evs) = true.
Proof. eexists. split; [vm_compute; reflexivity|]. vm_compute. reflexivity. Qed.

(* ---- the converse half at document level, for ANY source ----------------------------------- *)
(* COMPONENT_ALIAS off: no ingredient or cookware event of the stream carries an alias, i.e. a `|`
   between the marker and `{` is never split off the name (with C02_alias_off: the name is the
   text of all the name tokens) *)
Theorem C02_alias_off_document :
  forall Ucls c s evs, has c X_COMPONENT_ALIAS = false -> events Ucls c s = Done evs -> Forall Palias evs.
Proof. exact alias_off_document. Qed.
Print Assumptions C02_alias_off_document.

(* RANGE_VALUES off: no quantity of any ingredient, cookware or timer event is a range - `2-3`
   can only be a number-free text value *)
Theorem C02_range_off_document :
  forall Ucls c s evs, has c X_RANGE_VALUES = false -> events Ucls c s = Done evs -> Forall Prange evs.
Proof. intros Ucls c s evs H. exact (range_off_document c H Ucls s evs). Qed.
Print Assumptions C02_range_off_document.

(* and on "@a|b{2-3}" under the empty set: name "a|b", text value "2-3" *)
Example C02_converse_sample :
  match events U (with_ext C02_sample_cfg 0) [64;97;124;98;123;50;45;51;125] with
  | Done [EvStart true; EvIngredient i; EvEnd true] =>
      match i_alias i, i_qty i with
      | None, Some q => match qv (q_val q) with VText t => str_eqb t [50;45;51] | _ => false end
                        && str_eqb (text_str (i_name i)) [97;124;98]
      | _, _ => false
      end
  | _ => false
  end = true.
Proof. vm_compute. reflexivity. Qed.

(* ---- the converse half for the other six families, for ANY source -------------------------- *)
(* Every diagnostic of any event stream has a code that is possible under the extension word:
   duplicate-modifier / recipe-on-cookware / modifiers-on-timer need COMPONENT_MODIFIERS, the six
   intermediate-reference codes need INTERMEDIATE_PREPARATIONS, the three alias codes need
   COMPONENT_ALIAS, timer-without-quantity needs TIMER_REQUIRES_TIME (code_possible) *)
Theorem C02_diag_codes_document :
  forall Ucls c s evs, events Ucls c s = Done evs -> Forall (Pcodes c) evs.
Proof. exact diag_codes_document. Qed.
Print Assumptions C02_diag_codes_document.

(* COMPONENT_MODIFIERS off: no ingredient or cookware event carries a modifier bit - in particular
   not the reference bit of `&` - and no ingredient carries intermediate-reference data: the
   characters `@ & ? + -` after a marker stay in the name *)
Theorem C02_modifiers_off_document :
  forall Ucls c s evs, has c X_COMPONENT_MODIFIERS = false -> events Ucls c s = Done evs -> Forall Pmods evs.
Proof. exact modifiers_off_document. Qed.
Print Assumptions C02_modifiers_off_document.

Theorem C02_modifier_diagnostics_off_document :
  forall Ucls c s evs, has c X_COMPONENT_MODIFIERS = false -> events Ucls c s = Done evs ->
    Forall (no_codes (codes_modifiers ++ codes_intermediate)) evs.
Proof. exact modifier_codes_off. Qed.
Print Assumptions C02_modifier_diagnostics_off_document.

(* INTERMEDIATE_PREPARATIONS off (COMPONENT_MODIFIERS possibly on): `&(..)` never yields
   intermediate-reference data, and none of its diagnostics is reported *)
Theorem C02_intermediate_off_document :
  forall Ucls c s evs, has c X_INTERMEDIATE_PREPARATIONS = false -> events Ucls c s = Done evs -> Forall Pinter evs.
Proof. exact intermediate_off_document. Qed.
Print Assumptions C02_intermediate_off_document.

Theorem C02_intermediate_diagnostics_off_document :
  forall Ucls c s evs, has c X_INTERMEDIATE_PREPARATIONS = false -> events Ucls c s = Done evs ->
    Forall (no_codes codes_intermediate) evs.
Proof. exact intermediate_codes_off. Qed.
Print Assumptions C02_intermediate_diagnostics_off_document.

Theorem C02_alias_diagnostics_off_document :
  forall Ucls c s evs, has c X_COMPONENT_ALIAS = false -> events Ucls c s = Done evs -> Forall (no_codes codes_alias) evs.
Proof. exact alias_codes_off. Qed.
Print Assumptions C02_alias_diagnostics_off_document.

(* TIMER_REQUIRES_TIME off: the check of step.rs 460-467 never fires - `~name` is a timer
   without quantity and without the error *)
Theorem C02_timer_time_off_document :
  forall Ucls c s evs, has c X_TIMER_REQUIRES_TIME = false -> events Ucls c s = Done evs ->
    Forall (no_codes codes_timer_time) evs.
Proof. exact timer_time_off_document. Qed.
Print Assumptions C02_timer_time_off_document.

(* ADVANCED_UNITS off: every unit of every ingredient or timer quantity of the stream was asked
   for right after a `%` token of the document (doc_tokens: the tokens the block loop runs over);
   a blank never separates value and unit.  At the level of one quantity, for ANY tokens between
   the braces: a unit needs a `%` among them, and without one there is no unit (`1 kg`) *)
Theorem C02_advanced_off_document :
  forall Ucls c s evs, has c X_ADVANCED_UNITS = false -> events Ucls c s = Done evs ->
    Forall (Padv (doc_tokens Ucls c s)) evs.
Proof. exact advanced_off_document. Qed.
Print Assumptions C02_advanced_off_document.

Theorem C02_advanced_off_quantity :
  forall c qts s q usep s', has c X_ADVANCED_UNITS = false ->
    parse_quantity c qts s = Done ((q, usep), s') -> unit_after_percent qts q.
Proof. exact advanced_off_quantity. Qed.
Print Assumptions C02_advanced_off_quantity.

Theorem C02_advanced_off_no_percent :
  forall c qts s q usep s', has c X_ADVANCED_UNITS = false ->
    parse_quantity c qts s = Done ((q, usep), s') ->
    existsb (fun t => tk_eqb (kind t) KPercent) qts = false -> q_unit q = None.
Proof. exact advanced_off_no_percent. Qed.
Print Assumptions C02_advanced_off_no_percent.

(* MODES off, parser side: after a front matter no `>>` line is a metadata event (a bracketed key
   is text of a step like any other `>>` line); without front matter every `>>` line is kept
   whatever its key (C02_modes_off) *)
Theorem C02_modes_off_document :
  forall Ucls c s evs, has c X_MODES = false -> parse_frontmatter c s <> None -> events Ucls c s = Done evs ->
    Forall Pnometa evs.
Proof. exact modes_off_document. Qed.
Print Assumptions C02_modes_off_document.

(* on "@&(2)a{1 kg}(n) ~rest" under the empty set: one ingredient named "&(2)a" without modifier
   bits or reference data, value "1 kg" as text, no unit; a timer named "rest" without quantity; no
   diagnostic at all *)
Example C02_converse_sample_off :
  match events U (with_ext C02_sample_cfg 0)
          [64;38;40;50;41;97;123;49;32;107;103;125;40;110;41;32;126;114;101;115;116] with
  | Done [EvStart true; EvIngredient i; EvText _; EvTimer t; EvEnd true] =>
      (i_mods i =? 0) && match i_inter i with None => true | Some _ => false end
      && str_eqb (text_str (i_name i)) [38;40;50;41;97]
      && match i_qty i with
         | Some q => match qv (q_val q), q_unit q with VText v, None => str_eqb v [49;32;107;103] | _, _ => false end
         | None => false
         end
      && match t_name t, t_qty t with Some n, None => str_eqb (text_str n) [114;101;115;116] | _, _ => false end
  | _ => false
  end = true.
Proof. vm_compute. reflexivity. Qed.

(* and with every extension on the same text reads as a reference with intermediate data, a
   number with a unit, and a timer error *)
Example C02_converse_sample_on :
  match events U (with_ext C02_sample_cfg X_ALL)
          [64;38;40;50;41;97;123;49;32;107;103;125;40;110;41;32;126;114;101;115;116] with
  | Done [EvStart true; EvIngredient i; EvText _; EvDiag d; EvTimer t; EvEnd true] =>
      (i_mods i =? M_REF) && match i_inter i with Some _ => true | None => false end
      && match i_qty i with
         | Some q => match qv (q_val q), q_unit q with VNum _, Some _ => true | _, _ => false end
         | None => false
         end
      && (d_code d =? D_TIMER_NO_QTY)
  | _ => false
  end = true.
Proof. vm_compute. reflexivity. Qed.

(* ---- the analysis pass with a flag off, on ANY event stream -------------------------------- *)
Module AnalysisOff.
Import CL.Model.Analysis CL.Proofs.C02OffAnalysis.

(* INLINE_QUANTITIES off: the inline-quantity finder (an oracle of the converter) is never
   consulted - the result is the same for any two finders - ... *)
Theorem C02_inline_off_analysis :
  forall ci_key yaml_ok input cfg fq fq' unit_class e evs,
    ext_has e X_INLINE_QUANTITIES = false ->
    analyse ci_key yaml_ok fq unit_class input (aext_of e) cfg evs
    = analyse ci_key yaml_ok fq' unit_class input (aext_of e) cfg evs.
Proof. intros. apply analyse_inline_off. assumption. Qed.
Print Assumptions C02_inline_off_analysis.

(* ... and the recipe records no inline quantity and no step holds an Inline item: numbers in
   step text stay text *)
Theorem C02_inline_off_no_inline :
  forall ci_key yaml_ok input cfg fq unit_class e evs r valid,
    ext_has e X_INLINE_QUANTITIES = false ->
    analyse ci_key yaml_ok fq unit_class input (aext_of e) cfg evs = Done (Some r, valid) ->
    r_inline r = O /\ forallb section_plain (r_sections r) = true.
Proof. intros ci_key yaml_ok input cfg fq unit_class e evs r valid H. apply analyse_no_inline. exact H. Qed.
Print Assumptions C02_inline_off_no_inline.

(* ADVANCED_UNITS off: the converter's unit classification is never consulted - no unit check
   (event_consumer.rs 639, 988) can fire, whatever the timers and references of the stream *)
Theorem C02_advanced_off_analysis :
  forall ci_key yaml_ok input cfg fq uc uc' e evs,
    ext_has e X_ADVANCED_UNITS = false ->
    analyse ci_key yaml_ok fq uc input (aext_of e) cfg evs
    = analyse ci_key yaml_ok fq uc' input (aext_of e) cfg evs.
Proof. intros. apply analyse_advanced_off. assumption. Qed.
Print Assumptions C02_advanced_off_analysis.

(* MODES off: metadata events - bracketed keys included - do nothing to the recipe structure,
   validity and output: the stream without them gives the same result; and the define and
   duplicate modes never leave the state they start in *)
Theorem C02_modes_off_analysis :
  forall ci_key yaml_ok input cfg fq uc e evs,
    ext_has e X_MODES = false ->
    analyse ci_key yaml_ok fq uc input (aext_of e) cfg evs
    = analyse ci_key yaml_ok fq uc input (aext_of e) cfg (filter not_metadata evs).
Proof. intros. apply analyse_modes_off. assumption. Qed.
Print Assumptions C02_modes_off_analysis.

Theorem C02_modes_constant_analysis :
  forall ci_key yaml_ok input cfg fq uc e evs s s',
    ext_has e X_MODES = false ->
    run ci_key yaml_ok fq uc input (aext_of e) cfg s evs = Done s' ->
    a_define s' = a_define s /\ a_duplicate s' = a_duplicate s.
Proof. intros ci_key yaml_ok input cfg fq uc e evs s s' H. apply run_modes_constant. exact H. Qed.
Print Assumptions C02_modes_constant_analysis.
(* MODES off and no `&` modifier on any ingredient or cookware event (what the parser guarantees
   without COMPONENT_MODIFIERS): every ingredient and cookware item of the recipe is a definition
   that nothing refers to *)
Theorem C02_no_references_analysis :
  forall ci_key yaml_ok input cfg fq uc e evs r valid,
    ext_has e X_MODES = false -> forallb plain_comp_event evs = true ->
    analyse ci_key yaml_ok fq uc input (aext_of e) cfg evs = Done (Some r, valid) ->
    forallb unref (r_ingredients r) = true /\ forallb unref (r_cookware r) = true.
Proof. intros ci_key yaml_ok input cfg fq uc e evs r valid H. apply analyse_no_references. exact H. Qed.
Print Assumptions C02_no_references_analysis.
End AnalysisOff.

(* end to end, for ANY source: without COMPONENT_MODIFIERS and MODES no reference relation arises -
   `&name` is an item of its own, named "&name" *)
Theorem C02_no_references_pipeline :
  forall Ucls c s evs ci_key yaml_ok find_iq unit_class input acfg r valid,
    has c X_COMPONENT_MODIFIERS = false -> has c X_MODES = false ->
    events Ucls c s = Done evs ->
    CL.Model.Analysis.analyse ci_key yaml_ok find_iq unit_class input (aext_of (p_ext c)) acfg (abstract_events evs)
      = Done (Some r, valid) ->
    forallb CL.Proofs.C02OffAnalysis.unref (CL.Model.Analysis.r_ingredients r) = true
    /\ forallb CL.Proofs.C02OffAnalysis.unref (CL.Model.Analysis.r_cookware r) = true.
Proof. exact no_references_pipeline. Qed.
Print Assumptions C02_no_references_pipeline.

(* ---- "with no errors" ------------------------------------------------------------------------- *)
(* for every core_doc source the streams of any two extension words are equal, so a source that is
   free of error diagnostics under one set is free of them under every set *)
Definition no_error (ev : pevent) : bool := match ev with EvDiag d => negb (d_err d) | _ => true end.
Theorem C02_no_errors_transport :
  forall Ucls cfg e1 e2 s evs, core_doc Ucls cfg s = true ->
    events Ucls (with_ext cfg e1) s = Done evs -> forallb no_error evs = true ->
    exists evs2, events Ucls (with_ext cfg e2) s = Done evs2 /\ forallb no_error evs2 = true.
Proof.
  intros Ucls cfg e1 e2 s evs Hc He Hn. exists evs. split; [|exact Hn].
  rewrite <- (events_invariant Ucls cfg e1 e2 s Hc). exact He.
Qed.
Print Assumptions C02_no_errors_transport.

Module NoErrors.
Import CL.Model.Printer CL.Proofs.C02NoErrors.

(* PARTIAL (no front matter; the specification d is a certificate given with the text): the class
   core_spelling U cfg text d is decidable - it lexes the text, cuts it with the block splitter and
   compares every block token by token with the printed block of d, and checks that d is well
   formed (Model/Printer.v: block_ok) under each of the 192 sets.  For such a text, under each of
   the 192 sets, the parser does not panic, reports NO diagnostic (neither error nor warning) and
   yields the events d denotes *)
Theorem C02_core_no_errors_partial :
  forall Ucls cfg text d e, In e ext_sets -> core_spelling Ucls cfg text d = true ->
    exists evs, events Ucls (with_ext cfg e) text = Done evs /\ forallb no_diag evs = true
                /\ map ev_proj evs = concat (map denote_block d).
Proof. exact core_no_diagnostics. Qed.
Print Assumptions C02_core_no_errors_partial.

(* the full statement: the class is core_doc itself plus a decidable well-formedness predicate on
   the source alone (front matter included); not proved *)
Definition C02_core_no_errors_statement (wf_source : (N -> ucls) -> pcfg -> str -> bool) : Prop :=
  forall Ucls cfg s e, In e ext_sets -> CL.Proofs.C02Wide.core_doc Ucls cfg s = true -> wf_source Ucls cfg s = true ->
    exists evs, events Ucls (with_ext cfg e) s = Done evs /\ forallb no_error evs = true.

(* a non-trivial member of the class:
     >> k: v
     = A
     Add @flour{ = 1 1/2 [-c-] % g }(sifted) to
     a @salt, @eggs{2} in #pot{ } ~{5%min} half-way @black pepper{a pinch}

     > rest
     --x
     B                                                                                      *)
Definition sp : ptok := (KWs, [32]).
Definition wd (s : str) : ptok := (KWord, s).
Definition nl : ptok := (KNewline, [10]).
Definition tape1 : qtape :=
  {| q_lead := [sp]; q_after_lock := [sp];
     q_ta := {| n_gap := [sp]; n_bs := []; n_as := [] |}; q_tb := {| n_gap := []; n_bs := []; n_as := [] |};
     q_bd := [sp]; q_ad := [sp]; q_trail := [sp; (KBlockComment, [91; 45; 99; 45; 93]); sp];
     q_after_pct := [sp]; q_end := [sp]; q_adv := None |}.
Definition tape0 : qtape :=
  {| q_lead := []; q_after_lock := [];
     q_ta := {| n_gap := [sp]; n_bs := []; n_as := [] |}; q_tb := {| n_gap := []; n_bs := []; n_as := [] |};
     q_bd := []; q_ad := []; q_trail := []; q_after_pct := []; q_end := []; q_adv := None |}.
Definition q_mixed : qspec := {| qs_val := QNum (SMixed [49] [49] [50]); qs_lock := true; qs_unit := Some [(KWord, [103])] |}.
Definition q_pinch : qspec := {| qs_val := QText [(KWord, [97]); sp; (KWord, [112; 105; 110; 99; 104])]; qs_lock := false; qs_unit := None |}.
Definition q_two : qspec := {| qs_val := QNum (SInt [50]); qs_lock := false; qs_unit := None |}.
Definition q_range_text : qspec := {| qs_val := QText [(KInt, [50]); (KMinus, [45]); (KInt, [51])]; qs_lock := false; qs_unit := None |}.
Definition c_flour : cspec := {| cs_kind := CIgr; cs_mods := []; cs_name := [wd [102;108;111;117;114]]; cs_alias := None;
                                cs_body := BQty q_mixed tape1; cs_note := Some [wd [115;105;102;116;101;100]] |}.
Definition c_pepper : cspec := {| cs_kind := CIgr; cs_mods := []; cs_name := [wd [98;108;97;99;107]; sp; wd [112;101;112;112;101;114]];
                                 cs_alias := None; cs_body := BQty q_pinch tape0; cs_note := None |}.
Definition c_eggs : cspec := {| cs_kind := CIgr; cs_mods := []; cs_name := [wd [101;103;103;115]]; cs_alias := None;
                               cs_body := BQty q_two tape0; cs_note := None |}.
Definition c_salt : cspec := {| cs_kind := CIgr; cs_mods := []; cs_name := [wd [115; 97; 108; 116]]; cs_alias := None;
                               cs_body := BWord; cs_note := None |}.
Definition c_pot : cspec := {| cs_kind := CCw; cs_mods := []; cs_name := [wd [112; 111; 116]]; cs_alias := None;
                              cs_body := BEmpty [sp]; cs_note := None |}.
Definition c_tm : cspec := {| cs_kind := CTm; cs_mods := []; cs_name := []; cs_alias := None;
                             cs_body := BQty {| qs_val := QNum (SInt [53]); qs_lock := false; qs_unit := Some [wd [109; 105; 110]] |} tape0;
                             cs_note := None |}.
Definition step1 : list item :=
  [IText [wd [65; 100; 100]; sp]; IComp c_flour; IText [sp; wd [116; 111]; nl; wd [97]; sp];
   IComp c_salt; IText [(KPunct, [44]); sp]; IComp c_eggs; IText [sp; wd [105;110]; sp]; IComp c_pot; IText [sp]; IComp c_tm;
   IText [sp; wd [104;97;108;102]; (KMinus, [45]); wd [119;97;121]; sp]; IComp c_pepper].
Definition tline1 : tline := {| tl_marker := true; tl_ws := [sp]; tl_toks := [wd [114;101;115;116]] |}.
Definition doc : list block :=
  [BkMeta [sp; wd [107]] [sp; wd [118]]; BkSection 0 [sp; wd [65]] 0 []; BkStep step1; BkText [tline1]; BkStep [IText [wd [66]]]].
Definition doc_text : str :=
  unlex (print_block (BkMeta [sp; wd [107]] [sp; wd [118]]) ++ nl :: print_block (BkSection 0 [sp; wd [65]] 0 []) ++ nl ::
         print_block (BkStep step1) ++ nl :: nl :: print_block (BkText [tline1]) ++ nl ::
         (KLineComment, [45; 45; 120]) :: nl :: print_block (BkStep [IText [wd [66]]])).
Example C02_core_spelling_satisfiable :
  core_spelling U C02_sample_cfg doc_text doc = true /\ length doc_text = 138%nat.
Proof. split; vm_compute; reflexivity. Qed.

(* the class rejects a specification that one of the sets reads differently: `@a{2-3}` as a text
   value is well formed under the empty set but not under RANGE_VALUES *)
Example C02_core_spec_rejects :
  let b := BkStep [IComp {| cs_kind := CIgr; cs_mods := []; cs_name := [wd [97]]; cs_alias := None;
                            cs_body := BQty q_range_text tape0; cs_note := None |}] in
  Printer.block_ok (with_ext C02_sample_cfg 0) b = true /\ core_spec C02_sample_cfg [b] = false.
Proof. split; vm_compute; reflexivity. Qed.
End NoErrors.

(* the first formulation (syntactic class on the whole token list), kept for reference; not proved *)
Definition C02_full_statement_tokens : Prop :=
  forall (Ucls : N -> ucls) (cfg : pcfg) (e1 e2 : N) (s : str),
    In e1 ext_sets -> In e2 ext_sets -> core_source Ucls s = true ->
    events Ucls (with_ext cfg e1) s = events Ucls (with_ext cfg e2) s.

(* ---- the gates of the source ----
   The theorems above are about the gates of the MODELS ([has X_..] in Model/Parser.v, [x_modes] / [x_inline] /
   [x_advanced] in Model/Analysis.v).  That the Rust code has no other gate is tied to the source here:
   1. Gen/GateSites.v is REGENERATED from the non-test code of /repo/src/**/*.rs on every run of the check
      (gen/gen_gates.py, token level): every place where an Extensions value is consulted (.extension(..),
      .contains(..), a variable bound to such a test and each statement using it), handed on (argument of a
      call, field of a struct literal), declared (field, parameter, return type, impl) or constructed (the
      bitflags! constants, Extensions::all() / empty()), as (file below src/, enclosing fn or item, flag
      names, normalised text), sorted, NO line numbers: [GateSites.sites], informative detail.  PINNED by
      [C02_gate_inventory] are its KEYS [GateSites.keys]: ("gate", file, fn, FLAG) - the fn consults FLAG (all
      tests, lets bound to a test and their uses inside one fn collapse); ("carry", file, fn, "") - the fn / item
      declares, stores, hands on or constructs a set without testing a flag; ("const", file, "bitflags!", TEXT)
      - the type and each constant with its value.  A flag consulted in a fn that did not consult it, a gate
      that disappears, a new carrier or a changed constant breaks it (the check reports the difference with
      locations); rewriting a test inside its fn, reading the flag once into a local, or moving code does not.
   2. Model/GateMap.v [table] has one row per key ([C02_gate_inventory_mapped]) naming the Gallina function
      and flag test that renders it (the function itself is carried as a witness), or why the entry decides
      nothing (Carrier / NotAGate); [C02_gate_table_checks]: Gate rows name flags of Gen/ExtBits.v that the
      entry's text mentions, a parser / analysis entry mentioning a flag is a Gate row, and each of the eight
      flags has a Gate row in the parser or the analysis.
   These three are finite statements about regenerated data (closed by computation), in the manner of
   C04_label_inventory and C18_inventory. *)
From CL Require Gen.GateSites Model.GateMap.
From Coq Require String.
Import String.StringSyntax.
Local Open Scope string_scope.
Theorem C02_gate_inventory :
  GateSites.keys = [
    ("carry", "analysis/event_consumer", "parse_events", "");
    ("carry", "analysis/event_consumer", "struct RecipeCollector", "");
    ("carry", "lib", "-", "");
    ("carry", "lib", "CooklangParser::canonical", "");
    ("carry", "lib", "CooklangParser::extended", "");
    ("carry", "lib", "CooklangParser::extensions", "");
    ("carry", "lib", "CooklangParser::new", "");
    ("carry", "lib", "CooklangParser::parse_metadata_with_options", "");
    ("carry", "lib", "CooklangParser::parse_with_options", "");
    ("carry", "lib", "Extensions::default", "");
    ("carry", "lib", "struct CooklangParser", "");
    ("carry", "parser/block_parser", "BlockParser::extension", "");
    ("carry", "parser/block_parser", "BlockParser::new", "");
    ("carry", "parser/block_parser", "struct BlockParser", "");
    ("carry", "parser/mod", "PullParser::new", "");
    ("carry", "parser/mod", "PullParser::next_block", "");
    ("carry", "parser/mod", "PullParser::next_metadata_block", "");
    ("carry", "parser/mod", "struct PullParser", "");
    ("const", "lib", "bitflags!", "const ADVANCED_UNITS = 1 << 5");
    ("const", "lib", "bitflags!", "const COMPAT = Self::COMPONENT_MODIFIERS.bits() | Self::COMPONENT_ALIAS.bits() | Self::ADVANCED_UNITS.bits() | Self::MODES.bits() | Self::INLINE_QUANTITIES.bits() | Self::RANGE_VALUES.bits() | Self::INTERMEDIATE_PREPARATIONS.bits()");
    ("const", "lib", "bitflags!", "const COMPONENT_ALIAS = 1 << 3");
    ("const", "lib", "bitflags!", "const COMPONENT_MODIFIERS = 1 << 1");
    ("const", "lib", "bitflags!", "const INLINE_QUANTITIES = 1 << 7");
    ("const", "lib", "bitflags!", "const INTERMEDIATE_PREPARATIONS = 1 << 11 | Self::COMPONENT_MODIFIERS.bits()");
    ("const", "lib", "bitflags!", "const MODES = 1 << 6");
    ("const", "lib", "bitflags!", "const RANGE_VALUES = 1 << 9");
    ("const", "lib", "bitflags!", "const TIMER_REQUIRES_TIME = 1 << 10");
    ("const", "lib", "bitflags!", "struct Extensions: u32");
    ("gate", "analysis/event_consumer", "RecipeCollector::in_step", "INLINE_QUANTITIES");
    ("gate", "analysis/event_consumer", "RecipeCollector::ingredient", "ADVANCED_UNITS");
    ("gate", "analysis/event_consumer", "RecipeCollector::metadata", "MODES");
    ("gate", "analysis/event_consumer", "RecipeCollector::timer", "ADVANCED_UNITS");
    ("gate", "parser/mod", "parse_block", "MODES");
    ("gate", "parser/quantity", "parse_quantity", "ADVANCED_UNITS");
    ("gate", "parser/quantity", "range_value", "RANGE_VALUES");
    ("gate", "parser/step", "check_alias", "COMPONENT_ALIAS");
    ("gate", "parser/step", "modifiers", "COMPONENT_MODIFIERS");
    ("gate", "parser/step", "modifiers", "INTERMEDIATE_PREPARATIONS");
    ("gate", "parser/step", "parse_alias", "COMPONENT_ALIAS");
    ("gate", "parser/step", "parse_modifiers", "INTERMEDIATE_PREPARATIONS");
    ("gate", "parser/step", "timer", "TIMER_REQUIRES_TIME")
  ].
Proof. reflexivity. Qed.
Local Close Scope string_scope.
Print Assumptions C02_gate_inventory.

(* one row of the rendering table per inventory entry, in the same order *)
Theorem C02_gate_inventory_mapped : map fst GateMap.table = GateSites.keys.
Proof. exact GateMap.table_covers_inventory. Qed.
Print Assumptions C02_gate_inventory_mapped.

Local Open Scope string_scope.
Theorem C02_gate_table_checks :
  (forall row, In row GateMap.table ->
     match snd row with
     | GateMap.Gate f _ _ => In f (map fst GateMap.flags) /\ GateMap.key_detail (fst row) = f /\
                             GateMap.key_class (fst row) = "gate"
     | _ => True
     end) /\
  (forall row, In row GateMap.table -> GateMap.key_class (fst row) = "gate" -> GateMap.is_gate (snd row) = true) /\
  (forall f, In f (map fst GateMap.flags) ->
     exists row, In row GateMap.table /\ GateMap.in_stage (fst row) = true /\ GateMap.is_gate_for f (snd row) = true).
Proof. exact GateMap.table_checks_spec. Qed.
Local Close Scope string_scope.
Print Assumptions C02_gate_table_checks.
