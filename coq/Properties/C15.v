(* C15 - Recipes survive serialization.  Statements only; proofs live in Proofs/SerdeProofs.v.
   [ser]/[de] are the generic serde model of Model/Serde.v; [Gen.SerdeDesc] is regenerated on every
   run from the type definitions and #[serde(...)] attributes in /repo/src.
   [typed (DYaml _) (VYaml y)] requires [json_safe y] (string keys, no YAML tags): metadata outside
   that class is the known finding recorded below ([C15_yaml_unrestricted_refuted]). *)
From CL Require Import Base.StrLemmas Model.Serde Proofs.SerdeProofs Gen.SerdeDesc.

(* v' ~ v : equal except that skipped payloads are reset to their Default *)
Definition sim (d : desc) (v' v : val) : Prop := v' = norm d v.

(* the generic theorem, independent of cooklang: one induction over desc *)
Theorem C15_generic_roundtrip :
  forall d v j, wf_desc d = true -> typed d v -> ser d v = Some j ->
  exists v', de d j = Some v' /\ sim d v' v /\ ser d v' = Some j.
Proof. intros d v j W T S. exact (generic_roundtrip d v j W T S). Qed.
Print Assumptions C15_generic_roundtrip.

(* ... and it is not vacuous: every typed value of a well-formed descriptor serialises *)
Theorem C15_ser_total :
  forall d v, wf_desc d = true -> typed d v -> exists j, ser d v = Some j.
Proof. exact ser_total. Qed.
Print Assumptions C15_ser_total.

(* the descriptors read off /repo's sources satisfy every side condition of the generic theorem:
   distinct keys after renaming and flattening, tag not among the fields, distinct variant names
   after rename_all, no Option of a nullable type, skip only on a payload that cannot be serialised,
   at most one flatten (of an object-like type), flag names clean and single distinct bits *)
Theorem C15_descriptors_wf : wf_desc scalable_recipe = true /\ wf_desc scaled_recipe = true.
Proof. split; vm_compute; reflexivity. Qed.
Print Assumptions C15_descriptors_wf.

Theorem C15_recipes_roundtrip :
  forall d, d = scalable_recipe \/ d = scaled_recipe ->
  forall v, typed d v ->
  exists j v', ser d v = Some j /\ de d j = Some v' /\ sim d v' v /\ ser d v' = Some j.
Proof.
  intros d Hd v T.
  assert (W : wf_desc d = true) by (destruct Hd as [-> | ->]; apply C15_descriptors_wf).
  destruct (ser_total d v W T) as [j S].
  destruct (generic_roundtrip d v j W T S) as (v' & A & B & C).
  exists j, v'. auto.
Qed.
Print Assumptions C15_recipes_roundtrip.

(* the hypotheses are satisfiable: the empty recipe of either type is typed *)
Definition empty_common : list val :=
  [VRec [VYaml (YMap [])]; VSeq []; VSeq []; VSeq []; VSeq []; VSeq []].
Example C15_typed_inhabited :
  typed scalable_recipe (VRec (empty_common ++ [VNone])) /\
  typed scaled_recipe (VRec (empty_common ++ [VVar 0 VUnit])).
Proof. split; apply typedb_typed; vm_compute; reflexivity. Qed.

(* the full statement without the restriction on metadata keys is false: JSON object keys are
   strings, so `3: x` comes back as "3": x, and a tagged value comes back as a one-entry mapping *)
Definition C15_yaml_unrestricted : Prop := forall y j, yser y = Some j -> yde j = Some y.

Theorem C15_yaml_unrestricted_refuted :
  (exists y j y', yser y = Some j /\ yde j = Some y' /\ y' <> y /\ yser y' = Some j)   (* 3: x *)
  /\ (exists y j y', yser y = Some j /\ yde j = Some y' /\ y' <> y /\ yser y' = Some j) (* a: !t x *)
  /\ (exists y, yser y = None)                                                          (* ~: x *)
  /\ (exists y j, yser y = Some j /\ yde j = None).                                     (* 3: x, "3": y *)
Proof.
  split; [|split; [|split]].
  - exists (YMap [(YNum [51], YStr [120])]). eexists. eexists.
    split; [reflexivity|]. split; [reflexivity|]. split; [discriminate | reflexivity].
  - exists (YMap [(YStr [97], YTag [116] (YStr [120]))]). eexists. eexists.
    split; [reflexivity|]. split; [reflexivity|]. split; [discriminate | reflexivity].
  - exists (YMap [(YNull, YStr [120])]). reflexivity.
  - exists (YMap [(YNum [51], YStr [120]); (YStr [51], YStr [121])]). eexists. split; reflexivity.
Qed.
Print Assumptions C15_yaml_unrestricted_refuted.
