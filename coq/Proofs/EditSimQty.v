(* Property C17, event level: the "numbers" and "quantity" functions of Model/Parser.v
   (numeric_value ... parse_quantity) map [ksim]-related tokens / states to related results
   (relational reading, see Proofs/EditSimDefs.v). *)
From CL Require Import Base.StrLemmas Model.Lexer Model.PText Model.CommentMask Model.Parser Model.Edits
  Proofs.EditParserProofs Proofs.EditSimDefs.

(* one step: split a bind, solve the first computation with a known lemma *)
Ltac mr_prim :=
  first [ apply MR_peek | apply MR_rest | apply MR_all_tokens | apply MR_parsed | apply MR_current_offset
        | apply MR_next_token | apply MR_bump_any | apply MR_bump | apply MR_consume | apply MR_at_kind
        | apply MR_until | apply MR_consume_while | apply MR_ws_comments | apply MR_consume_rest
        | apply MR_error | apply MR_warn | apply MR_get
        | (apply MR_textM; assumption) ].
Ltac mr_bind := eapply MR_bind; [mr_prim|].

(* ---------------------------------------------------------------- kinds and texts of related tokens *)
Lemma tk_eqb_eq a b : tk_eqb a b = true -> a = b.
Proof. apply internal_tkind_dec_bl. Qed.

Lemma krel_tstr a b : krel a b -> is_cn (kind a) = false -> tstr a = tstr b.
Proof. intros (_ & _ & _ & _ & _ & H). exact H. Qed.

Lemma krel_tstr_k k a b : krel a b -> tk_eqb (kind a) k = true -> is_cn k = false -> tstr a = tstr b.
Proof. intros H E C. apply tk_eqb_eq in E. apply (krel_tstr _ _ H). rewrite E. exact C. Qed.

Lemma int_or_zero_cn k : is_int_or_zero k = true -> is_cn k = false.
Proof. destruct k; cbn; intro H; try discriminate; reflexivity. Qed.

(* ---------------------------------------------------------------- trimming *)
Lemma drop_ws_comment_rel ts1 ts2 : ksim ts1 ts2 -> ksim (drop_ws_comment ts1) (drop_ws_comment ts2).
Proof.
  induction 1 as [|a b r1 r2 H Hr IH]; [constructor|]. cbn [drop_ws_comment]. unfold not_ws_comment.
  rewrite (krel_kind _ _ H). destruct (negb (is_ws_comment (kind b))); [constructor; assumption | exact IH].
Qed.

Lemma trim_tokens_rel ts1 ts2 : ksim ts1 ts2 -> ksim (trim_tokens ts1) (trim_tokens ts2).
Proof.
  intro H. unfold trim_tokens. apply Forall2_rev'. apply drop_ws_comment_rel. apply Forall2_rev'.
  apply drop_ws_comment_rel. exact H.
Qed.

Lemma drop_ws_block_rel ts1 ts2 : ksim ts1 ts2 -> ksim (drop_ws_block ts1) (drop_ws_block ts2).
Proof.
  induction 1 as [|a b r1 r2 H Hr IH]; [constructor|]. cbn [drop_ws_block].
  rewrite (krel_kind _ _ H). destruct (is_ws_block (kind b)); [exact IH | constructor; assumption].
Qed.

Lemma filter_nwc_rel ts1 ts2 : ksim ts1 ts2 -> ksim (filter not_ws_comment ts1) (filter not_ws_comment ts2).
Proof.
  apply Forall2_filter_k. intros a b H. unfold not_ws_comment. rewrite (krel_kind _ _ H). reflexivity.
Qed.

(* ---------------------------------------------------------------- numbers *)
Lemma int_of_rel a b : krel a b -> kind a = KInt \/ kind a = KZeroInt -> srel drel eq (int_of a) (int_of b).
Proof.
  intros H K. unfold int_of. rewrite <- (krel_tstr _ _ H) by (destruct K as [-> | ->]; reflexivity).
  destruct (digits_val (tstr a) <=? u32_max); cbn; [reflexivity | split; reflexivity].
Qed.

Lemma frac_of_rel a1 b1 a2 b2 :
  krel a1 a2 -> krel b1 b2 -> kind a1 = KInt \/ kind a1 = KZeroInt -> kind b1 = KInt \/ kind b1 = KZeroInt ->
  srel drel eq (frac_of a1 b1) (frac_of a2 b2).
Proof.
  intros Ha Hb Ka Kb. unfold frac_of.
  pose proof (int_of_rel _ _ Ha Ka) as Ia. pose proof (int_of_rel _ _ Hb Kb) as Ib.
  destruct (int_of a1) as [e1|av1], (int_of a2) as [e2|av2]; cbn in Ia; try contradiction; [exact Ia|]. subst av2.
  destruct (int_of b1) as [e1|bv1], (int_of b2) as [e2|bv2]; cbn in Ib; try contradiction; [exact Ib|]. subst bv2.
  destruct (bv1 =? 0); cbn; [split; reflexivity | reflexivity].
Qed.

(* the two halves of numeric_value *)
Definition num_simple (tr : list tok) : option num :=
  match tr with
  | [a] => if tk_eqb (kind a) KInt then Some (NReg (dec_q (tstr a) [])) else None
  | [a; b] =>
      if tk_eqb (kind a) KDot && is_int_or_zero (kind b)
      then Some (NReg (dec_q [] (tstr b))) else None
  | [a; b; c] =>
      if tk_eqb (kind a) KInt && tk_eqb (kind b) KDot && is_int_or_zero (kind c)
      then Some (NReg (dec_q (tstr a) (tstr c))) else None
  | _ => None
  end.

Definition num_frac (fl : list tok) : option (diag + num) :=
  match fl with
  | [i; a; s; b] =>
      if tk_eqb (kind i) KInt && tk_eqb (kind a) KInt && tk_eqb (kind s) KSlash && tk_eqb (kind b) KInt
      then Some (match int_of i with
                 | inl e => inl e
                 | inr iv => match frac_of a b with
                             | inl e => inl e
                             | inr (NFrac _ n d) => inr (NFrac iv n d)
                             | inr other => inr other
                             end
                 end)
      else None
  | [a; s; b] =>
      if tk_eqb (kind a) KInt && tk_eqb (kind s) KSlash && tk_eqb (kind b) KInt
      then Some (frac_of a b) else None
  | _ => None
  end.

Lemma numeric_value_split ts :
  numeric_value ts =
  match trim_tokens ts with
  | [] => None
  | _ => match num_simple (trim_tokens ts) with
         | Some n => Some (inr n)
         | None => num_frac (filter not_ws_comment (trim_tokens ts))
         end
  end.
Proof. reflexivity. Qed.

Lemma num_simple_rel tr1 tr2 : ksim tr1 tr2 -> num_simple tr1 = num_simple tr2.
Proof.
  intro H. destruct H as [|a1 a2 r1 r2 Ha H]; [reflexivity|].
  destruct H as [|b1 b2 r1 r2 Hb H].
  { unfold num_simple. rewrite <- (krel_kind _ _ Ha). destruct (tk_eqb (kind a1) KInt) eqn:Ea; [|reflexivity].
    rewrite (krel_tstr_k _ _ _ Ha Ea eq_refl). reflexivity. }
  destruct H as [|c1 c2 r1 r2 Hc H].
  { unfold num_simple. rewrite <- (krel_kind _ _ Ha), <- (krel_kind _ _ Hb).
    destruct (tk_eqb (kind a1) KDot); [|reflexivity]. cbn [andb].
    destruct (is_int_or_zero (kind b1)) eqn:Eb; [|reflexivity].
    rewrite (krel_tstr _ _ Hb (int_or_zero_cn _ Eb)). reflexivity. }
  destruct H as [|d1 d2 r1 r2 Hd H]; [|reflexivity].
  unfold num_simple. rewrite <- (krel_kind _ _ Ha), <- (krel_kind _ _ Hb), <- (krel_kind _ _ Hc).
  destruct (tk_eqb (kind a1) KInt) eqn:Ea; [|reflexivity]. cbn [andb].
  destruct (tk_eqb (kind b1) KDot); [|reflexivity]. cbn [andb].
  destruct (is_int_or_zero (kind c1)) eqn:Ec; [|reflexivity].
  rewrite (krel_tstr_k _ _ _ Ha Ea eq_refl), (krel_tstr _ _ Hc (int_or_zero_cn _ Ec)). reflexivity.
Qed.

Lemma num_frac_rel fl1 fl2 : ksim fl1 fl2 -> orel (srel drel eq) (num_frac fl1) (num_frac fl2).
Proof.
  intro H. destruct H as [|a1 a2 r1 r2 Ha H]; [exact I|].
  destruct H as [|b1 b2 r1 r2 Hb H]; [exact I|].
  destruct H as [|c1 c2 r1 r2 Hc H]; [exact I|].
  destruct H as [|d1 d2 r1 r2 Hd H].
  { unfold num_frac. rewrite <- (krel_kind _ _ Ha), <- (krel_kind _ _ Hb), <- (krel_kind _ _ Hc).
    destruct (tk_eqb (kind a1) KInt) eqn:Ea; [|exact I]. cbn [andb].
    destruct (tk_eqb (kind b1) KSlash); [|exact I]. cbn [andb].
    destruct (tk_eqb (kind c1) KInt) eqn:Ec; [|exact I].
    apply tk_eqb_eq in Ea. apply tk_eqb_eq in Ec.
    cbn [orel]. apply frac_of_rel; auto. }
  destruct H as [|e1 e2 r1 r2 He H]; [|exact I].
  unfold num_frac. rewrite <- (krel_kind _ _ Ha), <- (krel_kind _ _ Hb), <- (krel_kind _ _ Hc), <- (krel_kind _ _ Hd).
  destruct (tk_eqb (kind a1) KInt) eqn:Ea; [|exact I]. cbn [andb].
  destruct (tk_eqb (kind b1) KInt) eqn:Eb; [|exact I]. cbn [andb].
  destruct (tk_eqb (kind c1) KSlash); [|exact I]. cbn [andb].
  destruct (tk_eqb (kind d1) KInt) eqn:Ed; [|exact I].
  apply tk_eqb_eq in Ea. apply tk_eqb_eq in Eb. apply tk_eqb_eq in Ed.
  cbn [orel].
  pose proof (int_of_rel _ _ Ha (or_introl Ea)) as Ia.
  pose proof (frac_of_rel _ _ _ _ Hb Hd (or_introl Eb) (or_introl Ed)) as If.
  destruct (int_of a1) as [x1|iv1], (int_of a2) as [x2|iv2]; cbn in Ia; try contradiction; [exact Ia|]. subst iv2.
  destruct (frac_of b1 d1) as [x1|n1], (frac_of b2 d2) as [x2|n2]; cbn in If; try contradiction; [exact If|]. subst n2.
  destruct n1; cbn; reflexivity.
Qed.

Lemma numeric_value_rel ts1 ts2 : ksim ts1 ts2 -> orel (srel drel eq) (numeric_value ts1) (numeric_value ts2).
Proof.
  intro H. rewrite !numeric_value_split. pose proof (trim_tokens_rel _ _ H) as Ht.
  rewrite (num_simple_rel _ _ Ht). pose proof (num_frac_rel _ _ (filter_nwc_rel _ _ Ht)) as Hf.
  destruct Ht as [|a b r1 r2 Hab Hr]; [exact I|].
  destruct (num_simple (b :: r2)); [cbn; reflexivity | exact Hf].
Qed.

Section Qty.
  Variable cfg : pcfg.

  Lemma range_value_rel ts1 ts2 : ksim ts1 ts2 -> orel (srel drel eq) (range_value cfg ts1) (range_value cfg ts2).
  Proof.
    intro H. unfold range_value. destruct (negb (has cfg X_RANGE_VALUES)); [exact I|].
    rewrite (ksim_position _ _ _ H). destruct (position _ ts2) as [mid|]; [|exact I].
    pose proof (numeric_value_rel _ _ (Forall2_firstn _ mid _ _ H)) as H1.
    pose proof (numeric_value_rel _ _ (Forall2_skipn _ (S mid) _ _ H)) as H2.
    destruct (numeric_value (firstn mid ts1)) as [[e1|a1]|], (numeric_value (firstn mid ts2)) as [[e2|a2]|];
      cbn in H1; try contradiction; try exact I; [exact H1|]. subst a2.
    destruct (numeric_value (skipn (S mid) ts1)) as [[e1|b1]|], (numeric_value (skipn (S mid) ts2)) as [[e2|b2]|];
      cbn in H2; try contradiction; try exact I; [exact H2|]. subst b2. cbn. reflexivity.
  Qed.

  Lemma range_or_numeric_rel ts1 ts2 :
    ksim ts1 ts2 -> orel (srel drel eq) (range_or_numeric cfg ts1) (range_or_numeric cfg ts2).
  Proof.
    intro H. unfold range_or_numeric. pose proof (range_value_rel _ _ H) as Hr.
    destruct (range_value cfg ts1) as [x1|], (range_value cfg ts2) as [x2|]; cbn in Hr; try contradiction; [exact Hr|].
    pose proof (numeric_value_rel _ _ H) as Hn.
    destruct (numeric_value ts1) as [[e1|n1]|], (numeric_value ts2) as [[e2|n2]|]; cbn in Hn; try contradiction;
      try exact I; [exact Hn|]. subst n2. cbn. reflexivity.
  Qed.

  (* ---------------------------------------------------------------- quantity *)
  Lemma scaling_lock_rel : MR (fun a b : option span => a = None <-> b = None) scaling_lock scaling_lock.
  Proof.
    unfold scaling_lock. mr_bind. intros w1 w2 _. mr_bind. intros k1 k2 ->.
    destruct k2; try (apply MR_ret; tauto).
    mr_bind. intros t1 t2 _. apply MR_ret. split; discriminate.
  Qed.

  Lemma text_value_rel ts1 ts2 o1 o2 : ksim ts1 ts2 -> MR eq (text_value cfg ts1 o1) (text_value cfg ts2 o2).
  Proof.
    intro H. unfold text_value. eapply MR_bind; [apply MR_textM; exact H|]. intros t1 t2 Ht.
    eapply (MR_bind anyrel).
    - rewrite (trel_empty _ _ Ht). destruct (is_text_empty t2); [apply MR_error | apply MR_ret; exact I].
    - intros _ _ _. apply MR_ret. rewrite (trel_trimmed _ _ Ht). reflexivity.
  Qed.

  Lemma parse_value_rel ts1 ts2 : ksim ts1 ts2 -> MR (prel eq anyrel) (parse_value cfg ts1) (parse_value cfg ts2).
  Proof.
    intro H. unfold parse_value. mr_bind. intros co1 co2 _.
    pose proof (range_or_numeric_rel _ _ H) as Hr.
    destruct (range_or_numeric cfg ts1) as [[e1|v1]|], (range_or_numeric cfg ts2) as [[e2|v2]|];
      cbn in Hr; try contradiction.
    - eapply MR_bind; [apply MR_diag; exact Hr|]. intros _ _ _. apply MR_ret. split; [reflexivity | exact I].
    - subst v2. apply MR_ret. split; [reflexivity | exact I].
    - eapply MR_bind; [apply text_value_rel; exact H|]. intros v1 v2 ->. apply MR_ret. split; [reflexivity | exact I].
  Qed.

  Lemma value_p_rel : MR qvrel (value_p cfg) (value_p cfg).
  Proof.
    unfold value_p. eapply MR_bind; [apply scaling_lock_rel|]. intros l1 l2 Hl.
    mr_bind. intros vts1 vts2 Hv. eapply MR_bind; [apply parse_value_rel; exact Hv|].
    intros [v1 sp1] [v2 sp2] [Hv' _]. cbn [fst] in Hv'. subst v2. apply MR_ret. split; [reflexivity | exact Hl].
  Qed.

  Lemma parse_regular_quantity_rel :
    MR (prel qrel anyrel) (parse_regular_quantity cfg) (parse_regular_quantity cfg).
  Proof.
    unfold parse_regular_quantity. eapply MR_bind; [apply value_p_rel|]. intros v1 v2 Hv.
    mr_bind. intros k1 k2 ->.
    eapply (MR_bind (orel (prel (@anyrel span span) trel))).
    - destruct k2; try (apply MR_ret; exact I).
      mr_bind. intros sep1 sep2 _. mr_bind. intros uts1 uts2 Hu. eapply MR_bind; [apply MR_textM; exact Hu|].
      intros ut1 ut2 Hut. apply MR_ret. split; [exact I | exact Hut].
    - intros [[sep1 ut1]|] [[sep2 ut2]|] Hu; cbn [orel] in Hu; try contradiction.
      + destruct Hu as [_ Hut]. cbn [snd] in Hut. mr_bind. intros all1 all2 _. rewrite (trel_empty _ _ Hut).
        destruct (is_text_empty ut2).
        * eapply MR_bind; [apply MR_warn|]. intros _ _ _. apply MR_ret.
          split; [|exact I]. split; [exact Hv | exact I].
        * apply MR_ret. split; [|exact I]. split; [exact Hv | exact Hut].
      + mr_bind. intros all1 all2 _. apply MR_ret. split; [|exact I]. split; [exact Hv | exact I].
  Qed.

  Lemma parse_advanced_quantity_rel :
    MR (orel (prel qrel anyrel)) (parse_advanced_quantity cfg) (parse_advanced_quantity cfg).
  Proof.
    unfold parse_advanced_quantity. mr_bind. intros all1 all2 Hall.
    pose proof (ksim_existsb_kind (fun k => tk_eqb k KPercent) _ _ Hall) as Ep. cbv beta in Ep. rewrite Ep. clear Ep.
    destruct (existsb _ all2); [apply MR_ret; exact I|].
    eapply MR_bind; [apply scaling_lock_rel|]. intros l1 l2 Hl.
    mr_bind. intros w1 w2 _. mr_bind. intros vts1 vts2 Hv.
    pose proof (Forall2_rev' _ _ _ Hv) as Hrv.
    remember (rev vts1) as rv1 eqn:E1. remember (rev vts2) as rv2 eqn:E2. clear E1 E2.
    destruct Hrv as [|a b r1 r2 Hab Hr]; [apply MR_ret; exact I|].
    rewrite (krel_kind _ _ Hab). destruct (negb (tk_eqb (kind b) KWs)); [apply MR_ret; exact I|].
    cbv zeta.
    assert (Hd : ksim (rev (drop_ws_block (a :: r1))) (rev (drop_ws_block (b :: r2)))).
    { apply Forall2_rev'. apply drop_ws_block_rel. constructor; assumption. }
    remember (rev (drop_ws_block (a :: r1))) as d1 eqn:E1. remember (rev (drop_ws_block (b :: r2))) as d2 eqn:E2.
    clear E1 E2.
    pose proof (range_or_numeric_rel _ _ Hd) as Hrn.
    destruct Hd as [|a' b' r1' r2' Hab' Hr']; [apply MR_panic_l|].
    mr_bind. intros uts1 uts2 Hu. pose proof Hu as Hu'.
    destruct Hu as [|u1 u2 ur1 ur2 Hu0 Hur]; [apply MR_ret; exact I|].
    destruct (range_or_numeric cfg (a' :: r1')) as [x1|], (range_or_numeric cfg (b' :: r2')) as [x2|];
      cbn [orel] in Hrn; try contradiction; [|apply MR_ret; exact I].
    eapply (MR_bind eq).
    - destruct x1 as [e1|v1], x2 as [e2|v2]; cbn [srel] in Hrn; try contradiction.
      + eapply MR_bind; [apply MR_diag; exact Hrn|]. intros _ _ _. apply MR_ret. reflexivity.
      + apply MR_ret. exact Hrn.
    - intros v1 v2 ->. eapply MR_bind; [apply MR_textM; exact Hu'|]. intros ut1 ut2 Hut.
      apply MR_ret. split; [|exact I]. split; [split; [reflexivity | exact Hl] | exact Hut].
  Qed.

  Theorem parse_quantity_rel : forall ts1 ts2,
    ksim ts1 ts2 -> MR (prel qrel anyrel) (parse_quantity cfg ts1) (parse_quantity cfg ts2).
  Proof.
    intros ts1 ts2 H. unfold parse_quantity. destruct H as [|a b r1 r2 Hab Hr]; [apply MR_panic_l|].
    apply MR_sub_block; [constructor; assumption|].
    destruct (has cfg X_ADVANCED_UNITS); [|apply parse_regular_quantity_rel].
    eapply MR_bind; [apply MR_with_recover; apply parse_advanced_quantity_rel|].
    intros [q1|] [q2|] Ho; cbn [orel] in Ho; try contradiction;
      [apply MR_ret; exact Ho | apply parse_regular_quantity_rel].
  Qed.

End Qty.
