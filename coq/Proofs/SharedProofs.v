(* Proofs about Model/Shared.v (C18).  Everything is by induction over the schedule / the history /
   the association list; the parse function stays a Section variable throughout. *)
From Coq Require Import List Arith Bool Permutation Lia.
Import ListNotations.
From CL Require Import Gen.SharedState Model.Shared.

Section SharedProofs.
  Variables (config input event collector result ftable : Type).
  Variable mk_table : ftable.
  Variable events : config -> input -> list event.
  Variable init : config -> input -> collector.
  Variable consume : config -> ftable -> collector -> event -> collector.
  Variable finish : config -> collector -> result.

  Notation local := (local config event collector result).
  Notation world := (world config event collector result ftable).
  Notation action := (action config input).
  Notation step := (step mk_table events init consume finish).
  Notation run := (run mk_table events init consume finish).
  Notation lstep := (lstep events init consume finish).
  Notation run_local := (run_local mk_table events init consume finish).
  Notation pure_parse := (pure_parse mk_table events init consume finish).
  Notation table_ok := (table_ok mk_table).
  Notation deref := (deref mk_table).
  Notation world0 := (world0 config event collector result ftable).
  Notation local0 := (local0 config event collector result).
  Notation call := (call events).
  Notation history := (history events).
  Notation calls := (calls events).

  (* ---- the table invariant ----------------------------------------------------------------- *)
  Lemma deref_ok : forall t, table_ok t -> deref t = mk_table.
  Proof. intros t [-> | ->]; reflexivity. Qed.

  Lemma step_table_ok : forall (w : world) ka, table_ok (table w) -> table_ok (table (step w ka)).
  Proof.
    intros w [k a] H. unfold Shared.step. cbn [table].
    destruct (touches a).
    - right. rewrite (deref_ok _ H). reflexivity.
    - exact H.
  Qed.

  Lemma run_table_ok : forall tr (w : world), table_ok (table w) -> table_ok (table (run w tr)).
  Proof.
    induction tr as [| ka tr IH]; intros w H; cbn [Shared.run fold_left].
    - exact H.
    - apply IH. apply step_table_ok. exact H.
  Qed.

  Lemma table_inv : forall w : world, reachable mk_table events init consume finish w -> table_ok (table w).
  Proof. intros w [tr ->]. apply run_table_ok. left. reflexivity. Qed.

  (* the table is written at most once: once installed it never changes *)
  Lemma step_table_stable : forall (w : world) ka v, table w = Some v -> table (step w ka) = Some v.
  Proof.
    intros w [k a] v H. unfold Shared.step. cbn [table]. rewrite H. cbn [Shared.deref].
    destruct (touches a); reflexivity.
  Qed.

  Lemma run_table_stable : forall tr (w : world) v, table w = Some v -> table (run w tr) = Some v.
  Proof.
    induction tr as [| ka tr IH]; intros w v H; cbn [Shared.run fold_left].
    - exact H.
    - apply IH. apply step_table_stable. exact H.
  Qed.

  (* ---- non-interference: a thread's locals depend only on its own program ------------------- *)
  Lemma upd_same : forall (f : nat -> local) k v, upd f k v k = v.
  Proof. intros. unfold upd. rewrite Nat.eqb_refl. reflexivity. Qed.

  Lemma upd_other : forall (f : nat -> local) k v j, j <> k -> upd f k v j = f j.
  Proof. intros f k v j H. unfold upd. apply Nat.eqb_neq in H. rewrite H. reflexivity. Qed.

  Lemma run_locals :
    forall tr (w : world) k, table_ok (table w) ->
      locals (run w tr) k = run_local (locals w k) (proj k tr).
  Proof.
    induction tr as [| [j a] tr IH]; intros w k H.
    - reflexivity.
    - cbn [Shared.run fold_left proj].
      change (fold_left step tr (step w (j, a))) with (run (step w (j, a)) tr).
      rewrite IH by (apply step_table_ok; exact H).
      unfold Shared.step at 1. cbn [locals]. rewrite (deref_ok _ H).
      destruct (Nat.eqb j k) eqn:E.
      + apply Nat.eqb_eq in E. subst j. rewrite upd_same. reflexivity.
      + apply Nat.eqb_neq in E. rewrite upd_other by (intro; subst; apply E; reflexivity). reflexivity.
  Qed.

  (* ---- what a well-formed program computes --------------------------------------------------- *)
  Lemma run_local_app : forall p q (l : local), run_local l (p ++ q) = run_local (run_local l p) q.
  Proof. intros. unfold Shared.run_local. apply fold_left_app. Qed.

  Lemma run_steps :
    forall es p c done (o : list result),
      run_local (mkLocal (Some (p, c, es ++ done)) o) (repeat Step (List.length es)) =
      mkLocal (Some (p, fold_left (consume p mk_table) es c, done)) o.
  Proof.
    induction es as [| e es IH]; intros p c done o.
    - reflexivity.
    - cbn [length repeat app]. unfold Shared.run_local. cbn [fold_left Shared.lstep cur outs].
      apply IH.
  Qed.

  Lemma run_call :
    forall p i (l : local),
      run_local l (call p i) = mkLocal None (outs l ++ [pure_parse p i]).
  Proof.
    intros p i l. unfold Shared.call. unfold Shared.run_local at 1.
    cbn [fold_left Shared.lstep].
    change (fold_left (lstep mk_table) ?q ?x) with (run_local x q).
    rewrite run_local_app.
    rewrite <- (app_nil_r (events p i)) at 1.
    rewrite run_steps. reflexivity.
  Qed.

  Lemma run_calls :
    forall cs (l : local), cs <> [] \/ cur l = None ->
      run_local l (calls cs) =
      mkLocal None (outs l ++ map (fun c => pure_parse (fst c) (snd c)) cs).
  Proof.
    induction cs as [| [p i] cs IH]; intros l H.
    - destruct H as [H | H]; [contradiction |]. cbn. rewrite app_nil_r. destruct l; cbn in *; subst; reflexivity.
    - unfold Shared.calls. cbn [map concat fst snd]. rewrite run_local_app, run_call.
      change (concat (map (fun c => call (fst c) (snd c)) cs)) with (calls cs).
      rewrite IH by (right; reflexivity). cbn [outs]. rewrite <- app_assoc. reflexivity.
  Qed.

  Lemma history_calls : forall p is_, history p is_ = calls (map (fun i => (p, i)) is_).
  Proof.
    intros. unfold Shared.history, Shared.calls. rewrite map_map. reflexivity.
  Qed.

  Lemma outs_run_calls :
    forall cs (l : local),
      outs (run_local l (calls cs)) = outs l ++ map (fun c => pure_parse (fst c) (snd c)) cs.
  Proof.
    intros [| c cs] l.
    - cbn. rewrite app_nil_r. reflexivity.
    - rewrite run_calls by (left; discriminate). reflexivity.
  Qed.

  (* Force actions anywhere in a program change nothing the thread can observe *)
  Lemma run_local_no_force : forall p (l : local), run_local l p = run_local l (no_force p).
  Proof.
    induction p as [| a p IH]; intro l; [reflexivity |].
    destruct a; cbn [no_force]; unfold Shared.run_local in *; cbn [fold_left]; try apply IH.
  Qed.

  (* ---- the theorems, in the form Properties/C18.v states them ------------------------------- *)
  Theorem history_thm :
    forall (w : world) k p is_,
      reachable mk_table events init consume finish w ->
      outs (locals (run w (map (fun a => (k, a)) (history p is_))) k) =
      outs (locals w k) ++ map (pure_parse p) is_.
  Proof.
    intros w k p is_ Hr.
    rewrite run_locals by (apply table_inv; exact Hr).
    assert (Hp : forall q, proj k (map (fun a : action => (k, a)) q) = q).
    { induction q as [| a q IH]; cbn [map proj]; [reflexivity |]. rewrite Nat.eqb_refl, IH. reflexivity. }
    rewrite Hp, history_calls, outs_run_calls, map_map. reflexivity.
  Qed.

  Theorem schedule_thm :
    forall (ps : list (list action)) tr k cs,
      interleaving ps tr ->
      no_force (nth k ps []) = calls cs ->
      outs (locals (run world0 tr) k) = map (fun c => pure_parse (fst c) (snd c)) cs.
  Proof.
    intros ps tr k cs Hi Hk.
    rewrite run_locals by (left; reflexivity).
    rewrite (Hi k), run_local_no_force, Hk, outs_run_calls. reflexivity.
  Qed.

  (* the general form: whatever the threads do (well-formed or not), thread k ends as if alone *)
  Theorem noninterference_thm :
    forall tr k, locals (run world0 tr) k = run_local local0 (proj k tr).
  Proof. intros. apply run_locals. left. reflexivity. Qed.
End SharedProofs.

(* satisfiability of the hypotheses of schedule_thm: two threads, two parsers, one interleaving *)
Example schedule_example :
  let events := fun (p : nat) (i : nat) => repeat tt i in
  let ps := [call events 0 2; Force :: call events 1 1] in
  let tr := [(1, Force); (0, Begin 0 2); (1, Begin 1 1); (0, Step); (1, Step); (0, Step); (1, End_); (0, End_)] in
  interleaving ps tr /\ no_force (nth 0 ps []) = calls events [(0, 2)]
  /\ no_force (nth 1 ps []) = calls events [(1, 1)].
Proof.
  cbn. split; [| split; reflexivity].
  intro k. destruct k as [| [| [| k]]]; reflexivity.
Qed.

(* ---- maps that are only probed -------------------------------------------------------------- *)
Section MapProofs.
  Variables (K V : Type).
  Variable keq : K -> K -> bool.
  Hypothesis keq_spec : forall a b, keq a b = true <-> a = b.

  Lemma keq_refl : forall a, keq a a = true.
  Proof. intro a. apply keq_spec. reflexivity. Qed.

  Lemma lookup_not_in : forall k (m : list (K * V)), ~ In k (map fst m) -> lookup keq k m = None.
  Proof.
    induction m as [| [k' v] m IH]; intro H; [reflexivity |]. cbn [lookup].
    destruct (keq k k') eqn:E.
    - apply keq_spec in E. subst. exfalso. apply H. left. reflexivity.
    - apply IH. intro. apply H. right. assumption.
  Qed.

  (* two orders of the same entries, keys unique: every probe answers the same *)
  Lemma perm_same_content :
    forall m m' : list (K * V), NoDup (map fst m) -> Permutation m m' -> same_content keq m m'.
  Proof.
    intros m m' Hnd Hp. induction Hp as [| [a v] l l' Hp IH | [a v] [b u] l | l l' l'' H1 IH1 H2 IH2]; intro k.
    - reflexivity.
    - cbn [lookup]. destruct (keq k a); [reflexivity |]. apply IH. inversion Hnd. assumption.
    - cbn [lookup]. destruct (keq k b) eqn:Eb, (keq k a) eqn:Ea; try reflexivity.
      apply keq_spec in Eb. apply keq_spec in Ea. subst. exfalso.
      cbn [map fst] in Hnd. inversion Hnd as [| ? ? Hn _]. apply Hn. left. reflexivity.
    - rewrite IH1 by assumption. apply IH2.
      apply (Permutation_NoDup (l := map fst l)); [apply Permutation_map; assumption | assumption].
  Qed.

  Lemma lookup_remove_key :
    forall k k' (m : list (K * V)),
      lookup keq k (remove_key keq k' m) = if keq k k' then None else lookup keq k m.
  Proof.
    induction m as [| [a v] m IH]; cbn [remove_key lookup].
    - destruct (keq k k'); reflexivity.
    - destruct (keq k' a) eqn:E1.
      + apply keq_spec in E1. subst a. rewrite IH. destruct (keq k k'); reflexivity.
      + cbn [lookup]. rewrite IH. destruct (keq k a) eqn:E2; [| reflexivity].
        apply keq_spec in E2. subst a. destruct (keq k k') eqn:E3; [| reflexivity].
        apply keq_spec in E3. subst k'. rewrite keq_refl in E1. discriminate.
  Qed.

  Lemma remove_key_same :
    forall k (m m' : list (K * V)), same_content keq m m' ->
      same_content keq (remove_key keq k m) (remove_key keq k m').
  Proof. intros k m m' H j. rewrite !lookup_remove_key, H. reflexivity. Qed.

  Lemma insert_same :
    forall k v (m m' : list (K * V)), same_content keq m m' ->
      same_content keq (insert keq k v m) (insert keq k v m').
  Proof.
    intros k v m m' H j. unfold insert. cbn [lookup]. rewrite !lookup_remove_key, H. reflexivity.
  Qed.
End MapProofs.

Lemma stdkey_eqb_spec : forall a b, stdkey_eqb a b = true <-> a = b.
Proof.
  intros [| | | x] [| | | y]; cbn; split; intro H; try reflexivity; try discriminate.
  - apply Nat.eqb_eq in H. subst. reflexivity.
  - injection H as ->. apply Nat.eqb_refl.
Qed.

Lemma locs_same :
  forall m m' keys, same_content stdkey_eqb m m' -> locs m keys = locs m' keys.
Proof.
  intros m m' keys H. unfold locs. f_equal.
  induction keys as [| k ks IH]; cbn [flat_map]; [reflexivity |]. rewrite (H k), IH. reflexivity.
Qed.

Lemma fold_remove_same :
  forall ks (m m' : list (stdkey * span)), same_content stdkey_eqb m m' ->
    same_content stdkey_eqb (fold_left (fun acc k => remove_key stdkey_eqb k acc) ks m)
                            (fold_left (fun acc k => remove_key stdkey_eqb k acc) ks m').
Proof.
  induction ks as [| k ks IH]; intros m m' H; cbn [fold_left]; [exact H |].
  apply IH. apply remove_key_same; [exact stdkey_eqb_spec | exact H].
Qed.

Lemma time_override_same :
  forall m m' new, same_content stdkey_eqb m m' ->
    tocheck_same (time_override_check m new) (time_override_check m' new).
Proof.
  intros m m' new H. unfold time_override_check.
  rewrite (locs_same m m' [new] H).
  destruct (locs m' [new]) as [| o rest]; [exact I |].
  assert (E1 := locs_same m m' [KPrepTime; KCookTime] H).
  assert (E2 := locs_same m m' [KTime] H).
  destruct new; cbn [tocheck_same]; try exact I;
    (split; [apply fold_remove_same; exact H | rewrite ?E1, ?E2; reflexivity]).
Qed.
