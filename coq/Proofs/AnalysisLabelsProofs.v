(* C04 for the labels of analysis-stage diagnostics (Model/AnalysisLabels.v):
   - [yaml_key_position_ok]: a position returned by yaml_find_key_position is the start of a line
     of the text, hence a character boundary of it, and the function never panics;
   - each label form of the enumeration yields a well placed span ([form_ok]) from the facts the
     parser theorems give about the events;
   - [analysis_labels_ok]: every site of the enumeration, on the events of the pull parser;
   - [label_table_in_sites], [label_sites_in_table]: the rows of the classification table (one per
     entry of the regenerated inventory Gen/LabelSites.v) reach exactly the sites of the enumeration;
     [inventory_labels_ok]: the placement theorem read from a row of the table;
   - [note_label_refuted_before_fix]: the form used before 17e6a01 is refuted. *)
From CL Require Import Base.StrLemmas Model.Lexer Model.Parser Proofs.LexerProofs Proofs.ParserSeg
  Proofs.ParserTotal Proofs.ParserSpans Model.AnalysisLabels.
From Coq Require Import Lia.
Open Scope N_scope.

(* ------------------------------------------------------------------ yaml_find_key_position *)
Lemma split_inclusive_concat s : forall cur, concat (split_inclusive_nl s cur) = cur ++ s.
Proof.
  induction s as [|c r IH]; intro cur; cbn [split_inclusive_nl].
  - destruct cur; cbn [concat]; rewrite ?app_nil_r; reflexivity.
  - destruct (c =? 10); [cbn [concat]; rewrite IH|rewrite IH]; rewrite <- app_assoc; reflexivity.
Qed.

Lemma ascii_ws_uni_ws c : ascii_ws c = true -> uni_ws c = true.
Proof.
  unfold ascii_ws. rewrite !orb_true_iff, !N.eqb_eq. intros [[[[->| ->]| ->]| ->]| ->]; reflexivity.
Qed.

Lemma drop_while_head p s c r : drop_while p s = c :: r -> p c = false.
Proof.
  induction s as [|a s IH]; cbn [drop_while]; [discriminate|].
  destruct (p a) eqn:E; [exact IH|]. intro H. injection H as <- _. exact E.
Qed.

Lemma before_colon_head c r k : before_colon (c :: r) = Some k -> k = [] \/ exists k', k = c :: k'.
Proof.
  cbn [before_colon]. destruct (c =? 58); [intro H; injection H as <-; left; reflexivity|].
  destruct (before_colon r) as [k0|]; cbn [option_map]; [|discriminate].
  intro H. injection H as <-. right. eauto.
Qed.

(* the key is looked for in the line after trim_start, so the first character that is not ASCII
   white space is the first character: [start] is always 0 and the position is the line's offset *)
Lemma find_start_zero line k start :
  before_colon (drop_while uni_ws line) = Some k -> find_non_ascii_ws k = Some start -> start = 0.
Proof.
  destruct (drop_while uni_ws line) as [|c r] eqn:E; [discriminate|].
  intros Hk Hf. pose proof (drop_while_head _ _ _ _ E) as Hc.
  destruct (before_colon_head _ _ _ Hk) as [->|(k' & ->)]; [discriminate|].
  cbn [find_non_ascii_ws] in Hf. destruct (ascii_ws c) eqn:Ea.
  - apply ascii_ws_uni_ws in Ea. congruence.
  - injection Hf as <-. reflexivity.
Qed.

Lemma slice_from_zero s : slice_from s 0 = Some s.
Proof. destruct s; reflexivity. Qed.

Lemma key_line_loop_spec lines : forall off key p,
  key_line_loop lines off key = Done (Some p) ->
  exists a b, lines = a ++ b /\ p = off + blen (concat a).
Proof.
  induction lines as [|line rest IH]; intros off key p; cbn [key_line_loop]; [discriminate|].
  assert (Hrec : key_line_loop rest (off + blen line) key = Done (Some p) ->
                 exists a b, line :: rest = a ++ b /\ p = off + blen (concat a)).
  { intro H. destruct (IH _ _ _ H) as (a & b & -> & ->). exists (line :: a), b.
    split; [reflexivity|]. cbn [concat]. rewrite blen_app. lia. }
  destruct (before_colon (drop_while uni_ws line)) as [k|] eqn:Ek; [|exact Hrec].
  destruct (find_non_ascii_ws k) as [start|] eqn:Ef; [|exact Hrec].
  pose proof (find_start_zero _ _ _ Ek Ef) as ->. rewrite slice_from_zero.
  destruct (str_eqb (trim_ascii_end k) key); [|exact Hrec].
  intro H. injection H as <-. exists [], (line :: rest). split; [reflexivity|]. cbn [concat blen]. lia.
Qed.

Lemma key_line_loop_total lines : forall off key, exists r, key_line_loop lines off key = Done r.
Proof.
  induction lines as [|line rest IH]; intros off key; cbn [key_line_loop]; [eauto|].
  destruct (before_colon (drop_while uni_ws line)) as [k|] eqn:Ek; [|apply IH].
  destruct (find_non_ascii_ws k) as [start|] eqn:Ef; [|apply IH].
  pose proof (find_start_zero _ _ _ Ek Ef) as ->. rewrite slice_from_zero.
  destruct (str_eqb (trim_ascii_end k) key); [eauto|apply IH].
Qed.

(* a returned position is the start of a line: a character boundary of the text, at most its length *)
Theorem yaml_key_position_ok text key p :
  yaml_find_key_position text key = Done (Some p) -> boundary text p /\ p <= blen text.
Proof.
  unfold yaml_find_key_position. intro H. apply key_line_loop_spec in H as (a & b & E & ->).
  pose proof (split_inclusive_concat text []) as C. rewrite E, concat_app in C. cbn [app] in C.
  split.
  - exists (concat a), (concat b). split; [symmetry; exact C|lia].
  - rewrite <- C, blen_app. lia.
Qed.

Theorem yaml_key_position_total text key : exists r, yaml_find_key_position text key = Done r.
Proof. apply key_line_loop_total. Qed.

(* ------------------------------------------------------------------ spans *)
Lemma span_ok_pos_end s sp : span_ok s sp -> span_ok s (pos (snd sp)).
Proof. intros (A & B & C & D). unfold span_ok, pos; cbn [fst snd]. repeat split; auto; lia. Qed.

Lemma span_ok_join s a b : span_ok s a -> span_ok s b -> fst a <= snd b -> span_ok s (fst a, snd b).
Proof. intros (A1 & A2 & A3 & A4) (B1 & B2 & B3 & B4) L. unfold span_ok; cbn [fst snd]. repeat split; auto. Qed.

(* a boundary of a slice of the source, moved by the offset of the slice *)
Lemma boundary_in_sub s y off i : sub s y off -> boundary y i -> span_ok s (pos (off + i)).
Proof.
  intros (a & b & -> & <-) (p & q & -> & <-).
  assert (Bd : boundary (a ++ (p ++ q) ++ b) (blen a + blen p)).
  { exists (a ++ p), (q ++ b). split; [rewrite <- !app_assoc; reflexivity|apply blen_app]. }
  unfold span_ok, pos; cbn [fst snd]. repeat split; auto; [lia|].
  rewrite !blen_app. lia.
Qed.

Lemma boundary_nil i : boundary [] i -> i = 0.
Proof. intros (p & q & E & <-). symmetry in E. apply app_eq_nil in E as [-> _]. reflexivity. Qed.

Lemma opt_span_in o sp : In sp (opt_span o) -> In sp (otext_spans o).
Proof. destruct o as [t|]; cbn [opt_span otext_spans text_spans]; [|tauto]. intros [<-|[]]. left. reflexivity. Qed.

Ltac fin :=
  lazymatch goal with
  | |- In ?x (?x :: _) => left; reflexivity
  | |- In _ (_ :: _) => right; fin
  | |- In _ (_ ++ _) => apply in_or_app; first [left; fin | right; fin]
  | |- In _ (otext_spans _) => apply opt_span_in; assumption
  | |- In _ (text_spans _) => unfold text_spans; fin
  | |- In _ (quantity_spans _) => unfold quantity_spans; fin
  | |- In _ (qvalue_spans _) => unfold qvalue_spans; fin
  end.

Lemma part_spans_in p ev sp : In sp (part_spans p ev) -> In sp (event_spans ev).
Proof.
  destruct p, ev; cbn [part_spans event_spans]; try contradiction; intro H;
    repeat match goal with
    | H : In _ (match ?x with _ => _ end) |- _ => destruct x
    | p : (_ * _)%type |- _ => destruct p
    | H : In _ [] |- _ => contradiction
    | H : In _ [_] |- _ => destruct H as [<-|[]]
    end; fin.
Qed.

(* ------------------------------------------------------------------ the forms *)
Section Forms.
  Variable yaml_err_index : str -> option N.
  Variable s : str.
  Variable evs : list pevent.
  (* what the parser theorems give (Proofs/ParserSpans.v): every span of every event is well placed,
     every text fragment is the source slice at its offset *)
  Hypothesis Hspans : Forall (span_ok s) (flat_map event_spans evs).
  Hypothesis Hfrags : forall ev t f, In ev evs -> In t (event_texts ev) -> In f (frags t) -> sub s (ftext f) (foff f).

  Lemma ev_span_ok ev sp : In ev evs -> In sp (event_spans ev) -> span_ok s sp.
  Proof.
    intros H1 H2. rewrite Forall_forall in Hspans. apply Hspans. apply in_flat_map. eauto.
  Qed.

  Lemma part_ok p ev sp : In ev evs -> In sp (part_spans p ev) -> span_ok s sp.
  Proof. intros H1 H2. eapply ev_span_ok; [exact H1|apply part_spans_in with p; exact H2]. Qed.

  (* an index into the front matter text that is a boundary of it, moved by the text's offset *)
  Lemma yaml_text_index_ok t i :
    In (EvYaml t) evs -> ev_fact (EvYaml t) -> boundary (text_str t) i -> span_ok s (pos (fst (text_span t) + i)).
  Proof.
    intros Hin (y & off & ->) Hb. unfold text_from_str in *. destruct y as [|c r].
    - change (text_str (text_empty off)) with (@nil N) in Hb. apply boundary_nil in Hb as ->.
      rewrite N.add_0_r. apply (ev_span_ok _ _ Hin). left. reflexivity.
    - set (f := {| ftext := c :: r; foff := off; fsoft := false |}) in *.
      assert (Hs : sub s (c :: r) off).
      { apply (Hfrags _ {| toff := off; frags := [f] |} f Hin); left; reflexivity. }
      assert (Et : text_str {| toff := off; frags := [f] |} = c :: r).
      { unfold text_str. cbn [frags map fsoft f ftext concat]. apply app_nil_r. }
      rewrite Et in Hb. change (fst (text_span {| toff := off; frags := [f] |})) with off.
      eapply boundary_in_sub; eassumption.
  Qed.

  (* the hypothesis on the serde_yaml oracle *)
  Definition yaml_index_ok : Prop := forall y i, yaml_err_index y = Some i -> boundary y i.

  (* every form except the one removed by 17e6a01 yields a well placed span *)
  Theorem form_ok f sp :
    f <> FNoteOld -> Forall ev_fact evs -> yaml_index_ok ->
    produces yaml_err_index evs f sp -> span_ok s sp.
  Proof.
    intros Hn Hfact Hy. rewrite Forall_forall in Hfact. destruct f; cbn [produces].
    - intros (ev & H1 & H2). eapply part_ok; eassumption.
    - intros (ev & sp0 & H1 & H2 & ->). apply span_ok_pos_end. eapply part_ok; eassumption.
    - intros (k & v & H1 & ->). pose proof (Hfact _ H1) as L. cbn [ev_fact] in L.
      apply span_ok_join; [| |exact L]; apply (ev_span_ok _ _ H1); cbn [event_spans text_spans].
      + left. reflexivity.
      + apply in_or_app. right. left. reflexivity.
    - intros (t & key & p & H1 & H2 & ->). apply yaml_text_index_ok; [exact H1|apply Hfact; exact H1|].
      apply (yaml_key_position_ok _ _ _ H2).
    - intros (t & H1 & H2). destruct (yaml_err_index (text_str t)) as [i|] eqn:Ei; subst sp.
      + (* the error has a location: the text's offset plus an index that is a boundary of the text *)
        apply yaml_text_index_ok; [exact H1|apply Hfact; exact H1|]. apply Hy. exact Ei.
      + (* no location (45a4888): the span of the front matter text, a span of the event *)
        apply (ev_span_ok _ _ H1). left. reflexivity.
    - congruence.
  Qed.

  Lemma sites_current : Forall (fun lf => snd lf <> FNoteOld) label_sites.
  Proof. unfold label_sites. repeat (constructor; [cbn [snd]; discriminate|]). constructor. Qed.

  Theorem sites_ok :
    Forall ev_fact evs -> yaml_index_ok ->
    forall line f sp, In (line, f) label_sites -> produces yaml_err_index evs f sp -> span_ok s sp.
  Proof.
    intros Hfact Hy line f sp Hin Hp. apply (form_ok f sp); auto.
    pose proof sites_current as Hc. rewrite Forall_forall in Hc. exact (Hc _ Hin).
  Qed.
End Forms.

(* ------------------------------------------------------------------ the classification table *)
(* a boolean equality on sites, to decide the two inclusions by computation *)
Definition part_tag (p : part) : N :=
  match p with
  | PComp => 0 | PMods => 1 | PInter => 2 | PNote => 3 | PQuantity => 4 | PUnit => 5 | PValue => 6
  | PMetaKey => 7 | PMetaValue => 8 | PText => 9
  end.

Definition form_tag (f : form) : N :=
  match f with
  | FPart p => 10 + part_tag p | FPosEnd p => 20 + part_tag p
  | FJoinKV => 1 | FYamlKey => 2 | FYamlErr => 3 | FNoteOld => 4
  end.

Lemma form_tag_inj a b : form_tag a = form_tag b -> a = b.
Proof.
  destruct a as [p|p| | | |], b as [q|q| | | |]; try destruct p; try destruct q; cbn; intro H;
    first [reflexivity | discriminate H].
Qed.

Definition site_eqb (a b : N * form) : bool := (fst a =? fst b) && (form_tag (snd a) =? form_tag (snd b)).

Lemma site_eqb_eq a b : site_eqb a b = true -> a = b.
Proof.
  destruct a as [i f], b as [j g]. unfold site_eqb; cbn [fst snd]. rewrite andb_true_iff, !N.eqb_eq.
  intros [-> H]. apply form_tag_inj in H. subst g. reflexivity.
Qed.

Lemma incl_by_eqb (l m : list (N * form)) :
  forallb (fun c => existsb (site_eqb c) m) l = true -> incl l m.
Proof.
  intros H c Hc. rewrite forallb_forall in H. specialize (H c Hc). apply existsb_exists in H as (d & Hd & E).
  apply site_eqb_eq in E. subst d. exact Hd.
Qed.

(* every site a row of [label_table] names is a site of [label_sites] ... *)
Lemma label_table_in_sites : forall r c, In r label_table -> In c (snd r) -> In c label_sites.
Proof.
  assert (H : incl (flat_map snd label_table) label_sites) by (apply incl_by_eqb; vm_compute; reflexivity).
  intros r c Hr Hc. apply H. apply in_flat_map. exists r. split; assumption.
Qed.

(* ... and every site of [label_sites] is reached by a row *)
Lemma label_sites_in_table : forall c, In c label_sites -> exists r, In r label_table /\ In c (snd r).
Proof.
  assert (H : incl label_sites (flat_map snd label_table)) by (apply incl_by_eqb; vm_compute; reflexivity).
  intros c Hc. apply H in Hc. apply in_flat_map in Hc. exact Hc.
Qed.

(* ------------------------------------------------------------------ on the events of the pull parser *)
Theorem analysis_labels_ok (U : N -> ucls) (cfg : pcfg) (s : str) (evs : list pevent) yaml_err_index :
  p_strict_escape cfg = false -> p_note_label_old cfg = false ->
  events U cfg s = Done evs ->
  Forall ev_fact evs -> yaml_index_ok yaml_err_index ->
  forall line f sp, In (line, f) label_sites -> produces yaml_err_index evs f sp -> span_ok s sp.
Proof.
  intros H1 H2 E. apply sites_ok.
  - exact (event_spans_all_ok U cfg s evs H1 H2 E).
  - exact (fragments_faithful U cfg s evs H1 E).
Qed.

(* the same, read from the inventory: row (fn, expression, sites) of [label_table], site (id, f) of the row *)
Theorem inventory_labels_ok (U : N -> ucls) (cfg : pcfg) (s : str) (evs : list pevent) yaml_err_index :
  p_strict_escape cfg = false -> p_note_label_old cfg = false ->
  events U cfg s = Done evs ->
  Forall ev_fact evs -> yaml_index_ok yaml_err_index ->
  forall fn expr cls id f sp, In (fn, expr, cls) label_table -> In (id, f) cls ->
    produces yaml_err_index evs f sp -> span_ok s sp.
Proof.
  intros H1 H2 E Hf Hy fn expr cls id f sp Hr Hc. apply (analysis_labels_ok U cfg s evs yaml_err_index H1 H2 E Hf Hy id).
  exact (label_table_in_sites _ _ Hr Hc).
Qed.

(* ------------------------------------------------------------------ before 17e6a01 *)
Fixpoint boundary_b (s : str) (a : N) : bool :=
  if a =? 0 then true
  else match s with
       | [] => false
       | c :: r => (utf8_len c <=? a) && boundary_b r (a - utf8_len c)
       end.

Lemma boundary_b_complete s a : boundary s a -> boundary_b s a = true.
Proof.
  intros (p & q & -> & <-). induction p as [|c p IH]; cbn [app blen].
  - destruct q; reflexivity.
  - cbn [boundary_b]. pose proof (utf8_len_pos c) as P.
    destruct (N.eqb_spec (utf8_len c + blen p) 0) as [E|_]; [lia|].
    destruct (N.leb_spec (utf8_len c) (utf8_len c + blen p)) as [_|L]; [|lia].
    replace (utf8_len c + blen p - utf8_len c) with (blen p) by lia. exact IH.
Qed.

Definition cfg_now_all : pcfg :=
  {| p_ext := 3818; p_debug := true; p_strict_escape := false; p_note_label_old := false; p_fm_anywhere := false |}.

(* "@salt{}\n\n@&salt{}(-- é\nx)": the note text starts after the comment, right behind the two
   bytes of U+00E9, so start - 1 is inside that character *)
Definition note_witness : str :=
  [64;115;97;108;116;123;125;10;10;64;38;115;97;108;116;123;125;40;45;45;32;233;10;120;41].

Theorem note_label_refuted_before_fix :
  exists evs sp,
    events U_plain cfg_now_all note_witness = Done evs /\
    In (703, FNoteOld) label_sites_before_17e6a01 /\
    produces (fun _ => None) evs FNoteOld sp /\ ~ span_ok note_witness sp.
Proof.
  eexists. exists (22, 26). split; [vm_compute; reflexivity|]. split.
  { unfold label_sites_before_17e6a01. apply in_map_iff. exists (703, FPart PNote). split; [reflexivity|].
    unfold label_sites. repeat (first [left; reflexivity | right]). }
  split.
  { cbn [produces]. eexists. exists (23, 25).
    split; [right; right; right; right; left; reflexivity|]. split; [left; reflexivity|reflexivity]. }
  intros (_ & _ & B & _). apply boundary_b_complete in B. vm_compute in B. discriminate.
Qed.
