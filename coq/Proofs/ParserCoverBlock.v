(* Coverage of one block (C05): after [parse_block] every non-blank content token of the block
   lies inside the span of an event pushed for it.  Invariant of the loops ([covd]): every such
   token among the tokens consumed so far ([b_done]) is covered by an event of the queue. *)
From CL Require Import Base.StrLemmas Model.Lexer Model.CommentMask Model.Parser
  Proofs.LexerProofs Proofs.ParserSeg Proofs.ParserCover Proofs.ParserCoverFrame.

Ltac pcfun ::= pcframe.

Definition otl (o : option tok) : list tok := match o with Some t => [t] | None => [] end.

Lemma pc_consume_opt k s (R : option tok -> bp -> Prop) :
  (forall o s', mv s (otl o) s' -> (forall t, o = Some t -> kind t = k) -> R o s') -> pc (consume k) s R.
Proof.
  intro H. apply pc_consume.
  - intros t s' Hm Hk. apply H; [exact Hm|]. intros t' E. injection E as <-. exact Hk.
  - apply H; [unfold mv; cbn [otl app rev]; tauto|]. intros t' E. discriminate.
Qed.

Section Block.
  Variable src : str.
  Variable cfg : pcfg.

  Notation seg := (seg src).
  Notation cur := current_offset_of.

  (* the token list of the block is a located chain split by the position *)
  Definition tape (s : bp) : Prop :=
    b_all s = rev (b_done s) ++ b_rest s /\ exists en, seg (base_offset s) (b_all s) en.

  Lemma tape_split s : tape s ->
    exists en, seg (base_offset s) (rev (b_done s)) (cur s) /\ seg (cur s) (b_rest s) en.
  Proof.
    intros (Ha & (en & Hs)). rewrite Ha in Hs. apply seg_app in Hs as (mid & H1 & H2).
    assert (mid = cur s) as ->; [|exists en; tauto].
    unfold current_offset_of. destruct (b_done s) as [|t d] eqn:E.
    - cbn [rev ParserSeg.seg] in H1. symmetry. tauto.
    - cbn [rev] in H1. symmetry. erewrite <- (seg_last _ _ _ _ t H1); [rewrite last_snoc; reflexivity|].
      destruct (rev d); discriminate.
  Qed.

  Lemma fwd_seg s c s' : tape s -> fwd s c s' -> tape s' /\ seg (cur s) c (cur s').
  Proof.
    intros Hw (Ea & Er & Ed). destruct (tape_split s Hw) as (en & H1 & H2).
    assert (Hw' : tape s').
    { destruct Hw as (A & (en' & B)). unfold tape, base_offset in *.
      rewrite Ea, Ed, rev_app_distr, rev_involutive, <- app_assoc, <- Er. split; [exact A|exists en'; exact B]. }
    split; [exact Hw'|].
    rewrite Er in H2. apply seg_app in H2 as (mid & H3 & H4).
    assert (mid = cur s') as <-; [|exact H3].
    destruct c as [|c0 c'] eqn:Ec.
    - cbn [ParserSeg.seg] in H3. destruct H3 as (<- & _). unfold current_offset_of, base_offset.
      cbn [rev app] in Ed. rewrite Ed, Ea. reflexivity.
    - rewrite <- Ec in *. assert (Hn : c <> []) by (rewrite Ec; discriminate).
      rewrite <- (seg_last _ _ _ _ c0 H3 Hn). unfold current_offset_of.
      destruct (exists_last Hn) as (l' & x & El). rewrite El, rev_app_distr in Ed. cbn [rev app] in Ed.
      rewrite Ed, El, last_snoc. reflexivity.
  Qed.

  Lemma grow_tape s s' : tape s -> grow s s' -> tape s'.
  Proof. intros Hw ((c & Hf) & _). eapply fwd_seg; eassumption. Qed.

  Lemma stay_tape s s' : tape s -> stay s s' -> tape s'.
  Proof. intros Hw H. eapply grow_tape; [exact Hw|apply stay_grow; exact H]. Qed.

  Lemma seg_covers a c b t : seg a c b -> In t c -> covers (a, b) t.
  Proof.
    intros Hs Hi. destruct (seg_In _ _ _ _ _ Hs Hi) as (_ & A & B). unfold covers; cbn [fst snd].
    split; [|exact B]. unfold pstart. destruct (kind t); lia.
  Qed.

  (* ---------------------------------------------------------------- the invariant *)

  Definition covd (s : bp) : Prop := forall t, In t (b_done s) -> good t -> covered (b_evs s) t.

  Lemma covd_fwd s c s' : covd s -> fwd s c s' -> evg s s' ->
    (forall t, In t c -> good t -> covered (b_evs s') t) -> covd s'.
  Proof.
    intros Hc (_ & _ & Ed) He Hn t Hi Hg. rewrite Ed in Hi. apply in_app_or in Hi as [Hi|Hi].
    - apply Hn; [apply in_rev; exact Hi|exact Hg].
    - eapply covered_mono; [intros e; apply evg_In; exact He|]. apply Hc; assumption.
  Qed.

  Lemma covd_stay s s' : covd s -> stay s s' -> covd s'.
  Proof.
    intros Hc ((A1 & A2 & A3) & He). eapply (covd_fwd s []); [exact Hc| |exact He|intros t []].
    unfold fwd. cbn [app rev]. repeat split; congruence.
  Qed.

  Lemma not_good t : content_kind (kind t) = false -> ~ good t.
  Proof. intros H (Hg & _). rewrite H in Hg. discriminate. Qed.

  (* a round that consumed [pre] (no content) and then [ts], built the text [t] from [ts] and
     pushed it unless it has nothing to show *)
  Lemma covd_text s0 pre s1 ts s2 t s3 :
    tape s0 -> covd s0 -> fwd s0 pre s1 -> (forall x, In x pre -> ~ good x) -> fwd s1 ts s2 -> evg s0 s2 ->
    text_of cfg (cur s1) ts = Done t ->
    (stay s2 s3 /\ (is_text_empty t = true \/ frags t = [])) \/ s3 = push (EvText t) s2 ->
    tape s3 /\ covd s3 /\ grow s0 s3.
  Proof.
    intros Hw Hc Hf1 Hpre Hf2 He Ht H3.
    destruct (fwd_seg _ _ _ Hw Hf1) as (Hw1 & Hs1). destruct (fwd_seg _ _ _ Hw1 Hf2) as (Hw2 & Hs2).
    pose proof (text_of_cov _ _ _ _ _ _ Hs2 Ht) as Hcov.
    pose proof (fwd_trans _ _ _ _ _ Hf1 Hf2) as Hf.
    assert (Hs23 : stay s2 s3).
    { destruct H3 as [(H3 & _)| ->]; [exact H3|apply push_stay]. }
    assert (Hg : grow s0 s3).
    { eapply grow_trans; [|apply stay_grow; exact Hs23]. split; [eexists; exact Hf|exact He]. }
    split; [exact (grow_tape _ _ Hw Hg)|]. split; [|exact Hg].
    assert (Hf3 : fwd s0 (pre ++ ts) s3).
    { destruct Hs23 as ((A1 & A2 & A3) & _). destruct Hf as (B1 & B2 & B3). unfold fwd. repeat split; congruence. }
    eapply covd_fwd; [exact Hc|exact Hf3|apply grow_evg; exact Hg|].
    intros tk Hi Hgd. apply in_app_or in Hi as [Hi|Hi]; [exfalso; eapply Hpre; eassumption|].
    destruct (text_cov_good _ _ _ _ _ Hcov Hi Hgd) as (A & B & C).
    destruct H3 as [(_ & [H3|H3])| ->]; [rewrite H3 in B; discriminate|contradiction|].
    exists (EvText t), (text_span t). split; [left; reflexivity|]. split; [reflexivity|exact A].
  Qed.

  (* ---------------------------------------------------------------- steps *)

  Lemma step_comp_fr s (R : option pevent -> bp -> Prop) :
    (forall o s', comp_res s o s' -> (o = None -> stay s s') -> R o s') ->
    pc (match peek_of s with
        | KAt => with_recover (ingredient_p cfg)
        | KHash => with_recover (cookware_p cfg)
        | KTilde => with_recover (timer_p cfg)
        | _ => ret None
        end) s R.
  Proof.
    intro HR.
    assert (Hrec : forall o s', comp_res s o s' ->
              match o with Some a => R (Some a) s' | None => R None (restore s s') end).
    { intros [ev|] s' (Hg & Hsp).
      - apply HR; [split; assumption|discriminate].
      - apply HR; [split; [gsolve|exact I]|]. intros _. ssolve. }
    destruct (peek_of s); try (apply pc_ret, HR; [split; [apply grow_refl|exact I]|intros _; apply stay_refl]).
    - apply pc_with_recover, ingredient_p_fr. exact Hrec.
    - apply pc_with_recover, cookware_p_fr. exact Hrec.
    - apply pc_with_recover, timer_p_fr. exact Hrec.
  Qed.

  Lemma step_loop_cov fuel : forall s (R : unit -> bp -> Prop), tape s -> covd s ->
    (forall s', grow s s' -> covd s' -> R tt s') -> pc (step_loop cfg fuel) s R.
  Proof.
    induction fuel as [|f IH]; intros s R Hw Hc HR; cbn [step_loop]; [apply pc_panic|].
    apply pc_bind, pc_rest. destruct (b_rest s) as [|r0 rr] eqn:Er.
    - apply pc_ret, HR; [apply grow_refl|exact Hc].
    - cbv beta iota. apply pc_bind, pc_peek. apply pc_bind, step_comp_fr.
      intros [ev|] s1 (Hg1 & Hsp) Hst.
      + apply pc_bind, pc_event. destruct Hg1 as ((c & Hf) & He).
        destruct (fwd_seg _ _ _ Hw Hf) as (Hw1 & Hs1).
        apply IH.
        * eapply stay_tape; [exact Hw1|apply push_stay].
        * eapply (covd_fwd s c); [exact Hc|exact Hf|esolve|].
          intros t Hi _. exists ev, (cur s, cur s1). split; [left; reflexivity|]. split; [exact Hsp|].
          eapply seg_covers; eassumption.
        * intros s' Hg' Hc'. apply HR; [|exact Hc'].
          eapply grow_trans; [|exact Hg']. eapply grow_trans; [split; [eexists; exact Hf|exact He]|apply stay_grow, push_stay].
      + specialize (Hst eq_refl). clear Hg1 Hsp.
        apply pc_bind, pc_current_offset. apply pc_bind, pc_bump_any. intros t0 s2 Hm2.
        apply pc_bind, pc_consume_while. intros more s3 Hm3 _. apply pc_bind, pc_lift. intros t Ht. unfold textM in Ht.
        assert (Hf13 : fwd s1 ([t0] ++ more) s3) by (eapply fwd_trans; apply mv_fwd; eassumption).
        assert (Hround : forall s4, (stay s3 s4 /\ (is_text_empty t = true \/ frags t = [])) \/ s4 = push (EvText t) s3 ->
                           pc (step_loop cfg f) s4 R).
        { intros s4 H4.
          destruct (covd_text s1 [] s1 (t0 :: more) s3 t s4) as (A & B & C); try assumption.
          - eapply stay_tape; eassumption.
          - eapply covd_stay; eassumption.
          - unfold fwd. cbn [app rev]. tauto.
          - intros x [].
          - esolve.
          - apply IH; [exact A|exact B|]. intros s' Hg' Hc'. apply HR; [|exact Hc'].
            eapply grow_trans; [apply stay_grow; exact Hst|]. eapply grow_trans; eassumption. }
        apply pc_bind. destruct (frags t) eqn:Ef.
        * apply pc_ret. apply Hround. left. split; [apply stay_refl|right; reflexivity].
        * apply pc_event. apply Hround. right. reflexivity.
  Qed.

  Lemma parse_step_cov s (R : unit -> bp -> Prop) : tape s -> covd s ->
    (forall s', grow s s' -> covd s' -> R tt s') -> pc (parse_step cfg) s R.
  Proof.
    intros Hw Hc HR. unfold parse_step. apply pc_bind, pc_event. apply pc_bind, pc_rest. apply pc_bind.
    apply step_loop_cov.
    - eapply stay_tape; [exact Hw|apply push_stay].
    - eapply covd_stay; [exact Hc|apply push_stay].
    - intros s1 Hg1 Hc1. apply pc_event. apply HR.
      + eapply grow_trans; [apply stay_grow, push_stay|]. eapply grow_trans; [exact Hg1|apply stay_grow, push_stay].
      + eapply covd_stay; [exact Hc1|apply push_stay].
  Qed.

  (* ---------------------------------------------------------------- text blocks *)

  Lemma otl_not_good o k : (forall t, o = Some t -> kind t = k) -> content_kind k = false ->
    forall x, In x (otl o) -> ~ good x.
  Proof.
    intros Hk Hc x Hi. destruct o as [t|]; [|destruct Hi]. destruct Hi as [<-|[]].
    apply not_good. rewrite (Hk t eq_refl). exact Hc.
  Qed.

  Lemma text_block_loop_cov fuel : forall s (R : unit -> bp -> Prop), tape s -> covd s ->
    (forall s', grow s s' -> covd s' -> R tt s') -> pc (text_block_loop cfg fuel) s R.
  Proof.
    induction fuel as [|f IH]; intros s R Hw Hc HR; cbn [text_block_loop]; [apply pc_panic|].
    apply pc_bind, pc_rest. destruct (b_rest s) as [|r0 rr] eqn:Er.
    - apply pc_ret, HR; [apply grow_refl|exact Hc].
    - cbv beta iota. apply pc_bind, pc_consume_opt. intros g sa Hg Hgk. apply pc_bind.
      (* the optional blank after `>` *)
      apply pc_conseq with (R := fun _ sb => exists w, mv sa (otl w) sb /\ (forall t, w = Some t -> kind t = KWs)).
      { destruct g as [g|].
        - apply pc_bind, pc_consume_opt. intros w sb Hw' Hwk. apply pc_ret. exists w. tauto.
        - apply pc_ret. exists None. split; [unfold mv; cbn [otl app rev]; tauto|discriminate]. }
      intros _ sb (w & Hwm & Hwk). apply pc_bind, pc_current_offset.
      apply pc_bind, pc_consume_while. intros line sc Hl _. apply pc_bind, pc_consume_opt. intros nl sd Hn Hnk.
      assert (Ets : match nl with Some n => line ++ [n] | None => line end = line ++ otl nl).
      { destruct nl; cbn [otl]; [reflexivity|rewrite app_nil_r; reflexivity]. }
      cbv zeta. rewrite Ets. apply pc_bind, pc_lift. intros t Ht. unfold textM in Ht.
      assert (Hpre : fwd s (otl g ++ otl w) sb) by (eapply fwd_trans; apply mv_fwd; eassumption).
      assert (Hts : fwd sb (line ++ otl nl) sd) by (eapply fwd_trans; apply mv_fwd; eassumption).
      assert (Hround : forall s4, (stay sd s4 /\ (is_text_empty t = true \/ frags t = [])) \/ s4 = push (EvText t) sd ->
                pc (r' <- rest ;; if (length r' <? length (r0 :: rr))%nat then text_block_loop cfg f else panic site_fuel) s4 R).
      { intros s4 H4.
        destruct (covd_text s (otl g ++ otl w) sb (line ++ otl nl) sd t s4) as (A & B & C); try assumption.
        - intros x Hi. apply in_app_or in Hi as [Hi|Hi]; [eapply otl_not_good; [exact Hgk|reflexivity|exact Hi]|].
          eapply otl_not_good; [exact Hwk|reflexivity|exact Hi].
        - esolve.
        - apply pc_bind, pc_rest. destruct (_ <? _)%nat; [|apply pc_panic].
          apply IH; [exact A|exact B|]. intros s' Hg' Hc'. apply HR; [|exact Hc']. eapply grow_trans; eassumption. }
      apply pc_bind. destruct (is_text_empty t) eqn:Ee.
      + apply pc_ret. apply Hround. left. split; [apply stay_refl|left; reflexivity].
      + apply pc_event. apply Hround. right. reflexivity.
  Qed.

  Lemma parse_text_block_cov s (R : unit -> bp -> Prop) : tape s -> covd s ->
    (forall s', grow s s' -> covd s' -> R tt s') -> pc (parse_text_block cfg) s R.
  Proof.
    intros Hw Hc HR. unfold parse_text_block. apply pc_bind, pc_event. apply pc_bind, pc_rest. apply pc_bind.
    apply text_block_loop_cov.
    - eapply stay_tape; [exact Hw|apply push_stay].
    - eapply covd_stay; [exact Hc|apply push_stay].
    - intros s1 Hg1 Hc1. apply pc_event. apply HR.
      + eapply grow_trans; [apply stay_grow, push_stay|]. eapply grow_trans; [exact Hg1|apply stay_grow, push_stay].
      + eapply covd_stay; [exact Hc1|apply push_stay].
  Qed.

  (* ---------------------------------------------------------------- single-line blocks *)

  Definition ev_covers (ev : pevent) (tk : tok) : Prop :=
    exists sp, event_span ev = Some sp /\ covers sp tk.

  (* a line parser that returns an event: the event covers what was consumed *)
  Definition line_res (s : bp) (o : option pevent) (s' : bp) : Prop :=
    grow s s' /\
    match o with
    | Some ev => exists c, fwd s c s' /\ forall tk, In tk c -> good tk -> ev_covers ev tk
    | None => True
    end.

  Lemma fwd_stay s c s1 s2 : fwd s c s1 -> stay s1 s2 -> fwd s c s2.
  Proof. intros (A1 & A2 & A3) ((B1 & B2 & B3) & _). unfold fwd. repeat split; congruence. Qed.

  Lemma Forall_not_good (p : tkind -> bool) ts :
    Forall (fun t => p (kind t) = true) ts -> (forall k, p k = true -> content_kind k = false) ->
    forall x, In x ts -> ~ good x.
  Proof. intros HF Hp x Hi. rewrite Forall_forall in HF. apply not_good, Hp, HF, Hi. Qed.

  Lemma metadata_entry_cov s (R : option pevent -> bp -> Prop) : tape s ->
    (forall o s', line_res s o s' -> R o s') -> pc (metadata_entry cfg) s R.
  Proof.
    intros Hw HR. unfold metadata_entry. apply pc_obindM, pc_consume.
    2:{ apply HR. split; [apply grow_refl|exact I]. }
    intros m s1 Hm1 Hmk. apply pc_bind, pc_current_offset. apply pc_bind, pc_until.
    2:{ pcgo. apply HR. split; [gsolve|exact I]. }
    intros kts s2 Hm2. apply pc_bind, pc_lift. intros key Hkey. apply pc_bind, pc_bump. intros col s3 Hm3 Hck.
    apply pc_bind, pc_current_offset. apply pc_bind, pc_consume_while. intros vts s4 Hm4 _.
    apply pc_bind, pc_lift. intros v Hv. apply pc_bind.
    apply pc_conseq with (R := fun _ s5 => stay s4 s5).
    { destruct (is_text_empty key); [apply pc_error; ssolve|].
      destruct (is_text_empty v); [apply pc_warn; ssolve|apply pc_ret; ssolve]. }
    intros _ s5 H5. apply pc_ret. apply HR. split; [gsolve|].
    destruct (fwd_seg _ _ _ Hw (mv_fwd _ _ _ Hm1)) as (Hw1 & Hs1).
    destruct (fwd_seg _ _ _ Hw1 (mv_fwd _ _ _ Hm2)) as (Hw2 & Hs2).
    destruct (fwd_seg _ _ _ Hw2 (mv_fwd _ _ _ Hm3)) as (Hw3 & Hs3).
    destruct (fwd_seg _ _ _ Hw3 (mv_fwd _ _ _ Hm4)) as (Hw4 & Hs4).
    exists ([m] ++ kts ++ [col] ++ vts). split.
    { eapply fwd_stay; [|exact H5]. eapply fwd_trans; [apply mv_fwd; exact Hm1|].
      eapply fwd_trans; [apply mv_fwd; exact Hm2|]. eapply fwd_trans; apply mv_fwd; eassumption. }
    unfold textM in Hkey, Hv.
    pose proof (text_of_cov _ _ _ _ _ _ Hs2 Hkey) as Ck. pose proof (text_of_cov _ _ _ _ _ _ Hs4 Hv) as Cv.
    pose proof (seg_le _ _ _ _ Hs3) as Hle3.
    destruct Ck as ((Kb1 & Kb2 & Kb3) & Ck'). pose proof (conj (conj Kb1 (conj Kb2 Kb3)) Ck' : text_cov kts key (cur s1) (cur s2)) as Ck.
    destruct Cv as ((Vb1 & Vb2 & Vb3) & Cv'). pose proof (conj (conj Vb1 (conj Vb2 Vb3)) Cv' : text_cov vts v (cur s3) (cur s4)) as Cv.
    intros tk Hi Hg. unfold ev_covers. cbn [event_span]. eexists. split; [reflexivity|].
    apply in_app_or in Hi as [[<-|[]]|Hi]; [exfalso; eapply not_good; [|exact Hg]; rewrite Hmk; reflexivity|].
    apply in_app_or in Hi as [Hi|Hi].
    - destruct (text_cov_good _ _ _ _ _ Ck Hi Hg) as ((A1 & A2) & _). unfold covers; cbn [fst snd]. split; lia.
    - apply in_app_or in Hi as [[<-|[]]|Hi]; [exfalso; eapply not_good; [|exact Hg]; rewrite Hck; reflexivity|].
      destruct (text_cov_good _ _ _ _ _ Cv Hi Hg) as ((A1 & A2) & _). unfold covers; cbn [fst snd]. split; lia.
  Qed.

  Lemma section_p_cov s (R : option pevent -> bp -> Prop) : tape s ->
    (forall o s', line_res s o s' -> R o s') -> pc (section_p cfg) s R.
  Proof.
    intros Hw HR. unfold section_p. apply pc_obindM, pc_consume.
    2:{ apply HR. split; [apply grow_refl|exact I]. }
    intros e s1 Hm1 Hek. apply pc_bind, pc_consume_while. intros e2 s2 Hm2 F2.
    apply pc_bind, pc_current_offset. apply pc_bind, pc_consume_while. intros nts s3 Hm3 _.
    apply pc_bind, pc_lift. intros name Hname. apply pc_bind, pc_consume_while. intros e3 s4 Hm4 F4.
    apply pc_bind, pc_consume_while. intros wc s5 Hm5 F5. apply pc_bind, pc_rest.
    destruct (b_rest s5) eqn:Er.
    2:{ pcgo. apply HR. split; [gsolve|exact I]. }
    apply pc_ret. apply HR. split; [gsolve|].
    destruct (fwd_seg _ _ _ Hw (mv_fwd _ _ _ Hm1)) as (Hw1 & Hs1).
    destruct (fwd_seg _ _ _ Hw1 (mv_fwd _ _ _ Hm2)) as (Hw2 & Hs2).
    destruct (fwd_seg _ _ _ Hw2 (mv_fwd _ _ _ Hm3)) as (Hw3 & Hs3).
    exists ([e] ++ e2 ++ nts ++ e3 ++ wc). split.
    { eapply fwd_trans; [apply mv_fwd; exact Hm1|]. eapply fwd_trans; [apply mv_fwd; exact Hm2|].
      eapply fwd_trans; [apply mv_fwd; exact Hm3|]. eapply fwd_trans; apply mv_fwd; eassumption. }
    unfold textM in Hname. pose proof (text_of_cov _ _ _ _ _ _ Hs3 Hname) as Cn.
    assert (Heq : forall k, tk_eqb k KEq = true -> content_kind k = false).
    { intros k Hk. apply tk_eqb_true in Hk. rewrite Hk. reflexivity. }
    intros tk Hi Hg.
    apply in_app_or in Hi as [[<-|[]]|Hi]; [exfalso; eapply not_good; [|exact Hg]; rewrite Hek; reflexivity|].
    apply in_app_or in Hi as [Hi|Hi]; [exfalso; exact (Forall_not_good _ _ F2 Heq _ Hi Hg)|].
    apply in_app_or in Hi as [Hi|Hi].
    - destruct (text_cov_good _ _ _ _ _ Cn Hi Hg) as (A & B & _). rewrite B. exists (text_span name).
      split; [reflexivity|exact A].
    - exfalso. apply in_app_or in Hi as [Hi|Hi]; [exact (Forall_not_good _ _ F4 Heq _ Hi Hg)|].
      refine (Forall_not_good _ _ F5 _ _ Hi Hg). intros k Hk. destruct k; try discriminate; reflexivity.
  Qed.

  (* ---------------------------------------------------------------- a whole block *)

  Lemma parse_multiline_block_cov s (R : unit -> bp -> Prop) : tape s -> covd s ->
    (forall s', grow s s' -> covd s' -> R tt s') -> pc (parse_multiline_block cfg) s R.
  Proof.
    intros Hw Hc HR. unfold parse_multiline_block. apply pc_bind, pc_all_tokens.
    destruct (forallb _ (b_all s)) eqn:Ea.
    - apply pc_bind, pc_consume_while. intros ts s1 Hm1 _. apply pc_ret, HR; [gsolve|].
      eapply covd_fwd; [exact Hc|apply mv_fwd; exact Hm1|esolve|].
      intros t Hi Hg. exfalso. eapply not_good; [|exact Hg].
      rewrite forallb_forall in Ea. assert (Hin : In t (b_all s)).
      { destruct Hw as (E & _). destruct Hm1 as (_ & Er & _). rewrite E, Er. apply in_or_app. right. apply in_or_app. left. exact Hi. }
      specialize (Ea t Hin). destruct (kind t); try discriminate; reflexivity.
    - apply pc_bind, pc_peek. destruct (peek_of s); try (apply parse_step_cov; assumption).
      apply parse_text_block_cov; assumption.
  Qed.

  Lemma parse_block_cov old s (R : unit -> bp -> Prop) : tape s -> covd s ->
    (forall s', grow s s' -> covd s' -> R tt s') -> pc (parse_block cfg old) s R.
  Proof.
    intros Hw Hc HR. unfold parse_block. apply pc_bind, pc_peek. apply pc_bind.
    apply pc_conseq with (R := fun mos s1 => match mos with Some ev => line_res s (Some ev) s1 | None => stay s s1 end).
    { destruct (peek_of s); try (apply pc_ret, stay_refl).
      - apply pc_with_recover, pc_obindM, metadata_entry_cov; [exact Hw|].
        intros [ev|] s1 Hl; [|destruct Hl as (Hg & _); ssolve].
        destruct ev; try (apply pc_ret; exact Hl).
        destruct (meta_kept cfg old key); apply pc_ret; [exact Hl|]. destruct Hl as (Hg & _). ssolve.
      - apply pc_with_recover, section_p_cov; [exact Hw|].
        intros [ev|] s1 Hl; [exact Hl|]. destruct Hl as (Hg & _). ssolve. }
    intros [ev|] s1 H1.
    - destruct H1 as (Hg & c & Hf & Hcov). apply pc_event. apply HR; [gsolve|].
      eapply (covd_fwd s c); [exact Hc|exact Hf|esolve|].
      intros t Hi Hgd. destruct (Hcov t Hi Hgd) as (sp & A & B). exists ev, sp. split; [left; reflexivity|tauto].
    - apply parse_multiline_block_cov; [eapply stay_tape; eassumption|eapply covd_stay; eassumption|].
      intros s' Hg' Hc'. apply HR; [gsolve|exact Hc'].
  Qed.

  (* run_block: the events are extended and cover the block *)
  Theorem run_block_cov ts a b evs old evs' :
    seg a ts b -> run_block ts evs (parse_block cfg old) = Done evs' ->
    (exists es, evs' = es ++ evs) /\ forall t, In t ts -> good t -> covered evs' t.
  Proof.
    intros Hs H. unfold run_block in H. destruct ts as [|t0 tr] eqn:Et; [discriminate|]. rewrite <- Et in *.
    set (s0 := {| b_all := ts; b_done := []; b_rest := ts; b_evs := evs |}) in H.
    assert (Hw : tape s0).
    { split; [reflexivity|]. exists b. unfold base_offset, s0; cbn [b_all]. rewrite Et in *.
      rewrite (seg_hd _ _ _ _ _ Hs). exact Hs. }
    assert (Hc : covd s0) by (intros t []).
    destruct (parse_block cfg old s0) as [[u s1]|] eqn:E; [|discriminate].
    pose proof (parse_block_cov old s0 (fun _ s' => grow s0 s' /\ covd s') Hw Hc (fun s' A B => conj A B) u s1 E) as (Hg & Hc1).
    destruct (b_rest s1) eqn:Er; [|discriminate]. injection H as <-.
    split; [exact (grow_evg _ _ Hg)|].
    intros t Hi Hgd. apply Hc1; [|exact Hgd].
    destruct (grow_tape _ _ Hw Hg) as (Ea & _). destruct Hg as ((c & (Eall & _)) & _).
    rewrite Er, app_nil_r in Ea. apply in_rev. rewrite <- Ea, Eall. exact Hi.
  Qed.
End Block.
