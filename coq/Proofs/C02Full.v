(* C02: the full statement.  Proofs/C02Quiet.v (every event of a core_doc source satisfies Pev)
   bridged to the collector's notion of a quiet stream (Proofs/C02AnalyseInv.v), then
   Proofs/C02Pipeline.v without its hypothesis on metadata and ingredient events. *)
From CL Require Import Base.StrLemmas Model.Parser Model.EventBridge Proofs.C02Invariance Proofs.C02Wide
  Proofs.C02Quiet Proofs.C02Pipeline.
From CL Require Model.Analysis Proofs.C02AnalyseInv.

Lemma quiet_bridge find_iq unit_class evs :
  Forall Pev evs -> oracle_quiet find_iq unit_class (abstract_events evs) = true ->
  forallb (CL.Proofs.C02AnalyseInv.quiet_event find_iq unit_class) (abstract_events evs) = true.
Proof.
  induction 1 as [|ev r Hev _ IH]; intro Ho; [reflexivity|].
  unfold oracle_quiet, abstract_events in *. cbn [map forallb] in *.
  apply andb_prop in Ho. destruct Ho as [Ho1 Ho2]. rewrite (IH Ho2), andb_true_r.
  destruct ev; cbn [abstract_event] in *; try reflexivity; try exact Ho1.
  - (* metadata *)
    cbn [CL.Proofs.C02AnalyseInv.quiet_event Pev] in *. apply negb_true_iff.
    exact (bracket_tests_agree key Hev).
  - (* ingredient *)
    cbn [Pev] in Hev. destruct Hev as [H1 H2].
    cbn [CL.Proofs.C02AnalyseInv.quiet_event CL.Model.Events.pi_mods CL.Model.Events.pi_inter].
    rewrite H1, H2. reflexivity.
  - destruct (d_err d); reflexivity.
Qed.

(* both halves, with only the converter-dependent part of quietness as a hypothesis *)
Theorem pipeline_full
    (U : N -> ucls) (cfg : pcfg) (e1 e2 : N) (s : str) (evs : list pevent)
    (ci_key : str -> str) (yaml_ok : str -> bool) (find_iq : str -> option (str * str))
    (unit_class : str -> N) (input : str) (acfg : CL.Model.Analysis.acfg) (x1 x2 : CL.Model.Analysis.aext) :
  core_doc U cfg s = true ->
  events U (with_ext cfg e1) s = Done evs ->
  oracle_quiet find_iq unit_class (abstract_events evs) = true ->
  events U (with_ext cfg e2) s = Done evs
  /\ CL.Model.Analysis.analyse ci_key yaml_ok find_iq unit_class input x1 acfg (abstract_events evs)
     = CL.Model.Analysis.analyse ci_key yaml_ok find_iq unit_class input x2 acfg (abstract_events evs).
Proof.
  intros Hc He Ho. apply (pipeline_invariant U cfg e1 e2 s evs); try assumption.
  apply quiet_bridge; [exact (events_evs U cfg e1 s evs Hc He) | exact Ho].
Qed.
