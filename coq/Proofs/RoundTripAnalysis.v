(* C01, recipe level: the analysis model (Model/Analysis.v) run on the bridged events
   (Model/EventBridge.v) of a document whose projected events are the intended ones returns the
   denotation of the document (Model/Denote.v), valid, for the class [adoc_ok].
   The collector is followed event by event ([step_text], [step_igr], [step_cw], [step_tm],
   [metadata_sim]: one lemma per kind of event, for every mode the document can be in), then item by
   item ([run_items]) and block by block ([run_blocks]); the state is written out
   (notation ST: the modes of the document [mode] give the collector's define_mode / duplicate_mode). *)
From Coq Require Import ZArith Lia.
From CL Require Import Base.StrLemmas Model.Lexer Model.Parser Model.Printer Model.Denote Model.EventBridge.
From CL Require Import Proofs.RoundTrip Proofs.RoundTripSpans.
From CL Require Proofs.EditTextFrame Proofs.EditTextSim.
From CL Require Model.Events Model.Analysis.
From CL Require Proofs.ParserShape Proofs.AnalysisProofs.
Open Scope N_scope.

Module A := CL.Model.Analysis.
Module E := CL.Model.Events.

(* ---------------------------------------------------------------- what an event is, from its projection *)
Lemma proj_meta e k v : ev_proj e = SMeta k v ->
  exists tk tv, e = EvMetadata tk tv /\ text_trimmed tk = k /\ text_outer_trimmed tv = v.
Proof. destruct e; try discriminate. intros [= <- <-]. eauto. Qed.

Lemma proj_section e n : ev_proj e = SSection (Some n) -> exists tn, e = EvSection (Some tn) /\ text_trimmed tn = n.
Proof. destruct e as [| | [tn|] | | | | | | |]; try discriminate. intros [= <-]. eauto. Qed.

Lemma proj_start e b : ev_proj e = SStart b -> e = EvStart b.
Proof. destruct e; try discriminate. intros [= <-]. reflexivity. Qed.

Lemma proj_end e b : ev_proj e = SEnd b -> e = EvEnd b.
Proof. destruct e; try discriminate. intros [= <-]. reflexivity. Qed.

Lemma proj_text e s : ev_proj e = SText s -> exists t, e = EvText t /\ text_str t = s.
Proof. destruct e; try discriminate. intros [= <-]. eauto. Qed.

Lemma proj_ingredient e m it n al q nt : ev_proj e = SIngredient m it n al q nt ->
  exists i, e = EvIngredient i /\ i_mods i = m /\
    option_map (fun d => (im_relative d, im_section d, im_val d)) (i_inter i) = it /\
    text_trimmed (i_name i) = n /\ option_map text_trimmed (i_alias i) = al /\
    option_map qproj (i_qty i) = q /\ option_map text_trimmed (i_note i) = nt.
Proof. destruct e; try discriminate. intros [= <- <- <- <- <- <-]. eexists. repeat split. Qed.

Lemma proj_cookware e m n al q nt : ev_proj e = SCookware m n al q nt ->
  exists c, e = EvCookware c /\ c_mods c = m /\ text_trimmed (c_name c) = n /\
    option_map text_trimmed (c_alias c) = al /\
    option_map (fun p => qvproj (fst p)) (c_qty c) = q /\ option_map text_trimmed (c_note c) = nt.
Proof. destruct e; try discriminate. intros [= <- <- <- <- <-]. eexists. repeat split. Qed.

Lemma proj_timer e n q : ev_proj e = STimer n q ->
  exists t, e = EvTimer t /\ option_map text_trimmed (t_name t) = n /\ option_map qproj (t_qty t) = q.
Proof. destruct e; try discriminate. intros [= <- <-]. eexists. repeat split. Qed.

(* ---------------------------------------------------------------- the bridge keeps what the analysis reads *)
Lemma trimmed_abstract t : text_trimmed (abstract_text t) = text_trimmed t.
Proof. unfold text_trimmed, text_outer_trimmed. rewrite ParserShape.text_str_abstract. reflexivity. Qed.

Lemma outer_trimmed_abstract t : text_outer_trimmed (abstract_text t) = text_outer_trimmed t.
Proof. unfold text_outer_trimmed. rewrite ParserShape.text_str_abstract. reflexivity. Qed.

Lemma opt_trimmed_abstract o : option_map text_trimmed (option_map abstract_text o) = option_map text_trimmed o.
Proof. destruct o; cbn [option_map]; [rewrite trimmed_abstract|]; reflexivity. Qed.

Lemma is_text_abstract v : E.pvalue_is_text (abstract_value v) = is_text_value v.
Proof. destruct v; reflexivity. Qed.

Lemma quantity_info_abstract igr q : A.quantity_info igr (abstract_quantity q) = qinfo_of igr true (qproj q).
Proof.
  unfold A.quantity_info, A.value_info, abstract_quantity, abstract_qvalue, qproj, qinfo_of.
  cbn [E.pq_value E.pq_unit E.qv_value E.qv_lock A.qi_text A.qi_fixed]. rewrite is_text_abstract, opt_trimmed_abstract. reflexivity.
Qed.

Lemma value_info_abstract v u : A.value_info false (abstract_qvalue v) = qinfo_of false false (fst (qvproj v), snd (qvproj v), u).
Proof.
  unfold A.value_info, abstract_qvalue, qvproj, qinfo_of. cbn [E.qv_value E.qv_lock fst snd]. rewrite is_text_abstract. reflexivity.
Qed.

(* ---------------------------------------------------------------- tables *)
Definition entry_wf (n : nat) (o : A.component) : Prop :=
  match A.c_rel o with
  | A.RDef rf dis => E.m_ref (A.c_mods o) = false /\ forallb (fun k => (k <? n)%nat) rf = true
  | A.RRef _ _ => E.m_ref (A.c_mods o) = true
  end.
Definition tbl_wf (tbl : list A.component) : Prop := Forall (entry_wf (length tbl)) tbl.

Lemma entry_wf_mono n m o : (n <= m)%nat -> entry_wf n o -> entry_wf m o.
Proof.
  unfold entry_wf. intros L. destruct (A.c_rel o) as [rf dis|]; [|auto]. intros (H1 & H3). repeat split; auto.
  eapply forallb_impl; [|exact H3]. intros k Hk. cbv beta in *. apply Nat.ltb_lt in Hk. apply Nat.ltb_lt. lia.
Qed.

Lemma last_index_spec {T} (p : T -> bool) l : forall i acc,
  last_index p l i acc = match A.rposition p l with Some k => Some (i + k)%nat | None => acc end.
Proof.
  induction l as [|a r IH]; intros i acc; [reflexivity|]. cbn [last_index A.rposition]. rewrite IH.
  destruct (A.rposition p r) as [k|]; [f_equal; lia|]. destruct (p a); [f_equal; lia|reflexivity].
Qed.

Lemma rposition_ext {T} (p q : T -> bool) l : (forall a, In a l -> p a = q a) -> A.rposition p l = A.rposition q l.
Proof.
  induction l as [|a r IH]; intro H; [reflexivity|]. cbn [A.rposition].
  rewrite IH by (intros b Hb; apply H; right; exact Hb). rewrite (H a) by (left; reflexivity). reflexivity.
Qed.

Lemma entry_is_def n o : entry_wf n o -> is_def o = negb (E.m_ref (A.c_mods o)).
Proof. unfold entry_wf, is_def. destruct (A.c_rel o); [intros (-> & _); reflexivity|intros ->; reflexivity]. Qed.

Lemma same_name_find ci tbl name : tbl_wf tbl -> A.same_name ci tbl name = find_def ci tbl name.
Proof.
  intro W. unfold A.same_name, find_def. rewrite last_index_spec.
  rewrite (rposition_ext _ (fun o => is_def o && str_eqb (ci name) (ci (A.c_name o)))).
  - destruct (A.rposition _ tbl); reflexivity.
  - intros a Ha. unfold tbl_wf in W. rewrite Forall_forall in W. rewrite (entry_is_def _ a (W a Ha)). reflexivity.
Qed.

Lemma Forall_upd_nth {T} (P : T -> Prop) l : forall j x, Forall P l -> P x -> Forall P (A.upd_nth l j x).
Proof.
  induction l as [|a r IH]; intros j x H Hx; [constructor|]. inversion H; subst.
  destruct j; cbn [A.upd_nth]; constructor; auto.
Qed.

Lemma add_comp_length ci inh tbl raw : length (add_comp ci inh tbl raw) = S (length tbl).
Proof.
  unfold add_comp.
  destruct (find_def ci tbl (A.c_name raw)) as [j|]; [|rewrite app_length; cbn; lia].
  destruct (nth_error tbl j); rewrite app_length, ?AnalysisProofs.upd_nth_length; cbn; lia.
Qed.

(* what [find_def] returns is a definition of the table *)
Lemma find_def_is_def ci tbl name j def :
  find_def ci tbl name = Some j -> nth_error tbl j = Some def -> is_def def = true.
Proof.
  unfold find_def. rewrite last_index_spec. intros Ef En.
  destruct (A.rposition _ tbl) as [k|] eqn:Ep; [|discriminate]. injection Ef as <-. cbn [Nat.add] in En.
  apply AnalysisProofs.rposition_some in Ep as (a & Ha & Pa). rewrite Ha in En. injection En as <-.
  apply andb_true_iff in Pa as [Pa _]. exact Pa.
Qed.

Lemma found_ok_parts ci inh tbl raw u j :
  found_ok ci inh tbl raw u = true -> find_def ci tbl (A.c_name raw) = Some j ->
  exists def, nth_error tbl j = Some def /\ link_ok inh raw def = true.
Proof.
  unfold found_ok. intros H Ef. rewrite Ef in H. destruct (nth_error tbl j) as [def|]; [|discriminate]. eauto.
Qed.

Lemma link_ok_parts inh raw def :
  link_ok inh raw def = true ->
  A.c_note raw = None /\
  E.mods_is_empty (E.mods_diff (E.mods_diff (A.c_mods raw) (E.mods_and (A.c_mods def) inh)) E.M_ref_only) = true /\
  has_qty def && has_qty raw && negb (def_in_step def) = false.
Proof.
  unfold link_ok. intro H. apply andb_true_iff in H as [H Hq]. apply andb_true_iff in H as [Hn Hc].
  apply negb_true in Hq. repeat split; auto. destruct (A.c_note raw); [discriminate|reflexivity].
Qed.

Lemma add_comp_wf ci inh tbl raw dis :
  tbl_wf tbl -> A.c_rel raw = A.RDef [] dis ->
  (match find_def ci tbl (A.c_name raw) with
   | Some j => exists def, nth_error tbl j = Some def
   | None => E.m_ref (A.c_mods raw) = false
   end) ->
  tbl_wf (add_comp ci inh tbl raw).
Proof.
  intros W Hrel Hf. unfold tbl_wf. rewrite add_comp_length. unfold add_comp.
  assert (Wm : Forall (entry_wf (S (length tbl))) tbl).
  { eapply Forall_impl; [|exact W]. intros a. apply entry_wf_mono. lia. }
  destruct (find_def ci tbl (A.c_name raw)) as [j|] eqn:Ef.
  - destruct Hf as (def & En). rewrite En.
    apply Forall_app. split.
    + apply Forall_upd_nth; [exact Wm|].
      assert (Hd : entry_wf (length tbl) def).
      { unfold tbl_wf in W. rewrite Forall_forall in W. apply W. eapply nth_error_In. exact En. }
      unfold add_backlink, entry_wf in *. destruct (A.c_rel def) as [rf dis0|] eqn:Erel.
      * destruct Hd as (H1 & H3). unfold A.set_rel. cbn [A.c_rel A.c_mods]. repeat split; auto.
        rewrite forallb_app. cbn [forallb]. rewrite andb_true_r. apply andb_true_iff. split.
        -- eapply forallb_impl; [|exact H3]. intros k Hk. cbv beta in *. apply Nat.ltb_lt in Hk. apply Nat.ltb_lt. lia.
        -- apply Nat.ltb_lt. lia.
      * rewrite Erel. exact Hd.
    + constructor; [|constructor]. unfold as_reference, entry_wf, A.set_mods_rel. cbn [A.c_rel A.c_mods].
      unfold E.mods_or, E.mods_map2, E.M_ref_only. cbn [E.m_ref]. apply orb_true_r.
  - apply Forall_app. split; [exact Wm|]. constructor; [|constructor].
    unfold entry_wf. rewrite Hrel. repeat split; auto.
Qed.

Lemma add_entry_length ci inh tbl e : length (add_entry ci inh tbl e) = S (length tbl).
Proof. unfold add_entry. destruct (tag_of e); try (rewrite app_length; cbn; lia); apply add_comp_length. Qed.

Lemma table_length ci inh es : forall tbl, length (table ci inh tbl es) = (length tbl + length es)%nat.
Proof.
  induction es as [|r rs IH]; intro tbl; cbn [table fold_left length]; [lia|].
  fold (table ci inh (add_entry ci inh tbl r) rs). rewrite IH, add_entry_length. lia.
Qed.

(* the two shapes of an entry: intermediate reference (a REF-modified entry with a Step/Section relation),
   or a fresh entry whose references are still to be resolved *)
Definition entry_shape (e : entry) : Prop :=
  if en_inter e
  then match A.c_rel (en_comp e) with A.RRef _ _ => True | A.RDef _ _ => False end /\ E.m_ref (A.c_mods (en_comp e)) = true
  else exists dis, A.c_rel (en_comp e) = A.RDef [] dis.

(* the tag of a fresh entry, by cases on what is written and the modes *)
Lemma tag_cases e :
  en_inter e = false ->
  let ms := A.c_mods (en_comp e) in
  (tag_of e = TDef /\ E.m_new ms = true) \/
  (tag_of e = TRef /\ E.m_new ms = false /\ E.m_ref ms || in_steps (en_mode e) = true) \/
  (tag_of e = TDup /\ E.m_new ms = false /\ E.m_ref ms = false /\ in_steps (en_mode e) = false /\ md_dupref (en_mode e) = true) \/
  (tag_of e = TDef /\ E.m_new ms = false /\ E.m_ref ms = false /\ in_steps (en_mode e) = false /\ md_dupref (en_mode e) = false).
Proof.
  intro Hi. cbv zeta. unfold tag_of. rewrite Hi.
  destruct (E.m_new (A.c_mods (en_comp e))); [left; auto|].
  destruct (E.m_ref (A.c_mods (en_comp e))); cbn [orb]; [right; left; auto|].
  destruct (in_steps (en_mode e)); [right; left; auto|].
  destruct (md_dupref (en_mode e)); [right; right; left; repeat split; auto|right; right; right; repeat split; auto].
Qed.

Lemma add_entry_wf ci inh tbl e :
  tbl_wf tbl -> entry_shape e -> entry_ok ci inh tbl e = true -> tbl_wf (add_entry ci inh tbl e).
Proof.
  intros W Hs Hok. unfold entry_shape in Hs. destruct (en_inter e) eqn:Hi.
  - unfold add_entry, tag_of. rewrite Hi. destruct Hs as [Hr Hm].
    unfold tbl_wf. rewrite app_length. cbn [length]. rewrite Nat.add_1_r. apply Forall_app; split.
    + eapply Forall_impl; [|exact W]. intros a. apply entry_wf_mono. lia.
    + constructor; [|constructor]. unfold entry_wf. destruct (A.c_rel (en_comp e)); [contradiction|exact Hm].
  - destruct Hs as (dis & Hrel).
    assert (Happ : E.m_ref (A.c_mods (en_comp e)) = false -> tbl_wf (tbl ++ [en_comp e])).
    { intro Hm. unfold tbl_wf. rewrite app_length. cbn [length]. rewrite Nat.add_1_r. apply Forall_app; split.
      - eapply Forall_impl; [|exact W]. intros a. apply entry_wf_mono. lia.
      - constructor; [|constructor]. unfold entry_wf. rewrite Hrel. auto. }
    unfold entry_ok in Hok. unfold add_entry.
    destruct (tag_cases e Hi) as [(Ht & Hn)|[(Ht & Hn & Hr)|[(Ht & Hn & Hr & Hst & Hdu)|(Ht & Hn & Hr & Hst & Hdu)]]];
      cbv zeta in *; rewrite Ht in *.
    + apply Happ. rewrite Hn in Hok. cbn [andb] in Hok. apply negb_true in Hok. exact Hok.
    + apply (add_comp_wf ci inh tbl (en_comp e) dis W Hrel). unfold found_ok in Hok.
      destruct (find_def ci tbl (A.c_name (en_comp e))) as [j|]; [|discriminate].
      destruct (nth_error tbl j) as [def|]; [eauto|discriminate].
    + apply (add_comp_wf ci inh tbl (en_comp e) dis W Hrel). unfold found_ok in Hok.
      destruct (find_def ci tbl (A.c_name (en_comp e))) as [j|]; [|exact Hr].
      destruct (nth_error tbl j) as [def|]; [eauto|discriminate].
    + apply Happ. exact Hr.
Qed.

Lemma to_nat_of_N n : Z.to_nat (Z.of_N n) = N.to_nat n.
Proof. rewrite <- (N2Z.id n) at 2. rewrite Z_N_nat. reflexivity. Qed.

Lemma positions_indices l : forall i, A.step_indices_from i l = positions i (map A.is_step l).
Proof. induction l as [|c r IH]; intro i; [reflexivity|]. cbn [A.step_indices_from map positions]. rewrite IH. reflexivity. Qed.

Lemma is_some_map {T S} (f : T -> S) o : E.is_some (option_map f o) = E.is_some o.
Proof. destruct o; reflexivity. Qed.

(* ---------------------------------------------------------------- the component functions *)
(* the records the bridge builds *)
Definition abs_igr (i : ingredient) : E.p_ingredient :=
  {| E.pi_span := i_span i; E.pi_mods := E.mods_of_bits (i_mods i);
     E.pi_inter := option_map abstract_inter (i_inter i);
     E.pi_name := abstract_text (i_name i); E.pi_alias := option_map abstract_text (i_alias i);
     E.pi_quantity := option_map abstract_quantity (i_qty i); E.pi_note := option_map abstract_text (i_note i) |}.
Definition abs_cw (c : cookware) : E.p_cookware :=
  {| E.pc_span := c_span c; E.pc_mods := E.mods_of_bits (c_mods c);
     E.pc_name := abstract_text (c_name c); E.pc_alias := option_map abstract_text (c_alias c);
     E.pc_quantity := option_map (fun q => abstract_qvalue (fst q)) (c_qty c);
     E.pc_note := option_map abstract_text (c_note c) |}.
Definition abs_tm (t : timer) : E.p_timer :=
  {| E.pt_span := t_span t; E.pt_name := option_map abstract_text (t_name t);
     E.pt_quantity := option_map abstract_quantity (t_qty t) |}.

(* the entry the collector builds before resolving references; [dis]: "defined in a step" *)
Definition igr_new (dis : bool) (ig : E.p_ingredient) : A.component :=
  let name0 := text_trimmed (E.pi_name ig) in
  let isp := A.is_path_name name0 in
  {| A.c_name := if isp then A.last_segment name0 [] else name0;
     A.c_alias := option_map text_trimmed (E.pi_alias ig);
     A.c_qty := option_map (A.quantity_info true) (E.pi_quantity ig);
     A.c_note := option_map text_trimmed (E.pi_note ig); A.c_rref := isp;
     A.c_mods := E.pi_mods ig; A.c_rel := A.RDef [] dis |}.
Definition cw_new (dis : bool) (cw : E.p_cookware) : A.component :=
  {| A.c_name := text_trimmed (E.pc_name cw); A.c_alias := option_map text_trimmed (E.pc_alias cw);
     A.c_qty := option_map (A.value_info false) (E.pc_quantity cw);
     A.c_note := option_map text_trimmed (E.pc_note cw); A.c_rref := false;
     A.c_mods := E.pc_mods cw; A.c_rel := A.RDef [] dis |}.

Lemma igr_new_raw m i c :
  cs_kind c = CIgr -> ev_proj (EvIngredient i) = denote_comp c -> igr_new (negb (in_components m)) (abs_igr i) = raw_comp m c.
Proof.
  intros Hk H. unfold denote_comp in H. rewrite Hk in H. cbn [ev_proj] in H.
  injection H as Hm Hi Hn Ha Hq Hnt.
  unfold igr_new, raw_comp, abs_igr, is_igr, cs_mod_set. rewrite Hk. cbv zeta.
  cbn [E.pi_name E.pi_alias E.pi_quantity E.pi_note E.pi_mods andb].
  rewrite trimmed_abstract, Hn, !opt_trimmed_abstract, Ha, Hnt, Hm. f_equal.
  rewrite <- Hq. destruct (i_qty i); cbn [option_map]; [rewrite quantity_info_abstract|]; reflexivity.
Qed.

Lemma cw_new_raw m cw c :
  cs_kind c = CCw -> ev_proj (EvCookware cw) = denote_comp c -> cw_new (negb (in_components m)) (abs_cw cw) = raw_comp m c.
Proof.
  intros Hk H. unfold denote_comp in H. rewrite Hk in H. cbn [ev_proj] in H.
  injection H as Hm Hn Ha Hq Hnt.
  unfold cw_new, raw_comp, abs_cw, is_igr, cs_mod_set. rewrite Hk. cbv zeta.
  cbn [E.pc_name E.pc_alias E.pc_quantity E.pc_note E.pc_mods andb].
  rewrite trimmed_abstract, Hn, !opt_trimmed_abstract, Ha, Hnt, Hm. f_equal.
  destruct (c_qty cw) as [[v sp]|], (denote_cqty (cs_body c)) as [[[v' l'] u']|]; cbn [option_map fst snd] in Hq |- *; try discriminate; [|reflexivity].
  injection Hq as Hq Hl. rewrite (value_info_abstract v u'). unfold qvproj. cbn [fst snd]. rewrite Hq, Hl. reflexivity.
Qed.

(* the copy of a printed component without its comments is the component without its comment tokens *)
Definition strips (d : list block) : Prop :=
  forall c, In c (flat_map block_comps d) -> A.strip_comments (unlex (print_comp c)) = written (print_comp c).

(* the collector's two mode fields for the modes of the document *)
Definition dup_of (b : bool) : A.duplicate_mode := if b then A.DupReference else A.DupNew.

Lemma dup_is_ref_of b : A.dup_is_ref (dup_of b) = b.
Proof. destruct b; reflexivity. Qed.
Lemma dm_steps m : A.dm_eqb (md_define m) A.DMSteps = in_steps m.
Proof. unfold in_steps. destruct (md_define m); reflexivity. Qed.
Lemma dm_components m : A.dm_eqb (md_define m) A.DMComponents = in_components m.
Proof. unfold in_components. destruct (md_define m); reflexivity. Qed.
Lemma dm_text m : A.dm_eqb (md_define m) A.DMText = in_text_mode m.
Proof. unfold in_text_mode. destruct (md_define m); reflexivity. Qed.

Section Sim.
  Variable ci : str -> str.
  Variable yaml_ok : str -> bool.
  Variable find_iq : str -> option (str * str).
  Variable unit_class : str -> N.
  Variable input : str.
  Variable x : A.aext.

  (* resolve_reference on a well-formed occurrence: what it returns, by tag *)
  Lemma resolve_spec (s : A.astate) tbl inh e :
    A.a_define s = md_define (en_mode e) -> A.a_duplicate s = dup_of (md_dupref (en_mode e)) ->
    en_inter e = false -> tbl_wf tbl -> entry_ok ci inh tbl e = true ->
    (A.resolve_reference ci s tbl inh (en_comp e) = Done {| A.rs_new := en_comp e; A.rs_target := None; A.rs_err := false |} /\
     add_entry ci inh tbl e = tbl ++ [en_comp e]) \/
    (exists j def rf dis,
       find_def ci tbl (A.c_name (en_comp e)) = Some j /\ nth_error tbl j = Some def /\ link_ok inh (en_comp e) def = true /\
       A.c_rel def = A.RDef rf dis /\ forallb (fun k => (k <? length tbl)%nat) rf = true /\
       A.resolve_reference ci s tbl inh (en_comp e)
       = Done {| A.rs_new := as_reference inh (en_comp e) def j;
                 A.rs_target := Some (j, negb (E.m_ref (A.c_mods (en_comp e)))); A.rs_err := false |} /\
       add_entry ci inh tbl e = A.upd_nth tbl j (add_backlink def (length tbl)) ++ [as_reference inh (en_comp e) def j] /\
       (tag_of e = TRef \/ tag_of e = TDup)).
  Proof.
    intros Hd Hu Hi W Hok. unfold A.resolve_reference. rewrite Hd, Hu, dm_steps, dup_is_ref_of, (same_name_find ci tbl _ W).
    set (new := en_comp e) in *.
    assert (Hfound : forall j u, found_ok ci inh tbl new u = true -> find_def ci tbl (A.c_name new) = Some j ->
              E.m_new (A.c_mods new) = false ->
              E.m_ref (A.c_mods new) || in_steps (en_mode e) || md_dupref (en_mode e) && true = true ->
              add_entry ci inh tbl e = add_comp ci inh tbl new ->
              exists def rf dis,
                nth_error tbl j = Some def /\ link_ok inh new def = true /\
                A.c_rel def = A.RDef rf dis /\ forallb (fun k => (k <? length tbl)%nat) rf = true /\
                (if E.m_new (A.c_mods new) && E.m_ref (A.c_mods new)
                 then Done {| A.rs_new := new; A.rs_target := None; A.rs_err := true |}
                 else if E.m_new (A.c_mods new) then Done {| A.rs_new := new; A.rs_target := None; A.rs_err := false |}
                 else if negb (E.m_ref (A.c_mods new) || in_steps (en_mode e) || md_dupref (en_mode e) && E.is_some (Some j))
                 then Done {| A.rs_new := new; A.rs_target := None; A.rs_err := false |}
                 else match nth_error tbl j with
                      | None => Panic A.site_index_definition
                      | Some referenced =>
                          if E.m_ref (A.c_mods referenced) then Panic A.site_assert_target_not_ref else
                          Done {| A.rs_new := A.set_mods_rel new (E.mods_or (E.mods_or (A.c_mods new) (E.mods_and (A.c_mods referenced) inh)) E.M_ref_only)
                                               (A.RRef j A.TgComponent);
                                  A.rs_target := Some (j, negb (E.m_ref (A.c_mods new)));
                                  A.rs_err := negb (E.mods_is_empty (E.mods_diff (E.mods_diff (A.c_mods new) (E.mods_and (A.c_mods referenced) inh)) E.M_ref_only)) |}
                      end)
                = Done {| A.rs_new := as_reference inh new def j; A.rs_target := Some (j, negb (E.m_ref (A.c_mods new))); A.rs_err := false |} /\
                add_entry ci inh tbl e = A.upd_nth tbl j (add_backlink def (length tbl)) ++ [as_reference inh new def j]).
    { intros j u Hf Ef Hn Htreat Hadd. destruct (found_ok_parts ci inh tbl new u j Hf Ef) as (def & En & Hl).
      destruct (link_ok_parts inh new def Hl) as (_ & Hc & _).
      pose proof (find_def_is_def ci tbl _ j def Ef En) as Hdef.
      assert (Hw : entry_wf (length tbl) def).
      { unfold tbl_wf in W. rewrite Forall_forall in W. apply W. eapply nth_error_In. exact En. }
      unfold is_def in Hdef. unfold entry_wf in Hw. destruct (A.c_rel def) as [rf dis|] eqn:Erel; [|discriminate].
      destruct Hw as (Hmr & Hrf). exists def, rf, dis. repeat split; auto.
      - rewrite Hn. cbn [andb E.is_some] in Htreat |- *. rewrite Htreat. cbn [negb]. rewrite En, Hmr, Hc. reflexivity.
      - rewrite Hadd. unfold add_comp. rewrite Ef, En. reflexivity. }
    unfold entry_ok in Hok. unfold add_entry at 1.
    destruct (tag_cases e Hi) as [(Ht & Hn)|[(Ht & Hn & Hr)|[(Ht & Hn & Hr & Hst & Hdu)|(Ht & Hn & Hr & Hst & Hdu)]]];
      cbv zeta in *; fold new in Hn, Hok |- *; try fold new in Hr; rewrite Ht in Hok.
    - left. rewrite Ht. rewrite Hn in Hok |- *. cbn [andb] in Hok |- *. apply negb_true in Hok. rewrite Hok. auto.
    - right. pose proof Hok as Hok'. unfold found_ok in Hok'.
      destruct (find_def ci tbl (A.c_name new)) as [j|] eqn:Ef; [|discriminate]. clear Hok'.
      assert (Hadd : add_entry ci inh tbl e = add_comp ci inh tbl new) by (unfold add_entry; rewrite Ht; reflexivity).
      assert (Htreat : E.m_ref (A.c_mods new) || in_steps (en_mode e) || md_dupref (en_mode e) && true = true) by (rewrite Hr; reflexivity).
      destruct (Hfound j false Hok eq_refl Hn Htreat Hadd) as (def & rf & dis & H1 & H2 & H3 & H4 & H5 & H6).
      exists j, def, rf, dis. repeat split; auto.
    - pose proof Hok as Hok'. unfold found_ok in Hok'.
      destruct (find_def ci tbl (A.c_name new)) as [j|] eqn:Ef.
      + right. clear Hok'.
        assert (Hadd : add_entry ci inh tbl e = add_comp ci inh tbl new) by (unfold add_entry; rewrite Ht; reflexivity).
        assert (Htreat : E.m_ref (A.c_mods new) || in_steps (en_mode e) || md_dupref (en_mode e) && true = true) by (rewrite Hdu, orb_true_r; reflexivity).
        destruct (Hfound j true Hok eq_refl Hn Htreat Hadd) as (def & rf & dis & H1 & H2 & H3 & H4 & H5 & H6).
        exists j, def, rf, dis. repeat split; auto.
      + left. rewrite Ht, Hn, Hr, Hst, Hdu. cbn [andb orb negb E.is_some]. split; [reflexivity|].
        unfold add_comp. rewrite Ef. reflexivity.
    - left. rewrite Ht, Hn, Hr, Hst, Hdu. cbn [andb orb negb]. auto.
  Qed.

  Lemma resolve_link {T} (s : A.astate) tbl inh e hn ul (K : list A.component -> bool -> outcome T) :
    A.a_define s = md_define (en_mode e) -> A.a_duplicate s = dup_of (md_dupref (en_mode e)) ->
    en_inter e = false -> tbl_wf tbl -> entry_ok ci inh tbl e = true -> hn = E.is_some (A.c_note (en_comp e)) ->
    obind (A.resolve_reference ci s tbl inh (en_comp e)) (fun r =>
      match A.rs_target r with
      | Some (j, _) =>
          obind (A.link_reference tbl (A.rs_new r) j hn ul) (fun te =>
            let (tbl', e) := te in K (tbl' ++ [A.rs_new r]) (A.rs_err r || e))
      | None => K (tbl ++ [A.rs_new r]) (A.rs_err r)
      end) = K (add_entry ci inh tbl e) false.
  Proof.
    intros Hd Hu Hi W Hok Hhn.
    destruct (resolve_spec s tbl inh e Hd Hu Hi W Hok) as [(Hr & Ha)|(j & def & rf & dis & Ef & En & Hl & Erel & Hrf & Hr & Ha & _)];
      rewrite Hr, Ha; cbn [obind A.rs_target A.rs_new A.rs_err]; [reflexivity|].
    destruct (link_ok_parts inh _ def Hl) as (Hnote & _ & Hq).
    unfold A.link_reference. rewrite En, Erel, Hrf. cbn [negb andb]. rewrite !andb_false_r.
    rewrite Hhn, Hnote. cbn [E.is_some orb obind].
    change (A.c_qty (as_reference inh (en_comp e) def j)) with (A.c_qty (en_comp e)).
    unfold has_qty, def_in_step in Hq. rewrite Erel in Hq. rewrite Hq. cbn [obind orb].
    unfold add_backlink. rewrite Erel. reflexivity.
  Qed.

  Definition igr_cont (s : A.astate) (ig : E.p_ingredient) (r : A.resolved) : outcome (A.astate * nat) :=
    let tbl := A.a_ingredients s in
    match A.rs_target r with
    | Some (j, _) =>
        obind (A.link_reference tbl (A.rs_new r) j (E.is_some (E.pi_note ig)) (A.x_advanced x)) (fun te =>
          let (tbl', e) := te in
          Done (A.add_error (A.set_ingredients s (tbl' ++ [A.rs_new r])) (A.rs_err r || e), length tbl))
    | None => Done (A.add_error (A.set_ingredients s (tbl ++ [A.rs_new r])) (A.rs_err r), length tbl)
    end.

  Definition dis_of (s : A.astate) : bool := negb (A.dm_eqb (A.a_define s) A.DMComponents).

  Lemma ingredient_unfold s ig :
    E.pi_inter ig = None ->
    A.ingredient ci x s ig = obind (A.resolve_reference ci s (A.a_ingredients s) A.inherit_ingredient (igr_new (dis_of s) ig)) (igr_cont s ig).
  Proof. intros Hi. unfold A.ingredient, igr_new, igr_cont, dis_of. rewrite Hi. reflexivity. Qed.

  Lemma ingredient_sim s ig e :
    A.a_define s = md_define (en_mode e) -> A.a_duplicate s = dup_of (md_dupref (en_mode e)) ->
    E.pi_inter ig = None -> en_inter e = false -> en_comp e = igr_new (dis_of s) ig ->
    tbl_wf (A.a_ingredients s) -> entry_ok ci inherit_igr (A.a_ingredients s) e = true ->
    A.ingredient ci x s ig
    = Done (A.add_error (A.set_ingredients s (add_entry ci inherit_igr (A.a_ingredients s) e)) false,
            length (A.a_ingredients s)).
  Proof.
    intros Hd Hu Hi Hei Hec W Hok. rewrite (ingredient_unfold s ig Hi), <- Hec. unfold igr_cont.
    apply (resolve_link s (A.a_ingredients s) A.inherit_ingredient e (E.is_some (E.pi_note ig)) (A.x_advanced x)
             (fun t er => Done (A.add_error (A.set_ingredients s t) er, length (A.a_ingredients s))) Hd Hu Hei W Hok).
    rewrite Hec. unfold igr_new. cbn [A.c_note]. rewrite is_some_map. reflexivity.
  Qed.

  Lemma ingredient_unfold_inter s ig d :
    E.pi_inter ig = Some d ->
    A.ingredient ci x s ig
    = if negb (E.m_ref (A.c_mods (igr_new (dis_of s) ig))) then Panic A.site_inter_without_ref else
      obind (A.resolve_intermediate_ref s d) (fun r =>
        let (new', e2) := match r with
                          | Some rel => (A.set_rel (igr_new (dis_of s) ig) rel, false)
                          | None => (igr_new (dis_of s) ig, true)
                          end in
        Done (A.add_error (A.set_ingredients s (A.a_ingredients s ++ [new']))
                (E.mods_intersects (A.c_mods (igr_new (dis_of s) ig)) A.inter_invalid || e2), length (A.a_ingredients s))).
  Proof. intros Hi. unfold A.ingredient, igr_new, dis_of. rewrite Hi. reflexivity. Qed.

  Lemma ingredient_inter_sim s ig d rel :
    E.pi_inter ig = Some d ->
    E.m_ref (A.c_mods (igr_new (dis_of s) ig)) = true -> E.mods_intersects (A.c_mods (igr_new (dis_of s) ig)) A.inter_invalid = false ->
    A.resolve_intermediate_ref s d = Done (Some rel) ->
    A.ingredient ci x s ig
    = Done (A.add_error (A.set_ingredients s (A.a_ingredients s ++ [A.set_rel (igr_new (dis_of s) ig) rel])) false,
            length (A.a_ingredients s)).
  Proof.
    intros Hi Hm He Hr. rewrite (ingredient_unfold_inter s ig d Hi), Hm, Hr. cbn [negb obind]. rewrite He. reflexivity.
  Qed.

  Lemma resolve_inter_sim s idata k :
    ic_kinds k = map A.is_step (A.sec_content (A.a_cur s)) -> ic_nsecs k = length (A.a_sections s) ->
    A.resolve_intermediate_ref s (abstract_inter idata)
    = Done (inter_rel k (im_relative idata) (im_section idata) (im_val idata)).
  Proof.
    intros Hk Hn. unfold A.resolve_intermediate_ref, abstract_inter, inter_rel. cbn [E.ir_val E.ir_kind E.ir_mode].
    destruct (Z.ltb_spec (Z.of_N (im_val idata)) 0) as [L|_]; [lia|]. rewrite to_nat_of_N.
    destruct (N.to_nat (im_val idata)) as [|v1]; [reflexivity|].
    rewrite Hk, Hn. unfold A.step_indices. rewrite positions_indices.
    destruct (im_section idata), (im_relative idata).
    - destruct (length (A.a_sections s) <? S v1)%nat; reflexivity.
    - destruct (length (A.a_sections s) <=? v1)%nat; reflexivity.
    - destruct (nth_error (rev (positions 0 (map A.is_step (A.sec_content (A.a_cur s))))) v1); reflexivity.
    - destruct (nth_error (positions 0 (map A.is_step (A.sec_content (A.a_cur s)))) v1); reflexivity.
  Qed.

  Lemma cookware_sim s cw e :
    A.a_define s = md_define (en_mode e) -> A.a_duplicate s = dup_of (md_dupref (en_mode e)) ->
    en_inter e = false -> en_comp e = cw_new (dis_of s) cw ->
    tbl_wf (A.a_cookware s) -> entry_ok ci inherit_cw (A.a_cookware s) e = true ->
    A.cookware ci s cw
    = Done (A.add_error (A.set_cookware s (add_entry ci inherit_cw (A.a_cookware s) e)) false,
            length (A.a_cookware s)).
  Proof.
    intros Hd Hu Hei Hec W Hok.
    transitivity (obind (A.resolve_reference ci s (A.a_cookware s) A.inherit_cookware (cw_new (dis_of s) cw)) (fun r =>
      match A.rs_target r with
      | Some (j, _) =>
          obind (A.link_reference (A.a_cookware s) (A.rs_new r) j (E.is_some (E.pc_note cw)) false) (fun te =>
            let (tbl', e) := te in
            Done (A.add_error (A.set_cookware s (tbl' ++ [A.rs_new r])) (A.rs_err r || e), length (A.a_cookware s)))
      | None => Done (A.add_error (A.set_cookware s (A.a_cookware s ++ [A.rs_new r])) (A.rs_err r), length (A.a_cookware s))
      end)).
    { unfold A.cookware, cw_new, dis_of. reflexivity. }
    rewrite <- Hec.
    apply (resolve_link s (A.a_cookware s) A.inherit_cookware e (E.is_some (E.pc_note cw)) false
             (fun t er => Done (A.add_error (A.set_cookware s t) er, length (A.a_cookware s))) Hd Hu Hei W Hok).
    rewrite Hec. unfold cw_new. cbn [A.c_note]. rewrite is_some_map. reflexivity.
  Qed.
End Sim.

Ltac aproj := cbn [A.a_sections A.a_cur A.a_ingredients A.a_cookware A.a_timers A.a_inline A.a_define A.a_duplicate
                   A.a_block A.a_counter A.a_errors A.a_halted].
Ltac asetters := unfold A.set_block, A.add_error, A.set_modes, A.set_halted, A.set_sections, A.set_ingredients,
                   A.set_cookware, A.set_timers, A.set_inline; aproj.

Lemma step_items_text fi inl t r k :
  step_items fi inl (IText t :: r) k
  = (fst (text_items fi inl (toks_text t) (n_q k)) ++
       fst (step_items fi inl r {| n_i := n_i k; n_c := n_c k; n_t := n_t k; n_q := snd (text_items fi inl (toks_text t) (n_q k)) |}),
     snd (step_items fi inl r {| n_i := n_i k; n_c := n_c k; n_t := n_t k; n_q := snd (text_items fi inl (toks_text t) (n_q k)) |})).
Proof.
  cbn [step_items]. destruct (text_items fi inl (toks_text t) (n_q k)) as [its1 q]. cbn [fst snd].
  destruct (step_items fi inl r _); reflexivity.
Qed.

Lemma step_items_comp fi inl c r k :
  step_items fi inl (IComp c :: r) k
  = (fst (comp_item c k) :: fst (step_items fi inl r (snd (comp_item c k))), snd (step_items fi inl r (snd (comp_item c k)))).
Proof. cbn [step_items]. destruct (comp_item c k) as [it k1]. cbn [fst snd]. destruct (step_items fi inl r k1); reflexivity. Qed.

(* the items a step block accumulates: in components mode ([cm]) its text pieces are skipped *)
Fixpoint mitems (fi : str -> option (str * str)) (inl cm : bool) (l : list item) (k : cnt) : list A.item * cnt :=
  match l with
  | [] => ([], k)
  | IText t :: r =>
      if cm then mitems fi inl cm r k
      else let ti := text_items fi inl (toks_text t) (n_q k) in
           let rr := mitems fi inl cm r {| n_i := n_i k; n_c := n_c k; n_t := n_t k; n_q := snd ti |} in
           (fst ti ++ fst rr, snd rr)
  | IComp c :: r =>
      let rr := mitems fi inl cm r (snd (comp_item c k)) in (fst (comp_item c k) :: fst rr, snd rr)
  end.

Lemma mitems_step fi inl l : forall k, mitems fi inl false l k = step_items fi inl l k.
Proof.
  induction l as [|[t|c] r IH]; intro k; [reflexivity| |].
  - rewrite step_items_text. cbn [mitems]. rewrite IH. reflexivity.
  - rewrite step_items_comp. cbn [mitems]. rewrite IH. reflexivity.
Qed.

Lemma mitems_comps fi inl l : forall k, snd (mitems fi inl true l k) = comps_cnt l k.
Proof.
  unfold comps_cnt. induction l as [|[t|c] r IH]; intro k; [reflexivity| |].
  - cbn [mitems item_comps flat_map app]. apply IH.
  - cbn [mitems item_comps flat_map app fold_left snd]. apply IH.
Qed.

Lemma mitems_counts fi inl cm l : forall k,
  n_i (snd (mitems fi inl cm l k)) = (n_i k + length (filter is_igr (item_comps l)))%nat /\
  n_c (snd (mitems fi inl cm l k)) = (n_c k + length (filter is_cw (item_comps l)))%nat /\
  n_t (snd (mitems fi inl cm l k)) = (n_t k + length (filter is_tm (item_comps l)))%nat /\
  (cm = true -> n_q (snd (mitems fi inl cm l k)) = n_q k).
Proof.
  induction l as [|[t|c] r IH]; intro k.
  - cbn. repeat split; lia.
  - cbn [mitems item_comps flat_map app]. fold (item_comps r). destruct cm.
    + apply IH.
    + cbn [snd]. destruct (IH {| n_i := n_i k; n_c := n_c k; n_t := n_t k;
                                 n_q := snd (text_items fi inl (toks_text t) (n_q k)) |}) as (H1 & H2 & H3 & _).
      cbn [n_i n_c n_t] in H1, H2, H3. repeat split; auto. discriminate.
  - cbn [mitems snd]. destruct (IH (snd (comp_item c k))) as (H1 & H2 & H3 & H4).
    cbn [item_comps flat_map app filter]. fold (item_comps r). rewrite H1, H2, H3.
    unfold comp_item, is_igr, is_cw, is_tm in *. destruct (cs_kind c); cbn [snd n_i n_c n_t n_q length] in *; repeat split; try lia; exact H4.
Qed.

(* the inline-quantity loop of in_step is [iq_split] *)
Lemma split_iq_spec fi fuel : forall hay n its n' acc,
  iq_split fi fuel hay n = Some (its, n') -> A.split_iq fi fuel hay acc n = Done (acc ++ its, n').
Proof.
  induction fuel as [|f IH]; intros hay n its n' acc H; cbn [iq_split A.split_iq] in *.
  - destruct (fi hay) as [[before after]|]; [discriminate|]. injection H as <- <-.
    destruct hay; cbn [E.is_nil is_nil]; [rewrite app_nil_r|]; reflexivity.
  - destruct (fi hay) as [[before after]|].
    + destruct (iq_split fi f after (S n)) as [[its0 n0]|] eqn:E0; [|discriminate]. injection H as <- <-.
      rewrite (IH after (S n) its0 n0 _ E0). destruct before; cbn [E.is_nil is_nil app]; rewrite <- !app_assoc; reflexivity.
    + injection H as <- <-. destruct hay; cbn [E.is_nil is_nil]; [rewrite app_nil_r|]; reflexivity.
Qed.

Lemma iq_split_some fi fuel : forall hay n m,
  E.is_some (iq_split fi fuel hay n) = E.is_some (iq_split fi fuel hay m).
Proof.
  induction fuel as [|f IH]; intros hay n m; cbn [iq_split].
  - destruct (fi hay) as [[b a]|]; reflexivity.
  - destruct (fi hay) as [[b a]|]; [|reflexivity]. specialize (IH a (S n) (S m)).
    destruct (iq_split fi f a (S n)) as [[? ?]|], (iq_split fi f a (S m)) as [[? ?]|]; try discriminate; reflexivity.
Qed.

Lemma iq_split_ne fi fuel : forall hay n its n', hay <> [] -> iq_split fi fuel hay n = Some (its, n') -> its <> [].
Proof.
  destruct fuel as [|f]; intros hay n its n' Hne H; cbn [iq_split] in H.
  - destruct (fi hay) as [[b a]|]; [discriminate|]. injection H as <- _. destruct hay; [contradiction|discriminate].
  - destruct (fi hay) as [[b a]|].
    + destruct (iq_split fi f a (S n)) as [[its0 n0]|]; [|discriminate]. injection H as <- _. destruct b; discriminate.
    + injection H as <- _. destruct hay; [contradiction|discriminate].
Qed.

(* a `>>` entry as the collector reads it and as the document says it ([config_of]) *)
Lemma bracketed_split k :
  (match k with c :: _ => c =? 91 | [] => false end) && (match rev k with c :: _ => c =? 93 | [] => false end) = bracketed k.
Proof.
  unfold bracketed. destruct k as [|c r]; [reflexivity|]. destruct (rev (c :: r)) as [|e0 r0]; [apply andb_false_r|reflexivity].
Qed.

Lemma one_of_2 s a b : one_of s [a; b] = str_eqb s a || str_eqb s b.
Proof. unfold one_of. cbn [existsb]. rewrite orb_false_r. reflexivity. Qed.

Section Run.
  Variable ci : str -> str.
  Variable yaml_ok : str -> bool.
  Variable find_iq : str -> option (str * str).
  Variable unit_class : str -> N.
  Variable input : str.
  Variable x : A.aext.

  Local Notation stepF := (A.step ci yaml_ok find_iq unit_class input x A.cfgF).
  Local Notation runF := (A.run ci yaml_ok find_iq unit_class input x A.cfgF).
  Local Notation ST m secs cur igs cws tms inl blk cnt err :=
    (A.Build_astate secs cur igs cws tms inl (md_define m) (dup_of (md_dupref m)) blk cnt err false).

  Lemma run_app a : forall s b, runF s (a ++ b) = obind (runF s a) (fun s' => runF s' b).
  Proof.
    induction a as [|e a IH]; intros s b; [reflexivity|]. cbn [app A.run].
    destruct (stepF s e) as [s1|p]; cbn [obind]; [apply IH|reflexivity].
  Qed.

  (* a mode switch: the collector's metadata function follows [next_mode] *)
  Lemma metadata_sim m secs cur igs cws tms inl blk cnt err tk tv key v :
    text_trimmed tk = clean (toks_text key) -> text_outer_trimmed tv = trim (toks_text v) ->
    config_ok x (BkMeta key v) = true ->
    A.metadata x (ST m secs cur igs cws tms inl blk cnt err) (abstract_text tk) (abstract_text tv)
    = ST (next_mode (A.x_modes x) m (BkMeta key v)) secs cur igs cws tms inl blk cnt err.
  Proof.
    intros Hk Hv Hok. unfold A.metadata, next_mode, config_ok in *. rewrite trimmed_abstract, outer_trimmed_abstract, Hk, Hv.
    rewrite <- andb_assoc, bracketed_split. cbn [block_config] in *.
    destruct (A.x_modes x); cbn [negb orb andb] in *; [|reflexivity].
    unfold config_of in *. destruct (bracketed (clean (toks_text key))); [|reflexivity].
    change A.s_define with w_define. change A.s_mode with w_mode. change A.s_duplicate with w_duplicate.
    change A.s_all with w_all. change A.s_default with w_default. change A.s_components with w_components.
    change A.s_ingredients with w_ingredients. change A.s_steps with w_steps. change A.s_text with w_text.
    change A.s_new with w_new. change A.s_reference with w_reference. change A.s_ref with w_ref.
    rewrite !one_of_2 in *.
    destruct (str_eqb (removelast (tl (clean (toks_text key)))) w_define || str_eqb (removelast (tl (clean (toks_text key)))) w_mode).
    - destruct (str_eqb (trim (toks_text v)) w_all || str_eqb (trim (toks_text v)) w_default); [reflexivity|].
      destruct (str_eqb (trim (toks_text v)) w_components || str_eqb (trim (toks_text v)) w_ingredients); [reflexivity|].
      destruct (str_eqb (trim (toks_text v)) w_steps); [reflexivity|].
      destruct (str_eqb (trim (toks_text v)) w_text); [reflexivity|discriminate].
    - destruct (str_eqb (removelast (tl (clean (toks_text key)))) w_duplicate); [|reflexivity].
      destruct (str_eqb (trim (toks_text v)) w_new || str_eqb (trim (toks_text v)) w_default); [reflexivity|].
      destruct (str_eqb (trim (toks_text v)) w_reference || str_eqb (trim (toks_text v)) w_ref); [reflexivity|]. discriminate.
  Qed.

  (* a `>>` entry that does not switch to text mode keeps the document out of it *)
  Definition to_text (b : block) : bool :=
    A.x_modes x && match block_config b with Some (CfDefine A.DMText) => true | _ => false end.
  Lemma next_mode_no_text m b :
    in_text_mode m = false -> to_text b = false -> in_text_mode (next_mode (A.x_modes x) m b) = false.
  Proof.
    unfold next_mode, to_text. intros Hm Hok. destruct (A.x_modes x); [|exact Hm]. cbn [andb] in Hok.
    destruct (block_config b) as [[d|r| |]|]; try exact Hm.
    unfold in_text_mode. cbn [md_define]. destruct d; try reflexivity. discriminate.
  Qed.

  Lemma timer_sim m secs cur igs cws tms inl blk cnt err t c :
    cs_kind c = CTm -> ev_proj (EvTimer t) = denote_comp c -> timer_ok unit_class x c = true ->
    A.timer unit_class x (ST m secs cur igs cws tms inl blk cnt err) (abs_tm t)
    = (ST m secs cur igs cws (tms ++ [raw_timer c]) inl blk cnt err, length tms).
  Proof.
    intros Hk H Hok. unfold denote_comp in H. rewrite Hk in H. cbn [ev_proj] in H. injection H as Hn Hq.
    unfold A.timer, abs_tm. cbv zeta. cbn [E.pt_name E.pt_quantity]. aproj.
    assert (Eq : option_map (A.quantity_info false) (option_map abstract_quantity (t_qty t))
                 = option_map (qinfo_of false true) (denote_cqty (cs_body c))).
    { rewrite <- Hq. destruct (t_qty t); cbn [option_map]; [rewrite quantity_info_abstract|]; reflexivity. }
    rewrite Eq, opt_trimmed_abstract, Hn.
    assert (Ee : match option_map (qinfo_of false true) (denote_cqty (cs_body c)) with
                 | Some qi => A.x_advanced x && (A.qi_text qi || match A.qi_unit qi with
                                                                 | Some u => negb (unit_class u =? 1)
                                                                 | None => false
                                                                 end)
                 | None => false
                 end = false).
    { unfold timer_ok in Hok. destruct (A.x_advanced x); [|destruct (denote_cqty (cs_body c)) as [[[v l] u]|]; reflexivity].
      cbn [negb orb] in Hok. destruct (denote_cqty (cs_body c)) as [[[v l] u]|]; [|reflexivity].
      cbn [option_map qinfo_of A.qi_text A.qi_unit andb]. apply andb_true_iff in Hok as [Hv Hu]. apply negb_true in Hv.
      rewrite Hv. cbn [orb]. destruct u as [un|]; [rewrite Hu|]; reflexivity. }
    rewrite Ee. asetters. rewrite orb_false_r. unfold raw_timer. reflexivity.
  Qed.

  (* ---------------------------------------------------------------- one step block *)
  Definition kcnt (igs cws : list A.component) (tms : list A.rtimer) (inl : nat) : cnt :=
    {| n_i := length igs; n_c := length cws; n_t := length tms; n_q := inl |}.
  Local Notation sitems := (step_items find_iq (A.x_inline x)).
  Local Notation bitems m := (mitems find_iq (A.x_inline x) (in_components m)).

  (* the context of a step and the collector state agree *)
  Definition linked (k : ictx) (secs : list A.section) (cur : A.section) : Prop :=
    ic_kinds k = map A.is_step (A.sec_content cur) /\ ic_nsecs k = length secs /\
    ic_named k = E.is_some (A.sec_name cur).

  Lemma inter_ok_none k c : is_igr c = false -> inter_ok k c = true -> mods_inter (cs_mods c) = None.
  Proof.
    unfold inter_ok. intros Hi H. destruct (mods_inter (cs_mods c)) as [[[rel sec] v]|]; [|reflexivity].
    rewrite Hi in H. discriminate.
  Qed.

  Lemma entry_plain m k c : mods_inter (cs_mods c) = None -> mk_entry m k c = {| en_inter := false; en_mode := m; en_comp := raw_comp m c |}.
  Proof. unfold mk_entry. intros ->. reflexivity. Qed.

  Lemma plain_shape m c : entry_shape {| en_inter := false; en_mode := m; en_comp := raw_comp m c |}.
  Proof. unfold entry_shape. cbn [en_inter en_comp]. eexists. reflexivity. Qed.

  (* the three component events, one at a time: the collector adds the entry of the occurrence *)
  Lemma step_igr m k c i acc secs cur igs cws tms inl cnt err :
    linked k secs cur -> cs_kind c = CIgr -> ev_proj (EvIngredient i) = denote_comp c ->
    inter_ok k c = true -> tbl_wf igs -> entry_ok ci inherit_igr igs (mk_entry m k c) = true ->
    stepF (ST m secs cur igs cws tms inl (Some (A.BStep acc)) cnt err) (abstract_event (EvIngredient i))
    = Done (ST m secs cur (add_entry ci inherit_igr igs (mk_entry m k c)) cws tms inl
              (Some (A.BStep (acc ++ [A.IIngredient (length igs)]))) cnt err) /\
    tbl_wf (add_entry ci inherit_igr igs (mk_entry m k c)).
  Proof.
    intros Hlk Hk He Hinter Wi Ri1.
    pose proof He as He'. unfold denote_comp in He'. rewrite Hk in He'.
    destruct (proj_ingredient _ _ _ _ _ _ _ He') as (i0 & Hi0 & Hmods & Hinter' & _). injection Hi0 as <-.
    cbn [abstract_event]. fold (abs_igr i). unfold A.step at 1. aproj. unfold A.in_step.
    pose proof (igr_new_raw m i c Hk He) as Hraw.
    set (s0 := ST m secs cur igs cws tms inl (Some (A.BStep acc)) cnt err).
    assert (Hdis : dis_of s0 = negb (in_components m)) by (unfold dis_of, s0; aproj; rewrite dm_components; reflexivity).
    assert (Hsim : A.ingredient ci x s0 (abs_igr i)
                   = Done (ST m secs cur (add_entry ci inherit_igr igs (mk_entry m k c)) cws tms inl (Some (A.BStep acc)) cnt err, length igs)
                   /\ tbl_wf (add_entry ci inherit_igr igs (mk_entry m k c))).
    { unfold inter_ok in Hinter. unfold mk_entry in Ri1 |- *.
      destruct (mods_inter (cs_mods c)) as [[[rel sec] v]|] eqn:Emi.
      - (* intermediate reference *)
        destruct (i_inter i) as [idata|] eqn:Eii; [|discriminate]. cbn [option_map] in Hinter'. injection Hinter' as Hr Hs Hv.
        apply andb_true_iff in Hinter as [Hinter Hsome]. apply andb_true_iff in Hinter as [Hinter Hinv].
        apply andb_true_iff in Hinter as [_ Hmref]. apply negb_true in Hinv.
        destruct (inter_rel k rel sec v) as [r|] eqn:Erel; [|discriminate].
        destruct Hlk as (Hk1 & Hk2 & _).
        assert (Hres : A.resolve_intermediate_ref s0 (abstract_inter idata) = Done (Some r)).
        { rewrite (resolve_inter_sim _ idata k); unfold s0; aproj; [|exact Hk1|exact Hk2]. rewrite Hr, Hs, Hv, Erel. reflexivity. }
        assert (Hpi : E.pi_inter (abs_igr i) = Some (abstract_inter idata)) by (unfold abs_igr; cbn [E.pi_inter]; rewrite Eii; reflexivity).
        assert (Hm1 : E.m_ref (A.c_mods (igr_new (dis_of s0) (abs_igr i))) = true) by (rewrite Hdis, Hraw; exact Hmref).
        assert (Hm2 : E.mods_intersects (A.c_mods (igr_new (dis_of s0) (abs_igr i))) A.inter_invalid = false) by (rewrite Hdis, Hraw; exact Hinv).
        rewrite (ingredient_inter_sim ci x s0 (abs_igr i) _ r Hpi Hm1 Hm2 Hres), Hdis, Hraw. unfold s0. aproj. asetters.
        rewrite orb_false_r. unfold add_entry, tag_of. cbn [en_inter en_comp]. split; [reflexivity|].
        change (igs ++ [A.set_rel (raw_comp m c) r])
          with (add_entry ci inherit_igr igs {| en_inter := true; en_mode := m; en_comp := A.set_rel (raw_comp m c) r |}).
        apply (add_entry_wf ci inherit_igr igs _ Wi); [|reflexivity].
        unfold entry_shape. cbn [en_inter en_comp A.set_rel A.c_rel A.c_mods]. split; [|exact Hmref].
        unfold inter_rel in Erel. destruct (N.to_nat v); [discriminate|].
        destruct sec, rel.
        + destruct (ic_nsecs k <? S n)%nat; [discriminate|]. injection Erel as <-. exact I.
        + destruct (ic_nsecs k <=? n)%nat; [discriminate|]. injection Erel as <-. exact I.
        + destruct (nth_error _ n); [|discriminate]. injection Erel as <-. exact I.
        + destruct (nth_error _ n); [|discriminate]. injection Erel as <-. exact I.
      - (* definition or reference by name *)
        assert (Hnone : E.pi_inter (abs_igr i) = None).
        { unfold abs_igr. cbn [E.pi_inter]. destruct (i_inter i); [discriminate|reflexivity]. }
        rewrite (ingredient_sim ci x s0 (abs_igr i) {| en_inter := false; en_mode := m; en_comp := raw_comp m c |});
          unfold s0; aproj; cbn [en_inter en_mode en_comp]; try reflexivity; try assumption.
        + asetters. rewrite orb_false_r. split; [reflexivity|].
          apply add_entry_wf; [exact Wi|apply plain_shape|exact Ri1].
        + fold s0. rewrite Hdis, Hraw. reflexivity. }
    destruct Hsim as [Hsim W']. rewrite Hsim. cbn [obind]. asetters. auto.
  Qed.

  Lemma step_cw m k c cw acc secs cur igs cws tms inl cnt err :
    cs_kind c = CCw -> ev_proj (EvCookware cw) = denote_comp c ->
    inter_ok k c = true -> tbl_wf cws -> entry_ok ci inherit_cw cws (mk_entry m k c) = true ->
    stepF (ST m secs cur igs cws tms inl (Some (A.BStep acc)) cnt err) (abstract_event (EvCookware cw))
    = Done (ST m secs cur igs (add_entry ci inherit_cw cws (mk_entry m k c)) tms inl
              (Some (A.BStep (acc ++ [A.ICookware (length cws)]))) cnt err) /\
    tbl_wf (add_entry ci inherit_cw cws (mk_entry m k c)).
  Proof.
    intros Hk He Hinter Wc Rc1.
    assert (Higr : is_igr c = false) by (unfold is_igr; rewrite Hk; reflexivity).
    pose proof (inter_ok_none k c Higr Hinter) as Emi. rewrite (entry_plain m k c Emi) in *.
    cbn [abstract_event]. fold (abs_cw cw). unfold A.step at 1. aproj. unfold A.in_step.
    pose proof (cw_new_raw m cw c Hk He) as Hraw.
    set (s0 := ST m secs cur igs cws tms inl (Some (A.BStep acc)) cnt err).
    assert (Hdis : dis_of s0 = negb (in_components m)) by (unfold dis_of, s0; aproj; rewrite dm_components; reflexivity).
    rewrite (cookware_sim ci s0 (abs_cw cw) {| en_inter := false; en_mode := m; en_comp := raw_comp m c |});
      unfold s0; aproj; cbn [en_inter en_mode en_comp]; try reflexivity; try assumption.
    - cbn [obind]. asetters. rewrite orb_false_r. split; [reflexivity|].
      apply add_entry_wf; [exact Wc|apply plain_shape|exact Rc1].
    - fold s0. rewrite Hdis, Hraw. reflexivity.
  Qed.

  Lemma step_tm m c tm acc secs cur igs cws tms inl cnt err :
    cs_kind c = CTm -> ev_proj (EvTimer tm) = denote_comp c -> timer_ok unit_class x c = true ->
    stepF (ST m secs cur igs cws tms inl (Some (A.BStep acc)) cnt err) (abstract_event (EvTimer tm))
    = Done (ST m secs cur igs cws (tms ++ [raw_timer c]) inl (Some (A.BStep (acc ++ [A.ITimer (length tms)]))) cnt err).
  Proof.
    intros Hk He Htm. cbn [abstract_event]. fold (abs_tm tm). unfold A.step at 1. aproj. unfold A.in_step.
    rewrite (timer_sim m secs cur igs cws tms inl (Some (A.BStep acc)) cnt err tm c Hk He Htm). asetters. reflexivity.
  Qed.

  (* a text piece of a step: cut at the inline quantities; skipped in components mode *)
  Lemma step_text m k t tx acc secs cur igs cws tms inl cnt err :
    text_str tx = toks_text t -> aitem_ok find_iq unit_class x m k (IText t) = true ->
    stepF (ST m secs cur igs cws tms inl (Some (A.BStep acc)) cnt err) (abstract_event (EvText tx))
    = Done (if in_components m then ST m secs cur igs cws tms inl (Some (A.BStep acc)) cnt err
            else ST m secs cur igs cws tms (snd (text_items find_iq (A.x_inline x) (toks_text t) inl))
                   (Some (A.BStep (acc ++ fst (text_items find_iq (A.x_inline x) (toks_text t) inl)))) cnt err).
  Proof.
    intros Htx Hit. cbn [aitem_ok] in Hit. apply andb_true_iff in Hit as [Hne Hiq].
    cbn [abstract_event]. unfold A.step at 1. aproj. unfold A.in_step. aproj. rewrite dm_components.
    destruct (in_components m); [reflexivity|]. rewrite orb_false_r in Hiq.
    rewrite ParserShape.text_str_abstract, Htx.
    unfold text_items. destruct (A.x_inline x); [|reflexivity]. cbn [negb orb] in Hiq.
    rewrite (iq_split_some find_iq _ _ 0%nat inl) in Hiq.
    destruct (iq_split find_iq (S (length (toks_text t))) (toks_text t) inl) as [[its1 q]|] eqn:Esp; [|discriminate].
    rewrite (split_iq_spec find_iq _ _ _ _ _ acc Esp). reflexivity.
  Qed.

  Lemma run_items m k items : forall evs acc secs cur igs cws tms inl cnt err,
    linked k secs cur ->
    map ev_proj evs = map denote_item items ->
    forallb (aitem_ok find_iq unit_class x m k) items = true ->
    tbl_wf igs -> tbl_wf cws ->
    refs_ok ci inherit_igr igs (map (mk_entry m k) (filter is_igr (item_comps items))) = true ->
    refs_ok ci inherit_cw cws (map (mk_entry m k) (filter is_cw (item_comps items))) = true ->
    let igs' := table ci inherit_igr igs (map (mk_entry m k) (filter is_igr (item_comps items))) in
    let cws' := table ci inherit_cw cws (map (mk_entry m k) (filter is_cw (item_comps items))) in
    runF (ST m secs cur igs cws tms inl (Some (A.BStep acc)) cnt err) (abstract_events evs)
    = Done (ST m secs cur igs' cws' (tms ++ map raw_timer (filter is_tm (item_comps items)))
              (n_q (snd (bitems m items (kcnt igs cws tms inl))))
              (Some (A.BStep (acc ++ fst (bitems m items (kcnt igs cws tms inl))))) cnt err) /\
    tbl_wf igs' /\ tbl_wf cws'.
  Proof.
    induction items as [|it items IH]; intros evs acc secs cur igs cws tms inl cnt err Hlk Hev Hok Wi Wc Ri Rc.
    - destruct evs; [|discriminate]. cbn. rewrite !app_nil_r. auto.
    - destruct evs as [|e evs]; [discriminate|]. cbn [map] in Hev. injection Hev as He Hev.
      cbn [forallb] in Hok. apply andb_true_iff in Hok as [Hit Hok].
      unfold abstract_events. cbn [map A.run]. fold (abstract_events evs).
      destruct it as [t|c].
      + (* text *)
        cbn [denote_item] in He. destruct (proj_text e _ He) as (tx & -> & Htx).
        rewrite (step_text m k t tx acc secs cur igs cws tms inl cnt err Htx Hit). cbn [obind].
        cbn [item_comps flat_map app] in Ri, Rc |- *. fold (item_comps items) in Ri, Rc |- *.
        cbn [mitems]. destruct (in_components m) eqn:Ecm.
        * exact (IH evs acc secs cur igs cws tms inl cnt err Hlk Hev Hok Wi Wc Ri Rc).
        * set (TI := text_items find_iq (A.x_inline x) (toks_text t) inl).
          destruct (IH evs (acc ++ fst TI) secs cur igs cws tms (snd TI) cnt err Hlk Hev Hok Wi Wc Ri Rc) as (Hrun & W1 & W2).
          rewrite Hrun. cbn [fst snd kcnt n_i n_c n_t n_q]. fold TI.
          change {| n_i := length igs; n_c := length cws; n_t := length tms; n_q := snd TI |} with (kcnt igs cws tms (snd TI)).
          rewrite <- app_assoc. auto.
      + (* component *)
        cbn [aitem_ok] in Hit. apply andb_true_iff in Hit as [Hinter Htm].
        cbn [denote_item] in He.
        cbn [item_comps flat_map app] in Ri, Rc |- *. fold (item_comps items) in Ri, Rc |- *.
        cbn [mitems].
        destruct (cs_kind c) eqn:Hk.
        * (* ingredient *)
          assert (Higr : is_igr c = true) by (unfold is_igr; rewrite Hk; reflexivity).
          assert (Hcw : is_cw c = false) by (unfold is_cw; rewrite Hk; reflexivity).
          assert (Htm' : is_tm c = false) by (unfold is_tm; rewrite Hk; reflexivity).
          cbn [filter] in Ri, Rc |- *. rewrite Higr in *. rewrite Hcw in *. rewrite Htm'.
          cbn [map refs_ok] in Ri. apply andb_true_iff in Ri as [Ri1 Ri].
          pose proof He as He'. unfold denote_comp in He'. rewrite Hk in He'.
          destruct (proj_ingredient e _ _ _ _ _ _ He') as (i & -> & _).
          destruct (step_igr m k c i acc secs cur igs cws tms inl cnt err Hlk Hk He Hinter Wi Ri1) as [Hst W'].
          rewrite Hst. cbn [obind].
          destruct (IH evs (acc ++ [A.IIngredient (length igs)]) secs cur (add_entry ci inherit_igr igs (mk_entry m k c)) cws tms inl cnt err
                      Hlk Hev Hok W' Wc Ri Rc) as (Hrun & W1 & W2).
          rewrite Hrun. unfold comp_item. rewrite Hk. cbn [fst snd kcnt n_i n_c n_t n_q].
          unfold kcnt. rewrite add_entry_length. cbn [table fold_left map]. rewrite <- app_assoc. auto.
        * (* cookware *)
          assert (Higr : is_igr c = false) by (unfold is_igr; rewrite Hk; reflexivity).
          assert (Hcw : is_cw c = true) by (unfold is_cw; rewrite Hk; reflexivity).
          assert (Htm' : is_tm c = false) by (unfold is_tm; rewrite Hk; reflexivity).
          cbn [filter] in Ri, Rc |- *. rewrite Higr in *. rewrite Hcw in *. rewrite Htm'.
          cbn [map refs_ok] in Rc. apply andb_true_iff in Rc as [Rc1 Rc].
          pose proof He as He'. unfold denote_comp in He'. rewrite Hk in He'.
          destruct (proj_cookware e _ _ _ _ _ He') as (cw & -> & _).
          destruct (step_cw m k c cw acc secs cur igs cws tms inl cnt err Hk He Hinter Wc Rc1) as [Hst W'].
          rewrite Hst. cbn [obind].
          destruct (IH evs (acc ++ [A.ICookware (length cws)]) secs cur igs (add_entry ci inherit_cw cws (mk_entry m k c)) tms inl cnt err
                      Hlk Hev Hok Wi W' Ri Rc) as (Hrun & W1 & W2).
          rewrite Hrun. unfold comp_item. rewrite Hk. cbn [fst snd kcnt n_i n_c n_t n_q].
          unfold kcnt. rewrite add_entry_length. cbn [table fold_left map]. rewrite <- app_assoc. auto.
        * (* timer *)
          assert (Higr : is_igr c = false) by (unfold is_igr; rewrite Hk; reflexivity).
          assert (Hcw : is_cw c = false) by (unfold is_cw; rewrite Hk; reflexivity).
          assert (Htm' : is_tm c = true) by (unfold is_tm; rewrite Hk; reflexivity).
          cbn [filter] in Ri, Rc |- *. rewrite Higr in *. rewrite Hcw in *. rewrite Htm'.
          pose proof He as He'. unfold denote_comp in He'. rewrite Hk in He'.
          destruct (proj_timer e _ _ He') as (tm & -> & _).
          rewrite (step_tm m c tm acc secs cur igs cws tms inl cnt err Hk He Htm). cbn [obind].
          destruct (IH evs (acc ++ [A.ITimer (length tms)]) secs cur igs cws (tms ++ [raw_timer c]) inl cnt err
                      Hlk Hev Hok Wi Wc Ri Rc) as (Hrun & W1 & W2).
          rewrite Hrun. unfold comp_item. rewrite Hk. cbn [fst snd kcnt n_i n_c n_t n_q].
          unfold kcnt. rewrite app_length. cbn [length map]. rewrite Nat.add_1_r, <- !app_assoc. auto.
  Qed.

  (* ---------------------------------------------------------------- one `>` block *)
  Lemma run_tlines m ls : forall evs acc secs cur igs cws tms inl cnt err,
    map ev_proj evs = denote_tlines ls ->
    runF (ST m secs cur igs cws tms inl (Some (A.BText acc)) cnt err) (abstract_events evs)
    = Done (ST m secs cur igs cws tms inl (Some (A.BText (acc ++ tlines_text ls))) cnt err).
  Proof.
    induction ls as [|l r IH]; intros evs acc secs cur igs cws tms inl cnt err Hev.
    - destruct evs; [|discriminate]. cbn. rewrite app_nil_r. reflexivity.
    - destruct evs as [|e evs]; [destruct r; discriminate|].
      assert (Hstep : forall tx, ev_proj e = SText tx ->
                stepF (ST m secs cur igs cws tms inl (Some (A.BText acc)) cnt err) (abstract_event e)
                = Done (ST m secs cur igs cws tms inl (Some (A.BText (acc ++ tx))) cnt err)).
      { intros tx He. destruct (proj_text e _ He) as (t & -> & Ht). cbn [abstract_event]. unfold A.step. aproj.
        unfold A.in_text. rewrite ParserShape.text_str_abstract, Ht. reflexivity. }
      unfold abstract_events. cbn [map A.run]. fold (abstract_events evs).
      destruct r as [|l2 r].
      + cbn [denote_tlines map] in Hev. injection Hev as He Hev. destruct evs; [|discriminate].
        rewrite (Hstep _ He). reflexivity.
      + cbn [denote_tlines map] in Hev. injection Hev as He Hev.
        rewrite (Hstep _ He). cbn [obind]. rewrite (IH evs _ secs cur igs cws tms inl cnt err Hev).
        cbn [tlines_text]. rewrite <- !app_assoc. reflexivity.
  Qed.

  (* ---------------------------------------------------------------- a step block in text mode *)
  Lemma run_items_text m items : forall evs acc secs cur igs cws tms inl cnt err,
    in_text_mode m = true ->
    map ev_proj evs = map denote_item items ->
    Forall2 (src_ok input) evs (map item_src items) ->
    (forall c, In c (item_comps items) -> A.strip_comments (unlex (print_comp c)) = written (print_comp c)) ->
    runF (ST m secs cur igs cws tms inl (Some (A.BText acc)) cnt err) (abstract_events evs)
    = Done (ST m secs cur igs cws tms inl (Some (A.BText (acc ++ items_written items))) cnt err).
  Proof.
    induction items as [|it items IH]; intros evs acc secs cur igs cws tms inl cnt err Hm Hev Hsrc Hstrip.
    - destruct evs; [|discriminate]. cbn. rewrite app_nil_r. reflexivity.
    - destruct evs as [|e evs]; [discriminate|]. cbn [map] in Hev, Hsrc. injection Hev as He Hev.
      inversion Hsrc as [|? ? ? ? Hs1 Hs2]; subst.
      unfold abstract_events. cbn [map A.run]. fold (abstract_events evs).
      assert (Hw : items_written (it :: items)
                   = (match it with IText t => toks_text t | IComp c => written (print_comp c) end) ++ items_written items) by reflexivity.
      rewrite Hw, app_assoc.
      destruct it as [t|c].
      + cbn [denote_item] in He. destruct (proj_text e _ He) as (tx & -> & Htx).
        cbn [abstract_event]. unfold A.step at 1. aproj. unfold A.in_text. rewrite ParserShape.text_str_abstract, Htx. asetters. cbn [obind].
        apply IH; auto.
      + cbn [denote_item] in He. cbn [item_src] in Hs1. destruct Hs1 as (sp & Hsp & Hsl).
        assert (Hc0 : A.strip_comments (unlex (print_comp c)) = written (print_comp c)).
        { apply Hstrip. cbn [item_comps flat_map app]. left. reflexivity. }
        assert (Hst : stepF (ST m secs cur igs cws tms inl (Some (A.BText acc)) cnt err) (abstract_event e)
                      = Done (ST m secs cur igs cws tms inl (Some (A.BText (acc ++ written (print_comp c)))) cnt err)).
        { unfold denote_comp in He.
          destruct e; try (destruct (cs_kind c); discriminate He); cbn [EditTextFrame.comp_span] in Hsp; injection Hsp as Hsp;
            cbn [abstract_event]; unfold A.step; aproj; unfold A.in_text; aproj; rewrite dm_text, Hm; cbn [negb];
            cbn [E.pi_span E.pc_span E.pt_span]; rewrite Hsp, Hsl; unfold A.comp_src; cbn [A.cfgF A.text_raw]; rewrite Hc0; reflexivity. }
        rewrite Hst. cbn [obind]. apply IH; auto;
        intros c' Hc'; apply Hstrip; cbn [item_comps flat_map app]; right; exact Hc'.
  Qed.

  (* ---------------------------------------------------------------- documents *)
  Definition block_ne (b : block) : Prop :=
    match b with BkStep items => items <> [] | BkText ls => tlines_text ls <> [] | _ => True end.

  Definition pushed (secs : list A.section) (cur : A.section) : list A.section :=
    if A.section_is_empty cur then secs else secs ++ [cur].

  Lemma pushed_close secs name content :
    pushed secs {| A.sec_name := name; A.sec_content := content |} = secs ++ close_section name content.
  Proof.
    unfold pushed, A.section_is_empty, close_section. cbn [A.sec_name A.sec_content].
    destruct name; [reflexivity|]. destruct content; [rewrite app_nil_r|]; reflexivity.
  Qed.

  Lemma refs_ok_app inh a : forall tbl b,
    refs_ok ci inh tbl (a ++ b) = refs_ok ci inh tbl a && refs_ok ci inh (table ci inh tbl a) b.
  Proof.
    induction a as [|r a IH]; intros tbl b; [reflexivity|]. cbn [app refs_ok table fold_left].
    fold (table ci inh (add_entry ci inh tbl r) a). rewrite IH, andb_assoc. reflexivity.
  Qed.

  Lemma table_app inh tbl a b : table ci inh tbl (a ++ b) = table ci inh (table ci inh tbl a) b.
  Proof. unfold table. apply fold_left_app. Qed.

  Lemma bitems_ne m k0 items k :
    in_components m = false ->
    items <> [] -> forallb (aitem_ok find_iq unit_class x m k0) items = true -> fst (bitems m items k) <> [].
  Proof.
    intros Ecm. rewrite Ecm, mitems_step.
    destruct items as [|[t|c] r]; [contradiction| |]; intros _ Hok.
    - rewrite step_items_text. cbn [fst]. cbn [forallb aitem_ok] in Hok. apply andb_true_iff in Hok as [Hok _].
      apply andb_true_iff in Hok as [Hne Hq]. apply negb_true in Hne. rewrite Ecm, orb_false_r in Hq.
      assert (Hti : fst (text_items find_iq (A.x_inline x) (toks_text t) (n_q k)) <> []).
      { unfold text_items. destruct (A.x_inline x); [|discriminate].
        destruct (iq_split find_iq (S (length (toks_text t))) (toks_text t) (n_q k)) as [[its q]|] eqn:E; [|discriminate].
        cbn [fst]. assert (Htx : toks_text t <> []) by (intro E0; rewrite E0 in Hne; discriminate Hne).
        apply (iq_split_ne find_iq _ _ _ _ _ Htx E). }
      destruct (fst (text_items find_iq (A.x_inline x) (toks_text t) (n_q k))); [contradiction|discriminate].
    - rewrite step_items_comp. discriminate.
  Qed.

  Lemma is_nil_ne {T} (l : list T) : l <> [] -> E.is_nil l = false.
  Proof. destruct l; [contradiction|reflexivity]. Qed.

  Lemma nsteps_cons b r : nsteps (b :: r) = ((match b with BkStep _ => 1 | _ => 0 end) + nsteps r)%nat.
  Proof. unfold nsteps. cbn [filter]. destruct b; reflexivity. Qed.

  Lemma next_mode_other modes m b : match b with BkMeta _ _ => False | _ => True end -> next_mode modes m b = m.
  Proof. unfold next_mode. destruct b; [contradiction| | |]; intros _; destruct modes; reflexivity. Qed.

  (* how a step block is read, by mode *)
  Lemma mode_cases m : in_text_mode m = false ->
    (in_components m = true /\ md_define m = A.DMComponents) \/
    (in_components m = false /\ (md_define m = A.DMAll \/ md_define m = A.DMSteps)).
  Proof. unfold in_text_mode, in_components. destruct (md_define m); auto; discriminate. Qed.

  Lemma linked_next m k b secs name content :
    linked k secs {| A.sec_name := name; A.sec_content := content |} ->
    match b with
    | BkMeta _ _ => linked (next_ctx m k b) secs {| A.sec_name := name; A.sec_content := content |}
    | BkSection _ nm _ _ =>
        linked (next_ctx m k b) (secs ++ close_section name content)
               {| A.sec_name := Some (clean (toks_text nm)); A.sec_content := [] |}
    | BkStep _ =>
        (in_components m = true -> linked (next_ctx m k b) secs {| A.sec_name := name; A.sec_content := content |}) /\
        (in_components m = false -> in_text_mode m = false ->
         forall st, linked (next_ctx m k b) secs {| A.sec_name := name; A.sec_content := content ++ [A.CStep st] |}) /\
        (in_text_mode m = true ->
         match b with
         | BkStep items => linked (next_ctx m k b) secs
                             {| A.sec_name := name; A.sec_content := content ++ text_content (items_written items) |}
         | _ => True
         end)
    | BkText _ => forall t, linked (next_ctx m k b) secs {| A.sec_name := name; A.sec_content := content ++ [A.CText t] |}
    end.
  Proof.
    intros (H1 & H2 & H3). cbn [A.sec_name A.sec_content] in *. destruct b; [repeat split; assumption| | |].
    - unfold linked, next_ctx. cbn [ic_kinds ic_nsecs ic_named A.sec_name A.sec_content map E.is_some]. repeat split.
      rewrite app_length, H1, H2, H3. unfold close_section.
      destruct name; cbn [E.is_some negb andb length]; [lia|]. destruct content; cbn [map is_nil length]; lia.
    - split; [|split].
      + unfold in_components, next_ctx. destruct (md_define m); try discriminate. intros _. repeat split; assumption.
      + unfold in_components, in_text_mode, next_ctx. destruct (md_define m); try discriminate; intros _ _ st;
          unfold linked; cbn [ic_kinds ic_nsecs ic_named A.sec_name A.sec_content]; rewrite map_app, H1; auto.
      + unfold in_text_mode, next_ctx. destruct (md_define m); try discriminate. intros _.
        unfold linked. cbn [ic_kinds ic_nsecs ic_named A.sec_name A.sec_content]. rewrite map_app, H1.
        repeat split; auto. f_equal. unfold text_content. destruct (is_nil (items_written items)); reflexivity.
    - intro t. unfold linked, next_ctx. cbn [ic_kinds ic_nsecs ic_named A.sec_name A.sec_content]. rewrite map_app, H1. auto.
  Qed.

  Local Notation modes := (A.x_modes x).

  Lemma block_srcs_length b : length (block_srcs b) = length (denote_block b).
  Proof.
    destruct b; cbn [block_srcs denote_block];
      [apply map_length|apply map_length|cbn [length]; rewrite !app_length, !map_length; reflexivity|apply map_length].
  Qed.

  Lemma run_blocks d : forall m k evs secs name content igs cws tms inl cnt err,
    linked k secs {| A.sec_name := name; A.sec_content := content |} ->
    map ev_proj evs = doc_events d ->
    (text_reached modes d m = true -> Forall2 (src_ok input) evs (doc_srcs d) /\ strips d) ->
    Forall block_ne d -> ablocks_ok find_iq unit_class x d m k = true ->
    tbl_wf igs -> tbl_wf cws ->
    refs_ok ci inherit_igr igs (doc_entries modes is_igr d m k) = true ->
    refs_ok ci inherit_cw cws (doc_entries modes is_cw d m k) = true ->
    (1 <= cnt)%nat -> N.of_nat (cnt + nsteps d) < 4294967296 ->
    exists m' secs' cur' cnt',
      runF (ST m secs {| A.sec_name := name; A.sec_content := content |} igs cws tms inl None cnt err) (abstract_events evs)
      = Done (ST m' secs' cur' (table ci inherit_igr igs (doc_entries modes is_igr d m k))
                (table ci inherit_cw cws (doc_entries modes is_cw d m k))
                (tms ++ map raw_timer (filter is_tm (live_comps modes d m)))
                (inline_count find_iq (A.x_inline x) modes d m (kcnt igs cws tms inl)) None cnt' err) /\
      pushed secs' cur' = secs ++ sections_of find_iq (A.x_inline x) modes d m name content cnt (kcnt igs cws tms inl).
  Proof.
    induction d as [|b r IH]; intros m k evs secs name content igs cws tms inl cnt err Hlk Hev Htx Hne Hok Wi Wc Ri Rc Hc1 Hcb.
    - destruct evs; [|discriminate]. cbn [doc_entries live_comps filter map table fold_left inline_count kcnt n_q]. rewrite app_nil_r.
      eexists _, _, _, _. split; [reflexivity|]. apply pushed_close.
    - unfold doc_events in Hev. cbn [map concat] in Hev. fold (doc_events r) in Hev.
      apply map_eq_app in Hev as (e1 & e2 & -> & He1 & He2).
      assert (Hboth : text_reached modes (b :: r) m = true ->
                (Forall2 (src_ok input) e1 (block_srcs b) /\
                 (forall c, In c (block_comps b) -> A.strip_comments (unlex (print_comp c)) = written (print_comp c))) /\
                (Forall2 (src_ok input) e2 (doc_srcs r) /\ strips r)).
      { intro Ht. destruct (Htx Ht) as [Hsrc Hstrip].
        unfold doc_srcs in Hsrc. cbn [map concat] in Hsrc. fold (doc_srcs r) in Hsrc.
        apply EditTextSim.Forall2_app_len in Hsrc as [Hs1 Hs2];
          [|rewrite block_srcs_length, <- He1, map_length; reflexivity].
        split; split; auto.
        - intros c Hc. apply Hstrip. cbn [flat_map]. apply in_or_app. left. exact Hc.
        - intros c Hc. apply Hstrip. cbn [flat_map]. apply in_or_app. right. exact Hc. }
      assert (Htx1 : in_text_mode m = true -> Forall2 (src_ok input) e1 (block_srcs b) /\
                (forall c, In c (block_comps b) -> A.strip_comments (unlex (print_comp c)) = written (print_comp c))).
      { intro Ht. apply Hboth. cbn [text_reached]. rewrite Ht. reflexivity. }
      assert (Htx2 : text_reached modes r (next_mode modes m b) = true -> Forall2 (src_ok input) e2 (doc_srcs r) /\ strips r).
      { intro Ht. apply Hboth. cbn [text_reached]. rewrite Ht. apply orb_true_r. }
      clear Hboth.
      inversion Hne as [|? ? Hb Hne']; subst. cbn [ablocks_ok] in Hok. apply andb_true_iff in Hok as [Hbok Hok].
      unfold abstract_events. rewrite map_app. fold (abstract_events e1) (abstract_events e2). rewrite run_app.
      cbn [live_comps doc_entries] in Ri, Rc |- *.
      assert (Hnil : forall T, (if in_text_mode m then @nil T else @nil T) = []) by (intro T; destruct (in_text_mode m); reflexivity).
      rewrite nsteps_cons in Hcb. pose proof (linked_next m k b secs name content Hlk) as Hlk'.
      destruct b as [key v | n1 nm n2 trail | items | ls]; cbn [denote_block block_comps app filter map] in He1, Ri, Rc |- *;
        rewrite ?(Hnil entry) in Ri, Rc |- *; rewrite ?(Hnil cspec); cbn [app] in Ri, Rc |- *.
      + (* `>>` entry: a mode switch or nothing *)
        destruct e1 as [|e [|? ?]]; try discriminate. cbn [map] in He1. injection He1 as He.
        destruct (proj_meta e _ _ He) as (tk & tv & -> & Hk & Hv).
        cbn [abstract_events map abstract_event A.run]. unfold A.step at 1. aproj.
        cbn [ablock_ok] in Hbok.
        rewrite (metadata_sim m secs _ igs cws tms inl None cnt err tk tv key v Hk Hv Hbok). cbn [obind].
        cbn [sections_of inline_count].
        apply (IH _ k e2 secs name content igs cws tms inl cnt err Hlk' He2 Htx2 Hne' Hok Wi Wc Ri Rc Hc1).
        cbn [Nat.add] in Hcb. exact Hcb.
      + (* section line *)
        rewrite (next_mode_other modes m (BkSection n1 nm n2 trail) I) in *.
        destruct e1 as [|e [|? ?]]; try discriminate. cbn [map] in He1. injection He1 as He.
        destruct (proj_section e _ He) as (tn & -> & Hn).
        cbn [abstract_events map abstract_event A.run option_map]. unfold A.step at 1. aproj. asetters. cbn [obind option_map].
        rewrite trimmed_abstract, Hn.
        change (A.pushed_sections (ST m secs {| A.sec_name := name; A.sec_content := content |} igs cws tms inl None cnt err))
          with (pushed secs {| A.sec_name := name; A.sec_content := content |}).
        rewrite pushed_close.
        destruct (IH m _ e2 (secs ++ close_section name content) (Some (clean (toks_text nm))) [] igs cws tms inl 1%nat err
                    Hlk' He2 Htx2 Hne' Hok Wi Wc Ri Rc (le_n 1)) as (m' & secs' & cur' & cnt' & Hrun & Hp).
        { cbn [Nat.add] in Hcb. lia. }
        exists m', secs', cur', cnt'. split.
        * rewrite Hrun. cbn [inline_count]. rewrite (next_mode_other modes m (BkSection n1 nm n2 trail) I). reflexivity.
        * rewrite Hp. cbn [sections_of].
          rewrite (next_mode_other modes m (BkSection n1 nm n2 trail) I). rewrite app_assoc. reflexivity.
      + (* step block *)
        rewrite (next_mode_other modes m (BkStep items) I) in *.
        cbn [block_ne] in Hb. cbn [ablock_ok] in Hbok.
        destruct e1 as [|es e1]; [discriminate|]. cbn [map] in He1. injection He1 as Hes He1.
        apply map_eq_app in He1 as (em & ee & -> & Hem & Hee).
        destruct ee as [|ee [|? ?]]; try discriminate. cbn [map] in Hee. injection Hee as Hee.
        rewrite (proj_start es _ Hes), (proj_end ee _ Hee).
        destruct (in_text_mode m) eqn:Hm.
        { (* text mode: the block is a paragraph, its components are copied as written *)
          destruct (Htx1 eq_refl) as [Hs1 Hstrip1].
          cbn [block_srcs] in Hs1. inversion Hs1 as [|? ? ? ? _ Hs1']; subst.
          apply EditTextSim.Forall2_app_len in Hs1' as [Hsm _]; [|rewrite map_length, <- (map_length ev_proj em), Hem, map_length; reflexivity].
          cbn [app] in Ri, Rc |- *.
          assert (Edm : md_define m = A.DMText) by (unfold in_text_mode in Hm; destruct (md_define m); try discriminate; reflexivity).
          cbn [abstract_events map abstract_event A.run abstract_kind]. unfold A.step at 1. aproj. asetters. rewrite dm_text, Hm. cbn [obind].
          rewrite map_app. fold (abstract_events em). rewrite run_app.
          rewrite (run_items_text m items em [] secs _ igs cws tms inl cnt err Hm Hem Hsm Hstrip1).
          cbn [obind app map A.run abstract_event abstract_kind].
          unfold A.step at 1. aproj. unfold A.end_block. aproj. rewrite dm_text, Hm, orb_true_r. unfold A.finish_block, A.skipped.
          cbn [A.cfgF A.skip_empty_text A.is_step A.is_text andb negb orb]. aproj. rewrite orb_true_r, andb_true_r.
          destruct Hlk' as [_ [_ Hlkt]]. specialize (Hlkt eq_refl). unfold text_content in Hlkt.
          destruct (items_written items) as [|c0 tx] eqn:Ew; cbn [E.is_nil is_nil negb] in Hlkt |- *; asetters; cbn [obind A.sec_name A.sec_content].
          - rewrite app_nil_r in Hlkt.
            destruct (IH m _ e2 secs name content igs cws tms inl cnt err Hlkt He2 Htx2 Hne' Hok Wi Wc Ri Rc Hc1)
              as (m' & secs' & cur' & cnt' & Hrun2 & Hp); [lia|].
            exists m', secs', cur', cnt'. split.
            + rewrite Hrun2. cbn [inline_count]. rewrite (next_mode_other modes m (BkStep items) I), Edm. rewrite ?app_nil_r. reflexivity.
            + rewrite Hp. cbn [sections_of]. rewrite (next_mode_other modes m (BkStep items) I), Edm, Ew. unfold text_content. cbn [is_nil].
              rewrite app_nil_r. reflexivity.
          - destruct (IH m _ e2 secs name (content ++ [A.CText (c0 :: tx)]) igs cws tms inl cnt err Hlkt He2 Htx2 Hne' Hok Wi Wc Ri Rc Hc1)
              as (m' & secs' & cur' & cnt' & Hrun2 & Hp); [lia|].
            exists m', secs', cur', cnt'. split.
            + rewrite Hrun2. cbn [inline_count]. rewrite (next_mode_other modes m (BkStep items) I), Edm. rewrite ?app_nil_r. reflexivity.
            + rewrite Hp. cbn [sections_of]. rewrite (next_mode_other modes m (BkStep items) I), Edm, Ew. reflexivity. }
        cbn [orb] in Hbok.
        rewrite refs_ok_app in Ri, Rc. apply andb_true_iff in Ri as [Ri1 Ri2]. apply andb_true_iff in Rc as [Rc1 Rc2].
        cbn [abstract_events map abstract_event A.run abstract_kind]. unfold A.step at 1. aproj. asetters. rewrite dm_text, Hm. cbn [obind].
        rewrite map_app. fold (abstract_events em). rewrite run_app.
        destruct (run_items m k items em [] secs {| A.sec_name := name; A.sec_content := content |} igs cws tms inl cnt err
                    Hlk Hem Hbok Wi Wc Ri1 Rc1) as (Hrun & Wi' & Wc').
        cbv zeta in Hrun, Wi', Wc'. rewrite Hrun. cbn [obind app map A.run abstract_event abstract_kind].
        unfold A.step at 1. aproj. unfold A.end_block. aproj. cbn [E.block_kind_eqb]. unfold A.finish_block, A.skipped.
        cbn [A.cfgF A.skip_empty_step A.st_items A.is_step A.is_text andb negb orb]. aproj. rewrite dm_components.
        set (igs' := table ci inherit_igr igs (map (mk_entry m k) (filter is_igr (item_comps items)))) in *.
        set (cws' := table ci inherit_cw cws (map (mk_entry m k) (filter is_cw (item_comps items)))) in *.
        set (tms' := tms ++ map raw_timer (filter is_tm (item_comps items))).
        set (K' := snd (bitems m items (kcnt igs cws tms inl))) in *.
        set (IT := fst (bitems m items (kcnt igs cws tms inl))) in *.
        assert (EK : K' = kcnt igs' cws' tms' (n_q K')).
        { destruct (mitems_counts find_iq (A.x_inline x) (in_components m) items (kcnt igs cws tms inl)) as (H1 & H2 & H3 & _).
          fold K' in H1, H2, H3.
          unfold kcnt, igs', cws', tms'. rewrite !table_length, app_length, !map_length. cbn [kcnt n_i n_c n_t] in H1, H2, H3.
          rewrite <- H1, <- H2, <- H3. destruct K'; reflexivity. }
        destruct Hlk' as [Hlkc [Hlkn _]].
        destruct (mode_cases m Hm) as [[Ecm Edm]|[Ecm Edm]]; rewrite Ecm.
        * (* components mode: the block is a list of components, no step *)
          cbn [negb orb]. rewrite andb_false_r. asetters. cbn [obind].
          assert (Eq : n_q K' = inl).
          { destruct (mitems_counts find_iq (A.x_inline x) (in_components m) items (kcnt igs cws tms inl)) as (_ & _ & _ & H4).
            fold K' in H4. rewrite (H4 Ecm). reflexivity. }
          rewrite Eq in *.
          assert (EC : comps_cnt items (kcnt igs cws tms inl) = kcnt igs' cws' tms' inl).
          { rewrite <- EK. unfold K'. rewrite Ecm. symmetry. apply mitems_comps. }
          destruct (IH m _ e2 secs name content igs' cws' tms' inl cnt err (Hlkc Ecm) He2 Htx2 Hne' Hok Wi' Wc' Ri2 Rc2 Hc1)
            as (m' & secs' & cur' & cnt' & Hrun2 & Hp); [lia|].
          exists m', secs', cur', cnt'. split.
          -- rewrite Hrun2. cbn [inline_count]. rewrite (next_mode_other modes m (BkStep items) I), Edm, EC.
             rewrite !filter_app, !map_app, !table_app. unfold tms'. rewrite <- app_assoc. reflexivity.
          -- rewrite Hp. cbn [sections_of]. rewrite (next_mode_other modes m (BkStep items) I), Edm, EC. reflexivity.
        * (* all / steps mode: a step of the section *)
          cbn [negb orb andb].
          rewrite (is_nil_ne IT (bitems_ne m k items (kcnt igs cws tms inl) Ecm Hb Hbok)). cbn [negb andb].
          destruct (N.leb_spec 4294967295 (N.of_nat cnt)) as [Hov|_]; [lia|]. asetters. cbn [obind A.sec_name A.sec_content].
          assert (ES : bitems m items (kcnt igs cws tms inl) = step_items find_iq (A.x_inline x) items (kcnt igs cws tms inl))
            by (rewrite Ecm; apply mitems_step).
          destruct (IH m _ e2 secs name (content ++ [A.CStep {| A.st_items := IT; A.st_number := cnt |}])
                      igs' cws' tms' (n_q K') (S cnt) err (Hlkn Ecm eq_refl _) He2 Htx2 Hne' Hok Wi' Wc' Ri2 Rc2)
            as (m' & secs' & cur' & cnt' & Hrun2 & Hp); [lia|lia|].
          exists m', secs', cur', cnt'. split.
          -- rewrite Hrun2. cbn [inline_count]. rewrite (next_mode_other modes m (BkStep items) I).
             assert (EI : inline_count find_iq (A.x_inline x) modes r m (kcnt igs' cws' tms' (n_q K'))
                          = match md_define m with
                            | A.DMComponents => inline_count find_iq (A.x_inline x) modes r m (comps_cnt items (kcnt igs cws tms inl))
                            | A.DMText => inline_count find_iq (A.x_inline x) modes r m (kcnt igs cws tms inl)
                            | _ => inline_count find_iq (A.x_inline x) modes r m (snd (step_items find_iq (A.x_inline x) items (kcnt igs cws tms inl)))
                            end).
             { rewrite <- EK. unfold K'. rewrite ES. destruct Edm as [-> | ->]; reflexivity. }
             rewrite <- EI.
             rewrite !filter_app, !map_app, !table_app. unfold tms'. rewrite <- app_assoc. reflexivity.
          -- rewrite Hp. cbn [sections_of]. rewrite (next_mode_other modes m (BkStep items) I).
             rewrite <- EK. unfold K', IT. rewrite ES.
             destruct (step_items find_iq (A.x_inline x) items (kcnt igs cws tms inl)) as [its k']. cbn [fst snd].
             destruct Edm as [-> | ->]; reflexivity.
      + (* text block *)
        rewrite (next_mode_other modes m (BkText ls) I) in *.
        cbn [block_ne] in Hb.
        destruct e1 as [|es e1]; [discriminate|]. cbn [map] in He1. injection He1 as Hes He1.
        apply map_eq_app in He1 as (em & ee & -> & Hem & Hee).
        destruct ee as [|ee [|? ?]]; try discriminate. cbn [map] in Hee. injection Hee as Hee.
        rewrite (proj_start es _ Hes), (proj_end ee _ Hee).
        cbn [abstract_events map abstract_event A.run abstract_kind]. unfold A.step at 1. aproj. asetters. rewrite dm_text.
        replace (if in_text_mode m then A.BText [] else A.BText []) with (A.BText []) by (destruct (in_text_mode m); reflexivity).
        cbn [obind].
        rewrite map_app. fold (abstract_events em). rewrite run_app.
        rewrite (run_tlines m ls em [] secs _ igs cws tms inl cnt err Hem). cbn [obind app map A.run abstract_event abstract_kind].
        unfold A.step at 1. aproj. unfold A.end_block. aproj. cbn [E.block_kind_eqb orb]. unfold A.finish_block, A.skipped.
        cbn [A.cfgF A.skip_empty_text A.is_step A.is_text andb negb orb]. aproj.
        rewrite (is_nil_ne _ Hb). rewrite orb_true_r. cbn [negb andb]. asetters. cbn [obind A.sec_name A.sec_content].
        destruct (IH m _ e2 secs name (content ++ [A.CText (tlines_text ls)]) igs cws tms inl cnt err (Hlk' _) He2 Htx2 Hne' Hok Wi Wc Ri Rc Hc1)
          as (m' & secs' & cur' & cnt' & Hrun2 & Hp); [cbn [Nat.add] in Hcb; exact Hcb|].
        exists m', secs', cur', cnt'. split.
        * rewrite Hrun2. cbn [inline_count]. rewrite (next_mode_other modes m (BkText ls) I). reflexivity.
        * rewrite Hp. cbn [sections_of]. rewrite (next_mode_other modes m (BkText ls) I). reflexivity.
  Qed.
End Run.

(* ---------------------------------------------------------------- the recipe of a printed document *)
Lemma block_ok_ne cfg b : block_ok cfg b = true -> block_ne b.
Proof.
  unfold block_ok. intro H. apply andb_true_iff in H as [_ H]. destruct b as [k v|n1 nm n2 tr|items|ls]; cbn [block_ne]; auto.
  - apply andb_true_iff in H as [H _]. apply andb_true_iff in H as [_ H]. apply negb_true in H.
    intros ->. discriminate H.
  - apply andb_true_iff in H as [H H2]. destruct ls as [|l r]; [discriminate H2|]. cbn [forallb] in H. apply andb_true_iff in H as [H _].
    unfold tline_ok in H. apply andb_true_iff in H as [H _]. apply andb_true_iff in H as [_ H]. apply negb_true in H.
    destruct (toks_text (tl_toks l)) eqn:E; [discriminate|]. destruct r; cbn [tlines_text]; rewrite E; discriminate.
Qed.

Lemma analyse_from ci yaml_ok find_iq unit_class input x cfg d evs err :
  map ev_proj evs = doc_events d ->
  (text_reached (A.x_modes x) d mode0 = true -> Forall2 (src_ok input) evs (doc_srcs d) /\ strips d) ->
  Forall (fun b => block_ok cfg b = true) d ->
  adoc_ok ci find_iq unit_class x d = true ->
  obind (A.run ci yaml_ok find_iq unit_class input x A.cfgF
           (A.Build_astate [] {| A.sec_name := None; A.sec_content := [] |} [] [] [] 0%nat A.DMAll A.DupNew None 1%nat err false)
           (abstract_events evs)) (fun s => Done (A.output s, A.is_valid s))
  = Done (Some (denote ci find_iq (A.x_inline x) (A.x_modes x) d), negb err).
Proof.
  intros Hev Htx Hbl Hok. unfold adoc_ok in Hok. apply andb_true_iff in Hok as [Hok Hn]. apply andb_true_iff in Hok as [Hok Rc].
  apply andb_true_iff in Hok as [Hok Ri]. apply N.ltb_lt in Hn.
  assert (Hne : Forall block_ne d) by (eapply Forall_impl; [|exact Hbl]; intros b; apply block_ok_ne).
  assert (Hlk : linked ictx0 [] {| A.sec_name := None; A.sec_content := [] |}) by (repeat split).
  destruct (run_blocks ci yaml_ok find_iq unit_class input x d mode0 ictx0 evs [] None [] [] [] [] 0%nat 1%nat err
              Hlk Hev Htx Hne Hok (Forall_nil _) (Forall_nil _) Ri Rc (le_n 1)) as (m' & secs' & cur' & cnt' & Hrun & Hp); [lia|].
  change (A.Build_astate [] {| A.sec_name := None; A.sec_content := [] |} [] [] [] 0%nat A.DMAll A.DupNew None 1%nat err false)
    with (A.Build_astate [] {| A.sec_name := None; A.sec_content := [] |} [] [] [] 0%nat (md_define mode0) (dup_of (md_dupref mode0)) None 1%nat err false).
  rewrite Hrun. cbn [obind]. unfold A.output, A.is_valid. aproj. cbn [negb andb]. do 3 f_equal.
  unfold denote. f_equal. exact Hp.
Qed.

(* [input] is the source text given to the collector; in text mode it copies from it the range of each component:
   [src_ok input] says that range is the printed component (Proofs/RoundTripSpans.v), [strips] that the copy without
   comments is the printed component without its comment tokens *)
Theorem analyse_denote ci yaml_ok find_iq unit_class input x cfg d evs :
  map ev_proj evs = doc_events d ->
  (text_reached (A.x_modes x) d mode0 = true -> Forall2 (src_ok input) evs (doc_srcs d) /\ strips d) ->
  Forall (fun b => block_ok cfg b = true) d ->
  adoc_ok ci find_iq unit_class x d = true ->
  A.analyse ci yaml_ok find_iq unit_class input x A.cfgF (abstract_events evs)
  = Done (Some (denote ci find_iq (A.x_inline x) (A.x_modes x) d), true).
Proof.
  intros Hev Htx Hbl Hok. exact (analyse_from ci yaml_ok find_iq unit_class input x cfg d evs false Hev Htx Hbl Hok).
Qed.

(* with a front matter: the YAML event first; the recipe is valid when serde_yaml accepts the text *)
Theorem analyse_denote_fm ci yaml_ok find_iq unit_class input x cfg y d evs :
  map ev_proj evs = fm_doc_events y d ->
  (text_reached (A.x_modes x) d mode0 = true -> Forall2 (src_ok input) evs (None :: doc_srcs d) /\ strips d) ->
  Forall (fun b => block_ok cfg b = true) d ->
  adoc_ok ci find_iq unit_class x d = true ->
  A.analyse ci yaml_ok find_iq unit_class input x A.cfgF (abstract_events evs)
  = Done (Some (denote ci find_iq (A.x_inline x) (A.x_modes x) d), yaml_ok y).
Proof.
  intros Hev Htx Hbl Hok. unfold fm_doc_events in Hev. destruct evs as [|e evs]; [discriminate|]. cbn [map] in Hev.
  injection Hev as He Hev. destruct e; try discriminate. cbn [ev_proj] in He. injection He as He.
  assert (Htx' : text_reached (A.x_modes x) d mode0 = true -> Forall2 (src_ok input) evs (doc_srcs d) /\ strips d).
  { intro Ht. destruct (Htx Ht) as [Hsrc Hstrip]. inversion Hsrc as [|? ? ? ? _ Hsrc']; subst. split; assumption. }
  unfold A.analyse, abstract_events. cbn [map abstract_event A.run]. unfold A.step at 1. cbn [A.init A.a_halted obind].
  unfold A.add_error. cbn [A.init A.a_sections A.a_cur A.a_ingredients A.a_cookware A.a_timers A.a_inline A.a_define
                           A.a_duplicate A.a_block A.a_counter A.a_errors A.a_halted orb].
  rewrite ParserShape.text_str_abstract. fold (abstract_events evs).
  rewrite (analyse_from ci yaml_ok find_iq unit_class input x cfg d evs (negb (yaml_ok (text_str t))) Hev Htx' Hbl Hok).
  rewrite negb_involutive, He. reflexivity.
Qed.

(* ---------------------------------------------------------------- from the source text *)
From CL Require Import Proofs.RoundTripPrintDoc.
From CL Require Proofs.ParseTotal Proofs.MaskProofs Proofs.RoundTripDoc.

Lemma blocks_ok_forall cfg d : forall tp n, blocks_ok cfg d tp n = true -> Forall (fun b => block_ok cfg b = true) d.
Proof.
  induction d as [|b r IH]; intros tp n H; [constructor|]. cbn [blocks_ok] in H.
  apply andb_true_iff in H as [H Hr]. do 3 (apply andb_true_iff in H as [H _]).
  constructor; [exact H|exact (IH tp (S n) Hr)].
Qed.

(* a component of the document is a part of the printed token list *)
Lemma items_split c items : In c (item_comps items) -> exists a z, print_items items = a ++ print_comp c ++ z.
Proof.
  induction items as [|[t|c0] r IH]; cbn [item_comps flat_map app]; intro H; [destruct H| |].
  - destruct (IH H) as (a & z & E). exists (t ++ a), z. rewrite RoundTripDoc.print_items_cons, E. cbn [print_item]. rewrite app_assoc. reflexivity.
  - destruct H as [<-|H].
    + exists [], (print_items r). rewrite RoundTripDoc.print_items_cons. reflexivity.
    + destruct (IH H) as (a & z & E). exists (print_comp c0 ++ a), z. rewrite RoundTripDoc.print_items_cons, E. cbn [print_item]. rewrite app_assoc. reflexivity.
Qed.

Lemma blocks_split b d tp : forall n, In b d -> exists a z, print_blocks d tp n = a ++ print_block b ++ z.
Proof.
  induction d as [|b0 r IH]; intros n H; [destruct H|]. cbn [print_blocks]. destruct H as [<-|H].
  - exists []. eexists. reflexivity.
  - destruct (open_end r tp) eqn:Eo.
    + unfold open_end in Eo. destruct r; [destruct H|discriminate].
    + destruct (IH (S n) H) as (a & z & E). rewrite E.
      exists (print_block b0 ++ dt_nl tp n :: print_elines (dt_sep tp n) ++ a), z.
      rewrite <- !app_assoc. cbn [app]. rewrite <- !app_assoc. reflexivity.
Qed.

Lemma comp_adjacent U d tp c :
  adjacent_ok U (print_doc_toks d tp) = true -> In c (flat_map block_comps d) -> adjacent_ok U (print_comp c) = true.
Proof.
  intros Hadj Hc. apply in_flat_map in Hc as (b & Hb & Hc).
  destruct b as [| |items|]; try destruct Hc. cbn [block_comps] in Hc.
  destruct (blocks_split _ d tp 0%nat Hb) as (a & z & E). destruct (items_split c items Hc) as (a' & z' & E').
  unfold print_doc_toks in Hadj. rewrite E in Hadj. cbn [print_block] in Hadj. rewrite E' in Hadj.
  apply adjacent_suffix in Hadj. apply adjacent_suffix in Hadj. rewrite <- !app_assoc in Hadj.
  apply adjacent_suffix in Hadj. apply adjacent_prefix in Hadj. exact Hadj.
Qed.

Lemma doc_strips U d tp :
  (forall c, MaskProofs.special c = true -> is_word_char U c = false /\ is_lex_ws U c = false) ->
  adjacent_ok U (print_doc_toks d tp) = true -> strips d.
Proof. intros Hsp Hadj c Hc. apply (strip_printed U Hsp). exact (comp_adjacent U d tp c Hadj Hc). Qed.

(* print, then the whole pipeline of CooklangParser::parse (ParseTotal.parse_model = analyse . bridge . events).
   [Hsp]: the characters `-`, `[`, backslash break words and blanks in the classification U (true of the
   implementation's: Proofs/MaskGen.v); needed for text mode only, where the collector re-lexes what it copies *)
Theorem parse_print U cfg ci yaml_ok find_iq unit_class x d tp :
  (forall c, MaskProofs.special c = true -> is_word_char U c = false /\ is_lex_ws U c = false) ->
  doc_ok U cfg d tp = true -> adoc_ok ci find_iq unit_class x d = true ->
  ParseTotal.parse_model U cfg ci yaml_ok find_iq unit_class x (print_doc d tp)
  = Done (Some (denote ci find_iq (A.x_inline x) (A.x_modes x) d), true).
Proof.
  intros Hsp Hd Ha. destruct (events_print_doc_src U cfg d tp Hd) as (evs & Hev & Hp & Hsrc).
  unfold ParseTotal.parse_model. rewrite Hev. cbn [obind].
  unfold doc_ok in Hd. apply andb_true_iff in Hd as [Hd _]. unfold body_ok in Hd. apply andb_true_iff in Hd as [Hd Hb].
  apply andb_true_iff in Hd as [Hd _]. apply andb_true_iff in Hd as [_ Hadj].
  apply (analyse_denote ci yaml_ok find_iq unit_class (print_doc d tp) x cfg d evs Hp (fun _ => conj Hsrc (doc_strips U d tp Hsp Hadj))); [|exact Ha].
  exact (blocks_ok_forall cfg d tp 0%nat Hb).
Qed.

Theorem parse_print_fm U cfg ci yaml_ok find_iq unit_class x y ft d tp :
  (forall c, MaskProofs.special c = true -> is_word_char U c = false /\ is_lex_ws U c = false) ->
  fm_doc_ok U cfg y ft d tp = true -> adoc_ok ci find_iq unit_class x d = true ->
  ParseTotal.parse_model U cfg ci yaml_ok find_iq unit_class x (print_fm_doc y ft d tp)
  = Done (Some (denote ci find_iq (A.x_inline x) (A.x_modes x) d), yaml_ok y).
Proof.
  intros Hsp Hd Ha. destruct (events_print_fm_doc_src U cfg y ft d tp Hd) as (evs & Hev & Hp & Hsrc).
  unfold ParseTotal.parse_model. rewrite Hev. cbn [obind].
  unfold fm_doc_ok in Hd. apply andb_true_iff in Hd as [_ Hd]. unfold body_ok in Hd. apply andb_true_iff in Hd as [Hd Hb].
  apply andb_true_iff in Hd as [Hd _]. apply andb_true_iff in Hd as [_ Hadj].
  apply (analyse_denote_fm ci yaml_ok find_iq unit_class (print_fm_doc y ft d tp) x cfg y d evs Hp (fun _ => conj Hsrc (doc_strips U d tp Hsp Hadj))); [|exact Ha].
  exact (blocks_ok_forall cfg d tp 0%nat Hb).
Qed.

(* ---------------------------------------------------------------- the metadata map *)
From CL Require Model.MetaMap.

Definition spec_meta (specs : list ev_spec) : list (str * str) :=
  flat_map (fun e => match e with SMeta k v => [(k, v)] | _ => [] end) specs.
Definition spec_quiet (e : ev_spec) : bool := match e with SYaml _ | SDiag _ _ => false | _ => true end.

Lemma rev_head_last {T} (l : list T) d : hd d (rev l) = last l d.
Proof.
  induction l as [|a r IH]; [reflexivity|]. cbn [rev]. destruct r as [|b r'].
  - reflexivity.
  - cbn [last] in *. rewrite <- IH. cbn [rev]. destruct (rev r' ++ [b]) eqn:E; [destruct (rev r'); discriminate|reflexivity].
Qed.

Lemma bracketed_eq k : MetaMap.bracketed k = bracketed k.
Proof.
  unfold MetaMap.bracketed, bracketed. destruct k as [|c r]; [reflexivity|].
  rewrite <- (rev_head_last (c :: r) 0). destruct (rev (c :: r)) eqn:E; [|reflexivity].
  cbn [rev] in E. destruct (rev r); discriminate.
Qed.

Lemma spec_meta_app a b : spec_meta (a ++ b) = spec_meta a ++ spec_meta b.
Proof. unfold spec_meta. apply flat_map_app. Qed.

Section Meta.
  Variable Y : Type.
  Variable ystr : str -> Y.
  Variable yeqb : Y -> Y -> bool.
  Variable yaml : str -> option (list (Y * Y)).
  Variable modes : bool.

  Definition ins (m : list (Y * Y)) (kv : str * str) : list (Y * Y) :=
    MetaMap.ym_insert Y yeqb m (ystr (fst kv)) (ystr (snd kv)).

  Definition key_plain (e : ev_spec) : bool :=
    match e with SMeta k _ => negb (modes && bracketed k) | _ => true end.

  Lemma mm_run_quiet evs : forall s,
    MetaMap.mm_halted Y s = false ->
    forallb spec_quiet (map ev_proj evs) = true -> forallb key_plain (map ev_proj evs) = true ->
    MetaMap.mm_run Y ystr yeqb yaml modes s evs
    = MetaMap.set_map Y s (fold_left ins (spec_meta (map ev_proj evs)) (MetaMap.mm_map Y s)).
  Proof.
    induction evs as [|e r IH]; intros s Hh Hq Hk.
    - destruct s; reflexivity.
    - cbn [map forallb] in Hq, Hk. apply andb_true_iff in Hq as [Hqe Hq]. apply andb_true_iff in Hk as [Hke Hk].
      unfold MetaMap.mm_run. cbn [fold_left].
      assert (Hs : MetaMap.mm_step Y ystr yeqb yaml modes s e
                   = MetaMap.set_map Y s (fold_left ins (spec_meta [ev_proj e]) (MetaMap.mm_map Y s))).
      { unfold MetaMap.mm_step. rewrite Hh. destruct e; try discriminate; try (destruct s; reflexivity).
        cbn [ev_proj key_plain] in Hke. apply negb_true in Hke.
        unfold MetaMap.mm_metadata. rewrite bracketed_eq, Hke. reflexivity. }
      rewrite Hs. change (fold_left (MetaMap.mm_step Y ystr yeqb yaml modes) r ?s0) with (MetaMap.mm_run Y ystr yeqb yaml modes s0 r).
      rewrite IH; [|unfold MetaMap.set_map; cbn [MetaMap.mm_halted]; exact Hh|exact Hq|exact Hk].
      change (spec_meta (map ev_proj (e :: r))) with (spec_meta ([ev_proj e] ++ map ev_proj r)).
      rewrite spec_meta_app, fold_left_app.
      destruct s; reflexivity.
  Qed.
End Meta.

Lemma comp_quiet c : spec_quiet (denote_comp c) = true /\ spec_meta [denote_comp c] = [].
Proof. unfold denote_comp. destruct (cs_kind c); split; reflexivity. Qed.

Lemma items_quiet items :
  forallb spec_quiet (map denote_item items) = true /\ spec_meta (map denote_item items) = [] /\
  forall modes, forallb (key_plain modes) (map denote_item items) = true.
Proof.
  induction items as [|[t|c] r (IH1 & IH2 & IH3)]; [repeat split| |].
  - cbn [map forallb denote_item spec_quiet]. repeat split; auto.
  - cbn [map forallb denote_item]. destruct (comp_quiet c) as [H1 H2]. rewrite H1. repeat split; auto.
    + change (denote_comp c :: map denote_item r) with ([denote_comp c] ++ map denote_item r).
      rewrite spec_meta_app, H2. exact IH2.
    + intro m. rewrite IH3, andb_true_r. unfold denote_comp. destruct (cs_kind c); reflexivity.
Qed.

Lemma tlines_quiet ls :
  forallb spec_quiet (denote_tlines ls) = true /\ spec_meta (denote_tlines ls) = [] /\
  forall modes, forallb (key_plain modes) (denote_tlines ls) = true.
Proof.
  induction ls as [|l r (IH1 & IH2 & IH3)]; [repeat split|]. destruct r as [|l2 r]; [repeat split|].
  cbn [denote_tlines] in *. repeat split; auto.
Qed.

Definition meta_plain (modes : bool) (d : list block) : bool :=
  forallb (fun b => match b with BkMeta k _ => negb (modes && bracketed (clean (toks_text k))) | _ => true end) d.

Lemma doc_events_meta modes d :
  meta_plain modes d = true ->
  forallb spec_quiet (doc_events d) = true /\ spec_meta (doc_events d) = meta_entries d /\
  forallb (key_plain modes) (doc_events d) = true.
Proof.
  induction d as [|b r IH]; intro H; [repeat split|]. cbn [meta_plain forallb] in H. apply andb_true_iff in H as [Hb Hr].
  destruct (IH Hr) as (I1 & I2 & I3).
  unfold doc_events. cbn [map concat]. fold (doc_events r). rewrite !forallb_app, spec_meta_app, I1, I2, I3, !andb_true_r.
  cbn [meta_entries flat_map]. fold (meta_entries r).
  destruct b as [k v|n1 nm n2 tr|items|ls]; cbn [denote_block].
  - cbn. rewrite Hb. repeat split.
  - repeat split.
  - destruct (items_quiet items) as (H1 & H2 & H3). cbn [forallb spec_quiet key_plain andb].
    rewrite !forallb_app, H1, H3. cbn [forallb spec_quiet key_plain andb]. repeat split.
    change (SStart true :: map denote_item items ++ [SEnd true]) with ([SStart true] ++ map denote_item items ++ [SEnd true]).
    rewrite !spec_meta_app, H2. reflexivity.
  - destruct (tlines_quiet ls) as (H1 & H2 & H3). cbn [forallb spec_quiet key_plain andb].
    rewrite !forallb_app, H1, H3. cbn [forallb spec_quiet key_plain andb]. repeat split.
    change (SStart false :: denote_tlines ls ++ [SEnd false]) with ([SStart false] ++ denote_tlines ls ++ [SEnd false]).
    rewrite !spec_meta_app, H2. reflexivity.
Qed.

(* the metadata map of the recipe (Model/MetaMap.v: the projection of the collector on content.metadata.map):
   the `>>` entries of the document inserted in order, a repeated key keeps its place and takes the last value *)
Theorem metadata_denote Y ystr yeqb yaml modes d evs :
  map ev_proj evs = doc_events d -> meta_plain modes d = true ->
  MetaMap.metadata_of Y ystr yeqb yaml modes evs = Some (fold_left (ins Y ystr yeqb) (meta_entries d) []).
Proof.
  intros Hev Hp. destruct (doc_events_meta modes d Hp) as (H1 & H2 & H3).
  unfold MetaMap.metadata_of. rewrite (mm_run_quiet Y ystr yeqb yaml modes evs); [|reflexivity|rewrite Hev; exact H1|rewrite Hev; exact H3].
  rewrite Hev, H2. reflexivity.
Qed.

(* with a front matter: the map is what serde_yaml made of the YAML text (the oracle's answer) *)
Theorem metadata_denote_fm Y ystr yeqb yaml modes y d evs m :
  map ev_proj evs = fm_doc_events y d -> forallb (fun b => negb (is_meta_block b)) d = true -> yaml y = Some m ->
  MetaMap.metadata_of Y ystr yeqb yaml modes evs = Some m.
Proof.
  intros Hev Hnm Hy. unfold fm_doc_events in Hev. destruct evs as [|e evs]; [discriminate|]. cbn [map] in Hev.
  injection Hev as He Hev. destruct e; try discriminate. cbn [ev_proj] in He. injection He as He.
  assert (Hp : meta_plain modes d = true).
  { unfold meta_plain. rewrite forallb_forall in Hnm |- *. intros b Hb. specialize (Hnm b Hb). destruct b; try reflexivity; discriminate. }
  assert (Hme : meta_entries d = []).
  { clear - Hnm. induction d as [|b r IH]; [reflexivity|]. cbn [forallb] in Hnm. apply andb_true_iff in Hnm as [Hb Hr].
    cbn [meta_entries flat_map]. fold (meta_entries r). rewrite (IH Hr). destruct b; try reflexivity; discriminate. }
  destruct (doc_events_meta modes d Hp) as (H1 & H2 & H3).
  unfold MetaMap.metadata_of, MetaMap.mm_run. cbn [fold_left]. unfold MetaMap.mm_step at 2. cbn [MetaMap.mm_init MetaMap.mm_halted].
  rewrite He, Hy.
  change (fold_left (MetaMap.mm_step Y ystr yeqb yaml modes) evs ?s0) with (MetaMap.mm_run Y ystr yeqb yaml modes s0 evs).
  rewrite (mm_run_quiet Y ystr yeqb yaml modes evs); [|reflexivity|rewrite Hev; exact H1|rewrite Hev; exact H3].
  rewrite Hev, H2, Hme. reflexivity.
Qed.

(* ---------------------------------------------------------------- the metadata map, mode switches included *)
Definition spec_kept (modes : bool) (specs : list ev_spec) : list (str * str) :=
  flat_map (fun e => match e with SMeta k v => if mode_key modes k then [] else [(k, v)] | _ => [] end) specs.

Lemma spec_kept_app modes a b : spec_kept modes (a ++ b) = spec_kept modes a ++ spec_kept modes b.
Proof. unfold spec_kept. apply flat_map_app. Qed.

Section MetaModes.
  Variable Y : Type.
  Variable ystr : str -> Y.
  Variable yeqb : Y -> Y -> bool.
  Variable yaml : str -> option (list (Y * Y)).
  Variable modes : bool.

  Lemma mm_run_modes evs : forall s,
    MetaMap.mm_halted Y s = false -> MetaMap.mm_old Y s = true ->
    forallb spec_quiet (map ev_proj evs) = true ->
    MetaMap.mm_run Y ystr yeqb yaml modes s evs
    = MetaMap.set_map Y s (fold_left (ins Y ystr yeqb) (spec_kept modes (map ev_proj evs)) (MetaMap.mm_map Y s)).
  Proof.
    induction evs as [|e r IH]; intros s Hh Ho Hq.
    - destruct s; reflexivity.
    - cbn [map forallb] in Hq. apply andb_true_iff in Hq as [Hqe Hq].
      unfold MetaMap.mm_run. cbn [fold_left].
      assert (Hs : MetaMap.mm_step Y ystr yeqb yaml modes s e
                   = MetaMap.set_map Y s (fold_left (ins Y ystr yeqb) (spec_kept modes [ev_proj e]) (MetaMap.mm_map Y s))).
      { unfold MetaMap.mm_step. rewrite Hh. destruct e; try discriminate; try (destruct s; reflexivity).
        cbn [ev_proj spec_kept flat_map app]. unfold MetaMap.mm_metadata, mode_key. rewrite bracketed_eq, Ho. cbv zeta.
        change MetaMap.cs_define with w_define. change MetaMap.cs_mode with w_mode. change MetaMap.cs_duplicate with w_duplicate.
        destruct (modes && bracketed (text_trimmed key)); cbn [andb]; [|reflexivity].
        destruct (str_eqb _ w_define || str_eqb _ w_mode || str_eqb _ w_duplicate); [destruct s; reflexivity|reflexivity]. }
      rewrite Hs. change (fold_left (MetaMap.mm_step Y ystr yeqb yaml modes) r ?s0) with (MetaMap.mm_run Y ystr yeqb yaml modes s0 r).
      rewrite IH; [|unfold MetaMap.set_map; cbn [MetaMap.mm_halted]; exact Hh|unfold MetaMap.set_map; cbn [MetaMap.mm_old]; exact Ho|exact Hq].
      change (spec_kept modes (map ev_proj (e :: r))) with (spec_kept modes ([ev_proj e] ++ map ev_proj r)).
      rewrite spec_kept_app, fold_left_app.
      destruct s; reflexivity.
  Qed.
End MetaModes.

Lemma quiet_no_meta specs : spec_meta specs = [] -> forall modes, spec_kept modes specs = [].
Proof.
  induction specs as [|e r IH]; intros H modes; [reflexivity|].
  change (e :: r) with ([e] ++ r) in H |- *. rewrite spec_meta_app in H. rewrite spec_kept_app.
  apply app_eq_nil in H as [H1 H2]. rewrite (IH H2). destruct e; try reflexivity. discriminate H1.
Qed.

Lemma doc_events_kept modes d : spec_kept modes (doc_events d) = kept_entries modes d.
Proof.
  induction d as [|b r IH]; [reflexivity|].
  unfold doc_events. cbn [map concat]. fold (doc_events r). rewrite spec_kept_app, IH.
  cbn [kept_entries flat_map]. fold (kept_entries modes r). f_equal.
  destruct b as [k v|n1 nm n2 tr|items|ls]; cbn [denote_block].
  - cbn [spec_kept flat_map]. rewrite app_nil_r. reflexivity.
  - reflexivity.
  - apply quiet_no_meta. destruct (items_quiet items) as (_ & H2 & _).
    change (SStart true :: map denote_item items ++ [SEnd true]) with ([SStart true] ++ map denote_item items ++ [SEnd true]).
    rewrite !spec_meta_app, H2. reflexivity.
  - apply quiet_no_meta. destruct (tlines_quiet ls) as (_ & H2 & _).
    change (SStart false :: denote_tlines ls ++ [SEnd false]) with ([SStart false] ++ denote_tlines ls ++ [SEnd false]).
    rewrite !spec_meta_app, H2. reflexivity.
Qed.

(* the metadata map of a printed document, mode switches included: the `>>` entries that are not mode switches,
   inserted in order (an unknown `[..]` key is an entry: the code warns and, without a front matter, keeps it) *)
Theorem metadata_denote_modes Y ystr yeqb yaml modes d evs :
  map ev_proj evs = doc_events d ->
  MetaMap.metadata_of Y ystr yeqb yaml modes evs = Some (fold_left (ins Y ystr yeqb) (kept_entries modes d) []).
Proof.
  intros Hev.
  assert (Hp : meta_plain false d = true).
  { unfold meta_plain. apply forallb_forall. intros b _. destruct b; reflexivity. }
  destruct (doc_events_meta false d Hp) as (H1 & _ & _).
  unfold MetaMap.metadata_of. rewrite (mm_run_modes Y ystr yeqb yaml modes evs); [|reflexivity|reflexivity|rewrite Hev; exact H1].
  rewrite Hev, doc_events_kept. reflexivity.
Qed.

Lemma kept_entries_plain modes d : meta_plain modes d = true -> kept_entries modes d = meta_entries d.
Proof.
  induction d as [|b r IH]; intro H; [reflexivity|]. cbn [meta_plain forallb] in H. apply andb_true_iff in H as [Hb Hr].
  cbn [kept_entries meta_entries flat_map]. fold (kept_entries modes r) (meta_entries r). rewrite (IH Hr). f_equal.
  destruct b; try reflexivity. unfold mode_key. apply negb_true in Hb. rewrite Hb. reflexivity.
Qed.

(* ---------------------------------------------------------------- what [find_def] finds *)
Lemma rposition_none_iff {T} (p : T -> bool) l : A.rposition p l = None <-> forall o, In o l -> p o = false.
Proof.
  induction l as [|a r IH]; cbn [A.rposition]; [split; [intros _ o []|reflexivity]|].
  destruct (A.rposition p r) as [i|] eqn:E.
  - split; [discriminate|]. intro H. exfalso.
    assert (Hn : Some i = None) by (apply IH; intros o Ho; apply H; right; exact Ho). discriminate.
  - destruct (p a) eqn:Pa.
    + split; [discriminate|]. intro H. rewrite (H a (or_introl eq_refl)) in Pa. discriminate.
    + split; [|reflexivity]. intros _ o [<-|Ho]; [exact Pa|]. apply (proj1 IH eq_refl o Ho).
Qed.

Lemma rposition_spec {T} (p : T -> bool) l : forall j,
  A.rposition p l = Some j <->
  (exists a, nth_error l j = Some a /\ p a = true) /\
  (forall k o, (j < k)%nat -> nth_error l k = Some o -> p o = false).
Proof.
  induction l as [|a r IH]; intro j; cbn [A.rposition].
  - split; [discriminate|]. intros [(x & Hx & _) _]. destruct j; discriminate.
  - destruct (A.rposition p r) as [i|] eqn:E.
    + destruct (proj1 (IH i) eq_refl) as [(x & Hx & Px) Hlast]. split.
      * intros [= <-]. split; [exists x; split; assumption|]. intros k o Hk Ho. destruct k as [|k']; [lia|].
        cbn [nth_error] in Ho. apply (Hlast k' o); [lia|exact Ho].
      * intros [(y & Hy & Py) Hl]. destruct j as [|j'].
        -- exfalso. rewrite (Hl (S i) x) in Px; [discriminate|lia|exact Hx].
        -- f_equal. cbn [nth_error] in Hy.
           assert (Hj : Some i = Some j').
           { apply IH. split; [exists y; split; assumption|]. intros k o Hk Ho. apply (Hl (S k) o); [lia|exact Ho]. }
           injection Hj as ->. reflexivity.
    + pose proof (proj1 (rposition_none_iff p r) E) as Hnone. destruct (p a) eqn:Pa.
      * split.
        -- intros [= <-]. split; [exists a; split; [reflexivity|exact Pa]|]. intros k o Hk Ho. destruct k; [lia|].
           cbn [nth_error] in Ho. apply Hnone. eapply nth_error_In. exact Ho.
        -- intros [(y & Hy & Py) Hl]. destruct j as [|j']; [reflexivity|]. cbn [nth_error] in Hy.
           rewrite (Hnone y) in Py; [discriminate|]. eapply nth_error_In. exact Hy.
      * split; [discriminate|]. intros [(y & Hy & Py) Hl]. destruct j as [|j'].
        -- cbn [nth_error] in Hy. injection Hy as <-. rewrite Pa in Py. discriminate.
        -- cbn [nth_error] in Hy. rewrite (Hnone y) in Py; [discriminate|]. eapply nth_error_In. exact Hy.
Qed.

(* the target of a `&` reference: the last entry of the table that is a definition with the same (folded) name *)
Theorem find_def_spec ci tbl name j :
  find_def ci tbl name = Some j <->
  (exists def, nth_error tbl j = Some def /\ is_def def = true /\ str_eqb (ci name) (ci (A.c_name def)) = true) /\
  (forall k o, (j < k)%nat -> nth_error tbl k = Some o -> is_def o && str_eqb (ci name) (ci (A.c_name o)) = false).
Proof.
  unfold find_def. rewrite last_index_spec.
  set (p := fun o => is_def o && str_eqb (ci name) (ci (A.c_name o))).
  assert (Hiff : match A.rposition p tbl with Some k => Some (0 + k)%nat | None => None end = Some j <-> A.rposition p tbl = Some j).
  { destruct (A.rposition p tbl); cbn [Nat.add]; tauto. }
  rewrite Hiff, rposition_spec. split.
  - intros [(a & Ha & Pa) Hl]. split; [|exact Hl]. apply andb_true_iff in Pa as [P1 P2]. exists a. auto.
  - intros [(a & Ha & P1 & P2) Hl]. split; [|exact Hl]. exists a. split; [exact Ha|]. unfold p. rewrite P1, P2. reflexivity.
Qed.
