(* C02, "with no errors": a text that spells a document specification d (the printer classes of
   Model/Printer.v, C01) which is well formed under every one of the 192 extension sets is
   parsed, under each of these sets, without panic and without any diagnostic - error or
   warning - to the events d denotes.  The class is decidable: [core_spelling U cfg text d]
   computes the front matter test, lexes the text, cuts it into blocks with the splitter of
   the pull parser and compares each block, token by token, with the printed block of d. *)
From CL Require Import Base.StrLemmas Model.Parser Model.Printer Proofs.ParserSeg Proofs.ParserGates
  Proofs.C02Invariance Proofs.MetaIterProofs Proofs.RoundTripDoc.

Definition tok_eqb (a b : tok) : bool :=
  tk_eqb (kind a) (kind b) && str_eqb (tstr a) (tstr b) && (tstart a =? tstart b).

Lemma tok_eqb_eq a b : tok_eqb a b = true -> a = b.
Proof.
  unfold tok_eqb. intro H. apply andb_prop in H. destruct H as [H H3]. apply andb_prop in H. destruct H as [H1 H2].
  apply tk_eqb_true in H1. apply str_eqb_eq in H2. apply N.eqb_eq in H3.
  destruct a, b. cbn in *. subst. reflexivity.
Qed.

Fixpoint toks_eqb (a b : list tok) : bool :=
  match a, b with
  | [], [] => true
  | x :: a', y :: b' => tok_eqb x y && toks_eqb a' b'
  | _, _ => false
  end.

Lemma toks_eqb_eq : forall a b, toks_eqb a b = true -> a = b.
Proof.
  induction a as [|x a IH]; intros [|y b] H; cbn [toks_eqb] in H; try discriminate; [reflexivity|].
  apply andb_prop in H. destruct H as [H1 H2]. rewrite (tok_eqb_eq _ _ H1), (IH _ H2). reflexivity.
Qed.

(* the token block is the printed block b, placed where the block starts *)
Definition prints_b (blk : list tok) (b : block) : bool :=
  match blk with
  | [] => false
  | t :: _ => toks_eqb blk (place (tstart t) (print_block b))
  end.

Lemma prints_b_sound blk b : prints_b blk b = true -> prints blk b.
Proof. unfold prints_b, prints. destruct blk as [|t r]; [discriminate|]. intro H. exists (tstart t). exact (toks_eqb_eq _ _ H). Qed.

Fixpoint forall2b {A B} (f : A -> B -> bool) (l1 : list A) (l2 : list B) : bool :=
  match l1, l2 with
  | [], [] => true
  | a :: r1, b :: r2 => f a b && forall2b f r1 r2
  | _, _ => false
  end.

Lemma forall2b_Forall2 {A B} (f : A -> B -> bool) (R : A -> B -> Prop) :
  (forall a b, f a b = true -> R a b) -> forall l1 l2, forall2b f l1 l2 = true -> Forall2 R l1 l2.
Proof.
  intro Hf. induction l1 as [|a r1 IH]; intros [|b r2] H; cbn [forall2b] in H; try discriminate; [constructor|].
  apply andb_prop in H. destruct H as [H1 H2]. constructor; [apply Hf, H1 | apply IH, H2].
Qed.

Definition sec_trail_ok_b (b : block) : bool :=
  match b with BkSection _ _ n2 trail => negb (Nat.eqb n2 0) || is_nil trail | _ => true end.

Lemma sec_trail_ok_b_sound b : sec_trail_ok_b b = true -> sec_trail_ok b.
Proof.
  destruct b; cbn; try (intros; exact I). intros H Hn. subst. cbn in H. destruct trail; [reflexivity|discriminate].
Qed.

(* the specification is well formed under every extension set: none of its constructs needs an
   extension, none is reinterpreted by one *)
Definition core_spec (cfg : pcfg) (d : list block) : bool :=
  forallb (fun e => forallb (fun b => Printer.block_ok (with_ext cfg e) b && sec_trail_ok_b b) d) ext_sets.

Definition core_spelling (U : N -> ucls) (cfg : pcfg) (text : str) (d : list block) : bool :=
  negb (p_strict_escape cfg)
  && match parse_frontmatter cfg text with
     | Some _ => false
     | None => match lex_at U text 0 with
               | Some ts => forall2b prints_b (blocks ts) d
               | None => false
               end
     end
  && core_spec cfg d.

Definition no_diag (ev : pevent) : bool := match ev with EvDiag _ => false | _ => true end.
Definition spec_no_diag (sp : ev_spec) : bool := match sp with SDiag _ _ => false | _ => true end.

Lemma denote_tlines_no_diag ls : forallb spec_no_diag (denote_tlines ls) = true.
Proof.
  induction ls as [|l r IH]; [reflexivity|]. cbn [denote_tlines]. destruct r as [|l2 r2]; [reflexivity|].
  cbn [forallb spec_no_diag]. exact IH.
Qed.

Lemma denote_items_no_diag items : forallb spec_no_diag (map denote_item items) = true.
Proof.
  induction items as [|i r IH]; [reflexivity|]. cbn [map forallb]. rewrite IH, andb_true_r.
  destruct i as [t|c0]; [reflexivity|]. unfold denote_item, denote_comp. destruct (cs_kind c0); reflexivity.
Qed.

Lemma denote_block_no_diag b : forallb spec_no_diag (denote_block b) = true.
Proof.
  destruct b; try reflexivity.
  - change (forallb spec_no_diag (map denote_item items ++ [SEnd true]) = true).
    rewrite forallb_app, denote_items_no_diag. reflexivity.
  - change (forallb spec_no_diag (denote_tlines lines ++ [SEnd false]) = true).
    rewrite forallb_app, denote_tlines_no_diag. reflexivity.
Qed.

Lemma proj_no_diag evs specs :
  map ev_proj evs = specs -> forallb spec_no_diag specs = true -> forallb no_diag evs = true.
Proof.
  intros <-. induction evs as [|ev r IH]; [reflexivity|]. cbn [map forallb]. intro H.
  apply andb_prop in H. destruct H as [H1 H2]. rewrite (IH H2), andb_true_r. destruct ev; try reflexivity. discriminate.
Qed.

Lemma core_spelling_inv U cfg text d :
  core_spelling U cfg text d = true ->
  p_strict_escape cfg = false /\ parse_frontmatter cfg text = None
  /\ (exists ts, lex_at U text 0 = Some ts /\ forall2b prints_b (blocks ts) d = true)
  /\ core_spec cfg d = true.
Proof.
  unfold core_spelling. intro H.
  apply andb_prop in H. destruct H as [H Hspec]. apply andb_prop in H. destruct H as [Hs Hl].
  split; [destruct (p_strict_escape cfg); [discriminate|reflexivity]|].
  destruct (parse_frontmatter cfg text) as [fm|]; [discriminate|]. split; [reflexivity|].
  destruct (lex_at U text 0) as [ts|]; [|discriminate]. split; [exists ts; split; [reflexivity|exact Hl]|exact Hspec].
Qed.

Lemma core_spec_inv_gen (sets : list N) cfg d e :
  In e sets ->
  forallb (fun e => forallb (fun b => Printer.block_ok (with_ext cfg e) b && sec_trail_ok_b b) d) sets = true ->
  Forall (fun b => Printer.block_ok (with_ext cfg e) b = true /\ sec_trail_ok b) d.
Proof.
  intros He Hspec.
  pose proof (proj1 (forallb_forall _ _) Hspec e He) as H1. cbv beta in H1.
  apply Forall_forall. intros b Hb. pose proof (proj1 (forallb_forall _ _) H1 b Hb) as H2. cbv beta in H2.
  apply andb_prop in H2. destruct H2 as [A B]. split; [exact A | exact (sec_trail_ok_b_sound b B)].
Qed.

Lemma core_spec_inv cfg d e :
  In e ext_sets -> core_spec cfg d = true ->
  Forall (fun b => Printer.block_ok (with_ext cfg e) b = true /\ sec_trail_ok b) d.
Proof. exact (core_spec_inv_gen ext_sets cfg d e). Qed.

Lemma specs_no_diag d : forallb spec_no_diag (concat (map denote_block d)) = true.
Proof.
  rewrite forallb_forall. intros sp Hin.
  apply in_concat in Hin. destruct Hin as (l & Hl1 & Hl2). apply in_map_iff in Hl1. destruct Hl1 as (b & <- & _).
  pose proof (denote_block_no_diag b) as Hb. rewrite forallb_forall in Hb. exact (Hb sp Hl2).
Qed.

Theorem core_no_diagnostics U cfg text d e :
  In e ext_sets -> core_spelling U cfg text d = true ->
  exists evs, events U (with_ext cfg e) text = Done evs /\ forallb no_diag evs = true
              /\ map ev_proj evs = concat (map denote_block d).
Proof.
  intros He H. destruct (core_spelling_inv U cfg text d H) as (Hs & Hf & (ts & El & Hl) & Hspec).
  destruct (events_print (with_ext cfg e) Hs U text d ts Hf El
              (forall2b_Forall2 prints_b prints prints_b_sound _ _ Hl) (core_spec_inv cfg d e He Hspec)) as (evs & Hev & Hp).
  exists evs. split; [exact Hev|]. split; [|exact Hp].
  exact (proj_no_diag evs _ Hp (specs_no_diag d)).
Qed.
