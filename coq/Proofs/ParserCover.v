(* Coverage (C05), part 1: what "a content token is covered by an event" means, and the text
   layer.  A text built by BlockParser::text from a located chain of tokens ([seg]) has, around
   the payload of every non-blank content token of the chain, a non-blank fragment; its span
   contains all its fragments and stays within the chain.  Partial correctness: the statements
   are about runs that return [Done] (panics are the subject of C03), so no hypothesis on the
   configuration is needed.
   Parts 2-5: ParserCoverFrame.v (frame facts of every block-parser function, spans of the
   component parsers), ParserCoverBlock.v (the loop invariant, one block), ParserCoverDoc.v (the
   block splitter, the document), ParserCoverChars.v (characters, front matter, comments). *)
From CL Require Import Base.StrLemmas Model.Lexer Model.CommentMask Model.Parser
  Proofs.LexerProofs Proofs.ParserSeg Proofs.ParserSplit Proofs.ParserFM.

(* ------------------------------------------------------------------ what "covered" means *)

(* the span an event covers (as the monitor computes it: harness/src/bin/pmon.rs ev_span) *)
Definition event_span (e : pevent) : option (N * N) :=
  match e with
  | EvYaml t | EvText t => Some (text_span t)
  | EvMetadata k v => Some (fst (text_span k), N.max (snd (text_span v)) (snd (text_span k)))
  | EvSection (Some t) => Some (text_span t)
  | EvIngredient i => Some (i_span i)
  | EvCookware c => Some (c_span c)
  | EvTimer t => Some (t_span t)
  | _ => None
  end.

(* the characters a content token contributes: an escaped token `\x` contributes x *)
Definition payload (t : tok) : str :=
  match kind t with KEscaped => tl (tstr t) | _ => tstr t end.
Definition pstart (t : tok) : N :=
  match kind t with KEscaped => tstart t + 1 | _ => tstart t end.

(* a content token (Word / Int / ZeroInt / Escaped) whose payload is not blank *)
Definition good (t : tok) : Prop :=
  content_kind (kind t) = true /\ str_blank (payload t) = false.

Definition covers (sp : span) (t : tok) : Prop := fst sp <= pstart t /\ tend t <= snd sp.

Definition covered (evs : list pevent) (t : tok) : Prop :=
  exists e sp, In e evs /\ event_span e = Some sp /\ covers sp t.

Lemma covered_mono evs evs' t : (forall e, In e evs -> In e evs') -> covered evs t -> covered evs' t.
Proof. intros H (e & sp & A & B & C). exists e, sp. split; [apply H; exact A|tauto]. Qed.

Lemma payload_plain t : kind t <> KEscaped -> payload t = tstr t /\ pstart t = tstart t.
Proof. unfold payload, pstart. destruct (kind t); try (split; reflexivity). congruence. Qed.

Lemma str_blank_app a b : str_blank (a ++ b) = str_blank a && str_blank b.
Proof. apply forallb_app. Qed.

Lemma good_content t : good t -> content_kind (kind t) = true.
Proof. unfold good. tauto. Qed.

(* ------------------------------------------------------------------ texts *)

Section Cover.
  Variable src : str.
  Variable cfg : pcfg.

  Notation seg := (seg src).
  Notation tok_in := (tok_in src).

  (* a non-blank fragment of t lies around [a, b) *)
  Definition holds (t : text) (a b : N) : Prop :=
    exists f, In f (frags t) /\ str_blank (ftext f) = false /\ foff f <= a /\ b <= frag_end f.

  (* the span of a text contains its fragments *)
  Definition tspan_ok (t : text) : Prop :=
    forall f, In f (frags t) -> fst (text_span t) <= foff f /\ frag_end f <= snd (text_span t).

  Definition tbounds (t : text) (lo hi : N) : Prop :=
    lo <= fst (text_span t) /\ fst (text_span t) <= snd (text_span t) /\ snd (text_span t) <= hi.

  Lemma append_fragment_inv t f t1 lo :
    append_fragment t f = Done t1 -> tspan_ok t -> fst (text_span t) <= snd (text_span t) ->
    lo <= fst (text_span t) -> lo <= foff f ->
    tspan_ok t1 /\ lo <= fst (text_span t1) /\ fst (text_span t1) <= snd (text_span t1) /\
    snd (text_span t1) <= frag_end f /\ (forall g, In g (frags t) -> In g (frags t1)) /\
    (ftext f <> [] -> In f (frags t1)).
  Proof.
    intros H Hs Hle Hlo Hlo'. unfold append_fragment in H.
    destruct (snd (text_span t) <=? foff f) eqn:E; [|discriminate]. apply N.leb_le in E.
    assert (Hfe : foff f <= frag_end f) by (unfold frag_end; lia).
    destruct (ftext f) as [|c r] eqn:Ef.
    - injection H as <-. split; [exact Hs|]. split; [exact Hlo|]. split; [exact Hle|]. split; [lia|].
      split; [tauto|congruence].
    - injection H as <-. unfold tspan_ok, text_span in *; cbn [frags toff].
      destruct (frags t) as [|g l] eqn:Eg; cbn [app fst snd] in *.
      + change (last [f] f) with f. split.
        { intros f' [<-|[]]. split; lia. }
        split; [exact Hlo'|]. split; [exact Hfe|]. split; [lia|]. split; [intros g []|]. intros _. left. reflexivity.
      + change (g :: l ++ [f]) with ((g :: l) ++ [f]). rewrite last_snoc. split.
        { intros f' Hf'. apply in_app_or in Hf' as [Hf'|[<-|[]]].
          - destruct (Hs f' Hf') as (A & B). split; [exact A|lia].
          - split; lia. }
        split; [exact Hlo|]. split; [lia|]. split; [lia|]. split.
        * intros g' Hg'. apply in_or_app. left. exact Hg'.
        * intros _. apply in_or_app. right. left. reflexivity.
  Qed.

  Lemma append_str_inv t cur cs t1 lo :
    append_str t cur cs = Done t1 -> tspan_ok t -> fst (text_span t) <= snd (text_span t) ->
    lo <= fst (text_span t) -> lo <= cs ->
    tspan_ok t1 /\ lo <= fst (text_span t1) /\ fst (text_span t1) <= snd (text_span t1) /\
    snd (text_span t1) <= cs + blen cur /\ (forall g, In g (frags t) -> In g (frags t1)) /\
    (str_blank cur = false -> holds t1 cs (cs + blen cur)).
  Proof.
    intros H Hs Hle Hlo Hlo'. unfold append_str in H.
    destruct (append_fragment_inv _ _ _ lo H Hs Hle Hlo Hlo') as (A & B & C & D & E & F).
    split; [exact A|]. split; [exact B|]. split; [exact C|]. split; [exact D|]. split; [exact E|].
    intro Hb. exists {| ftext := cur; foff := cs; fsoft := false |}. cbn [ftext foff] in *.
    split; [apply F; intro Hc; rewrite Hc in Hb; discriminate|]. split; [exact Hb|].
    unfold frag_end; cbn [ftext foff]. lia.
  Qed.

  Lemma holds_mono t t' a b :
    (forall g, In g (frags t) -> In g (frags t')) -> holds t a b -> holds t' a b.
  Proof. intros H (f & A & B). exists f. split; [apply H; exact A|exact B]. Qed.

  Lemma holds_weaken t a b a' b' : holds t a b -> a <= a' -> b' <= b -> holds t a' b'.
  Proof. intros (f & A & B & C & D) H1 H2. exists f. repeat split; try assumption; lia. Qed.

  Definition text_post (t t' : text) (lo en cs : N) (cur : str) (ts : list tok) : Prop :=
    tspan_ok t' /\ lo <= fst (text_span t') /\ fst (text_span t') <= snd (text_span t') /\
    snd (text_span t') <= en /\
    (forall g, In g (frags t) -> In g (frags t')) /\
    (str_blank cur = false -> holds t' cs (cs + blen cur)) /\
    (forall tk, In tk ts -> good tk -> holds t' (pstart tk) (tend tk)).

  Lemma text_loop_cov ts : forall t cs cur en lo t',
    seg (cs + blen cur) ts en -> text_loop cfg ts t cs cur = Done t' ->
    tspan_ok t -> fst (text_span t) <= snd (text_span t) -> lo <= fst (text_span t) -> lo <= cs ->
    text_post t t' lo en cs cur ts.
  Proof.
    induction ts as [|tk r IH]; intros t cs cur en lo t' Hseg H Hs Hle Hlo Hlo'; cbn [text_loop] in H.
    - cbn [ParserSeg.seg] in Hseg. destruct Hseg as (<- & _).
      destruct (append_str_inv _ _ _ _ lo H Hs Hle Hlo Hlo') as (A & B & C & D & E & F).
      unfold text_post. repeat (split; [assumption|]). intros tk [].
    - cbn [ParserSeg.seg] in Hseg. destruct Hseg as (Hst & Htk & Hseg).
      pose proof (tok_in_lt _ _ Htk) as Hlt.
      (* a token that only extends the pending fragment *)
      assert (Hdef : kind tk <> KEscaped -> text_loop cfg r t cs (cur ++ tstr tk) = Done t' ->
                     text_post t t' lo en cs cur (tk :: r)).
      { intros Hk H'. destruct (IH t cs (cur ++ tstr tk) en lo t') as (A & B & C & D & E & F & G); try assumption.
        - rewrite blen_app. unfold tend in Hseg. rewrite Hst in Hseg. rewrite N.add_assoc. exact Hseg.
        - unfold text_post. repeat (split; [assumption|]). rewrite blen_app in F. split.
          + intro Hb. eapply holds_weaken; [apply F; rewrite str_blank_app, Hb; reflexivity|lia|lia].
          + intros tk' [<-|Hi] Hg; [|apply G; assumption].
            destruct (payload_plain tk Hk) as (Ep & Es). destruct Hg as (_ & Hg). rewrite Ep in Hg.
            eapply holds_weaken; [apply F; rewrite str_blank_app, Hg; apply andb_false_r| |].
            * rewrite Es. lia.
            * unfold tend. lia. }
      (* a token that closes the pending fragment; the next one starts at [cs'] with [cur'] *)
      assert (Hcut : forall t1 cs' cur', append_str t cur cs = Done t1 ->
                       text_loop cfg r t1 cs' cur' = Done t' -> cs + blen cur <= cs' ->
                       cs' + blen cur' = tend tk ->
                       (good tk -> kind tk = KEscaped /\ cs' = tstart tk + 1 /\ cur' = tl (tstr tk)) ->
                       text_post t t' lo en cs cur (tk :: r)).
      { intros t1 cs' cur' E1 H' Hcs Hen Hgood.
        destruct (append_str_inv _ _ _ _ lo E1 Hs Hle Hlo Hlo') as (A1 & B1 & C1 & D1 & E1' & F1).
        destruct (IH t1 cs' cur' en lo t') as (A & B & C & D & E & F & G); try assumption; try lia.
        - rewrite Hen. exact Hseg.
        - unfold text_post. repeat (split; [assumption|]). split; [intros g Hg; apply E, E1', Hg|]. split.
          + intro Hb. eapply holds_mono; [exact E|apply F1; exact Hb].
          + intros tk' [<-|Hi] Hg; [|apply G; assumption].
            destruct (Hgood Hg) as (Ek & -> & ->). unfold pstart. rewrite Ek.
            destruct Hg as (_ & Hg). unfold payload in Hg. rewrite Ek in Hg. rewrite <- Hen. apply F. exact Hg. }
      assert (Hnogood : forall k, kind tk = k -> content_kind k = false -> good tk -> False).
      { intros k Ek Hc (Hg & _). rewrite Ek, Hc in Hg. discriminate. }
      destruct (kind tk) eqn:Ek; try (apply Hdef; [discriminate|exact H]).
      + (* Escaped *)
        destruct (append_str t cur cs) as [t1|] eqn:E1; cbn [obind] in H; [|discriminate].
        destruct (p_debug cfg && p_strict_escape cfg && negb (blen (tstr tk) =? 2)); [discriminate|].
        destruct Htk as (Hsub & Hne & Hesc). destruct (Hesc Ek) as (r' & Er).
        assert (Hb1 : blen (tstr tk) = 1 + blen r') by (rewrite Er; reflexivity).
        eapply (Hcut t1 (tstart tk + 1) (tl (tstr tk))); [reflexivity|exact H|lia| |].
        * rewrite Er. cbn [tl]. unfold tend. lia.
        * intros _. tauto.
      + (* Newline *)
        destruct (append_str t cur cs) as [t1|] eqn:E1; cbn [obind] in H; [|discriminate].
        destruct (append_fragment t1 _) as [t2|] eqn:E2; cbn [obind] in H; [|discriminate].
        destruct (append_str_inv _ _ _ _ lo E1 Hs Hle Hlo Hlo') as (A1 & B1 & C1 & D1 & E1' & F1).
        destruct (append_fragment_inv _ _ _ lo E2 A1 C1 B1) as (A2 & B2 & C2 & D2 & E2' & _); [cbn [foff]; lia|].
        destruct (IH t2 (tend tk) [] en lo t') as (A & B & C & D & E & F & G); try assumption; try lia.
        * cbn [blen]. rewrite N.add_0_r. exact Hseg.
        * unfold text_post. repeat (split; [assumption|]). split; [intros g Hg; apply E, E2', E1', Hg|]. split.
          -- intro Hb. eapply holds_mono; [intros g Hg; apply E, E2', Hg|apply F1; exact Hb].
          -- intros tk' [<-|Hi] Hg; [|apply G; assumption]. exfalso. eapply Hnogood; [reflexivity|reflexivity|exact Hg].
      + (* LineComment *)
        destruct (append_str t cur cs) as [t1|] eqn:E1; cbn [obind] in H; [|discriminate].
        eapply (Hcut t1 (tend tk) []); [reflexivity|exact H|lia|cbn [blen]; lia|].
        intro Hg. exfalso. eapply Hnogood; [reflexivity|reflexivity|exact Hg].
      + (* BlockComment *)
        destruct (append_str t cur cs) as [t1|] eqn:E1; cbn [obind] in H; [|discriminate].
        eapply (Hcut t1 (tend tk) []); [reflexivity|exact H|lia|cbn [blen]; lia|].
        intro Hg. exfalso. eapply Hnogood; [reflexivity|reflexivity|exact Hg].
  Qed.

  (* what a text built from the chain [ts] running from [off] to [en] satisfies *)
  Definition text_cov (ts : list tok) (t : text) (lo hi : N) : Prop :=
    tbounds t lo hi /\ tspan_ok t /\ forall tk, In tk ts -> good tk -> holds t (pstart tk) (tend tk).

  Lemma text_of_cov off ts en t :
    seg off ts en -> text_of cfg off ts = Done t -> text_cov ts t off en.
  Proof.
    intros Hseg H. unfold text_of in H. destruct ts as [|t0 r] eqn:E.
    - injection H as <-. cbn [ParserSeg.seg] in Hseg. destruct Hseg as (<- & _).
      unfold text_cov, tbounds, tspan_ok, text_span, text_empty; cbn [frags toff fst snd].
      split; [lia|]. split; [intros f []|intros tk []].
    - rewrite <- E in *. assert (Hst : tstart t0 = off) by (rewrite E in Hseg; cbn [ParserSeg.seg] in Hseg; tauto).
      rewrite Hst, N.eqb_refl in H.
      destruct (text_loop_cov ts (text_empty off) off [] en off t) as (A & B & C & D & _ & _ & G); try assumption.
      + cbn [blen]. rewrite N.add_0_r. exact Hseg.
      + intros f [].
      + unfold text_span, text_empty; cbn [frags toff fst snd]. lia.
      + unfold text_span, text_empty; cbn [frags toff fst snd]. lia.
      + lia.
      + split; [split; [exact B|split; [exact C|exact D]]|]. split; [exact A|exact G].
  Qed.

  (* consequences for a good token of the chain *)
  Lemma text_cov_good ts t lo hi tk :
    text_cov ts t lo hi -> In tk ts -> good tk ->
    covers (text_span t) tk /\ is_text_empty t = false /\ frags t <> [].
  Proof.
    intros (_ & Hs & Hc) Hi Hg. destruct (Hc tk Hi Hg) as (f & Hf & Hb & Ha & He).
    destruct (Hs f Hf) as (A & B). split; [split; lia|]. split.
    - unfold is_text_empty. destruct (forallb _ (frags t)) eqn:Ef; [|reflexivity].
      rewrite forallb_forall in Ef. rewrite (Ef f Hf) in Hb. discriminate.
    - intro Hn. rewrite Hn in Hf. destruct Hf.
  Qed.
End Cover.
