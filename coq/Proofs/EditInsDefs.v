(* Property C17, event level, comment insertion.  A relational Hoare logic for the block parser of
   Model/Parser.v under the one-sided relation [jsim]: the right token list is the left one with
   block comment tokens inserted directly after a word or number token ([is_single_word_tok]: what a
   one-word component name is made of) and directly before a blank token ("between two words"),
   outside braces.

   Unlike [ksim] (Proofs/EditSimDefs.v) this is not one-to-one: after the parser has consumed a
   word token individually (a one-word component name, the first token of a text run) the two runs
   are out of step: the left one stands before the blank, the right one before the inserted
   comment ([stutR]).  Hence pre- and postconditions on the token part of the state:
   [HJ P m1 m2 Q].  This file: definitions only. *)
From CL Require Import Base.StrLemmas Model.Lexer Model.PText Model.CommentMask Model.Parser Model.Edits
  Proofs.EditParserProofs Proofs.EditSimDefs.

(* word and number tokens: never a brace, a newline, a blank or a comment *)
Notation swt := is_single_word_tok.

(* inside `{ ... }` (token-level bracket state) nothing is inserted *)
Inductive mode := MOut | MIn.
Definition next_mode (m : mode) (k : tkind) : mode :=
  match k with KOpenBrace => MIn | KCloseBrace => MOut | _ => m end.
Fixpoint mode_after (m : mode) (ts : list tok) : mode :=
  match ts with [] => m | t :: r => mode_after (next_mode m (kind t)) r end.

Lemma swt_next_mode m k : swt k = true -> next_mode m k = m.
Proof. destruct k; intro H; try discriminate; reflexivity. Qed.
Lemma swt_not_nl k : swt k = true -> tk_eqb k KNewline = false.
Proof. destruct k; intro H; try discriminate; reflexivity. Qed.
Lemma swt_not_wsb k : swt k = true -> is_ws_block k = false.
Proof. destruct k; intro H; try discriminate; reflexivity. Qed.

Inductive jsim : mode -> list tok -> list tok -> Prop :=
| j_nil m : jsim m [] []
| j_cons m a b r1 r2 : krel a b -> jsim (next_mode m (kind a)) r1 r2 -> jsim m (a :: r1) (b :: r2)
| j_ins a b cm w r1 r2 :
    krel a b -> is_single_word_tok (kind a) = true -> kind cm = KBlockComment -> tstr cm <> [] -> kind w = KWs ->
    jsim MOut (w :: r1) r2 -> jsim MOut (a :: w :: r1) (b :: cm :: r2).

Definition jany (l1 l2 : list tok) : Prop := exists m, jsim m l1 l2.

(* out of step: left before the blank, right before the inserted comment *)
Definition stutR (l1 l2 : list tok) : Prop :=
  exists w r1 cm r2, l1 = w :: r1 /\ l2 = cm :: r2 /\ kind w = KWs /\ kind cm = KBlockComment
                     /\ tstr cm <> [] /\ jsim MOut (w :: r1) r2.
Definition anyR (l1 l2 : list tok) : Prop := jany l1 l2 \/ stutR l1 l2.

(* what the text builder needs of two token lists *)
Definition textrel (l1 l2 : list tok) : Prop :=
  tsim l1 l2 /\ Forall (fun t => tstr t <> []) l1 /\ Forall (fun t => tstr t <> []) l2
  /\ Forall newline_ok l1 /\ Forall newline_ok l2.

(* parser states: a relation [T] on the remaining tokens, the block tokens, the events *)
Definition St (T : list tok -> list tok -> Prop) (s1 s2 : bp) : Prop :=
  T (b_rest s1) (b_rest s2) /\ jany (b_all s1) (b_all s2) /\ Forall2 erel (b_evs s1) (b_evs s2).

Definition HJ {A B} (P : bp -> bp -> Prop) (m1 : M A) (m2 : M B) (Q : A -> bp -> B -> bp -> Prop) : Prop :=
  forall s1 s2, P s1 s2 ->
    match m1 s1, m2 s2 with
    | Done (a1, s1'), Done (a2, s2') => Q a1 s1' a2 s2'
    | _, _ => True
    end.

(* the common shape: token relation T before, result relation R and token relation T' after *)
Definition HL {A B} (T : list tok -> list tok -> Prop) (R : A -> B -> Prop) (m1 : M A) (m2 : M B)
           (T' : list tok -> list tok -> Prop) : Prop :=
  HJ (St T) m1 m2 (fun a s1 b s2 => R a b /\ St T' s1 s2).

(* computations that do not look at the tokens of the state *)
Definition HN {A B} (R : A -> B -> Prop) (m1 : M A) (m2 : M B) : Prop := forall T, HL T R m1 m2 T.
