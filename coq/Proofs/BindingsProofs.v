(* Proofs for property C19 (statements: Model/BindingsSpec.v, Properties/C19.v). *)
From Coq Require Import QArith Permutation Lia.
From CL Require Import Base.Chars Base.StrLemmas Model.Bindings Model.BindingsSpec.
Open Scope N_scope.

Arguments as_u32 : simpl never.
Arguments U32 : simpl never.

(* ------------------------------------------------------------------ the loops are maps *)

Lemma fold_push {A B} (f : A -> B) l : forall init,
  fold_left (fun acc x => acc ++ [f x]) l init = init ++ map f l.
Proof.
  induction l as [|x l IH]; intro init; cbn [fold_left map].
  - now rewrite app_nil_r.
  - rewrite IH, <- app_assoc. reflexivity.
Qed.

Lemma convert_step_gen its : forall a,
  fold_left step_turn its a =
  {| bs_items := bs_items a ++ map into_item its;
     bs_irefs := bs_irefs a ++ irefs_of (map into_item its);
     bs_crefs := bs_crefs a ++ crefs_of (map into_item its);
     bs_trefs := bs_trefs a ++ trefs_of (map into_item its) |}.
Proof.
  induction its as [|it its IH]; intro a.
  - cbn [fold_left map irefs_of crefs_of trefs_of]. rewrite !app_nil_r. destruct a; reflexivity.
  - cbn [fold_left map]. rewrite IH. unfold step_turn.
    destruct (into_item it) eqn:E;
      cbn [bs_items bs_irefs bs_crefs bs_trefs irefs_of crefs_of trefs_of];
      rewrite <- ?app_assoc; reflexivity.
Qed.

Lemma convert_step_eq its :
  convert_step its =
  {| bs_items := map into_item its; bs_irefs := irefs_of (map into_item its);
     bs_crefs := crefs_of (map into_item its); bs_trefs := trefs_of (map into_item its) |}.
Proof. unfold convert_step. rewrite convert_step_gen. reflexivity. Qed.

Definition block_image (c : ccontent) : bblock :=
  match c with CStepC items => BStepBlock (convert_step items) | CTextC t => BNoteBlock t end.

Lemma convert_section_gen cs : forall a,
  fold_left content_turn cs a =
  {| bsec_title := bsec_title a;
     bsec_blocks := bsec_blocks a ++ map block_image cs;
     bsec_irefs := bsec_irefs a ++ flat_map block_irefs (map block_image cs);
     bsec_crefs := bsec_crefs a ++ flat_map block_crefs (map block_image cs);
     bsec_trefs := bsec_trefs a ++ flat_map block_trefs (map block_image cs) |}.
Proof.
  induction cs as [|c cs IH]; intro a.
  - cbn [fold_left map flat_map]. rewrite !app_nil_r. destruct a; reflexivity.
  - cbn [fold_left map flat_map]. rewrite IH. destruct c as [items|t];
      cbn [content_turn block_image bsec_title bsec_blocks bsec_irefs bsec_crefs bsec_trefs
           block_irefs block_crefs block_trefs];
      rewrite <- ?app_assoc; reflexivity.
Qed.

Lemma convert_section_eq s :
  convert_section s =
  {| bsec_title := cs_name s;
     bsec_blocks := map block_image (cs_content s);
     bsec_irefs := flat_map block_irefs (map block_image (cs_content s));
     bsec_crefs := flat_map block_crefs (map block_image (cs_content s));
     bsec_trefs := flat_map block_trefs (map block_image (cs_content s)) |}.
Proof. unfold convert_section. rewrite convert_section_gen. reflexivity. Qed.

Lemma sections_eq r : br_sections (into_simple_recipe r) = map convert_section (cr_sections r).
Proof. unfold into_simple_recipe; cbn [br_sections]. now rewrite fold_push. Qed.

(* ------------------------------------------------------------------ mirror *)

Lemma Forall2_map_r {A B} (R : A -> B -> Prop) (f : A -> B) l :
  (forall a, In a l -> R a (f a)) -> Forall2 R l (map f l).
Proof.
  induction l as [|x l IH]; intro H; cbn [map]; constructor.
  - apply H. now left.
  - apply IH. intros a Ha. apply H. now right.
Qed.

Lemma value_mirrors_extract v : value_mirrors v (extract_value v).
Proof. destruct v; constructor. Qed.

Lemma qty_mirrors_map q : qty_mirrors q (option_map extract_amount_q q).
Proof.
  destruct q as [q|]; cbn [option_map qty_mirrors]; [|exact I].
  split; [apply value_mirrors_extract|reflexivity].
Qed.

Lemma ing_mirrors_from c : ing_mirrors c (ing_from c).
Proof. repeat split. apply qty_mirrors_map. Qed.

Lemma cw_mirrors_from c : cw_mirrors c (cw_from c).
Proof.
  split; [reflexivity|]. unfold cw_from; cbn [bc_amount].
  destruct (cc_qty c) as [v|]; cbn [option_map val_mirrors]; [|exact I].
  split; [apply value_mirrors_extract|reflexivity].
Qed.

Lemma tm_mirrors_from c : tm_mirrors c (tm_from c).
Proof. split; [reflexivity|]. apply qty_mirrors_map. Qed.

Lemma item_mirrors_into it : item_mirrors it (into_item it).
Proof. destruct it; reflexivity. Qed.

Lemma block_mirrors_image c : block_mirrors c (block_image c).
Proof.
  destruct c as [items|t]; cbn [block_mirrors block_image]; [|reflexivity].
  rewrite convert_step_eq; cbn [bs_items]. apply Forall2_map_r. intros; apply item_mirrors_into.
Qed.

Lemma section_mirrors_convert s : section_mirrors s (convert_section s).
Proof.
  rewrite convert_section_eq. split; cbn [bsec_title bsec_blocks]; [reflexivity|].
  apply Forall2_map_r. intros; apply block_mirrors_image.
Qed.

Theorem mirror r : recipe_mirrors r (into_simple_recipe r).
Proof.
  unfold recipe_mirrors. rewrite sections_eq. unfold into_simple_recipe; cbn [br_ings br_cws br_tms].
  repeat split; apply Forall2_map_r; intros.
  - apply section_mirrors_convert.
  - apply ing_mirrors_from.
  - apply cw_mirrors_from.
  - apply tm_mirrors_from.
Qed.

(* ------------------------------------------------------------------ reference lists *)

Theorem section_refs r :
  Forall (fun s => section_refs_ok s /\ Forall block_refs_ok (bsec_blocks s))
         (br_sections (into_simple_recipe r)).
Proof.
  rewrite sections_eq. apply Forall_forall. intros bs Hin.
  apply in_map_iff in Hin as (s & <- & _). rewrite convert_section_eq.
  split; [repeat split|]. cbn [bsec_blocks]. apply Forall_forall. intros b Hb.
  apply in_map_iff in Hb as (c & <- & _). destruct c as [items|t]; cbn [block_image block_refs_ok]; [|exact I].
  rewrite convert_step_eq. repeat split.
Qed.

(* ------------------------------------------------------------------ resolution *)

Lemma nth_N_eq {A} (l : list A) : forall i, nth_N l i = nth_error l (N.to_nat i).
Proof.
  induction l as [|x l IH]; intro i; cbn [nth_N].
  - now destruct (N.to_nat i).
  - destruct (N.eqb_spec i 0) as [->|Hn]; [reflexivity|].
    rewrite IH. replace (N.to_nat i) with (S (N.to_nat (N.pred i))) by lia. reflexivity.
Qed.

Lemma as_u32_small i : i < U32 -> as_u32 i = i.
Proof. intro H. unfold as_u32. now apply N.mod_small. Qed.

Lemma nth_in_range {A} (l : list A) i : i < N.of_nat (length l) -> exists a, nth_error l (N.to_nat i) = Some a.
Proof.
  intro H. destruct (nth_error l (N.to_nat i)) as [a|] eqn:E; [eauto|].
  apply nth_error_None in E. lia.
Qed.

Lemma item_resolves_into r it :
  item_in_range r it -> fits_u32 r -> item_resolves r (into_simple_recipe r) it (into_item it).
Proof.
  intros Hr (Fi & Fc & Ft). destruct it as [s|i|i|i|i]; cbn [item_in_range item_resolves into_item] in *;
    try reflexivity.
  - destruct (nth_in_range _ _ Hr) as [c Hc]. exists c, (ing_from c).
    assert (E : as_u32 i = i) by (apply as_u32_small; lia). rewrite E.
    assert (D : deref_ingredient (into_simple_recipe r) i = Done (ing_from c)).
    { unfold deref_ingredient, nth_or_panic, into_simple_recipe; cbn [br_ings].
      now rewrite nth_N_eq, nth_error_map, Hc. }
    repeat split; try apply qty_mirrors_map; try exact Hc; try exact D.
    cbn [deref_component]. now rewrite D.
  - destruct (nth_in_range _ _ Hr) as [c Hc]. exists c, (cw_from c).
    assert (E : as_u32 i = i) by (apply as_u32_small; lia). rewrite E.
    assert (D : deref_cookware (into_simple_recipe r) i = Done (cw_from c)).
    { unfold deref_cookware, nth_or_panic, into_simple_recipe; cbn [br_cws].
      now rewrite nth_N_eq, nth_error_map, Hc. }
    split; [exact Hc|]. split; [apply cw_mirrors_from|]. split; [|exact D].
    cbn [deref_component]. now rewrite D.
  - destruct (nth_in_range _ _ Hr) as [c Hc]. exists c, (tm_from c).
    assert (E : as_u32 i = i) by (apply as_u32_small; lia). rewrite E.
    assert (D : deref_timer (into_simple_recipe r) i = Done (tm_from c)).
    { unfold deref_timer, nth_or_panic, into_simple_recipe; cbn [br_tms].
      now rewrite nth_N_eq, nth_error_map, Hc. }
    split; [exact Hc|]. split; [apply tm_mirrors_from|]. split; [|exact D].
    cbn [deref_component]. now rewrite D.
Qed.

Lemma Forall2_map_r_Forall {A B} (P : A -> Prop) (R : A -> B -> Prop) (f : A -> B) l :
  Forall P l -> (forall a, P a -> R a (f a)) -> Forall2 R l (map f l).
Proof.
  intros H HR. apply Forall2_map_r. intros a Ha. apply HR. rewrite Forall_forall in H. now apply H.
Qed.

(* every index listed by a step built from in-range items is in range *)
Lemma irefs_in_range r items :
  Forall (item_in_range r) items -> fits_u32 r ->
  Forall (fun j => exists x, deref_ingredient (into_simple_recipe r) j = Done x) (irefs_of (map into_item items)) /\
  Forall (fun j => exists x, deref_cookware (into_simple_recipe r) j = Done x) (crefs_of (map into_item items)) /\
  Forall (fun j => exists x, deref_timer (into_simple_recipe r) j = Done x) (trefs_of (map into_item items)).
Proof.
  intros H F. induction H as [|it items Hit _ IH]; cbn [map irefs_of crefs_of trefs_of]; [repeat split; constructor|].
  destruct IH as (I1 & I2 & I3).
  pose proof (item_resolves_into r it Hit F) as R.
  destruct it as [s|i|i|i|i]; cbn [into_item irefs_of crefs_of trefs_of item_resolves] in *;
    repeat split; try assumption; constructor; try assumption;
    destruct R as (c & x & _ & _ & _ & D); eauto.
Qed.

Theorem resolve r : index_inv r -> fits_u32 r -> refs_resolve r (into_simple_recipe r).
Proof.
  intros Inv F. unfold refs_resolve. rewrite sections_eq.
  eapply Forall2_map_r_Forall; [exact Inv|]. cbn beta. intros s Hs.
  rewrite convert_section_eq; cbn [bsec_blocks]. split.
  - eapply Forall2_map_r_Forall; [exact Hs|]. intros c Hc.
    destruct c as [items|t]; cbn [block_resolves block_image content_in_range] in *; [|exact I].
    rewrite convert_step_eq; cbn [bs_items].
    eapply Forall2_map_r_Forall; [exact Hc|]. intros it Hit. now apply item_resolves_into.
  - unfold lists_in_range; cbn [bsec_irefs bsec_crefs bsec_trefs].
    induction Hs as [|c cs Hc _ IH]; cbn [map flat_map]; [repeat split; constructor|].
    destruct IH as (I1 & I2 & I3).
    destruct c as [items|t]; cbn [block_image block_irefs block_crefs block_trefs content_in_range] in *.
    + rewrite convert_step_eq; cbn [bs_irefs bs_crefs bs_trefs].
      destruct (irefs_in_range r items Hc F) as (J1 & J2 & J3).
      repeat split; apply Forall_app; split; assumption.
    + repeat split; assumption.
Qed.

(* ------------------------------------------------------------------ combining: keys and kinds *)

Lemma qtype_eqb_eq a b : qtype_eqb a b = true <-> a = b.
Proof. destruct a, b; cbn; split; intro H; try reflexivity; try discriminate. Qed.

Lemma gkey_eqb_eq a b : gkey_eqb a b = true <-> a = b.
Proof.
  unfold gkey_eqb. rewrite andb_true_iff, str_eqb_eq, qtype_eqb_eq.
  destruct a as [n1 t1], b as [n2 t2]; cbn [gk_name gk_type]. split; [intros [-> ->]; reflexivity|intro H; now inversion H].
Qed.

Lemma gkey_eqb_refl a : gkey_eqb a a = true.
Proof. now apply gkey_eqb_eq. Qed.

Lemma gkey_eqb_neq a b : gkey_eqb a b = false <-> a <> b.
Proof.
  split.
  - intros H E. apply gkey_eqb_eq in E. congruence.
  - intro H. destruct (gkey_eqb a b) eqn:E; [|reflexivity]. apply gkey_eqb_eq in E. contradiction.
Qed.

Lemma amount_typed a : type_of (amount_value a) = gk_type (amount_key a).
Proof. destruct a as [am|]; reflexivity. Qed.

(* what [and_modify] computes when the kinds are right *)
Definition vmerge (s v : bvalue) : bvalue :=
  match s, v with
  | BNum a, BNum b => BNum (Qplus a b)
  | BRange a1 a2, BRange b1 b2 => BRange (Qplus a1 b1) (Qplus a2 b2)
  | BText a, BText b => BText (a ++ b)
  | s, _ => s
  end.

Definition fold_val (acc : option bvalue) (v : bvalue) : option bvalue :=
  Some (match acc with Some s => vmerge s v | None => v end).

Lemma merge_value_typed k s v :
  type_of s = gk_type k -> type_of v = gk_type k ->
  merge_value k s v = Done (vmerge s v) /\ type_of (vmerge s v) = gk_type k.
Proof.
  unfold merge_value. intros Hs Hv. destruct (gk_type k); destruct s; try discriminate Hs;
    destruct v; try discriminate Hv; split; reflexivity.
Qed.

(* no kind, no panic: only a kind mismatch reaches the six sites *)
Lemma gq_upsert_spec l : forall k v,
  gq_wf l -> type_of v = gk_type k ->
  exists l', gq_upsert l k v = Done l' /\ gq_wf l' /\
    (forall x, In x (map fst l') -> In x (map fst l) \/ x = k) /\
    (forall q, gq_get l' q = if gkey_eqb k q then fold_val (gq_get l k) v else gq_get l q).
Proof.
  induction l as [|[k' s] r IH]; intros k v [ND TY] Hv.
  - exists [(k, v)]. cbn [gq_upsert gq_get map fst]. repeat split.
    + constructor; [intros []|constructor].
    + constructor; [exact Hv|constructor].
    + intros x [<-|[]]. now right.
  - cbn [gq_upsert]. cbn [map fst] in ND. inversion ND as [|? ? Hnin ND']; subst.
    inversion TY as [|? ? Hs TY']; subst. cbn [fst snd] in Hs.
    destruct (gkey_eqb k' k) eqn:E.
    + apply gkey_eqb_eq in E. subst k'.
      destruct (merge_value_typed k s v Hs Hv) as [M T]. rewrite M. cbn [obind].
      exists ((k, vmerge s v) :: r). repeat split.
      * exact ND.
      * constructor; [exact T|exact TY'].
      * intros x Hx. now left.
      * intro q. cbn [gq_get]. rewrite gkey_eqb_refl. destruct (gkey_eqb k q); reflexivity.
    + destruct (IH k v (conj ND' TY') Hv) as (r' & U & [NDr TYr] & Keys & Get). rewrite U. cbn [obind].
      exists ((k', s) :: r'). repeat split.
      * cbn [map fst]. constructor; [|exact NDr]. intro Hin. destruct (Keys _ Hin) as [H|H]; [contradiction|].
        subst. rewrite gkey_eqb_refl in E. discriminate.
      * constructor; [exact Hs|exact TYr].
      * intros x [<-|Hx]; [left; now left|]. destruct (Keys _ Hx) as [H|H]; [left; now right|now right].
      * intro q. cbn [gq_get]. rewrite E. destruct (gkey_eqb k' q) eqn:E'.
        -- apply gkey_eqb_eq in E'. subst q. rewrite (proj2 (gkey_eqb_neq k k')); [reflexivity|].
           intro H. subst. rewrite gkey_eqb_refl in E. discriminate.
        -- apply Get.
Qed.

(* merge_grouped_quantities never reaches a type site on well-kinded operands *)
Lemma merge_typed right : forall left,
  gq_wf left -> Forall (fun kv => type_of (snd kv) = gk_type (fst kv)) right ->
  exists l', merge_grouped_quantities left right = Done l' /\ gq_wf l'.
Proof.
  induction right as [|[k v] r IH]; intros left W T.
  - exists left. split; [reflexivity|exact W].
  - inversion T as [|? ? Hv T']; subst. cbn [fst snd] in Hv.
    destruct (gq_upsert_spec left k v W Hv) as (l1 & U & W1 & _ & _).
    cbn [merge_grouped_quantities]. rewrite U. cbn [obind]. now apply IH.
Qed.

Lemma merge_singleton left k v : merge_grouped_quantities left [(k, v)] = gq_upsert left k v.
Proof. cbn [merge_grouped_quantities]. destruct (gq_upsert left k v); reflexivity. Qed.

Lemma lookup2_cons n g r name q :
  lookup2 ((n, g) :: r) name q = if str_eqb n name then gq_get g q else lookup2 r name q.
Proof. unfold lookup2. cbn [ilist_get]. destruct (str_eqb n name); reflexivity. Qed.

Lemma ilist_get_notin l name : ~ In name (map fst l) -> ilist_get l name = None.
Proof.
  induction l as [|[n g] r IH]; intro H; [reflexivity|]. cbn [ilist_get].
  destruct (str_eqb n name) eqn:E.
  - apply str_eqb_eq in E. subst. exfalso. apply H. now left.
  - apply IH. intro Hin. apply H. now right.
Qed.

Lemma add_spec l : forall name k v,
  ilist_wf l -> type_of v = gk_type k ->
  exists l', add_to_ingredient_list l name [(k, v)] = Done l' /\ ilist_wf l' /\
    (forall x, In x (map fst l') -> In x (map fst l) \/ x = name) /\
    (forall n q, lookup2 l' n q =
                 if str_eqb name n && gkey_eqb k q then fold_val (lookup2 l name k) v else lookup2 l n q).
Proof.
  induction l as [|[n0 g] r IH]; intros name k v [ND W] Hv.
  - exists [(name, [(k, v)])]. cbn [add_to_ingredient_list]. repeat split.
    + constructor; [intros []|constructor].
    + constructor; [|constructor]. cbn [snd]. split.
      * constructor; [intros []|constructor].
      * constructor; [exact Hv|constructor].
    + intros x [<-|[]]. now right.
    + intros n q. rewrite lookup2_cons. cbn [gq_get]. unfold lookup2 at 1 2. cbn [ilist_get].
      destruct (str_eqb name n); cbn [andb]; [|reflexivity]. destruct (gkey_eqb k q); reflexivity.
  - cbn [add_to_ingredient_list]. cbn [map fst] in ND. inversion ND as [|? ? Hnin ND']; subst.
    inversion W as [|? ? Wg W']; subst. cbn [snd] in Wg.
    destruct (str_eqb n0 name) eqn:E.
    + apply str_eqb_eq in E. subst n0. rewrite merge_singleton.
      destruct (gq_upsert_spec g k v Wg Hv) as (g' & U & Wg' & _ & Get). rewrite U. cbn [obind].
      exists ((name, g') :: r). repeat split.
      * exact ND.
      * constructor; [exact Wg'|exact W'].
      * intros x Hx. now left.
      * intros n q. rewrite !lookup2_cons. rewrite str_eqb_refl.
        destruct (str_eqb name n); cbn [andb]; [|reflexivity]. apply Get.
    + destruct (IH name k v (conj ND' W') Hv) as (r' & A & [NDr Wr] & Keys & Get). rewrite A. cbn [obind].
      exists ((n0, g) :: r'). repeat split.
      * cbn [map fst]. constructor; [|exact NDr]. intro Hin. destruct (Keys _ Hin) as [H|H]; [contradiction|].
        subst. rewrite str_eqb_refl in E. discriminate.
      * constructor; [exact Wg|exact Wr].
      * intros x [<-|Hx]; [left; now left|]. destruct (Keys _ Hx) as [H|H]; [left; now right|now right].
      * intros n q. rewrite !lookup2_cons. rewrite E. destruct (str_eqb n0 n) eqn:E'.
        -- apply str_eqb_eq in E'. subst n.
           assert (N : str_eqb name n0 = false).
           { apply str_eqb_neq. intro H. subst. rewrite str_eqb_refl in E. discriminate. }
           rewrite N. reflexivity.
        -- apply Get.
Qed.

(* folding directly over ingredients *)
Fixpoint expand_list (base : ilist) (l : list bing) : outcome ilist :=
  match l with
  | [] => Done base
  | x :: r => obind (add_to_ingredient_list base (bi_name x) (into_group_quantity (bi_amount x)))
                    (fun b => expand_list b r)
  end.

Lemma expand_select ings idx : forall base,
  indices_in_range ings idx -> expand_with_ingredients ings base idx = expand_list base (select ings idx).
Proof.
  induction idx as [|i idx IH]; intros base H; [reflexivity|].
  inversion H as [|? ? Hi H']; subst. cbn [expand_with_ingredients select flat_map].
  destruct (nth_in_range _ _ Hi) as [x Hx]. rewrite nth_N_eq, Hx. cbn [app expand_list].
  destruct (add_to_ingredient_list base (bi_name x) (into_group_quantity (bi_amount x))); cbn [obind];
    [|reflexivity].
  now apply IH.
Qed.

Lemma matching_cons name k x l :
  matching name k (x :: l) =
  (if str_eqb (bi_name x) name && gkey_eqb (amount_key (bi_amount x)) k then [amount_value (bi_amount x)] else [])
  ++ matching name k l.
Proof.
  unfold matching. cbn [filter].
  destruct (str_eqb (bi_name x) name && gkey_eqb (amount_key (bi_amount x)) k); reflexivity.
Qed.

Lemma expand_list_spec l : forall base,
  ilist_wf base ->
  exists r, expand_list base l = Done r /\ ilist_wf r /\
    forall n q, lookup2 r n q = fold_left fold_val (matching n q l) (lookup2 base n q).
Proof.
  induction l as [|x l IH]; intros base W.
  - exists base. split; [reflexivity|]. split; [exact W|]. intros; reflexivity.
  - cbn [expand_list]. unfold into_group_quantity.
    destruct (add_spec base (bi_name x) (amount_key (bi_amount x)) (amount_value (bi_amount x)) W
                (amount_typed _)) as (b1 & A & W1 & _ & Get).
    rewrite A. cbn [obind]. destruct (IH b1 W1) as (r & E & Wr & L). exists r. split; [exact E|]. split; [exact Wr|].
    intros n q. rewrite L, matching_cons, Get.
    destruct (str_eqb (bi_name x) n && gkey_eqb (amount_key (bi_amount x)) q) eqn:C; [|reflexivity].
    apply andb_true_iff in C as [C1 C2]. apply str_eqb_eq in C1. apply gkey_eqb_eq in C2. subst.
    reflexivity.
Qed.

(* ---- the fold is the sum *)

Lemma veq_refl v : veq v v.
Proof. destruct v; cbn; repeat split; reflexivity. Qed.
Lemma veq_sym a b : veq a b -> veq b a.
Proof. destruct a, b; cbn; try tauto; try (intros; now symmetry). intros [H1 H2]. split; now symmetry. Qed.
Lemma veq_trans a b c : veq a b -> veq b c -> veq a c.
Proof.
  destruct a, b, c; cbn; try tauto.
  - intros. etransitivity; eassumption.
  - intros [A1 A2] [B1 B2]. split; etransitivity; eassumption.
  - congruence.
Qed.
Lemma oveq_refl a : oveq a a.
Proof. destruct a; cbn; [apply veq_refl|exact I]. Qed.
Lemma oveq_sym a b : oveq a b -> oveq b a.
Proof. destruct a, b; cbn; try tauto. apply veq_sym. Qed.
Lemma oveq_trans a b c : oveq a b -> oveq b c -> oveq a c.
Proof. destruct a, b, c; cbn; try tauto. apply veq_trans. Qed.

Definition vplus_spec (t : qtype) (acc : bvalue) (vs : list bvalue) : bvalue :=
  match t with
  | QTNumber => BNum (Qplus (num_of acc) (sum_q (map num_of vs)))
  | QTRange => BRange (Qplus (start_of acc) (sum_q (map start_of vs))) (Qplus (end_of acc) (sum_q (map end_of vs)))
  | QTText => BText (text_of acc ++ concat (map text_of vs))
  | QTEmpty => BEmpty
  end.

Lemma fold_typed t vs : forall acc,
  type_of acc = t -> Forall (fun v => type_of v = t) vs ->
  exists v, fold_left fold_val vs (Some acc) = Some v /\ veq v (vplus_spec t acc vs).
Proof.
  induction vs as [|v vs IH]; intros acc Ha Hv.
  - exists acc. split; [reflexivity|]. subst t. destruct acc; cbn; repeat split; try ring.
    now rewrite app_nil_r.
  - inversion Hv as [|? ? Hv1 Hv']; subst. cbn [fold_left fold_val].
    assert (T : type_of (vmerge acc v) = type_of acc).
    { destruct acc, v; try discriminate Hv1; reflexivity. }
    destruct (IH (vmerge acc v) T Hv') as (w & F & E). exists w. split; [exact F|].
    eapply veq_trans; [exact E|]. clear F E IH.
    destruct acc, v; try discriminate Hv1; cbn; unfold sum_q; repeat split; try ring.
    now rewrite <- app_assoc.
Qed.

Lemma fold_none t vs :
  Forall (fun v => type_of v = t) vs ->
  oveq (fold_left fold_val vs None) (match vs with [] => None | b :: l0 => Some (spec_value t (b :: l0)) end).
Proof.
  intro H. destruct vs as [|v vs]; [exact I|]. inversion H as [|? ? Hv Hvs]; subst.
  change (fold_left fold_val (v :: vs) None) with (fold_left fold_val vs (Some v)).
  destruct (fold_typed (type_of v) vs v eq_refl Hvs) as (w & F & E).
  rewrite F. cbn [oveq]. eapply veq_trans; [exact E|]. destruct v; cbn; repeat split; reflexivity.
Qed.

Lemma matching_typed name k l : Forall (fun v => type_of v = gk_type k) (matching name k l).
Proof.
  unfold matching. apply Forall_forall. intros v Hin. apply in_map_iff in Hin as (x & <- & Hx).
  apply filter_In in Hx as [_ Hx]. apply andb_true_iff in Hx as [_ Hx]. apply gkey_eqb_eq in Hx.
  rewrite <- Hx. apply amount_typed.
Qed.

Lemma ilist_wf_nil : ilist_wf [].
Proof. split; constructor. Qed.

Theorem combine_sum : combine_sum_statement.
Proof.
  intros ings idx H. unfold combine_ingredients_selected. rewrite (expand_select ings idx [] H).
  destruct (expand_list_spec (select ings idx) [] ilist_wf_nil) as (r & E & W & L).
  exists r. split; [exact E|]. split; [exact W|]. intros name k. rewrite L. unfold spec_entry.
  change (lookup2 [] name k) with (@None bvalue). apply fold_none. apply matching_typed.
Qed.

(* ---- combine_ingredients is combine_ingredients_selected on 0..len *)

Lemma all_indices_shift (pre l : list bing) :
  N.of_nat (length (pre ++ l)) <= U32 ->
  select (pre ++ l) (map (fun i => as_u32 (N.of_nat i)) (seq (length pre) (length l))) = l /\
  indices_in_range (pre ++ l) (map (fun i => as_u32 (N.of_nat i)) (seq (length pre) (length l))).
Proof.
  revert pre. induction l as [|x l IH]; intros pre H; [split; [reflexivity|constructor]|].
  cbn [length seq map]. 
  assert (E : as_u32 (N.of_nat (length pre)) = N.of_nat (length pre)).
  { apply as_u32_small. rewrite app_length in H. cbn [length] in H. lia. }
  assert (P : pre ++ x :: l = (pre ++ [x]) ++ l) by now rewrite <- app_assoc.
  assert (L : S (length pre) = length (pre ++ [x])) by (rewrite app_length; cbn [length]; lia).
  destruct (IH (pre ++ [x])) as [I1 I2]; [now rewrite <- P|]. split.
  - unfold select. cbn [flat_map]. rewrite E, Nat2N.id.
    rewrite nth_error_app2, Nat.sub_diag by lia. cbn [nth_error app]. f_equal.
    rewrite P, L. exact I1.
  - constructor.
    + rewrite E. rewrite app_length. cbn [length]. lia.
    + rewrite P, L. exact I2.
Qed.

Lemma select_all ings :
  N.of_nat (length ings) <= U32 ->
  select ings (all_indices (length ings)) = ings /\ indices_in_range ings (all_indices (length ings)).
Proof. intro H. exact (all_indices_shift [] ings H). Qed.

Lemma combine_is_expand_list ings :
  N.of_nat (length ings) <= U32 -> combine_ingredients ings = expand_list [] ings.
Proof.
  intro H. destruct (select_all ings H) as [S R]. unfold combine_ingredients, combine_ingredients_selected.
  rewrite (expand_select _ _ [] R), S. reflexivity.
Qed.

Lemma select_length ings idx : indices_in_range ings idx -> length (select ings idx) = length idx.
Proof.
  induction 1 as [|i idx Hi _ IH]; [reflexivity|]. unfold select in *. cbn [flat_map].
  destruct (nth_in_range _ _ Hi) as [x ->]. cbn [app length]. now rewrite IH.
Qed.

Theorem combine_selected : combine_selected_statement.
Proof.
  intros ings idx R L. unfold combine_ingredients_selected. rewrite (expand_select _ _ [] R).
  symmetry. apply combine_is_expand_list. now rewrite select_length.
Qed.

(* ---- order *)

Lemma sum_q_perm l l' : Permutation l l' -> (sum_q l == sum_q l')%Q.
Proof.
  induction 1; cbn [sum_q fold_right] in *.
  - reflexivity.
  - now rewrite IHPermutation.
  - ring.
  - etransitivity; eassumption.
Qed.

Lemma matching_perm name k l l' : Permutation l l' -> Permutation (matching name k l) (matching name k l').
Proof.
  intro P. unfold matching. apply Permutation_map.
  induction P; cbn [filter].
  - constructor.
  - destruct (_ && _); [now constructor|assumption].
  - destruct (_ && _), (_ && _); try apply Permutation_refl. constructor.
  - etransitivity; eassumption.
Qed.

Lemma spec_entry_perm name k l l' :
  Permutation l l' ->
  (gk_type k <> QTText -> oveq (spec_entry name k l) (spec_entry name k l')) /\
  (spec_entry name k l = None <-> spec_entry name k l' = None).
Proof.
  intro P. pose proof (matching_perm name k _ _ P) as M. unfold spec_entry.
  destruct (matching name k l) as [|v vs] eqn:E1, (matching name k l') as [|v' vs'] eqn:E2.
  - split; [intros; exact I|tauto].
  - apply Permutation_nil in M. discriminate.
  - apply Permutation_sym, Permutation_nil in M. discriminate.
  - split; [|split; discriminate]. intro NT. cbn [oveq]. unfold spec_value.
    destruct (gk_type k); try contradiction; cbn [veq]; repeat split;
      try (apply sum_q_perm; now apply Permutation_map).
Qed.

Lemma oveq_none_iff a b : oveq a b -> (a = None <-> b = None).
Proof. destruct a, b; cbn; try tauto; split; discriminate. Qed.

Theorem combine_perm : combine_perm_statement.
Proof.
  intros ings ings' l l' P Len C C' name k.
  assert (Len' : N.of_nat (length ings') <= U32) by now rewrite <- (Permutation_length P).
  destruct (select_all ings Len) as [S R]. destruct (select_all ings' Len') as [S' R'].
  destruct (combine_sum ings _ R) as (l0 & E & _ & Sum).
  destruct (combine_sum ings' _ R') as (l0' & E' & _ & Sum').
  unfold combine_ingredients in C, C'. rewrite C in E. rewrite C' in E'.
  injection E as <-. injection E' as <-. rewrite S in Sum. rewrite S' in Sum'.
  destruct (spec_entry_perm name k _ _ P) as [Q1 Q2]. split.
  - intro NT. eapply oveq_trans; [apply Sum|]. eapply oveq_trans; [apply Q1, NT|]. apply oveq_sym, Sum'.
  - rewrite (oveq_none_iff _ _ (Sum name k)), (oveq_none_iff _ _ (Sum' name k)). exact Q2.
Qed.

(* ---- the type sites are unreachable *)

Lemma expand_total ings idx : forall base,
  ilist_wf base ->
  (exists l, expand_with_ingredients ings base idx = Done l /\ ilist_wf l) \/
  expand_with_ingredients ings base idx = Panic site_expand_unwrap.
Proof.
  induction idx as [|i idx IH]; intros base W; [left; exists base; split; [reflexivity|exact W]|].
  cbn [expand_with_ingredients]. destruct (nth_N ings i) as [x|]; [|right; reflexivity].
  unfold into_group_quantity.
  destruct (add_spec base (bi_name x) (amount_key (bi_amount x)) (amount_value (bi_amount x)) W
              (amount_typed _)) as (b1 & A & W1 & _).
  rewrite A. cbn [obind]. now apply IH.
Qed.

Theorem no_type_panic : no_type_panic_statement.
Proof.
  intros ings idx s. split; intro H.
  - destruct (expand_total ings idx [] ilist_wf_nil) as [(l & E & _)|E];
      unfold combine_ingredients_selected in H; rewrite E in H; [discriminate|].
    injection H as <-. reflexivity.
  - unfold combine_ingredients, combine_ingredients_selected in H.
    destruct (expand_total ings (all_indices (length ings)) [] ilist_wf_nil) as [(l & E & _)|E];
      rewrite E in H; [discriminate|]. injection H as <-. reflexivity.
Qed.

(* the sites are real: an ill-kinded list handed to the public (not exported) expand_with_ingredients
   reaches one *)
Example type_panic_needs_ill_kinded_base :
  expand_with_ingredients
    [{| bi_name := [97]; bi_amount := Some {| am_q := BNum 1; am_units := None |}; bi_descr := None |}]
    [([97], [({| gk_name := []; gk_type := QTNumber |}, BText [98])])] [0]
  = Panic site_type_number_left.
Proof. reflexivity. Qed.
