(* C02: invariance of the step parser under the extension bits, composed from the gate lemmas
   of Proofs/ParserGates.v.

   1. text() never looks at the extensions; relational bind lemmas.
   2. Frames: every parser step leaves a suffix of the remaining tokens ([sfx]).
   3. [core_tokens]: a decidable class of token blocks (no `|`, `-`, `&`, `?`, `+`, `~` token,
      no `@` directly after a marker, every braced quantity blank or holding a `%`).
   4. comp_body on such a block returns name and quantity slices of that class.
   5. ingredient_p, cookware_p, step_loop (induction on its fuel), parse_step, parse_block
      return the same outcome for configurations that differ only in [p_ext].
   6. The remaining gates (TIMER_REQUIRES_TIME, INTERMEDIATE_PREPARATIONS), both directions.
   7. The document-level class of the statement ([core_source]), used by C02_full_statement. *)
From CL Require Import Base.StrLemmas Model.Parser Proofs.ParserGates.

Definition with_ext (cfg : pcfg) (e : N) : pcfg :=
  {| p_ext := e; p_debug := p_debug cfg; p_strict_escape := p_strict_escape cfg;
     p_note_label_old := p_note_label_old cfg; p_fm_anywhere := p_fm_anywhere cfg |}.

Lemma text_loop_ext cfg e ts :
  forall t cs cur, text_loop (with_ext cfg e) ts t cs cur = text_loop cfg ts t cs cur.
Proof.
  induction ts as [|tk r IH]; intros; cbn [text_loop]; [reflexivity|].
  destruct (kind tk); try apply IH;
    repeat match goal with |- context [obind ?x _] => destruct x; cbn [obind] end;
    try reflexivity; try apply IH.
Qed.

Lemma text_of_ext cfg e off ts : text_of (with_ext cfg e) off ts = text_of cfg off ts.
Proof. unfold text_of. destruct ts; [reflexivity|]. destruct (_ =? _); [apply text_loop_ext | reflexivity]. Qed.

Lemma textM_ext cfg e off ts : textM (with_ext cfg e) off ts = textM cfg off ts.
Proof. unfold textM. rewrite text_of_ext. reflexivity. Qed.

Lemma bind_eq {A B} (m1 m2 : M A) (f1 f2 : A -> M B) s :
  m1 s = m2 s -> (forall a s', m1 s = Done (a, s') -> f1 a s' = f2 a s') ->
  bind m1 f1 s = bind m2 f2 s.
Proof.
  intros H1 H2. unfold bind. rewrite <- H1.
  destruct (m1 s) as [[a s']|p] eqn:E; [apply H2; reflexivity | reflexivity].
Qed.

Lemma obindM_eq {A B} (m1 m2 : M (option A)) (f1 f2 : A -> M (option B)) s :
  m1 s = m2 s -> (forall a s', m1 s = Done (Some a, s') -> f1 a s' = f2 a s') ->
  obindM m1 f1 s = obindM m2 f2 s.
Proof.
  intros H1 H2. unfold obindM. apply bind_eq; [assumption|].
  intros [a|] s' E; [apply H2; exact E | reflexivity].
Qed.

Lemma with_recover_eq {A} (m1 m2 : M (option A)) s :
  m1 s = m2 s -> with_recover m1 s = with_recover m2 s.
Proof. unfold with_recover. intros ->. reflexivity. Qed.

Lemma advance_rest n : forall s, b_rest (advance n s) = skipn n (b_rest s).
Proof.
  induction n as [|n IH]; intros s; cbn [advance]; [reflexivity|].
  destruct (b_rest s) as [|t r] eqn:E; [rewrite E; reflexivity|].
  rewrite IH. reflexivity.
Qed.

Lemma skipn_skipn' {A} n m : forall l : list A, skipn n (skipn m l) = skipn (n + m) l.
Proof.
  induction m as [|m IH]; intros l; [rewrite Nat.add_0_r; reflexivity|].
  destruct l; [rewrite !skipn_nil; reflexivity|]. rewrite Nat.add_succ_r. cbn [skipn]. apply IH.
Qed.

(* ---- every parser step leaves a suffix of the remaining tokens ---- *)
Definition sfx {A} (m : M A) : Prop :=
  forall s a s', m s = Done (a, s') -> exists n, b_rest s' = skipn n (b_rest s).

Lemma sfx_bind {A B} (m : M A) (f : A -> M B) : sfx m -> (forall a, sfx (f a)) -> sfx (bind m f).
Proof.
  intros Hm Hf s b s2 H. unfold bind in H.
  destruct (m s) as [[a s1]|] eqn:E; [|discriminate].
  destruct (Hm _ _ _ E) as [n1 E1]. destruct (Hf a _ _ _ H) as [n2 E2].
  exists (n2 + n1)%nat. rewrite E2, E1. apply skipn_skipn'.
Qed.

Ltac keep := intros s r0 s' H; exists 0%nat; cbv beta delta [ret get event error warn mkdiag peek at_kind rest all_tokens parsed current_offset panic] in H; inversion H; reflexivity.

Lemma sfx_ret {A} (a : A) : sfx (ret a). Proof. keep. Qed.
Lemma sfx_event ev : sfx (event ev). Proof. keep. Qed.
Lemma sfx_error c l : sfx (error c l). Proof. keep. Qed.
Lemma sfx_warn c l : sfx (warn c l). Proof. keep. Qed.
Lemma sfx_peek : sfx peek. Proof. keep. Qed.
Lemma sfx_at_kind k : sfx (at_kind k). Proof. keep. Qed.
Lemma sfx_rest : sfx rest. Proof. keep. Qed.
Lemma sfx_all_tokens : sfx all_tokens. Proof. keep. Qed.
Lemma sfx_current_offset : sfx current_offset. Proof. keep. Qed.
Lemma sfx_panic {A} p : sfx (@panic A p). Proof. intros s a s' H. discriminate. Qed.
Lemma sfx_lift {A} (o : outcome A) : sfx (lift o).
Proof. intros s a s' H. unfold lift in H. destruct o; inversion H. exists 0%nat. reflexivity. Qed.
Lemma sfx_textM cfg off ts : sfx (textM cfg off ts). Proof. apply sfx_lift. Qed.

Lemma sfx_next_token : sfx next_token.
Proof.
  intros s a s' H. unfold next_token in H. destruct (b_rest s) as [|t r] eqn:E; inversion H; subst.
  - exists 0%nat. cbn [skipn]. exact E.
  - exists 1%nat. reflexivity.
Qed.

Lemma sfx_bump_any : sfx bump_any.
Proof. unfold bump_any. apply sfx_bind; [apply sfx_next_token|]. intros [t|]; [apply sfx_ret | apply sfx_panic]. Qed.

Lemma sfx_bump k : sfx (bump k).
Proof. unfold bump. apply sfx_bind; [apply sfx_bump_any|]. intros t. destruct (tk_eqb _ _); [apply sfx_ret | apply sfx_panic]. Qed.

Lemma sfx_consume k : sfx (consume k).
Proof.
  unfold consume. apply sfx_bind; [apply sfx_at_kind|]. intros [|]; [|apply sfx_ret].
  apply sfx_bind; [apply sfx_bump_any | intros; apply sfx_ret].
Qed.

Lemma sfx_until f : sfx (until f).
Proof.
  intros s a s' H. unfold until in H. destruct (position f (b_rest s)); inversion H; subst.
  - eexists. apply advance_rest.
  - exists 0%nat. reflexivity.
Qed.

Lemma sfx_consume_while f : sfx (consume_while f).
Proof. intros s a s' H. unfold consume_while in H. inversion H; subst. eexists. apply advance_rest. Qed.

Lemma sfx_with_recover {A} (m : M (option A)) : sfx m -> sfx (with_recover m).
Proof.
  intros Hm s a s' H. unfold with_recover in H.
  destruct (m s) as [[[x|] s1]|] eqn:E; inversion H; subst.
  - exact (Hm _ _ _ E).
  - exists 0%nat. reflexivity.
Qed.

Lemma sfx_obindM {A B} (m : M (option A)) (f : A -> M (option B)) :
  sfx m -> (forall a, sfx (f a)) -> sfx (obindM m f).
Proof. intros Hm Hf. unfold obindM. apply sfx_bind; [exact Hm|]. intros [a|]; [apply Hf | apply sfx_ret]. Qed.

Lemma sfx_sub_block {A} ts (m : M A) : sfx (sub_block ts m).
Proof.
  intros s a s' H. unfold sub_block in H. destruct ts; [discriminate|].
  destruct (m _) as [[x s2]|]; inversion H; subst. exists 0%nat. reflexivity.
Qed.

Ltac sfx_auto :=
  repeat first
    [ apply sfx_ret | apply sfx_event | apply sfx_error | apply sfx_warn | apply sfx_peek | apply sfx_at_kind
    | apply sfx_rest | apply sfx_all_tokens | apply sfx_current_offset | apply sfx_panic | apply sfx_textM
    | apply sfx_lift | apply sfx_bump_any | apply sfx_bump | apply sfx_consume | apply sfx_until
    | apply sfx_consume_while | apply sfx_sub_block
    | match goal with
      | |- sfx (with_recover _) => apply sfx_with_recover
      | |- sfx (obindM _ _) => apply sfx_obindM; [|intros]
      | |- sfx (bind _ _) => apply sfx_bind; [|intros]
      | |- sfx (match ?x with _ => _ end) => destruct x
      | |- sfx (if ?x then _ else _) => destruct x
      | |- sfx (let '(_, _) := ?x in _) => destruct x
      end ].

Lemma sfx_comp_body : sfx comp_body.
Proof. unfold comp_body. sfx_auto. Qed.
Lemma sfx_note cfg : sfx (note cfg).
Proof. unfold note. sfx_auto. Qed.
Lemma sfx_check_note cfg : sfx (check_note cfg).
Proof. unfold check_note. sfx_auto. Qed.
Lemma sfx_parse_alias cfg ts off : sfx (parse_alias cfg ts off).
Proof. unfold parse_alias. sfx_auto. Qed.
Lemma sfx_check_empty_name t : sfx (check_empty_name t).
Proof. unfold check_empty_name. sfx_auto. Qed.
Lemma sfx_parse_quantity cfg ts : sfx (parse_quantity cfg ts).
Proof. unfold parse_quantity. sfx_auto. Qed.

(* ---------------------------------------------------------------- more frames *)
Lemma sfx_parse_inter ts : sfx (parse_inter ts).
Proof. unfold parse_inter. cbv zeta. sfx_auto. Qed.

Lemma sfx_modifiers_loop cfg fuel : forall acc, sfx (modifiers_loop cfg fuel acc).
Proof.
  induction fuel as [|f IH]; intros acc; cbn [modifiers_loop]; sfx_auto; try apply IH.
Qed.
Lemma sfx_modifiers cfg : sfx (modifiers cfg).
Proof. unfold modifiers. sfx_auto; try apply sfx_modifiers_loop. Qed.

Lemma sfx_parse_mods_loop cfg fuel : forall ts msp mods inter, sfx (parse_mods_loop cfg fuel ts msp mods inter).
Proof.
  induction fuel as [|f IH]; intros; cbn [parse_mods_loop]; sfx_auto; try apply IH; try apply sfx_parse_inter.
Qed.
Lemma sfx_parse_modifiers cfg mts mpos : sfx (parse_modifiers cfg mts mpos).
Proof. unfold parse_modifiers. sfx_auto. apply sfx_parse_mods_loop. Qed.

Lemma sfx_ingredient_p cfg : sfx (ingredient_p cfg).
Proof.
  unfold ingredient_p.
  repeat first [ apply sfx_modifiers | apply sfx_comp_body | apply sfx_note | apply sfx_parse_alias
               | apply sfx_check_empty_name | apply sfx_parse_modifiers | apply sfx_parse_quantity
               | progress sfx_auto ].
Qed.
Lemma sfx_cookware_p cfg : sfx (cookware_p cfg).
Proof.
  unfold cookware_p.
  repeat first [ apply sfx_modifiers | apply sfx_comp_body | apply sfx_note | apply sfx_parse_alias
               | apply sfx_check_empty_name | apply sfx_parse_modifiers | apply sfx_parse_quantity
               | progress sfx_auto ].
Qed.

(* ---------------------------------------------------------------- the class of core token blocks *)
Definition bad_kind (k : tkind) : bool :=
  match k with KOr | KMinus | KAnd | KQuestion | KPlus | KTilde => true | _ => false end.
Definition goodt (t : tok) : Prop := bad_kind (kind t) = false.

Definition until_close (r : list tok) : list tok :=
  match position (fun k => tk_eqb k KCloseBrace) r with Some m => firstn m r | None => [] end.
Definition qty_ok (q : list tok) : bool :=
  forallb (fun t => is_ws_block (kind t)) q || existsb (fun t => tk_eqb (kind t) KPercent) q.
Definition head_kind (r : list tok) : tkind := match r with t :: _ => kind t | [] => KEof end.
Definition local_ok (t : tok) (r : list tok) : bool :=
  negb (bad_kind (kind t))
  && (if is_marker (kind t) then negb (tk_eqb (head_kind r) KAt) else true)
  && (if tk_eqb (kind t) KOpenBrace then qty_ok (until_close r) else true).
Fixpoint core_tokens (ts : list tok) : bool :=
  match ts with [] => true | t :: r => local_ok t r && core_tokens r end.

Lemma core_skipn n : forall ts, core_tokens ts = true -> core_tokens (skipn n ts) = true.
Proof.
  induction n as [|n IH]; intros ts H; [exact H|]. destruct ts as [|t r]; [exact H|].
  cbn [skipn]. apply IH. cbn [core_tokens] in H. apply andb_prop in H. apply H.
Qed.

Lemma core_step {A} (m : M A) s a s' :
  sfx m -> m s = Done (a, s') -> core_tokens (b_rest s) = true -> core_tokens (b_rest s') = true.
Proof. intros Hm E Hc. destruct (Hm _ _ _ E) as [n ->]. apply core_skipn, Hc. Qed.

Lemma core_good ts : core_tokens ts = true -> Forall goodt ts.
Proof.
  induction ts as [|t r IH]; intro H; [constructor|]. cbn [core_tokens] in H.
  apply andb_prop in H. destruct H as [H1 H2]. constructor; [|apply IH, H2].
  unfold local_ok in H1. apply andb_prop in H1. destruct H1 as [H1 _]. apply andb_prop in H1. destruct H1 as [H1 _].
  apply negb_true_iff in H1. exact H1.
Qed.

Lemma Forall_firstn' {A} (P : A -> Prop) n : forall l, Forall P l -> Forall P (firstn n l).
Proof. induction n; intros l H; [constructor|]. destruct H; cbn [firstn]; constructor; auto. Qed.
Lemma Forall_skipn' {A} (P : A -> Prop) n : forall l, Forall P l -> Forall P (skipn n l).
Proof. induction n; intros l H; [exact H|]. destruct H; cbn [skipn]; [constructor | auto]. Qed.

Lemma position_none f ts : Forall (fun t => f (kind t) = false) ts -> position f ts = None.
Proof. induction 1 as [|t r H _ IH]; cbn [position]; [reflexivity|]. rewrite H, IH. reflexivity. Qed.

Lemma good_no_or ts : Forall goodt ts -> position (fun k => tk_eqb k KOr) ts = None.
Proof. intro H. apply position_none. eapply Forall_impl; [|exact H]. intros t Ht. unfold goodt in Ht. destruct (kind t); try reflexivity; discriminate. Qed.
Lemma good_no_minus ts : Forall goodt ts -> position (fun k => tk_eqb k KMinus) ts = None.
Proof. intro H. apply position_none. eapply Forall_impl; [|exact H]. intros t Ht. unfold goodt in Ht. destruct (kind t); try reflexivity; discriminate. Qed.

Lemma exists_not_forall {A} (p : A -> bool) l : existsb (fun t => negb (p t)) l = true -> forallb p l = false.
Proof.
  induction l as [|x r IH]; cbn [existsb forallb]; [discriminate|].
  destruct (p x); cbn [negb orb andb]; [exact IH | reflexivity].
Qed.

(* ---------------------------------------------------------------- primitives, precisely *)
Lemma until_some f s ts s' :
  until f s = Done (Some ts, s') ->
  exists n, position f (b_rest s) = Some n /\ ts = firstn n (b_rest s) /\ b_rest s' = skipn n (b_rest s).
Proof.
  unfold until. destruct (position f (b_rest s)) as [n|]; intro H; inversion H; subst.
  exists n. repeat split. apply advance_rest.
Qed.

Lemma consume_while_some f s ts s' :
  consume_while f s = Done (ts, s') -> exists n, ts = firstn n (b_rest s).
Proof. unfold consume_while. intro H; inversion H; subst. eexists. reflexivity. Qed.

Lemma consume_some k s t s' :
  consume k s = Done (Some t, s') -> b_rest s = t :: b_rest s' /\ tk_eqb (kind t) k = true.
Proof.
  intro H. unfold consume, bind, at_kind in H.
  destruct (tk_eqb (peek_of s) k) eqn:Ek; [|inversion H].
  unfold bump_any, bind, next_token in H. unfold peek_of in Ek.
  destruct (b_rest s) as [|t0 r] eqn:E; cbv beta iota delta [ret panic] in H; inversion H; subst.
  cbn [b_rest]. split; [reflexivity | exact Ek].
Qed.

Lemma keep_current_offset s a s' : current_offset s = Done (a, s') -> s' = s.
Proof. unfold current_offset. intro H; inversion H; reflexivity. Qed.
Lemma keep_rest s a s' : rest s = Done (a, s') -> s' = s /\ a = b_rest s.
Proof. unfold rest. intro H; inversion H; split; reflexivity. Qed.
Lemma keep_peek s a s' : peek s = Done (a, s') -> s' = s /\ a = peek_of s.
Proof. unfold peek. intro H; inversion H; split; reflexivity. Qed.

(* ---------------------------------------------------------------- comp_body on a core block *)
Lemma comp_body_post s bd s' :
  comp_body s = Done (Some bd, s') -> core_tokens (b_rest s) = true ->
  Forall goodt (bd_name bd) /\
  (forall q, bd_qty bd = Some q -> Forall goodt q /\ existsb (fun t => tk_eqb (kind t) KPercent) q = true).
Proof.
  intros H Hc. pose proof (core_good _ Hc) as Hg.
  unfold comp_body in H. unfold bind at 1 in H.
  match type of H with match with_recover ?A s with _ => _ end = _ => set (A0 := A) in * end.
  destruct (with_recover A0 s) as [[[b|] s1]|] eqn:EA; [| |discriminate].
  - (* braces *)
    unfold ret in H. inversion H; subst b s1. clear H.
    unfold with_recover in EA. destruct (A0 s) as [[[x|] sx]|] eqn:E; inversion EA; subst x sx. clear EA.
    unfold A0, obindM, bind in E.
    destruct (until is_marker_or_open s) as [[[name|] s2]|] eqn:E1; try discriminate.
    destruct (consume KOpenBrace s2) as [[[ob|] s3]|] eqn:E2; try discriminate.
    destruct (until (fun k => tk_eqb k KCloseBrace) s3) as [[[qty|] s4]|] eqn:E3; try discriminate.
    destruct (bump KCloseBrace s4) as [[cb s5]|] eqn:E4; try discriminate.
    unfold ret in E. inversion E; subst. cbn [bd_name bd_qty]. clear E.
    destruct (until_some _ _ _ _ E1) as [n [_ [-> R2]]].
    destruct (consume_some _ _ _ _ E2) as [R3 K3].
    destruct (until_some _ _ _ _ E3) as [m [P3 [-> _]]].
    split; [apply Forall_firstn', Hg|].
    assert (Hc2 : core_tokens (ob :: b_rest s3) = true).
    { rewrite <- R3, R2. apply core_skipn, Hc. }
    cbn [core_tokens] in Hc2. apply andb_prop in Hc2. destruct Hc2 as [L Hc3].
    unfold local_ok in L. apply andb_prop in L. destruct L as [_ L]. rewrite K3 in L.
    unfold until_close in L. rewrite P3 in L.
    intros q Hq. destruct (existsb _ (firstn m (b_rest s3))) eqn:Ne in Hq; inversion Hq; subst q.
    split; [apply Forall_firstn', core_good, Hc3|].
    unfold qty_ok in L. rewrite (exists_not_forall _ _ Ne) in L. exact L.
  - (* single word *)
    unfold with_recover in EA. destruct (A0 s) as [[[x|] sx]|] eqn:E; inversion EA; subst. clear EA E.
    unfold with_recover, bind in H.
    match type of H with match (match consume_while ?f ?st with _ => _ end) with _ => _ end = _ =>
      destruct (consume_while f st) as [[ts s2]|] eqn:E1 end; [|discriminate].
    destruct (consume_while_some _ _ _ _ E1) as [n ->]. cbn [b_rest] in *.
    destruct (firstn n (b_rest s)) as [|t0 r0] eqn:F.
    + exfalso. unfold rest, at_kind, bind in H.
      destruct (b_rest s2); [|destruct (tk_eqb (peek_of s2) KWs)];
        cbv beta iota delta [ret warn event mkdiag current_offset bind] in H; inversion H.
    + unfold ret in H. inversion H; subst. cbn [bd_name bd_qty].
      split; [rewrite <- F; apply Forall_firstn', Hg | intros q Hq; discriminate].
Qed.

(* ---------------------------------------------------------------- invariance, bottom up *)
Section Invariance.
  Variable cfg : pcfg.
  Variables e1 e2 : N.
  Notation c1 := (with_ext cfg e1).
  Notation c2 := (with_ext cfg e2).

  Lemma textM_inv off ts s : textM c1 off ts s = textM c2 off ts s.
  Proof. rewrite !textM_ext. reflexivity. Qed.

  Lemma parse_value_inv vts s : Forall goodt vts -> parse_value c1 vts s = parse_value c2 vts s.
  Proof.
    intro Hg. unfold parse_value. apply bind_eq; [reflexivity|]. intros co s1 _.
    rewrite !(range_or_numeric_untriggered _ _ (good_no_minus _ Hg)).
    destruct (numeric_value vts) as [[d|n]|]; reflexivity.
  Qed.

  Lemma sfx_scaling_lock : sfx scaling_lock.
  Proof. unfold scaling_lock, ws_comments. sfx_auto. Qed.

  Lemma value_p_inv s : Forall goodt (b_rest s) -> value_p c1 s = value_p c2 s.
  Proof.
    intro Hg. unfold value_p. apply bind_eq; [reflexivity|]. intros lock s1 E1.
    apply bind_eq; [reflexivity|]. intros vts s2 E2.
    apply bind_eq; [|intros [v sp] ? ?; reflexivity].
    apply parse_value_inv. destruct (consume_while_some _ _ _ _ E2) as [n ->].
    apply Forall_firstn'. destruct (sfx_scaling_lock _ _ _ E1) as [k ->]. apply Forall_skipn', Hg.
  Qed.

  Lemma parse_regular_quantity_inv s :
    Forall goodt (b_rest s) -> parse_regular_quantity c1 s = parse_regular_quantity c2 s.
  Proof.
    intro Hg. unfold parse_regular_quantity. apply bind_eq; [apply value_p_inv, Hg|]. intros v s1 _.
    apply bind_eq; [reflexivity|]. intros k s2 _.
    reflexivity.
  Qed.

  Lemma parse_quantity_inv q s :
    Forall goodt q -> existsb (fun t => tk_eqb (kind t) KPercent) q = true ->
    parse_quantity c1 q s = parse_quantity c2 q s.
  Proof.
    intros Hg Hp. unfold parse_quantity. destruct q as [|t q]; [reflexivity|].
    unfold sub_block.
    set (s0 := {| b_all := t :: q; b_done := []; b_rest := t :: q; b_evs := b_evs s |}).
    assert (R : forall c, (if has c X_ADVANCED_UNITS
                           then o <- with_recover (parse_advanced_quantity c);;
                                match o with Some r => ret r | None => parse_regular_quantity c end
                           else parse_regular_quantity c) s0 = parse_regular_quantity c s0).
    { intro c. destruct (has c X_ADVANCED_UNITS); [|reflexivity].
      unfold bind, with_recover. rewrite (advanced_untriggered c s0 Hp). reflexivity. }
    rewrite !R. rewrite (parse_regular_quantity_inv s0 Hg). reflexivity.
  Qed.

  Lemma note_inv s : note c1 s = note c2 s.
  Proof.
    unfold note. apply with_recover_eq. apply obindM_eq; [reflexivity|]. intros op s1 _.
    apply bind_eq; [reflexivity|]. intros off s2 _. apply obindM_eq; [reflexivity|]. intros nts s3 _.
    apply bind_eq; [reflexivity|]. intros cp s4 _. apply bind_eq; [apply textM_inv | intros; reflexivity].
  Qed.

  Lemma parse_alias_inv ts off s : Forall goodt ts -> parse_alias c1 ts off s = parse_alias c2 ts off s.
  Proof.
    intro Hg. rewrite !(alias_untriggered _ _ _ (good_no_or _ Hg)).
    apply bind_eq; [apply textM_inv | intros; reflexivity].
  Qed.

  (* after a marker on a core block no modifier can start *)
  Lemma no_modifier_after_marker mk r :
    is_marker (kind mk) = true -> core_tokens (mk :: r) = true ->
    forall s, b_rest s = r -> is_modifier_kind (peek_of s) = false.
  Proof.
    intros Hm Hc s Hr. cbn [core_tokens] in Hc. apply andb_prop in Hc. destruct Hc as [L Hc].
    unfold local_ok in L. apply andb_prop in L. destruct L as [L _]. apply andb_prop in L. destruct L as [_ L].
    rewrite Hm in L. unfold peek_of. rewrite Hr. unfold head_kind in L.
    destruct r as [|t2 r2]; [reflexivity|].
    cbn [core_tokens] in Hc. apply andb_prop in Hc. destruct Hc as [L2 _].
    unfold local_ok in L2. apply andb_prop in L2. destruct L2 as [L2 _]. apply andb_prop in L2. destruct L2 as [L2 _].
    destruct (kind t2); try reflexivity; discriminate.
  Qed.

  Lemma is_marker_of k0 t : tk_eqb (kind t) k0 = true -> is_marker k0 = true -> is_marker (kind t) = true.
  Proof. intros H Hm. destruct (kind t), k0; try discriminate; reflexivity. Qed.

  Lemma ingredient_inv s : core_tokens (b_rest s) = true -> ingredient_p c1 s = ingredient_p c2 s.
  Proof.
    intro Hc. unfold ingredient_p.
    apply bind_eq; [reflexivity|]. intros start s0 E0. apply keep_current_offset in E0. subst s0.
    apply obindM_eq; [reflexivity|]. intros at_ s1 E1. destruct (consume_some _ _ _ _ E1) as [R1 K1].
    apply bind_eq; [reflexivity|]. intros mpos s2 E2. apply keep_current_offset in E2. subst s2.
    assert (Hc1 : core_tokens (b_rest s1) = true) by (apply (core_step _ _ _ _ (sfx_consume KAt) E1 Hc)).
    assert (Hm : is_modifier_kind (peek_of s1) = false).
    { rewrite R1 in Hc. eapply no_modifier_after_marker; [|exact Hc|reflexivity].
      eapply is_marker_of; [exact K1|reflexivity]. }
    apply bind_eq; [rewrite !(modifiers_untriggered _ _ Hm); reflexivity|].
    intros mts s3 E3. rewrite (modifiers_untriggered _ _ Hm) in E3. inversion E3; subst mts s3. clear E3.
    apply bind_eq; [reflexivity|]. intros noff s4 E4. apply keep_current_offset in E4. subst s4.
    apply obindM_eq; [reflexivity|]. intros bd s5 E5.
    destruct (comp_body_post _ _ _ E5 Hc1) as [Hn Hq].
    apply bind_eq; [apply note_inv|]. intros nt s6 _.
    apply bind_eq; [reflexivity|]. intros en s7 _.
    apply bind_eq; [apply parse_alias_inv, Hn|]. intros [name alias] s8 _.
    apply bind_eq; [reflexivity|]. intros u s9 _.
    apply bind_eq; [reflexivity|]. intros [[m msp] inter] s10 _.
    apply bind_eq; [|intros; reflexivity].
    destruct (bd_qty bd) as [q|]; [|reflexivity].
    destruct (Hq q eq_refl) as [G P].
    apply bind_eq; [apply parse_quantity_inv; assumption | intros [q0 u0] ? ?; reflexivity].
  Qed.

  Lemma cookware_inv s : core_tokens (b_rest s) = true -> cookware_p c1 s = cookware_p c2 s.
  Proof.
    intro Hc. unfold cookware_p.
    apply bind_eq; [reflexivity|]. intros start s0 E0. apply keep_current_offset in E0. subst s0.
    apply obindM_eq; [reflexivity|]. intros at_ s1 E1. destruct (consume_some _ _ _ _ E1) as [R1 K1].
    apply bind_eq; [reflexivity|]. intros mpos s2 E2. apply keep_current_offset in E2. subst s2.
    assert (Hc1 : core_tokens (b_rest s1) = true) by (apply (core_step _ _ _ _ (sfx_consume KHash) E1 Hc)).
    assert (Hm : is_modifier_kind (peek_of s1) = false).
    { rewrite R1 in Hc. eapply no_modifier_after_marker; [|exact Hc|reflexivity].
      eapply is_marker_of; [exact K1|reflexivity]. }
    apply bind_eq; [rewrite !(modifiers_untriggered _ _ Hm); reflexivity|].
    intros mts s3 E3. rewrite (modifiers_untriggered _ _ Hm) in E3. inversion E3; subst mts s3. clear E3.
    apply bind_eq; [reflexivity|]. intros noff s4 E4. apply keep_current_offset in E4. subst s4.
    apply obindM_eq; [reflexivity|]. intros bd s5 E5.
    destruct (comp_body_post _ _ _ E5 Hc1) as [Hn Hq].
    apply bind_eq; [apply note_inv|]. intros nt s6 _.
    apply bind_eq; [reflexivity|]. intros en s7 _.
    apply bind_eq; [apply parse_alias_inv, Hn|]. intros [name alias] s8 _.
    apply bind_eq; [reflexivity|]. intros u s9 _.
    apply bind_eq; [|intros; reflexivity].
    destruct (bd_qty bd) as [q|]; [|reflexivity].
    destruct (Hq q eq_refl) as [G P].
    apply bind_eq; [apply parse_quantity_inv; assumption | intros [q0 u0] ? ?; reflexivity].
  Qed.

  Lemma core_head_not_tilde s : core_tokens (b_rest s) = true -> peek_of s <> KTilde.
  Proof.
    intros Hc. unfold peek_of. destruct (b_rest s) as [|t r]; [discriminate|].
    pose proof (core_good _ Hc) as G. inversion G; subst. unfold goodt in H1. intro K. rewrite K in H1. discriminate.
  Qed.

  Lemma step_loop_inv fuel : forall s, core_tokens (b_rest s) = true -> step_loop c1 fuel s = step_loop c2 fuel s.
  Proof.
    induction fuel as [|f IH]; intros s Hc; cbn [step_loop]; [reflexivity|].
    apply bind_eq; [reflexivity|]. intros r s0 E0. apply keep_rest in E0. destruct E0 as [-> ->].
    destruct (b_rest s) as [|t0 r0] eqn:Er; [reflexivity|]. rewrite <- Er in Hc.
    apply bind_eq; [reflexivity|]. intros k s1 E1. apply keep_peek in E1. destruct E1 as [-> ->].
    apply bind_eq.
    - destruct (peek_of s) eqn:Ek; try reflexivity; apply with_recover_eq.
      + apply ingredient_inv, Hc.
      + apply cookware_inv, Hc.
      + exfalso. exact (core_head_not_tilde _ Hc Ek).
    - intros comp s2 E2.
      assert (Hc2 : core_tokens (b_rest s2) = true).
      { revert E2. destruct (peek_of s) eqn:Ek; intro E2;
          try (unfold ret in E2; inversion E2; subst; exact Hc).
        - exact (core_step _ _ _ _ (sfx_with_recover _ (sfx_ingredient_p c1)) E2 Hc).
        - exact (core_step _ _ _ _ (sfx_with_recover _ (sfx_cookware_p c1)) E2 Hc).
        - exfalso. exact (core_head_not_tilde _ Hc Ek). }
      destruct comp as [ev|].
      + apply bind_eq; [reflexivity|]. intros u s3 E3. apply IH.
        exact (core_step _ _ _ _ (sfx_event ev) E3 Hc2).
      + apply bind_eq; [reflexivity|]. intros st s3 E3. apply keep_current_offset in E3. subst s3.
        apply bind_eq; [reflexivity|]. intros tk s4 E4.
        pose proof (core_step _ _ _ _ sfx_bump_any E4 Hc2) as Hc4.
        apply bind_eq; [reflexivity|]. intros more s5 E5.
        pose proof (core_step _ _ _ _ (sfx_consume_while _) E5 Hc4) as Hc5.
        apply bind_eq; [apply textM_inv|]. intros tx s6 E6.
        pose proof (core_step _ _ _ _ (sfx_textM _ _ _) E6 Hc5) as Hc6.
        apply bind_eq; [reflexivity|]. intros u s7 E7. apply IH.
        refine (core_step _ _ _ _ _ E7 Hc6). destruct (frags tx); [apply sfx_ret | apply sfx_event].
  Qed.

  Lemma parse_step_inv s : core_tokens (b_rest s) = true -> parse_step c1 s = parse_step c2 s.
  Proof.
    intro Hc. unfold parse_step.
    apply bind_eq; [reflexivity|]. intros u s1 E1. pose proof (core_step _ _ _ _ (sfx_event _) E1 Hc) as Hc1.
    apply bind_eq; [reflexivity|]. intros r s2 E2. apply keep_rest in E2. destruct E2 as [-> ->].
    apply bind_eq; [apply step_loop_inv, Hc1 | intros; reflexivity].
  Qed.
End Invariance.

(* a step block of core tokens gives the same events whatever the extension bits are *)
Theorem step_invariant cfg e1 e2 ts evs :
  core_tokens ts = true ->
  run_block ts evs (parse_step (with_ext cfg e1)) = run_block ts evs (parse_step (with_ext cfg e2)).
Proof.
  intro Hc. unfold run_block. destruct ts as [|t r]; [reflexivity|].
  rewrite (parse_step_inv cfg e1 e2 {| b_all := t :: r; b_done := []; b_rest := t :: r; b_evs := evs |} Hc). reflexivity.
Qed.

(* the same through parse_block, for a block that starts neither a metadata line, a section
   nor a text block (mod.rs 359-381, 383-408) *)
Definition step_start (k : tkind) : bool :=
  match k with KMeta | KEq | KTextStep => false | _ => true end.

Lemma parse_block_inv cfg e1 e2 old s :
  step_start (peek_of s) = true -> core_tokens (b_rest s) = true ->
  parse_block (with_ext cfg e1) old s = parse_block (with_ext cfg e2) old s.
Proof.
  intros Hs Hc. unfold parse_block.
  apply bind_eq; [reflexivity|]. intros k s1 E1. apply keep_peek in E1. destruct E1 as [-> ->].
  destruct (peek_of s) eqn:Ek; try discriminate Hs;
    (apply bind_eq; [reflexivity|]; intros mos s2 E2; unfold ret in E2; inversion E2; subst mos s2;
     unfold parse_multiline_block; apply bind_eq; [reflexivity|]; intros al s3 E3;
     unfold all_tokens in E3; inversion E3; subst al s3;
     destruct (forallb _ (b_all s)); [reflexivity|];
     apply bind_eq; [reflexivity|]; intros k2 s4 E4; apply keep_peek in E4; destruct E4 as [-> ->];
     rewrite Ek; apply parse_step_inv, Hc).
Qed.

Theorem block_invariant cfg e1 e2 old ts evs :
  step_start (head_kind ts) = true -> core_tokens ts = true ->
  run_block ts evs (parse_block (with_ext cfg e1) old) = run_block ts evs (parse_block (with_ext cfg e2) old).
Proof.
  intros Hs Hc. unfold run_block. destruct ts as [|t r]; [reflexivity|].
  rewrite (parse_block_inv cfg e1 e2 old {| b_all := t :: r; b_done := []; b_rest := t :: r; b_evs := evs |} Hs Hc).
  reflexivity.
Qed.

(* ---------------------------------------------------------------- the remaining parser gates *)
Section MoreGates.
  Variable cfg : pcfg.

  (* ---- TIMER_REQUIRES_TIME: step.rs 460-467.  The gate of timer_p, named. *)
  Definition timer_time_gate (q : option quantity) (bd : body) (name : text) : M (option quantity) :=
    match q with
    | None =>
        if has cfg X_TIMER_REQUIRES_TIME then
          let sp := match bd_close bd with
                    | Some s => s
                    | None => let e := snd (text_span name) in (e, e)
                    end in
          error D_TIMER_NO_QTY [sp] ;;; ret (Some quantity_recover)
        else ret None
    | Some _ => ret q
    end.

  (* timer_p is literally built around that gate *)
  Lemma timer_p_uses_gate :
    timer_p cfg =
    (start <- current_offset ;;
     _t <-? consume KTilde ;;
     mts <- modifiers cfg ;;
     name_offset <- current_offset ;;
     bd <-? comp_body ;;
     en <- current_offset ;;
     (match mts with [] => ret tt | _ => error D_MODS_NOT_ALLOWED [tokens_span mts] end) ;;;
     (if has cfg X_COMPONENT_ALIAS then
        match position (fun k => tk_eqb k KOr) (bd_name bd) with
        | Some sepi =>
            match skipn sepi (bd_name bd) with
            | sep :: _ => error D_ALIAS_NOT_ALLOWED [(tstart sep, tend (last (bd_name bd) sep))]
            | [] => ret tt
            end
        | None => ret tt
        end
      else ret tt) ;;;
     check_note cfg ;;;
     name <- textM cfg name_offset (bd_name bd) ;;
     q <- (match bd_qty bd with
           | Some qts =>
               '(q, _) <- parse_quantity cfg qts ;;
               (match q_unit q with
                | None => let e := snd (qv_span (q_val q)) in error D_TIMER_NO_UNIT [(e, e)]
                | Some _ => ret tt
                end) ;;;
               ret (Some q)
           | None => ret None
           end) ;;
     q <- timer_time_gate q bd name ;;
     let name_o := if is_text_empty name then None else Some name in
     q <- (match name_o, q with
           | None, None =>
               let sp := match bd_close bd with
                         | Some s => (name_offset, snd s)
                         | None => (name_offset, name_offset)
                         end in
               error D_TIMER_NEITHER [sp] ;;; ret (Some quantity_recover)
           | _, _ => ret q
           end) ;;
     ret (Some (EvTimer {| t_name := name_o; t_qty := q; t_span := (start, en) |}))).
  Proof. reflexivity. Qed.

  (* off: a timer without a duration stays without one, and no diagnostic is added *)
  Lemma timer_time_off q bd name :
    has cfg X_TIMER_REQUIRES_TIME = false -> timer_time_gate q bd name = ret q.
  Proof. intro H. unfold timer_time_gate. rewrite H. destruct q; reflexivity. Qed.

  (* on, but the timer has a quantity: the gate does nothing *)
  Lemma timer_time_untriggered q0 bd name : timer_time_gate (Some q0) bd name = ret (Some q0).
  Proof. reflexivity. Qed.

  (* ---- INTERMEDIATE_PREPARATIONS: step.rs 103-111 (modifiers), 155-157 (parse_modifiers) *)
  (* off: parse_modifiers never produces intermediate data *)
  Lemma intermediate_off fuel :
    has cfg X_INTERMEDIATE_PREPARATIONS = false ->
    forall ts msp mods inter s m i s',
      parse_mods_loop cfg fuel ts msp mods inter s = Done ((m, i), s') -> i = inter.
  Proof.
    intro H. induction fuel as [|f IH]; intros ts msp mods inter s m i s' E; cbn [parse_mods_loop] in E.
    - discriminate.
    - destruct ts as [|t r]; [unfold ret in E; inversion E; reflexivity|].
      destruct (mod_bit (kind t)); [|discriminate].
      rewrite H, andb_false_r in E. unfold bind at 1 in E. unfold ret at 1 in E.
      destruct (N.land mods n =? n).
      + unfold bind, error, event in E. eapply IH; exact E.
      + eapply IH; exact E.
  Qed.

  (* off: the `&` of the modifiers loop never swallows a parenthesis *)
  Lemma intermediate_off_loop f acc s :
    has cfg X_INTERMEDIATE_PREPARATIONS = false -> peek_of s = KAnd ->
    modifiers_loop cfg (S f) acc s = (t <- bump_any ;; modifiers_loop cfg f (acc ++ [t])) s.
  Proof.
    intros H Hk. cbn [modifiers_loop]. unfold bind at 1, peek at 1. rewrite Hk, H. reflexivity.
  Qed.

  (* on, but `&` is not followed by `(`: no intermediate data, tokens untouched *)
  Lemma intermediate_untriggered ts :
    tk_eqb (head_kind ts) KOpenParen = false -> parse_inter ts = ret (None, ts).
  Proof.
    intro H. unfold parse_inter. destruct ts as [|t0 r]; [reflexivity|].
    unfold head_kind in H. rewrite H. reflexivity.
  Qed.
End MoreGates.

(* ---------------------------------------------------------------- the document-level class *)
(* core_tokens relaxed to the class of the statement: timers with a quantity are allowed, a
   quantity without `%` is allowed when no blank is directly followed by a word, and a `>>` line
   is allowed unless its key is bracketed (mod.rs 361-371). *)
Fixpoint ws_then_word (q : list tok) : bool :=
  match q with
  | a :: (b :: _) as r => (tk_eqb (kind a) KWs && tk_eqb (kind b) KWord) || ws_then_word r
  | _ => false
  end.
Definition qty_ok_doc (q : list tok) : bool := qty_ok q || negb (ws_then_word q).
Definition timer_has_quantity (r : list tok) : bool :=
  match position is_marker_or_open r with
  | Some n =>
      match skipn n r with
      | ob :: r' =>
          tk_eqb (kind ob) KOpenBrace
          && match position (fun k => tk_eqb k KCloseBrace) r' with
             | Some m => existsb (fun t => negb (is_ws_block (kind t))) (firstn m r')
             | None => false
             end
      | [] => false
      end
  | None => false
  end.
Definition bracketed_key (r : list tok) : bool :=
  let key := match position (fun k => tk_eqb k KColon) r with Some n => firstn n r | None => r end in
  let k := trim (concat (map tstr key)) in
  match k with c :: _ => (c =? 91) && (last k 0 =? 93) | [] => false end.
Definition bad_kind_doc (k : tkind) : bool :=
  match k with KOr | KMinus | KAnd | KQuestion | KPlus => true | _ => false end.
Definition local_ok_doc (t : tok) (r : list tok) : bool :=
  negb (bad_kind_doc (kind t))
  && (if is_marker (kind t) then negb (tk_eqb (head_kind r) KAt) else true)
  && (if tk_eqb (kind t) KOpenBrace then qty_ok_doc (until_close r) else true)
  && (if tk_eqb (kind t) KTilde then timer_has_quantity r else true)
  && (if tk_eqb (kind t) KMeta then negb (bracketed_key r) else true).
Fixpoint core_tokens_doc (ts : list tok) : bool :=
  match ts with [] => true | t :: r => local_ok_doc t r && core_tokens_doc r end.
Definition core_source (U : N -> ucls) (s : str) : bool :=
  match lex U s with Some ts => core_tokens_doc ts | None => false end.
