(* C05 for every character of every input: a letter or digit of the input that is not inside
   a comment lies within the span of an event.  Composition of
     - Proofs/ParserCoverDoc.v  (every non-blank content token of the cooklang part is covered),
     - Proofs/MaskProofs.v      (a letter or digit sits in a content token or a comment token;
                                 the comment scanner marks exactly the comment tokens),
     - the anatomy of the front matter split: blank prefix, fence line, YAML text, fence line,
       cooklang part; the YAML text is the span of the front matter event, fence lines are
       `---` followed by white space.
   Hypotheses on the character classification U are those of MaskProofs.v plus: a letter or
   digit is not white space and is not the backslash (discharged for the classification dumped
   from the implementation in Proofs/CoverGen.v). *)
From CL Require Import Base.StrLemmas Model.Lexer Model.CommentMask Model.Parser
  Proofs.LexerProofs Proofs.MaskProofs Proofs.ParserSeg Proofs.ParserSplit Proofs.ParserFM
  Proofs.ParserCover Proofs.ParserCoverDoc.

(* ------------------------------------------------------------------ lists *)

Lemma app_pick {A} (x y : list A) : forall p c q,
  x ++ y = p ++ c :: q ->
  (exists b, x = p ++ c :: b /\ q = b ++ y) \/ (exists p', p = x ++ p' /\ y = p' ++ c :: q).
Proof.
  induction x as [|a x IH]; intros p c q H.
  - right. exists p. split; [reflexivity|exact H].
  - destruct p as [|a' p]; cbn [app] in H.
    + injection H as -> H. left. exists x. split; [reflexivity|symmetry; exact H].
    + injection H as -> H. destruct (IH _ _ _ H) as [(b & E1 & E2)|(p' & E1 & E2)].
      * left. exists b. split; [cbn [app]; f_equal; exact E1|exact E2].
      * right. exists p'. split; [cbn [app]; f_equal; exact E1|exact E2].
Qed.

(* the character at position p of a tiled string lies in one tile *)
Lemma concat_pick (ts : list tok) : forall p c q,
  concat (map tstr ts) = p ++ c :: q ->
  exists ts1 t ts2 a b, ts = ts1 ++ t :: ts2 /\ tstr t = a ++ c :: b /\ p = concat (map tstr ts1) ++ a.
Proof.
  induction ts as [|t0 r IH]; intros p c q H; cbn [map concat] in H.
  - destruct p; discriminate.
  - apply app_pick in H as [(b & E1 & E2)|(p' & E1 & E2)].
    + exists [], t0, r, p, b. cbn [app map concat]. tauto.
    + destruct (IH _ _ _ E2) as (ts1 & t & ts2 & a & b & A & B & C).
      exists (t0 :: ts1), t, ts2, a, b. cbn [app map concat]. rewrite A, E1, C, app_assoc. tauto.
Qed.

Lemma token_mask_app a b : token_mask (a ++ b) = token_mask a ++ token_mask b.
Proof. unfold token_mask. rewrite map_app, concat_app. reflexivity. Qed.

Lemma token_mask_length ts : length (token_mask ts) = length (concat (map tstr ts)).
Proof.
  induction ts as [|t r IH]; [reflexivity|]. change (t :: r) with ([t] ++ r).
  rewrite token_mask_app, map_app, concat_app, !app_length, IH. f_equal.
  unfold token_mask. cbn [map concat]. rewrite !app_nil_r, repeat_length. reflexivity.
Qed.

Lemma nth_repeat {A} (x d : A) n i : (i < n)%nat -> nth i (repeat x n) d = x.
Proof. revert i. induction n as [|n IH]; intros i H; [lia|]. destruct i; cbn [repeat nth]; [reflexivity|apply IH; lia]. Qed.

(* the mask flag of a character inside token t *)
Lemma token_mask_at ts1 t ts2 a c b :
  tstr t = a ++ c :: b ->
  nth (length (concat (map tstr ts1) ++ a)) (token_mask (ts1 ++ t :: ts2)) false = is_comment (kind t).
Proof.
  intro E. change (t :: ts2) with ([t] ++ ts2). rewrite !token_mask_app, app_length.
  rewrite app_nth2; rewrite token_mask_length; [|lia].
  replace (length (concat (map tstr ts1)) + length a - length (concat (map tstr ts1)))%nat with (length a) by lia.
  unfold token_mask at 1. cbn [map concat]. rewrite app_nil_r. rewrite app_nth1.
  - apply nth_repeat. rewrite E, app_length. cbn [length]. lia.
  - rewrite repeat_length, E, app_length. cbn [length]. lia.
Qed.

(* ------------------------------------------------------------------ fence lines *)

Lemma trim_end_ws_split l : exists w, l = trim_end_ws l ++ w /\ forallb uni_ws w = true.
Proof.
  induction l as [|c r (w & E & Hw)]; [exists []; split; reflexivity|]. cbn [trim_end_ws].
  destruct (trim_end_ws r) as [|x0 xr] eqn:Et.
  - cbn [app] in E. subst w. destruct (uni_ws c) eqn:Ec.
    + exists (c :: r). split; [reflexivity|]. cbn [forallb]. rewrite Ec, Hw. reflexivity.
    + exists r. split; [reflexivity|exact Hw].
  - exists w. split; [cbn [app]; f_equal; exact E|exact Hw].
Qed.

Lemma fence_chars l c : is_fence l = true -> In c l -> c = 45 \/ uni_ws c = true.
Proof.
  intros H Hi. unfold is_fence in H. apply str_eqb_eq in H.
  destruct (trim_end_ws_split l) as (w & E & Hw). rewrite H in E. rewrite E in Hi.
  apply in_app_or in Hi as [Hi|Hi].
  - left. cbn [In] in Hi. intuition congruence.
  - right. rewrite forallb_forall in Hw. apply Hw. exact Hi.
Qed.

(* fence_list_cons (Proofs/ParserFM.v) with the fact that the line is a fence *)
Lemma fence_list_cons' ls : forall off a b rest,
  fence_list ls off = (a, b) :: rest ->
  exists ls1 l ls2, ls = ls1 ++ l :: ls2 /\ a = off + blen (concat ls1) /\ b = a + blen l
                    /\ rest = fence_list ls2 b /\ is_fence l = true.
Proof.
  induction ls as [|l r IH]; intros off a b rest H; cbn [fence_list] in H; [discriminate|].
  destruct (is_fence l) eqn:Ef.
  - inversion H; subst. exists [], l, r. cbn [app concat blen].
    split; [reflexivity|]. split; [lia|]. split; [reflexivity|]. split; [reflexivity|exact Ef].
  - apply IH in H as (ls1 & l' & ls2 & E & Ha & Hb & Hr & Hf).
    exists (l :: ls1), l', ls2. cbn [app concat]. rewrite blen_app, E.
    split; [reflexivity|]. split; [lia|]. split; [exact Hb|]. split; [exact Hr|exact Hf].
Qed.

(* the anatomy of an input with front matter *)
Lemma parse_frontmatter_parts cfg s fm :
  parse_frontmatter cfg s = Some fm ->
  exists b0 f0 f1,
    s = b0 ++ f0 ++ yaml_text fm ++ f1 ++ cook_text fm /\
    is_fence f0 = true /\ is_fence f1 = true /\
    yaml_off fm = blen (b0 ++ f0) /\
    cook_off fm = blen (b0 ++ f0 ++ yaml_text fm ++ f1) /\
    (p_fm_anywhere cfg = false -> str_blank b0 = true).
Proof.
  unfold parse_frontmatter. intro H.
  destruct (fence_list (lines_inclusive s) 0) as [|[f0s ys] [|[ye cs] more]] eqn:F; try discriminate.
  destruct (p_fm_anywhere cfg || str_blank (take_bytes s f0s)) eqn:Eb; [|discriminate].
  inversion H as [Hfm]. clear H Hfm. cbn [cook_text cook_off yaml_text yaml_off].
  apply fence_list_cons' in F as (ls1 & l0 & ls2 & E1 & Hf0 & Hys & F & Hfence0).
  symmetry in F. apply fence_list_cons' in F as (ls3 & l1 & ls4 & E2 & Hye & Hcs & _ & Hfence1).
  pose proof (lines_inclusive_concat s) as Hs.
  rewrite E1, E2, !concat_app in Hs. cbn [concat] in Hs. rewrite concat_app in Hs. cbn [concat] in Hs.
  set (P := concat ls1 ++ l0) in *.
  assert (HP : blen P = ys) by (unfold P; rewrite blen_app; lia).
  assert (Es : s = P ++ concat ls3 ++ l1 ++ concat ls4)
    by (unfold P; rewrite <- app_assoc; symmetry; exact Hs).
  assert (Ecook : drop_bytes s cs = concat ls4).
  { assert (Hb : blen (P ++ concat ls3 ++ l1) = cs) by (rewrite !blen_app; lia).
    rewrite <- Hb. rewrite Es at 1.
    replace (P ++ concat ls3 ++ l1 ++ concat ls4) with ((P ++ concat ls3 ++ l1) ++ concat ls4)
      by (rewrite <- !app_assoc; reflexivity).
    apply drop_bytes_app. }
  assert (Eyaml : take_bytes (drop_bytes s ys) (ye - ys) = concat ls3).
  { rewrite Es at 1. rewrite <- HP, drop_bytes_app.
    replace (ye - blen P) with (blen (concat ls3)) by lia. apply take_bytes_app. }
  rewrite Ecook, Eyaml.
  exists (concat ls1), l0, l1. split; [rewrite Es; unfold P; rewrite <- app_assoc; reflexivity|].
  split; [exact Hfence0|]. split; [exact Hfence1|].
  split; [fold P; symmetry; exact HP|]. split.
  - rewrite app_assoc. fold P. rewrite !blen_app. lia.
  - intro Ha. rewrite Ha in Eb. cbn [orb] in Eb.
    assert (take_bytes s f0s = concat ls1) as Et.
    { rewrite Es. unfold P. rewrite <- app_assoc. replace f0s with (blen (concat ls1)) by lia. apply take_bytes_app. }
    rewrite Et in Eb. exact Eb.
Qed.

(* ------------------------------------------------------------------ characters *)

(* the comment flag of the i-th character, as the monitor computes it (comment_mask from the
   start of the cooklang part; no comments inside the front matter) *)
Definition comment_at (cfg : pcfg) (s : str) (i : nat) : bool :=
  match parse_frontmatter cfg s with
  | None => nth i (mask s) false
  | Some fm =>
      let k := (length s - length (cook_text fm))%nat in
      if (i <? k)%nat then false else nth (i - k) (mask (cook_text fm)) false
  end.

(* the byte range [a, b) lies inside the span of an event *)
Definition bytes_covered (evs : list pevent) (a b : N) : Prop :=
  exists e sp, In e evs /\ event_span e = Some sp /\ fst sp <= a /\ b <= snd sp.

Section Chars.
  Variable U : N -> ucls.
  Hypothesis special_breaks : forall c, special c = true -> is_word_char U c = false /\ is_lex_ws U c = false.
  Hypothesis alnum_not_struct : forall c, u_alnum (U c) = true ->
    u_punct (U c) = false /\ is_lex_ws U c = false /\ single_kind c = None
    /\ (c =? 10) = false /\ (c =? 13) = false /\ (c =? 62) = false /\ (c =? 45) = false /\ (c =? 91) = false.
  Hypothesis alnum_plain : forall c, u_alnum (U c) = true -> uni_ws c = false /\ (c =? 92) = false.

  Lemma blank_with c x : In c x -> uni_ws c = false -> str_blank x = false.
  Proof.
    intros Hi Hc. unfold str_blank. destruct (forallb uni_ws x) eqn:E; [|reflexivity].
    rewrite forallb_forall in E. rewrite (E c Hi) in Hc. discriminate.
  Qed.

  (* a letter or digit of a lexed text outside comments is inside a good token *)
  Lemma char_in_good_token src text off ts p c q :
    lex_at U text off = Some ts -> seg src off ts (off + blen text) ->
    text = p ++ c :: q -> u_alnum (U c) = true -> nth (length p) (mask text) false = false ->
    exists t, In t ts /\ good t /\ pstart t <= off + blen p /\ off + blen p + utf8_len c <= tend t.
  Proof.
    intros Hl Hs Et Ha Hm.
    pose proof (lex_tiles U _ _ _ Hl) as Ht. rewrite Et in Ht.
    destruct (concat_pick _ _ _ _ Ht) as (ts1 & t & ts2 & a & b & E1 & E2 & E3).
    assert (Hin : In t ts) by (rewrite E1; apply in_or_app; right; left; reflexivity).
    pose proof (alnum_tokens U alnum_not_struct _ _ _ Hl) as Hal. rewrite Forall_forall in Hal.
    assert (Hc : In c (tstr t)) by (rewrite E2; apply in_or_app; right; left; reflexivity).
    rewrite (mask_is_lexer U special_breaks _ _ _ Hl), E1, E3, (token_mask_at _ _ _ _ _ _ E2) in Hm.
    destruct (Hal t Hin c Hc Ha) as [Hk|Hk]; [|rewrite Hk in Hm; discriminate].
    (* offsets *)
    rewrite E1 in Hs. apply seg_app in Hs as (mid & Hs1 & Hs2).
    destruct (seg_sub _ _ _ _ Hs1) as (_ & Emid). cbn [ParserSeg.seg] in Hs2. destruct Hs2 as (Hst & Hti & _).
    destruct (alnum_plain c Ha) as (Hws & H92).
    assert (Hoff : off + blen p = tstart t + blen a) by (rewrite E3, blen_app, Hst, Emid; lia).
    assert (Hend : tstart t + blen a + utf8_len c <= tend t).
    { unfold tend. rewrite E2, blen_app. cbn [blen]. lia. }
    exists t. split; [exact Hin|]. rewrite Hoff. split; [|split; [|exact Hend]].
    - split; [exact Hk|]. unfold payload. destruct (kind t) eqn:Ek; try (eapply blank_with; eassumption).
      destruct Hti as (_ & _ & Hesc). destruct (Hesc Ek) as (r' & Er). rewrite Er. cbn [tl].
      rewrite Er in E2. destruct a as [|a0 a']; cbn [app] in E2.
      + injection E2 as E2 _. subst c. discriminate.
      + injection E2 as _ E2. eapply blank_with; [|exact Hws]. rewrite E2. apply in_or_app. right. left. reflexivity.
    - unfold pstart. destruct (kind t) eqn:Ek; try lia.
      destruct Hti as (_ & _ & Hesc). destruct (Hesc Ek) as (r' & Er).
      rewrite Er in E2. destruct a as [|a0 a']; cbn [app] in E2.
      + injection E2 as E2 _. subst c. discriminate.
      + cbn [blen]. pose proof (utf8_len_pos a0). lia.
  Qed.

  Lemma covered_bytes evs t a b : covered evs t -> pstart t <= a -> b <= tend t -> bytes_covered evs a b.
  Proof.
    intros (e & sp & A & B & (C1 & C2)) Ha Hb. exists e, sp. split; [exact A|]. split; [exact B|]. split; lia.
  Qed.

  Lemma app_length_minus {A} (x y : list A) : (length (x ++ y) - length y)%nat = length x.
  Proof. rewrite app_length. lia. Qed.

  Theorem chars_covered cfg s evs :
    p_fm_anywhere cfg = false -> events U cfg s = Done evs ->
    forall p c q, s = p ++ c :: q -> u_alnum (U c) = true -> comment_at cfg s (length p) = false ->
    bytes_covered evs (blen p) (blen p + utf8_len c).
  Proof.
    intros Hfm Hev p c q Es Ha Hm. unfold comment_at in Hm.
    destruct (alnum_plain c Ha) as (Hws & _).
    destruct (alnum_not_struct c Ha) as (_ & _ & _ & _ & _ & _ & H45 & _). apply N.eqb_neq in H45.
    destruct (parse_frontmatter cfg s) as [fm|] eqn:Ef.
    - destruct (parse_frontmatter_parts _ _ _ Ef) as (b0 & f0 & f1 & Edec & Hf0 & Hf1 & Hyo & Hco & Hb0).
      specialize (Hb0 Hfm).
      assert (Hfence : forall f, is_fence f = true -> In c f -> False).
      { intros f Hf Hi. destruct (fence_chars _ _ Hf Hi) as [E|E]; [contradiction|rewrite E in Hws; discriminate]. }
      rewrite Es in Edec. symmetry in Edec. apply app_pick in Edec as [(b & E1 & _)|(p1 & Ep1 & Edec)].
      { exfalso. unfold str_blank in Hb0. rewrite forallb_forall in Hb0.
        rewrite (Hb0 c) in Hws; [discriminate|]. rewrite E1. apply in_or_app. right. left. reflexivity. }
      apply app_pick in Edec as [(b & E1 & _)|(p2 & Ep2 & Edec)].
      { exfalso. apply (Hfence f0 Hf0). rewrite E1. apply in_or_app. right. left. reflexivity. }
      apply app_pick in Edec as [(b & E1 & _)|(p3 & Ep3 & Edec)].
      { (* inside the YAML text *)
        pose proof (events_yaml U cfg s evs fm Hev Ef) as Hy.
        exists (EvYaml (text_from_str (yaml_text fm) (yaml_off fm))). eexists. split; [exact Hy|].
        split; [reflexivity|]. unfold text_from_str. destruct (yaml_text fm) as [|y0 yr] eqn:Ey; [destruct p2; discriminate|].
        unfold text_span, frag_end; cbn [frags toff last foff ftext fst snd].
        rewrite Ep1, Ep2, Hyo, E1, !blen_app. cbn [blen]. lia. }
      apply app_pick in Edec as [(b & E1 & _)|(p4 & Ep4 & Edec)].
      { exfalso. apply (Hfence f1 Hf1). rewrite E1. apply in_or_app. right. left. reflexivity. }
      (* inside the cooklang part *)
      assert (Epre : p = (b0 ++ f0 ++ yaml_text fm ++ f1) ++ p4).
      { rewrite Ep1, Ep2, Ep3, Ep4, <- !app_assoc. reflexivity. }
      assert (Hs' : s = (b0 ++ f0 ++ yaml_text fm ++ f1) ++ cook_text fm).
      { rewrite Es, Epre, Edec, <- !app_assoc. reflexivity. }
      assert (Ek : (length s - length (cook_text fm))%nat = length (b0 ++ f0 ++ yaml_text fm ++ f1)).
      { rewrite Hs' at 1. apply app_length_minus. }
      cbv zeta in Hm. rewrite Ek, Epre, app_length in Hm.
      destruct (_ <? _)%nat eqn:El in Hm; [apply Nat.ltb_lt in El; lia|].
      replace (length (b0 ++ f0 ++ yaml_text fm ++ f1) + length p4 - length (b0 ++ f0 ++ yaml_text fm ++ f1))%nat
        with (length p4) in Hm by lia.
      destruct (lex_total U (cook_text fm) (cook_off fm)) as (ts & Hl).
      pose proof (lex_at_seg U _ _ _ _ Hl (eq_sym Hco)) as Hseg.
      destruct (char_in_good_token _ _ _ _ _ _ _ Hl Hseg Edec Ha Hm) as (t & Hin & Hg & Hlo & Hhi).
      assert (Hct : cook_tokens U cfg s = Some ts) by (unfold cook_tokens; rewrite Ef; exact Hl).
      pose proof (events_cover U cfg s evs ts Hev Hct t Hin Hg) as Hcov.
      eapply covered_bytes; [exact Hcov| |]; rewrite Epre, blen_app, <- Hco; lia.
    - destruct (lex_total U s 0) as (ts & Hl).
      pose proof (lex_at_seg U _ _ _ [] Hl eq_refl) as Hseg. cbn [app] in Hseg.
      destruct (char_in_good_token _ _ _ _ _ _ _ Hl Hseg Es Ha Hm) as (t & Hin & Hg & Hlo & Hhi).
      assert (Hct : cook_tokens U cfg s = Some ts) by (unfold cook_tokens; rewrite Ef; exact Hl).
      pose proof (events_cover U cfg s evs ts Hev Hct t Hin Hg) as Hcov.
      eapply covered_bytes; [exact Hcov|lia|lia].
  Qed.
End Chars.
