(* Property C17, the trailing edit: the "numbers" and "quantity" functions of Model/Parser.v
   (numeric_value ... parse_quantity) under [wsimb].  A line may end inside `{...}`: the tokens of a
   quantity then hold a newline token and the inserted blank / comment in front of it.  A value
   with a newline token in it is never numeric (trim_tokens drops blanks and comments, not
   newlines), so it is read as text on both sides; without a newline token nothing was inserted
   before the last token that is not blank space. *)
From Coq Require Import List Lia.
From CL Require Import Base.StrLemmas Model.Lexer Model.PText Model.CommentMask Model.Parser Model.Edits
  Proofs.EditParserProofs Proofs.EditSimDefs Proofs.EditSimQty Proofs.EditInsDefs Proofs.EditInsPrim.
From CL Require Import Proofs.EditTrailDefs Proofs.EditTrailStr Proofs.EditTrailPrim.
Import ListNotations.

(* ---------------------------------------------------------------- newline tokens *)
Definition is_nl (t : tok) : bool := tk_eqb (kind t) KNewline.
Definition has_nl (l : list tok) : bool := existsb is_nl l.

Lemma wsimb_has_nl e l1 l2 : wsimb e l1 l2 -> has_nl l1 = has_nl l2.
Proof. apply (wsimb_existsb (fun k => tk_eqb k KNewline) e); reflexivity. Qed.

Lemma has_nl_app a b : has_nl (a ++ b) = has_nl a || has_nl b.
Proof. apply existsb_app. Qed.
Lemma has_nl_rev l : has_nl (rev l) = has_nl l.
Proof.
  induction l as [|t r IH]; [reflexivity|]. cbn [rev]. rewrite has_nl_app, IH. cbn [has_nl existsb].
  rewrite orb_false_r. apply orb_comm.
Qed.
Lemma has_nl_no_nl l : has_nl l = false -> no_nl l.
Proof.
  unfold has_nl, no_nl, is_nl. induction l as [|t r IH]; [reflexivity|]. cbn [existsb forallb]. intro H.
  apply orb_false_iff in H as [H1 H2]. rewrite H1, (IH H2). reflexivity.
Qed.

Lemma has_nl_cons t r : has_nl (t :: r) = is_nl t || has_nl r.
Proof. reflexivity. Qed.
Lemma wsc_not_nl t : is_ws_comment (kind t) = true -> is_nl t = false.
Proof. unfold is_nl. destruct (kind t); intro; try discriminate; reflexivity. Qed.

Lemma drop_wsc_has_nl l : has_nl (drop_ws_comment l) = has_nl l.
Proof.
  induction l as [|t r IH]; [reflexivity|]. cbn [drop_ws_comment]. unfold not_ws_comment.
  destruct (is_ws_comment (kind t)) eqn:E; cbn [negb]; [|reflexivity].
  rewrite IH, has_nl_cons, (wsc_not_nl _ E). reflexivity.
Qed.
Lemma trim_has_nl l : has_nl (trim_tokens l) = has_nl l.
Proof. unfold trim_tokens. rewrite has_nl_rev, drop_wsc_has_nl, has_nl_rev, drop_wsc_has_nl. reflexivity. Qed.
Lemma filter_nwc_has_nl l : has_nl (filter not_ws_comment l) = has_nl l.
Proof.
  induction l as [|t r IH]; [reflexivity|]. cbn [filter]. unfold not_ws_comment at 1.
  destruct (is_ws_comment (kind t)) eqn:E; cbn [negb]; rewrite !has_nl_cons, ?IH, ?(wsc_not_nl _ E); reflexivity.
Qed.

Lemma kind_not_nl t k : kind t = k -> k <> KNewline -> is_nl t = false.
Proof. intros E N. unfold is_nl. rewrite E. apply tkb_neq. exact N. Qed.
Lemma ioz_not_nl t : is_int_or_zero (kind t) = true -> is_nl t = false.
Proof. unfold is_nl. destruct (kind t); intro; try discriminate; reflexivity. Qed.

Lemma num_simple_nl tr : has_nl tr = true -> num_simple tr = None.
Proof.
  intro H. destruct tr as [|a [|b [|c [|d r]]]]; try reflexivity; unfold num_simple; cbn [has_nl existsb] in H.
  - destruct (tk_eqb (kind a) KInt) eqn:Ea; [|reflexivity]. apply tkb_true in Ea.
    rewrite (kind_not_nl _ _ Ea) in H by discriminate. discriminate.
  - destruct (tk_eqb (kind a) KDot) eqn:Ea; [|reflexivity]. cbn [andb].
    destruct (is_int_or_zero (kind b)) eqn:Eb; [|reflexivity]. apply tkb_true in Ea.
    rewrite (kind_not_nl _ _ Ea), (ioz_not_nl _ Eb) in H by discriminate. discriminate.
  - destruct (tk_eqb (kind a) KInt) eqn:Ea; [|reflexivity]. cbn [andb].
    destruct (tk_eqb (kind b) KDot) eqn:Eb; [|reflexivity]. cbn [andb].
    destruct (is_int_or_zero (kind c)) eqn:Ec; [|reflexivity]. apply tkb_true in Ea. apply tkb_true in Eb.
    rewrite (kind_not_nl _ _ Ea), (kind_not_nl _ _ Eb), (ioz_not_nl _ Ec) in H by discriminate. discriminate.
Qed.

Lemma num_frac_nl fl : has_nl fl = true -> num_frac fl = None.
Proof.
  intro H. destruct fl as [|a [|b [|c [|d [|x r]]]]]; try reflexivity; unfold num_frac; cbn [has_nl existsb] in H.
  - destruct (tk_eqb (kind a) KInt) eqn:Ea; [|reflexivity]. cbn [andb].
    destruct (tk_eqb (kind b) KSlash) eqn:Eb; [|reflexivity]. cbn [andb].
    destruct (tk_eqb (kind c) KInt) eqn:Ec; [|reflexivity]. apply tkb_true in Ea. apply tkb_true in Eb. apply tkb_true in Ec.
    rewrite (kind_not_nl _ _ Ea), (kind_not_nl _ _ Eb), (kind_not_nl _ _ Ec) in H by discriminate. discriminate.
  - destruct (tk_eqb (kind a) KInt) eqn:Ea; [|reflexivity]. cbn [andb].
    destruct (tk_eqb (kind b) KInt) eqn:Eb; [|reflexivity]. cbn [andb].
    destruct (tk_eqb (kind c) KSlash) eqn:Ec; [|reflexivity]. cbn [andb].
    destruct (tk_eqb (kind d) KInt) eqn:Ed; [|reflexivity].
    apply tkb_true in Ea. apply tkb_true in Eb. apply tkb_true in Ec. apply tkb_true in Ed.
    rewrite (kind_not_nl _ _ Ea), (kind_not_nl _ _ Eb), (kind_not_nl _ _ Ec), (kind_not_nl _ _ Ed) in H by discriminate. discriminate.
Qed.

Lemma numeric_value_nl ts : has_nl ts = true -> numeric_value ts = None.
Proof.
  intro H. rewrite numeric_value_split. rewrite <- trim_has_nl in H.
  destruct (trim_tokens ts) as [|t r] eqn:E; [reflexivity|].
  rewrite (num_simple_nl _ H). apply num_frac_nl. rewrite filter_nwc_has_nl. exact H.
Qed.

(* ---------------------------------------------------------------- without a newline token *)
Definition wsc_all (l : list tok) : Prop := forallb (fun t => is_ws_comment (kind t)) l = true.

Lemma gtok_wsc g : gtok g -> is_ws_comment (kind g) = true.
Proof. intro H. destruct (gtok_kind _ H) as [-> | ->]; reflexivity. Qed.

Lemma wsimb_nil_wsc e l2 : wsimb e [] l2 -> wsc_all l2.
Proof.
  intro H. remember [] as l1 eqn:E. induction H as [|a b r1 r2 _ _ _ _|a b r1 r2 _ _ _ _|g r1 r2 Hg Ha _ IH]; try discriminate.
  - reflexivity.
  - subst r1. unfold wsc_all in *. cbn [forallb]. rewrite (gtok_wsc _ Hg), (IH eq_refl). reflexivity.
Qed.

Lemma wsimb_nonl_decomp e l1 l2 : wsimb e l1 l2 -> has_nl l1 = false ->
  exists p1 p2 t1 t2, l1 = p1 ++ t1 /\ l2 = p2 ++ t2 /\ ksim p1 p2 /\ wsc_all t1 /\ wsc_all t2.
Proof.
  induction 1 as [|a b r1 r2 Hab _ H IH|a b r1 r2 Hab Ha H IH|g r1 r2 Hg Ha H IH]; intro N.
  - exists [], [], [], []. repeat split; constructor.
  - cbn [has_nl existsb] in N. apply orb_false_iff in N as [_ N]. destruct (IH N) as (p1 & p2 & t1 & t2 & -> & -> & K & W1 & W2).
    exists (a :: p1), (b :: p2), t1, t2. repeat split; try assumption. constructor; assumption.
  - cbn [has_nl existsb] in N. apply orb_false_iff in N as [_ N].
    pose proof (atnl_no_nl _ _ Ha (has_nl_no_nl _ N)) as ->. pose proof (wsimb_nil_wsc _ _ H) as W2.
    destruct Hab as (Ka & Kb & _). exists [], [], [a], (b :: r2). repeat split; try constructor.
    + unfold wsc_all. cbn [forallb]. rewrite Ka. reflexivity.
    + unfold wsc_all in *. cbn [forallb]. rewrite Kb, W2. reflexivity.
  - pose proof (atnl_no_nl _ _ Ha (has_nl_no_nl _ N)) as ->. pose proof (wsimb_nil_wsc _ _ H) as W2.
    exists [], [], [], (g :: r2). repeat split; try constructor.
    unfold wsc_all in *. cbn [forallb]. rewrite (gtok_wsc _ Hg), W2. reflexivity.
Qed.

Lemma drop_wsc_all t x : wsc_all t -> drop_ws_comment (t ++ x) = drop_ws_comment x.
Proof.
  unfold wsc_all. induction t as [|a r IH]; intro H; [reflexivity|]. cbn [forallb] in H. apply andb_prop in H as [Ha Hr].
  cbn [app drop_ws_comment]. unfold not_ws_comment. rewrite Ha. cbn [negb]. exact (IH Hr).
Qed.
Lemma drop_wsc_app p t : drop_ws_comment (p ++ t) = match drop_ws_comment p with [] => drop_ws_comment t | x => x ++ t end.
Proof.
  induction p as [|a r IH]; [cbn; destruct (drop_ws_comment t); reflexivity|]. cbn [app drop_ws_comment].
  destruct (not_ws_comment a); [reflexivity | exact IH].
Qed.
Lemma wsc_all_rev t : wsc_all t -> wsc_all (rev t).
Proof.
  unfold wsc_all. induction t as [|a r IH]; intro H; [reflexivity|]. cbn [forallb] in H. apply andb_prop in H as [Ha Hr].
  cbn [rev]. rewrite forallb_app, (IH Hr). cbn [forallb]. rewrite Ha. reflexivity.
Qed.

Lemma trim_tokens_tail p t : wsc_all t -> trim_tokens (p ++ t) = trim_tokens p.
Proof.
  intro H. unfold trim_tokens. rewrite drop_wsc_app.
  destruct (drop_ws_comment p) as [|x y] eqn:E.
  - rewrite <- (app_nil_r t), (drop_wsc_all _ _ H). reflexivity.
  - rewrite rev_app_distr, (drop_wsc_all _ _ (wsc_all_rev _ H)). reflexivity.
Qed.

Lemma wsimb_trim_ksim e l1 l2 : wsimb e l1 l2 -> has_nl l1 = false -> ksim (trim_tokens l1) (trim_tokens l2).
Proof.
  intros H N. destruct (wsimb_nonl_decomp _ _ _ H N) as (p1 & p2 & t1 & t2 & -> & -> & K & W1 & W2).
  rewrite !trim_tokens_tail by assumption. apply trim_tokens_rel. exact K.
Qed.

Theorem numeric_value_w e l1 l2 : wsimb e l1 l2 -> orel (srel drel eq) (numeric_value l1) (numeric_value l2).
Proof.
  intro H. destruct (has_nl l1) eqn:N.
  - rewrite (numeric_value_nl _ N), (numeric_value_nl l2) by (rewrite <- (wsimb_has_nl _ _ _ H); exact N). exact I.
  - rewrite !numeric_value_split. pose proof (wsimb_trim_ksim _ _ _ H N) as Ht.
    rewrite (num_simple_rel _ _ Ht). pose proof (num_frac_rel _ _ (filter_nwc_rel _ _ Ht)) as Hf.
    destruct Ht as [|a b r1 r2 Hab Hr]; [exact I|].
    destruct (num_simple (b :: r2)); [cbn; reflexivity | exact Hf].
Qed.

(* ---------------------------------------------------------------- dropping blanks and block comments at the end *)
Fixpoint strip_wb (l : list tok) : list tok :=
  match l with
  | [] => []
  | t :: r => match strip_wb r with
              | [] => if is_ws_block (kind t) then [] else [t]
              | r' => t :: r'
              end
  end.

Lemma drop_wb_snoc x t :
  drop_ws_block (x ++ [t]) = match drop_ws_block x with [] => if is_ws_block (kind t) then [] else [t] | y => y ++ [t] end.
Proof.
  induction x as [|u r IH]; cbn [app drop_ws_block]; [destruct (is_ws_block (kind t)); reflexivity|].
  destruct (is_ws_block (kind u)); [exact IH | reflexivity].
Qed.

Lemma strip_wb_spec l : strip_wb l = rev (drop_ws_block (rev l)).
Proof.
  induction l as [|t r IH]; [reflexivity|]. cbn [strip_wb rev]. rewrite drop_wb_snoc, IH.
  destruct (drop_ws_block (rev r)) as [|y ys] eqn:E.
  - cbn [rev]. destruct (is_ws_block (kind t)); reflexivity.
  - rewrite rev_app_distr. cbn [rev app]. destruct (rev ys ++ [y]) eqn:E2; [destruct (rev ys); discriminate | reflexivity].
Qed.

Lemma strip_wb_head t r : strip_wb (t :: r) <> [] -> exists q, strip_wb (t :: r) = t :: q.
Proof.
  cbn [strip_wb]. destruct (strip_wb r) as [|x y]; [|intros _; eexists; reflexivity].
  destruct (is_ws_block (kind t)); [intro H; contradiction H; reflexivity | intros _; eexists; reflexivity].
Qed.
Lemma strip_wb_nl t r : kind t = KNewline -> strip_wb (t :: r) <> [].
Proof. intro K. cbn [strip_wb]. destruct (strip_wb r); [rewrite K; discriminate | discriminate]. Qed.

Lemma wi_nil_iff l1 l2 : Wi l1 l2 -> (l1 = [] <-> l2 = []).
Proof.
  intro H. split; intro E; subst.
  - destruct (wsimb_nil_l _ _ H) as [_ F]. apply F. reflexivity.
  - exact (wsimb_nil_r _ _ H).
Qed.

Lemma atnl_false_inv r : atnl false r -> exists t q, r = t :: q /\ kind t = KNewline.
Proof. destruct r as [|t q]; cbn [atnl]; intro H; [discriminate | exists t, q; split; [reflexivity | exact H]]. Qed.

Lemma strip_wb_cons t r :
  strip_wb (t :: r) = match strip_wb r with [] => if is_ws_block (kind t) then [] else [t] | r' => t :: r' end.
Proof. reflexivity. Qed.

Lemma strip_wb_wi l1 l2 : Wi l1 l2 -> Wi (strip_wb l1) (strip_wb l2).
Proof.
  unfold Wi. induction 1 as [|a b r1 r2 Hab Ho H IH|a b r1 r2 Hab Ha H IH|g r1 r2 Hg Ha H IH].
  - constructor.
  - pose proof (wi_nil_iff _ _ IH) as N. rewrite (strip_wb_cons a), (strip_wb_cons b), <- (krel_kind _ _ Hab).
    destruct (strip_wb r1) as [|x1 y1] eqn:E1, (strip_wb r2) as [|x2 y2] eqn:E2.
    + destruct (is_ws_block (kind a)); [constructor | apply w_cons; [exact Hab | | constructor]].
      destruct Ho as [Ho | Ho]; [left; exact Ho | right; split; reflexivity].
    + exfalso. destruct N as [N _]. discriminate (N eq_refl).
    + exfalso. destruct N as [_ N]. discriminate (N eq_refl).
    + apply w_cons; [exact Hab | | exact IH]. destruct Ho as [Ho | [-> _]]; [left; exact Ho | discriminate E1].
  - destruct (atnl_false_inv _ Ha) as (t & q & -> & Kt). pose proof (wi_nil_iff _ _ IH) as N.
    pose proof (strip_wb_nl t q Kt) as N1. destruct (strip_wb_head t q N1) as (q' & E1).
    rewrite (strip_wb_cons a), (strip_wb_cons b). rewrite E1 in *.
    destruct (strip_wb r2) as [|x2 y2] eqn:E2; [exfalso; destruct N as [_ N]; discriminate (N eq_refl)|].
    apply w_wsx; [exact Hab | exact Kt | exact IH].
  - destruct (atnl_false_inv _ Ha) as (t & q & -> & Kt). pose proof (wi_nil_iff _ _ IH) as N.
    pose proof (strip_wb_nl t q Kt) as N1. destruct (strip_wb_head t q N1) as (q' & E1).
    rewrite (strip_wb_cons g). rewrite E1 in *.
    destruct (strip_wb r2) as [|x2 y2] eqn:E2; [exfalso; destruct N as [_ N]; discriminate (N eq_refl)|].
    apply w_ins; [exact Hg | exact Kt | exact IH].
Qed.

(* the last tokens of strictly related lists are related one to one *)
Definition lastk (l : list tok) : option tkind := option_map kind (hd_error (rev l)).

Lemma lastk_cons a r : lastk (a :: r) = match lastk r with Some k => Some k | None => Some (kind a) end.
Proof. unfold lastk. cbn [rev]. destruct (rev r); reflexivity. Qed.
Lemma lastk_none r : lastk r = None -> r = [].
Proof.
  unfold lastk. intro H. destruct (rev r) eqn:E; [|discriminate].
  apply (f_equal (@length tok)) in E. rewrite rev_length in E. destruct r; [reflexivity | discriminate].
Qed.

Lemma wi_last l1 l2 : Wi l1 l2 -> lastk l1 = lastk l2.
Proof.
  unfold Wi. induction 1 as [|a b r1 r2 Hab Ho H IH|a b r1 r2 Hab Ha H IH|g r1 r2 Hg Ha H IH].
  - reflexivity.
  - rewrite !lastk_cons, IH, (krel_kind _ _ Hab). reflexivity.
  - destruct (atnl_false_inv _ Ha) as (t & q & -> & Kt). rewrite (lastk_cons a), (lastk_cons b), <- IH.
    destruct (lastk (t :: q)) eqn:E; [reflexivity|]. apply lastk_none in E. discriminate.
  - destruct (atnl_false_inv _ Ha) as (t & q & -> & Kt). rewrite (lastk_cons g), <- IH.
    destruct (lastk (t :: q)) eqn:E; [reflexivity|]. apply lastk_none in E. discriminate.
Qed.

(* ---------------------------------------------------------------- quantities *)
Definition qrw (a b : quantity) : Prop := qvrel (q_val a) (q_val b) /\ orel (trw true) (q_unit a) (q_unit b).

Lemma qrw_pq a b : qrw a b -> pq a = pq b.
Proof.
  intros [[Hv Hl] Hu]. unfold pq, pqv. rewrite Hv, (otrw_map_tx _ _ _ Hu).
  destruct (qlock (q_val a)), (qlock (q_val b)); try reflexivity; exfalso; destruct Hl as [A B];
    first [discriminate (A eq_refl) | discriminate (B eq_refl)].
Qed.
Lemma orel_map_pqw o1 o2 : orel qrw o1 o2 -> option_map pq o1 = option_map pq o2.
Proof. destruct o1, o2; cbn; try tauto. intro H. rewrite (qrw_pq _ _ H). reflexivity. Qed.
Lemma qrw_recover : qrw quantity_recover quantity_recover.
Proof. split; [split; [reflexivity | tauto] | exact I]. Qed.

Lemma WJ_consume_rest_ne :
  HJ (Sw (fun r1 r2 => W r1 r2 /\ r1 <> [])) consume_rest consume_rest
     (fun l1 s1 l2 s2 => (W l1 l2 /\ l1 <> [] /\ l2 <> []) /\ Sw W s1 s2).
Proof.
  intros s1 s2 S. pose proof S as ((Hr & Hn) & _).
  pose proof (WJ_consume_rest s1 s2 (Sw_rest _ _ _ _ S Hr)) as X. unfold consume_rest, consume_while in *.
  assert (P : forall l, position (fun _ : tkind => negb true) l = None).
  { induction l as [|t r IH]; [reflexivity|]. cbn [position]. rewrite IH. reflexivity. }
  rewrite !P, !firstn_all in *. destruct X as (X1 & X2 & _). split; [|exact X2]. split; [exact X1|]. split; [exact Hn|].
  exact (wsimb_ne _ _ _ Hr Hn).
Qed.

Lemma tl_skipn_tok (n : nat) : forall l : list tok, tl (skipn n l) = skipn (S n) l.
Proof. induction n as [|n IH]; intros [|t r]; try reflexivity. cbn [skipn] in *. apply IH. Qed.

Section Qty.
  Variable cfg : pcfg.

  Lemma range_value_w e ts1 ts2 : wsimb e ts1 ts2 -> orel (srel drel eq) (range_value cfg ts1) (range_value cfg ts2).
  Proof.
    intro H. unfold range_value. destruct (negb (has cfg X_RANGE_VALUES)); [exact I|].
    pose proof (wsimb_split (fun k => tk_eqb k KMinus) e _ _ eq_refl eq_refl H) as X.
    destruct (position _ ts1) as [n1|], (position _ ts2) as [n2|]; try contradiction; [|exact I].
    destruct X as [X1 (a & b & r1 & r2 & E1 & E2 & _ & _ & _ & X2)].
    assert (S1 : skipn (S n1) ts1 = r1) by (rewrite <- (tl_skipn_tok n1), E1; reflexivity).
    assert (S2 : skipn (S n2) ts2 = r2) by (rewrite <- (tl_skipn_tok n2), E2; reflexivity).
    rewrite S1, S2. pose proof (numeric_value_w _ _ _ X1) as H1. pose proof (numeric_value_w _ _ _ X2) as H2.
    destruct (numeric_value (firstn n1 ts1)) as [[e1|a1]|], (numeric_value (firstn n2 ts2)) as [[e2|a2]|];
      cbn in H1; try contradiction; try exact I; [exact H1|]. subst a2.
    destruct (numeric_value r1) as [[e1|b1]|], (numeric_value r2) as [[e2|b2]|];
      cbn in H2; try contradiction; try exact I; [exact H2|]. subst b2. cbn. reflexivity.
  Qed.

  Lemma range_or_numeric_w e ts1 ts2 :
    wsimb e ts1 ts2 -> orel (srel drel eq) (range_or_numeric cfg ts1) (range_or_numeric cfg ts2).
  Proof.
    intro H. unfold range_or_numeric. pose proof (range_value_w _ _ _ H) as Hr.
    destruct (range_value cfg ts1) as [x1|], (range_value cfg ts2) as [x2|]; cbn in Hr; try contradiction; [exact Hr|].
    pose proof (numeric_value_w _ _ _ H) as Hn.
    destruct (numeric_value ts1) as [[e1|n1]|], (numeric_value ts2) as [[e2|n2]|]; cbn in Hn; try contradiction;
      try exact I; [exact Hn|]. subst n2. cbn. reflexivity.
  Qed.

  Lemma scaling_lock_w : WL W (fun a b : option span => a = None <-> b = None) scaling_lock scaling_lock W.
  Proof.
    unfold scaling_lock. eapply WL_bind; [apply WL_ws_comments|]. intros _ _ _.
    unfold WL. eapply HJ_bind; [apply WJ_peek|]. intros k1 k2 s1 s2 [Hk S]. revert s1 s2 S.
    change (WL (Wk k1) (fun a b : option span => a = None <-> b = None)
              (match k1 with KEq => t <- bump_any ;; ret (Some (tok_span t)) | _ => ret None end)
              (match k2 with KEq => t <- bump_any ;; ret (Some (tok_span t)) | _ => ret None end) W).
    destruct (kcl_cases _ _ Hk) as [[<- Kn] | [E1 E2]].
    - destruct k1; try (eapply WL_pre; [|apply WL_ret; tauto]; intros l1 l2 [X _]; exact X).
      eapply WL_bind; [apply WL_bump_any_k; discriminate|]. intros t1 t2 _. apply WL_ret. split; discriminate.
    - destruct k1; try discriminate E1; destruct k2; try discriminate E2;
        (eapply WL_pre; [|apply WL_ret; tauto]; intros l1 l2 [X _]; exact X).
  Qed.

  Lemma text_value_w ts1 ts2 o1 o2 : W ts1 ts2 -> WN eq (text_value cfg ts1 o1) (text_value cfg ts2 o2).
  Proof.
    intro H. unfold text_value. eapply WN_bind; [apply WN_textM; exact H|]. intros t1 t2 Ht.
    eapply (WN_bind anyrel).
    - rewrite (trw_empty _ _ _ Ht). destruct (is_text_empty t2); [apply WN_error | apply WN_ret; exact I].
    - intros _ _ _. apply WN_ret. rewrite (trw_trimmed _ _ _ Ht). reflexivity.
  Qed.

  Lemma parse_value_w ts1 ts2 : W ts1 ts2 -> WN (prel eq anyrel) (parse_value cfg ts1) (parse_value cfg ts2).
  Proof.
    intro H. unfold parse_value. eapply WN_bind; [apply WN_current_offset|]. intros co1 co2 _.
    pose proof (range_or_numeric_w _ _ _ H) as Hr.
    destruct (range_or_numeric cfg ts1) as [[e1|v1]|], (range_or_numeric cfg ts2) as [[e2|v2]|];
      cbn in Hr; try contradiction.
    - eapply WN_bind; [apply WN_diag; exact Hr|]. intros _ _ _. apply WN_ret. split; [reflexivity | exact I].
    - subst v2. apply WN_ret. split; [reflexivity | exact I].
    - eapply WN_bind; [apply text_value_w; exact H|]. intros v1 v2 ->. apply WN_ret. split; [reflexivity | exact I].
  Qed.

  Lemma value_p_w : WL W qvrel (value_p cfg) (value_p cfg) W.
  Proof.
    unfold value_p. eapply WL_bind; [apply scaling_lock_w|]. intros l1 l2 Hl.
    eapply WL_bind; [apply WL_consume_while_pass; reflexivity|]. intros vts1 vts2 Hv.
    eapply WL_bind; [apply WN_of; apply parse_value_w; exact Hv|].
    intros [v1 sp1] [v2 sp2] [Hv' _]. cbn [fst] in Hv'. subst v2. apply WL_ret. split; [reflexivity | exact Hl].
  Qed.

  Lemma parse_regular_quantity_w :
    WL W (prel qrw anyrel) (parse_regular_quantity cfg) (parse_regular_quantity cfg) W.
  Proof.
    unfold parse_regular_quantity. eapply WL_bind; [apply value_p_w|]. intros v1 v2 Hv.
    unfold WL. eapply HJ_bind; [apply WJ_peek|]. intros k1 k2 s1 s2 [Hk S]. revert s1 s2 S.
    set (U1 := match k1 with
               | KPercent => sep <- bump_any ;; uts <- consume_rest ;; ut <- textM cfg (tend sep) uts ;; ret (Some (tok_span sep, ut))
               | _ => ret None end).
    set (U2 := match k2 with
               | KPercent => sep <- bump_any ;; uts <- consume_rest ;; ut <- textM cfg (tend sep) uts ;; ret (Some (tok_span sep, ut))
               | _ => ret None end).
    assert (HU : WL (Wk k1) (orel (prel (@anyrel span span) (trw true))) U1 U2 W).
    { subst U1 U2. destruct (kcl_cases _ _ Hk) as [[<- Kn] | [E1 E2]].
      - destruct k1; try (eapply WL_pre; [|apply WL_ret; exact I]; intros l1 l2 [X _]; exact X).
        eapply WL_bind; [apply WL_bump_any_k; discriminate|]. intros sep1 sep2 _.
        eapply WL_bind; [apply WL_consume_rest|]. intros uts1 uts2 Hu.
        eapply WL_bind; [apply WN_of; apply WN_textM; exact Hu|]. intros ut1 ut2 Hut. apply WL_ret. split; [exact I | exact Hut].
      - destruct k1; try discriminate E1; destruct k2; try discriminate E2;
          (eapply WL_pre; [|apply WL_ret; exact I]; intros l1 l2 [X _]; exact X). }
    change (WL (Wk k1) (prel qrw anyrel)
              (unit <- U1 ;; all <- all_tokens ;;
               match unit with
               | Some (sep, ut) =>
                   if is_text_empty ut then
                     warn D_EMPTY_UNIT [sep] ;;; ret ({| q_val := v1; q_unit := None; q_span := tokens_span all |}, Some sep)
                   else ret ({| q_val := v1; q_unit := Some ut; q_span := tokens_span all |}, Some sep)
               | None => ret ({| q_val := v1; q_unit := None; q_span := tokens_span all |}, None)
               end)
              (unit <- U2 ;; all <- all_tokens ;;
               match unit with
               | Some (sep, ut) =>
                   if is_text_empty ut then
                     warn D_EMPTY_UNIT [sep] ;;; ret ({| q_val := v2; q_unit := None; q_span := tokens_span all |}, Some sep)
                   else ret ({| q_val := v2; q_unit := Some ut; q_span := tokens_span all |}, Some sep)
               | None => ret ({| q_val := v2; q_unit := None; q_span := tokens_span all |}, None)
               end) W).
    eapply WL_bind; [exact HU|]. intros [[sep1 ut1]|] [[sep2 ut2]|] Hu; cbn [orel] in Hu; try contradiction.
    - destruct Hu as [_ Hut]. cbn [snd] in Hut. eapply WL_bind; [apply WN_of; apply WN_all_tokens|]. intros all1 all2 _.
      rewrite (trw_empty _ _ _ Hut). destruct (is_text_empty ut2).
      + eapply WL_bind; [apply WN_of; apply WN_warn|]. intros _ _ _. apply WL_ret. split; [|exact I]. split; [exact Hv | exact I].
      + apply WL_ret. split; [|exact I]. split; [exact Hv | exact Hut].
    - eapply WL_bind; [apply WN_of; apply WN_all_tokens|]. intros all1 all2 _. apply WL_ret. split; [|exact I]. split; [exact Hv | exact I].
  Qed.

  (* the advanced form: `{` value blank unit `}` without `%` *)
  Definition adv_tail (all : list tok) (lock : option span) (vts : list tok) : M (option (quantity * option span)) :=
    match rev vts with
    | [] => ret None
    | l :: _ =>
        if negb (tk_eqb (kind l) KWs) then ret None
        else
          let vts' := rev (drop_ws_block (rev vts)) in
          match vts' with
          | [] => panic site_adv_rposition
          | _ =>
              uts <- consume_rest ;;
              match uts with
              | [] => ret None
              | u0 :: _ =>
                  let vspan := tokens_span vts' in
                  match range_or_numeric cfg vts' with
                  | None => ret None
                  | Some r =>
                      v <- (match r with
                            | inr v => ret v
                            | inl e => event (EvDiag e) ;;; ret value_recover
                            end) ;;
                      ut <- textM cfg (tstart u0) uts ;;
                      ret (Some ({| q_val := {| qv := v; qv_span := vspan; qlock := lock |};
                                    q_unit := Some ut; q_span := tokens_span all |}, None))
                  end
              end
          end
    end.

  (* at the end of the tokens the tail gives up *)
  Lemma adv_tail_end all lock vts s :
    b_rest s = [] ->
    match adv_tail all lock vts s with
    | Done (o, s') => o = None /\ b_rest s' = [] /\ b_all s' = b_all s /\ b_evs s' = b_evs s
    | Panic _ => True
    end.
  Proof.
    intro E. unfold adv_tail. destruct (rev vts) as [|l q]; [cbn; repeat split; assumption|].
    destruct (negb (tk_eqb (kind l) KWs)); [cbn; repeat split; assumption|]. cbv zeta.
    destruct (rev (drop_ws_block (l :: q))) as [|x y]; [exact I|].
    unfold bind. unfold consume_rest at 1. rewrite consume_while_cwc, E. cbn [cwc position firstn length advance].
    cbn. repeat split; assumption.
  Qed.

  Lemma parse_advanced_quantity_w :
    WL W (orel (prel qrw anyrel)) (parse_advanced_quantity cfg) (parse_advanced_quantity cfg) W.
  Proof.
    unfold parse_advanced_quantity. eapply WL_bind; [apply WN_of; apply WN_all_tokens|]. intros all1 all2 Hall.
    rewrite (ballr_percent _ _ Hall). destruct (existsb _ all2); [apply WL_ret; exact I|].
    eapply WL_bind; [apply scaling_lock_w|]. intros l1 l2 Hl.
    eapply WL_bind; [apply WL_ws_comments|]. intros _ _ _.
    change (WL W (orel (prel qrw anyrel))
              (vts <- consume_while (fun k => negb (tk_eqb k KWord)) ;; adv_tail all1 l1 vts)
              (vts <- consume_while (fun k => negb (tk_eqb k KWord)) ;; adv_tail all2 l2 vts) W).
    unfold WL. eapply HJ_bind; [apply (WJ_consume_while_pass (fun k => negb (tk_eqb k KWord))); reflexivity|].
    intros vts1 vts2 s1 s2 [S [[Hv Hne] | (Hv & E1 & E2)]].
    2:{ pose proof (adv_tail_end all1 l1 vts1 s1 E1) as A1. pose proof (adv_tail_end all2 l2 vts2 s2 E2) as A2.
        destruct (adv_tail all1 l1 vts1 s1) as [[o1 s1']|]; [|exact I].
        destruct (adv_tail all2 l2 vts2 s2) as [[o2 s2']|]; [|exact I].
        destruct A1 as (-> & R1 & B1 & V1). destruct A2 as (-> & R2 & B2 & V2). split; [exact I|].
        destruct S as (_ & Sa & Se). unfold Sw. rewrite R1, R2, B1, B2, V1, V2. split; [constructor | split; assumption]. }
    revert s1 s2 S Hne.
    assert (G : WL (fun r1 r2 => W r1 r2 /\ r1 <> []) (orel (prel qrw anyrel)) (adv_tail all1 l1 vts1) (adv_tail all2 l2 vts2) W).
    2:{ intros s1 s2 S Hne. apply G. apply (Sw_rest _ _ _ _ S). split; [apply S | exact Hne]. }
    unfold adv_tail. pose proof (wi_last _ _ Hv) as HL. unfold lastk in HL.
    destruct (rev vts1) as [|a q1] eqn:R1, (rev vts2) as [|b q2] eqn:R2; try discriminate HL.
    { eapply WL_pre; [|apply WL_ret; exact I]. intros r1 r2 [X _]. exact X. }
    cbn in HL. injection HL as HL. rewrite <- HL. destruct (negb (tk_eqb (kind a) KWs)).
    { eapply WL_pre; [|apply WL_ret; exact I]. intros r1 r2 [X _]. exact X. }
    cbv zeta. rewrite <- R1, <- R2, <- !strip_wb_spec. pose proof (strip_wb_wi _ _ Hv) as Hd.
    pose proof (wi_nil_iff _ _ Hd) as Nd.
    destruct (strip_wb vts1) as [|x1 y1] eqn:D1; [apply WL_panic_l|].
    destruct (strip_wb vts2) as [|x2 y2] eqn:D2; [apply WL_panic_r|].
    pose proof (range_or_numeric_w _ _ _ Hd) as Hrn. cbv iota.
    remember (x1 :: y1) as d1 eqn:Ed1. remember (x2 :: y2) as d2 eqn:Ed2.
    unfold WL. eapply HJ_bind_r; [apply WJ_consume_rest_ne|].
    intros uts1 uts2 (Hu & N1 & N2).
    destruct uts1 as [|u1 ur1]; [contradiction N1; reflexivity|]. destruct uts2 as [|u2 ur2]; [contradiction N2; reflexivity|].
    destruct (range_or_numeric cfg d1) as [x1'|], (range_or_numeric cfg d2) as [x2'|];
      cbn [orel] in Hrn; try contradiction; [|apply WL_ret; exact I].
    eapply (WL_bind _ _ _ eq).
    - apply WN_of. destruct x1' as [e1|v1], x2' as [e2|v2]; cbn [srel] in Hrn; try contradiction.
      + eapply WN_bind; [apply WN_diag; exact Hrn|]. intros _ _ _. apply WN_ret. reflexivity.
      + apply WN_ret. exact Hrn.
    - intros v1 v2 ->. eapply WL_bind; [apply WN_of; apply WN_textM; exact Hu|]. intros ut1 ut2 Hut.
      apply WL_ret. split; [|exact I]. split; [split; [reflexivity | exact Hl] | exact Hut].
  Qed.
  Theorem parse_quantity_w ts1 ts2 :
    W ts1 ts2 -> WN (prel qrw anyrel) (parse_quantity cfg ts1) (parse_quantity cfg ts2).
  Proof.
    intro H. unfold parse_quantity. destruct ts1 as [|a r1]; [apply WN_panic_l|].
    pose proof (wsimb_ne _ _ _ H ltac:(discriminate)) as N2. destruct ts2 as [|b r2]; [contradiction N2; reflexivity|].
    apply (WN_sub_block W); [exact H|].
    destruct (has cfg X_ADVANCED_UNITS); [|apply parse_regular_quantity_w].
    eapply WL_bind; [apply WL_with_recover; apply parse_advanced_quantity_w|].
    intros [q1|] [q2|] Ho; cbn [orel] in Ho; try contradiction;
      [apply WL_ret; exact Ho | apply parse_regular_quantity_w].
  Qed.
End Qty.
