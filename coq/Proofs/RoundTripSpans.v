(* C01, text mode, component level: what `RecipeCollector::in_text` copies for a printed component.
   The component parser run on the printed tokens of a component returns an event whose span is exactly the
   printed tokens (Proofs/ParserCoverFrame.v [comp_res]: a component event spans what the parser consumed;
   Proofs/RoundTripComp.v [comp_print]: it consumes exactly `print_comp c`); the slice of any source in which
   that text stands at that offset is `unlex (print_comp c)`; and the copy without comments
   ([Analysis.strip_comments], the lexer cursor of in_text after 200c896) is [Denote.written (print_comp c)]:
   the texts of the printed tokens that are not comments (Proofs/EditTextLex.v [strip_run], from C17). *)
From Coq Require Import Lia.
From CL Require Import Base.StrLemmas Model.Lexer Model.CommentMask Model.Parser Model.Printer Model.Denote
  Proofs.LexerProofs Proofs.ParserSeg Proofs.ParserCover Proofs.RoundTrip Proofs.RoundTripComp Proofs.ParserCoverFrame.
From CL Require Model.Analysis Proofs.MaskProofs Proofs.EditTextSim Proofs.EditTextLex Proofs.EditAnalysis.
Open Scope N_scope.

Lemma comp_fn_span cfg k s ev s' :
  comp_fn cfg k s = Done (Some ev, s') -> event_span ev = Some (current_offset_of s, current_offset_of s').
Proof.
  assert (G : forall m : M (option pevent),
            pc m s (fun o s1 => comp_res s o s1) ->
            with_recover m s = Done (Some ev, s') -> event_span ev = Some (current_offset_of s, current_offset_of s')).
  { intros m Hpc H. unfold with_recover in H. destruct (m s) as [[[a|] s1]|] eqn:E; try discriminate.
    injection H as <- <-. destruct (Hpc _ _ E) as [_ Hs]. exact Hs. }
  destruct k; cbn [comp_fn]; apply G.
  - apply ingredient_p_fr. auto.
  - apply cookware_p_fr. auto.
  - apply timer_p_fr. auto.
Qed.

Lemma concat_tstr_place p : forall off, concat (map tstr (place off p)) = unlex p.
Proof.
  induction p as [|t p IH]; intro off; [reflexivity|]. cbn [place map concat tstr]. rewrite IH. reflexivity.
Qed.

Lemma written_place p : forall off,
  concat (map tstr (filter EditAnalysis.not_comment (place off p))) = written p.
Proof.
  unfold written. induction p as [|t p IH]; intro off; [reflexivity|]. cbn [place filter map].
  unfold EditAnalysis.not_comment at 1. cbn [kind fst].
  change (is_comment (fst t)) with (is_comment_k (fst t)).
  destruct (is_comment_k (fst t)); cbn [negb map concat tstr snd]; rewrite IH; reflexivity.
Qed.

Section Source.
  Variable U : N -> ucls.
  Variable cfg : pcfg.

  (* the event of a printed component spans the printed component *)
  Theorem comp_print_span c k off al dn ev :
    comp_wf cfg c = true -> comp_follow c k = true ->
    current_offset_of (St al dn [] []) = off ->
    exists pe,
      comp_fn cfg (cs_kind c) (St al dn (place off (print_comp c ++ k)) ev)
      = Done (Some pe, St al (rev (place off (print_comp c)) ++ dn)
                          (place (off + blen (unlex (print_comp c))) k) ev) /\
      ev_proj pe = denote_comp c /\
      event_span pe = Some (off, off + blen (unlex (print_comp c))).
  Proof.
    intros W F Hcur. destruct (comp_print cfg c k off al dn ev W F) as (pe & H & P).
    exists pe. split; [exact H|]. split; [exact P|].
    rewrite (comp_fn_span _ _ _ _ _ H). f_equal. f_equal.
    - exact Hcur.
    - apply cur_after. unfold print_comp. discriminate.
  Qed.

  (* ... so in a source [src] where the printed component stands at that offset, the range the collector
     copies is the printed component *)
  Theorem comp_print_slice src c off pe :
    sub src (unlex (print_comp c)) off ->
    event_span pe = Some (off, off + blen (unlex (print_comp c))) ->
    exists sp, event_span pe = Some sp /\ Analysis.byte_slice src sp = Some (unlex (print_comp c)).
  Proof. intros Hs He. eexists. split; [exact He|]. apply EditTextSim.slice_sub. exact Hs. Qed.

  (* ... and the copy without its comments is the printed component without its comment tokens *)
  Hypothesis special_breaks : forall c, MaskProofs.special c = true -> is_word_char U c = false /\ is_lex_ws U c = false.

  Theorem strip_printed (p : list ptok) :
    adjacent_ok U p = true -> Analysis.strip_comments (unlex p) = written p.
  Proof.
    intro Hadj. pose proof (lex_unlex U p 0 Hadj) as L.
    rewrite <- (concat_tstr_place p 0).
    rewrite (EditTextLex.strip_run U special_breaks (unlex p) 0 (place 0 p) (place 0 p) L (EditTextSim.sr_refl _)).
    apply written_place.
  Qed.
End Source.

(* ---------------------------------------------------------------- through steps, blocks, documents *)
From CL Require Import Proofs.RoundTripDoc Proofs.RoundTripPrintDoc Proofs.MetaIterProofs.
From CL Require Proofs.EditTextFrame.

(* what the collector would copy for the event [e] when [o] = the printed tokens of the component it stands for *)
Definition src_ok (src : str) (e : pevent) (o : option (list ptok)) : Prop :=
  match o with
  | Some p => exists sp, EditTextFrame.comp_span e = Some sp /\ Analysis.byte_slice src sp = Some (unlex p)
  | None => True
  end.
Definition item_src (i : item) : option (list ptok) := match i with IComp c => Some (print_comp c) | IText _ => None end.
Definition block_srcs (b : block) : list (option (list ptok)) :=
  match b with
  | BkStep items => None :: map item_src items ++ [None]
  | _ => map (fun _ => None) (denote_block b)
  end.
Definition doc_srcs (d : list block) : list (option (list ptok)) := concat (map block_srcs d).

Lemma sub_split src x y o : sub src (x ++ y) o -> sub src x o /\ sub src y (o + blen x).
Proof.
  intros (p & q & E & Hp). split.
  - exists p, (y ++ q). rewrite <- app_assoc in E. split; [exact E|exact Hp].
  - exists (p ++ x), q. rewrite <- !app_assoc in *. split; [exact E|]. rewrite blen_app, Hp. reflexivity.
Qed.

Lemma comp_src_ok src c off pe :
  sub src (unlex (print_comp c)) off ->
  event_span pe = Some (off, off + blen (unlex (print_comp c))) -> ev_proj pe = denote_comp c ->
  src_ok src pe (Some (print_comp c)).
Proof.
  intros Hs He Hp. exists (off, off + blen (unlex (print_comp c))). split; [|apply EditTextSim.slice_sub; exact Hs].
  unfold denote_comp in Hp. destruct pe; try (destruct (cs_kind c); discriminate Hp); exact He.
Qed.

Lemma trivial_srcs src evs specs : map ev_proj evs = specs -> Forall2 (src_ok src) evs (map (fun _ => None) specs).
Proof. intros <-. induction evs as [|e r IH]; cbn [map]; constructor; [exact I|exact IH]. Qed.

Section Chain.
  Variable src : str.
  Variable cfg : pcfg.
  Hypothesis Hstrict : p_strict_escape cfg = false.

  Lemma step_loop_print_s : forall items fuel off al dn ev,
    sub src (unlex (print_items items)) off ->
    items_ok cfg items = true -> p_strict_escape cfg = false ->
    (length (print_items items) < fuel)%nat ->
    current_offset_of (St al dn [] []) = off ->
    exists evs,
      step_loop cfg fuel (St al dn (place off (print_items items)) ev)
      = Done (tt, St al (rev (place off (print_items items)) ++ dn) [] (evs ++ ev)) /\
      map ev_proj (rev evs) = map denote_item items /\
      Forall2 (src_ok src) (rev evs) (map item_src items).
  Proof.
    induction items as [|i r IH]; intros fuel off al dn ev Hsub Hok _ Hf Hcur.
    - destruct fuel; [cbn in Hf; lia|]. exists []. split; [reflexivity|]. split; [reflexivity|constructor].
    - destruct fuel as [|f]; [lia|]. rewrite print_items_cons in *. rewrite app_length in Hf.
      rewrite unlex_app in Hsub. apply sub_split in Hsub as [Hsub1 Hsub2].
      rewrite place_app. cbn [step_loop]. unfold bind at 1, rest. cbn [b_rest St].
      destruct i as [t | c]; cbn [print_item items_ok] in *.
      + (* text piece *)
        apply andb_true_iff in Hok as [Hok Hr]. apply andb_true_iff in Hok as [Ht Hnext].
        unfold text_item_ok in Ht. apply andb_true_iff in Ht as [Ht Hne]. apply andb_true_iff in Ht as [Hsh Hnm].
        destruct t as [|t0 t']; [discriminate|].
        set (o' := off + blen (unlex (t0 :: t'))).
        change (place off (t0 :: t')) with ({| kind := fst t0; tstr := snd t0; tstart := off |} :: place (off + blen (snd t0)) t').
        cbn [app]. unfold bind at 1, peek, peek_of. cbn [b_rest St kind].
        assert (Hk0 : is_marker (fst t0) = false).
        { cbn [no_kinds forallb] in Hnm. apply andb_true_iff in Hnm as [H _]. destruct (fst t0); try reflexivity; discriminate. }
        assert (Hnone : (match fst t0 with
                         | KAt => with_recover (ingredient_p cfg)
                         | KHash => with_recover (cookware_p cfg)
                         | KTilde => with_recover (timer_p cfg)
                         | _ => ret None
                         end) = ret None) by (destruct (fst t0); try reflexivity; discriminate).
        unfold bind at 1. rewrite Hnone. unfold ret at 1.
        unfold bind at 1, current_offset.
        match goal with |- context [current_offset_of ?s] => change (current_offset_of s) with (current_offset_of (St al dn [] [])) end.
        rewrite Hcur.
        unfold bind at 1, bump_any, bind at 1, next_token. cbn [b_rest b_all b_done b_evs St]. unfold ret at 1.
        set (T0 := {| kind := fst t0; tstr := snd t0; tstart := off |}).
        fold (St al (T0 :: dn) (place (off + blen (snd t0)) t' ++ place o' (print_items r)) ev).
        assert (Hmore : forallb (fun x => negb (is_marker (kind x))) (place (off + blen (snd t0)) t') = true).
        { rewrite (place_forallb (fun k => negb (is_marker k))). cbn [no_kinds forallb] in Hnm.
          apply andb_true_iff in Hnm as [_ Hnm].
          apply (no_kinds_forallb [KOpenBrace; KAt; KHash; KTilde] t' (fun k => negb (is_marker k))); [|exact Hnm].
          intros k Hk. destruct k; try reflexivity; discriminate. }
        assert (Hstop : match place o' (print_items r) with [] => True | x :: _ => negb (is_marker (kind x)) = false end).
        { destruct r as [|[t2|c2] r']; [exact I|discriminate|].
          rewrite print_items_cons. cbn [print_item print_comp app place kind fst]. destruct (cs_kind c2); reflexivity. }
        unfold bind at 1.
        rewrite (consume_while_split (fun k => negb (is_marker k)) _ _ al (T0 :: dn) ev Hmore Hstop).
        destruct (text_reads cfg Hstrict (t0 :: t') off Hsh) as (tx & Etx & _ & _).
        destruct (text_of_place cfg Hstrict (t0 :: t') off Hsh) as (tx' & Etx' & Hstr & _ & _).
        change (T0 :: place (off + blen (snd t0)) t') with (place off (t0 :: t')).
        unfold bind at 1, textM, lift. rewrite Etx'.
        assert (Hfr : frags tx' <> []).
        { apply text_str_frags. rewrite Hstr. destruct (toks_text (t0 :: t')); [discriminate|discriminate]. }
        destruct (frags tx') as [|fr frs] eqn:Efr; [contradiction|].
        unfold bind at 1, event. cbn [b_all b_done b_rest b_evs St].
        fold (St al (rev (place (off + blen (snd t0)) t') ++ T0 :: dn) (place o' (print_items r)) (EvText tx' :: ev)).
        assert (Edn : rev (place (off + blen (snd t0)) t') ++ T0 :: dn = rev (place off (t0 :: t')) ++ dn).
        { cbn [place rev]. rewrite <- app_assoc. reflexivity. }
        rewrite Edn.
        destruct (IH f o' al (rev (place off (t0 :: t')) ++ dn) (EvText tx' :: ev) Hsub2 Hr Hstrict) as (evs & Hloop & Hevs & Hsrc).
        * cbn [length] in Hf. lia.
        * apply cur_after. discriminate.
        * rewrite Hloop. exists (evs ++ [EvText tx']). split.
          -- rewrite <- app_assoc. cbn [app]. do 3 f_equal.
             change (T0 :: place (off + blen (snd t0)) t' ++ place o' (print_items r))
               with (place off (t0 :: t') ++ place o' (print_items r)).
             rewrite rev_app_distr, <- app_assoc. reflexivity.
          -- split; [rewrite rev_app_distr; cbn [rev app map ev_proj denote_item]; rewrite Hevs, Hstr; reflexivity|].
             rewrite rev_app_distr. cbn [rev app map item_src]. constructor; [exact I|exact Hsrc].
      + (* component *)
        apply andb_true_iff in Hok as [Hok Hr]. apply andb_true_iff in Hok as [Hc Hfo].
        rewrite <- place_app.
        destruct (comp_print_span cfg c (print_items r) off al dn ev Hc Hfo Hcur) as (pe & Hcp & Hpe & Hsp).
        assert (Hhd : exists T R, place off (print_comp c ++ print_items r) = T :: R /\ kind T = fst (marker_p (cs_kind c))).
        { unfold print_comp. cbn [app place]. eexists _, _. split; reflexivity. }
        destruct Hhd as (T & R & ET & HkT). rewrite ET in *.
        unfold bind at 1, peek, peek_of. cbn [b_rest St]. rewrite HkT.
        unfold bind at 1. rewrite comp_fn_marker, Hcp.
        unfold bind at 1, event. cbn [b_all b_done b_rest b_evs St].
        set (o' := off + blen (unlex (print_comp c))).
        fold (St al (rev (place off (print_comp c)) ++ dn) (place o' (print_items r)) (pe :: ev)).
        destruct (IH f o' al (rev (place off (print_comp c)) ++ dn) (pe :: ev) Hsub2 Hr Hstrict) as (evs & Hloop & Hevs & Hsrc).
        * unfold print_comp in Hf. cbn [length] in Hf. lia.
        * apply cur_after. unfold print_comp. discriminate.
        * rewrite Hloop. exists (evs ++ [pe]). split.
          -- rewrite <- app_assoc. cbn [app]. do 3 f_equal. rewrite <- ET, place_app, rev_app_distr, <- app_assoc. reflexivity.
          -- split; [rewrite rev_app_distr; cbn [rev app map denote_item]; rewrite Hevs, Hpe; reflexivity|].
             rewrite rev_app_distr. cbn [rev app map item_src]. constructor; [|exact Hsrc].
             exact (comp_src_ok src c off pe Hsub1 Hsp Hpe).
  Qed.

  Lemma parse_step_print_s items off evs :
    sub src (unlex (print_items items)) off ->
    items_ok cfg items = true -> items <> [] -> print_items items <> [] ->
    let blk := place off (print_items items) in
    exists evs',
      parse_step cfg (init_st blk evs) = Done (tt, St blk (rev blk) [] (EvEnd true :: evs' ++ EvStart true :: evs)) /\
      map ev_proj (rev evs') = map denote_item items /\
      Forall2 (src_ok src) (rev evs') (map item_src items).
  Proof.
    intros Hsub Hok Hne Hpne blk. unfold parse_step, init_st. unfold bind at 1, event. cbn [b_all b_done b_rest b_evs St].
    unfold bind at 1, rest. cbn [b_rest St]. fold (St blk [] blk (EvStart true :: evs)).
    destruct (step_loop_print_s items (S (length blk)) off blk [] (EvStart true :: evs) Hsub Hok Hstrict) as (evs' & Hl & He & Hs).
    - unfold blk. rewrite place_length. lia.
    - unfold current_offset_of, base_offset. cbn [b_done b_all St]. unfold blk.
      destruct (print_items items); [contradiction|reflexivity].
    - fold blk in Hl. unfold bind at 1. rewrite Hl. unfold event. cbn [b_all b_done b_rest b_evs St].
      exists evs'. rewrite app_nil_r. split; [reflexivity|]. split; [exact He|exact Hs].
  Qed.


  Lemma block_print_s (o : bool) b off evs :
    (print_block b <> [] -> sub src (unlex (print_block b)) off) ->
    block_ok cfg b = true ->
    (match b with BkSection _ _ n2 trail => n2 = O -> trail = [] | _ => True end) ->
    (o = true \/ match b with BkMeta _ _ => False | _ => True end) ->
    exists evs',
      run_block (place off (print_block b)) evs (parse_block cfg o) = Done (evs' ++ evs) /\
      map ev_proj (rev evs') = denote_block b /\
      Forall2 (src_ok src) (rev evs') (block_srcs b).
  Proof.
    intros Hsub W Hsec Ho.
    destruct b as [k v | n1 name n2 trail | items | ls];
      try (destruct (block_print_gen cfg Hstrict o _ off evs W Hsec Ho) as (evs' & H1 & H2); exists evs';
           split; [exact H1|]; split; [exact H2|]; apply trivial_srcs; exact H2).
    unfold block_ok in W. apply andb_true_iff in W as [_ W]. cbn [print_block denote_block] in *.
    apply andb_true_iff in W as [W Hhead]. apply andb_true_iff in W as [Hok Hnempty].
      apply negb_true in Hhead, Hnempty.
      assert (Hpne : print_items items <> []) by (intro E; rewrite E in Hnempty; discriminate).
      assert (Hine : items <> []) by (intro E; rewrite E in Hpne; apply Hpne; reflexivity).
      destruct (parse_step_print_s items off evs (Hsub Hpne) Hok Hine Hpne) as (evs' & Hp & He & Hs).
      cbv zeta in Hp. set (blk := place off (print_items items)) in *.
      exists (EvEnd true :: evs' ++ [EvStart true]). split.
      + unfold run_block. destruct blk as [|t0 blk'] eqn:Eb; [unfold blk in Eb; destruct (print_items items); [contradiction|discriminate]|].
        rewrite <- Eb in *. fold (init_st blk evs).
        unfold parse_block, bind at 1, peek, peek_of, init_st. cbn [b_rest St].
        assert (Hk0 : match blk with t :: _ => kind t | [] => KEof end = head_kind (print_items items)) by (unfold blk; apply place_head_kind).
        rewrite Hk0. cbn [existsb] in Hhead. rewrite orb_false_r in Hhead.
        apply orb_false_iff in Hhead as [Hh1 Hh2]. apply orb_false_iff in Hh2 as [Hh2 Hh3].
        assert (Hmos : (match head_kind (print_items items) with
                        | KMeta => with_recover (ev <-? metadata_entry cfg;;
                                     match ev with
                                     | EvMetadata key _ => if meta_kept cfg o key then ret (Some ev) else ret None
                                     | _ => ret (Some ev)
                                     end)
                        | KEq => with_recover (section_p cfg)
                        | _ => ret None
                        end) = ret None).
        { destruct (head_kind (print_items items)); try reflexivity; discriminate. }
        unfold bind at 1. rewrite Hmos. unfold ret at 1.
        unfold parse_multiline_block, bind at 1, all_tokens. cbn [b_all St].
        assert (Hne2 : forallb (fun t => is_empty_tok (kind t)) blk = false).
        { unfold blk. rewrite (place_forallb is_empty_tok). exact Hnempty. }
        rewrite Hne2. unfold bind at 1, peek, peek_of. cbn [b_rest St]. rewrite Hk0.
        assert (Hts : (match head_kind (print_items items) with KTextStep => parse_text_block cfg | _ => parse_step cfg end) = parse_step cfg).
        { destruct (head_kind (print_items items)); try reflexivity. discriminate. }
        rewrite Hts. change {| b_all := blk; b_done := []; b_rest := blk; b_evs := evs |} with (init_st blk evs). rewrite Hp. cbn [b_rest b_evs St].
        cbn [app]. rewrite <- app_assoc. reflexivity.
      + split; [cbn [rev]; rewrite rev_app_distr; cbn [rev app map ev_proj]; rewrite map_app, He; reflexivity|].
        cbn [rev]. rewrite rev_app_distr. cbn [rev app block_srcs]. constructor; [exact I|]. apply Forall2_app; [exact Hs|]. constructor; [exact I|constructor].

  Qed.

  (* the token block [blk] is the printed block [b] at some offset, standing in [src] *)
  Definition prints_in (blk : list tok) (b : block) : Prop :=
    exists off, blk = place off (print_block b) /\ (print_block b <> [] -> sub src (unlex (print_block b)) off).

  Lemma fold_print_s (o : bool) bl d :
    Forall2 prints_in bl d -> Forall (fun b => block_ok cfg b = true /\ sec_trail_ok b) d ->
    (o = true \/ Forall not_meta d) ->
    forall evs, exists evs',
      fold_blocks (full_block_step cfg o) bl evs = Done (evs' ++ evs) /\
      map ev_proj (rev evs') = concat (map denote_block d) /\
      Forall2 (src_ok src) (rev evs') (doc_srcs d).
  Proof.
    induction 1 as [|blk b bl d [off [-> Hsub]] _ IH]; intros Hok Ho evs.
    - exists []. split; [reflexivity|]. split; [reflexivity|constructor].
    - inversion Hok as [|? ? [Hb Hs] Hrest]; subst.
      assert (Ho1 : o = true \/ not_meta b) by (destruct Ho as [->|Ho]; [left; reflexivity|right; inversion Ho; assumption]).
      assert (Ho2 : o = true \/ Forall not_meta d) by (destruct Ho as [->|Ho]; [left; reflexivity|right; inversion Ho; assumption]).
      destruct (block_print_s o b off evs Hsub Hb Hs Ho1) as (e1 & H1 & P1 & S1).
      destruct (IH Hrest Ho2 (e1 ++ evs)) as (e2 & H2 & P2 & S2).
      exists (e2 ++ e1). cbn [fold_blocks]. unfold full_block_step at 1. rewrite H1. cbn [obind]. rewrite H2.
      split; [rewrite app_assoc; reflexivity|].
      split; [rewrite rev_app_distr, map_app, P1, P2; reflexivity|].
      rewrite rev_app_distr. unfold doc_srcs. cbn [map concat]. apply Forall2_app; assumption.
  Qed.
End Chain.

(* ---------------------------------------------------------------- the blocks of a laid-out text stand in it *)
Lemma doc_toks_in ts bl : doc_toks ts bl -> forall blk t, In blk bl -> In t blk -> In t ts.
Proof.
  induction 1 as [EL HEL | EL B n0 REST bs HEL HB Hm Hn0 _ IH
                 | EL B n0 L1 n1 S SEP NEXT SEP' bs HEL HE HL1 Hn1 Hm1 HS Hn0 Hlast Ham _ IH
                 | EL B HEL HB | EL L1 n1 S L HEL HL1 Hn1 Hm1 HS HL HmL]; intros blk t Hb Ht.
  - destruct Hb.
  - destruct Hb as [<-|Hb].
    + apply in_or_app. right. apply in_or_app. left. exact Ht.
    + apply in_or_app. right. apply in_or_app. right. right. exact (IH blk t Hb Ht).
  - destruct Hb as [<-|Hb].
    + apply in_or_app. right. apply in_or_app. left. exact Ht.
    + apply in_or_app. right. apply in_or_app. right. right.
      pose proof (IH blk t Hb Ht) as Hin. apply in_app_or in Hin. apply in_or_app.
      destruct Hin as [Hin|Hin]; [|right; exact Hin]. left.
      destruct Ham; [apply in_or_app; right; right; exact Hin|destruct Hin|destruct Hin].
  - destruct Hb as [<-|[]]. apply in_or_app. right. exact Ht.
  - destruct Hb as [<-|[]]. apply in_or_app. right. exact Ht.
Qed.

Lemma place_located src : forall toks pre post t,
  src = pre ++ unlex toks ++ post -> In t (place (blen pre) toks) -> sub src (tstr t) (tstart t).
Proof.
  induction toks as [|x r IH]; intros pre post t E Hin; [destruct Hin|].
  cbn [place] in Hin. destruct Hin as [<-|Hin].
  - cbn [tstr tstart]. exists pre, (unlex r ++ post). split; [|reflexivity].
    rewrite E. change (unlex (x :: r)) with (snd x ++ unlex r). rewrite <- app_assoc. reflexivity.
  - apply (IH (pre ++ snd x) post t).
    + rewrite E. change (unlex (x :: r)) with (snd x ++ unlex r). rewrite <- !app_assoc. reflexivity.
    + rewrite blen_app. exact Hin.
Qed.

Lemma located_run src : forall p off,
  p <> [] -> (forall t, In t (place off p) -> sub src (tstr t) (tstart t)) -> sub src (unlex p) off.
Proof.
  induction p as [|x r IH]; intros off Hne H; [contradiction|].
  change (unlex (x :: r)) with (snd x ++ unlex r).
  assert (Hx : sub src (snd x) off) by (apply (H {| kind := fst x; tstr := snd x; tstart := off |}); left; reflexivity).
  apply sub_app; [exact Hx|].
  destruct r as [|y r'].
  - apply sub_nil. exact (sub_bnd_r src _ _ Hx).
  - apply IH; [discriminate|]. intros t Ht. apply H. right. exact Ht.
Qed.

Lemma prints_located src toks pre post ts bl d :
  src = pre ++ unlex toks ++ post -> ts = place (blen pre) toks ->
  doc_toks ts bl -> Forall2 prints bl d -> Forall2 (prints_in src) bl d.
Proof.
  intros E -> Hd Hp. pose proof (doc_toks_in _ _ Hd) as Hin. clear Hd.
  induction Hp as [|blk b bl d [off ->] _ IH]; constructor.
  - exists off. split; [reflexivity|]. intro Hne. apply located_run; [exact Hne|].
    intros t Ht. apply (place_located src toks pre post t E). apply (Hin _ t (or_introl eq_refl) Ht).
  - apply IH. intros blk0 t Hb Ht. apply (Hin blk0 t (or_intror Hb) Ht).
Qed.

(* ---------------------------------------------------------------- printed documents *)
Theorem events_print_doc_src U cfg d tp :
  doc_ok U cfg d tp = true ->
  exists evs, events U cfg (print_doc d tp) = Done evs /\ map ev_proj evs = doc_events d /\
    Forall2 (src_ok (print_doc d tp)) evs (doc_srcs d).
Proof.
  intro H. pose proof H as H0. unfold doc_ok in H0. apply andb_true_iff in H0 as [Hb Hfm].
  pose proof (body_ok_strict U cfg d tp Hb) as Hstrict.
  destruct (body_layout cfg U d tp 0 Hb) as (Hadj & bl & Hd & Hp & Hf).
  rewrite events_blocks, (fm_free_none cfg _ Hfm). unfold print_doc. rewrite (lex_unlex U _ 0 Hadj).
  assert (Hbl : blocks (place 0 (print_doc_toks d tp)) = bl) by (unfold blocks; apply blocks_doc; [exact Hd|lia]).
  rewrite Hbl.
  assert (Hpi : Forall2 (prints_in (unlex (print_doc_toks d tp))) bl d).
  { apply (prints_located _ (print_doc_toks d tp) [] [] (place 0 (print_doc_toks d tp)) bl d); auto.
    rewrite app_nil_r. reflexivity. }
  destruct (fold_print_s _ cfg Hstrict true bl d Hpi Hf (or_introl eq_refl) []) as (evs' & Hfold & Hproj & Hsrc).
  rewrite Hfold. cbn [obind]. exists (rev (evs' ++ [])). split; [reflexivity|]. rewrite app_nil_r. split; [exact Hproj|exact Hsrc].
Qed.

Theorem events_print_fm_doc_src U cfg y ft d tp :
  fm_doc_ok U cfg y ft d tp = true ->
  exists evs, events U cfg (print_fm_doc y ft d tp) = Done evs /\ map ev_proj evs = fm_doc_events y d /\
    Forall2 (src_ok (print_fm_doc y ft d tp)) evs (None :: doc_srcs d).
Proof.
  intro H.
  enough (G : forall SRC, SRC = print_fm_doc y ft d tp ->
            exists evs, events U cfg (print_fm_doc y ft d tp) = Done evs /\ map ev_proj evs = fm_doc_events y d /\
              Forall2 (src_ok SRC) evs (None :: doc_srcs d)) by (exact (G _ eq_refl)).
  intros SRC ES. unfold fm_doc_ok in H.
  apply andb_true_iff in H as [H Hb]. apply andb_true_iff in H as [H Hnm]. apply andb_true_iff in H as [H He].
  apply andb_true_iff in H as [H Hy]. apply andb_true_iff in H as [H1 H2].
  pose proof (body_ok_strict U cfg d tp Hb) as Hstrict.
  set (off := blen (fence_line (fm_ws1 ft)) + blen y + blen (fence_line (fm_ws2 ft))).
  destruct (body_layout cfg U d tp off Hb) as (Hadj & bl & Hd & Hp & Hf).
  rewrite events_blocks. unfold print_fm_doc. rewrite (parse_frontmatter_printed cfg y ft (print_doc d tp) H1 H2 Hy He).
  cbn [cook_text cook_off]. fold off. unfold print_doc. rewrite (lex_unlex U _ off Hadj).
  assert (Hbl : blocks (place off (print_doc_toks d tp)) = bl) by (unfold blocks; apply blocks_doc; [exact Hd|lia]).
  rewrite Hbl.
  assert (Hnm' : Forall (not_meta) d).
  { apply Forall_forall. intros b Hin. rewrite forallb_forall in Hnm. specialize (Hnm b Hin). destruct b; try exact I. discriminate. }
  assert (Hpi : Forall2 (prints_in SRC) bl d).
  { apply (prints_located _ (print_doc_toks d tp) (fence_line (fm_ws1 ft) ++ y ++ fence_line (fm_ws2 ft)) []
             (place off (print_doc_toks d tp)) bl d); auto.
    - rewrite ES. unfold print_fm_doc, print_doc. rewrite app_nil_r, <- !app_assoc. reflexivity.
    - unfold off. rewrite !blen_app. f_equal. lia. }
  destruct (fold_print_s _ cfg Hstrict false bl d Hpi Hf (or_intror Hnm') [yaml_event {| yaml_text := y; yaml_off := blen (fence_line (fm_ws1 ft)); cook_text := unlex (print_doc_toks d tp); cook_off := off |}])
    as (evs' & Hfold & Hproj & Hsrc).
  rewrite Hfold. cbn [obind]. eexists. split; [reflexivity|].
  rewrite rev_app_distr. cbn [rev app map]. unfold yaml_event. cbn [ev_proj yaml_text yaml_off].
  rewrite text_str_from_str, Hproj. split; [reflexivity|]. constructor; [exact I|exact Hsrc].
Qed.

(* adjacency of a part of an adjacent token list *)
Lemma adjacent_suffix U a : forall b, adjacent_ok U (a ++ b) = true -> adjacent_ok U b = true.
Proof.
  induction a as [|t a IH]; intros b H; [exact H|]. cbn [app adjacent_ok] in H. apply andb_true_iff in H as [_ H]. exact (IH b H).
Qed.

Lemma adjacent_prefix U a : forall b, adjacent_ok U (a ++ b) = true -> adjacent_ok U a = true.
Proof.
  induction a as [|t a IH]; intros b H; [reflexivity|]. cbn [app adjacent_ok] in H |- *.
  apply andb_true_iff in H as [H H3]. apply andb_true_iff in H as [H1 H2]. rewrite H1, (IH b H3), andb_true_r. cbn [andb].
  destruct a as [|u a'].
  - destruct (snd t); reflexivity.
  - cbn [app] in H2, H3 |- *. cbn [adjacent_ok] in H3. apply andb_true_iff in H3 as [H3 _]. apply andb_true_iff in H3 as [Hu _].
    unfold tok_ok in Hu. destruct (snd u) as [|c r] eqn:Eu; [discriminate|].
    change (unlex (u :: a' ++ b)) with (snd u ++ unlex (a' ++ b)) in H2. change (unlex (u :: a')) with (snd u ++ unlex a').
    rewrite Eu in *. exact H2.
Qed.
