(* Property C17, event level, comment insertion: the block-splitting functions of Model/Parser.v
   (pull_line, more_lines, strip_trailing_newlines, next_block, blocks_loop) under the one-sided
   relation [jsim] of Proofs/EditInsDefs.v.  The two token lists have different lengths, hence
   different fuels on the two sides.  (The [ksim] counterpart is Proofs/EditSimBlock.v.) *)
From Coq Require Import List Lia.
From CL Require Import Base.StrLemmas Model.Lexer Model.PText Model.CommentMask Model.Parser Model.Edits
  Proofs.EditParserProofs Proofs.EditSimDefs Proofs.EditInsDefs.
Import ListNotations.

(* ---------------------------------------------------------------- small facts about jsim *)
Lemma js_nil_iff m l1 l2 : jsim m l1 l2 -> (l1 = [] <-> l2 = []).
Proof. destruct 1; split; intro E; try reflexivity; discriminate. Qed.

Lemma js_head_kind m l1 l2 : jsim m l1 l2 ->
  match l1, l2 with
  | [], [] => True
  | a :: _, b :: _ => kind a = kind b
  | _, _ => False
  end.
Proof. destruct 1 as [|m a b r1 r2 Hab _|a b cm w r1 r2 Hab _ _ _ _ _]; [exact I | |]; apply krel_kind; exact Hab. Qed.

Lemma js_length_le m l1 l2 : jsim m l1 l2 -> (length l1 <= length l2)%nat.
Proof. induction 1; cbn [length] in *; lia. Qed.

(* a test on kinds that accepts comments cannot tell the two sides apart *)
Lemma js_forallb (f : tkind -> bool) m l1 l2 :
  f KLineComment = true -> f KBlockComment = true -> jsim m l1 l2 ->
  forallb (fun t => f (kind t)) l1 = forallb (fun t => f (kind t)) l2.
Proof.
  intros HL HB. induction 1 as [|m a b r1 r2 Hab _ IH|a b cm w r1 r2 Hab Ka Kc _ Kw _ IH]; [reflexivity| |].
  - cbn [forallb]. rewrite (krel_kind _ _ Hab), IH. reflexivity.
  - cbn [forallb] in *. rewrite <- IH, (krel_kind _ _ Hab).
    assert (C : f (kind cm) = true) by (rewrite Kc; assumption).
    rewrite C. reflexivity.
Qed.

Lemma js_comment_not_nl t : is_comment (kind t) = true -> tk_eqb (kind t) KNewline = false.
Proof. destruct (kind t); try discriminate; reflexivity. Qed.
Lemma js_kind_not_nl t k : kind t = k -> k <> KNewline -> tk_eqb (kind t) KNewline = false.
Proof. intros -> H. destruct k; try reflexivity. contradiction. Qed.

Lemma js_mode_after_app m a b : mode_after m (a ++ b) = mode_after (mode_after m a) b.
Proof. revert m. induction a as [|t r IH]; intro m; [reflexivity|]. cbn [app mode_after]. apply IH. Qed.

Lemma js_app m a1 a2 : jsim m a1 a2 -> forall b1 b2,
  jsim (mode_after m a1) b1 b2 -> jsim m (a1 ++ b1) (a2 ++ b2).
Proof.
  induction 1 as [m|m a b r1 r2 Hab _ IH|a b cm w r1 r2 Hab Ka Kc Hc Kw _ IH]; intros b1 b2 Hb.
  - exact Hb.
  - cbn [app]. apply j_cons; [exact Hab|]. apply IH. exact Hb.
  - cbn [app]. apply j_ins; try assumption. apply IH.
    cbn [mode_after] in Hb |- *. rewrite (swt_next_mode _ _ Ka) in Hb. exact Hb.
Qed.

Lemma js_empty_mode m l : line_is_empty l = true -> mode_after m l = m.
Proof.
  unfold line_is_empty. revert m. induction l as [|t r IH]; intro m; [reflexivity|].
  cbn [forallb mode_after]. intro H. apply andb_prop in H as [Ht Hr].
  rewrite <- (IH m Hr) at 2. destruct (kind t); try discriminate; reflexivity.
Qed.

(* ---------------------------------------------------------------- 1. pull_line *)
Lemma pull_line_j m ts1 ts2 : jsim m ts1 ts2 ->
  jsim m (fst (pull_line ts1)) (fst (pull_line ts2))
  /\ jsim (mode_after m (fst (pull_line ts1))) (snd (pull_line ts1)) (snd (pull_line ts2)).
Proof.
  induction 1 as [m|m a b r1 r2 Hab Hr IH|a b cm w r1 r2 Hab Ka Kc Hc Kw Hr IH].
  - split; constructor.
  - cbn [pull_line]. rewrite <- (krel_kind _ _ Hab). destruct (tk_eqb (kind a) KNewline).
    + cbn [fst snd mode_after]. split; [apply j_cons; [exact Hab | constructor] | exact Hr].
    + destruct (pull_line r1) as [x1 y1], (pull_line r2) as [x2 y2]. cbn [fst snd] in *.
      destruct IH as [Hx Hy]. cbn [mode_after]. split; [apply j_cons; assumption | exact Hy].
  - assert (Na : tk_eqb (kind a) KNewline = false) by (exact (swt_not_nl _ Ka)).
    assert (Nb : tk_eqb (kind b) KNewline = false) by (rewrite <- (krel_kind _ _ Hab); exact Na).
    assert (Nw : tk_eqb (kind w) KNewline = false) by (apply (js_kind_not_nl _ _ Kw); discriminate).
    assert (Nc : tk_eqb (kind cm) KNewline = false) by (apply (js_kind_not_nl _ _ Kc); discriminate).
    cbn [pull_line] in IH |- *. rewrite Na, Nb, Nc. rewrite Nw in IH |- *.
    destruct (pull_line r1) as [x1 y1], (pull_line r2) as [x2 y2]. cbn [fst snd] in *.
    destruct IH as [Hx Hy]. split.
    + apply j_ins; assumption.
    + cbn [mode_after] in Hy |- *. rewrite (swt_next_mode _ _ Ka). exact Hy.
Qed.

(* ---------------------------------------------------------------- 2. the line tests *)
Lemma line_is_empty_j m l1 l2 : jsim m l1 l2 -> line_is_empty l1 = line_is_empty l2.
Proof. apply (js_forallb is_empty_tok); reflexivity. Qed.

Lemma single_marker_j m l1 l2 : jsim m l1 l2 -> is_single_line_marker l1 = is_single_line_marker l2.
Proof.
  intro H. apply js_head_kind in H. destruct l1 as [|a r1], l2 as [|b r2]; try contradiction; [reflexivity|].
  cbn [is_single_line_marker]. rewrite H. reflexivity.
Qed.

(* ---------------------------------------------------------------- 3. more_lines *)
Lemma more_lines_j f1 : forall f2 m ts1 ts2, jsim m ts1 ts2 ->
  (length ts1 < f1)%nat -> (length ts2 < f2)%nat ->
  jsim m (fst (more_lines f1 ts1)) (fst (more_lines f2 ts2))
  /\ jany (snd (more_lines f1 ts1)) (snd (more_lines f2 ts2)).
Proof.
  induction f1 as [|f1 IH]; intros f2 m ts1 ts2 H L1 L2; [lia|]. destruct f2 as [|f2]; [lia|].
  destruct (nil_or_not ts1) as [-> | Hne1].
  { assert (ts2 = []) as -> by (apply (js_nil_iff _ _ _ H); reflexivity).
    cbn. split; [constructor | exists m; constructor]. }
  assert (Hne2 : ts2 <> []) by (intro E; apply Hne1; apply (js_nil_iff _ _ _ H); exact E).
  rewrite (more_lines_S_ne f1 ts1 Hne1), (more_lines_S_ne f2 ts2 Hne2).
  rewrite (single_marker_j _ _ _ H).
  destruct (is_single_line_marker ts2); [split; [constructor | exists m; exact H]|].
  pose proof (pull_line_j _ _ _ H) as [Pl Pq].
  destruct (pull_line ts1) as [l1 q1] eqn:E1. destruct (pull_line ts2) as [l2 q2] eqn:E2.
  apply (pull_line_len _ _ _ Hne1) in E1. apply (pull_line_len _ _ _ Hne2) in E2. cbn [fst snd] in Pl, Pq.
  rewrite (line_is_empty_j _ _ _ Pl).
  destruct (line_is_empty l2); [split; [constructor | eexists; exact Pq]|].
  assert (L1' : (length q1 < f1)%nat) by lia. assert (L2' : (length q2 < f2)%nat) by lia.
  destruct (IH f2 _ _ _ Pq L1' L2') as [Hm Hz].
  destruct (more_lines f1 q1) as [m1 z1], (more_lines f2 q2) as [m2 z2]. cbn [fst snd] in *.
  split; [apply js_app; assumption | exact Hz].
Qed.

(* ---------------------------------------------------------------- 4. trailing newlines *)
Fixpoint rstrip (l : list tok) : list tok :=
  match l with
  | [] => []
  | t :: r => match rstrip r with
              | [] => if tk_eqb (kind t) KNewline then [] else [t]
              | r' => t :: r'
              end
  end.

Lemma strip_snoc x t :
  strip_trailing_newlines (x ++ [t]) =
  match strip_trailing_newlines x with
  | [] => if tk_eqb (kind t) KNewline then [] else [t]
  | y => y ++ [t]
  end.
Proof.
  induction x as [|u r IH]; cbn [app strip_trailing_newlines].
  - destruct (tk_eqb (kind t) KNewline); reflexivity.
  - destruct (tk_eqb (kind u) KNewline); [exact IH | reflexivity].
Qed.

Lemma rstrip_spec l : rstrip l = rev (strip_trailing_newlines (rev l)).
Proof.
  induction l as [|t r IH]; [reflexivity|]. cbn [rstrip rev]. rewrite strip_snoc, IH.
  destruct (strip_trailing_newlines (rev r)) as [|y ys] eqn:E.
  - cbn [rev]. destruct (tk_eqb (kind t) KNewline); reflexivity.
  - rewrite rev_app_distr. cbn [rev app]. destruct (rev ys ++ [y]) eqn:E2; [|reflexivity].
    destruct (rev ys); discriminate.
Qed.

Lemma rstrip_keep t r : tk_eqb (kind t) KNewline = false -> rstrip (t :: r) = t :: rstrip r.
Proof. intro H. cbn [rstrip]. rewrite H. destruct (rstrip r); reflexivity. Qed.

Lemma rstrip_j m l1 l2 : jsim m l1 l2 -> jsim m (rstrip l1) (rstrip l2).
Proof.
  induction 1 as [m|m a b r1 r2 Hab Hr IH|a b cm w r1 r2 Hab Ka Kc Hc Kw Hr IH].
  - constructor.
  - cbn [rstrip]. pose proof (js_nil_iff _ _ _ IH) as N. rewrite <- (krel_kind _ _ Hab).
    destruct (rstrip r1) as [|x1 y1], (rstrip r2) as [|x2 y2].
    + destruct (tk_eqb (kind a) KNewline); [constructor | apply j_cons; [exact Hab | constructor]].
    + exfalso. destruct N as [N _]. specialize (N eq_refl). discriminate.
    + exfalso. destruct N as [_ N]. specialize (N eq_refl). discriminate.
    + apply j_cons; assumption.
  - assert (Na : tk_eqb (kind a) KNewline = false) by (exact (swt_not_nl _ Ka)).
    assert (Nb : tk_eqb (kind b) KNewline = false) by (rewrite <- (krel_kind _ _ Hab); exact Na).
    assert (Nw : tk_eqb (kind w) KNewline = false) by (apply (js_kind_not_nl _ _ Kw); discriminate).
    assert (Nc : tk_eqb (kind cm) KNewline = false) by (apply (js_kind_not_nl _ _ Kc); discriminate).
    rewrite (rstrip_keep _ _ Nw) in IH.
    rewrite (rstrip_keep _ _ Na), (rstrip_keep _ _ Nw), (rstrip_keep _ _ Nb), (rstrip_keep _ _ Nc).
    apply j_ins; assumption.
Qed.

(* ---------------------------------------------------------------- 5. next_block *)
Definition nb_rel (o1 o2 : option (list tok * list tok)) : Prop :=
  match o1, o2 with
  | None, None => True
  | Some (b1, q1), Some (b2, q2) => jany b1 b2 /\ jany q1 q2
  | _, _ => False
  end.

Lemma finish_block_j m l1 l2 mm1 mm2 z1 z2 :
  jsim m l1 l2 -> jsim (mode_after m l1) mm1 mm2 -> jany z1 z2 ->
  nb_rel (finish_block l1 mm1 z1) (finish_block l2 mm2 z2).
Proof.
  intros Hl Hm Hz. unfold finish_block. rewrite <- !rstrip_spec.
  pose proof (rstrip_j _ _ _ (js_app _ _ _ Hl _ _ Hm)) as B. pose proof (js_nil_iff _ _ _ B) as N.
  destruct (rstrip (l1 ++ mm1)) as [|x1 y1], (rstrip (l2 ++ mm2)) as [|x2 y2]; cbn.
  - exact I.
  - destruct N as [N _]. specialize (N eq_refl). discriminate.
  - destruct N as [_ N]. specialize (N eq_refl). discriminate.
  - split; [exists m; exact B | exact Hz].
Qed.

Lemma next_block_j' f1 : forall f2 m ts1 ts2, jsim m ts1 ts2 ->
  (length ts1 < f1)%nat -> (length ts2 < f2)%nat ->
  nb_rel (next_block f1 ts1) (next_block f2 ts2).
Proof.
  induction f1 as [|f1 IH]; intros f2 m ts1 ts2 H L1 L2; [lia|]. destruct f2 as [|f2]; [lia|].
  destruct (nil_or_not ts1) as [-> | Hne1].
  { assert (ts2 = []) as -> by (apply (js_nil_iff _ _ _ H); reflexivity). exact I. }
  assert (Hne2 : ts2 <> []) by (intro E; apply Hne1; apply (js_nil_iff _ _ _ H); exact E).
  rewrite (next_block_S_ne f1 ts1 Hne1), (next_block_S_ne f2 ts2 Hne2).
  pose proof (pull_line_j _ _ _ H) as [Pl Pq].
  destruct (pull_line ts1) as [l1 q1] eqn:E1. destruct (pull_line ts2) as [l2 q2] eqn:E2.
  apply (pull_line_len _ _ _ Hne1) in E1. apply (pull_line_len _ _ _ Hne2) in E2. cbn [fst snd] in Pl, Pq.
  rewrite (line_is_empty_j _ _ _ Pl).
  destruct (line_is_empty l2); [apply (IH f2 _ _ _ Pq); lia|].
  rewrite (single_marker_j _ _ _ Pl). destruct (is_single_line_marker l2).
  - apply (finish_block_j m); [exact Pl | constructor | eexists; exact Pq].
  - destruct (more_lines_j (S (length q1)) (S (length q2)) _ _ _ Pq (Nat.lt_succ_diag_r _) (Nat.lt_succ_diag_r _))
      as [Hm Hz].
    destruct (more_lines (S (length q1)) q1) as [m1 z1], (more_lines (S (length q2)) q2) as [m2 z2].
    cbn [fst snd] in Hm, Hz. apply (finish_block_j m); assumption.
Qed.

Lemma next_block_j m ts1 ts2 f1 f2 : jsim m ts1 ts2 ->
  (length ts1 < f1)%nat -> (length ts2 < f2)%nat ->
  match next_block f1 ts1, next_block f2 ts2 with
  | None, None => True
  | Some (b1, q1), Some (b2, q2) => jany b1 b2 /\ jany q1 q2
  | _, _ => False
  end.
Proof. intros H L1 L2. exact (next_block_j' f1 f2 m ts1 ts2 H L1 L2). Qed.

(* ---------------------------------------------------------------- 6. blocks_loop *)
Section Blocks.
  Variable cfg : pcfg.
  Hypothesis block_rel : forall blk1 blk2 evs1 evs2 old, jany blk1 blk2 -> Forall2 erel evs1 evs2 ->
    OR (Forall2 erel) (run_block blk1 evs1 (parse_block cfg old)) (run_block blk2 evs2 (parse_block cfg old)).

  Lemma blocks_loop_j f1 : forall f2 ts1 ts2 old evs1 evs2,
    jany ts1 ts2 -> Forall2 erel evs1 evs2 ->
    OR (Forall2 erel) (blocks_loop cfg f1 ts1 old evs1) (blocks_loop cfg f2 ts2 old evs2).
  Proof.
    induction f1 as [|f1 IH]; intros f2 ts1 ts2 old evs1 evs2 [m Ht] He; [exact I|].
    destruct f2 as [|f2]; [unfold OR; destruct (blocks_loop cfg (S f1) ts1 old evs1); exact I|].
    cbn [blocks_loop].
    pose proof (next_block_j m ts1 ts2 (S (length ts1)) (S (length ts2)) Ht
                  (Nat.lt_succ_diag_r _) (Nat.lt_succ_diag_r _)) as Nb.
    destruct (next_block (S (length ts1)) ts1) as [[b1 q1]|], (next_block (S (length ts2)) ts2) as [[b2 q2]|];
      try contradiction; [|exact He].
    destruct Nb as [Hb Hq].
    pose proof (block_rel b1 b2 evs1 evs2 old Hb He) as R. unfold OR in R.
    destruct (run_block b1 evs1 (parse_block cfg old)) as [e1|]; cbn [obind]; [|exact I].
    destruct (run_block b2 evs2 (parse_block cfg old)) as [e2|]; cbn [obind].
    - apply IH; assumption.
    - unfold OR. destruct (blocks_loop cfg f1 q1 old e1); exact I.
  Qed.
End Blocks.
