(* Proofs about Model/Scale.v for C08 (statements are restated in Properties/C08.v).
   The fit applied after scaling is the one of Model/Convert.v; what it preserves is
   ConvertProofs.fit_spec (C09). *)
From Coq Require Import Lia Setoid Morphisms ZArith NArith ZifyBool ZifyN.
From CL Require Import Base.StrLemmas Model.Convert Proofs.ConvertProofs Model.Scale.
From CL Require Model.Analysis.
Open Scope Q_scope.

(* ------------------------------------------------------------------ lists *)

Lemma mapM_Forall2 {A B} (f : A -> outcome B) l l' :
  mapM f l = Done l' -> Forall2 (fun a b => f a = Done b) l l'.
Proof.
  revert l'. induction l as [|a l IH]; intros l' H; cbn [mapM] in H.
  - injection H as <-. constructor.
  - obn H b Eb. obn H r Er. injection H as <-. constructor; [exact Eb|apply IH; reflexivity].
Qed.

Lemma Forall2_nth {A B} (R : A -> B -> Prop) l l' k a :
  Forall2 R l l' -> nth_error l k = Some a -> exists b, nth_error l' k = Some b /\ R a b.
Proof.
  intro H. revert k. induction H as [|x y l l' Hxy H IH]; intros k Hk.
  - destruct k; discriminate.
  - destruct k as [|k]; cbn [nth_error] in *.
    + injection Hk as <-. exists y. split; [reflexivity|exact Hxy].
    + exact (IH k Hk).
Qed.

Lemma Forall2_len {A B} (R : A -> B -> Prop) l l' : Forall2 R l l' -> length l = length l'.
Proof. induction 1; cbn; congruence. Qed.

(* ------------------------------------------------------------------ specification vocabulary *)

Definition is_text (v : value) : bool := match v with VText _ => true | _ => false end.

(* a numeric value multiplied by f (the exact value, whatever it was written as) *)
Definition vscale (f : Q) (v : value) : value :=
  match v with
  | VNumber n => VNumber (Regular (num_value n * f))
  | VRange s e => VRange (Regular (num_value s * f)) (Regular (num_value e * f))
  | VText t => VText t
  end.

(* both ends of a numeric value *)
Definition ends (v : value) : option (Q * Q) :=
  match v with
  | VNumber n => Some (num_value n, num_value n)
  | VRange s e => Some (num_value s, num_value e)
  | VText _ => None
  end.

Definition ends_rel (R : Q -> Q -> Prop) (a b : option (Q * Q)) : Prop :=
  match a, b with
  | Some x, Some y => R (fst x) (fst y) /\ R (snd x) (snd y)
  | None, None => True
  | _, _ => False
  end.

(* the unit of the converter a quantity's unit text names, if any *)
Definition known_unit (c : converter) (q : quantity) : option unit :=
  match q_unit q with
  | None => None
  | Some k => match get_unit_id c k with
              | None => None
              | Some id => nth_error (all_units c) (N.to_nat id)
              end
  end.

(* an amount in base units expressed in unit u (inverse of to_base) *)
Definition from_base (u : unit) (a : Q) : Q := a / u_ratio u - u_diff u.

(* [q'] is [q0] multiplied by f as a physical amount.
   Unit known to the converter: q' has a known unit too (whatever fit chose), and its amount
   expressed in the written unit is f times the written value, end-wise; for units without an offset
   (all but the temperature scales) that is: amount(q') = f * amount(q0) in base units.
   No unit / unit unknown to the converter: q' is the written quantity with its value times f. *)
Definition times_amount (c : converter) (f : Q) (q0 q' : quantity) : Prop :=
  match known_unit c q0 with
  | Some u =>
      ends_rel (fun a' a => from_base u a' == f * from_base u a) (q_amount c q') (q_amount c q0) /\
      (u_diff u == 0 -> ends_rel (fun a' a => a' == f * a) (q_amount c q') (q_amount c q0))
  | None => q' = {| q_value := vscale f (q_value q0); q_unit := q_unit q0 |}
  end.

(* [q'] is physically [q0]: same amount when the unit is known, the very same quantity when it is
   not; a text value is always kept verbatim (unit included) *)
Definition same_amount (c : converter) (q0 q' : quantity) : Prop :=
  match known_unit c q0 with
  | Some _ => amt_eq (q_amount c q') (q_amount c q0)
  | None => q' = q0
  end /\ (is_text (q_value q0) = true -> q' = q0).

(* what scaling must do to the quantity of an ingredient or timer, and the outcome it must report *)
Definition quantity_rel (c : converter) (f : Q) (sq : option squantity) (q' : option quantity)
           (o : scale_outcome) : Prop :=
  match sq with
  | None => q' = None /\ o = ONoQuantity
  | Some q =>
      exists x, q' = Some x /\
      match sq_value q with
      | SLinear v => if is_text v then x = quantity_default q /\ o = OError
                     else times_amount c f (quantity_default q) x /\ o = OScaled
      | SFixed v => same_amount c (quantity_default q) x /\ o = OFixed
      end
  end.

(* the same for cookware (a bare value, never fitted) *)
Definition cookware_rel (f : Q) (sv : option svalue) (v' : option value) (o : scale_outcome) : Prop :=
  match sv with
  | None => v' = None /\ o = ONoQuantity
  | Some (SFixed v) => v' = Some v /\ o = OFixed
  | Some (SLinear v) => if is_text v then v' = Some v /\ o = OError
                        else v' = Some (vscale f v) /\ o = OScaled
  end.

(* ------------------------------------------------------------------ the value level *)

Lemma value_scale_spec v f :
  value_scale v f =
  match v with
  | SFixed x => (x, OFixed)
  | SLinear x => if is_text x then (x, OError) else (vscale f x, OScaled)
  end.
Proof. destruct v as [x|x]; [reflexivity|]. destruct x; reflexivity. Qed.

Lemma quantity_scale_spec q f :
  quantity_scale q f =
  match sq_value q with
  | SFixed x => (quantity_default q, OFixed)
  | SLinear x => if is_text x then (quantity_default q, OError)
                 else ({| q_value := vscale f x; q_unit := sq_unit q |}, OScaled)
  end.
Proof.
  unfold quantity_scale, quantity_default. rewrite value_scale_spec.
  destruct (sq_value q) as [x|x]; [reflexivity|]. destruct (is_text x); reflexivity.
Qed.

(* ------------------------------------------------------------------ known units *)

Lemma known_unit_of_info c q u : unit_info c q = Done (Some u) -> known_unit c q = Some (snd u).
Proof.
  intro H. destruct (unit_info_spec _ _ _ H) as (k & Hk & Hid & Hr).
  unfold known_unit. rewrite Hk, Hid. unfold is_ref in Hr. apply unit_at_spec in Hr as [_ Hn]. exact Hn.
Qed.

Lemma known_unit_of_none c q : unit_info c q = Done None -> known_unit c q = None.
Proof.
  unfold unit_info, find_unit, known_unit. destruct (q_unit q) as [k|]; [|reflexivity].
  destruct (get_unit_id c k) as [id|]; [|reflexivity].
  unfold unit_at. destruct (nth_error _ _); discriminate.
Qed.

Lemma known_unit_amount c q u : known_unit c q = Some u -> q_amount c q = val_amount u (q_value q).
Proof.
  unfold known_unit, q_amount. destruct (q_unit q) as [k|]; [|discriminate].
  destruct (get_unit_id c k) as [id|]; [|discriminate]. intros ->. reflexivity.
Qed.

Lemma known_unit_in c q u : known_unit c q = Some u -> In u (all_units c).
Proof.
  unfold known_unit. destruct (q_unit q) as [k|]; [|discriminate].
  destruct (get_unit_id c k) as [id|]; [|discriminate]. apply nth_error_In.
Qed.

Lemma known_unit_unit c v v' un :
  known_unit c {| q_value := v; q_unit := un |} = known_unit c {| q_value := v'; q_unit := un |}.
Proof. reflexivity. Qed.

Lemma from_to_base u x : ~ u_ratio u == 0 -> from_base u (to_base u x) == x.
Proof. intro H. unfold from_base, to_base. field. exact H. Qed.

Lemma from_base_compat u x y : x == y -> from_base u x == from_base u y.
Proof. intro H. unfold from_base. rewrite H. reflexivity. Qed.

Lemma to_base_scale u x f : u_diff u == 0 -> to_base u (x * f) == f * to_base u x.
Proof. intro H. unfold to_base. rewrite H. ring. Qed.

(* ------------------------------------------------------------------ fit after scaling *)

Section WithApprox.
  Variable approx : Q -> frac_cfg -> outcome (option number).
  Hypothesis approx_exact : forall v cfg n, approx v cfg = Done (Some n) -> num_value n == v.

  Lemma fit_unit_info c q q' r :
    fit approx c q = Done (q', r) -> exists ou, unit_info c q = Done ou.
  Proof.
    unfold fit. destruct (unit_info c q) as [ou|]; [|discriminate]. intros _. exists ou. reflexivity.
  Qed.

  Lemma fit_unknown c q q' r :
    unit_info c q = Done None -> fit approx c q = Done (q', r) -> q' = q.
  Proof. intros Hu. unfold fit. rewrite Hu. cbn [obind]. intro H. injection H as <- _. reflexivity. Qed.

  (* a text value never changes *)
  Lemma try_fraction_text c q t q' b :
    q_value q = VText t -> try_fraction approx c q = Done (q', b) -> q' = q /\ b = false.
  Proof.
    intros Hv H. unfold try_fraction in H. obn H ou Eu.
    destruct ou as [u|]; [|injection H as <- <-; split; reflexivity].
    obn H cfg Ec. destruct (negb (fc_enabled cfg)); [injection H as <- <-; split; reflexivity|].
    rewrite Hv in H. injection H as <- <-. split; reflexivity.
  Qed.

  Lemma fit_fraction_text c q u tg t q' r :
    q_value q = VText t -> fit_fraction approx c q u tg = Done (q', r) -> q' = q /\ r <> Ok true.
  Proof.
    intros Hv H. unfold fit_fraction in H. destruct tg as [sys|].
    - rewrite Hv in H. injection H as <- <-. split; [reflexivity|discriminate].
    - obn H x Ex. destruct x as [q1 b]. cbn [fst snd] in H. injection H as <- <-.
      destruct (try_fraction_text _ _ _ _ _ Hv Ex) as [-> ->]. split; [reflexivity|discriminate].
  Qed.

  Lemma convert_impl_text c q to t q' r :
    q_value q = VText t -> convert_impl approx c q to = Done (q', r) -> q' = q.
  Proof.
    intros Hv H. unfold convert_impl in H.
    destruct (q_unit q) as [k|]; [|injection H as <- _; reflexivity].
    obn H ou Eu. destruct ou as [u|]; [|injection H as <- _; reflexivity].
    rewrite Hv in H. cbn [cvalue_of] in H. injection H as <- _. reflexivity.
  Qed.

  Lemma fit_text c q t q' r :
    q_value q = VText t -> fit approx c q = Done (q', r) -> q' = q.
  Proof.
    intros Hv H. unfold fit in H. obn H ou Eu.
    destruct ou as [u|]; [|injection H as <- _; reflexivity].
    obn H cfg Ec. destruct (fc_enabled cfg).
    - obn H x Ex. destruct x as [q1 r1]. cbn [fst snd] in H.
      destruct (fit_fraction_text _ _ _ _ _ _ _ Hv Ex) as [-> Hr].
      destruct r1 as [[|]|e].
      + exfalso. apply Hr. reflexivity.
      + eapply convert_impl_text; eauto.
      + injection H as <- _. reflexivity.
    - eapply convert_impl_text; eauto.
  Qed.

  Lemma fit_same_amount c q q' r :
    ratios_pos c -> index_consistent c ->
    fit approx c q = Done (q', r) -> same_amount c q q'.
  Proof.
    intros Hp Hi H. unfold same_amount. split.
    - destruct (fit_unit_info _ _ _ _ H) as [ou Hu]. destruct ou as [u|].
      + rewrite (known_unit_of_info _ _ _ Hu).
        exact (proj1 (fit_spec approx approx_exact c q q' r Hp Hi H)).
      + rewrite (known_unit_of_none _ _ Hu). eapply fit_unknown; eauto.
    - intro Ht. destruct (q_value q) as [n|s e|t] eqn:V; try discriminate.
      eapply fit_text; eauto.
  Qed.

  Lemma fit_times_amount c f v un q' r :
    ratios_pos c -> index_consistent c -> is_text v = false ->
    fit approx c {| q_value := vscale f v; q_unit := un |} = Done (q', r) ->
    times_amount c f {| q_value := v; q_unit := un |} q'.
  Proof.
    intros Hp Hi Ht H. set (q1 := {| q_value := vscale f v; q_unit := un |}) in *.
    set (q0 := {| q_value := v; q_unit := un |}).
    unfold times_amount. destruct (fit_unit_info _ _ _ _ H) as [ou Hu]. destruct ou as [u|].
    - pose proof (known_unit_of_info _ _ _ Hu) as K1.
      assert (K0 : known_unit c q0 = Some (snd u)) by exact K1.
      rewrite K0.
      pose proof (proj1 (fit_spec approx approx_exact c q1 q' r Hp Hi H)) as Am.
      rewrite (known_unit_amount _ _ _ K1) in Am. rewrite (known_unit_amount _ _ _ K0).
      assert (Nz : ~ u_ratio (snd u) == 0).
      { apply Qpos_nonzero, Hp. eapply known_unit_in; eauto. }
      unfold q1, q0 in *. cbn [q_value] in *.
      destruct (q_amount c q') as [[a1 a2]|]; destruct v as [n|s e|t]; cbn in Am; try contradiction;
        try discriminate; destruct Am as [A1 A2]; cbn [fst snd] in A1, A2.
      + split.
        * cbn. split; [rewrite (from_base_compat _ _ _ A1)|rewrite (from_base_compat _ _ _ A2)];
            rewrite !from_to_base by exact Nz; ring.
        * intro Hd. cbn. split; [rewrite A1|rewrite A2]; apply to_base_scale; exact Hd.
      + split.
        * cbn. split; [rewrite (from_base_compat _ _ _ A1)|rewrite (from_base_compat _ _ _ A2)];
            rewrite !from_to_base by exact Nz; ring.
        * intro Hd. cbn. split; [rewrite A1|rewrite A2]; apply to_base_scale; exact Hd.
    - assert (K0 : known_unit c q0 = None) by exact (known_unit_of_none _ _ Hu).
      rewrite K0. eapply fit_unknown; eauto.
  Qed.

  (* ---------------------------------------------------------------- components *)

  Lemma quantity_fit_rel c f sq q' o :
    ratios_pos c -> index_consistent c ->
    match sq with
    | None => q' = None /\ o = ONoQuantity
    | Some q => exists x r, q' = Some x /\ fit approx c (fst (quantity_scale q f)) = Done (x, r) /\
                            o = snd (quantity_scale q f)
    end -> quantity_rel c f sq q' o.
  Proof.
    intros Hp Hi H. unfold quantity_rel. destruct sq as [q|]; [|exact H].
    destruct H as (x & r & -> & Hf & ->). exists x. split; [reflexivity|].
    rewrite quantity_scale_spec in *. destruct (sq_value q) as [v|v] eqn:V.
    - cbn [fst snd] in *. split; [eapply fit_same_amount; eauto|reflexivity].
    - destruct (is_text v) eqn:T; cbn [fst snd] in *.
      + split; [|reflexivity]. destruct v as [n|s e|t]; try discriminate.
        eapply fit_text; [|exact Hf]. unfold quantity_default. rewrite V. reflexivity.
      + split; [|reflexivity].
        assert (E : quantity_default q = {| q_value := v; q_unit := sq_unit q |}).
        { unfold quantity_default. rewrite V. reflexivity. }
        rewrite E. eapply fit_times_amount; eauto.
  Qed.

  Lemma ingredient_scale_fit_spec {IF} c f (i : s_ingredient IF) i' o :
    ratios_pos c -> index_consistent c ->
    ingredient_scale_fit approx c f i = Done (i', o) ->
    ig_frame i' = si_frame i /\ quantity_rel c f (si_quantity i) (ig_quantity i') o.
  Proof.
    intros Hp Hi H. unfold ingredient_scale_fit, ingredient_scale in H.
    destruct (si_quantity i) as [q|] eqn:Q; cbn [fst snd ig_quantity ig_frame fit_quietly] in H.
    - obn H oq Eo. injection H as <- <-. cbn [ig_frame ig_quantity]. split; [reflexivity|].
      obn Eo xr Ef. injection Eo as <-. destruct xr as [x r]. cbn [fst].
      apply quantity_fit_rel; try assumption. exists x, r. repeat split; assumption.
    - cbn [obind] in H. injection H as <- <-. cbn [ig_frame ig_quantity]. split; [reflexivity|].
      apply quantity_fit_rel; try assumption. split; reflexivity.
  Qed.

  Lemma timer_scale_fit_spec c f (t : s_timer) t' o :
    ratios_pos c -> index_consistent c ->
    timer_scale_fit approx c f t = Done (t', o) ->
    tm_name t' = st_name t /\ quantity_rel c f (st_quantity t) (tm_quantity t') o.
  Proof.
    intros Hp Hi H. unfold timer_scale_fit, timer_scale in H.
    destruct (st_quantity t) as [q|] eqn:Q; cbn [fst snd tm_quantity tm_name fit_quietly] in H.
    - obn H oq Eo. injection H as <- <-. cbn [tm_name tm_quantity]. split; [reflexivity|].
      obn Eo xr Ef. injection Eo as <-. destruct xr as [x r]. cbn [fst].
      apply quantity_fit_rel; try assumption. exists x, r. repeat split; assumption.
    - cbn [obind] in H. injection H as <- <-. cbn [tm_name tm_quantity]. split; [reflexivity|].
      apply quantity_fit_rel; try assumption. split; reflexivity.
  Qed.

  Lemma cookware_scale_spec {CF} f (k : s_cookware CF) :
    ck_frame (fst (cookware_scale k f)) = sc_frame k /\
    cookware_rel f (sc_quantity k) (ck_quantity (fst (cookware_scale k f))) (snd (cookware_scale k f)).
  Proof.
    unfold cookware_scale, cookware_rel. destruct (sc_quantity k) as [v|]; cbn [fst snd ck_frame ck_quantity].
    - split; [reflexivity|]. rewrite value_scale_spec. destruct v as [x|x]; [split; reflexivity|].
      destruct (is_text x); split; reflexivity.
    - split; [reflexivity|split; reflexivity].
  Qed.

  (* ---------------------------------------------------------------- the recipe *)

  Section Recipes.
    Context {IF CF MF : Type}.
    Notation SR := (s_recipe IF CF MF).
    Notation RR := (recipe IF CF MF).

    (* everything scaling says about a recipe, component by component *)
    Definition scale_rel (c : converter) (f : Q) (r : SR) (r' : RR) : Prop :=
      r_frame r' = sr_frame r /\ r_inline r' = sr_inline r /\
      exists oi oc ot,
        r_data r' = Scaled f oi oc ot /\
        length (r_ingredients r') = length (sr_ingredients r) /\ length oi = length (sr_ingredients r) /\
        length (r_cookware r') = length (sr_cookware r) /\ length oc = length (sr_cookware r) /\
        length (r_timers r') = length (sr_timers r) /\ length ot = length (sr_timers r) /\
        (forall k i, nth_error (sr_ingredients r) k = Some i ->
           exists i' o, nth_error (r_ingredients r') k = Some i' /\ nth_error oi k = Some o /\
                        ig_frame i' = si_frame i /\ quantity_rel c f (si_quantity i) (ig_quantity i') o) /\
        (forall k w, nth_error (sr_cookware r) k = Some w ->
           exists w' o, nth_error (r_cookware r') k = Some w' /\ nth_error oc k = Some o /\
                        ck_frame w' = sc_frame w /\ cookware_rel f (sc_quantity w) (ck_quantity w') o) /\
        (forall k t, nth_error (sr_timers r) k = Some t ->
           exists t' o, nth_error (r_timers r') k = Some t' /\ nth_error ot k = Some o /\
                        tm_name t' = st_name t /\ quantity_rel c f (st_quantity t) (tm_quantity t') o).

    Lemma scale_spec c f (r : SR) (r' : RR) :
      ratios_pos c -> index_consistent c ->
      scale approx c f r = Done r' -> scale_rel c f r r'.
    Proof.
      intros Hp Hi H. unfold scale in H. obn H igs Ei. obn H tms Et. injection H as <-.
      apply mapM_Forall2 in Ei. apply mapM_Forall2 in Et.
      unfold scale_rel. cbn [r_frame r_inline r_data r_ingredients r_cookware r_timers].
      split; [reflexivity|]. split; [reflexivity|].
      eexists. eexists. eexists. split; [reflexivity|].
      pose proof (Forall2_len _ _ _ Ei) as Li. pose proof (Forall2_len _ _ _ Et) as Lt.
      rewrite !map_length.
      split; [symmetry; exact Li|]. split; [symmetry; exact Li|].
      split; [reflexivity|]. split; [reflexivity|].
      split; [symmetry; exact Lt|]. split; [symmetry; exact Lt|].
      split; [|split].
      - intros k i Hk. destruct (Forall2_nth _ _ _ _ _ Ei Hk) as ([i' o] & Hn & Hs).
        exists i', o. split; [exact (map_nth_error fst _ _ Hn)|]. split; [exact (map_nth_error snd _ _ Hn)|].
        eapply ingredient_scale_fit_spec; eauto.
      - intros k w Hk.
        exists (fst (cookware_scale w f)), (snd (cookware_scale w f)).
        split; [rewrite map_map; exact (map_nth_error (fun x => fst (cookware_scale x f)) _ _ Hk)|].
        split; [rewrite map_map; exact (map_nth_error (fun x => snd (cookware_scale x f)) _ _ Hk)|].
        apply cookware_scale_spec.
      - intros k t Hk. destruct (Forall2_nth _ _ _ _ _ Et Hk) as ([t' o] & Hn & Hs).
        exists t', o. split; [exact (map_nth_error fst _ _ Hn)|]. split; [exact (map_nth_error snd _ _ Hn)|].
        eapply timer_scale_fit_spec; eauto.
    Qed.

    (* the two readings of scale_spec the property names *)
    Lemma scale_linear : forall c f (r : SR) r' k i q v,
      ratios_pos c -> index_consistent c ->
      scale approx c f r = Done r' ->
      nth_error (sr_ingredients r) k = Some i -> si_quantity i = Some q ->
      sq_value q = SLinear v -> is_text v = false ->
      exists i' x oi oc ot,
        nth_error (r_ingredients r') k = Some i' /\ ig_frame i' = si_frame i /\ ig_quantity i' = Some x /\
        r_data r' = Scaled f oi oc ot /\ nth_error oi k = Some OScaled /\
        times_amount c f {| q_value := v; q_unit := sq_unit q |} x.
    Proof.
      intros c f r r' k i q v Hp Hi H Hk Hq Hv Ht.
      destruct (scale_spec c f r r' Hp Hi H)
        as (_ & _ & oi & oc & ot & Hd & _ & _ & _ & _ & _ & _ & Hing & _).
      destruct (Hing k i Hk) as (i' & o & Hn & Ho & Hf & Hr).
      unfold quantity_rel in Hr. rewrite Hq in Hr. destruct Hr as (x & Hx & Hr).
      rewrite Hv, Ht in Hr. destruct Hr as [Hr ->].
      exists i', x, oi, oc, ot. repeat split; try assumption.
      unfold quantity_default in Hr. rewrite Hv in Hr. exact Hr.
    Qed.

    Lemma scale_fixed : forall c f (r : SR) r',
      ratios_pos c -> index_consistent c ->
      scale approx c f r = Done r' ->
      exists oi oc ot, r_data r' = Scaled f oi oc ot /\ r_inline r' = sr_inline r /\
      (forall k i, nth_error (sr_ingredients r) k = Some i ->
         exists i', nth_error (r_ingredients r') k = Some i' /\
         match si_quantity i with
         | None => ig_quantity i' = None /\ nth_error oi k = Some ONoQuantity
         | Some q =>
             match sq_value q with
             | SFixed v => exists x, ig_quantity i' = Some x /\ nth_error oi k = Some OFixed /\
                                     same_amount c {| q_value := v; q_unit := sq_unit q |} x
             | SLinear v => is_text v = true ->
                            ig_quantity i' = Some {| q_value := v; q_unit := sq_unit q |} /\
                            nth_error oi k = Some OError
             end
         end) /\
      (forall k t, nth_error (sr_timers r) k = Some t ->
         exists t', nth_error (r_timers r') k = Some t' /\ tm_name t' = st_name t /\
         match st_quantity t with
         | None => tm_quantity t' = None /\ nth_error ot k = Some ONoQuantity
         | Some q =>
             match sq_value q with
             | SFixed v => exists x, tm_quantity t' = Some x /\ nth_error ot k = Some OFixed /\
                                     same_amount c {| q_value := v; q_unit := sq_unit q |} x
             | SLinear v => exists o, nth_error ot k = Some o /\
                                      quantity_rel c f (Some q) (tm_quantity t') o
             end
         end) /\
      (forall k w, nth_error (sr_cookware r) k = Some w ->
         exists w', nth_error (r_cookware r') k = Some w' /\ ck_frame w' = sc_frame w /\
         match sc_quantity w with
         | None => ck_quantity w' = None /\ nth_error oc k = Some ONoQuantity
         | Some (SFixed v) => ck_quantity w' = Some v /\ nth_error oc k = Some OFixed
         | Some (SLinear v) => exists o, nth_error oc k = Some o /\
                                         cookware_rel f (Some (SLinear v)) (ck_quantity w') o
         end).
    Proof.
      intros c f r r' Hp Hi H.
      destruct (scale_spec c f r r' Hp Hi H)
        as (_ & Hin & oi & oc & ot & Hd & _ & _ & _ & _ & _ & _ & Hing & Hcw & Htm).
      exists oi, oc, ot. split; [exact Hd|]. split; [exact Hin|]. split; [|split].
      - intros k i Hk. destruct (Hing k i Hk) as (i' & o & Hn & Ho & _ & Hr). exists i'.
        split; [exact Hn|]. unfold quantity_rel in Hr. destruct (si_quantity i) as [q|].
        + destruct Hr as (x & Hx & Hr). destruct (sq_value q) as [v|v] eqn:V.
          * destruct Hr as [Hs ->]. exists x. split; [exact Hx|]. split; [exact Ho|].
            unfold quantity_default in Hs. rewrite V in Hs. exact Hs.
          * intro Ht. rewrite Ht in Hr. destruct Hr as [-> ->]. split; [|exact Ho].
            rewrite Hx. unfold quantity_default. rewrite V. reflexivity.
        + destruct Hr as [-> ->]. split; [reflexivity|exact Ho].
      - intros k t Hk. destruct (Htm k t Hk) as (t' & o & Hn & Ho & Hname & Hr). exists t'.
        split; [exact Hn|]. split; [exact Hname|]. destruct (st_quantity t) as [q|] eqn:Q.
        + destruct (sq_value q) as [v|v] eqn:V.
          * unfold quantity_rel in Hr. destruct Hr as (x & Hx & Hr). rewrite V in Hr.
            destruct Hr as [Hs ->]. exists x. split; [exact Hx|]. split; [exact Ho|].
            unfold quantity_default in Hs. rewrite V in Hs. exact Hs.
          * exists o. split; [exact Ho|exact Hr].
        + destruct Hr as [-> ->]. split; [reflexivity|exact Ho].
      - intros k w Hk. destruct (Hcw k w Hk) as (w' & o & Hn & Ho & Hf & Hr). exists w'.
        split; [exact Hn|]. split; [exact Hf|]. unfold cookware_rel in Hr.
        destruct (sc_quantity w) as [[v|v]|].
        + destruct Hr as [-> ->]. split; [reflexivity|exact Ho].
        + exists o. split; [exact Ho|exact Hr].
        + destruct Hr as [-> ->]. split; [reflexivity|exact Ho].
    Qed.

    (* the frame alone, as list equalities *)
    Lemma scale_frame c f (r : SR) (r' : RR) :
      scale approx c f r = Done r' ->
      r_frame r' = sr_frame r /\ r_inline r' = sr_inline r /\
      map ig_frame (r_ingredients r') = map si_frame (sr_ingredients r) /\
      map ck_frame (r_cookware r') = map sc_frame (sr_cookware r) /\
      map tm_name (r_timers r') = map st_name (sr_timers r) /\
      map (fun i => match ig_quantity i with Some _ => true | None => false end) (r_ingredients r')
        = map (fun i => match si_quantity i with Some _ => true | None => false end) (sr_ingredients r) /\
      map (fun i => match ck_quantity i with Some _ => true | None => false end) (r_cookware r')
        = map (fun i => match sc_quantity i with Some _ => true | None => false end) (sr_cookware r) /\
      map (fun i => match tm_quantity i with Some _ => true | None => false end) (r_timers r')
        = map (fun i => match st_quantity i with Some _ => true | None => false end) (sr_timers r) /\
      exists oi oc ot, r_data r' = Scaled f oi oc ot /\
        length oi = length (r_ingredients r') /\ length oc = length (r_cookware r') /\
        length ot = length (r_timers r').
    Proof.
      intro H. unfold scale in H. obn H igs Ei. obn H tms Et. injection H as <-.
      apply mapM_Forall2 in Ei. apply mapM_Forall2 in Et.
      cbn [r_frame r_inline r_data r_ingredients r_cookware r_timers].
      split; [reflexivity|]. split; [reflexivity|].
      assert (Fi : forall l l', Forall2 (fun a b => ingredient_scale_fit approx c f a = Done b) l l' ->
                map ig_frame (map fst l') = map si_frame l /\
                map (fun i => match ig_quantity i with Some _ => true | None => false end) (map fst l')
                = map (fun i : s_ingredient IF => match si_quantity i with Some _ => true | None => false end) l).
      { induction 1 as [|a b l l' Hab Hl [IH1 IH2]]; [split; reflexivity|].
        cbn [map]. rewrite IH1, IH2. unfold ingredient_scale_fit, ingredient_scale in Hab.
        destruct (si_quantity a) as [q|]; cbn [fst snd ig_quantity ig_frame fit_quietly] in Hab.
        - obn Hab oq Eo. injection Hab as <-. cbn [fst ig_frame ig_quantity].
          obn Eo xr Ef. injection Eo as <-. split; reflexivity.
        - cbn [obind] in Hab. injection Hab as <-. split; reflexivity. }
      assert (Ft : forall l l', Forall2 (fun a b => timer_scale_fit approx c f a = Done b) l l' ->
                map tm_name (map fst l') = map st_name l /\
                map (fun i => match tm_quantity i with Some _ => true | None => false end) (map fst l')
                = map (fun i => match st_quantity i with Some _ => true | None => false end) l).
      { induction 1 as [|a b l l' Hab Hl [IH1 IH2]]; [split; reflexivity|].
        cbn [map]. rewrite IH1, IH2. unfold timer_scale_fit, timer_scale in Hab.
        destruct (st_quantity a) as [q|]; cbn [fst snd tm_quantity tm_name fit_quietly] in Hab.
        - obn Hab oq Eo. injection Hab as <-. cbn [fst tm_name tm_quantity].
          obn Eo xr Ef. injection Eo as <-. split; reflexivity.
        - cbn [obind] in Hab. injection Hab as <-. split; reflexivity. }
      destruct (Fi _ _ Ei) as [A1 A2]. destruct (Ft _ _ Et) as [B1 B2].
      split; [exact A1|].
      split; [rewrite !map_map; apply map_ext; intro k; unfold cookware_scale; destruct (sc_quantity k); reflexivity|].
      split; [exact B1|]. split; [exact A2|].
      split; [rewrite !map_map; apply map_ext; intro k; unfold cookware_scale; destruct (sc_quantity k); reflexivity|].
      split; [exact B2|].
      eexists. eexists. eexists. split; [reflexivity|]. rewrite !map_length. repeat split; reflexivity.
    Qed.
  End Recipes.
End WithApprox.

(* ------------------------------------------------------------------ Number::new_approx is exact *)
(* the hypothesis [approx_exact] holds for the model of Number::new_approx in Model/Convert.v
   (quantity.rs 735-780): the recorded error is the difference to the approximated value *)

Lemma Qround_away_cases q : (Qround_away q = Qtrunc q \/ Qround_away q = Qtrunc q + 1 \/ Qround_away q = Qtrunc q - 1)%Z.
Proof. unfold Qround_away. destruct (Qle_bool _ _); [destruct (Qle_bool 0 q)|]; auto. Qed.

Lemma sat_u32_exact r t :
  (r <= t + 1)%Z -> sat_u32 t <> u32_max -> (0 <? sat_u32 r)%N = true -> NQ (sat_u32 r) = inject_Z r.
Proof.
  unfold sat_u32, u32_max, NQ. intros H1 H2 H3. f_equal.
  destruct (r <? 0)%Z eqn:R; [discriminate|]. destruct (t <? 0)%Z eqn:T; lia.
Qed.

Lemma new_approx_exact v cfg n : new_approx v cfg = Done (Some n) -> num_value n == v.
Proof.
  unfold new_approx. intro H. cbv zeta in H.
  destruct (negb _); [discriminate|]. destruct (64 <? fc_max_den cfg)%N; [discriminate|].
  destruct (Qle_bool v 0); [discriminate|].
  destruct (_ || _) eqn:W; [discriminate|].
  destruct (Qlt_bool (v - inject_Z (Qtrunc v)) _).
  { injection H as <-. reflexivity. }
  destruct (_ && _) eqn:C.
  - injection H as <-. cbn [num_value].
    apply andb_true_iff in C as [C C3]. apply andb_true_iff in C as [C1 C2].
    apply orb_false_iff in W as [W1 W2]. apply N.eqb_neq in W2.
    rewrite (sat_u32_exact (Qround_away v) (Qtrunc v)); [|destruct (Qround_away_cases v) as [E|[E|E]]; rewrite E; lia|exact W2|exact C2].
    unfold NQ. cbn [Z.of_N]. field.
  - destruct (tbl_lookup _ _) as [[num den]|]; [|discriminate].
    match type of H with (if ?b then _ else _) = _ => destruct b end; [discriminate|]. injection H as <-. cbn [num_value]. ring.
Qed.

(* ------------------------------------------------------------------ default scaling and servings *)

Section Plain.
  Context {IF CF MF : Type}.

  Lemma default_scale_spec (r : s_recipe IF CF MF) :
    r_frame (default_scale r) = sr_frame r /\ r_inline (default_scale r) = sr_inline r /\
    r_data (default_scale r) = DefaultScaling /\
    r_ingredients (default_scale r) =
      map (fun i => {| ig_frame := si_frame i;
                       ig_quantity := option_map quantity_default (si_quantity i) |}) (sr_ingredients r) /\
    r_cookware (default_scale r) =
      map (fun k => {| ck_frame := sc_frame k;
                       ck_quantity := option_map value_default (sc_quantity k) |}) (sr_cookware r) /\
    r_timers (default_scale r) =
      map (fun t => {| tm_name := st_name t;
                       tm_quantity := option_map quantity_default (st_quantity t) |}) (sr_timers r).
  Proof.
    unfold default_scale. cbn [r_frame r_inline r_data r_ingredients r_cookware r_timers].
    repeat split.
  Qed.

  Lemma servings_spec approx c (n : N) (r : s_recipe IF CF MF) :
    (servings_base r <> 0%N ->
       scale_to_servings approx c n r = scale approx c (NQ n / NQ (servings_base r)) r) /\
    (forall b l, sr_servings r = Some (b :: l) -> servings_base r = b) /\
    (sr_servings r = None \/ sr_servings r = Some [] -> servings_base r = 1%N).
  Proof.
    split; [|split].
    - intro H. unfold scale_to_servings. apply N.eqb_neq in H. rewrite H. reflexivity.
    - intros b l H. unfold servings_base. rewrite H. reflexivity.
    - intros [H|H]; unfold servings_base; rewrite H; reflexivity.
  Qed.
End Plain.

(* the written value is what quantity_default / value_default return *)
Lemma value_default_spec v : value_default v = match v with SFixed x => x | SLinear x => x end.
Proof. reflexivity. Qed.

(* ------------------------------------------------------------------ which values are Linear *)

(* event_consumer.rs 1042-1059 as modelled in Model/Analysis.v (qi_fixed = false is Linear) *)
Lemma which_linear is_ingredient v :
  Analysis.qi_fixed (Analysis.value_info is_ingredient v) = false <->
  is_ingredient = true /\ Events.pvalue_is_text (Events.qv_value v) = false /\ Events.qv_lock v = false.
Proof.
  unfold Analysis.value_info. cbn [Analysis.qi_fixed].
  destruct is_ingredient, (Events.pvalue_is_text (Events.qv_value v)), (Events.qv_lock v); cbn; split; intro H;
    try discriminate; try (destruct H as (A & B & C); discriminate); repeat split; reflexivity.
Qed.

Lemma which_linear_unit is_ingredient q :
  Analysis.qi_fixed (Analysis.quantity_info is_ingredient q)
    = Analysis.qi_fixed (Analysis.value_info is_ingredient (Events.pq_value q)) /\
  Analysis.qi_text (Analysis.quantity_info is_ingredient q)
    = Events.pvalue_is_text (Events.qv_value (Events.pq_value q)).
Proof. split; reflexivity. Qed.
