(* Property C17, text mode, the trailing edit: the relational reading of Proofs/EditTrailStep.v
   ([wsimb], logic [HJ] over [Sw]) with the SOURCE of every component event related.

   The event stacks of the two runs are not in step ([evw]: warnings on one side only, one more blank
   text before an End), but component events are never skipped: in every [evw] derivation the k-th
   component event of the left stack stands against the k-th of the right one.  The ghost [G] is
   therefore stated on the component events alone: [Forall2 crelW (comps evs1) (comps evs2)], together
   with the unary tape invariant of Proofs/EditTextSim.v on either side.  Every computation that pushes
   no component event preserves it whatever the relation between the two runs ([G_fr]); the step loop
   is followed again ([step_loop_g], the proof of [step_loop_w] with the ghost threaded through),
   and at a component attempt [compW] relates the two consumed runs: the rests are [W]-related
   before and after, both runs end in a token that is neither blank nor comment
   (Proofs/EditTextSolid.v), so the relation splits along the cut (Proofs/EditTextTrailTok.v). *)
From Coq Require Import List Lia.
From CL Require Import Base.StrLemmas Model.Lexer Model.PText Model.CommentMask Model.Parser Model.Edits
  Proofs.LexerProofs Proofs.ParserSeg Proofs.ParserCover Proofs.ParserCoverFrame Proofs.ParserOrder Proofs.ParserFM Proofs.C02Quiet
  Proofs.EditParserProofs Proofs.EditSimDefs Proofs.EditSimQty Proofs.EditSimComp Proofs.EditInsDefs Proofs.EditInsPrim
  Proofs.EditAnalysis Proofs.EditTextFrame Proofs.EditTextSim Proofs.EditTextNorm Proofs.EditTextTrailTok Proofs.EditTextSolid.
From CL Require Import Proofs.EditTrailDefs Proofs.EditTrailStr Proofs.EditTrailPrim Proofs.EditTrailQty Proofs.EditTrailFun
  Proofs.EditTrailLine Proofs.EditTrailStep Proofs.EditTrailSplit.
From CL Require Model.Analysis.
Import ListNotations.
Open Scope N_scope.

Definition compsW (l : list pevent) : list pevent := filter is_comp l.

Lemma noncomp_is_comp e : noncomp e -> is_comp e = false.
Proof. destruct e; cbn; intro H; try reflexivity; discriminate H. Qed.

Lemma compsW_nc es l : Forall noncomp es -> compsW (es ++ l) = compsW l.
Proof.
  induction 1 as [|e es He _ IH]; [reflexivity|]. cbn [app compsW filter]. rewrite (noncomp_is_comp _ He). exact IH.
Qed.

(* tokens only move forward *)
Definition tf {A} (m : M A) : Prop := forall s a s', m s = Done (a, s') -> tfr s s'.
Lemma tf_fr {A} (m : M A) : fr m -> tf m.
Proof. intros H s a s' E. exact (proj1 (H _ _ _ E)). Qed.
Lemma tf_bind {A B} (m : M A) (f : A -> M B) : tf m -> (forall a, tf (f a)) -> tf (bind m f).
Proof.
  intros Hm Hf s b s2 H. unfold bind in H. destruct (m s) as [[a s1]|] eqn:E; [|discriminate].
  eapply tfr_trans; [exact (Hm _ _ _ E) | exact (Hf a _ _ _ H)].
Qed.
Lemma tf_event ev : tf (event ev).
Proof. intros s a s' H. unfold event in H. injection H as _ <-. exists []. unfold fwd. cbn [b_all b_rest b_done app rev]. tauto. Qed.

Section TF.
  Variable cfg : pcfg.
  Lemma tf_sel k : tf (sl_sel cfg k).
  Proof.
    destruct k; cbn [sl_sel]; try (apply tf_fr, fr_ret); apply tf_fr, fr_with_recover;
      [apply fr_ingredient_p | apply fr_cookware_p | apply fr_timer_p].
  Qed.
  Lemma tf_step_loop f : tf (step_loop cfg f).
  Proof.
    induction f as [|f IH]; [intros s a s' H; discriminate H|]. cbn [step_loop].
    apply tf_bind; [apply tf_fr, fr_rest|]. intros [|t r]; [apply tf_fr, fr_ret|].
    apply tf_bind; [apply tf_fr, fr_peek|]. intro k.
    apply tf_bind; [exact (tf_sel k)|]. intros [ev|].
    - apply tf_bind; [apply tf_event | intros _; exact IH].
    - apply tf_bind; [apply tf_fr, fr_current_offset|]. intro st.
      apply tf_bind; [apply tf_fr, fr_bump_any|]. intro t0.
      apply tf_bind; [apply tf_fr, fr_consume_while|]. intro more.
      apply tf_bind; [apply tf_fr, fr_textM|]. intro tx0.
      apply tf_bind; [destruct (frags tx0); [apply tf_fr, fr_ret | apply tf_event] | intros _; exact IH].
  Qed.
  Lemma tf_parse_step : tf (parse_step cfg).
  Proof.
    unfold parse_step. apply tf_bind; [apply tf_event|]. intros _. apply tf_bind; [apply tf_fr, fr_rest|]. intro r.
    apply tf_bind; [apply tf_step_loop | intros _; apply tf_event].
  Qed.
  Lemma tf_parse_multiline_block : tf (parse_multiline_block cfg).
  Proof.
    unfold parse_multiline_block. apply tf_bind; [apply tf_fr, fr_all_tokens|]. intro al.
    destruct (forallb _ al).
    - apply tf_bind; [apply tf_fr, fr_consume_while | intros _; apply tf_fr, fr_ret].
    - apply tf_bind; [apply tf_fr, fr_peek|]. intro k. destruct k; first [apply tf_parse_step | apply tf_fr, fr_parse_text_block].
  Qed.
  Lemma tf_parse_block old : tf (parse_block cfg old).
  Proof.
    unfold parse_block. apply tf_bind; [apply tf_fr, fr_peek|]. intro k.
    apply tf_bind.
    - destruct k; try (apply tf_fr, fr_ret).
      + apply tf_fr, fr_with_recover, fr_obindM; [apply fr_metadata_entry|]. intro ev. fr_auto.
      + apply tf_fr, fr_with_recover, fr_section_p.
    - intros [ev|]; [apply tf_event | apply tf_parse_multiline_block].
  Qed.
End TF.

Section Trail.
  Variable src1 src2 : str.
  Variable D1 D2 : list tok.
  Variable cfg : pcfg.
  Hypothesis HD1 : segx src1 D1.
  Hypothesis HD2 : segx src2 D2.

  (* the sources of two component events: related runs of the two documents' tokens *)
  Definition crelW (e1 e2 : pevent) : Prop :=
    exists sp1 sp2 c1 c2, comp_span e1 = Some sp1 /\ comp_span e2 = Some sp2 /\ wrun c1 c2 /\ tx c1 <> [] /\ sr D1 c1 /\ sr D2 c2
      /\ Analysis.byte_slice src1 sp1 = Some (concat (map tstr c1))
      /\ Analysis.byte_slice src2 sp2 = Some (concat (map tstr c2)).

  Definition CW (l1 l2 : list pevent) : Prop := Forall2 crelW (compsW l1) (compsW l2).
  Definition G (s1 s2 : bp) : Prop := tinv D1 s1 /\ tinv D2 s2 /\ CW (b_evs s1) (b_evs s2).

  Lemma G_fr s1 s2 x1 x2 : G s1 s2 -> tfr s1 x1 -> efr s1 x1 -> tfr s2 x2 -> efr s2 x2 -> G x1 x2.
  Proof.
    intros (I1 & I2 & Gc) T1 (es1 & V1 & N1) T2 (es2 & V2 & N2).
    split; [eapply tinv_tfr; eassumption|]. split; [eapply tinv_tfr; eassumption|].
    unfold CW. rewrite V1, V2, !compsW_nc by assumption. exact Gc.
  Qed.

  Lemma tinv_same D x x' : tinv D x -> b_all x' = b_all x -> b_done x' = b_done x -> b_rest x' = b_rest x -> tinv D x'.
  Proof. intros [H1 H2] A B C. split; [rewrite A, B, C; exact H1 | rewrite A; exact H2]. Qed.

  Lemma tinv_step1 D s t r : tinv D s -> b_rest s = t :: r -> tinv D (step1 s t r).
  Proof.
    intros [H1 H2] E. split; [|exact H2]. cbn [step1 b_all b_done b_rest rev]. rewrite H1, E, <- app_assoc. reflexivity.
  Qed.
  Lemma tinv_advance D n : forall s, tinv D s -> tinv D (advance n s).
  Proof.
    induction n as [|n IH]; intros s H; [exact H|]. cbn [advance]. destruct (b_rest s) as [|t r] eqn:E; [exact H|].
    apply IH. exact (tinv_step1 D s t r H E).
  Qed.

  (* G over states that differ from related ones in pushed non-component events only *)
  Lemma G_same s1 s2 x1 x2 :
    G s1 s2 -> tinv D1 x1 -> tinv D2 x2 -> compsW (b_evs x1) = compsW (b_evs s1) -> compsW (b_evs x2) = compsW (b_evs s2) -> G x1 x2.
  Proof. intros (_ & _ & Gc) I1 I2 E1 E2. split; [exact I1|]. split; [exact I2|]. unfold CW. rewrite E1, E2. exact Gc. Qed.

  Lemma HJ_frame_g {A B} (P : bp -> bp -> Prop) (m1 : M A) (m2 : M B) (Q : A -> bp -> B -> bp -> Prop) :
    HJ P m1 m2 Q -> fr m1 -> fr m2 ->
    HJ (fun s1 s2 => P s1 s2 /\ G s1 s2) m1 m2 (fun a s1 b s2 => Q a s1 b s2 /\ G s1 s2).
  Proof.
    intros H F1 F2 s1 s2 [Ps Gs]. specialize (H s1 s2 Ps).
    destruct (m1 s1) as [[a1 x1]|] eqn:E1; [|exact I]. destruct (m2 s2) as [[a2 x2]|] eqn:E2; [|exact I].
    split; [exact H|]. destruct (F1 _ _ _ E1) as [T1 V1]. destruct (F2 _ _ _ E2) as [T2 V2].
    exact (G_fr _ _ _ _ Gs T1 V1 T2 V2).
  Qed.

  (* ---------------------------------------------------------------- a component attempt *)
  Lemma is_comp_span e : is_comp e = true -> exists sp, comp_span e = Some sp /\ event_span e = Some sp.
  Proof. destruct e; cbn; intro H; try discriminate H; eexists; split; reflexivity. Qed.

  Lemma compW (p : M (option pevent)) s1 s2 o1 y1 o2 y2 :
    fr p -> (forall s, pc p s (comp_res s)) -> (forall s, pc p s (comp_sol s)) ->
    G s1 s2 -> W (b_rest s1) (b_rest s2) ->
    with_recover p s1 = Done (o1, y1) -> with_recover p s2 = Done (o2, y2) ->
    W (b_rest y1) (b_rest y2) ->
    G y1 y2 /\ (forall e1 e2, o1 = Some e1 -> o2 = Some e2 -> is_comp e1 = true -> is_comp e2 = true -> crelW e1 e2).
  Proof.
    intros HF HR HS Gs W0 E1 E2 W1.
    destruct (fr_with_recover p HF _ _ _ E1) as [T1 V1]. destruct (fr_with_recover p HF _ _ _ E2) as [T2 V2].
    split; [exact (G_fr _ _ _ _ Gs T1 V1 T2 V2)|]. intros e1 e2 -> -> C1 C2.
    unfold with_recover in E1, E2.
    destruct (p s1) as [[[x1|] z1]|] eqn:P1; inversion E1; subst x1 z1. clear E1.
    destruct (p s2) as [[[x2|] z2]|] eqn:P2; inversion E2; subst x2 z2. clear E2.
    destruct (HR s1 _ _ P1) as [[[c1 F1] _] Sp1]. destruct (HR s2 _ _ P2) as [[[c2 F2] _] Sp2].
    destruct (comp_sol_run _ _ _ c1 (HS s1 _ _ P1) ltac:(discriminate) F1) as (c10 & t1 & -> & St1).
    destruct (comp_sol_run _ _ _ c2 (HS s2 _ _ P2) ltac:(discriminate) F2) as (c20 & t2 & -> & St2).
    destruct Gs as (I1 & I2 & _).
    destruct (is_comp_span e1 C1) as (sp1 & K1 & V1'). rewrite V1' in Sp1. injection Sp1 as ->.
    destruct (is_comp_span e2 C2) as (sp2 & K2 & V2'). rewrite V2' in Sp2. injection Sp2 as ->.
    eexists _, _, (c10 ++ [t1]), (c20 ++ [t2]). split; [exact K1|]. split; [exact K2|]. split; [|split; [|split; [|split; [|split]]]].
    - pose proof F1 as (_ & R1 & _). pose proof F2 as (_ & R2 & _). rewrite R1, R2 in W0.
      exact (consumed_wrun _ _ _ _ _ _ W0 W1 St1 St2).
    - pose proof (seg_Forall _ _ _ _ (tinv_seg cfg src1 D1 s1 _ y1 HD1 I1 F1)) as Ft.
      apply Forall_app in Ft as [_ Ft]. inversion Ft as [|? ? (_ & Nt & _) _]; subst.
      unfold tx. rewrite filter_app, map_app, concat_app. cbn [filter].
      assert (Ct : not_comment t1 = true).
      { unfold solid in St1. unfold not_comment. destruct (kind t1); try discriminate St1; reflexivity. }
      rewrite Ct. cbn [map concat]. rewrite app_nil_r. intro X. apply app_eq_nil in X as [_ X]. contradiction.
    - exact (tinv_sr D1 s1 _ y1 I1 F1).
    - exact (tinv_sr D2 s2 _ y2 I2 F2).
    - apply seg_slice. exact (tinv_seg cfg src1 D1 s1 _ y1 HD1 I1 F1).
    - apply seg_slice. exact (tinv_seg cfg src2 D2 s2 _ y2 HD2 I2 F2).
  Qed.

  (* ---------------------------------------------------------------- the step loop, with the ghost *)
  Notation PG P := (fun s1 s2 => P s1 s2 /\ G s1 s2).
  Definition Qg : unit -> bp -> unit -> bp -> Prop := fun _ s1 _ s2 => SwF s1 s2 /\ G s1 s2.

  Lemma erel_is_comp e1 e2 : erel e1 e2 -> is_comp e1 = is_comp e2.
  Proof. unfold erel. destruct e1, e2; cbn; intro H; try discriminate H; reflexivity. Qed.

  Lemma G_push_text x1 x2 t1 t2 : G x1 x2 ->
    G {| b_all := b_all x1; b_done := b_done x1; b_rest := b_rest x1; b_evs := EvText t1 :: b_evs x1 |}
      {| b_all := b_all x2; b_done := b_done x2; b_rest := b_rest x2; b_evs := EvText t2 :: b_evs x2 |}.
  Proof. intros (I1 & I2 & Gc). split; [exact I1|]. split; [exact I2 | exact Gc]. Qed.
  Lemma G_push_text_r x1 x2 t2 : G x1 x2 ->
    G x1 {| b_all := b_all x2; b_done := b_done x2; b_rest := b_rest x2; b_evs := EvText t2 :: b_evs x2 |}.
  Proof. intros (I1 & I2 & Gc). split; [exact I1|]. split; [exact I2 | exact Gc]. Qed.

  Lemma WJ_text_run_g {A B} l1 l2 v1 v2 (K1 : tok -> list tok -> M A) (K2 : tok -> list tok -> M B) (Q : A -> bp -> B -> bp -> Prop) :
    l1 <> [] -> W l1 l2 ->
    (forall a m1 b m2, Wi (a :: m1) (b :: m2) ->
       HJ (PG (Sw (fun r1 r2 => W r1 r2 /\ all_empty r1 = false))) (K1 a m1) (K2 b m2) Q) ->
    (forall a m1 b m2, a :: m1 = l1 -> b :: m2 = l2 ->
       HJ (PG (fun s1 s2 => Sw (fun r1 r2 => r1 = [] /\ r2 = []) s1 s2 /\ b_evs s1 = v1 /\ b_evs s2 = v2)) (K1 a m1) (K2 b m2) Q) ->
    HJ (PG (fun s1 s2 => Sw W s1 s2 /\ b_rest s1 = l1 /\ b_rest s2 = l2 /\ b_evs s1 = v1 /\ b_evs s2 = v2))
       (t0 <- bump_any ;; more <- consume_while (fun k => negb (is_marker k)) ;; K1 t0 more)
       (t0 <- bump_any ;; more <- consume_while (fun k => negb (is_marker k)) ;; K2 t0 more) Q.
  Proof.
    intros N1 Hl HS HF s1 s2 ((St & E1 & E2 & V1 & V2) & Gs). unfold bind. rewrite !bump_any_step, E1, E2.
    destruct l1 as [|a q1]; [contradiction N1; reflexivity|].
    pose proof (wsimb_ne _ _ _ Hl ltac:(discriminate)) as N2. destruct l2 as [|b q2]; [contradiction N2; reflexivity|].
    cbv beta iota. rewrite !consume_while_cwc. cbn [step1 b_rest]. fold nm.
    assert (Sx : forall (T' : list tok -> list tok -> Prop) n1 n2, T' (skipn n1 q1) (skipn n2 q2) ->
               Sw T' (advance n1 (step1 s1 a q1)) (advance n2 (step1 s2 b q2))).
    { intros T' n1 n2 H. destruct St as (_ & Sa & Se). unfold Sw. rewrite !advance_rest, !advance_all, !advance_evs.
      cbn [step1 b_rest b_all b_evs]. split; [exact H | split; assumption]. }
    assert (GX : forall n1 n2, G (advance n1 (step1 s1 a q1)) (advance n2 (step1 s2 b q2))).
    { intros n1 n2. destruct Gs as (I1 & I2 & Gc).
      split; [apply tinv_advance, tinv_step1; assumption|]. split; [apply tinv_advance, tinv_step1; assumption|].
      unfold CW. rewrite !advance_evs. cbn [step1 b_evs]. exact Gc. }
    assert (ME : forall t q, is_marker (kind t) = true -> all_empty (t :: q) = false).
    { intros t q Ht. unfold all_empty. cbn [forallb]. destruct (kind t); try discriminate Ht; reflexivity. }
    destruct (nm (kind a)) eqn:Na.
    - pose proof (wsimb_kind_nm _ _ _ _ _ Hl Na) as Nb.
      pose proof (wsimb_run nm true _ _ eq_refl eq_refl Hl) as X. rewrite !cwc_cons, Na, Nb in X. cbn [firstn skipn] in X.
      destruct X as [[X1 X2] | (X1 & X2 & X3)].
      + apply (HS _ _ _ _ X1). split; [|apply GX]. apply Sx. split; [exact (synced_W _ _ _ _ X2)|].
        destruct X2 as (t & t' & r1 & r2 & -> & _ & _ & Ft & _). apply ME. unfold nm in Ft. rewrite negb_involutive in Ft. exact Ft.
      + assert (F1 : firstn (cwc nm q1) q1 = q1).
        { pose proof (firstn_skipn (cwc nm q1) q1) as Z. rewrite X2, app_nil_r in Z. exact Z. }
        assert (F2 : firstn (cwc nm q2) q2 = q2).
        { pose proof (firstn_skipn (cwc nm q2) q2) as Z. rewrite X3, app_nil_r in Z. exact Z. }
        rewrite F1, F2. apply (HF _ _ _ _ eq_refl eq_refl). split; [|apply GX]. split; [apply Sx; split; assumption|].
        rewrite !advance_evs. cbn [step1 b_evs]. split; assumption.
    - assert (Ka : kcl (kind a) <> None).
      { unfold nm in Na. apply negb_false_iff in Na. destruct (kind a); try discriminate Na; discriminate. }
      destruct (wsimb_head_inv _ _ _ _ Hl Ka) as (b' & q2' & Eb & Hab & Ho & Hq). inversion Eb; subst b' q2'.
      pose proof (wsimb_run nm true _ _ eq_refl eq_refl Hq) as X.
      destruct X as [[X1 X2] | (X1 & X2 & X3)].
      + assert (Wa : Wi (a :: firstn (cwc nm q1) q1) (b :: firstn (cwc nm q2) q2)).
        { apply w_cons; [exact Hab | | exact X1]. destruct Ho as [Ho | [-> ->]]; [left; exact Ho | right; split; reflexivity]. }
        apply (HS _ _ _ _ Wa). split; [|apply GX]. apply Sx. split; [exact (synced_W _ _ _ _ X2)|].
        destruct X2 as (t & t' & r1 & r2 & -> & _ & _ & Ft & _). apply ME. unfold nm in Ft. rewrite negb_involutive in Ft. exact Ft.
      + assert (F1 : firstn (cwc nm q1) q1 = q1).
        { pose proof (firstn_skipn (cwc nm q1) q1) as Z. rewrite X2, app_nil_r in Z. exact Z. }
        assert (F2 : firstn (cwc nm q2) q2 = q2).
        { pose proof (firstn_skipn (cwc nm q2) q2) as Z. rewrite X3, app_nil_r in Z. exact Z. }
        rewrite F1, F2. apply (HF _ _ _ _ eq_refl eq_refl). split; [|apply GX]. split; [apply Sx; split; assumption|].
        rewrite !advance_evs. cbn [step1 b_evs]. split; assumption.
  Qed.

  Lemma sl_both_end_g f1 f2 y1 y2 : b_rest y1 = [] -> b_rest y2 = [] -> SwF y1 y2 -> G y1 y2 ->
    match step_loop cfg f1 y1, step_loop cfg f2 y2 with
    | Done (_, s1'), Done (_, s2') => SwF s1' s2' /\ G s1' s2' | _, _ => True end.
  Proof.
    intros Y1 Y2 Sy Gy. pose proof (sl_end cfg f1 y1 Y1) as X1. pose proof (sl_end cfg f2 y2 Y2) as X2.
    destruct (step_loop cfg f1 y1) as [[u1 y1']|]; [|exact I]. destruct (step_loop cfg f2 y2) as [[u2 y2']|]; [|exact I].
    subst. split; assumption.
  Qed.

  Section LoopG.
    Variables f1 f2 : nat.
    Hypothesis LOOP : HJ (PG SI) (step_loop cfg f1) (step_loop cfg f2) Qg.
    Variables (a : tok) (r1 : list tok) (b : tok) (r2 : list tok).

    Lemma sl_text_g :
      HJ (PG (fun s1 s2 => Sw W s1 s2 /\ b_rest s1 = a :: r1 /\ b_rest s2 = b :: r2
                          /\ (all_empty (a :: r1) = true -> top_comp (b_evs s1) (b_evs s2))))
         (sl_text cfg f1) (sl_text cfg f2) Qg.
    Proof.
      intros s1 s2 ((St & E1 & E2 & Ht) & Gs). unfold sl_text. unfold bind at 1. unfold bind at 6. unfold current_offset. cbv beta iota.
      pose proof St as (Hr & _). rewrite E1, E2 in Hr.
      apply (WJ_text_run_g (a :: r1) (b :: r2) (b_evs s1) (b_evs s2)
               (fun t0 more => t <- textM cfg (current_offset_of s1) (t0 :: more) ;;
                               (match frags t with [] => ret tt | _ => event (EvText t) end) ;;; step_loop cfg f1)
               (fun t0 more => t <- textM cfg (current_offset_of s2) (t0 :: more) ;;
                               (match frags t with [] => ret tt | _ => event (EvText t) end) ;;; step_loop cfg f2)
               Qg); [discriminate | exact Hr | | | split; [split; [exact St | split; [exact E1 | split; [exact E2 | split; reflexivity]]] | exact Gs]].
      - intros a0 m1 b0 m2 Hm.
        eapply HJ_bind; [apply HJ_frame_g; [apply (WN_textM cfg false _ _ _ _ Hm) | apply fr_textM | apply fr_textM]|].
        intros t1 t2 x1 x2 [[Htx Sx] Gx].
        assert (PGx : PG (Sw (fun l1 l2 => W l1 l2 /\ all_empty l1 = false)) x1 x2) by (split; assumption).
        clear Sx Gx. revert x1 x2 PGx.
        eapply HJ_bind with (Q := fun _ x1 _ x2 => Sw (fun l1 l2 => W l1 l2 /\ all_empty l1 = false) x1 x2 /\ G x1 x2).
        { pose proof Htx as (Hs & _ & Hf). specialize (Hf eq_refl).
          destruct (frags t1) eqn:F1, (frags t2) eqn:F2.
          - intros x1 x2 Sx. cbn. exact Sx.
          - exfalso. destruct Hf as [Hf _]. specialize (Hf eq_refl). discriminate.
          - exfalso. destruct Hf as [_ Hf]. specialize (Hf eq_refl). discriminate.
          - intros x1 x2 [(Xr & Xa & Xe) Gx]. cbn. split; [|apply G_push_text; exact Gx].
            split; [exact Xr|]. split; [exact Xa|]. cbn. apply evw_text; assumption. }
        intros _ _ x1 x2 [Sx Gx]. apply LOOP. split; [|exact Gx].
        destruct Sx as ((Xr & Xn) & Xa & Xe). split; [split; [exact Xr | split; assumption]|].
        intros Y. rewrite Y in Xn. discriminate.
      - intros a0 m1 b0 m2 Ea Eb.
        assert (Hm : W (a0 :: m1) (b0 :: m2)) by (rewrite Ea, Eb; exact Hr).
        intros x1 x2 ((Sx & V1 & V2) & Gx). unfold bind at 1. unfold bind at 3. unfold textM, lift.
        pose proof (wsimb_text cfg true (current_offset_of s1) (current_offset_of s2) _ _ Hm) as Htx. unfold OR in Htx.
        destruct (text_of cfg (current_offset_of s1) (a0 :: m1)) as [t1|] eqn:T1; [|exact I].
        destruct (text_of cfg (current_offset_of s2) (b0 :: m2)) as [t2|] eqn:T2.
        2:{ cbv beta iota. unfold bind. destruct (match frags t1 with [] => ret tt | _ :: _ => event (EvText t1) end x1) as [[? ?]|]; [|exact I].
            match goal with |- match ?z with _ => _ end => destruct z as [[? ?]|]; exact I end. }
        cbv beta iota. destruct Sx as ((R1 & R2) & Xa & Xe). destruct Htx as (Hs & _ & _).
        pose proof (frags_str cfg _ _ _ T1) as Z1. pose proof (frags_str cfg _ _ _ T2) as Z2.
        unfold bind.
        destruct (frags t1) as [|fr1 fq1] eqn:F1, (frags t2) as [|fr2 fq2] eqn:F2; cbn [ret event].
        + apply sl_both_end_g; [exact R1 | exact R2 | | exact Gx].
          split; [rewrite R1, R2; constructor|]. split; [exact Xa | apply evfin_same; exact Xe].
        + apply sl_both_end_g; [exact R1 | exact R2 | | apply G_push_text_r; exact Gx].
          split; [cbn; rewrite R1, R2; constructor|]. split; [exact Xa|]. cbn [b_evs].
          assert (S1 : text_str t1 = []) by (apply Z1; reflexivity). rewrite S1 in Hs.
          destruct (spins_nil_l _ _ Hs) as [B2 _].
          assert (AE : all_empty (a :: r1) = true).
          { rewrite <- Ea. apply (wsimb_render_empty true _ _ Hm).
            - rewrite <- (text_of_render _ _ _ _ (wsimb_ne_l _ _ _ Hm) T1). exact S1.
            - rewrite <- (text_of_render _ _ _ _ (wsimb_ne_r _ _ _ Hm) T2). intro Y. apply Z2 in Y. discriminate. }
          rewrite V1, V2. destruct (Ht AE) as (c1 & c2 & q1 & q2 & -> & -> & Hc & He & Hq). apply evfin_blank; assumption.
        + exfalso. assert (S2 : text_str t2 = []) by (apply Z2; reflexivity). rewrite S2 in Hs. apply spins_nil_r in Hs.
          apply Z1 in Hs. discriminate.
        + apply sl_both_end_g; [exact R1 | exact R2 | | apply G_push_text; exact Gx].
          split; [cbn; rewrite R1, R2; constructor|]. split; [exact Xa|]. cbn [b_evs].
          apply evfin_text; [exact Hs | | exact Xe]. intro Y. apply Z1 in Y. discriminate.
    Qed.

    Lemma sl_comp_g (p : M (option pevent)) :
      WL W (orel EditTrailStep.crel) p p W -> fr p -> (forall s, pc p s (comp_res s)) -> (forall s, pc p s (comp_sol s)) ->
      all_empty (a :: r1) = false ->
      HJ (PG (fun s1 s2 => Sw W s1 s2 /\ b_rest s1 = a :: r1 /\ b_rest s2 = b :: r2))
         (comp <- with_recover p ;; sl_k cfg f1 comp) (comp <- with_recover p ;; sl_k cfg f2 comp) Qg.
    Proof.
      intros Hp HF HR HS Hne s1 s2 ((St & E1 & E2) & Gs).
      pose proof (WJ_with_recover_keep W EditTrailStep.crel p p s1 s2 Hp (fun _ _ X => X) s1 s2 (conj St (conj eq_refl eq_refl))) as X.
      unfold bind.
      destruct (with_recover p s1) as [[o1 y1]|] eqn:R1; [|exact I].
      destruct (with_recover p s2) as [[o2 y2]|] eqn:R2; [|destruct (sl_k cfg f1 o1 y1) as [[? ?]|]; exact I].
      destruct X as (Xo & Xs & Xk).
      destruct (compW p s1 s2 o1 y1 o2 y2 HF HR HS Gs (proj1 St) R1 R2 (proj1 Xs)) as [Gy Hc].
      destruct o1 as [e1|], o2 as [e2|]; cbn [orel] in Xo; try contradiction; unfold sl_k.
      - destruct Xo as [He Hcomp]. unfold bind. cbn [event]. apply LOOP. destruct Xs as (Xr & Xa & Xe).
        assert (C2 : is_comp e2 = true) by (rewrite <- (erel_is_comp _ _ He); exact Hcomp).
        split.
        + split; [split; [exact Xr | split; [exact Xa | cbn; apply evw_cons; assumption]]|].
          intros _ _. cbn [b_evs]. exists e1, e2, (b_evs y1), (b_evs y2). repeat split; assumption.
        + destruct Gy as (I1 & I2 & Gc). split; [exact I1|]. split; [exact I2|].
          unfold CW. cbn [b_evs compsW filter]. rewrite Hcomp, C2. constructor; [exact (Hc e1 e2 eq_refl eq_refl Hcomp C2) | exact Gc].
      - destruct (Xk eq_refl) as (Y1 & Y2 & _). apply sl_text_g. split; [|exact Gy]. split; [exact Xs|]. split; [rewrite Y1; exact E1|].
        split; [rewrite Y2; exact E2|]. intro Y. rewrite Y in Hne. discriminate.
    Qed.
  End LoopG.

  Lemma step_loop_g : forall f1 f2, HJ (PG SI) (step_loop cfg f1) (step_loop cfg f2) Qg.
  Proof.
    induction f1 as [|f1 IH]; intro f2; [apply HJ_panic_l|]. destruct f2 as [|f2]; [apply HJ_panic_r|].
    intros s1 s2 [[St Ht] Gs]. pose proof St as (Hr & Sa & Se). unfold Qg.
    destruct (b_rest s1) as [|a r1] eqn:E1.
    { pose proof (sl_end cfg (S f1) s1 E1) as X1. destruct (step_loop cfg (S f1) s1) as [[u1 s1']|]; [|exact I]. subst s1'.
      destruct (b_rest s2) as [|b r2] eqn:E2.
      - pose proof (sl_end cfg (S f2) s2 E2) as X2. destruct (step_loop cfg (S f2) s2) as [[u2 s2']|]; [|exact I]. subst s2'.
        split; [apply Sw_SwF; exact St | exact Gs].
      - pose proof (sl_gap_round cfg f2 s2 (b :: r2) E2 ltac:(discriminate) (wsimb_nil_gtok _ _ Hr)) as X2.
        destruct (step_loop cfg (S f2) s2) as [[u2 s2']|] eqn:L2; [|exact I]. destruct X2 as (R2 & A2 & V2).
        split.
        + split; [rewrite E1, R2; constructor|]. split; [rewrite A2; exact Sa|].
          destruct V2 as [V2 | (t & V2 & Bt)]; rewrite V2; [apply evfin_same; exact Se|].
          destruct (Ht eq_refl ltac:(discriminate)) as (c1 & c2 & q1 & q2 & -> & -> & Hc & He & Hq).
          apply evfin_blank; assumption.
        + destruct Gs as (I1 & I2 & Gc). split; [exact I1|]. split; [exact (tinv_tfr _ _ _ I2 (tf_step_loop cfg _ _ _ _ L2))|].
          unfold CW. destruct V2 as [V2 | (t & V2 & _)]; rewrite V2; exact Gc. }
    assert (N2 : b_rest s2 <> []) by (apply (wsimb_ne _ _ _ Hr); discriminate).
    destruct (b_rest s2) as [|b r2] eqn:E2; [contradiction N2; reflexivity|].
    rewrite (sl_unfold cfg f1 s1 a r1 E1), (sl_unfold cfg f2 s2 b r2 E2).
    pose proof (wsimb_hd _ _ _ Hr) as Hk. cbn [hdk] in Hk.
    assert (TX : is_marker (kind a) = false -> is_marker (kind b) = false ->
                 match (comp <- sl_sel cfg (kind a) ;; sl_k cfg f1 comp) s1, (comp <- sl_sel cfg (kind b) ;; sl_k cfg f2 comp) s2 with
                 | Done (_, s1'), Done (_, s2') => SwF s1' s2' /\ G s1' s2' | _, _ => True end).
    { intros Ma Mb. rewrite (sl_sel_none cfg _ Ma), (sl_sel_none cfg _ Mb), !bind_ret_none. unfold sl_k.
      apply (sl_text_g f1 f2 (IH f2) a r1 b r2 s1 s2). split; [|exact Gs]. split; [exact St|]. split; [exact E1|]. split; [exact E2|].
      intro Y. apply Ht; [exact Y | discriminate]. }
    destruct (kcl_cases _ _ Hk) as [[Ek Kn] | [K1 K2]].
    - rewrite <- Ek in *. destruct (is_marker (kind a)) eqn:Ma; [|apply TX; reflexivity].
      assert (Hne : all_empty (a :: r1) = false).
      { unfold all_empty. cbn [forallb]. destruct (kind a); try discriminate Ma; reflexivity. }
      destruct (kind a) eqn:Ka; try discriminate Ma; cbn [sl_sel].
      + apply (sl_comp_g f1 f2 (IH f2) a r1 b r2 _ (ingredient_w cfg) (fr_ingredient_p cfg)
                 (fun s => ingredient_p_fr cfg s (comp_res s) (fun o s' H => H)) (ingredient_sol cfg) Hne).
        split; [split; [exact St | split; assumption] | exact Gs].
      + apply (sl_comp_g f1 f2 (IH f2) a r1 b r2 _ (cookware_w cfg) (fr_cookware_p cfg)
                 (fun s => cookware_p_fr cfg s (comp_res s) (fun o s' H => H)) (cookware_sol cfg) Hne).
        split; [split; [exact St | split; assumption] | exact Gs].
      + apply (sl_comp_g f1 f2 (IH f2) a r1 b r2 _ (timer_w cfg) (fr_timer_p cfg)
                 (fun s => timer_p_fr cfg s (comp_res s) (fun o s' H => H)) (timer_sol cfg) Hne).
        split; [split; [exact St | split; assumption] | exact Gs].
    - apply TX; [destruct (kind a); try discriminate K1; reflexivity | destruct (kind b); try discriminate K2; reflexivity].
  Qed.

  (* ---------------------------------------------------------------- blocks *)
  Notation SG := (fun (_ : unit) s1 (_ : unit) s2 => Sw W s1 s2 /\ G s1 s2).

  Lemma parse_step_g :
    HJ (PG (fun s1 s2 => Sw W s1 s2 /\ all_empty (b_rest s1) = false)) (parse_step cfg) (parse_step cfg) SG.
  Proof.
    intros s1 s2 [[St Hne] Gs]. unfold parse_step. unfold bind, event, rest. cbv beta iota.
    set (y1 := {| b_all := b_all s1; b_done := b_done s1; b_rest := b_rest s1; b_evs := EvStart true :: b_evs s1 |}).
    set (y2 := {| b_all := b_all s2; b_done := b_done s2; b_rest := b_rest s2; b_evs := EvStart true :: b_evs s2 |}).
    assert (Sy : SI y1 y2).
    { destruct St as (Hr & Ha & He). split; [split; [exact Hr | split; [exact Ha | cbn; apply evw_cons; [reflexivity | exact He]]]|].
      cbn [y1 b_rest]. intro Y. rewrite Y in Hne. discriminate. }
    assert (Gy : G y1 y2). { destruct Gs as (I1 & I2 & Gc). split; [exact I1|]. split; [exact I2 | exact Gc]. }
    pose proof (step_loop_g (S (length (b_rest y1))) (S (length (b_rest y2))) y1 y2 (conj Sy Gy)) as X.
    destruct (step_loop cfg (S (length (b_rest y1))) y1) as [[u1 z1]|]; [|exact I].
    destruct (step_loop cfg (S (length (b_rest y2))) y2) as [[u2 z2]|]; [|exact I].
    destruct X as [(Hr & Ha & He) (J1 & J2 & Gc)]. split.
    - split; [exact Hr|]. split; [exact Ha|]. cbn. apply evfin_end. exact He.
    - split; [exact J1|]. split; [exact J2 | exact Gc].
  Qed.

  Lemma parse_multiline_block_g :
    HJ (PG (fun s1 s2 => Sw W s1 s2 /\ b_rest s1 = b_all s1)) (parse_multiline_block cfg) (parse_multiline_block cfg) SG.
  Proof.
    intros s1 s2 [[St Ea] Gs]. unfold parse_multiline_block. unfold bind at 1. unfold bind at 3. unfold all_tokens. cbv beta iota.
    pose proof St as (Hr & Ha & He). rewrite <- (ballr_empty _ _ Ha).
    destruct (forallb (fun t => is_empty_tok (kind t)) (b_all s1)) eqn:Em.
    - pose proof (WL_consume_rest s1 s2 St) as X. unfold bind.
      destruct (consume_rest s1) as [[l1 z1]|] eqn:C1; [|exact I]. destruct (consume_rest s2) as [[l2 z2]|] eqn:C2; [|exact I].
      cbn. split; [exact (proj2 X)|].
      destruct (fr_consume_while _ _ _ _ C1) as [T1 V1]. destruct (fr_consume_while _ _ _ _ C2) as [T2 V2].
      exact (G_fr _ _ _ _ Gs T1 V1 T2 V2).
    - unfold bind. unfold peek. cbv beta iota. rewrite !peek_of_hdk.
      pose proof (wsimb_hd _ _ _ Hr) as Hk.
      assert (STEP : match parse_step cfg s1, parse_step cfg s2 with
                     | Done (_, z1), Done (_, z2) => Sw W z1 z2 /\ G z1 z2 | _, _ => True end).
      { apply parse_step_g. split; [|exact Gs]. split; [exact St|]. unfold all_empty. rewrite Ea. exact Em. }
      pose proof (HJ_frame_g _ _ _ _ (parse_text_block_w cfg) (fr_parse_text_block cfg) (fr_parse_text_block cfg) s1 s2 (conj St Gs)) as TB.
      destruct (kcl_cases _ _ Hk) as [[Ek Kn] | [K1 K2]].
      + rewrite <- Ek. destruct (hdk (b_rest s1)); try exact STEP. exact TB.
      + destruct (hdk (b_rest s1)); try discriminate K1; destruct (hdk (b_rest s2)); try discriminate K2; exact STEP.
  Qed.

  Lemma parse_block_g old :
    HJ (PG (fun s1 s2 => Sw W s1 s2 /\ b_rest s1 = b_all s1 /\ (hdk (b_all s1) = KMeta -> no_nl (b_all s1))))
       (parse_block cfg old) (parse_block cfg old) SG.
  Proof.
    intros s1 s2 [(St & Ea & Hn) Gs]. unfold parse_block. unfold bind at 1. unfold bind at 3. unfold peek. cbv beta iota.
    rewrite !peek_of_hdk. pose proof St as (Hr & Ha & He). pose proof (wsimb_hd _ _ _ Hr) as Hk.
    set (sel := fun k : tkind =>
                  match k with
                  | KMeta => with_recover (ev <-? metadata_entry cfg ;;
                                           match ev with
                                           | EvMetadata key _ => if meta_kept cfg old key then ret (Some ev) else ret None
                                           | _ => ret (Some ev)
                                           end)
                  | KEq => with_recover (section_p cfg)
                  | _ => ret None
                  end).
    set (kk := fun mos : option pevent => match mos with Some ev => event ev | None => parse_multiline_block cfg end).
    change (match (mos <- sel (hdk (b_rest s1)) ;; kk mos) s1, (mos <- sel (hdk (b_rest s2)) ;; kk mos) s2 with
            | Done (_, z1), Done (_, z2) => Sw W z1 z2 /\ G z1 z2 | _, _ => True end).
    assert (ML : match parse_multiline_block cfg s1, parse_multiline_block cfg s2 with
                 | Done (_, z1), Done (_, z2) => Sw W z1 z2 /\ G z1 z2 | _, _ => True end).
    { apply parse_multiline_block_g. split; [split; assumption | exact Gs]. }
    assert (KK : forall (T : list tok -> list tok -> Prop) (m1 m2 : M (option pevent)),
               WL T (orel erel) m1 m2 W -> (forall l1 l2, T l1 l2 -> W l1 l2) -> Sw T s1 s2 ->
               fr m1 -> fr m2 -> retk onc (with_recover m1) -> retk onc (with_recover m2) ->
               match (mos <- with_recover m1 ;; kk mos) s1, (mos <- with_recover m2 ;; kk mos) s2 with
               | Done (_, z1), Done (_, z2) => Sw W z1 z2 /\ G z1 z2 | _, _ => True end).
    { intros T m1 m2 Hm HT S0 F1 F2 Q1 Q2.
      pose proof (WJ_with_recover_keep T erel m1 m2 s1 s2 Hm HT s1 s2 (conj S0 (conj eq_refl eq_refl))) as X.
      unfold bind.
      destruct (with_recover m1 s1) as [[o1 y1]|] eqn:R1; [|exact I].
      destruct (with_recover m2 s2) as [[o2 y2]|] eqn:R2; [|destruct (kk o1 y1) as [[? ?]|]; exact I].
      destruct X as (Xo & Xs & Xk).
      destruct (fr_with_recover m1 F1 _ _ _ R1) as [T1 V1]. destruct (fr_with_recover m2 F2 _ _ _ R2) as [T2 V2].
      pose proof (G_fr _ _ _ _ Gs T1 V1 T2 V2) as Gy.
      destruct o1 as [e1|], o2 as [e2|]; cbn [orel] in Xo; try contradiction; unfold kk.
      - pose proof (Q1 _ _ _ R1) as N1. pose proof (Q2 _ _ _ R2) as N2. cbn [onc] in N1, N2.
        cbn. destruct Xs as (Xr & Xa & Xe). split; [split; [exact Xr|]; split; [exact Xa|]; cbn; apply evw_cons; assumption|].
        destruct Gy as (I1 & I2 & Gc). split; [exact I1|]. split; [exact I2|]. unfold CW. cbn [b_evs compsW filter].
        rewrite (noncomp_is_comp _ N1), (noncomp_is_comp _ N2). exact Gc.
      - destruct (Xk eq_refl) as (Y1 & Y2 & Y3 & Y4). apply parse_multiline_block_g. split; [|exact Gy]. split; [exact Xs|].
        rewrite Y1, Y3. exact Ea. }
    destruct (kcl_cases _ _ Hk) as [[Ek Kn] | [K1 K2]].
    - rewrite <- Ek. destruct (hdk (b_rest s1)) eqn:Kh; try (unfold sel; rewrite !bind_ret_none; exact ML).
      + unfold sel. apply (KK Wn).
        * eapply WL_obindM; [apply metadata_entry_w | | auto].
          intros e1 e2 Hm. destruct e1, e2; cbn in Hm; try contradiction.
          destruct Hm as [Hkk Hv]. unfold meta_kept, is_config_key. rewrite (trel_outer _ _ Hkk).
          match goal with |- context [if ?c then _ else _] => destruct c end;
            apply WL_ret; cbn; [|exact I]. apply (mdw_erel (EvMetadata _ _) (EvMetadata _ _)). split; assumption.
        * intros l1 l2 [X _]. exact X.
        * split; [split; [exact Hr|]| split; assumption]. rewrite Ea. apply Hn. rewrite <- Ea. exact Kh.
        * apply fr_obindM; [apply fr_metadata_entry|]. intro ev. fr_auto.
        * apply fr_obindM; [apply fr_metadata_entry|]. intro ev. fr_auto.
        * apply retk_meta_part.
        * apply retk_meta_part.
      + unfold sel. apply (KK W); [apply section_w | auto | exact St | apply fr_section_p | apply fr_section_p
                                  | apply retk_section_part | apply retk_section_part].
    - assert (X1 : sel (hdk (b_rest s1)) = ret None) by (destruct (hdk (b_rest s1)); try discriminate K1; reflexivity).
      assert (X2 : sel (hdk (b_rest s2)) = ret None) by (destruct (hdk (b_rest s2)); try discriminate K2; reflexivity).
      rewrite X1, X2, !bind_ret_none. exact ML.
  Qed.

  Definition evwG (l1 l2 : list pevent) : Prop := evw l1 l2 /\ CW l1 l2.

  Theorem block_g blk1 blk2 evs1 evs2 old :
    W blk1 blk2 -> evwG evs1 evs2 -> sr D1 blk1 -> sr D2 blk2 -> (hdk blk1 = KMeta -> no_nl blk1) ->
    OR evwG (run_block blk1 evs1 (parse_block cfg old)) (run_block blk2 evs2 (parse_block cfg old)).
  Proof.
    intros Hb [He Hc] G1 G2 Hn. unfold run_block.
    destruct blk1 as [|x1 q1]; [exact I|].
    pose proof (wsimb_ne _ _ _ Hb ltac:(discriminate)) as N2. destruct blk2 as [|x2 q2]; [contradiction N2; reflexivity|].
    set (s1 := {| b_all := x1 :: q1; b_done := []; b_rest := x1 :: q1; b_evs := evs1 |}).
    set (s2 := {| b_all := x2 :: q2; b_done := []; b_rest := x2 :: q2; b_evs := evs2 |}).
    assert (S0 : (Sw W s1 s2 /\ b_rest s1 = b_all s1 /\ (hdk (b_all s1) = KMeta -> no_nl (b_all s1))) /\ G s1 s2).
    { split; [split; [split; [exact Hb | split; [exact (wsimb_ballr _ _ _ Hb) | exact He]] | split; [reflexivity | exact Hn]]|].
      split; [split; [reflexivity | exact G1]|]. split; [split; [reflexivity | exact G2] | exact Hc]. }
    pose proof (parse_block_g old s1 s2 S0) as X. unfold OR.
    destruct (parse_block cfg old s1) as [[u1 z1]|]; [|exact I].
    destruct (parse_block cfg old s2) as [[u2 z2]|]; [|destruct (b_rest z1); exact I].
    destruct X as [(Hr & _ & Hev) (_ & _ & Gc)].
    destruct (b_rest z1), (b_rest z2); try exact I. split; assumption.
  Qed.

  Lemma blocks_loop_g f1 : forall f2 ts1 ts2 old evs1 evs2,
    W ts1 ts2 -> sr D1 ts1 -> sr D2 ts2 -> evwG evs1 evs2 ->
    OR evwG (blocks_loop cfg f1 ts1 old evs1) (blocks_loop cfg f2 ts2 old evs2).
  Proof.
    induction f1 as [|f1 IH]; intros f2 ts1 ts2 old evs1 evs2 Ht G1 G2 He; [exact I|].
    destruct f2 as [|f2]; [unfold OR; destruct (blocks_loop cfg (S f1) ts1 old evs1); exact I|].
    cbn [blocks_loop].
    pose proof (next_block_w (S (length ts1)) (S (length ts2)) ts1 ts2 Ht (Nat.lt_succ_diag_r _) (Nat.lt_succ_diag_r _)) as Nb.
    pose proof (next_block_meta_no_nl (S (length ts1)) ts1) as Nm.
    destruct (next_block (S (length ts1)) ts1) as [[b1 q1]|] eqn:N1, (next_block (S (length ts2)) ts2) as [[b2 q2]|] eqn:N2;
      try contradiction; [|exact He].
    destruct Nb as [Hb Hq].
    destruct (next_block_app _ _ _ _ N1) as (p1 & z1 & E1). destruct (next_block_app _ _ _ _ N2) as (p2 & z2 & E2).
    pose proof (sr_mid D1 ts1 p1 b1 (z1 ++ q1) G1 E1) as Gb1.
    pose proof (sr_mid D2 ts2 p2 b2 (z2 ++ q2) G2 E2) as Gb2.
    assert (Gq1 : sr D1 q1). { apply (sr_mid D1 ts1 (p1 ++ b1 ++ z1) q1 [] G1). rewrite E1, app_nil_r, <- !app_assoc. reflexivity. }
    assert (Gq2 : sr D2 q2). { apply (sr_mid D2 ts2 (p2 ++ b2 ++ z2) q2 [] G2). rewrite E2, app_nil_r, <- !app_assoc. reflexivity. }
    pose proof (block_g b1 b2 evs1 evs2 old Hb He Gb1 Gb2 (Nm b1 q1 eq_refl)) as R. unfold OR in R.
    destruct (run_block b1 evs1 (parse_block cfg old)) as [e1|]; cbn [obind]; [|exact I].
    destruct (run_block b2 evs2 (parse_block cfg old)) as [e2|]; cbn [obind].
    - apply IH; assumption.
    - unfold OR. destruct (blocks_loop cfg f1 q1 old e1); exact I.
  Qed.
End Trail.
