(* Property C17, event level, comment insertion: the step-level functions of Model/Parser.v in the
   relational Hoare logic of Proofs/EditInsDefs.v / EditInsPrim.v.  comp_body may leave the two runs
   out of step (after a one-word name); note, check_note and the step loop accept that state; the
   text branch of the step loop brings them back in step.  The functions of Proofs/EditInsFun.v
   enter as section hypotheses. *)
From CL Require Import Base.StrLemmas Model.Lexer Model.PText Model.CommentMask Model.Parser Model.Edits
  Proofs.EditParserProofs Proofs.EditSimDefs Proofs.EditSimComp Proofs.EditSimBlock Proofs.EditInsDefs Proofs.EditInsPrim.

Notation TR := (list tok -> list tok -> Prop).

Definition EV (s1 s2 : bp) : Prop := Forall2 erel (b_evs s1) (b_evs s2).
Lemma St_EV (T : TR) s1 s2 : St T s1 s2 -> EV s1 s2.
Proof. intros (_ & _ & H). exact H. Qed.

(* results of the "component-like" computations: both fail (events related) or both succeed *)
Definition CP {A B} (R : A -> B -> Prop) (T : TR) : option A -> bp -> option B -> bp -> Prop :=
  fun o1 s1 o2 s2 => orel R o1 o2 /\ (o1 <> None -> St T s1 s2) /\ (o1 = None -> EV s1 s2).

Lemma HJ_case_anyR {A B} (Q : A -> bp -> B -> bp -> Prop) (m1 : M A) (m2 : M B) :
  HJ (St jany) m1 m2 Q -> HJ (St stutR) m1 m2 Q -> HJ (St anyR) m1 m2 Q.
Proof. intros H1 H2 s1 s2 S. pose proof S as ([Hr|Hr] & Ha & He); [apply H1 | apply H2]; repeat split; assumption. Qed.

Lemma HJ_jany_elim {A B} (Q : A -> bp -> B -> bp -> Prop) (m1 : M A) (m2 : M B) :
  (forall m, HJ (St (jsim m)) m1 m2 Q) -> HJ (St jany) m1 m2 Q.
Proof. intros H s1 s2 S. destruct S as ([m Hr] & Ha & He). apply (H m). repeat split; assumption. Qed.

Lemma HL_CP {A B} (T T' : TR) (R : A -> B -> Prop) m1 m2 : HL T (orel R) m1 m2 T' -> HJ (St T) m1 m2 (CP R T').
Proof.
  intro H. eapply HJ_conseq; [intros s1 s2 X; exact X | exact H|]. intros o1 s1 o2 s2 [Ho S].
  split; [exact Ho|]. split; intros _; [exact S | exact (St_EV _ _ _ S)].
Qed.

Lemma HJ_obindM_cp {A1 A2 B1 B2} (P : bp -> bp -> Prop) (RA : A1 -> A2 -> Prop) (T1 : TR)
      (m1 : M (option A1)) (m2 : M (option A2)) (f1 : A1 -> M (option B1)) (f2 : A2 -> M (option B2))
      (Q : option B1 -> bp -> option B2 -> bp -> Prop) :
  HJ P m1 m2 (CP RA T1) -> (forall a1 a2, RA a1 a2 -> HJ (St T1) (f1 a1) (f2 a2) Q) ->
  (forall s1 s2, EV s1 s2 -> Q None s1 None s2) -> HJ P (obindM m1 f1) (obindM m2 f2) Q.
Proof.
  intros Hm Hf Hn. unfold obindM. eapply HJ_bind; [exact Hm|].
  intros [a1|] [a2|] s1 s2 (Ho & H1 & H2); cbn in Ho; try contradiction.
  - exact (Hf a1 a2 Ho s1 s2 (H1 ltac:(discriminate))).
  - cbn. apply Hn. apply H2. reflexivity.
Qed.

Lemma CP_none {A B} (R : A -> B -> Prop) (T : TR) s1 s2 : EV s1 s2 -> CP R T (@None A) s1 (@None B) s2.
Proof. intro H. split; [exact I|]. split; [congruence | intros _; exact H]. Qed.

(* a pure fact in the precondition *)
Lemma HJ_pure {A B} (F : Prop) (P : bp -> bp -> Prop) (m1 : M A) (m2 : M B) Q :
  (F -> HJ P m1 m2 Q) -> HJ (fun s1 s2 => F /\ P s1 s2) m1 m2 Q.
Proof. intros H s1 s2 [HF HP]. exact (H HF s1 s2 HP). Qed.

Definition brelj (b1 b2 : body) : Prop :=
  jany (bd_name b1) (bd_name b2) /\ (bd_close b1 = None <-> bd_close b2 = None) /\ orel ksim (bd_qty b1) (bd_qty b2).

Lemma marker_or_open_blind : is_marker_or_open KLineComment = false /\ is_marker_or_open KBlockComment = false
  /\ is_marker_or_open KWs = false.
Proof. repeat split. Qed.

Lemma HJ_cww :
  HJ (St jany) (consume_while is_single_word_tok) (consume_while is_single_word_tok)
     (fun l1 s1 l2 s2 => ksim l1 l2 /\ St anyR s1 s2 /\ (l1 = [] -> St jany s1 s2)).
Proof.
  intros s1 s2 S. pose proof (HJ_consume_while_word s1 s2 S) as W.
  destruct (consume_while is_single_word_tok s1) as [[l1 s1']|] eqn:E1; [|exact I].
  destruct (consume_while is_single_word_tok s2) as [[l2 s2']|] eqn:E2; [|exact I].
  destruct W as [Hl S']. split; [exact Hl|]. split; [exact S'|]. intros ->.
  inversion Hl; subst.
  apply consume_while_inv in E1 as (n1 & _ & X1 & ->). apply consume_while_inv in E2 as (n2 & _ & X2 & ->).
  destruct S as (Hr & Ha & He). repeat split; try (rewrite ?advance_all, ?advance_evs; assumption).
  rewrite !advance_rest.
  assert (Z1 : skipn n1 (b_rest s1) = b_rest s1).
  { destruct n1; [reflexivity|]. destruct (b_rest s1); [reflexivity | discriminate]. }
  assert (Z2 : skipn n2 (b_rest s2) = b_rest s2).
  { destruct n2; [reflexivity|]. destruct (b_rest s2); [reflexivity | discriminate]. }
  rewrite Z1, Z2. exact Hr.
Qed.

(* comp_body: in step before; after a one-word name possibly out of step *)
Lemma comp_body_j :
  HJ (St jany) comp_body comp_body
     (fun o1 s1 o2 s2 => orel brelj o1 o2 /\ (o1 <> None -> St anyR s1 s2) /\ (o1 = None -> St jany s1 s2)).
Proof.
  unfold comp_body. eapply HJ_bind.
  { (* braces form *)
    apply (HL_with_recover jany jany brelj).
    eapply HJ_obindM_cp with (RA := jany) (T1 := jany).
    - apply HL_CP. apply HL_until; reflexivity.
    - intros n1 n2 Hn. apply HJ_jany_elim. intro m.
      eapply HJ_obindM_cp with (RA := krel) (T1 := jsim MIn).
      + eapply HJ_conseq; [intros s1 s2 X; exact X | apply (HJ_consume_m KOpenBrace m); reflexivity |].
        intros o1 s1 o2 s2 [Ho S]. split; [exact Ho|]. split.
        * intros Hne. destruct o1; [exact S | congruence].
        * intros ->. exact (St_EV _ _ _ S).
      + intros ob1 ob2 Hob.
        eapply HJ_obindM_cp with (RA := ksim) (T1 := jany).
        * eapply HJ_conseq; [intros s1 s2 X; exact X | apply (HJ_until_in (fun k => tk_eqb k KCloseBrace)); reflexivity |].
          intros o1 s1 o2 s2 [Ho S]. split; [exact Ho|]. split; intros _; [exact S | exact (St_EV _ _ _ S)].
        * intros q1 q2 Hq. apply HL_CP. eapply HL_bind; [apply HL_bump; reflexivity|].
          intros cb1 cb2 Hcb. apply HL_ret. cbn. split; [exact Hn|]. split; [split; discriminate|].
          rewrite (ksim_existsb_kind (fun k => negb (is_ws_block k)) _ _ Hq).
          destruct (existsb _ q2); cbn; [exact Hq | exact I].
        * intros s1 s2 E. apply CP_none. exact E.
      + intros s1 s2 E. apply CP_none. exact E.
    - intros s1 s2 E. apply CP_none. exact E. }
  intros [b1|] [b2|] s1 s2 (Ho & H1 & H2); cbn in Ho; try contradiction.
  - cbn. split; [exact Ho|]. split; intros X; [|congruence].
    apply (St_mono _ _ _ _ jany_anyR). apply H1. discriminate.
  - (* one-word form *)
    specialize (H2 eq_refl). clear H1 Ho. revert s1 s2 H2.
    change (HJ (St jany)
      (with_recover (ts <- consume_while is_single_word_tok;;
         match ts with
         | [] => r <- rest;; isws <- at_kind KWs;;
                 (match r with [] => ret tt | _ => if isws then ret tt else (co <- current_offset;; warn D_SINGLE_WORD [(co, co)]) end);;;
                 ret None
         | _ => ret (Some {| bd_name := ts; bd_close := None; bd_qty := None |})
         end))
      (with_recover (ts <- consume_while is_single_word_tok;;
         match ts with
         | [] => r <- rest;; isws <- at_kind KWs;;
                 (match r with [] => ret tt | _ => if isws then ret tt else (co <- current_offset;; warn D_SINGLE_WORD [(co, co)]) end);;;
                 ret None
         | _ => ret (Some {| bd_name := ts; bd_close := None; bd_qty := None |})
         end))
      (fun o1 s1 o2 s2 => orel brelj o1 o2 /\ (o1 <> None -> St anyR s1 s2) /\ (o1 = None -> St jany s1 s2))).
    apply (HL_with_recover jany anyR brelj).
    eapply HJ_bind; [apply HJ_cww|].
    intros l1 l2 s1 s2 (Hl & S' & Sj).
    destruct Hl as [|a b r1 r2 Hab Hr].
    + 
      assert (G : HJ (St jany)
                (r <- rest;; isws <- at_kind KWs;;
                 (match r with [] => ret tt | _ => if isws then ret tt else (co <- current_offset;; warn D_SINGLE_WORD [(co, co)]) end);;;
                 ret (@None body))
                (r <- rest;; isws <- at_kind KWs;;
                 (match r with [] => ret tt | _ => if isws then ret tt else (co <- current_offset;; warn D_SINGLE_WORD [(co, co)]) end);;;
                 ret (@None body))
                (CP brelj anyR)).
      { apply HL_CP. eapply HL_bind; [apply HL_rest|]. intros q1 q2 Hq.
        eapply HL_bind; [apply HL_at_kind|]. intros w1 w2 ->.
        eapply HL_bind with (RA := anyrel) (T1 := jany).
        - destruct Hq as [m Hq]. destruct Hq; [apply HL_ret; exact I | | ];
            (destruct w2; [apply HL_ret; exact I|]; eapply HL_bind; [apply HN_of, HN_current_offset|];
             intros; apply HN_of, HN_warn).
        - intros _ _ _ s1' s2' S0. cbn. split; [exact I | exact (St_mono _ _ _ _ jany_anyR S0)]. }
      exact (G s1 s2 (Sj eq_refl)).
    + cbn. split; [|split; [intros _; exact S' | congruence]].
      split; [apply ksim_jany; constructor; assumption|]. split; [tauto | exact I].
Qed.

Lemma HJ_bind_HL {A1 A2 B1 B2} (T T1 : TR) (RA : A1 -> A2 -> Prop) m1 m2 (f1 : A1 -> M B1) (f2 : A2 -> M B2) Q :
  HL T RA m1 m2 T1 -> (forall a1 a2, RA a1 a2 -> HJ (St T1) (f1 a1) (f2 a2) Q) ->
  HJ (St T) (bind m1 f1) (bind m2 f2) Q.
Proof. intros Hm Hf. eapply HJ_bind; [exact Hm|]. intros a1 a2 s1 s2 [Ha S]. exact (Hf a1 a2 Ha s1 s2 S). Qed.

Lemma HJ_consume_anyR k : tk_eqb KWs k = false -> is_comment k = false -> swt k = false ->
  HJ (St anyR) (consume k) (consume k)
     (fun o1 s1 o2 s2 => orel krel o1 o2 /\ (o1 <> None -> St jany s1 s2) /\ (o1 = None -> St anyR s1 s2)).
Proof.
  intros Kw Kc Kk. apply HJ_case_anyR.
  - eapply HJ_conseq; [intros s1 s2 X; exact X | apply (HL_consume k Kk) |].
    intros o1 s1 o2 s2 [Ho S]. split; [exact Ho|]. split; intros _; [exact S | exact (St_mono _ _ _ _ jany_anyR S)].
  - intros s1 s2 S. rewrite !consume_step. pose proof S as ((w & r1 & cm & r2 & E1 & E2 & Hw & Hc & _) & _).
    rewrite E1, E2, Hw, Hc, Kw.
    assert (Z : tk_eqb KBlockComment k = false) by (destruct k; try reflexivity; discriminate).
    rewrite Z. split; [exact I|]. split; [congruence | intros _; apply (St_mono _ _ _ _ (fun l1 l2 H => or_intror H) S)].
Qed.

Section Step.
  Variable cfg : pcfg.
  Hypothesis parse_quantity_j : forall ts1 ts2, ksim ts1 ts2 -> HN (prel qrel anyrel) (parse_quantity cfg ts1) (parse_quantity cfg ts2).
  Hypothesis check_empty_name_j : forall n1 n2, trel n1 n2 -> HN anyrel (check_empty_name n1) (check_empty_name n2).
  Hypothesis parse_alias_j : forall ts1 ts2 o1 o2, jany ts1 ts2 -> HN (prel trel (orel trel)) (parse_alias cfg ts1 o1) (parse_alias cfg ts2 o2).
  Hypothesis parse_modifiers_j : forall mts1 mts2 p1 p2, jany mts1 mts2 -> HN mrel (parse_modifiers cfg mts1 p1) (parse_modifiers cfg mts2 p2).
  Hypothesis modifiers_j : HL jany jany (modifiers cfg) (modifiers cfg) jany.
  Hypothesis metadata_entry_j : HL jany (orel mdrel) (metadata_entry cfg) (metadata_entry cfg) jany.
  Hypothesis section_j : HL jany (orel erel) (section_p cfg) (section_p cfg) jany.
  Hypothesis parse_text_block_j : HL jany anyrel (parse_text_block cfg) (parse_text_block cfg) jany.

  Lemma note_j : HL anyR (orel trel) (note cfg) (note cfg) anyR.
  Proof.
    unfold note. unfold HL. eapply HJ_conseq; [intros s1 s2 X; exact X | apply (HL_with_recover anyR jany trel) |].
    - eapply HJ_obindM_cp with (RA := krel) (T1 := jany).
      + eapply HJ_conseq; [intros s1 s2 X; exact X | apply (HJ_consume_anyR KOpenParen); [reflexivity | reflexivity | reflexivity] |].
        intros o1 s1 o2 s2 (Ho & H1 & H2). split; [exact Ho|]. split; [exact H1 | intros E; exact (St_EV _ _ _ (H2 E))].
      + intros op1 op2 _. eapply HJ_bind_HL; [apply HN_of, HN_current_offset|]. intros off1 off2 _.
        eapply HJ_obindM_cp with (RA := jany) (T1 := jany).
        * apply HL_CP. apply HL_until; reflexivity.
        * intros n1 n2 Hn. apply HL_CP. eapply HL_bind; [apply HL_bump; reflexivity|]. intros cp1 cp2 _.
          eapply HL_bind; [apply HN_of, HN_textM_j; exact Hn|]. intros t1 t2 Ht. apply HL_ret. exact Ht.
        * intros s1 s2 E. apply CP_none. exact E.
      + intros s1 s2 E. apply CP_none. exact E.
    - intros o1 s1 o2 s2 (Ho & H1 & H2). split; [exact Ho|].
      destruct o1; [apply (St_mono _ _ _ _ jany_anyR), H1; discriminate | apply H2; reflexivity].
  Qed.

  Lemma check_note_j : HL anyR anyrel (check_note cfg) (check_note cfg) anyR.
  Proof.
    unfold check_note. eapply HL_bind with (RA := anyrel) (T1 := anyR); [|intros; apply HL_ret; exact I].
    unfold HL. eapply HJ_conseq; [intros s1 s2 X; exact X | apply (HL_with_recover anyR jany (@anyrel unit unit)) |].
    - eapply HJ_obindM_cp with (RA := krel) (T1 := jany).
      + eapply HJ_conseq; [intros s1 s2 X; exact X | apply (HJ_consume_anyR KOpenParen); [reflexivity | reflexivity | reflexivity] |].
        intros o1 s1 o2 s2 (Ho & H1 & H2). split; [exact Ho|]. split; [exact H1 | intros E; exact (St_EV _ _ _ (H2 E))].
      + intros op1 op2 _.
        eapply HJ_obindM_cp with (RA := jany) (T1 := jany).
        * apply HL_CP. apply HL_until; reflexivity.
        * intros n1 n2 _. apply HL_CP. eapply HL_bind; [apply HL_bump; reflexivity|]. intros cp1 cp2 _.
          eapply HL_bind with (RA := anyrel) (T1 := jany).
          { destruct (tstart op1 =? 0); [apply HL_panic_l|]. destruct (tstart op2 =? 0); [apply HL_panic_r|]. apply HL_ret. exact I. }
          intros _ _ _. eapply HL_bind; [apply HN_of, HN_warn|]. intros _ _ _. apply HL_ret. exact I.
        * intros s1 s2 E. apply CP_none. exact E.
      + intros s1 s2 E. apply CP_none. exact E.
    - intros o1 s1 o2 s2 (Ho & H1 & H2). split; [exact I|].
      destruct o1; [apply (St_mono _ _ _ _ jany_anyR), H1; discriminate | apply H2; reflexivity].
  Qed.

  Definition CPq : option pevent -> bp -> option pevent -> bp -> Prop := CP erel anyR.

  Lemma qty_opt_j (q1 q2 : option (list tok)) :
    orel ksim q1 q2 ->
    HN (orel qrel)
       (match q1 with Some qts => '(q, _) <- parse_quantity cfg qts;; ret (Some q) | None => ret None end)
       (match q2 with Some qts => '(q, _) <- parse_quantity cfg qts;; ret (Some q) | None => ret None end).
  Proof.
    destruct q1, q2; cbn; try contradiction; intro H; [|apply HN_ret; exact I].
    eapply HN_bind; [apply parse_quantity_j; exact H|]. intros [a1 x1] [a2 x2] [Ha _]. apply HN_ret. exact Ha.
  Qed.

  Lemma ingredient_j : HJ (St jany) (ingredient_p cfg) (ingredient_p cfg) CPq.
  Proof.
    unfold ingredient_p. eapply HJ_bind_HL; [apply HN_of, HN_current_offset|]. intros st1 st2 _.
    eapply HJ_obindM_cp with (RA := krel) (T1 := jany).
    { apply HL_CP. apply HL_consume. reflexivity. }
    2: { intros s1 s2 E. apply CP_none. exact E. }
    intros at1 at2 _. eapply HJ_bind_HL; [apply HN_of, HN_current_offset|]. intros mp1 mp2 _.
    eapply HJ_bind_HL; [apply modifiers_j|]. intros mts1 mts2 Hm.
    eapply HJ_bind_HL; [apply HN_of, HN_current_offset|]. intros no1 no2 _.
    eapply HJ_obindM_cp with (RA := brelj) (T1 := anyR).
    { eapply HJ_conseq; [intros s1 s2 X; exact X | apply comp_body_j |].
      intros o1 s1 o2 s2 (Ho & H1 & H2). split; [exact Ho|]. split; [exact H1 | intros E; exact (St_EV _ _ _ (H2 E))]. }
    2: { intros s1 s2 E. apply CP_none. exact E. }
    intros bd1 bd2 (Hn & Hc & Hq). apply HL_CP.
    eapply HL_bind; [apply note_j|]. intros nt1 nt2 Hnt.
    eapply HL_bind; [apply HN_of, HN_current_offset|]. intros en1 en2 _.
    eapply HL_bind; [apply HN_of, parse_alias_j; exact Hn|]. intros [name1 al1] [name2 al2] [Hname Hal]. cbn in Hname, Hal.
    eapply HL_bind; [apply HN_of, check_empty_name_j; exact Hname|]. intros _ _ _.
    eapply HL_bind; [apply HN_of, parse_modifiers_j; exact Hm|]. intros [[m1 msp1] i1] [[m2 msp2] i2] [Hmm Hi]. cbn in Hmm, Hi.
    eapply HL_bind; [apply HN_of, qty_opt_j; exact Hq|]. intros q1 q2 Hqq.
    apply HL_ret. cbn. unfold erel. cbn [proj i_mods i_inter i_name i_alias i_qty i_note].
    rewrite Hmm, (orel_map_pinter _ _ Hi), (trel_tx _ _ Hname), (orel_map_tx _ _ Hal), (orel_map_pq _ _ Hqq), (orel_map_tx _ _ Hnt).
    reflexivity.
  Qed.

  Lemma find_none_existsb (f : tok -> bool) l : find f l = None <-> existsb f l = false.
  Proof.
    induction l as [|t r IH]; cbn [find existsb]; [tauto|]. destruct (f t); cbn [orb]; [split; discriminate | exact IH].
  Qed.

  Lemma cookware_j : HJ (St jany) (cookware_p cfg) (cookware_p cfg) CPq.
  Proof.
    unfold cookware_p. eapply HJ_bind_HL; [apply HN_of, HN_current_offset|]. intros st1 st2 _.
    eapply HJ_obindM_cp with (RA := krel) (T1 := jany).
    { apply HL_CP. apply HL_consume. reflexivity. }
    2: { intros s1 s2 E. apply CP_none. exact E. }
    intros at1 at2 _. eapply HJ_bind_HL; [apply HN_of, HN_current_offset|]. intros mp1 mp2 _.
    eapply HJ_bind_HL; [apply modifiers_j|]. intros mts1 mts2 Hm.
    eapply HJ_bind_HL; [apply HN_of, HN_current_offset|]. intros no1 no2 _.
    eapply HJ_obindM_cp with (RA := brelj) (T1 := anyR).
    { eapply HJ_conseq; [intros s1 s2 X; exact X | apply comp_body_j |].
      intros o1 s1 o2 s2 (Ho & H1 & H2). split; [exact Ho|]. split; [exact H1 | intros E; exact (St_EV _ _ _ (H2 E))]. }
    2: { intros s1 s2 E. apply CP_none. exact E. }
    intros b1 b2 (Hbn & Hbc & Hbq). apply HL_CP.
    eapply HL_bind; [apply note_j|]. intros nt1 nt2 Hnt.
    eapply HL_bind; [apply HN_of, HN_current_offset|]. intros en1 en2 _.
    eapply HL_bind; [apply HN_of, parse_alias_j; exact Hbn|]. intros [n1 a1] [n2 a2] [Hn Ha]. cbn [fst snd] in Hn, Ha.
    eapply HL_bind; [apply HN_of, check_empty_name_j; exact Hn|]. intros _ _ _.
    eapply HL_bind with (RA := orel cqrel) (T1 := anyR).
    - apply HN_of. destruct (bd_qty b1) as [q1|], (bd_qty b2) as [q2|]; cbn in Hbq; try contradiction; [|apply HN_ret; exact I].
      eapply HN_bind; [apply parse_quantity_j; exact Hbq|]. intros [x1 u1] [x2 u2] [[Hv Hu] _].
      cbn [fst snd] in Hv, Hu. eapply HN_bind with (RA := anyrel).
      + destruct (q_unit x1), (q_unit x2); cbn in Hu; try contradiction; [apply HN_error | apply HN_ret; exact I].
      + intros _ _ _. apply HN_ret. exact Hv.
    - intros q1 q2 Hq.
      eapply HL_bind; [apply HN_of, parse_modifiers_j; exact Hm|]. intros [[m1 ms1] j1] [[m2 ms2] j2] [Hmm Hj].
      cbn [fst snd] in Hmm, Hj. subst m2.
      eapply HL_bind with (RA := anyrel) (T1 := anyR).
      { apply HN_of. destruct j1, j2; cbn in Hj; try contradiction; [apply HN_error | apply HN_ret; exact I]. }
      intros _ _ _. eapply HL_bind with (RA := anyrel) (T1 := anyR).
      { apply HN_of. destruct (N.land m1 M_RECIPE =? M_RECIPE); [|apply HN_ret; exact I].
        destruct Hm as [mm Hm].
        pose proof (jsim_existsb (fun k => tk_eqb k KAt) mm _ _ eq_refl eq_refl Hm) as Hf.
        destruct (find (fun t => tk_eqb (kind t) KAt) mts1) eqn:F1, (find (fun t => tk_eqb (kind t) KAt) mts2) eqn:F2.
        - apply HN_error.
        - apply HN_panic_r.
        - apply HN_panic_l.
        - apply HN_panic_l. }
      intros _ _ _. apply HL_ret. cbn [orel]. unfold erel.
      cbn [proj c_mods c_name c_alias c_qty c_note].
      rewrite (trel_tx _ _ Hn), (orel_map_tx _ _ Ha), (orel_map_cq _ _ Hq), (orel_map_tx _ _ Hnt). reflexivity.
  Qed.

  Lemma timer_j : HJ (St jany) (timer_p cfg) (timer_p cfg) CPq.
  Proof.
    unfold timer_p. eapply HJ_bind_HL; [apply HN_of, HN_current_offset|]. intros st1 st2 _.
    eapply HJ_obindM_cp with (RA := krel) (T1 := jany).
    { apply HL_CP. apply HL_consume. reflexivity. }
    2: { intros s1 s2 E. apply CP_none. exact E. }
    intros at1 at2 _. eapply HJ_bind_HL; [apply modifiers_j|]. intros mts1 mts2 Hm.
    eapply HJ_bind_HL; [apply HN_of, HN_current_offset|]. intros no1 no2 _.
    eapply HJ_obindM_cp with (RA := brelj) (T1 := anyR).
    { eapply HJ_conseq; [intros s1 s2 X; exact X | apply comp_body_j |].
      intros o1 s1 o2 s2 (Ho & H1 & H2). split; [exact Ho|]. split; [exact H1 | intros E; exact (St_EV _ _ _ (H2 E))]. }
    2: { intros s1 s2 E. apply CP_none. exact E. }
    intros b1 b2 (Hbn & Hbc & Hbq). apply HL_CP.
    eapply HL_bind; [apply HN_of, HN_current_offset|]. intros en1 en2 _.
    eapply HL_bind with (RA := anyrel) (T1 := anyR).
    { apply HN_of. destruct Hm as [mm Hm]. pose proof (jsim_nil_iff _ _ _ Hm) as Hnil.
      destruct mts1, mts2; [apply HN_ret; exact I | | | apply HN_error].
      - destruct Hnil as [X _]. specialize (X eq_refl). discriminate.
      - destruct Hnil as [_ X]. specialize (X eq_refl). discriminate. }
    intros _ _ _. eapply HL_bind with (RA := anyrel) (T1 := anyR).
    { apply HN_of. destruct (has cfg X_COMPONENT_ALIAS); [|apply HN_ret; exact I].
      destruct Hbn as [mm Hbn].
      pose proof (jsim_split_any (fun k => tk_eqb k KOr) mm _ _ eq_refl eq_refl eq_refl Hbn) as X.
      destruct (position (fun k => tk_eqb k KOr) (bd_name b1)) as [n1|], (position (fun k => tk_eqb k KOr) (bd_name b2)) as [n2|];
        try contradiction; [|apply HN_ret; exact I].
      destruct X as [_ [m' X]]. pose proof (jsim_nil_iff _ _ _ X) as Hnil.
      destruct (skipn n1 (bd_name b1)), (skipn n2 (bd_name b2)); [apply HN_ret; exact I | | | apply HN_error].
      - destruct Hnil as [Y _]. specialize (Y eq_refl). discriminate.
      - destruct Hnil as [_ Y]. specialize (Y eq_refl). discriminate. }
    intros _ _ _. eapply HL_bind; [apply check_note_j|]. intros _ _ _.
    eapply HL_bind; [apply HN_of, HN_textM_j; exact Hbn|]. intros n1 n2 Hn.
    eapply HL_bind with (RA := orel qrel) (T1 := anyR).
    { apply HN_of. destruct (bd_qty b1) as [q1|], (bd_qty b2) as [q2|]; cbn in Hbq; try contradiction; [|apply HN_ret; exact I].
      eapply HN_bind; [apply parse_quantity_j; exact Hbq|]. intros [x1 u1] [x2 u2] [Hx _].
      cbn [fst snd] in Hx. eapply HN_bind with (RA := anyrel).
      + destruct Hx as [_ Hu]. destruct (q_unit x1), (q_unit x2); cbn in Hu; try contradiction;
          [apply HN_ret; exact I | apply HN_error].
      + intros _ _ _. apply HN_ret. exact Hx. }
    intros q1 q2 Hq. eapply HL_bind with (RA := orel qrel) (T1 := anyR).
    { apply HN_of. destruct q1 as [q1|], q2 as [q2|]; cbn in Hq; try contradiction; [apply HN_ret; exact Hq|].
      destruct (has cfg X_TIMER_REQUIRES_TIME); [|apply HN_ret; exact I].
      eapply HN_bind; [apply HN_error|]. intros _ _ _. apply HN_ret. exact qrel_recover. }
    intros q1' q2' Hq'. rewrite (trel_empty _ _ Hn). eapply HL_bind with (RA := orel qrel) (T1 := anyR).
    { apply HN_of. destruct (is_text_empty n2); [|apply HN_ret; exact Hq'].
      destruct q1' as [q1'|], q2' as [q2'|]; cbn in Hq'; try contradiction; [apply HN_ret; exact Hq'|].
      eapply HN_bind; [apply HN_error|]. intros _ _ _. apply HN_ret. exact qrel_recover. }
    intros q1'' q2'' Hq''. apply HL_ret. cbn [orel]. unfold erel. cbn [proj t_name t_qty].
    rewrite (orel_map_pq _ _ Hq''). destruct (is_text_empty n2); cbn [option_map]; [reflexivity|].
    rewrite (trel_tx _ _ Hn). reflexivity.
  Qed.

  (* the text branch of the step loop: bump_any, then everything up to the next marker *)
  Lemma HJ_text_run {C1 C2} (K1 : tok -> list tok -> M C1) (K2 : tok -> list tok -> M C2) Q :
    (forall a b m1 m2, textrel (a :: m1) (b :: m2) -> HJ (St jany) (K1 a m1) (K2 b m2) Q) ->
    HJ (St anyR)
       (t0 <- bump_any;; more <- consume_while (fun k => negb (is_marker k));; K1 t0 more)
       (t0 <- bump_any;; more <- consume_while (fun k => negb (is_marker k));; K2 t0 more) Q.
  Proof.
    intros HK s1 s2 S. unfold bind.
    destruct (bump_any s1) as [[a s1']|] eqn:B1; [|exact I].
    destruct (bump_any s2) as [[b s2']|] eqn:B2.
    2: { destruct (consume_while (fun k => negb (is_marker k)) s1') as [[? ?]|]; [|exact I].
         match goal with |- match ?x with _ => _ end => destruct x as [[? ?]|]; exact I end. }
    destruct (consume_while (fun k => negb (is_marker k)) s1') as [[m1 s1'']|] eqn:W1; [|exact I].
    destruct (consume_while (fun k => negb (is_marker k)) s2') as [[m2 s2'']|] eqn:W2.
    2: { match goal with |- match ?x with _ => _ end => destruct x as [[? ?]|]; exact I end. }
    destruct (text_run_rel _ _ _ _ _ _ _ _ _ _ S B1 B2 W1 W2) as [Ht S''].
    exact (HK a b m1 m2 Ht s1'' s2'' S'').
  Qed.

  Lemma step_loop_j : forall f1 f2, HL anyR anyrel (step_loop cfg f1) (step_loop cfg f2) anyR.
  Proof.
    induction f1 as [|f1 IH]; intro f2; [apply HL_panic_l|]. destruct f2 as [|f2]; [apply HL_panic_r|].
    cbn [step_loop]. eapply HL_bind; [apply HL_rest_any|]. intros r1 r2 Hr.
    assert (Hnil : r1 = [] <-> r2 = []).
    { destruct Hr as [[m Hr]|Hr]; [exact (jsim_nil_iff _ _ _ Hr)|].
      destruct (stutR_nonempty _ _ Hr) as [X Y]. split; intro; contradiction. }
    destruct r1 as [|x1 r1], r2 as [|x2 r2].
    - apply HL_ret. exact I.
    - destruct Hnil as [X _]. specialize (X eq_refl). discriminate.
    - destruct Hnil as [_ X]. specialize (X eq_refl). discriminate.
    - clear Hnil Hr. unfold HL. eapply HJ_bind; [apply HJ_peek_any_k|].
      intros k1 k2.
      (* after peek: the component attempt *)
      assert (COMP : HJ (fun s1 s2 => (k1 = k2 /\ St (jhead k1) s1 s2) \/ (k1 = KWs /\ k2 = KBlockComment /\ St stutR s1 s2))
                (match k1 with KAt => with_recover (ingredient_p cfg) | KHash => with_recover (cookware_p cfg)
                            | KTilde => with_recover (timer_p cfg) | _ => ret None end)
                (match k2 with KAt => with_recover (ingredient_p cfg) | KHash => with_recover (cookware_p cfg)
                            | KTilde => with_recover (timer_p cfg) | _ => ret None end)
                (fun o1 s1 o2 s2 => orel erel o1 o2 /\ St anyR s1 s2)).
      { intros s1 s2 [[-> S]|(-> & -> & S)].
        - apply jhead_jany in S. revert s1 s2 S.
          change (HJ (St jany)
                    (match k2 with KAt => with_recover (ingredient_p cfg) | KHash => with_recover (cookware_p cfg)
                                | KTilde => with_recover (timer_p cfg) | _ => ret None end)
                    (match k2 with KAt => with_recover (ingredient_p cfg) | KHash => with_recover (cookware_p cfg)
                                | KTilde => with_recover (timer_p cfg) | _ => ret None end)
                    (fun o1 s1 o2 s2 => orel erel o1 o2 /\ St anyR s1 s2)).
          assert (W : forall (p : M (option pevent)), HJ (St jany) p p CPq ->
                      HJ (St jany) (with_recover p) (with_recover p) (fun o1 s1 o2 s2 => orel erel o1 o2 /\ St anyR s1 s2)).
          { intros p Hp. eapply HJ_conseq; [intros s1 s2 X; exact X | apply (HL_with_recover jany anyR erel); exact Hp |].
            intros o1 s1 o2 s2 (Ho & H1 & H2). split; [exact Ho|].
            destruct o1; [apply H1; discriminate | apply (St_mono _ _ _ _ jany_anyR), H2; reflexivity]. }
          destruct k2; try (apply HJ_ret; intros s1 s2 S; split; [exact I | exact (St_mono _ _ _ _ jany_anyR S)]).
          + apply W, ingredient_j.
          + apply W, cookware_j.
          + apply W, timer_j.
        - cbn. split; [exact I|]. exact (St_mono _ _ _ _ (fun l1 l2 H => or_intror H) S). }
      eapply HJ_bind; [exact COMP|]. clear COMP.
      intros [e1|] [e2|] s1 s2 [He S]; cbn in He; try contradiction; revert s1 s2 S.
      + change (HL anyR anyrel (event e1;;; step_loop cfg f1) (event e2;;; step_loop cfg f2) anyR).
        eapply HL_bind; [apply HN_of, HN_event; exact He|]. intros _ _ _. apply IH.
      + change (HL anyR anyrel
                  (start <- current_offset;; t0 <- bump_any;; more <- consume_while (fun k => negb (is_marker k));;
                   t <- textM cfg start (t0 :: more);; (match frags t with [] => ret tt | _ => event (EvText t) end);;; step_loop cfg f1)
                  (start <- current_offset;; t0 <- bump_any;; more <- consume_while (fun k => negb (is_marker k));;
                   t <- textM cfg start (t0 :: more);; (match frags t with [] => ret tt | _ => event (EvText t) end);;; step_loop cfg f2)
                  anyR).
        unfold HL. eapply HJ_bind_HL; [apply HN_of, HN_current_offset|]. intros st1 st2 _.
        apply HJ_text_run. intros a b m1 m2 Ht.
        eapply HJ_bind_HL; [apply HN_of, HN_textM_t; exact Ht|]. intros tx1 tx2 Hx.
        eapply HJ_bind_HL with (RA := anyrel) (T1 := jany).
        * apply HN_of. pose proof Hx as (Hs & _ & Hf).
          destruct (frags tx1) eqn:F1, (frags tx2) eqn:F2.
          -- apply HN_ret. exact I.
          -- exfalso. destruct Hf as [Hf _]. specialize (Hf eq_refl). discriminate.
          -- exfalso. destruct Hf as [_ Hf]. specialize (Hf eq_refl). discriminate.
          -- apply HN_event. unfold erel. cbn. rewrite Hs. reflexivity.
        * intros _ _ _. eapply HJ_conseq; [intros s1 s2 X; exact (St_mono _ _ _ _ jany_anyR X) | apply IH | intros; assumption].
  Qed.

  Lemma parse_step_j : HL jany anyrel (parse_step cfg) (parse_step cfg) anyR.
  Proof.
    unfold parse_step. eapply HL_bind with (T1 := jany); [apply HN_of, HN_event; reflexivity|]. intros _ _ _.
    eapply HL_bind; [apply HL_rest|]. intros r1 r2 _.
    eapply HL_bind with (RA := anyrel) (T1 := anyR).
    - unfold HL. eapply HJ_conseq; [intros s1 s2 X; exact (St_mono _ _ _ _ jany_anyR X) | apply step_loop_j | intros a s1 b s2 X; exact X].
    - intros _ _ _. apply HN_of, HN_event. reflexivity.
  Qed.

  Lemma parse_multiline_block_j : HL jany anyrel (parse_multiline_block cfg) (parse_multiline_block cfg) anyR.
  Proof.
    unfold parse_multiline_block. eapply HL_bind; [apply HN_of, HN_all_tokens|]. intros a1 a2 [m Ha].
    rewrite (jsim_forallb is_empty_tok m _ _ eq_refl eq_refl Ha).
    destruct (forallb (fun t => is_empty_tok (kind t)) a2).
    - eapply HL_bind; [apply HL_consume_rest|]. intros _ _ _. intros s1 s2 S. cbn. split; [exact I | exact (St_mono _ _ _ _ jany_anyR S)].
    - eapply HL_bind; [apply HL_peek|]. intros k1 k2 ->. destruct k2; try apply parse_step_j.
      intros s1 s2 S. pose proof (parse_text_block_j s1 s2 S) as X.
      destruct (parse_text_block cfg s1) as [[? ?]|]; [|exact I]. destruct (parse_text_block cfg s2) as [[? ?]|]; [|exact I].
      destruct X as [_ X]. split; [exact I | exact (St_mono _ _ _ _ jany_anyR X)].
  Qed.

  Lemma parse_block_j old : HL jany anyrel (parse_block cfg old) (parse_block cfg old) anyR.
  Proof.
    unfold parse_block. eapply HL_bind; [apply HL_peek|]. intros k1 k2 ->.
    eapply HL_bind with (RA := orel erel) (T1 := jany).
    { destruct k2; try (apply HL_ret; exact I).
      - apply HL_with_recover_same. eapply HL_obindM; [apply metadata_entry_j | | auto].
        intros e1 e2 He. destruct e1, e2; cbn in He; try contradiction.
        destruct He as [Hk Hv]. unfold meta_kept, is_config_key. rewrite (trel_outer _ _ Hk).
        match goal with |- context [if ?c then _ else _] => destruct c end;
          apply HL_ret; cbn; [|exact I]. apply (mdrel_erel (EvMetadata _ _) (EvMetadata _ _)). split; assumption.
      - apply HL_with_recover_same. apply section_j. }
    intros [e1|] [e2|] He; cbn in He; try contradiction.
    - intros s1 s2 S. cbn. split; [exact I|]. apply (St_mono _ _ _ _ jany_anyR).
      destruct S as (Hr & Ha & Hev). repeat split; try assumption. constructor; assumption.
    - apply parse_multiline_block_j.
  Qed.

  Theorem block_rel_j blk1 blk2 evs1 evs2 old :
    jany blk1 blk2 -> Forall2 erel evs1 evs2 ->
    OR (Forall2 erel) (run_block blk1 evs1 (parse_block cfg old)) (run_block blk2 evs2 (parse_block cfg old)).
  Proof.
    intros Hb He. unfold run_block.
    destruct Hb as [m Hb]. pose proof (jsim_nil_iff _ _ _ Hb) as Hnil.
    destruct blk1 as [|x1 r1]; [exact I|]. destruct blk2 as [|x2 r2].
    { destruct Hnil as [_ X]. specialize (X eq_refl). discriminate. }
    assert (S0 : St jany {| b_all := x1 :: r1; b_done := []; b_rest := x1 :: r1; b_evs := evs1 |}
                         {| b_all := x2 :: r2; b_done := []; b_rest := x2 :: r2; b_evs := evs2 |}).
    { repeat split; cbn; try assumption; exists m; exact Hb. }
    pose proof (parse_block_j old _ _ S0) as X. unfold OR.
    destruct (parse_block cfg old _) as [[u1 s1]|]; [|exact I].
    destruct (parse_block cfg old _) as [[u2 s2]|]; [|destruct (b_rest s1); exact I].
    destruct X as [_ (Hr & _ & Hev)].
    destruct (b_rest s1), (b_rest s2); try exact I. exact Hev.
  Qed.
End Step.
