(* Property C17, event level, comment insertion: from the lexer theorem for [mid_comment] to
   [jsim]-related token streams, and from a block-loop lemma (section hypothesis, proved in
   Proofs/EditInsSplit.v + Proofs/EditInsStep.v) to documents. *)
From CL Require Import Base.StrLemmas Model.Lexer Model.PText Model.CommentMask Model.Parser Model.Edits
  Proofs.LexerProofs Proofs.MaskProofs Proofs.EditProofs Proofs.EditParserProofs Proofs.EditLink
  Proofs.EditSimDefs Proofs.EditSimDoc Proofs.EditInsDefs Proofs.ParserFM Proofs.EditSimFM2.

Lemma ksim_jsim' l1 l2 : ksim l1 l2 -> forall m, jsim m l1 l2.
Proof. induction 1 as [|a b r1 r2 H _ IH]; intro m; [constructor | apply j_cons; [exact H | apply IH]]. Qed.

Lemma ksim_shift_r n ts : Forall (fun t => tstr t <> []) ts -> Forall newline_ok ts -> ksim ts (shift n ts).
Proof.
  induction ts as [|t r IH]; intros H1 H2; [constructor|]. inversion H1; inversion H2; subst.
  constructor; [repeat split; auto | apply IH; assumption].
Qed.

Lemma jsim_app_l p : forall m l1 l2,
  Forall (fun t => tstr t <> []) p -> Forall newline_ok p ->
  jsim (mode_after m p) l1 l2 -> jsim m (p ++ l1) (p ++ l2).
Proof.
  induction p as [|t r IH]; intros m l1 l2 H1 H2 H; [exact H|]. inversion H1; inversion H2; subst.
  cbn [app mode_after] in *. apply j_cons; [apply krel_refl; assumption | apply IH; assumption].
Qed.

(* the tokens of a source and of the source with one block comment after a word, before a blank,
   outside braces *)
Theorem mid_comment_jsim p wd ws tb cm n :
  Forall (fun t => tstr t <> []) (p ++ wd :: ws :: tb) -> Forall newline_ok (p ++ wd :: ws :: tb) ->
  swt (kind wd) = true -> kind ws = KWs -> mode_after MOut p = MOut ->
  kind cm = KBlockComment -> tstr cm <> [] ->
  jsim MOut (p ++ wd :: ws :: tb) (p ++ wd :: cm :: shift n (ws :: tb)).
Proof.
  intros N O Kw Ks Hm Kc Nc. apply Forall_app in N as [Np N]. apply Forall_app in O as [Op O].
  apply jsim_app_l; [exact Np | exact Op|]. rewrite Hm.
  inversion N as [|? ? Nw N']; inversion O as [|? ? Ow O']; subst.
  apply j_ins; try assumption; [apply krel_refl; assumption|].
  apply ksim_jsim'. apply ksim_shift_r; assumption.
Qed.

Section InsDoc.
  Variable U : N -> ucls.
  Variable cfg : pcfg.
  Hypothesis blocks_j : forall f1 f2 ts1 ts2 old evs1 evs2,
    jany ts1 ts2 -> Forall2 erel evs1 evs2 ->
    OR (Forall2 erel) (blocks_loop cfg f1 ts1 old evs1) (blocks_loop cfg f2 ts2 old evs2).

  Lemma blocks_same_j f1 f2 ts1 ts2 old evs :
    jany ts1 ts2 ->
    OR same_events (obind (blocks_loop cfg f1 ts1 old evs) (fun e => Done (rev e)))
                   (obind (blocks_loop cfg f2 ts2 old evs) (fun e => Done (rev e))).
  Proof.
    intro H.
    assert (He : Forall2 erel evs evs) by (clear; induction evs; constructor; [reflexivity | assumption]).
    pose proof (blocks_j f1 f2 ts1 ts2 old evs evs H He) as R.
    unfold OR in *. destruct (blocks_loop cfg f1 ts1 old evs) as [e1|]; cbn [obind]; [|exact I].
    destruct (blocks_loop cfg f2 ts2 old evs) as [e2|]; cbn [obind]; [|exact I].
    unfold same_events. rewrite !map_rev. f_equal. apply Forall2_erel_proj. exact R.
  Qed.

  Theorem events_jsim s1 s2 ts1 ts2 :
    parse_frontmatter cfg s1 = None -> parse_frontmatter cfg s2 = None ->
    lex_at U s1 0 = Some ts1 -> lex_at U s2 0 = Some ts2 -> jany ts1 ts2 ->
    OR same_events (events U cfg s1) (events U cfg s2).
  Proof.
    intros F1 F2 L1 L2 H. unfold events. rewrite F1, F2, L1, L2. apply blocks_same_j. exact H.
  Qed.

  Theorem events_jsim_fm s1 s2 fm1 fm2 ts1 ts2 :
    parse_frontmatter cfg s1 = Some fm1 -> parse_frontmatter cfg s2 = Some fm2 ->
    yaml_text fm1 = yaml_text fm2 -> yaml_off fm1 = yaml_off fm2 ->
    lex_at U (cook_text fm1) (cook_off fm1) = Some ts1 -> lex_at U (cook_text fm2) (cook_off fm2) = Some ts2 ->
    jany ts1 ts2 ->
    OR same_events (events U cfg s1) (events U cfg s2).
  Proof.
    intros F1 F2 Hy Hyo L1 L2 H. unfold events. rewrite F1, F2, L1, L2, <- Hy, <- Hyo. apply blocks_same_j. exact H.
  Qed.

  Hypothesis special_breaks : forall c, special c = true -> is_word_char U c = false /\ is_lex_ws U c = false.
  Hypothesis eol_breaks : forall c, (c =? 10) || (c =? 13) = true -> is_word_char U c = false /\ is_lex_ws U c = false.

  (* the token streams of [a ++ b] and of [a ++ [-c-] ++ b] lexed at [off] *)
  Lemma mid_comment_tokens a b c off p wd ws tb' :
    no_close c = true ->
    lex_at U a off = Some (p ++ [wd]) -> lex_at U b (off + blen a) = Some (ws :: tb') ->
    lex_at U (a ++ b) off = Some ((p ++ [wd]) ++ ws :: tb') ->
    swt (kind wd) = true -> kind ws = KWs -> mode_after MOut p = MOut ->
    exists ts2, lex_at U (a ++ block_comment_text c ++ b) off = Some ts2
                /\ jsim MOut ((p ++ [wd]) ++ ws :: tb') ts2.
  Proof.
    intros Hc La Lb Lab Kw Ks Hm.
    assert (Ho : last_open_ended (p ++ [wd]) = false).
    { unfold last_open_ended. rewrite rev_app_distr. cbn [rev app]. unfold open_ended. destruct (kind wd); try discriminate Kw; reflexivity. }
    pose proof (mid_comment_lex U special_breaks eol_breaks a b off _ _ c Hc La Lb Ho) as L2.
    unfold mid_comment in L2. rewrite insert_at_app in L2.
    pose proof (lex_nonempty U _ _ _ Lab) as N. pose proof (lex_newline_ok U _ _ _ Lab) as O.
    rewrite <- app_assoc in L2, N, O |- *. cbn [app] in L2, N, O |- *.
    eexists. split; [exact L2|].
    apply mid_comment_jsim; try assumption; try reflexivity.
    unfold block_comment_text. discriminate.
  Qed.

  Theorem mid_comment_events a b c p wd ws tb' :
    no_close c = true ->
    parse_frontmatter cfg (a ++ b) = None -> parse_frontmatter cfg (a ++ block_comment_text c ++ b) = None ->
    lex_at U a 0 = Some (p ++ [wd]) -> lex_at U b (blen a) = Some (ws :: tb') ->
    lex_at U (a ++ b) 0 = Some ((p ++ [wd]) ++ ws :: tb') ->
    swt (kind wd) = true -> kind ws = KWs -> mode_after MOut p = MOut ->
    OR same_events (events U cfg (a ++ b)) (events U cfg (a ++ block_comment_text c ++ b)).
  Proof.
    intros Hc F1 F2 La Lb Lab Kw Ks Hm.
    destruct (mid_comment_tokens a b c 0 p wd ws tb' Hc La Lb Lab Kw Ks Hm) as (ts2 & L2 & J).
    apply (events_jsim _ _ _ _ F1 F2 Lab L2). exists MOut. exact J.
  Qed.

  (* below a front matter whose Cooklang part is [a ++ b] *)
  Theorem mid_comment_events_fm s fm a b c p wd ws tb' :
    no_close c = true ->
    parse_frontmatter cfg s = Some fm -> cook_text fm = a ++ b -> a ++ b <> [] ->
    lex_at U a (cook_off fm) = Some (p ++ [wd]) -> lex_at U b (cook_off fm + blen a) = Some (ws :: tb') ->
    lex_at U (a ++ b) (cook_off fm) = Some ((p ++ [wd]) ++ ws :: tb') ->
    swt (kind wd) = true -> kind ws = KWs -> mode_after MOut p = MOut ->
    OR same_events (events U cfg s)
                   (events U cfg (take_bytes s (cook_off fm) ++ a ++ block_comment_text c ++ b)).
  Proof.
    intros Hc F C Hne La Lb Lab Kw Ks Hm.
    assert (Hct : cook_text fm <> []) by (rewrite C; exact Hne).
    destruct (parse_frontmatter_insert_some_nonempty cfg s fm a (block_comment_text c) b F C Hct)
      as (fm' & F' & Hy & Hyo & Hct' & Hco).
    destruct (mid_comment_tokens a b c (cook_off fm) p wd ws tb' Hc La Lb Lab Kw Ks Hm) as (ts2 & L2 & J).
    apply (events_jsim_fm s _ fm fm' ((p ++ [wd]) ++ ws :: tb') ts2 F F'); try (symmetry; assumption).
    - rewrite C. exact Lab.
    - rewrite Hct', Hco. exact L2.
    - exists MOut. exact J.
  Qed.
End InsDoc.
