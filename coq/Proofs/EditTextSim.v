(* Property C17, text mode: the relational reading [MR] of Proofs/EditSim*.v ([ksim]-related
   token states give [proj]-equal events) strengthened so that it also relates the SOURCE of each
   component event - what `RecipeCollector::in_text` copies in text mode
   (`self.input[span.range()]`, event_consumer.rs:570).

   [crel e1 e2]: when both are component events, their spans cut out of the two sources the
   texts of two [ksim]-related token runs (the tokens the component parser consumed).

   How it is obtained without re-proving the relational logic: [MRp] is [MR] over states that
   also satisfy the unary invariant [tinv] (the token tape of the state is a located, adjacent
   run of the source) and whose event queues are [crel]-related.  Every computation that pushes
   no component event is lifted from its [MR] lemma by the unary frame judgement [fr] of
   Proofs/EditTextFrame.v ([lift_p]); the only new relational fact is about the component
   parsers ([comp_p]): both consume a prefix of [ksim]-related token lists and leave
   [ksim]-related rests, so the consumed runs are [ksim]-related, and each side's event spans
   exactly what it consumed (Proofs/ParserCoverFrame.v [comp_res]). *)
From Coq Require Import Lia.
From CL Require Import Base.StrLemmas Model.Lexer Model.PText Model.CommentMask Model.Parser Model.Edits
  Proofs.LexerProofs Proofs.ParserSeg Proofs.ParserCover Proofs.ParserCoverFrame Proofs.ParserTotal
  Proofs.ParserOrder Proofs.ParserFM Proofs.C02Quiet Proofs.EditParserProofs Proofs.EditSimDefs
  Proofs.EditSimBlock Proofs.EditTextFrame.
From CL Require Model.Analysis Proofs.AnalysisTotal.
Open Scope N_scope.

(* ------------------------------------------------------------------ slices *)
Lemma slice_sub src x o : sub src x o -> Analysis.byte_slice src (o, o + blen x) = Some x.
Proof.
  intros (p & q & -> & <-). unfold Analysis.byte_slice.
  destruct (N.leb_spec (blen p) (blen p + blen x)) as [_|L]; [|lia].
  rewrite AnalysisTotal.bdrop_app. replace (blen p + blen x - blen p) with (blen x) by lia.
  apply AnalysisTotal.btake_app.
Qed.

Lemma seg_slice src a ts b : seg src a ts b -> Analysis.byte_slice src (a, b) = Some (concat (map tstr ts)).
Proof. intro H. destruct (seg_sub _ _ _ _ H) as [S ->]. apply slice_sub. exact S. Qed.

Definition segx (src : str) (ts : list tok) : Prop := exists o e, seg src o ts e.
Lemma segx_app src a b : segx src (a ++ b) -> segx src a /\ segx src b.
Proof.
  intros (o & e & H). apply seg_app in H as (mid & Ha & Hb).
  split; [exists o, mid; exact Ha | exists mid, e; exact Hb].
Qed.

Lemma Forall2_app_len {A B} (R : A -> B -> Prop) : forall a1 a2 b1 b2,
  length a1 = length a2 -> Forall2 R (a1 ++ b1) (a2 ++ b2) -> Forall2 R a1 a2 /\ Forall2 R b1 b2.
Proof.
  induction a1 as [|x a1 IH]; intros [|y a2] b1 b2 L H; cbn [length app] in *; try discriminate.
  - split; [constructor | exact H].
  - inversion H; subst. destruct (IH a2 b1 b2) as [Ha Hb]; [lia | assumption|].
    split; [constructor; assumption | exact Hb].
Qed.

Lemma F2_len {A B} (R : A -> B -> Prop) l1 l2 : Forall2 R l1 l2 -> length l1 = length l2.
Proof. induction 1; cbn [length]; congruence. Qed.

Lemma Forall2_app_len_r {A B} (R : A -> B -> Prop) a1 a2 b1 b2 :
  length b1 = length b2 -> Forall2 R (a1 ++ b1) (a2 ++ b2) -> Forall2 R a1 a2 /\ Forall2 R b1 b2.
Proof.
  intros L H. apply Forall2_app_len; [|exact H].
  pose proof (F2_len _ _ _ H) as E. rewrite !app_length in E. lia.
Qed.

Lemma comp_event_span e sp : comp_span e = Some sp -> event_span e = Some sp.
Proof. destruct e; cbn; try discriminate; auto. Qed.

(* [ts] is a contiguous run of the token list [D] *)
Definition sr (D ts : list tok) : Prop := exists p q, D = p ++ ts ++ q.
Lemma sr_refl D : sr D D.
Proof. exists [], []. rewrite app_nil_r. reflexivity. Qed.
Lemma sr_mid D a p c q : sr D a -> a = p ++ c ++ q -> sr D c.
Proof. intros (p0 & q0 & ->) ->. exists (p0 ++ p), (q ++ q0). rewrite <- !app_assoc. reflexivity. Qed.
Lemma sr_segx src D ts : segx src D -> sr D ts -> segx src ts.
Proof. intros H (p & q & ->). apply segx_app in H as [_ H]. apply segx_app in H as [H _]. exact H. Qed.

Section Sim.
  Variable src1 src2 : str.
  Variable D1 D2 : list tok.       (* the token lists of the two documents *)
  Variable cfg : pcfg.
  Hypothesis HD1 : segx src1 D1.
  Hypothesis HD2 : segx src2 D2.

  (* ---------------------------------------------------------------- the relation on component sources *)
  Definition crel (e1 e2 : pevent) : Prop :=
    match comp_span e1, comp_span e2 with
    | Some sp1, Some sp2 =>
        exists c1 c2, ksim c1 c2 /\ sr D1 c1 /\ sr D2 c2
          /\ Analysis.byte_slice src1 sp1 = Some (concat (map tstr c1))
          /\ Analysis.byte_slice src2 sp2 = Some (concat (map tstr c2))
    | _, _ => True
    end.
  Definition erelp (e1 e2 : pevent) : Prop := erel e1 e2 /\ crel e1 e2.
  Definition evrel (l1 l2 : list pevent) : Prop := Forall2 erel l1 l2 /\ Forall2 crel l1 l2.

  Lemma crel_noncomp e1 e2 : noncomp e1 -> crel e1 e2.
  Proof. intro H. unfold crel. rewrite H. exact I. Qed.

  Lemma crel_ext es1 o1 es2 o2 :
    Forall2 erel (es1 ++ o1) (es2 ++ o2) -> Forall2 crel o1 o2 -> Forall noncomp es1 ->
    Forall2 crel (es1 ++ o1) (es2 ++ o2).
  Proof.
    intros H G Nc. destruct (Forall2_app_len_r _ _ _ _ _ (F2_len _ _ _ G) H) as [He _].
    apply Forall2_app; [|exact G]. clear -He Nc.
    induction He as [|a b r1 r2 _ _ IH]; [constructor|]. inversion Nc; subst.
    constructor; [apply crel_noncomp; assumption | apply IH; assumption].
  Qed.

  (* ---------------------------------------------------------------- the unary invariant *)
  Definition tinv (D : list tok) (s : bp) : Prop :=
    b_all s = rev (b_done s) ++ b_rest s /\ sr D (b_all s).

  Lemma tinv_tfr D s s' : tinv D s -> tfr s s' -> tinv D s'.
  Proof.
    intros [H1 H2] (c & A1 & A2 & A3). split.
    - rewrite A1, H1, A3, A2, rev_app_distr, rev_involutive, <- app_assoc. reflexivity.
    - rewrite A1. exact H2.
  Qed.

  Lemma tinv_sr D s c s' : tinv D s -> fwd s c s' -> sr D c.
  Proof.
    intros [H1 H2] (A1 & A2 & A3). apply (sr_mid D (b_all s) (rev (b_done s)) c (b_rest s')); [exact H2|].
    rewrite H1, A2. reflexivity.
  Qed.

  Lemma tinv_seg src D s c s' :
    segx src D -> tinv D s -> fwd s c s' -> seg src (current_offset_of s) c (current_offset_of s').
  Proof.
    intros HD [H1 H2'] (A1 & A2 & A3).
    assert (H2 : exists en, seg src (base_offset s) (b_all s) en).
    { destruct (sr_segx src D _ HD H2') as (o & e & G). unfold base_offset. destruct (b_all s) as [|t0 r0].
      - exists 0. cbn [seg]. split; [reflexivity | apply bnd_0].
      - exists e. rewrite (seg_hd _ _ _ _ _ G). exact G. }
    destruct H2 as (en & H2).
    set (s0 := {| b_all := b_all s; b_done := b_done s; b_rest := b_rest s; b_evs := [] |}).
    assert (W : wf src cfg s0). { split; [exact H1|]. split; [exists en; exact H2 | constructor]. }
    destruct (wf_split src cfg s0 W) as (en' & _ & S2).
    change (current_offset_of s0) with (current_offset_of s) in S2. change (b_rest s0) with (b_rest s) in S2.
    rewrite A2 in S2. apply seg_app in S2 as (mid & Sc & _).
    assert (E : current_offset_of s' = mid); [|rewrite E; exact Sc].
    assert (Dc : c = [] \/ exists c' x, c = c' ++ [x]).
    { destruct c as [|t0 c0]; [left; reflexivity|right].
      destruct (@exists_last _ (t0 :: c0)) as (c' & x & Ec); [discriminate|]. exists c', x. exact Ec. }
    destruct Dc as [-> | (c' & x & ->)].
    - cbn [seg] in Sc. destruct Sc as [<- _]. unfold current_offset_of, base_offset. cbn [rev app] in A3.
      rewrite A3, A1. reflexivity.
    - rewrite rev_app_distr in A3. cbn [rev app] in A3. unfold current_offset_of. rewrite A3.
      rewrite <- (seg_last src _ _ _ x Sc); [|destruct c'; discriminate]. rewrite last_snoc. reflexivity.
  Qed.

  (* ---------------------------------------------------------------- the strengthened judgement *)
  Definition SRp (s1 s2 : bp) : Prop :=
    SR s1 s2 /\ tinv D1 s1 /\ tinv D2 s2 /\ Forall2 crel (b_evs s1) (b_evs s2).

  Definition MRp {A B} (R : A -> B -> Prop) (m1 : M A) (m2 : M B) : Prop :=
    forall s1 s2, SRp s1 s2 ->
      match m1 s1, m2 s2 with
      | Done (a1, s1'), Done (a2, s2') => R a1 a2 /\ SRp s1' s2'
      | _, _ => True
      end.

  Lemma MRp_ret {A B} (R : A -> B -> Prop) a b : R a b -> MRp R (ret a) (ret b).
  Proof. intros H s1 s2 S. cbn. split; assumption. Qed.

  Lemma MRp_bind {A1 A2 B1 B2} (RA : A1 -> A2 -> Prop) (RB : B1 -> B2 -> Prop) m1 m2 f1 f2 :
    MRp RA m1 m2 -> (forall a1 a2, RA a1 a2 -> MRp RB (f1 a1) (f2 a2)) -> MRp RB (bind m1 f1) (bind m2 f2).
  Proof.
    intros Hm Hf s1 s2 S. unfold bind. specialize (Hm s1 s2 S).
    destruct (m1 s1) as [[a1 s1']|]; [|exact I].
    destruct (m2 s2) as [[a2 s2']|]; [|destruct (f1 a1 s1') as [[? ?]|]; exact I].
    destruct Hm as [Ha S']. exact (Hf a1 a2 Ha s1' s2' S').
  Qed.

  (* the continuation may use a unary fact about the first value *)
  Lemma MRp_bind_val {A1 A2 B1 B2} (Q : A1 -> Prop) (RA : A1 -> A2 -> Prop) (RB : B1 -> B2 -> Prop) m1 m2 f1 f2 :
    MRp RA m1 m2 -> retk Q m1 -> (forall a1 a2, RA a1 a2 -> Q a1 -> MRp RB (f1 a1) (f2 a2)) ->
    MRp RB (bind m1 f1) (bind m2 f2).
  Proof.
    intros Hm Hq Hf s1 s2 S. unfold bind. specialize (Hm s1 s2 S).
    destruct (m1 s1) as [[a1 s1']|] eqn:E1; [|exact I].
    destruct (m2 s2) as [[a2 s2']|]; [|destruct (f1 a1 s1') as [[? ?]|]; exact I].
    destruct Hm as [Ha S']. exact (Hf a1 a2 Ha (Hq _ _ _ E1) s1' s2' S').
  Qed.

  Lemma MRp_panic_l {A B} (R : A -> B -> Prop) p m : MRp R (panic p) m.
  Proof. intros s1 s2 S. exact I. Qed.

  (* every computation that pushes no component event is lifted from its [MR] lemma *)
  Lemma lift_p {A B} (R : A -> B -> Prop) m1 m2 : MR R m1 m2 -> fr m1 -> fr m2 -> MRp R m1 m2.
  Proof.
    intros H F1 F2 s1 s2 (S & I1 & I2 & G). specialize (H s1 s2 S).
    destruct (m1 s1) as [[a1 x1]|] eqn:E1; [|exact I]. destruct (m2 s2) as [[a2 x2]|] eqn:E2; [|exact I].
    destruct H as [Ha S']. destruct (F1 _ _ _ E1) as [T1 (es1 & V1 & N1)]. destruct (F2 _ _ _ E2) as [T2 (es2 & V2 & N2)].
    split; [exact Ha|]. split; [exact S'|]. split; [eapply tinv_tfr; eassumption|]. split; [eapply tinv_tfr; eassumption|].
    destruct S' as (_ & _ & _ & Se). rewrite V1, V2 in *. apply crel_ext; assumption.
  Qed.

  Lemma MRp_event e1 e2 : erel e1 e2 -> crel e1 e2 -> MRp anyrel (event e1) (event e2).
  Proof.
    intros He Hc s1 s2 (S & I1 & I2 & G). cbn. split; [exact I|]. split; [apply SR_evs; assumption|].
    split; [exact I1|]. split; [exact I2|]. cbn [b_evs]. constructor; assumption.
  Qed.

  (* ---------------------------------------------------------------- the component parsers *)
  Lemma comp_p (P : M (option pevent)) :
    MR (orel erel) P P -> fr P -> (forall s, pc P s (comp_res s)) ->
    MRp (orel erelp) (with_recover P) (with_recover P).
  Proof.
    intros HR HF HC s1 s2 (S & I1 & I2 & G). pose proof (HR s1 s2 S) as R. unfold with_recover.
    destruct (P s1) as [[o1 x1]|] eqn:E1; [|exact I].
    destruct (P s2) as [[o2 x2]|] eqn:E2; [|destruct o1; exact I].
    destruct R as [Ho S'].
    destruct (HF _ _ _ E1) as [T1 (es1 & V1 & N1)]. destruct (HF _ _ _ E2) as [T2 (es2 & V2 & N2)].
    pose proof (HC s1 _ _ E1) as C1. pose proof (HC s2 _ _ E2) as C2.
    assert (G' : Forall2 crel (b_evs x1) (b_evs x2)).
    { destruct S' as (_ & _ & _ & Se). rewrite V1, V2 in *. apply crel_ext; assumption. }
    destruct o1 as [e1|], o2 as [e2|]; cbn in Ho; try contradiction.
    - split.
      + split; [exact Ho|]. destruct C1 as [_ Sp1]. destruct C2 as [_ Sp2].
        destruct T1 as (c1 & F1), T2 as (c2 & F2). unfold crel.
        destruct (comp_span e1) as [sp1|] eqn:K1; [|exact I]. destruct (comp_span e2) as [sp2|] eqn:K2; [|exact I].
        rewrite (comp_event_span _ _ K1) in Sp1. rewrite (comp_event_span _ _ K2) in Sp2.
        injection Sp1 as ->. injection Sp2 as ->.
        exists c1, c2. split; [|split; [eapply tinv_sr; eassumption|split; [eapply tinv_sr; eassumption|]];
                                   split; apply seg_slice; eapply tinv_seg; eassumption].
        destruct F1 as (_ & R1 & _), F2 as (_ & R2 & _).
        destruct S as (_ & _ & Sr & _). destruct S' as (_ & _ & Sr' & _). rewrite R1, R2 in Sr.
        exact (proj1 (Forall2_app_len_r _ _ _ _ _ (F2_len _ _ _ Sr') Sr)).
      + split; [exact S'|]. split; [eapply tinv_tfr; eassumption|]. split; [eapply tinv_tfr; eassumption | exact G'].
    - split; [exact I|]. destruct S as (Sa & Sd & Sr & _). destruct S' as (_ & _ & _ & Se).
      split; [repeat split; assumption|]. split; [exact I1|]. split; [exact I2 | exact G'].
  Qed.

  Hypothesis ingredient_rel : MR (orel erel) (ingredient_p cfg) (ingredient_p cfg).
  Hypothesis cookware_rel : MR (orel erel) (cookware_p cfg) (cookware_p cfg).
  Hypothesis timer_rel : MR (orel erel) (timer_p cfg) (timer_p cfg).

  Ltac lp L := apply lift_p; [apply L | fr_auto | fr_auto].

  (* ---------------------------------------------------------------- the step loop *)
  Lemma step_loop_p fuel : MRp anyrel (step_loop cfg fuel) (step_loop cfg fuel).
  Proof.
    induction fuel as [|f IH]; [apply MRp_panic_l|]. cbn [step_loop].
    eapply MRp_bind; [lp MR_rest|]. intros r1 r2 Hr. destruct Hr as [|a b r1 r2 Hab Hr]; [apply MRp_ret; exact I|].
    eapply MRp_bind; [lp MR_peek|]. intros k1 k2 ->.
    eapply MRp_bind with (RA := orel erelp).
    { destruct k2; try (apply MRp_ret; exact I).
      - apply comp_p; [apply ingredient_rel | apply fr_ingredient_p | intro s; apply ingredient_p_fr; auto].
      - apply comp_p; [apply cookware_rel | apply fr_cookware_p | intro s; apply cookware_p_fr; auto].
      - apply comp_p; [apply timer_rel | apply fr_timer_p | intro s; apply timer_p_fr; auto]. }
    intros [e1|] [e2|] He; cbn in He; try contradiction.
    - destruct He as [He Hc]. eapply MRp_bind; [apply MRp_event; assumption|]. intros _ _ _. exact IH.
    - eapply MRp_bind; [lp MR_current_offset|]. intros st1 st2 _.
      eapply MRp_bind; [lp MR_bump_any|]. intros t1 t2 Ht.
      eapply MRp_bind; [lp MR_consume_while|]. intros m1 m2 Hm.
      eapply MRp_bind; [apply lift_p; [apply MR_textM; constructor; [exact Ht | exact Hm] | apply fr_textM | apply fr_textM]|].
      intros x1 x2 Hx.
      eapply MRp_bind with (RA := anyrel).
      + pose proof Hx as (Hs & _ & Hf).
        destruct (frags x1) eqn:F1, (frags x2) eqn:F2.
        * apply MRp_ret. exact I.
        * exfalso. destruct Hf as [Hf _]. specialize (Hf eq_refl). discriminate.
        * exfalso. destruct Hf as [_ Hf]. specialize (Hf eq_refl). discriminate.
        * apply lift_p; [apply MR_event; unfold erel; cbn; rewrite Hs; reflexivity
                        | apply fr_event; reflexivity | apply fr_event; reflexivity].
      + intros _ _ _. exact IH.
  Qed.

  Lemma parse_step_p : MRp anyrel (parse_step cfg) (parse_step cfg).
  Proof.
    unfold parse_step.
    eapply MRp_bind; [apply lift_p; [apply MR_event; reflexivity | apply fr_event; reflexivity | apply fr_event; reflexivity]|].
    intros _ _ _. eapply MRp_bind; [lp MR_rest|]. intros r1 r2 Hr. rewrite (ksim_length _ _ Hr).
    eapply MRp_bind; [apply step_loop_p|]. intros _ _ _.
    apply lift_p; [apply MR_event; reflexivity | apply fr_event; reflexivity | apply fr_event; reflexivity].
  Qed.

  Lemma parse_multiline_block_p : MRp anyrel (parse_multiline_block cfg) (parse_multiline_block cfg).
  Proof.
    unfold parse_multiline_block. eapply MRp_bind; [lp MR_all_tokens|]. intros a1 a2 Ha.
    rewrite (ksim_forallb_kind is_empty_tok _ _ Ha).
    destruct (forallb (fun t => is_empty_tok (kind t)) a2).
    - eapply MRp_bind; [apply lift_p; [apply MR_consume_rest | apply fr_consume_while | apply fr_consume_while]|].
      intros _ _ _. apply MRp_ret. exact I.
    - eapply MRp_bind; [lp MR_peek|]. intros k1 k2 ->.
      destruct k2; first [ apply lift_p; [apply parse_text_block_rel | apply fr_parse_text_block | apply fr_parse_text_block]
                         | apply parse_step_p ].
  Qed.

  (* what the first part of parse_block returns is a metadata or a section event *)
  Definition onc (o : option pevent) : Prop := match o with Some e => noncomp e | None => True end.

  Lemma retk_meta_part old :
    retk onc (with_recover (ev <-? metadata_entry cfg ;;
                            match ev with
                            | EvMetadata key _ => if meta_kept cfg old key then ret (Some ev) else ret None
                            | _ => ret (Some ev)
                            end)).
  Proof.
    apply retk_with_recover; [exact I|]. intros s a s' E. unfold obindM, bind in E.
    destruct (metadata_entry cfg s) as [[[ev|] s1]|] eqn:Em; try discriminate.
    - pose proof (retk_metadata_entry cfg _ _ _ Em) as Hk. cbn [is_meta_or_none] in Hk.
      destruct ev; try contradiction. destruct (meta_kept cfg old key); unfold ret in E; inversion E; subst; cbn; reflexivity.
    - unfold ret in E. inversion E; subst. exact I.
  Qed.

  Lemma retk_section_part : retk onc (with_recover (section_p cfg)).
  Proof.
    apply retk_with_recover; [exact I|]. unfold section_p.
    repeat first [ apply retk_panic | (apply retk_ret; first [exact I | reflexivity])
      | match goal with
        | |- retk _ (obindM _ _) => apply retk_obindM_skip; [exact I | intros]
        | |- retk _ (bind _ _) => apply retk_bind_skip; intros
        | |- retk _ (match ?x with _ => _ end) => destruct x
        end ].
  Qed.

  Lemma parse_block_p old : MRp anyrel (parse_block cfg old) (parse_block cfg old).
  Proof.
    unfold parse_block. eapply MRp_bind; [lp MR_peek|]. intros k1 k2 ->.
    eapply MRp_bind_val with (RA := orel erel) (Q := onc).
    { destruct k2; try (apply MRp_ret; exact I).
      - apply lift_p.
        + apply MR_with_recover. eapply MR_obindM; [apply metadata_entry_rel|].
          intros e1 e2 He. destruct e1, e2; cbn in He; try contradiction.
          destruct He as [Hk Hv]. unfold meta_kept, is_config_key. rewrite (trel_outer _ _ Hk).
          match goal with |- context [if ?c then _ else _] => destruct c end;
            apply MR_ret; cbn; [|exact I]. apply (mdrel_erel (EvMetadata _ _) (EvMetadata _ _)). split; assumption.
        + apply fr_with_recover, fr_obindM; [apply fr_metadata_entry|]. intro ev. fr_auto.
        + apply fr_with_recover, fr_obindM; [apply fr_metadata_entry|]. intro ev. fr_auto.
      - apply lift_p; [apply MR_with_recover, section_rel | apply fr_with_recover, fr_section_p | apply fr_with_recover, fr_section_p]. }
    { destruct k2; try (apply retk_ret; exact I); [apply retk_meta_part | apply retk_section_part]. }
    intros [e1|] [e2|] He Hq; cbn in He; try contradiction.
    - apply MRp_event; [exact He | apply crel_noncomp; exact Hq].
    - apply parse_multiline_block_p.
  Qed.

  (* ---------------------------------------------------------------- blocks *)
  Lemma run_block_p ts1 ts2 evs1 evs2 m1 m2 :
    ksim ts1 ts2 -> sr D1 ts1 -> sr D2 ts2 -> evrel evs1 evs2 -> MRp (@anyrel unit unit) m1 m2 ->
    OR evrel (run_block ts1 evs1 m1) (run_block ts2 evs2 m2).
  Proof.
    intros Ht G1 G2 [He Hc] Hm. unfold run_block. destruct Ht as [|a b r1 r2 Hab Hr]; [exact I|].
    assert (S0 : SRp {| b_all := a :: r1; b_done := []; b_rest := a :: r1; b_evs := evs1 |}
                     {| b_all := b :: r2; b_done := []; b_rest := b :: r2; b_evs := evs2 |}).
    { split; [repeat split; cbn; try assumption; constructor; assumption|].
      split; [|split]; [| |exact Hc].
      - split; [reflexivity | exact G1].
      - split; [reflexivity | exact G2]. }
    specialize (Hm _ _ S0). unfold OR.
    destruct (m1 _) as [[x1 s1']|]; [|exact I]. destruct (m2 _) as [[x2 s2']|]; [|destruct (b_rest s1'); exact I].
    destruct Hm as [_ ((_ & _ & Sr & Se) & _ & _ & Sc)]. destruct Sr; [split; assumption | exact I].
  Qed.

  Lemma blocks_loop_p fuel : forall ts1 ts2 old evs1 evs2,
    ksim ts1 ts2 -> sr D1 ts1 -> sr D2 ts2 -> evrel evs1 evs2 ->
    OR evrel (blocks_loop cfg fuel ts1 old evs1) (blocks_loop cfg fuel ts2 old evs2).
  Proof.
    induction fuel as [|f IH]; intros ts1 ts2 old evs1 evs2 Ht G1 G2 He; [exact I|]. cbn [blocks_loop].
    rewrite (ksim_length _ _ Ht). pose proof (next_block_rel (S (length ts2)) _ _ Ht) as Nb.
    destruct (next_block (S (length ts2)) ts1) as [[b1 q1]|] eqn:N1, (next_block (S (length ts2)) ts2) as [[b2 q2]|] eqn:N2;
      cbn in Nb; try contradiction; [|exact He].
    destruct Nb as [Hb Hq]. cbn in Hb, Hq.
    destruct (next_block_app _ _ _ _ N1) as (p1 & z1 & E1). destruct (next_block_app _ _ _ _ N2) as (p2 & z2 & E2).
    pose proof (sr_mid D1 ts1 p1 b1 (z1 ++ q1) G1 E1) as Gb1.
    pose proof (sr_mid D2 ts2 p2 b2 (z2 ++ q2) G2 E2) as Gb2.
    assert (Gq1 : sr D1 q1). { apply (sr_mid D1 ts1 (p1 ++ b1 ++ z1) q1 [] G1). rewrite E1, app_nil_r, <- !app_assoc. reflexivity. }
    assert (Gq2 : sr D2 q2). { apply (sr_mid D2 ts2 (p2 ++ b2 ++ z2) q2 [] G2). rewrite E2, app_nil_r, <- !app_assoc. reflexivity. }
    pose proof (run_block_p b1 b2 evs1 evs2 _ _ Hb Gb1 Gb2 He (parse_block_p old)) as R. unfold OR in R.
    destruct (run_block b1 evs1 (parse_block cfg old)) as [e1|]; cbn [obind]; [|exact I].
    destruct (run_block b2 evs2 (parse_block cfg old)) as [e2|]; cbn [obind].
    - apply IH; assumption.
    - unfold OR. destruct (blocks_loop cfg f q1 old e1); exact I.
  Qed.
End Sim.

(* ------------------------------------------------------------------ documents *)
Section Doc.
  Variable U : N -> ucls.
  Variable cfg : pcfg.
  Hypothesis ingredient_rel : MR (orel erel) (ingredient_p cfg) (ingredient_p cfg).
  Hypothesis cookware_rel : MR (orel erel) (cookware_p cfg) (cookware_p cfg).
  Hypothesis timer_rel : MR (orel erel) (timer_p cfg) (timer_p cfg).

  Lemma evrel_rev s1 s2 d1 d2 e1 e2 : evrel s1 s2 d1 d2 e1 e2 -> evrel s1 s2 d1 d2 (rev e1) (rev e2).
  Proof. intros [A B]. split; apply Forall2_rev'; assumption. Qed.

  Lemma lex_segx s ts : lex_at U s 0 = Some ts -> segx s ts.
  Proof. intro L. exists 0, (0 + blen s). exact (lex_at_seg U s 0 ts [] L eq_refl). Qed.

  (* two sources without front matter whose token streams are [ksim] *)
  Theorem events_ksim_p s1 s2 ts1 ts2 :
    parse_frontmatter cfg s1 = None -> parse_frontmatter cfg s2 = None ->
    lex_at U s1 0 = Some ts1 -> lex_at U s2 0 = Some ts2 -> ksim ts1 ts2 ->
    OR (evrel s1 s2 ts1 ts2) (events U cfg s1) (events U cfg s2).
  Proof.
    intros F1 F2 L1 L2 H. unfold events. rewrite F1, F2, L1, L2, (ksim_length _ _ H).
    pose proof (blocks_loop_p s1 s2 ts1 ts2 cfg (lex_segx _ _ L1) (lex_segx _ _ L2) ingredient_rel cookware_rel timer_rel
                  (S (length ts2)) ts1 ts2 true [] []
                  H (sr_refl _) (sr_refl _) (conj (Forall2_nil _) (Forall2_nil _))) as R.
    unfold OR in *. destruct (blocks_loop cfg _ ts1 true []) as [e1|]; cbn [obind]; [|exact I].
    destruct (blocks_loop cfg _ ts2 true []) as [e2|]; cbn [obind]; [|exact I]. apply evrel_rev. exact R.
  Qed.

  (* the same with a front matter on both sides: YAML texts equal up to line endings *)
  Theorem events_ksim_fm_p s1 s2 fm1 fm2 ts1 ts2 :
    parse_frontmatter cfg s1 = Some fm1 -> parse_frontmatter cfg s2 = Some fm2 ->
    crlf (yaml_text fm1) = crlf (yaml_text fm2) ->
    lex_at U (cook_text fm1) (cook_off fm1) = Some ts1 -> lex_at U (cook_text fm2) (cook_off fm2) = Some ts2 ->
    ksim ts1 ts2 ->
    OR (evrel s1 s2 ts1 ts2) (events U cfg s1) (events U cfg s2).
  Proof.
    intros F1 F2 Hy L1 L2 H. unfold events. rewrite F1, F2, L1, L2, (ksim_length _ _ H).
    destruct (parse_frontmatter_located cfg s1 fm1 F1) as [(pre1 & Es1 & Hp1) _].
    destruct (parse_frontmatter_located cfg s2 fm2 F2) as [(pre2 & Es2 & Hp2) _].
    assert (G1 : segx s1 ts1). { exists (cook_off fm1), (cook_off fm1 + blen (cook_text fm1)). rewrite Es1 at 1. exact (lex_at_seg U _ _ _ pre1 L1 Hp1). }
    assert (G2 : segx s2 ts2). { exists (cook_off fm2), (cook_off fm2 + blen (cook_text fm2)). rewrite Es2 at 1. exact (lex_at_seg U _ _ _ pre2 L2 Hp2). }
    assert (E0 : evrel s1 s2 ts1 ts2 [EvYaml (text_from_str (yaml_text fm1) (yaml_off fm1))] [EvYaml (text_from_str (yaml_text fm2) (yaml_off fm2))]).
    { split; (constructor; [|constructor]); [|exact I]. unfold erel. cbn [proj]. f_equal.
      assert (T : forall y o, text_str (text_from_str y o) = y).
      { intros y o. destruct y; [reflexivity|]. unfold text_from_str, text_str. cbn [frags map fsoft ftext concat]. apply app_nil_r. }
      rewrite !T. exact Hy. }
    pose proof (blocks_loop_p s1 s2 ts1 ts2 cfg G1 G2 ingredient_rel cookware_rel timer_rel (S (length ts2)) ts1 ts2 false _ _ H
                  (sr_refl _) (sr_refl _) E0) as R.
    unfold OR in *. destruct (blocks_loop cfg _ ts1 false _) as [e1|]; cbn [obind]; [|exact I].
    destruct (blocks_loop cfg _ ts2 false _) as [e2|]; cbn [obind]; [|exact I]. apply evrel_rev. exact R.
  Qed.
End Doc.
