(* Property C17, the trailing edit, analysis stage: two event streams related by [fwr]
   (EditTrailDefs.v: same events up to positions, step and paragraph text up to U+0020s inserted
   before a U+0020, the last text of a block up to U+0020s appended, one more blank text before
   the End of a block that ends in a component, warnings on one side only, errors paired) give
   recipes that are equal "up to whitespace inside step text" - the normal form [rnorm] below -
   the same validity and the same panic site if any.

   Method: a simulation over [Analysis.step].  The two collector states agree on every field
   except the text held in the block buffer, in the current section and in the finished
   sections ([arel]); the unfinished buffers are related item by item ([irel]), finished content
   by equality of normal forms.

   Hypotheses: [crlf_blind yaml_ok], [no_text_mode] (as for [analyse_blind] of Proofs/EditAnalysis.v);
   [analyse_wblind]: INLINE_QUANTITIES off, nothing else; [analyse_wblind_iq]: or the oracle for
   find_inline_quantity commutes with the edit ([iq_ws_stable]) and shrinks its argument
   ([AnalysisTotal.iq_shrinks]: no fuel panic on either side, and no quantity in an empty text, hence
   none in a text of U+0020s that only the edited side has). *)
From Coq Require Import ZArith Lia List.
From CL Require Import Base.StrLemmas Model.Lexer Model.PText Model.CommentMask Model.Parser Model.Edits Model.EventBridge
  Proofs.EditParserProofs Proofs.EditSimDefs Proofs.EditInsDefs Proofs.EditAnalysis.
From CL Require Model.Events Model.Analysis Proofs.AnalysisTotal.
From CL Require Import Proofs.EditTrailDefs Proofs.EditTrailStr.
Import ListNotations.
Open Scope N_scope.

Import Analysis.

(* ---------------------------------------------------------------- the normal form *)
(* the string functions of Properties/C17.v *)
Definition is_blank (c : N) : bool := (c =? 32) || (c =? 9).
Fixpoint squeeze (prev : bool) (s : str) : str := match s with [] => [] | c :: r => if is_blank c then (if prev then squeeze true r else 32 :: squeeze true r) else c :: squeeze false r end.
Definition drop_last_blank (s : str) : str := match rev s with c :: r => if is_blank c then rev r else s | [] => [] end.

Definition is_text_item (i : item) : bool := match i with IText _ => true | _ => false end.

(* adjacent text items merged *)
Fixpoint merge_items (l : list item) : list item :=
  match l with
  | [] => []
  | IText a :: r => match merge_items r with IText b :: r' => IText (a ++ b) :: r' | m => IText a :: m end
  | i :: r => i :: merge_items r
  end.

(* runs of blanks squeezed to one U+0020, none at the start of the step ([at_start]) nor at its
   end (a text item that is the last item), text items that become empty dropped *)
Fixpoint norm_items (at_start : bool) (l : list item) : list item :=
  match l with
  | [] => []
  | IText s :: r =>
      let s1 := squeeze at_start s in
      let s2 := match r with [] => drop_last_blank s1 | _ => s1 end in
      match s2 with [] => norm_items at_start r | _ => IText s2 :: norm_items false r end
  | i :: r => i :: norm_items false r
  end.

Definition norm_text (t : str) : str := drop_last_blank (squeeze true t).

Definition norm_content (c : content) : content :=
  match c with
  | CStep st => CStep {| st_items := norm_items true (merge_items (st_items st)); st_number := st_number st |}
  | CText t => CText (norm_text t)
  end.

Definition norm_section (s : section) : section :=
  {| sec_name := sec_name s; sec_content := map norm_content (sec_content s) |}.

(* the recipe up to whitespace inside step text: section names, step numbers, component items,
   the three tables (names, quantities, relations, modifiers) and the inline count exactly *)
Definition rnorm (r : recipe) : recipe :=
  {| r_sections := map norm_section (r_sections r); r_ingredients := r_ingredients r;
     r_cookware := r_cookware r; r_timers := r_timers r; r_inline := r_inline r |}.

(* ---------------------------------------------------------------- strings *)
Lemma spins_app e a a' b b' : spins false a a' -> spins e b b' -> spins e (a ++ b) (a' ++ b').
Proof.
  intros H Hb. induction H as [|w He Hw|c r1 r2 _ IH|r1 r2 _ IH]; cbn [app] in *.
  - exact Hb.
  - discriminate.
  - apply sp_cons. exact IH.
  - apply sp_ins. exact IH.
Qed.

Lemma spins_app_end a b w : spins false a b -> sp32 w -> spins true a (b ++ w).
Proof.
  intros H Hw. rewrite <- (app_nil_r a). apply spins_app; [exact H|]. apply sp_end; [reflexivity | exact Hw].
Qed.

Lemma spins_true e a b : spins e a b -> spins true a b.
Proof. destruct e; [exact (fun H => H) | apply spins_weaken]. Qed.

Lemma spins_ne e a b : spins e a b -> a <> [] -> b <> [].
Proof. intros H N. destruct H; try discriminate; contradiction N; reflexivity. Qed.

Lemma spins_split a b : spins true a b -> exists b' w, b = b' ++ w /\ spins false a b' /\ sp32 w.
Proof.
  induction 1 as [|w He Hw|c r1 r2 _ IH|r1 r2 _ IH].
  - exists [], []. repeat split. apply sp_nil.
  - exists [], w. repeat split; [apply sp_nil | exact Hw].
  - destruct IH as (b' & w & -> & H & Hw). exists (c :: b'), w. repeat split; [apply sp_cons; exact H | exact Hw].
  - destruct IH as (b' & w & -> & H & Hw). exists (32 :: b'), w. repeat split; [apply sp_ins; exact H | exact Hw].
Qed.

Lemma squeeze_spins a b : spins false a b -> forall p, squeeze p a = squeeze p b.
Proof.
  induction 1 as [|w He Hw|c r1 r2 _ IH|r1 r2 _ IH]; intro p.
  - reflexivity.
  - discriminate.
  - cbn [squeeze]. rewrite (IH true), (IH false). reflexivity.
  - pose proof (IH true) as E. cbn [squeeze] in *. change (is_blank 32) with true in *. cbv iota in *.
    rewrite <- E. reflexivity.
Qed.

(* does the squeezed text end in a blank (or was there one before it) *)
Fixpoint endb (p : bool) (s : str) : bool := match s with [] => p | c :: r => endb (is_blank c) r end.

Lemma squeeze_app a b : forall p, squeeze p (a ++ b) = squeeze p a ++ squeeze (endb p a) b.
Proof.
  induction a as [|c r IH]; intro p; [reflexivity|]. cbn [app squeeze endb].
  destruct (is_blank c); [destruct p|]; rewrite IH; reflexivity.
Qed.

Lemma endb_snoc p a c : endb p (a ++ [c]) = is_blank c.
Proof. revert p. induction a as [|d r IH]; intro p; [reflexivity|]. cbn [app endb]. apply IH. Qed.

Lemma squeeze_sp32 w : sp32 w -> squeeze true w = [] /\ (squeeze false w = [] \/ squeeze false w = [32]).
Proof.
  induction w as [|c r IH]; intro H; [split; [|left]; reflexivity|]. apply sp32_cons_inv in H as [-> H].
  destruct (IH H) as [E _]. cbn [squeeze]. change (is_blank 32) with true. cbv iota. rewrite E. split; [reflexivity | right; reflexivity].
Qed.

Lemma dlb_snoc_blank s : drop_last_blank (s ++ [32]) = s.
Proof. unfold drop_last_blank. rewrite rev_app_distr. cbn [rev app]. change (is_blank 32) with true. cbv iota. apply rev_involutive. Qed.

Lemma dlb_snoc_other s c : is_blank c = false -> drop_last_blank (s ++ [c]) = s ++ [c].
Proof. intro H. unfold drop_last_blank. rewrite rev_app_distr. cbn [rev app]. rewrite H. reflexivity. Qed.

Lemma dlb_squeeze_noblank p a : endb p a = false -> drop_last_blank (squeeze p a) = squeeze p a.
Proof.
  intro H. destruct (rev a) as [|c r] eqn:E.
  - apply (f_equal (@rev N)) in E. rewrite rev_involutive in E. cbn [rev] in E. subst a. reflexivity.
  - apply (f_equal (@rev N)) in E. rewrite rev_involutive in E. cbn [rev] in E. subst a.
    rewrite endb_snoc in H. rewrite squeeze_app. cbn [squeeze]. rewrite H. apply dlb_snoc_other. exact H.
Qed.

Lemma dlb_squeeze_end p a w : sp32 w -> drop_last_blank (squeeze p (a ++ w)) = drop_last_blank (squeeze p a).
Proof.
  intro Hw. rewrite squeeze_app. destruct (squeeze_sp32 w Hw) as [Et Ef]. destruct (endb p a) eqn:B.
  - rewrite Et, app_nil_r. reflexivity.
  - destruct Ef as [Ef|Ef]; rewrite Ef.
    + rewrite app_nil_r. reflexivity.
    + rewrite dlb_snoc_blank. symmetry. apply dlb_squeeze_noblank. exact B.
Qed.

Lemma dlb_squeeze_spins e p a b : spins e a b -> drop_last_blank (squeeze p a) = drop_last_blank (squeeze p b).
Proof.
  intro H. apply spins_true in H. destruct (spins_split _ _ H) as (b' & w & -> & Hb & Hw).
  rewrite (dlb_squeeze_end p b' w Hw), (squeeze_spins _ _ Hb). reflexivity.
Qed.

Lemma dlb_squeeze_sp32 p w : sp32 w -> drop_last_blank (squeeze p w) = [].
Proof. intro H. exact (dlb_squeeze_end p [] w H). Qed.

(* ---------------------------------------------------------------- item lists *)
(* the buffers of an unfinished step: text items up to [spins false]; when [e], the last text up
   to [spins true], or one more blank text on the right *)
Inductive irel (e : bool) : list item -> list item -> Prop :=
| ir_nil : irel e [] []
| ir_end w : e = true -> sp32 w -> irel e [] [IText w]
| ir_text a b r1 r2 : spins false a b -> irel e r1 r2 -> irel e (IText a :: r1) (IText b :: r2)
| ir_last a b : e = true -> spins true a b -> irel e [IText a] [IText b]
| ir_other i r1 r2 : is_text_item i = false -> irel e r1 r2 -> irel e (i :: r1) (i :: r2).

(* the same after merging: no two adjacent texts *)
Inductive mrel (e : bool) : list item -> list item -> Prop :=
| mr_nil : mrel e [] []
| mr_end w : e = true -> sp32 w -> mrel e [] [IText w]
| mr_last a b : spins e a b -> mrel e [IText a] [IText b]
| mr_text a b i r1 r2 : spins false a b -> is_text_item i = false -> mrel e r1 r2 -> mrel e (IText a :: i :: r1) (IText b :: i :: r2)
| mr_other i r1 r2 : is_text_item i = false -> mrel e r1 r2 -> mrel e (i :: r1) (i :: r2).

Lemma irel_weaken e l1 l2 : irel false l1 l2 -> irel e l1 l2.
Proof.
  induction 1 as [|w He _|a b r1 r2 H _ IH|a b He _|i r1 r2 Hi _ IH]; try discriminate.
  - apply ir_nil.
  - apply ir_text; assumption.
  - apply ir_other; assumption.
Qed.

Lemma irel_refl l : irel false l l.
Proof.
  induction l as [|i r IH]; [apply ir_nil|]. destruct i; try (apply ir_other; [reflexivity | exact IH]).
  apply ir_text; [apply spins_refl | exact IH].
Qed.

Lemma irel_nil l1 l2 : irel false l1 l2 -> Events.is_nil l1 = Events.is_nil l2.
Proof. destruct 1; try discriminate; reflexivity. Qed.

Lemma irel_snoc_text e l1 l2 a b : irel false l1 l2 -> spins e a b -> irel e (l1 ++ [IText a]) (l2 ++ [IText b]).
Proof.
  intros H Hs. induction H as [|w He _|a' b' r1 r2 H _ IH|a' b' He _|i r1 r2 Hi _ IH]; try discriminate; cbn [app].
  - destruct e; [apply ir_last; [reflexivity | exact Hs] | apply ir_text; [exact Hs | apply ir_nil]].
  - apply ir_text; assumption.
  - apply ir_other; assumption.
Qed.

Lemma irel_snoc_other l1 l2 i : irel false l1 l2 -> is_text_item i = false -> irel false (l1 ++ [i]) (l2 ++ [i]).
Proof.
  intros H Hi. induction H as [|w He _|a' b' r1 r2 H _ IH|a' b' He _|j r1 r2 Hj _ IH]; try discriminate; cbn [app].
  - apply ir_other; [exact Hi | apply ir_nil].
  - apply ir_text; assumption.
  - apply ir_other; assumption.
Qed.

Lemma irel_snoc_blank l1 l2 w : irel false l1 l2 -> sp32 w -> irel true l1 (l2 ++ [IText w]).
Proof.
  intros H Hw. induction H as [|w' He _|a' b' r1 r2 H _ IH|a' b' He _|j r1 r2 Hj _ IH]; try discriminate; cbn [app].
  - apply ir_end; [reflexivity | exact Hw].
  - apply ir_text; assumption.
  - apply ir_other; assumption.
Qed.

Lemma merge_other i r : is_text_item i = false -> merge_items (i :: r) = i :: merge_items r.
Proof. destruct i; try discriminate; reflexivity. Qed.

Lemma merge_text_other a i r : is_text_item i = false -> merge_items r = i :: tl (merge_items r) ->
  merge_items (IText a :: r) = IText a :: merge_items r.
Proof. intros Hi E. cbn [merge_items]. rewrite E. destruct i; try discriminate; reflexivity. Qed.

Lemma irel_merge e l1 l2 : irel e l1 l2 -> mrel e (merge_items l1) (merge_items l2).
Proof.
  induction 1 as [|w He Hw|a b r1 r2 H _ IH|a b He H|i r1 r2 Hi _ IH].
  - apply mr_nil.
  - apply mr_end; assumption.
  - cbn [merge_items].
    inversion IH as [E1 E2|w He Hw E1 E2|a' b' H' E1 E2|a' b' i r1' r2' H' Hi IH' E1 E2|i r1' r2' Hi IH' E1 E2].
    + apply mr_last. apply spins_weaken. exact H.
    + apply mr_last. subst e. apply spins_app_end; assumption.
    + apply mr_last. apply spins_app; assumption.
    + apply mr_text; [apply spins_app; assumption | exact Hi | exact IH'].
    + destruct i; try discriminate Hi; (apply mr_text; [exact H | reflexivity | exact IH']).
  - subst e. apply mr_last. exact H.
  - rewrite !(merge_other _ _ Hi). apply mr_other; assumption.
Qed.

Lemma norm_other p i r : is_text_item i = false -> norm_items p (i :: r) = i :: norm_items false r.
Proof. destruct i; try discriminate; reflexivity. Qed.

Lemma norm_text_mid p a i r :
  norm_items p (IText a :: i :: r)
  = match squeeze p a with [] => norm_items p (i :: r) | _ => IText (squeeze p a) :: norm_items false (i :: r) end.
Proof. reflexivity. Qed.

Lemma mrel_norm e l1 l2 : mrel e l1 l2 -> forall p, norm_items p l1 = norm_items p l2.
Proof.
  induction 1 as [|w He Hw|a b H|a b i r1 r2 H Hi _ IH|i r1 r2 Hi _ IH]; intro p.
  - reflexivity.
  - cbn [norm_items]. rewrite (dlb_squeeze_sp32 p w Hw). reflexivity.
  - cbn [norm_items]. rewrite (dlb_squeeze_spins e p a b H). reflexivity.
  - rewrite !norm_text_mid, (squeeze_spins _ _ H p), !(norm_other _ _ _ Hi), (IH false). reflexivity.
  - rewrite !(norm_other _ _ _ Hi), (IH false). reflexivity.
Qed.

Theorem irel_norm e l1 l2 : irel e l1 l2 -> norm_items true (merge_items l1) = norm_items true (merge_items l2).
Proof. intro H. exact (mrel_norm e _ _ (irel_merge e _ _ H) true). Qed.

(* ---------------------------------------------------------------- collector states *)
Definition outrel {A B} (R : A -> B -> Prop) (o1 : outcome A) (o2 : outcome B) : Prop :=
  match o1, o2 with Done a, Done b => R a b | Panic p, Panic q => p = q | _, _ => False end.

Lemma outrel_bind {A B C D} (R : A -> B -> Prop) (R' : C -> D -> Prop) o1 o2 f g :
  outrel R o1 o2 ->
  (forall a b, R a b -> o1 = Done a -> o2 = Done b -> outrel R' (f a) (g b)) ->
  outrel R' (obind o1 f) (obind o2 g).
Proof.
  destruct o1 as [a|p], o2 as [b|q]; cbn [outrel obind]; intros H K; try contradiction.
  - apply K; [exact H | reflexivity | reflexivity].
  - exact H.
Qed.

(* everything but the block buffer: finished content up to the normal form, the rest equal *)
Record crel (s1 s2 : astate) : Prop := {
  cr_secs : map norm_section (a_sections s1) = map norm_section (a_sections s2);
  cr_cur : norm_section (a_cur s1) = norm_section (a_cur s2);
  cr_ing : a_ingredients s1 = a_ingredients s2;
  cr_cw : a_cookware s1 = a_cookware s2;
  cr_tm : a_timers s1 = a_timers s2;
  cr_inl : a_inline s1 = a_inline s2;
  cr_def : a_define s1 = a_define s2;
  cr_dup : a_duplicate s1 = a_duplicate s2;
  cr_cnt : a_counter s1 = a_counter s2;
  cr_err : a_errors s1 = a_errors s2;
  cr_halt : a_halted s1 = a_halted s2 }.

Definition brel (e : bool) (b1 b2 : option blockbuf) : Prop :=
  match b1, b2 with
  | None, None => True
  | Some (BStep i1), Some (BStep i2) => irel e i1 i2 /\ Events.is_nil i1 = Events.is_nil i2
  | Some (BText t1), Some (BText t2) => spins e t1 t2 /\ Events.is_nil t1 = Events.is_nil t2
  | _, _ => False
  end.

(* once halted the collector ignores every event and has no output: the buffers are unrelated *)
Definition arel (e : bool) (s1 s2 : astate) : Prop :=
  crel s1 s2 /\ (a_halted s1 = false -> brel e (a_block s1) (a_block s2)).

Ltac fcbn := cbn [a_sections a_cur a_ingredients a_cookware a_timers a_inline a_define a_duplicate a_block a_counter
                  a_errors a_halted set_block add_error set_modes set_halted set_sections set_ingredients set_cookware
                  set_timers set_inline].

Lemma crel_refl s : crel s s.
Proof. constructor; reflexivity. Qed.

Lemma crel_set_block s1 s2 b1 b2 : crel s1 s2 -> crel (set_block s1 b1) (set_block s2 b2).
Proof. intros []. constructor; fcbn; assumption. Qed.
Lemma crel_set_block_r s1 s2 b2 : crel s1 s2 -> crel s1 (set_block s2 b2).
Proof. intros []. constructor; fcbn; assumption. Qed.
Lemma crel_set_inline_r s1 s2 : crel s1 s2 -> crel s1 (set_inline s2 (a_inline s2)).
Proof. intros []. constructor; fcbn; assumption. Qed.
Lemma crel_add_error s1 s2 e : crel s1 s2 -> crel (add_error s1 e) (add_error s2 e).
Proof. intros []. constructor; fcbn; try assumption. congruence. Qed.
Lemma crel_set_modes s1 s2 d u : crel s1 s2 -> crel (set_modes s1 d u) (set_modes s2 d u).
Proof. intros []. constructor; fcbn; try assumption; reflexivity. Qed.
Lemma crel_set_halted s1 s2 : crel s1 s2 -> crel (set_halted s1) (set_halted s2).
Proof. intros []. constructor; fcbn; try assumption; reflexivity. Qed.
Lemma crel_set_ingredients s1 s2 t : crel s1 s2 -> crel (set_ingredients s1 t) (set_ingredients s2 t).
Proof. intros []. constructor; fcbn; try assumption; reflexivity. Qed.
Lemma crel_set_cookware s1 s2 t : crel s1 s2 -> crel (set_cookware s1 t) (set_cookware s2 t).
Proof. intros []. constructor; fcbn; try assumption; reflexivity. Qed.
Lemma crel_set_timers s1 s2 t : crel s1 s2 -> crel (set_timers s1 t) (set_timers s2 t).
Proof. intros []. constructor; fcbn; try assumption; reflexivity. Qed.
Lemma crel_set_inline s1 s2 n : crel s1 s2 -> crel (set_inline s1 n) (set_inline s2 n).
Proof. intros []. constructor; fcbn; try assumption; reflexivity. Qed.
Lemma crel_set_sections s1 s2 l1 l2 c1 c2 n :
  map norm_section l1 = map norm_section l2 -> norm_section c1 = norm_section c2 -> crel s1 s2 ->
  crel (set_sections s1 l1 c1 n) (set_sections s2 l2 c2 n).
Proof. intros ? ? []. constructor; fcbn; try assumption; reflexivity. Qed.

Lemma brel_weaken e b1 b2 : brel false b1 b2 -> brel e b1 b2.
Proof.
  unfold brel. destruct b1 as [[i1|t1]|], b2 as [[i2|t2]|]; try exact (fun H => H).
  - intros [H N]. split; [apply irel_weaken; exact H | exact N].
  - intros [H N]. split; [apply spins_weaken; exact H | exact N].
Qed.

Lemma arel_weaken e s1 s2 : arel false s1 s2 -> arel e s1 s2.
Proof. intros [Hc Hb]. split; [exact Hc|]. intro Hh. apply brel_weaken. exact (Hb Hh). Qed.

Lemma arel_halted e s1 s2 : crel s1 s2 -> a_halted s1 = true -> arel e s1 s2.
Proof. intros Hc Hh. split; [exact Hc|]. intro F. congruence. Qed.

Lemma arel_intro e s1 s2 : crel s1 s2 -> brel e (a_block s1) (a_block s2) -> arel e s1 s2.
Proof. intros Hc Hb. split; [exact Hc | intros _; exact Hb]. Qed.

(* ---- what the pass reads of finished content: its shape *)
Lemma nsec_inv c1 c2 : norm_section c1 = norm_section c2 ->
  sec_name c1 = sec_name c2 /\ map norm_content (sec_content c1) = map norm_content (sec_content c2).
Proof. unfold norm_section. intro H. injection H as H1 H2. split; assumption. Qed.

Lemma is_step_norm c : is_step (norm_content c) = is_step c.
Proof. destruct c; reflexivity. Qed.

Lemma step_indices_norm l : forall i, step_indices_from i (map norm_content l) = step_indices_from i l.
Proof. induction l as [|c r IH]; intro i; [reflexivity|]. cbn [map step_indices_from]. rewrite is_step_norm, IH. reflexivity. Qed.

Lemma crel_step_indices s1 s2 : crel s1 s2 -> step_indices (sec_content (a_cur s1)) = step_indices (sec_content (a_cur s2)).
Proof.
  intro H. destruct (nsec_inv _ _ (cr_cur _ _ H)) as [_ E]. unfold step_indices.
  rewrite <- (step_indices_norm (sec_content (a_cur s1))), E. apply step_indices_norm.
Qed.

Lemma crel_nsections s1 s2 : crel s1 s2 -> length (a_sections s1) = length (a_sections s2).
Proof. intro H. pose proof (f_equal (@length section) (cr_secs _ _ H)) as E. rewrite !map_length in E. exact E. Qed.

Lemma crel_cur_empty s1 s2 : crel s1 s2 -> section_is_empty (a_cur s1) = section_is_empty (a_cur s2).
Proof.
  intro H. destruct (nsec_inv _ _ (cr_cur _ _ H)) as [E1 E2]. unfold section_is_empty. rewrite E1.
  destruct (sec_content (a_cur s1)), (sec_content (a_cur s2)); try discriminate E2; reflexivity.
Qed.

Lemma crel_pushed s1 s2 : crel s1 s2 -> map norm_section (pushed_sections s1) = map norm_section (pushed_sections s2).
Proof.
  intro H. unfold pushed_sections. rewrite (crel_cur_empty _ _ H). destruct (section_is_empty (a_cur s2)).
  - exact (cr_secs _ _ H).
  - rewrite !map_app. cbn [map]. rewrite (cr_secs _ _ H), (cr_cur _ _ H). reflexivity.
Qed.

Lemma is_nil_snoc {A} (l : list A) a : Events.is_nil (l ++ [a]) = false.
Proof. destruct l; reflexivity. Qed.

Lemma spins_is_nil e s s' : spins e s s' -> (e = true -> s <> []) -> Events.is_nil s = Events.is_nil s'.
Proof. intros H N. destruct H; try reflexivity. exfalso. apply N; [assumption | reflexivity]. Qed.

(* the oracle for find_inline_quantity commutes with the edit: on strings related by [spins] it finds
   a quantity in both or in none, the text before it related strictly, the remainder related again *)
Definition iq_ws_stable (find_iq : str -> option (str * str)) : Prop := forall e s1 s2, spins e s1 s2 ->
  match find_iq s1, find_iq s2 with None, None => True | Some (b1, a1), Some (b2, a2) => spins false b1 b2 /\ spins e a1 a2 | _, _ => False end.

Section WBlind.
  Variable ci_key : str -> str.
  Variable yaml_ok : str -> bool.
  Variable find_iq : str -> option (str * str).
  Variable unit_class : str -> N.
  Variable x : aext.
  Variable acfg : Analysis.acfg.
  Hypothesis yaml_ok_blind : crlf_blind yaml_ok.

  Notation astep inp := (step ci_key yaml_ok find_iq unit_class inp x acfg).
  Notation arun inp := (run ci_key yaml_ok find_iq unit_class inp x acfg).

  (* ---------------------------------------------------------------- the components: frame *)
  Lemma rir_frame s1 s2 d : crel s1 s2 -> resolve_intermediate_ref s1 d = resolve_intermediate_ref s2 d.
  Proof. intro H. unfold resolve_intermediate_ref. rewrite (crel_step_indices _ _ H), (crel_nsections _ _ H). reflexivity. Qed.

  Lemma rr_frame s1 s2 tbl inh new : crel s1 s2 ->
    resolve_reference ci_key s1 tbl inh new = resolve_reference ci_key s2 tbl inh new.
  Proof. intro H. unfold resolve_reference. rewrite (cr_def _ _ H), (cr_dup _ _ H). reflexivity. Qed.

  Ltac split_goal H s1 s2 :=
    repeat first
      [ rewrite (rir_frame s1 s2 _ H)
      | rewrite (rr_frame s1 s2 _ _ _ H)
      | progress cbv beta iota zeta
      | match goal with
        | |- context [match ?y with _ => _ end] =>
            lazymatch y with
            | context [match _ with _ => _ end] => fail
            | _ => destruct y eqn:?
            end
        end ].

  Definition rrel (r1 r2 : astate * nat) : Prop := crel (fst r1) (fst r2) /\ snd r1 = snd r2.

  Lemma ingredient_frame s1 s2 ig : crel s1 s2 -> outrel rrel (ingredient ci_key x s1 ig) (ingredient ci_key x s2 ig).
  Proof.
    intro H. unfold ingredient, outrel, obind, rrel. rewrite (cr_ing _ _ H), (cr_def _ _ H).
    split_goal H s1 s2; try reflexivity; try discriminate; cbn [fst snd];
      (split; [apply crel_add_error, crel_set_ingredients; exact H | reflexivity]).
  Qed.

  Lemma cookware_frame s1 s2 cw : crel s1 s2 -> outrel rrel (cookware ci_key s1 cw) (cookware ci_key s2 cw).
  Proof.
    intro H. unfold cookware, outrel, obind, rrel. rewrite (cr_cw _ _ H), (cr_def _ _ H).
    split_goal H s1 s2; try reflexivity; try discriminate; cbn [fst snd];
      (split; [apply crel_add_error, crel_set_cookware; exact H | reflexivity]).
  Qed.

  Lemma timer_frame s1 s2 t : crel s1 s2 -> rrel (timer unit_class x s1 t) (timer unit_class x s2 t).
  Proof.
    intro H. unfold timer, rrel. cbn [fst snd]. rewrite (cr_tm _ _ H).
    split; [apply crel_add_error, crel_set_timers; exact H | reflexivity].
  Qed.

  (* ---------------------------------------------------------------- the end of a block *)
  Lemma finish_frame s1 s2 c1 c2 :
    crel s1 s2 -> norm_content c1 = norm_content c2 -> skipped acfg c1 = skipped acfg c2 ->
    outrel (arel false) (finish_block acfg s1 c1) (finish_block acfg s2 c2).
  Proof.
    intros Hc Hn Hk. unfold finish_block. rewrite Hk, (cr_def _ _ Hc), (cr_cnt _ _ Hc).
    assert (Hs : is_step c1 = is_step c2) by (rewrite <- (is_step_norm c1), Hn; apply is_step_norm).
    unfold is_text. rewrite Hs.
    assert (Hcur : norm_section {| sec_name := sec_name (a_cur s1); sec_content := sec_content (a_cur s1) ++ [c1] |}
                   = norm_section {| sec_name := sec_name (a_cur s2); sec_content := sec_content (a_cur s2) ++ [c2] |}).
    { destruct (nsec_inv _ _ (cr_cur _ _ Hc)) as [E1 E2]. unfold norm_section. cbn [sec_name sec_content].
      rewrite !map_app. cbn [map]. rewrite Hn, E1, E2. reflexivity. }
    destruct (negb (skipped acfg c2) && (negb (dm_eqb (a_define s2) DMComponents) || negb (is_step c2))).
    - destruct (is_step c2).
      + destruct (4294967295 <=? N.of_nat (a_counter s2)); [reflexivity|]. cbn [outrel].
        apply arel_intro; [|exact I]. apply crel_set_block, crel_set_sections; [exact (cr_secs _ _ Hc) | exact Hcur | exact Hc].
      + cbn [outrel].
        apply arel_intro; [|exact I]. apply crel_set_block, crel_set_sections; [exact (cr_secs _ _ Hc) | exact Hcur | exact Hc].
    - cbn [outrel]. apply arel_intro; [|exact I]. apply crel_set_block. exact Hc.
  Qed.

  Lemma step_end in1 in2 s1 s2 k :
    arel true s1 s2 -> outrel (arel false) (astep in1 s1 (Events.EEnd k)) (astep in2 s2 (Events.EEnd k)).
  Proof.
    intros [Hc Hb]. unfold step. rewrite <- (cr_halt _ _ Hc). destruct (a_halted s1) eqn:Hh.
    - cbn [outrel]. apply arel_halted; assumption.
    - specialize (Hb eq_refl). unfold end_block. unfold brel in Hb.
      destruct (a_block s1) as [[i1|t1]|], (a_block s2) as [[i2|t2]|]; try contradiction.
      + destruct Hb as [Hi Hn]. destruct (Events.block_kind_eqb k Events.BKStep); [|reflexivity].
        apply finish_frame; [exact Hc | |].
        * cbn [norm_content st_items st_number]. rewrite (irel_norm _ _ _ Hi), (cr_cnt _ _ Hc). reflexivity.
        * unfold skipped. cbn [st_items]. rewrite Hn. reflexivity.
      + destruct Hb as [Hs Hn]. rewrite (cr_def _ _ Hc).
        destruct (Events.block_kind_eqb k Events.BKText || dm_eqb (a_define s2) DMText); [|reflexivity].
        apply finish_frame; [exact Hc | |].
        * cbn [norm_content]. unfold norm_text. rewrite (dlb_squeeze_spins _ true _ _ Hs). reflexivity.
        * unfold skipped. rewrite Hn. reflexivity.
      + reflexivity.
  Qed.

  (* ---------------------------------------------------------------- a text event *)
  (* the INLINE_QUANTITIES extension is off, or the oracle for find_inline_quantity commutes with the
     edit ([iq_ws_stable]) and returns a remainder shorter than its argument ([iq_shrinks], the
     hypothesis of Proofs/AnalysisTotal.v under which the model's fuel never runs out) *)
  Hypothesis inline_ok : x_inline x = false \/ (iq_ws_stable find_iq /\ AnalysisTotal.iq_shrinks find_iq).

  Lemma split_iq_rel e : iq_ws_stable find_iq -> AnalysisTotal.iq_shrinks find_iq ->
    forall f1 f2 h1 h2 i1 i2 n, (length h1 < f1)%nat -> (length h2 < f2)%nat -> spins e h1 h2 -> irel false i1 i2 ->
      (e = true -> h1 <> [] \/ i1 <> []) ->
      exists j1 j2 n', split_iq find_iq f1 h1 i1 n = Done (j1, n') /\ split_iq find_iq f2 h2 i2 n = Done (j2, n')
        /\ irel e j1 j2 /\ Events.is_nil j1 = Events.is_nil j2.
  Proof.
    intros Hst Hsh. induction f1 as [|f1 IH]; intros f2 h1 h2 i1 i2 n L1 L2 Hs Hi Hne; [lia|].
    destruct f2 as [|f2]; [lia|]. cbn [split_iq]. pose proof (Hst e h1 h2 Hs) as St.
    destruct (find_iq h1) as [[b1 a1]|] eqn:F1, (find_iq h2) as [[b2 a2]|] eqn:F2; try contradiction.
    - destruct St as [Sb Sa]. apply Hsh in F1. apply Hsh in F2.
      apply IH; [lia | lia | exact Sa | | intros _; right; intro F; apply app_eq_nil in F as [_ F]; discriminate F].
      apply irel_snoc_other; [|reflexivity]. rewrite <- (spins_is_nil false b1 b2 Sb) by discriminate.
      destruct (Events.is_nil b1); [exact Hi | apply irel_snoc_text; assumption].
    - eexists _, _, n. split; [reflexivity|]. split; [reflexivity|].
      destruct h1 as [|c r].
      + cbn [Events.is_nil]. apply spins_nil_l in Hs as [Hw He]. destruct h2 as [|c2 r2]; cbn [Events.is_nil].
        * split; [apply irel_weaken; exact Hi | apply irel_nil; exact Hi].
        * destruct e; [|discriminate (He eq_refl)]. split; [apply irel_snoc_blank; assumption|]. rewrite is_nil_snoc.
          destruct (Hne eq_refl) as [N|N]; [contradiction N; reflexivity|]. destruct i1; [contradiction N; reflexivity | reflexivity].
      + cbn [Events.is_nil]. assert (N2 : h2 <> []) by (apply (spins_ne _ _ _ Hs); discriminate).
        destruct h2 as [|c2 r2]; [contradiction N2; reflexivity|]. cbn [Events.is_nil].
        split; [apply irel_snoc_text; assumption | rewrite !is_nil_snoc; reflexivity].
  Qed.

  Lemma step_text e in1 in2 s1 s2 (u1 u2 : text) :
    spins e (text_str u1) (text_str u2) -> (e = true -> text_str u1 <> []) -> arel false s1 s2 ->
    outrel (arel e) (astep in1 s1 (Events.EText u1)) (astep in2 s2 (Events.EText u2)).
  Proof.
    intros Hs Hne [Hc Hb]. unfold step. rewrite <- (cr_halt _ _ Hc). destruct (a_halted s1) eqn:Hh.
    - cbn [outrel]. apply arel_halted; assumption.
    - specialize (Hb eq_refl). unfold brel in Hb.
      destruct (a_block s1) as [[i1|t1]|] eqn:B1, (a_block s2) as [[i2|t2]|] eqn:B2; try contradiction.
      + destruct Hb as [Hi Hn]. unfold in_step. rewrite (cr_def _ _ Hc).
        destruct (dm_eqb (a_define s2) DMComponents).
        * cbn [outrel]. apply arel_intro; [exact Hc|]. rewrite B1, B2. apply brel_weaken. split; assumption.
        * destruct (x_inline x) eqn:Hx.
          -- destruct inline_ok as [F|[Hst Hsh]]; [congruence|]. rewrite (cr_inl _ _ Hc).
             destruct (split_iq_rel e Hst Hsh (S (length (text_str u1))) (S (length (text_str u2))) _ _ i1 i2 (a_inline s2)
                         (Nat.lt_succ_diag_r _) (Nat.lt_succ_diag_r _) Hs Hi (fun He => or_introl (Hne He)))
               as (j1 & j2 & n' & E1 & E2 & Hj & Hjn).
             rewrite E1, E2. cbn [obind outrel]. apply arel_intro; [apply crel_set_block, crel_set_inline; exact Hc|].
             fcbn. cbn [brel]. split; assumption.
          -- cbn [outrel]. apply arel_intro; [apply crel_set_block; exact Hc|]. fcbn. cbn [brel]. split.
             ++ apply irel_snoc_text; assumption.
             ++ rewrite !is_nil_snoc. reflexivity.
      + destruct Hb as [Hu Hn]. unfold in_text. cbn [outrel].
        apply arel_intro; [apply crel_set_block; exact Hc|]. fcbn. cbn [brel].
        assert (Hs' : spins e (t1 ++ text_str u1) (t2 ++ text_str u2)) by (apply spins_app; assumption).
        split; [exact Hs'|]. apply (spins_is_nil _ _ _ Hs'). intros He E. apply app_eq_nil in E as [_ E]. exact (Hne He E).
      + reflexivity.
  Qed.

  (* one more text of U+0020s on the right, after a component *)
  Definition after_item (s : astate) : Prop :=
    a_halted s = true \/ exists it, a_block s = Some (BStep it) /\ it <> [].

  Lemma blank_no_iq w : iq_ws_stable find_iq -> AnalysisTotal.iq_shrinks find_iq -> sp32 w -> find_iq w = None.
  Proof.
    intros Hst Hsh Hw. pose proof (Hst true [] w (sp_end true w eq_refl Hw)) as St.
    destruct (find_iq []) as [[b a]|] eqn:F0.
    - apply Hsh in F0. cbn [length] in F0. lia.
    - destruct (find_iq w); [contradiction | reflexivity].
  Qed.

  Lemma step_blank_r inp s1 s2 t2 :
    sp32 (text_str t2) -> arel false s1 s2 -> after_item s1 ->
    exists s2', astep inp s2 (abstract_event (EvText t2)) = Done s2' /\ arel true s1 s2'.
  Proof.
    intros Hw [Hc Hb] Ha. cbn [abstract_event]. unfold step. rewrite <- (cr_halt _ _ Hc). destruct (a_halted s1) eqn:Hh.
    - eexists. split; [reflexivity|]. apply arel_halted; assumption.
    - specialize (Hb eq_refl). destruct Ha as [Ha|(it & B1 & Hit)]; [congruence|]. rewrite B1 in Hb. unfold brel in Hb.
      destruct (a_block s2) as [[i2|u2]|] eqn:B2; try contradiction. destruct Hb as [Hi Hn].
      assert (Hit' : Events.is_nil it = false) by (destruct it; [contradiction Hit; reflexivity | reflexivity]).
      unfold in_step. rewrite abs_str, <- (cr_def _ _ Hc).
      destruct (dm_eqb (a_define s1) DMComponents).
      + eexists. split; [reflexivity|]. apply arel_intro; [exact Hc|]. rewrite B1, B2. apply (brel_weaken true). split; assumption.
      + destruct (x_inline x) eqn:Hx.
        * destruct inline_ok as [F|[Hst Hsh]]; [congruence|]. cbn [split_iq]. rewrite (blank_no_iq _ Hst Hsh Hw). cbn [obind].
          eexists. split; [reflexivity|]. apply arel_intro; [apply crel_set_block_r, crel_set_inline_r; exact Hc|].
          fcbn. rewrite B1. cbn [brel]. remember (text_str t2) as w eqn:Ew. destruct w as [|c r]; cbn [Events.is_nil].
          -- split; [apply irel_weaken; exact Hi | exact Hn].
          -- split; [apply irel_snoc_blank; assumption | rewrite is_nil_snoc; exact Hit'].
        * eexists. split; [reflexivity|]. apply arel_intro; [apply crel_set_block_r; exact Hc|].
          fcbn. rewrite B1. cbn [brel]. split; [apply irel_snoc_blank; assumption | rewrite is_nil_snoc; exact Hit'].
  Qed.

  (* ---------------------------------------------------------------- the same event in related states *)
  Lemma arel_add_error e s1 s2 b : arel e s1 s2 -> arel e (add_error s1 b) (add_error s2 b).
  Proof. intros [Hc Hb]. split; [apply crel_add_error; exact Hc | exact Hb]. Qed.
  Lemma arel_set_modes e s1 s2 d u : arel e s1 s2 -> arel e (set_modes s1 d u) (set_modes s2 d u).
  Proof. intros [Hc Hb]. split; [apply crel_set_modes; exact Hc | exact Hb]. Qed.

  Lemma brel_refl b : brel false (Some b) (Some b).
  Proof. destruct b; cbn [brel]; (split; [|reflexivity]); [apply irel_refl | apply spins_refl]. Qed.

  Definition is_comp_ev (ev : Events.event) : bool :=
    match ev with Events.EIngredient _ | Events.ECookware _ | Events.ETimer _ => true | _ => false end.

  Lemma in_text_comp inp s ev u :
    not_text s -> is_comp_ev ev = true -> in_text inp acfg s ev u = Panic site_nontext_in_text.
  Proof. unfold in_text, not_text. intros NT H. destruct ev; try discriminate H; rewrite NT; reflexivity. Qed.

  Lemma in_step_comp s1 s2 ev i1 i2 :
    crel s1 s2 -> irel false i1 i2 -> is_comp_ev ev = true ->
    outrel (arel false) (in_step ci_key find_iq unit_class x s1 ev i1) (in_step ci_key find_iq unit_class x s2 ev i2).
  Proof.
    intros Hc Hi H. destruct ev; try discriminate H; unfold in_step.
    - pose proof (ingredient_frame s1 s2 i Hc) as F.
      destruct (ingredient ci_key x s1 i) as [[s1' n1]|p1], (ingredient ci_key x s2 i) as [[s2' n2]|p2];
        cbn [outrel obind] in *; try contradiction; [|exact F].
      destruct F as [F1 F2]. cbn [fst snd] in *. subst n2. apply arel_intro; [apply crel_set_block; exact F1|].
      fcbn. cbn [brel]. split; [apply irel_snoc_other; [exact Hi | reflexivity] | rewrite !is_nil_snoc; reflexivity].
    - pose proof (cookware_frame s1 s2 c Hc) as F.
      destruct (cookware ci_key s1 c) as [[s1' n1]|p1], (cookware ci_key s2 c) as [[s2' n2]|p2];
        cbn [outrel obind] in *; try contradiction; [|exact F].
      destruct F as [F1 F2]. cbn [fst snd] in *. subst n2. apply arel_intro; [apply crel_set_block; exact F1|].
      fcbn. cbn [brel]. split; [apply irel_snoc_other; [exact Hi | reflexivity] | rewrite !is_nil_snoc; reflexivity].
    - pose proof (timer_frame s1 s2 t Hc) as F.
      destruct (timer unit_class x s1 t) as [s1' n1], (timer unit_class x s2 t) as [s2' n2].
      destruct F as [F1 F2]. cbn [fst snd outrel] in *. subst n2. apply arel_intro; [apply crel_set_block; exact F1|].
      fcbn. cbn [brel]. split; [apply irel_snoc_other; [exact Hi | reflexivity] | rewrite !is_nil_snoc; reflexivity].
  Qed.

  Lemma step_comp_frame inp s1 s2 ev :
    is_comp_ev ev = true -> arel false s1 s2 -> not_text s1 -> outrel (arel false) (astep inp s1 ev) (astep inp s2 ev).
  Proof.
    intros H [Hc Hb] NT. assert (NT2 : not_text s2) by (unfold not_text in *; rewrite <- (cr_def _ _ Hc); exact NT).
    unfold step. rewrite <- (cr_halt _ _ Hc). destruct (a_halted s1) eqn:Hh.
    - cbn [outrel]. apply arel_halted; assumption.
    - specialize (Hb eq_refl). unfold brel in Hb.
      destruct ev; try discriminate H;
        (destruct (a_block s1) as [[i1|t1]|], (a_block s2) as [[i2|t2]|]; try contradiction;
         [ destruct Hb as [Hi _]; apply in_step_comp; assumption
         | rewrite !in_text_comp by (assumption || reflexivity); reflexivity
         | reflexivity ]).
  Qed.

  Lemma step_frame inp s1 s2 ev :
    arel false s1 s2 -> not_text s1 -> outrel (arel false) (astep inp s1 ev) (astep inp s2 ev).
  Proof.
    intros Ha NT. destruct ev; try (apply step_comp_frame; [reflexivity | exact Ha | exact NT]).
    - (* YAML *) pose proof Ha as [Hc Hb]. unfold step. rewrite <- (cr_halt _ _ Hc). destruct (a_halted s1) eqn:Hh; cbn [outrel].
      + apply arel_halted; assumption.
      + apply arel_add_error. exact Ha.
    - (* metadata *) pose proof Ha as [Hc Hb]. unfold step. rewrite <- (cr_halt _ _ Hc). destruct (a_halted s1) eqn:Hh; cbn [outrel].
      + apply arel_halted; assumption.
      + unfold metadata. rewrite (cr_def _ _ Hc), (cr_dup _ _ Hc).
        repeat match goal with |- context [if ?c then _ else _] => destruct c end;
          first [exact Ha | apply arel_set_modes; exact Ha | apply arel_add_error; exact Ha].
    - (* section *) pose proof Ha as [Hc Hb]. unfold step. rewrite <- (cr_halt _ _ Hc). destruct (a_halted s1) eqn:Hh; cbn [outrel].
      + apply arel_halted; assumption.
      + split; [|exact (proj2 Ha)]. apply crel_set_sections; [apply crel_pushed; exact Hc | reflexivity | exact Hc].
    - (* start *) destruct Ha as [Hc Hb]. unfold step. rewrite <- (cr_halt _ _ Hc). destruct (a_halted s1) eqn:Hh; cbn [outrel].
      + apply arel_halted; assumption.
      + rewrite (cr_def _ _ Hc). apply arel_intro; [apply crel_set_block; exact Hc|]. fcbn. apply brel_refl.
    - (* end *) apply step_end. apply arel_weaken. exact Ha.
    - (* text *) apply step_text; [apply spins_refl | discriminate | exact Ha].
    - (* error *) destruct Ha as [Hc Hb]. unfold step. rewrite <- (cr_halt _ _ Hc). destruct (a_halted s1) eqn:Hh; cbn [outrel].
      + apply arel_halted; assumption.
      + apply arel_halted; [apply crel_set_halted; exact Hc | reflexivity].
    - (* warning *) unfold step. pose proof Ha as [Hc Hb]. rewrite <- (cr_halt _ _ Hc).
      destruct (a_halted s1); cbn [outrel]; exact Ha.
  Qed.

  Lemma pair_step in1 in2 s1 s2 e1 e2 :
    erel e1 e2 -> arel false s1 s2 -> not_text s1 ->
    outrel (arel false) (astep in1 s1 (abstract_event e1)) (astep in2 s2 (abstract_event e2)).
  Proof.
    intros He Ha NT. rewrite (step_blind ci_key yaml_ok find_iq unit_class x acfg yaml_ok_blind in1 in2 s1 e1 e2 He NT).
    apply step_frame; assumption.
  Qed.

  Ltac crunch E :=
    repeat (cbv beta iota zeta in E;
            match type of E with
            | context [match ?y with _ => _ end] => destruct y eqn:?; try discriminate E
            end).

  Lemma comp_after inp s c s' :
    is_comp c = true -> not_text s -> astep inp s (abstract_event c) = Done s' -> after_item s'.
  Proof.
    intros Hc NT E. unfold step in E. destruct (a_halted s) eqn:Hh.
    { injection E as <-. left. exact Hh. }
    destruct c; try discriminate Hc; cbn [abstract_event] in E;
      (destruct (a_block s) as [[it|u]|]; [| rewrite in_text_comp in E by (assumption || reflexivity); discriminate E | discriminate E]);
      unfold in_step, obind in E; crunch E; injection E as <-; right; eexists; (split; [reflexivity|]);
      intro F; apply app_eq_nil in F as [_ F]; discriminate F.
  Qed.

  (* ---------------------------------------------------------------- diagnostics *)
  Lemma warning_abs w : is_warning w = true -> abstract_event w = Events.EWarning 0.
  Proof. destruct w; try discriminate. cbn [is_warning abstract_event]. destruct (d_err d); [discriminate | reflexivity]. Qed.

  Lemma step_warning inp s : astep inp s (Events.EWarning 0) = Done s.
  Proof. unfold step. destruct (a_halted s); reflexivity. Qed.

  Lemma step_errors in1 in2 s1 s2 d1 d2 :
    d_err d1 = true -> d_err d2 = true -> arel false s1 s2 ->
    outrel (arel false) (astep in1 s1 (abstract_event (EvDiag d1))) (astep in2 s2 (abstract_event (EvDiag d2))).
  Proof.
    intros H1 H2 [Hc Hb]. cbn [abstract_event]. rewrite H1, H2. unfold step. rewrite <- (cr_halt _ _ Hc).
    destruct (a_halted s1) eqn:Hh; cbn [outrel].
    - apply arel_halted; assumption.
    - apply arel_halted; [apply crel_set_halted; exact Hc | reflexivity].
  Qed.

  (* ---------------------------------------------------------------- the event loop *)
  Lemma ntm_head a r : no_text_mode x (a :: r) -> x_modes x = false \/ selects_text_mode a = false.
  Proof. intros [H|H]; [left; exact H | right; inversion H; assumption]. Qed.
  Lemma ntm_tail a r : no_text_mode x (a :: r) -> no_text_mode x r.
  Proof. intros [H|H]; [left; exact H | right; inversion H; assumption]. Qed.

  Lemma run_wblind in1 in2 e1 e2 :
    fwr e1 e2 -> forall s1 s2, arel false s1 s2 -> not_text s1 -> no_text_mode x e1 ->
    outrel (arel false) (arun in1 s1 (abstract_events e1)) (arun in2 s2 (abstract_events e2)).
  Proof.
    unfold abstract_events.
    induction 1 as [|a b l1 l2 He _ IH|t1 t2 l1 l2 Ht _ IH|d1 d2 l1 l2 H1 H2 _ IH|w l1 l2 Hw _ IH|w l1 l2 Hw _ IH
                   |k t1 t2 l1 l2 Ht Hn _ IH|k t2 c1 c2 l1 l2 Hb Hc He _ IH]; intros s1 s2 Ha NT Hm; cbn [map run].
    - exact Ha.
    - eapply outrel_bind; [apply pair_step; assumption|]. intros u1 u2 Hu E1 _. apply IH; [exact Hu | | exact (ntm_tail _ _ Hm)].
      exact (step_define ci_key yaml_ok find_iq unit_class x acfg in1 s1 a u1 (ntm_head _ _ Hm) E1 NT).
    - eapply outrel_bind; [apply (step_text false); [exact Ht | discriminate | exact Ha]|].
      intros u1 u2 Hu E1 _. apply IH; [exact Hu | | exact (ntm_tail _ _ Hm)].
      exact (step_define ci_key yaml_ok find_iq unit_class x acfg in1 s1 (EvText t1) u1 (ntm_head _ _ Hm) E1 NT).
    - eapply outrel_bind; [apply step_errors; assumption|]. intros u1 u2 Hu E1 _. apply IH; [exact Hu | | exact (ntm_tail _ _ Hm)].
      exact (step_define ci_key yaml_ok find_iq unit_class x acfg in1 s1 (EvDiag d1) u1 (ntm_head _ _ Hm) E1 NT).
    - rewrite (warning_abs _ Hw), step_warning. cbn [obind]. apply IH; [exact Ha | exact NT | exact (ntm_tail _ _ Hm)].
    - rewrite (warning_abs _ Hw), step_warning. cbn [obind]. apply IH; [exact Ha | exact NT | exact Hm].
    - eapply outrel_bind; [apply (step_text true); [exact Ht | intros _; exact Hn | exact Ha]|].
      intros u1 u2 Hu E1 _.
      pose proof (step_define ci_key yaml_ok find_iq unit_class x acfg in1 s1 (EvText t1) u1 (ntm_head _ _ Hm) E1 NT) as NTu.
      pose proof (ntm_tail _ _ Hm) as Hm'.
      eapply outrel_bind; [apply step_end; exact Hu|]. intros v1 v2 Hv E1' _.
      apply IH; [exact Hv | | exact (ntm_tail _ _ Hm')].
      exact (step_define ci_key yaml_ok find_iq unit_class x acfg in1 u1 (EvEnd k) v1 (ntm_head _ _ Hm') E1' NTu).
    - eapply outrel_bind; [apply pair_step; assumption|]. intros u1 u2 Hu E1 _.
      pose proof (step_define ci_key yaml_ok find_iq unit_class x acfg in1 s1 c1 u1 (ntm_head _ _ Hm) E1 NT) as NTu.
      pose proof (ntm_tail _ _ Hm) as Hm'.
      destruct (step_blank_r in2 u1 u2 t2 Hb Hu (comp_after in1 s1 c1 u1 Hc NT E1)) as (u2' & E2 & Hu').
      rewrite E2. cbn [obind].
      eapply outrel_bind; [apply step_end; exact Hu'|]. intros v1 v2 Hv E1' _.
      apply IH; [exact Hv | | exact (ntm_tail _ _ Hm')].
      exact (step_define ci_key yaml_ok find_iq unit_class x acfg in1 u1 (EvEnd k) v1 (ntm_head _ _ Hm') E1' NTu).
  Qed.

  (* ---------------------------------------------------------------- the result *)
  Lemma output_rel s1 s2 : crel s1 s2 -> option_map rnorm (output s1) = option_map rnorm (output s2).
  Proof.
    intro H. unfold output. rewrite (cr_halt _ _ H). destruct (a_halted s2); [reflexivity|]. cbn [option_map]. unfold rnorm.
    cbn [r_sections r_ingredients r_cookware r_timers r_inline].
    rewrite (crel_pushed _ _ H), (cr_ing _ _ H), (cr_cw _ _ H), (cr_tm _ _ H), (cr_inl _ _ H). reflexivity.
  Qed.

  Lemma valid_rel s1 s2 : crel s1 s2 -> is_valid s1 = is_valid s2.
  Proof. intro H. unfold is_valid. rewrite (cr_halt _ _ H), (cr_err _ _ H). reflexivity. Qed.

  (* ANALYSIS, UP TO WHITESPACE IN STEP TEXT: event streams related by the trailing edit give the same
     recipe up to [rnorm], the same validity, the same panic *)
  Theorem analyse_wblind_gen in1 in2 e1 e2 :
    fwr e1 e2 -> no_text_mode x e1 ->
    match analyse ci_key yaml_ok find_iq unit_class in1 x acfg (abstract_events e1),
          analyse ci_key yaml_ok find_iq unit_class in2 x acfg (abstract_events e2) with
    | Done (o1, v1), Done (o2, v2) => option_map rnorm o1 = option_map rnorm o2 /\ v1 = v2
    | Panic p1, Panic p2 => p1 = p2
    | _, _ => False
    end.
  Proof.
    intros H Hm. unfold analyse.
    assert (A0 : arel false init init) by (apply arel_intro; [apply crel_refl | exact I]).
    pose proof (run_wblind in1 in2 e1 e2 H init init A0 eq_refl Hm) as R.
    destruct (arun in1 init (abstract_events e1)) as [s1|p1], (arun in2 init (abstract_events e2)) as [s2|p2];
      cbn [outrel obind] in *; try contradiction; [|exact R].
    destruct R as [Hc _]. split; [apply output_rel; exact Hc | apply valid_rel; exact Hc].
  Qed.
End WBlind.

Section Statements.
  Variable ci_key : str -> str.
  Variable yaml_ok : str -> bool.
  Variable find_iq : str -> option (str * str).
  Variable unit_class : str -> N.
  Variable x : aext.
  Variable acfg : Analysis.acfg.
  Hypothesis yaml_ok_blind : crlf_blind yaml_ok.

  (* INLINE_QUANTITIES off: nothing is asked of the oracles but [crlf_blind yaml_ok] *)
  Theorem analyse_wblind in1 in2 e1 e2 :
    fwr e1 e2 -> no_text_mode x e1 -> x_inline x = false ->
    match analyse ci_key yaml_ok find_iq unit_class in1 x acfg (abstract_events e1),
          analyse ci_key yaml_ok find_iq unit_class in2 x acfg (abstract_events e2) with
    | Done (o1, v1), Done (o2, v2) => option_map rnorm o1 = option_map rnorm o2 /\ v1 = v2
    | Panic p1, Panic p2 => p1 = p2
    | _, _ => False
    end.
  Proof.
    intros H Hm Hx. exact (analyse_wblind_gen ci_key yaml_ok find_iq unit_class x acfg yaml_ok_blind (or_introl Hx) in1 in2 e1 e2 H Hm).
  Qed.

  (* INLINE_QUANTITIES on or off *)
  Theorem analyse_wblind_iq in1 in2 e1 e2 :
    fwr e1 e2 -> no_text_mode x e1 ->
    x_inline x = false \/ (iq_ws_stable find_iq /\ AnalysisTotal.iq_shrinks find_iq) ->
    match analyse ci_key yaml_ok find_iq unit_class in1 x acfg (abstract_events e1),
          analyse ci_key yaml_ok find_iq unit_class in2 x acfg (abstract_events e2) with
    | Done (o1, v1), Done (o2, v2) => option_map rnorm o1 = option_map rnorm o2 /\ v1 = v2
    | Panic p1, Panic p2 => p1 = p2
    | _, _ => False
    end.
  Proof.
    intros H Hm Hx. exact (analyse_wblind_gen ci_key yaml_ok find_iq unit_class x acfg yaml_ok_blind Hx in1 in2 e1 e2 H Hm).
  Qed.
End Statements.

(* ---------------------------------------------------------------- the hypotheses are satisfiable; the normal form at work *)
Example iq_hyps_sat : iq_ws_stable (fun _ => None) /\ AnalysisTotal.iq_shrinks (fun _ => None).
Proof. split; [intros e s1 s2 _; exact I | intros h b a F; discriminate F]. Qed.

Example norm_items_ex :
  norm_items true (merge_items [IText [32; 97; 32; 32]; IText [9; 98; 32]; IIngredient 0; IText [32; 32]])
  = [IText [97; 32; 98; 32]; IIngredient 0].
Proof. reflexivity. Qed.

Example norm_text_ex : norm_text [32; 97; 32; 9; 98; 32; 32] = [97; 32; 98].
Proof. reflexivity. Qed.

(* the edited stream of "a @b{}" with blanks appended: one more text event *)
Example fwr_sat t c : sp32 (text_str t) ->
  fwr [EvStart true; EvIngredient c; EvEnd true] [EvStart true; EvIngredient c; EvText t; EvEnd true].
Proof.
  intro H. apply fw_cons; [reflexivity|]. apply fw_end_blank; [exact H | reflexivity | reflexivity | apply fw_nil].
Qed.
