(* C03_parse_total: the model of CooklangParser::parse - the pull parser (Model/Parser.v), the
   bridge (Model/EventBridge.v) and the analysis pass (Model/Analysis.v) - returns a value for
   every input.  Composition of
     events_ok          (Proofs/ParserTotal.v)   the event stream exists
     events_shaped      (Proofs/ParserShape.v)   it lies in the grammar the analysis pass relies on
     event_spans_all_ok (Proofs/ParserSpans.v)   every component span is a slice of the source
     analyse_total      (Proofs/AnalysisTotal.v) on such a stream no panic site of the collector is reached
   and of the count proved here: a block emits at most one End event and there are at most as many
   blocks as tokens plus one, so a source of n characters yields at most n + 1 End events - which
   keeps the u32 step counter (event_consumer.rs:184) from overflowing for n < 2^32 - 3. *)
From CL Require Import Base.StrLemmas Model.Lexer Model.Parser Model.EventBridge
  Proofs.LexerProofs Proofs.ParserSeg Proofs.ParserFM Proofs.ParserWp Proofs.ParserTotal Proofs.ParserSpans
  Proofs.ParserShape.
From CL Require Model.Events Model.Analysis Model.AnalysisSpec Proofs.AnalysisTotal.
From Coq Require Import Lia.
Open Scope nat_scope.

(* ------------------------------------------------------------------ counting End events *)
Definition is_end_ev (ev : pevent) : bool := match ev with EvEnd _ => true | _ => false end.
Definition cnt (evs : list pevent) : nat := length (filter is_end_ev evs).

Lemma cnt_app a b : cnt (a ++ b) = cnt a + cnt b.
Proof. unfold cnt. rewrite filter_app, app_length. reflexivity. Qed.

Lemma cnt_rev a : cnt (rev a) = cnt a.
Proof.
  induction a as [|e a IH]; [reflexivity|]. cbn [rev]. rewrite cnt_app, IH. unfold cnt. cbn [filter].
  destruct (is_end_ev e); cbn [length]; lia.
Qed.

Lemma cnt_diags ds : Forall (fun e => is_diag e = true) ds -> cnt ds = 0.
Proof.
  induction 1 as [|d ds Hd _ IH]; [reflexivity|]. unfold cnt in *. cbn [filter].
  destruct d; try discriminate. exact IH.
Qed.

Lemma cnt_quiet s s' : quiet s s' -> cnt (b_evs s') = cnt (b_evs s).
Proof. intros (ds & -> & F). rewrite cnt_app, (cnt_diags ds F). reflexivity. Qed.

Lemma ends_abstract evs : AnalysisTotal.ends (abstract_events evs) = cnt evs.
Proof.
  unfold AnalysisTotal.ends, cnt, abstract_events. induction evs as [|e r IH]; [reflexivity|].
  cbn [map filter]. destruct e; cbn [abstract_event AnalysisTotal.is_end is_end_ev]; try exact IH.
  - cbn [length]. now rewrite IH.
  - destruct (d_err d); exact IH.
Qed.

(* [m] takes a queue with at most base + a End events to one with at most base + b *)
Definition cm {A} (a b : nat) (m : M A) (P : A -> Prop) : Prop :=
  forall s x s', m s = Done (x, s') ->
    (forall base, cnt (b_evs s) <= base + a -> cnt (b_evs s') <= base + b) /\ P x.

Lemma cm_bind {A B} a b c (m : M A) (f : A -> M B) P Q :
  cm a b m P -> (forall x, P x -> cm b c (f x) Q) -> cm a c (bind m f) Q.
Proof.
  intros Hm Hf s y s2 E1. unfold bind in E1. destruct (m s) as [[x s1]|e] eqn:Em; [|discriminate].
  destruct (Hm _ _ _ Em) as (H1 & Px). destruct (Hf x Px _ _ _ E1) as (H2 & Qy). split; [|exact Qy].
  intros base H. apply H2, H1, H.
Qed.

Lemma cm_relv k {A} (m : M A) a P : rel k m -> valp m P -> cm a a m P.
Proof.
  intros Hr Hv s x s' E1. split; [|eapply Hv; exact E1].
  intros base H. rewrite (cnt_quiet s s'); [exact H|]. eapply rl_quiet, Hr. exact E1.
Qed.

Lemma cm_rel k {A} (m : M A) a : rel k m -> cm a a m any.
Proof. intros Hr. eapply cm_relv; [exact Hr|]. intros s x s' _. exact I. Qed.

Lemma cm_ret {A} (x : A) a (P : A -> Prop) : P x -> cm a a (ret x) P.
Proof. intros H s x' s' E1. injection E1 as <- <-. split; [tauto|exact H]. Qed.

Lemma cm_panic {A} site a b (P : A -> Prop) : cm a b (panic site) P.
Proof. intros s x s' E1. discriminate. Qed.

Lemma cm_event_other ev a : is_end_ev ev = false -> cm a a (event ev) any.
Proof.
  intros H s x s' E1. injection E1 as _ <-. split; [|exact I]. cbn [b_evs]. intros base H0.
  unfold cnt in *. cbn [filter]. rewrite H. exact H0.
Qed.

Lemma cm_event_end k a : cm a (S a) (event (EvEnd k)) any.
Proof.
  intros s x s' E1. injection E1 as _ <-. split; [|exact I]. cbn [b_evs]. intros base H0.
  unfold cnt in *. cbn [filter is_end_ev length]. lia.
Qed.

Lemma cm_mono {A} a b b' (m : M A) P : cm a b m P -> b <= b' -> cm a b' m P.
Proof.
  intros H L s x s' E1. destruct (H _ _ _ E1) as (H1 & H2). split; [|exact H2].
  intros base H0. specialize (H1 base H0). lia.
Qed.

Lemma item_not_end ev : item_ok ev -> is_end_ev ev = false.
Proof. unfold item_ok. destruct ev; try reflexivity. cbn. discriminate. Qed.

Section Blocks.
  Variable cfg : pcfg.

  Lemma step_comp_cm k :
    cm 0 0 (match k with
            | KAt => with_recover (ingredient_p cfg)
            | KHash => with_recover (cookware_p cfg)
            | KTilde => with_recover (timer_p cfg)
            | _ => ret None
            end) opt_item_ok.
  Proof.
    destruct k; try (apply cm_ret; apply opt_item_ok_none);
      (eapply cm_relv; [apply rel_with_recover; auto with prel|apply valp_with_recover]).
    - apply valp_ingredient_p.
    - apply valp_cookware_p.
    - apply valp_timer_p.
  Qed.

  Ltac mrel := eapply cm_bind; [eapply (cm_rel false); first [solve [auto with prel]|apply rel_weaken; solve [auto with prel]]|intros ? _].

  Lemma step_loop_cm fuel : cm 0 0 (step_loop cfg fuel) any.
  Proof.
    induction fuel as [|f IH]; cbn [step_loop]; [apply cm_panic|].
    eapply cm_bind; [eapply (cm_rel false); auto with prel|]. intros r _.
    destruct r as [|r0 rr]; [apply cm_ret; exact I|].
    mrel. eapply cm_bind; [apply step_comp_cm|]. intros [ev|] Hev.
    - eapply cm_bind; [apply cm_event_other, item_not_end, Hev; reflexivity|]. intros _ _. exact IH.
    - mrel. mrel. mrel. eapply cm_bind; [eapply (cm_rel false); auto with prel|]. intros t _.
      eapply (cm_bind _ _ _ _ _ any); [|intros _ _; exact IH].
      destruct (frags t) as [|f0 fr] eqn:Ef; [apply cm_ret; exact I|].
      apply cm_event_other. reflexivity.
  Qed.

  Lemma parse_step_cm : cm 0 1 (parse_step cfg) any.
  Proof.
    unfold parse_step. eapply cm_bind; [apply (cm_event_other _ 0); reflexivity|]. intros _ _.
    mrel. eapply cm_bind; [apply step_loop_cm|]. intros _ _.
    apply cm_event_end.
  Qed.

  Lemma text_block_loop_cm fuel : cm 0 0 (text_block_loop cfg fuel) any.
  Proof.
    induction fuel as [|f IH]; cbn [text_block_loop]; [apply cm_panic|].
    eapply cm_bind; [eapply (cm_rel false); auto with prel|]. intros r _.
    destruct r as [|r0 rr]; [apply cm_ret; exact I|].
    mrel. eapply cm_bind; [eapply (cm_rel false)|intros ? _].
    { match goal with |- rel _ (match ?x with _ => _ end) => destruct x end; rel_auto. }
    mrel. mrel. mrel. eapply cm_bind; [eapply (cm_rel false); auto with prel|]. intros t _.
    eapply (cm_bind _ _ _ _ _ any).
    - destruct (is_text_empty t) eqn:Ee; [apply cm_ret; exact I|].
      apply cm_event_other. reflexivity.
    - intros _ _. mrel. destruct (_ <? _)%nat; [exact IH|apply cm_panic].
  Qed.

  Lemma parse_text_block_cm : cm 0 1 (parse_text_block cfg) any.
  Proof.
    unfold parse_text_block. eapply cm_bind; [apply (cm_event_other _ 0); reflexivity|]. intros _ _.
    mrel. eapply cm_bind; [apply text_block_loop_cm|]. intros _ _.
    apply cm_event_end.
  Qed.

  Lemma parse_multiline_block_cm : cm 0 1 (parse_multiline_block cfg) any.
  Proof.
    unfold parse_multiline_block. mrel. destruct (forallb _ _).
    - eapply cm_mono; [eapply (cm_rel false); rel_auto|lia].
    - mrel. match goal with |- cm _ _ (match ?x with _ => _ end) _ => destruct x end;
        first [apply parse_text_block_cm|apply parse_step_cm].
  Qed.

  Lemma line_not_end ev : line_ev ev -> is_end_ev ev = false.
  Proof. destruct ev; cbn [line_ev]; try contradiction; reflexivity. Qed.

  Lemma parse_block_cm old_style : cm 0 1 (parse_block cfg old_style) any.
  Proof.
    unfold parse_block. mrel.
    eapply (cm_bind 0 0 1 _ _ opt_line_ev).
    - match goal with |- cm _ _ (match ?x with _ => _ end) _ => destruct x end;
        try (apply cm_ret; apply opt_line_none).
      + eapply cm_relv; [rel_auto|]. apply valp_with_recover.
        eapply (valp_bind _ _ opt_line_ev); [apply valp_metadata_entry|]. intros [ev|] Hev; [|apply valp_ret; apply opt_line_none].
        pose proof (Hev ev eq_refl) as Hl.
        destruct ev; try (apply valp_ret; exact Hev). destruct (meta_kept _ _ _); apply valp_ret; [exact Hev|apply opt_line_none].
      + eapply cm_relv; [rel_auto|]. apply valp_with_recover, valp_section_p.
    - intros [ev|] Hev; [|apply parse_multiline_block_cm].
      eapply cm_mono; [apply cm_event_other, line_not_end, Hev; reflexivity|lia].
  Qed.

  Lemma run_block_cnt ts evs old_style evs' :
    run_block ts evs (parse_block cfg old_style) = Done evs' -> cnt evs' <= S (cnt evs).
  Proof.
    unfold run_block. destruct ts as [|t0 tr]; [discriminate|].
    match goal with |- match ?y with _ => _ end = _ -> _ => destruct y as [[u s1]|e] eqn:Em; [|discriminate] end.
    destruct (b_rest s1); [|discriminate]. intro H. injection H as <-.
    destruct (parse_block_cm old_style _ _ _ Em) as (H1 & _). specialize (H1 (cnt evs)). cbn [b_evs] in H1. lia.
  Qed.

  Lemma blocks_loop_cnt fuel : forall ts old_style evs evs',
    blocks_loop cfg fuel ts old_style evs = Done evs' -> cnt evs' <= cnt evs + fuel.
  Proof.
    induction fuel as [|f IH]; intros ts old_style evs evs' H; cbn [blocks_loop] in H; [discriminate|].
    destruct (next_block (S (length ts)) ts) as [[blk r]|]; [|injection H as <-; lia].
    destruct (run_block blk evs (parse_block cfg old_style)) as [evs1|] eqn:Er; cbn [obind] in H; [|discriminate].
    apply IH in H. apply run_block_cnt in Er. lia.
  Qed.
End Blocks.

(* tokens are not empty and tile the text they were cut from: no more tokens than characters *)
Lemma concat_length_ge {A} (l : list (list A)) : Forall (fun y => y <> []) l -> length l <= length (concat l).
Proof.
  induction 1 as [|y l Hy _ IH]; [reflexivity|]. cbn [concat length]. rewrite app_length.
  destruct y; [congruence|]. cbn [length]. lia.
Qed.

Lemma lex_count (U : N -> ucls) s off ts : lex_at U s off = Some ts -> length ts <= length s.
Proof.
  intro H. pose proof (lex_tiles U s off ts H) as T.
  assert (F : Forall (fun t => tstr t <> []) ts) by (eapply lex_fuel_nonempty; exact H).
  rewrite <- T. rewrite <- (map_length tstr ts). apply concat_length_ge.
  apply Forall_map. exact F.
Qed.

(* at most one End event per character of the source, plus one *)
Theorem events_ends_bound (U : N -> ucls) (cfg : pcfg) (s : str) (evs : list pevent) :
  events U cfg s = Done evs -> cnt evs <= S (length s).
Proof.
  unfold events. intro H. destruct (parse_frontmatter cfg s) as [fm|] eqn:Ef.
  - destruct (parse_frontmatter_located _ _ _ Ef) as ((pre & Es & _) & _).
    destruct (lex_at U (cook_text fm) (cook_off fm)) as [ts|] eqn:El; [|discriminate].
    match type of H with obind ?y _ = _ => destruct y as [evs1|] eqn:Eb; cbn [obind] in H; [|discriminate] end.
    injection H as <-. rewrite cnt_rev. apply blocks_loop_cnt in Eb. apply lex_count in El.
    assert (length (cook_text fm) <= length s) by (rewrite Es, app_length; lia).
    change (cnt [EvYaml (text_from_str (yaml_text fm) (yaml_off fm))]) with 0 in Eb. lia.
  - destruct (lex_at U s 0) as [ts|] eqn:El; [|discriminate].
    match type of H with obind ?y _ = _ => destruct y as [evs1|] eqn:Eb; cbn [obind] in H; [|discriminate] end.
    injection H as <-. rewrite cnt_rev. apply blocks_loop_cnt in Eb. apply lex_count in El.
    change (cnt []) with 0 in Eb. lia.
Qed.

(* ------------------------------------------------------------------ component spans are slices *)
Lemma abstract_span_ok s ev :
  Forall (span_ok s) (event_spans ev) -> AnalysisTotal.ev_span_ok s (abstract_event ev).
Proof.
  intro F. destruct ev; cbn [abstract_event AnalysisTotal.ev_span_ok]; try exact I.
  - cbn [event_spans] in F. inversion F as [|? ? H _]; subst. cbn [Events.pi_span].
    destruct (AnalysisTotal.span_ok_slice s _ H) as (sl & ->). discriminate.
  - cbn [event_spans] in F. inversion F as [|? ? H _]; subst. cbn [Events.pc_span].
    destruct (AnalysisTotal.span_ok_slice s _ H) as (sl & ->). discriminate.
  - cbn [event_spans] in F. inversion F as [|? ? H _]; subst. cbn [Events.pt_span].
    destruct (AnalysisTotal.span_ok_slice s _ H) as (sl & ->). discriminate.
  - destruct (d_err d); exact I.
Qed.

Lemma abstract_spans_ok s evs :
  Forall (span_ok s) (flat_map event_spans evs) ->
  Forall (AnalysisTotal.ev_span_ok s) (abstract_events evs).
Proof.
  induction evs as [|e r IH]; cbn [flat_map abstract_events map]; intro F; [constructor|].
  apply Forall_app in F as [F1 F2]. constructor; [apply abstract_span_ok; exact F1|apply IH; exact F2].
Qed.

(* ------------------------------------------------------------------ CooklangParser::parse *)
(* lib.rs parse / parse_with_options: PullParser::new(input, extensions) piped into
   analysis::parse_events(events, input, extensions, converter, options).  [x] is what the analysis
   pass reads of the extensions; it is left free (the theorem holds for every pairing of [p_ext cfg]
   and [x], in particular for the one the code uses, where both come from the same bit set). *)
Definition parse_model (U : N -> ucls) (cfg : pcfg) ci_key yaml_ok find_iq unit_class (x : Analysis.aext) (s : str)
  : outcome (option Analysis.recipe * bool) :=
  obind (events U cfg s) (fun pevs =>
    Analysis.analyse ci_key yaml_ok find_iq unit_class s x Analysis.cfgF (abstract_events pevs)).

Theorem parse_total (U : N -> ucls) (cfg : pcfg) ci_key yaml_ok find_iq unit_class x (s : str) :
  p_strict_escape cfg = false -> p_note_label_old cfg = false ->
  AnalysisTotal.iq_shrinks find_iq ->
  (N.of_nat (length s) < 4294967293)%N ->
  exists r, parse_model U cfg ci_key yaml_ok find_iq unit_class x s = Done r.
Proof.
  intros H1 H2 Hq L. unfold parse_model.
  destruct (events_ok U cfg s H1) as (pevs & E & _). rewrite E. cbn [obind].
  apply (AnalysisTotal.analyse_total ci_key yaml_ok find_iq unit_class s x Analysis.cfgF eq_refl eq_refl Hq).
  - exists Events.POut. exact (events_shaped U cfg s pevs E).
  - apply abstract_spans_ok. exact (event_spans_all_ok U cfg s pevs H1 H2 E).
  - rewrite ends_abstract. pose proof (events_ends_bound U cfg s pevs E). unfold AnalysisTotal.counter_max. lia.
Qed.
