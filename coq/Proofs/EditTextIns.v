(* Property C17, text mode: the block comment inserted after a word or number token ([jsim],
   Proofs/EditIns*.v) with the SOURCE of every component event related, as Proofs/EditTextSim.v does
   for [ksim].

   [crelF e1 e2]: the two spans cut out of the two sources the texts of token runs [c1], [c2] of the
   two documents whose NON-COMMENT tokens are [ksim]-related - what `in_text` keeps of them after
   the repair 200c896 is then equal.  The relational logic [HJ] of Proofs/EditInsDefs.v has arbitrary
   pre- and postconditions, so the ghost [G] (unary tape invariant on either side, [crelF] event
   queues) is simply added to both ([Pp], [Qp]); computations that push no component event are
   lifted by the frame judgement of Proofs/EditTextFrame.v ([liftJ]).  For the component attempt of
   the step loop ([compJ]) the consumed runs are what the two rests lose: both rests are related
   before ([anyR]) and after, the relation keeps the non-comment tokens one to one
   ([anyR_F]), so the non-comment tokens of the consumed runs are related too. *)
From Coq Require Import Lia.
From CL Require Import Base.StrLemmas Model.Lexer Model.PText Model.CommentMask Model.Parser Model.Edits
  Proofs.LexerProofs Proofs.ParserSeg Proofs.ParserCover Proofs.ParserCoverFrame Proofs.ParserOrder Proofs.ParserFM
  Proofs.C02Quiet Proofs.EditParserProofs Proofs.EditSimDefs Proofs.EditSimComp Proofs.EditSimBlock Proofs.EditSimDoc
  Proofs.EditInsDefs Proofs.EditInsPrim Proofs.EditInsStep Proofs.EditInsSplit Proofs.EditAnalysis
  Proofs.EditTextFrame Proofs.EditTextSim.
From CL Require Model.Analysis.
Open Scope N_scope.

Notation F := (filter not_comment).

Lemma swt_not_comment k : swt k = true -> is_comment k = false.
Proof. destruct k; intro H; try discriminate; reflexivity. Qed.

Lemma jsim_F m l1 l2 : jsim m l1 l2 -> ksim (F l1) (F l2).
Proof.
  induction 1 as [m | m a b r1 r2 Hab _ IH | a b cm w r1 r2 Hab Ka Kc Nc Kw _ IH]; [constructor| |].
  - cbn [filter]. unfold not_comment at 1 4. rewrite (krel_kind _ _ Hab).
    destruct (is_comment (kind b)); cbn [negb]; [exact IH | constructor; assumption].
  - assert (Na : not_comment a = true) by (unfold not_comment; rewrite (swt_not_comment _ Ka); reflexivity).
    assert (Nb : not_comment b = true).
    { unfold not_comment. rewrite <- (krel_kind _ _ Hab), (swt_not_comment _ Ka). reflexivity. }
    assert (Ncm : not_comment cm = false) by (unfold not_comment; rewrite Kc; reflexivity).
    change (F (a :: w :: r1)) with (if not_comment a then a :: F (w :: r1) else F (w :: r1)).
    change (F (b :: cm :: r2)) with (if not_comment b then b :: (if not_comment cm then cm :: F r2 else F r2)
                                     else (if not_comment cm then cm :: F r2 else F r2)).
    rewrite Na, Nb, Ncm. constructor; assumption.
Qed.

Lemma anyR_F l1 l2 : anyR l1 l2 -> ksim (F l1) (F l2).
Proof.
  intros [[m H] | (w & r1 & cm & r2 & -> & -> & Kw & Kc & _ & H)]; [exact (jsim_F _ _ _ H)|].
  assert (Ncm : not_comment cm = false) by (unfold not_comment; rewrite Kc; reflexivity).
  change (F (cm :: r2)) with (if not_comment cm then cm :: F r2 else F r2). rewrite Ncm. exact (jsim_F _ _ _ H).
Qed.

Section Ins.
  Variable src1 src2 : str.
  Variable D1 D2 : list tok.
  Variable cfg : pcfg.
  Hypothesis HD1 : segx src1 D1.
  Hypothesis HD2 : segx src2 D2.

  Definition crelF (e1 e2 : pevent) : Prop :=
    match comp_span e1, comp_span e2 with
    | Some sp1, Some sp2 =>
        exists c1 c2, ksim (F c1) (F c2) /\ sr D1 c1 /\ sr D2 c2
          /\ Analysis.byte_slice src1 sp1 = Some (concat (map tstr c1))
          /\ Analysis.byte_slice src2 sp2 = Some (concat (map tstr c2))
    | _, _ => True
    end.
  Definition erelF (e1 e2 : pevent) : Prop := erel e1 e2 /\ crelF e1 e2.
  Definition evrelF (l1 l2 : list pevent) : Prop := Forall2 erel l1 l2 /\ Forall2 crelF l1 l2.

  Lemma crelF_noncomp e1 e2 : noncomp e1 -> crelF e1 e2.
  Proof. intro H. unfold crelF. rewrite H. exact I. Qed.

  Lemma crelF_ext es1 o1 es2 o2 :
    Forall2 erel (es1 ++ o1) (es2 ++ o2) -> Forall2 crelF o1 o2 -> Forall noncomp es1 ->
    Forall2 crelF (es1 ++ o1) (es2 ++ o2).
  Proof.
    intros H Gc Nc. destruct (Forall2_app_len_r _ _ _ _ _ (F2_len _ _ _ Gc) H) as [He _].
    apply Forall2_app; [|exact Gc]. clear -He Nc.
    induction He as [|a b r1 r2 _ _ IH]; [constructor|]. inversion Nc; subst.
    constructor; [apply crelF_noncomp; assumption | apply IH; assumption].
  Qed.

  (* the ghost *)
  Definition G (s1 s2 : bp) : Prop := tinv D1 s1 /\ tinv D2 s2 /\ Forall2 crelF (b_evs s1) (b_evs s2).
  Definition Pp (P : bp -> bp -> Prop) : bp -> bp -> Prop := fun s1 s2 => P s1 s2 /\ G s1 s2.
  Definition Qp {A B} (Q : A -> bp -> B -> bp -> Prop) : A -> bp -> B -> bp -> Prop :=
    fun a s1 b s2 => Q a s1 b s2 /\ G s1 s2.

  Lemma HJ_pure_l {A B} (Fp : Prop) (T : bp -> bp -> Prop) (m1 : M A) (m2 : M B) Q :
    (Fp -> HJ (Pp T) m1 m2 Q) -> HJ (fun s1 s2 => (Fp /\ T s1 s2) /\ G s1 s2) m1 m2 Q.
  Proof. intros H s1 s2 [[HF HT] HG]. exact (H HF s1 s2 (conj HT HG)). Qed.

  Lemma G_step s1 s2 x1 x2 :
    G s1 s2 -> tfr s1 x1 -> efr s1 x1 -> tfr s2 x2 -> efr s2 x2 -> EV x1 x2 -> G x1 x2.
  Proof.
    intros (I1 & I2 & Gc) T1 (es1 & V1 & N1) T2 (es2 & V2 & N2) E.
    split; [eapply tinv_tfr; eassumption|]. split; [eapply tinv_tfr; eassumption|].
    unfold EV in E. rewrite V1, V2 in *. apply crelF_ext; assumption.
  Qed.

  Lemma liftJ {A B} (P : bp -> bp -> Prop) (m1 : M A) (m2 : M B) (Q : A -> bp -> B -> bp -> Prop) :
    HJ P m1 m2 Q -> fr m1 -> fr m2 -> (forall a s1 b s2, Q a s1 b s2 -> EV s1 s2) -> HJ (Pp P) m1 m2 (Qp Q).
  Proof.
    intros H F1 F2 HE s1 s2 [Ps Gs]. specialize (H s1 s2 Ps).
    destruct (m1 s1) as [[a1 x1]|] eqn:E1; [|exact I]. destruct (m2 s2) as [[a2 x2]|] eqn:E2; [|exact I].
    split; [exact H|]. destruct (F1 _ _ _ E1) as [T1 V1]. destruct (F2 _ _ _ E2) as [T2 V2].
    exact (G_step _ _ _ _ Gs T1 V1 T2 V2 (HE _ _ _ _ H)).
  Qed.

  Lemma eventJ (T : TR) e1 e2 : erel e1 e2 -> crelF e1 e2 ->
    HJ (Pp (St T)) (event e1) (event e2) (Qp (fun _ s1 _ s2 => St T s1 s2)).
  Proof.
    intros He Hc s1 s2 [(Hr & Ha & Hev) (I1 & I2 & Gc)]. cbn. split.
    - repeat split; try assumption. cbn [b_evs]. constructor; assumption.
    - split; [exact I1|]. split; [exact I2|]. cbn [b_evs]. constructor; assumption.
  Qed.

  (* ---------------------------------------------------------------- the component attempt of the step loop *)
  Definition catt (k : tkind) : M (option pevent) :=
    match k with
    | KAt => with_recover (ingredient_p cfg) | KHash => with_recover (cookware_p cfg)
    | KTilde => with_recover (timer_p cfg) | _ => ret None
    end.

  Lemma fr_catt k : fr (catt k).
  Proof.
    destruct k; try apply fr_ret; apply fr_with_recover; [apply fr_ingredient_p | apply fr_cookware_p | apply fr_timer_p].
  Qed.

  Lemma catt_res k s e s' :
    catt k s = Done (Some e, s') ->
    exists c, fwd s c s' /\ event_span e = Some (current_offset_of s, current_offset_of s').
  Proof.
    assert (W : forall P : M (option pevent), (forall s0, pc P s0 (comp_res s0)) ->
                with_recover P s = Done (Some e, s') ->
                exists c, fwd s c s' /\ event_span e = Some (current_offset_of s, current_offset_of s')).
    { intros P HP E. unfold with_recover in E. destruct (P s) as [[[x|] sx]|] eqn:Ep; inversion E; subst.
      destruct (HP s _ _ Ep) as [[Hc _] Hs]. destruct Hc as [c Hc]. exists c. split; assumption. }
    destruct k; cbn [catt]; try (unfold ret; intro E; discriminate E); apply W; intro s0;
      [apply ingredient_p_fr | apply cookware_p_fr | apply timer_p_fr]; auto.
  Qed.

  Lemma compJ (P : bp -> bp -> Prop) k1 k2 :
    (forall s1 s2, P s1 s2 -> anyR (b_rest s1) (b_rest s2)) ->
    HJ P (catt k1) (catt k2) (fun o1 s1 o2 s2 => orel erel o1 o2 /\ St anyR s1 s2) ->
    HJ (Pp P) (catt k1) (catt k2) (Qp (fun o1 s1 o2 s2 => orel erelF o1 o2 /\ St anyR s1 s2)).
  Proof.
    intros HP H s1 s2 [Ps Gs]. pose proof (HP _ _ Ps) as R0. specialize (H s1 s2 Ps).
    destruct (catt k1 s1) as [[o1 x1]|] eqn:E1; [|exact I]. destruct (catt k2 s2) as [[o2 x2]|] eqn:E2; [|exact I].
    destruct H as [Ho S']. destruct (fr_catt _ _ _ _ E1) as [T1 V1]. destruct (fr_catt _ _ _ _ E2) as [T2 V2].
    pose proof (G_step _ _ _ _ Gs T1 V1 T2 V2 (St_EV _ _ _ S')) as G'.
    split; [|exact G']. split; [|exact S'].
    destruct o1 as [e1|], o2 as [e2|]; cbn in Ho; try contradiction; [|exact I].
    cbn. split; [exact Ho|].
    destruct (catt_res _ _ _ _ E1) as (c1 & F1 & Sp1). destruct (catt_res _ _ _ _ E2) as (c2 & F2 & Sp2).
    unfold crelF. destruct (comp_span e1) as [sp1|] eqn:K1; [|exact I]. destruct (comp_span e2) as [sp2|] eqn:K2; [|exact I].
    rewrite (comp_event_span _ _ K1) in Sp1. rewrite (comp_event_span _ _ K2) in Sp2.
    injection Sp1 as ->. injection Sp2 as ->. destruct Gs as (I1 & I2 & _).
    exists c1, c2. split; [|split; [eapply tinv_sr; eassumption|split; [eapply tinv_sr; eassumption|]];
                               split; apply seg_slice; eapply tinv_seg; eassumption].
    destruct F1 as (_ & R1 & _), F2 as (_ & R2 & _). rewrite R1, R2 in R0. apply anyR_F in R0.
    rewrite !filter_app in R0. destruct S' as (Sr' & _). apply anyR_F in Sr'.
    exact (proj1 (Forall2_app_len_r _ _ _ _ _ (F2_len _ _ _ Sr') R0)).
  Qed.

  (* ---------------------------------------------------------------- the text run *)
  Lemma HJ_text_run_p {C1 C2} (K1 : tok -> list tok -> M C1) (K2 : tok -> list tok -> M C2) Q :
    (forall a b m1 m2, textrel (a :: m1) (b :: m2) -> HJ (Pp (St jany)) (K1 a m1) (K2 b m2) Q) ->
    HJ (Pp (St anyR))
       (t0 <- bump_any;; more <- consume_while (fun k => negb (is_marker k));; K1 t0 more)
       (t0 <- bump_any;; more <- consume_while (fun k => negb (is_marker k));; K2 t0 more) Q.
  Proof.
    intros HK s1 s2 [S Gs]. unfold bind.
    destruct (bump_any s1) as [[a s1']|] eqn:B1; [|exact I].
    destruct (bump_any s2) as [[b s2']|] eqn:B2.
    2: { destruct (consume_while (fun k => negb (is_marker k)) s1') as [[? ?]|]; [|exact I].
         match goal with |- match ?x with _ => _ end => destruct x as [[? ?]|]; exact I end. }
    destruct (consume_while (fun k => negb (is_marker k)) s1') as [[m1 s1'']|] eqn:W1; [|exact I].
    destruct (consume_while (fun k => negb (is_marker k)) s2') as [[m2 s2'']|] eqn:W2.
    2: { match goal with |- match ?x with _ => _ end => destruct x as [[? ?]|]; exact I end. }
    destruct (text_run_rel _ _ _ _ _ _ _ _ _ _ S B1 B2 W1 W2) as [Ht S''].
    destruct (fr_bump_any _ _ _ B1) as [Ta1 Va1]. destruct (fr_consume_while _ _ _ _ W1) as [Tb1 Vb1].
    destruct (fr_bump_any _ _ _ B2) as [Ta2 Va2]. destruct (fr_consume_while _ _ _ _ W2) as [Tb2 Vb2].
    apply (HK a b m1 m2 Ht s1'' s2''). split; [exact S''|].
    exact (G_step _ _ _ _ Gs (tfr_trans _ _ _ Ta1 Tb1) (efr_trans _ _ _ Va1 Vb1)
                  (tfr_trans _ _ _ Ta2 Tb2) (efr_trans _ _ _ Va2 Vb2) (St_EV _ _ _ S'')).
  Qed.

  (* ---------------------------------------------------------------- the step loop and the blocks *)
  Hypothesis ingredient_j : HJ (St jany) (ingredient_p cfg) (ingredient_p cfg) (CP erel anyR).
  Hypothesis cookware_j : HJ (St jany) (cookware_p cfg) (cookware_p cfg) (CP erel anyR).
  Hypothesis timer_j : HJ (St jany) (timer_p cfg) (timer_p cfg) (CP erel anyR).
  Hypothesis metadata_entry_j : HL jany (orel mdrel) (metadata_entry cfg) (metadata_entry cfg) jany.
  Hypothesis section_j : HL jany (orel erel) (section_p cfg) (section_p cfg) jany.
  Hypothesis parse_text_block_j : HL jany anyrel (parse_text_block cfg) (parse_text_block cfg) jany.

  Notation SA := (fun (_ : unit) s1 (_ : unit) s2 => St anyR s1 s2).

  Lemma catt_j k1 k2 :
    HJ (fun s1 s2 => (k1 = k2 /\ St (jhead k1) s1 s2) \/ (k1 = KWs /\ k2 = KBlockComment /\ St stutR s1 s2))
       (catt k1) (catt k2) (fun o1 s1 o2 s2 => orel erel o1 o2 /\ St anyR s1 s2).
  Proof.
    intros s1 s2 [[-> S]|(-> & -> & S)].
    - apply jhead_jany in S. revert s1 s2 S.
      change (HJ (St jany) (catt k2) (catt k2) (fun o1 s1 o2 s2 => orel erel o1 o2 /\ St anyR s1 s2)).
      assert (W : forall (p : M (option pevent)), HJ (St jany) p p (CP erel anyR) ->
                  HJ (St jany) (with_recover p) (with_recover p) (fun o1 s1 o2 s2 => orel erel o1 o2 /\ St anyR s1 s2)).
      { intros p Hp. eapply HJ_conseq; [intros s1 s2 X; exact X | apply (HL_with_recover jany anyR erel); exact Hp |].
        intros o1 s1 o2 s2 (Ho & H1 & H2). split; [exact Ho|].
        destruct o1; [apply H1; discriminate | apply (St_mono _ _ _ _ jany_anyR), H2; reflexivity]. }
      destruct k2; cbn [catt]; try (apply HJ_ret; intros s1 s2 S; split; [exact I | exact (St_mono _ _ _ _ jany_anyR S)]).
      + apply W, ingredient_j.
      + apply W, cookware_j.
      + apply W, timer_j.
    - cbn. split; [exact I|]. exact (St_mono _ _ _ _ (fun l1 l2 H => or_intror H) S).
  Qed.

  Lemma step_loop_jp : forall f1 f2, HJ (Pp (St anyR)) (step_loop cfg f1) (step_loop cfg f2) (Qp SA).
  Proof.
    induction f1 as [|f1 IH]; intro f2; [apply HJ_panic_l|]. destruct f2 as [|f2]; [apply HJ_panic_r|].
    cbn [step_loop].
    eapply HJ_bind; [apply (liftJ (St anyR) rest rest (fun a s1 b s2 => anyR a b /\ St anyR s1 s2) HL_rest_any fr_rest fr_rest); intros a s1 b s2 [_ S]; exact (St_EV _ _ _ S)|].
    intros r1 r2. unfold Qp. apply HJ_pure_l. intro Hr.
    assert (Hnil : r1 = [] <-> r2 = []).
    { destruct Hr as [[m Hr]|Hr]; [exact (jsim_nil_iff _ _ _ Hr)|].
      destruct (stutR_nonempty _ _ Hr) as [X Y]. split; intro; contradiction. }
    destruct r1 as [|x1 r1], r2 as [|x2 r2].
    - apply HJ_ret. intros s1 s2 X. exact X.
    - destruct Hnil as [X _]. specialize (X eq_refl). discriminate.
    - destruct Hnil as [_ X]. specialize (X eq_refl). discriminate.
    - clear Hnil Hr.
      eapply HJ_bind.
      { apply (liftJ _ _ _ _ HJ_peek_any_k fr_peek fr_peek).
        intros a s1 b s2 [[_ S]|(_ & _ & S)]; exact (St_EV _ _ _ S). }
      intros k1 k2.
      eapply HJ_bind.
      { apply (compJ _ k1 k2); [|apply catt_j].
        intros s1 s2 [[_ S]|(_ & _ & S)]; destruct S as (Hr & _); [left; apply Hr | right; exact Hr]. }
      intros [e1|] [e2|] s1 s2 [[He S] Gs]; cbn in He; try contradiction; revert s1 s2 S Gs.
      + destruct He as [He Hc]. intros s1 s2 S Gs.
        refine (HJ_bind _ _ _ _ _ _ _ (eventJ anyR e1 e2 He Hc) _ s1 s2 (conj S Gs)).
        intros u1 u2. exact (IH f2).
      + intros s1 s2 S Gs. assert (PG : Pp (St anyR) s1 s2) by (split; assumption). clear S Gs. revert s1 s2 PG.
        change (HJ (Pp (St anyR))
                  (start <- current_offset;; t0 <- bump_any;; more <- consume_while (fun k => negb (is_marker k));;
                   t <- textM cfg start (t0 :: more);; (match frags t with [] => ret tt | _ => event (EvText t) end);;; step_loop cfg f1)
                  (start <- current_offset;; t0 <- bump_any;; more <- consume_while (fun k => negb (is_marker k));;
                   t <- textM cfg start (t0 :: more);; (match frags t with [] => ret tt | _ => event (EvText t) end);;; step_loop cfg f2)
                  (Qp SA)).
        eapply HJ_bind.
        { apply (liftJ (St anyR) current_offset current_offset (fun a s1 b s2 => anyrel a b /\ St anyR s1 s2)
                       (HN_of anyR _ _ _ HN_current_offset) fr_current_offset fr_current_offset).
          intros a s1 b s2 [_ S]; exact (St_EV _ _ _ S). }
        intros st1 st2. unfold Qp. apply HJ_pure_l. intros _.
        apply HJ_text_run_p. intros a b m1 m2 Ht.
        eapply HJ_bind.
        { apply (liftJ (St jany) (textM cfg st1 (a :: m1)) (textM cfg st2 (b :: m2)) (fun x s1 y s2 => trel x y /\ St jany s1 s2)
                       (HN_of jany _ _ _ (HN_textM_t cfg st1 st2 _ _ Ht)) (fr_textM _ _ _) (fr_textM _ _ _)).
          intros x s1 y s2 [_ S]; exact (St_EV _ _ _ S). }
        intros tx1 tx2. unfold Qp. apply HJ_pure_l. intro Hx.
        eapply HJ_bind with (Q := Qp (fun _ s1 _ s2 => St jany s1 s2)).
        * pose proof Hx as (Hs & _ & Hf).
          destruct (frags tx1) eqn:F1, (frags tx2) eqn:F2.
          -- apply HJ_ret. intros s1 s2 X. exact X.
          -- exfalso. destruct Hf as [Hf _]. specialize (Hf eq_refl). discriminate.
          -- exfalso. destruct Hf as [_ Hf]. specialize (Hf eq_refl). discriminate.
          -- apply eventJ; [unfold erel; cbn; rewrite Hs; reflexivity | apply crelF_noncomp; reflexivity].
        * intros u1 u2. eapply HJ_conseq; [|apply (IH f2)|intros; assumption].
          intros s1 s2 [S Gs]. split; [exact (St_mono _ _ _ _ jany_anyR S) | exact Gs].
  Qed.

  Lemma HJ_bind_val {A1 A2 B1 B2} (Qu : A1 -> Prop) (P : bp -> bp -> Prop) (Q : A1 -> bp -> A2 -> bp -> Prop)
        (Q' : B1 -> bp -> B2 -> bp -> Prop) (m1 : M A1) (m2 : M A2) (f1 : A1 -> M B1) (f2 : A2 -> M B2) :
    HJ P m1 m2 Q -> retk Qu m1 -> (forall a1 a2, Qu a1 -> HJ (fun s1 s2 => Q a1 s1 a2 s2) (f1 a1) (f2 a2) Q') ->
    HJ P (bind m1 f1) (bind m2 f2) Q'.
  Proof.
    intros Hm Hq Hf s1 s2 S. unfold bind. specialize (Hm s1 s2 S).
    destruct (m1 s1) as [[a1 s1']|] eqn:E1; [|exact I].
    destruct (m2 s2) as [[a2 s2']|]; [|destruct (f1 a1 s1') as [[? ?]|]; exact I].
    exact (Hf a1 a2 (Hq _ _ _ E1) s1' s2' Hm).
  Qed.

  Lemma parse_step_jp : HJ (Pp (St jany)) (parse_step cfg) (parse_step cfg) (Qp SA).
  Proof.
    unfold parse_step.
    eapply HJ_bind; [apply (eventJ jany); [reflexivity | apply crelF_noncomp; reflexivity]|]. intros u1 u2.
    eapply HJ_bind.
    { apply (liftJ (St jany) rest rest (fun a s1 b s2 => jany a b /\ St jany s1 s2) HL_rest fr_rest fr_rest).
      intros a s1 b s2 [_ S]; exact (St_EV _ _ _ S). }
    intros r1 r2. unfold Qp. apply HJ_pure_l. intros _.
    eapply HJ_bind.
    { eapply HJ_conseq; [|apply step_loop_jp|intros a s1 b s2 X; exact X].
      intros s1 s2 [S Gs]. split; [exact (St_mono _ _ _ _ jany_anyR S) | exact Gs]. }
    intros v1 v2. apply (eventJ anyR); [reflexivity | apply crelF_noncomp; reflexivity].
  Qed.

  Lemma parse_multiline_block_jp : HJ (Pp (St jany)) (parse_multiline_block cfg) (parse_multiline_block cfg) (Qp SA).
  Proof.
    unfold parse_multiline_block.
    eapply HJ_bind.
    { apply (liftJ (St jany) all_tokens all_tokens (fun a s1 b s2 => jany a b /\ St jany s1 s2)
               (HN_of jany _ _ _ HN_all_tokens) fr_all_tokens fr_all_tokens).
      intros a s1 b s2 [_ S]; exact (St_EV _ _ _ S). }
    intros a1 a2. unfold Qp. apply HJ_pure_l. intros [m Ha].
    rewrite (jsim_forallb is_empty_tok m _ _ eq_refl eq_refl Ha).
    destruct (forallb (fun t => is_empty_tok (kind t)) a2).
    - eapply HJ_bind.
      { apply (liftJ (St jany) consume_rest consume_rest (fun a s1 b s2 => jany a b /\ St jany s1 s2)
                 HL_consume_rest (fr_consume_while _) (fr_consume_while _)).
        intros a s1 b s2 [_ S]; exact (St_EV _ _ _ S). }
      intros c1 c2. apply HJ_ret. intros s1 s2 [[_ S] Gs]. split; [exact (St_mono _ _ _ _ jany_anyR S) | exact Gs].
    - eapply HJ_bind.
      { apply (liftJ (St jany) peek peek (fun a s1 b s2 => a = b /\ St jany s1 s2) HL_peek fr_peek fr_peek).
        intros a s1 b s2 [_ S]; exact (St_EV _ _ _ S). }
      intros k1 k2. unfold Qp. apply HJ_pure_l. intros ->.
      destruct k2; try apply parse_step_jp.
      eapply HJ_conseq; [intros s1 s2 X; exact X | |].
      + apply (liftJ (St jany) (parse_text_block cfg) (parse_text_block cfg) (fun a s1 b s2 => anyrel a b /\ St jany s1 s2)
                 parse_text_block_j (fr_parse_text_block cfg) (fr_parse_text_block cfg)).
        intros a s1 b s2 [_ S]; exact (St_EV _ _ _ S).
      + intros a s1 b s2 [[_ S] Gs]. split; [exact (St_mono _ _ _ _ jany_anyR S) | exact Gs].
  Qed.

  Lemma parse_block_jp old : HJ (Pp (St jany)) (parse_block cfg old) (parse_block cfg old) (Qp SA).
  Proof.
    unfold parse_block.
    eapply HJ_bind.
    { apply (liftJ (St jany) peek peek (fun a s1 b s2 => a = b /\ St jany s1 s2) HL_peek fr_peek fr_peek).
      intros a s1 b s2 [_ S]; exact (St_EV _ _ _ S). }
    intros k1 k2. unfold Qp. apply HJ_pure_l. intros ->.
    eapply HJ_bind_val with (Qu := onc) (Q := Qp (fun o1 s1 o2 s2 => orel erel o1 o2 /\ St jany s1 s2)).
    { apply liftJ.
      - change (HL jany (orel erel)
                  (match k2 with
                   | KMeta => with_recover (ev <-? metadata_entry cfg ;;
                                            match ev with
                                            | EvMetadata key _ => if meta_kept cfg old key then ret (Some ev) else ret None
                                            | _ => ret (Some ev)
                                            end)
                   | KEq => with_recover (section_p cfg)
                   | _ => ret None
                   end)
                  (match k2 with
                   | KMeta => with_recover (ev <-? metadata_entry cfg ;;
                                            match ev with
                                            | EvMetadata key _ => if meta_kept cfg old key then ret (Some ev) else ret None
                                            | _ => ret (Some ev)
                                            end)
                   | KEq => with_recover (section_p cfg)
                   | _ => ret None
                   end) jany).
        destruct k2; try (apply HL_ret; exact I).
        + apply HL_with_recover_same. eapply HL_obindM; [apply metadata_entry_j | | auto].
          intros e1 e2 He. destruct e1, e2; cbn in He; try contradiction.
          destruct He as [Hk Hv]. unfold meta_kept, is_config_key. rewrite (trel_outer _ _ Hk).
          match goal with |- context [if ?c then _ else _] => destruct c end;
            apply HL_ret; cbn; [|exact I]. apply (mdrel_erel (EvMetadata _ _) (EvMetadata _ _)). split; assumption.
        + apply HL_with_recover_same. apply section_j.
      - destruct k2; try apply fr_ret.
        + apply fr_with_recover, fr_obindM; [apply fr_metadata_entry|]. intro ev. fr_auto.
        + apply fr_with_recover, fr_section_p.
      - destruct k2; try apply fr_ret.
        + apply fr_with_recover, fr_obindM; [apply fr_metadata_entry|]. intro ev. fr_auto.
        + apply fr_with_recover, fr_section_p.
      - intros a s1 b s2 [_ S]; exact (St_EV _ _ _ S). }
    { destruct k2; try (apply retk_ret; exact I); [apply retk_meta_part | apply retk_section_part]. }
    intros [e1|] [e2|] Hq; unfold Qp; apply HJ_pure_l; intro He; cbn in He; try contradiction.
    - eapply HJ_conseq; [intros s1 s2 X; exact X | apply (eventJ jany e1 e2 He (crelF_noncomp _ _ Hq)) |].
      intros a s1 b s2 [S Gs]. split; [exact (St_mono _ _ _ _ jany_anyR S) | exact Gs].
    - apply parse_multiline_block_jp.
  Qed.

  Theorem block_rel_jp blk1 blk2 evs1 evs2 old :
    jany blk1 blk2 -> sr D1 blk1 -> sr D2 blk2 -> evrelF evs1 evs2 ->
    OR evrelF (run_block blk1 evs1 (parse_block cfg old)) (run_block blk2 evs2 (parse_block cfg old)).
  Proof.
    intros Hb G1 G2 [He Hc]. unfold run_block.
    destruct Hb as [m Hb]. pose proof (jsim_nil_iff _ _ _ Hb) as Hnil.
    destruct blk1 as [|x1 r1]; [exact I|]. destruct blk2 as [|x2 r2].
    { destruct Hnil as [_ X]. specialize (X eq_refl). discriminate. }
    assert (S0 : Pp (St jany) {| b_all := x1 :: r1; b_done := []; b_rest := x1 :: r1; b_evs := evs1 |}
                              {| b_all := x2 :: r2; b_done := []; b_rest := x2 :: r2; b_evs := evs2 |}).
    { split; [repeat split; cbn; try assumption; exists m; exact Hb|].
      split; [split; [reflexivity | exact G1]|]. split; [split; [reflexivity | exact G2] | exact Hc]. }
    pose proof (parse_block_jp old _ _ S0) as X. unfold OR.
    destruct (parse_block cfg old _) as [[u1 s1]|]; [|exact I].
    destruct (parse_block cfg old _) as [[u2 s2]|]; [|destruct (b_rest s1); exact I].
    destruct X as [(Hr & _ & Hev) (_ & _ & Gc)].
    destruct (b_rest s1), (b_rest s2); try exact I. split; assumption.
  Qed.

  Lemma blocks_loop_jp f1 : forall f2 ts1 ts2 old evs1 evs2,
    jany ts1 ts2 -> sr D1 ts1 -> sr D2 ts2 -> evrelF evs1 evs2 ->
    OR evrelF (blocks_loop cfg f1 ts1 old evs1) (blocks_loop cfg f2 ts2 old evs2).
  Proof.
    induction f1 as [|f1 IH]; intros f2 ts1 ts2 old evs1 evs2 [m Ht] G1 G2 He; [exact I|].
    destruct f2 as [|f2]; [unfold OR; destruct (blocks_loop cfg (S f1) ts1 old evs1); exact I|].
    cbn [blocks_loop].
    pose proof (next_block_j m ts1 ts2 (S (length ts1)) (S (length ts2)) Ht
                  (Nat.lt_succ_diag_r _) (Nat.lt_succ_diag_r _)) as Nb.
    destruct (next_block (S (length ts1)) ts1) as [[b1 q1]|] eqn:N1, (next_block (S (length ts2)) ts2) as [[b2 q2]|] eqn:N2;
      try contradiction; [|exact He].
    destruct Nb as [Hb Hq].
    destruct (next_block_app _ _ _ _ N1) as (p1 & z1 & E1). destruct (next_block_app _ _ _ _ N2) as (p2 & z2 & E2).
    pose proof (sr_mid D1 ts1 p1 b1 (z1 ++ q1) G1 E1) as Gb1.
    pose proof (sr_mid D2 ts2 p2 b2 (z2 ++ q2) G2 E2) as Gb2.
    assert (Gq1 : sr D1 q1). { apply (sr_mid D1 ts1 (p1 ++ b1 ++ z1) q1 [] G1). rewrite E1, app_nil_r, <- !app_assoc. reflexivity. }
    assert (Gq2 : sr D2 q2). { apply (sr_mid D2 ts2 (p2 ++ b2 ++ z2) q2 [] G2). rewrite E2, app_nil_r, <- !app_assoc. reflexivity. }
    pose proof (block_rel_jp b1 b2 evs1 evs2 old Hb Gb1 Gb2 He) as R. unfold OR in R.
    destruct (run_block b1 evs1 (parse_block cfg old)) as [e1|]; cbn [obind]; [|exact I].
    destruct (run_block b2 evs2 (parse_block cfg old)) as [e2|]; cbn [obind].
    - apply IH; assumption.
    - unfold OR. destruct (blocks_loop cfg f1 q1 old e1); exact I.
  Qed.
End Ins.
