(* Closed computations about Model/Builder.v for C16: the witnesses of the defect repaired by
   /repo aa52d4d (kept as theorems about the old code, [cfg_old]), and the shipped units files
   (Gen/UnitsTomlFile.v, Gen/UnitsSpanishFile.v, Gen/UnitsLive.v are regenerated on every run). *)
From CL Require Import Base.StrLemmas Model.Builder Model.BuilderSpec.
From CL Require Import Gen.UnitsTomlFile Gen.UnitsSpanishFile Gen.UnitsLive.
Local Open Scope N_scope.

Definition s_g : str := [103].
Definition s_gram : str := [103; 114; 97; 109].
Definition s_ml : str := [109; 108].
Definition s_milliliter : str := [109; 105; 108; 108; 105; 108; 105; 116; 101; 114].
Definition s_m : str := [109].
Definition s_meter : str := [109; 101; 116; 101; 114].
Definition s_C : str := [67].
Definition s_celsius : str := [99; 101; 108; 115; 105; 117; 115].
Definition s_s : str := [115].
Definition s_second : str := [115; 101; 99; 111; 110; 100].

Definition entry1 (name sym : str) : unit_entry :=
  {| ue_names := [name]; ue_symbols := [sym]; ue_aliases := []; ue_ratio := 1%Q; ue_difference := 0%Q;
     ue_expand_si := false |}.

Definition group1 (q : pq) (best : list str) (name sym : str) : qgroup :=
  {| qg_quantity := q; qg_best := Some (BUnified best); qg_units := Some (UUnified [entry1 name sym]) |}.

Definition file_of (gs : list qgroup) : units_file :=
  {| uf_default_system := None; uf_si := None; uf_fractions := None; uf_extend := None; uf_quantity := gs |}.

(* mass best = ["g", "ml"] (checks/c16.py WITNESS_PANIC) *)
Definition w_panic : list units_file :=
  [file_of [group1 Mass [s_g; s_ml] s_gram s_g; group1 Volume [s_ml] s_milliliter s_ml]].

(* every quantity has a proper best list except mass, whose only best unit is "ml" *)
Definition w_accept : list units_file :=
  [file_of [group1 Volume [s_ml] s_milliliter s_ml; group1 Length [s_m] s_meter s_m;
            group1 Temperature [s_C] s_celsius s_C; group1 Time [s_s] s_second s_s;
            group1 Mass [s_ml] s_gram s_g]].

(* the same list with a mass unit: the hypotheses of the theorems are satisfiable *)
Definition w_good : list units_file :=
  [file_of [group1 Volume [s_ml] s_milliliter s_ml; group1 Length [s_m] s_meter s_m;
            group1 Temperature [s_C] s_celsius s_C; group1 Time [s_s] s_second s_s;
            group1 Mass [s_g] s_gram s_g]].

Lemma total_refuted_before_fix : exists files, build cfg_old files = Panic site_convert_assert.
Proof. exists w_panic. vm_compute. reflexivity. Qed.

Definition is_ok {A} (m : M A) : bool := match m with Done (ROk _) => true | _ => false end.

(* the mass best list is a single unit that is not a mass unit *)
Definition mass_best_bad (c : converter) : bool :=
  match c_best c Mass with
  | SUnified [(_, i)] =>
      match nth_error (c_units c) i with
      | Some u => negb (pq_eqb (quantity u) Mass)
      | None => false
      end
  | _ => false
  end.

Lemma mass_best_bad_not_ok c :
  mass_best_bad c = true -> ~ best_store_ok (c_units c) Mass (c_best c Mass).
Proof.
  unfold mass_best_bad. intros Hb H.
  destruct (c_best c Mass) as [l|m i]; [|exact (Bool.diff_false_true Hb)].
  destruct l as [|[th i] l']; [exact (Bool.diff_false_true Hb)|].
  destruct l' as [|x l'']; [|exact (Bool.diff_false_true Hb)].
  cbn [best_store_ok] in H. destruct H as (_ & Hq & _).
  destruct (Hq th i (or_introl eq_refl)) as (u & Hu & Hqu).
  rewrite Hu, Hqu in Hb. exact (Bool.diff_false_true Hb).
Qed.

Lemma best_ok_refuted_before_fix :
  exists files c, build cfg_old files = Done (ROk c) /\
                  ~ best_store_ok (c_units c) Mass (c_best c Mass).
Proof.
  exists w_accept.
  assert (Hb : match build cfg_old w_accept with
               | Done (ROk c) => mass_best_bad c
               | _ => false
               end = true) by (vm_compute; reflexivity).
  destruct (build cfg_old w_accept) as [[c|e]|s].
  - exists c. split; [reflexivity | apply mass_best_bad_not_ok; exact Hb].
  - exfalso. exact (Bool.diff_false_true Hb).
  - exfalso. exact (Bool.diff_false_true Hb).
Qed.

(* after the repair both witnesses are build errors *)
Example w_panic_now : build cfg_new w_panic = Done (RErr (EBestUnitQuantity s_ml Mass)).
Proof. vm_compute. reflexivity. Qed.

Example w_accept_now : build cfg_new w_accept = Done (RErr (EBestUnitQuantity s_ml Mass)).
Proof. vm_compute. reflexivity. Qed.

Example w_good_builds : is_ok (build cfg_new w_good) = true.
Proof. vm_compute. reflexivity. Qed.

(* the shipped configuration: units.toml alone builds the converter that Converter::default()
   holds (dumped from the running implementation), and units.toml + units/spanish.toml build the
   converter the implementation builds from these two files *)
Lemma default_is_shipped : builds_to cfg_new [units_toml] live_default = true.
Proof. vm_compute. reflexivity. Qed.

Lemma spanish_layer_is_live : builds_to cfg_new [units_toml; units_spanish] live_spanish = true.
Proof. vm_compute. reflexivity. Qed.

Lemma good_builds : exists files c, build cfg_new files = Done (ROk c).
Proof.
  exists w_good. assert (H : is_ok (build cfg_new w_good) = true) by (vm_compute; reflexivity).
  destruct (build cfg_new w_good) as [[c|e]|s]; [exists c; reflexivity | |]; exfalso; exact (Bool.diff_false_true H).
Qed.

(* the two statements of C16 that are not proved in general hold on the shipped files *)
Definition shipped_ok (files : list units_file) : bool :=
  match build cfg_new files with
  | Done (ROk c) =>
      forallb (fun jd =>
        let '(j, d) := jd in
        negb (ue_expand_si (snd d)) ||
        match nth_error (c_units c) j, final_tables files with
        | Some u, (Some pt, Some st) =>
            forallb (fun p =>
              forallb (fun k =>
                match find_unit c k with
                | Some t => match nth_error (c_units c) t with
                            | Some tu => Qeq_bool (ratio tu) (ratio u * sipre_ratio p) && pq_eqb (quantity tu) (quantity u)
                            | None => false
                            end
                | None => false
                end) (prefixed (pt p) (names u) ++ prefixed (st p) (symbols u))) all_sipre
        | _, _ => false
        end) (combine (seq 0 (length (declared files))) (declared files))
  | _ => false
  end.

Example si_forms_shipped : shipped_ok [units_toml] = true /\ shipped_ok [units_toml; units_spanish] = true.
Proof. split; vm_compute; reflexivity. Qed.

(* a layer with one extend entry on top of [w_good]: the hypotheses of C16_precedence_extend are satisfiable *)
Definition s_gramo : str := [103; 114; 97; 109; 111].
Definition e_gramo : ext_entry :=
  {| xe_ratio := None; xe_difference := None; xe_names := Some [s_gramo]; xe_symbols := None; xe_aliases := None |}.
Definition w_ext : list units_file :=
  w_good ++ [{| uf_default_system := None; uf_si := None; uf_fractions := None;
                uf_extend := Some {| ex_prec := Before; ex_units := [(s_g, e_gramo)] |}; uf_quantity := [] |}].

Example single_extend_example :
  is_ok (build cfg_new w_ext) = true /\
  extend_layers w_ext = [{| ex_prec := Before; ex_units := [(s_g, e_gramo)] |}] /\
  (exists d, nth_error (declared w_ext) 4 = Some d /\ In s_g (all_keys (unit_of d)) /\
             names (layered_unit (unit_of d) e_gramo Before) = [s_gramo; s_gram]).
Proof.
  split; [vm_compute; reflexivity|]. split; [reflexivity|].
  eexists. split; [reflexivity|]. split; [cbn; tauto | reflexivity].
Qed.

(* two [fractions] layers: the first gives the gram a per-unit entry that leaves `enabled` open, the
   second - later - enables fractions for all units: the gram inherits it (a one-pass reading of the
   layers, each on top of the previous ones only, would answer false) *)
Definition fr_none : fractions :=
  {| fr_all := None; fr_metric := None; fr_imperial := None; fr_quantity := []; fr_unit := [] |}.
Definition w_frac : list units_file :=
  [{| uf_default_system := None; uf_si := None;
      uf_fractions := Some {| fr_all := None; fr_metric := None; fr_imperial := None; fr_quantity := [];
                              fr_unit := [(s_g, FCustom {| fh_enabled := None; fh_accuracy := None;
                                                            fh_max_den := Some 8; fh_max_whole := None |})] |};
      uf_extend := None; uf_quantity := uf_quantity (hd (file_of []) w_good) |};
   {| uf_default_system := None; uf_si := None;
      uf_fractions := Some {| fr_all := Some (FToggle true); fr_metric := None; fr_imperial := None;
                              fr_quantity := []; fr_unit := [] |};
      uf_extend := None; uf_quantity := [] |}].

Example fractions_later_layer_example :
  match build cfg_new w_frac with
  | Done (ROk c) =>
      let r := fractions_config (c_fractions c) None Mass 4 in
      fc_enabled r && (fc_max_den r =? 8)
      && opt_eqb Nat.eqb (find_unit c s_g) (Some 4%nat)
  | _ => false
  end = true.
Proof. vm_compute. reflexivity. Qed.
