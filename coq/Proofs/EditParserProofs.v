(* Parser-level facts behind property C17: the text builder does not see comments or the
   spelling of newline tokens (part A), the block splitter does not see blank and
   comment-only lines (part B). *)
From CL Require Import Base.StrLemmas Model.Lexer Model.PText Model.CommentMask Model.Parser Model.Edits Proofs.LexerProofs.

(* ================================================================ part A *)

Lemma text_str_append_fragment t f t' :
  append_fragment t f = Done t' ->
  text_str t' = text_str t ++ match ftext f with [] => [] | _ => if fsoft f then [32] else ftext f end.
Proof.
  unfold append_fragment. destruct (snd (text_span t) <=? foff f); [|discriminate].
  destruct (ftext f) as [|c s] eqn:E; intro H; inversion H; subst.
  - rewrite app_nil_r. reflexivity.
  - unfold text_str. cbn [frags]. rewrite map_app, concat_app. cbn [map concat].
    rewrite app_nil_r, E. reflexivity.
Qed.

Lemma text_str_append_str t s off t' :
  append_str t s off = Done t' -> text_str t' = text_str t ++ s.
Proof.
  unfold append_str. intro H. apply text_str_append_fragment in H. cbn [ftext fsoft] in H.
  rewrite H. destruct s; reflexivity.
Qed.

Lemma render_cons tk r : render (tk :: r) = render_tok tk ++ render r.
Proof. reflexivity. Qed.

Lemma render_nil : render [] = [].
Proof. reflexivity. Qed.

Lemma text_loop_render cfg ts : forall t cs cur t',
  Forall (fun tk => tstr tk <> []) ts ->
  text_loop cfg ts t cs cur = Done t' -> text_str t' = text_str t ++ cur ++ render ts.
Proof.
  induction ts as [|tk r IH]; intros t cs cur t' Hne H.
  - cbn [text_loop] in H. apply text_str_append_str in H.
    rewrite render_nil, app_nil_r. exact H.
  - inversion Hne as [|? ? Hn Hr]; subst.
    cbn [text_loop] in H. rewrite render_cons. unfold render_tok.
    destruct (kind tk) eqn:K.
    all: try (apply IH in H; [|exact Hr]; rewrite H, <- !app_assoc; reflexivity).
    all: destruct (append_str t cur cs) as [t1|] eqn:E1; cbn [obind] in H; [|discriminate];
      apply text_str_append_str in E1.
    + (* KEscaped *)
      destruct (p_debug cfg && p_strict_escape cfg && negb (blen (tstr tk) =? 2)); [discriminate|].
      apply IH in H; [|exact Hr]. rewrite H, E1, <- !app_assoc. reflexivity.
    + (* KNewline *)
      destruct (append_fragment t1 _) as [t2|] eqn:E2; cbn [obind] in H; [|discriminate].
      apply text_str_append_fragment in E2. cbn [ftext fsoft] in E2.
      destruct (tstr tk) as [|c s] eqn:Et; [contradiction Hn; reflexivity|].
      apply IH in H; [|exact Hr]. rewrite H, E2, E1, <- !app_assoc. reflexivity.
    + apply IH in H; [|exact Hr]. rewrite H, E1, <- !app_assoc. reflexivity.
    + apply IH in H; [|exact Hr]. rewrite H, E1, <- !app_assoc. reflexivity.
Qed.

Lemma render_tok_comment a : is_comment (kind a) = true -> render_tok a = [].
Proof. unfold render_tok. destruct (kind a); cbn [is_comment]; intro H; try discriminate; reflexivity. Qed.

Lemma render_tsim ts1 ts2 : tsim ts1 ts2 -> render ts1 = render ts2.
Proof.
  induction 1 as [|a b r1 r2 Hk Hs _ IH|a b r1 r2 Ha Hb _ IH|a r1 r2 Ha _ IH|b r1 r2 Hb _ IH];
    rewrite ?render_cons.
  - reflexivity.
  - unfold render_tok. rewrite Hk, Hs, IH. reflexivity.
  - unfold render_tok. rewrite Ha, Hb, IH. reflexivity.
  - rewrite (render_tok_comment a Ha). exact IH.
  - rewrite (render_tok_comment b Hb). exact IH.
Qed.

Lemma text_of_render cfg o ts t :
  Forall (fun tk => tstr tk <> []) ts -> text_of cfg o ts = Done t -> text_str t = render ts.
Proof.
  intros Hne H. destruct ts as [|t0 r].
  - cbn [text_of] in H. inversion H; subst. reflexivity.
  - cbn [text_of] in H. destruct (o =? tstart t0); [|discriminate].
    apply text_loop_render in H; [|exact Hne]. exact H.
Qed.

Theorem text_blind cfg o1 o2 ts1 ts2 t1 t2 :
  tsim ts1 ts2 ->
  Forall (fun tk => tstr tk <> []) ts1 -> Forall (fun tk => tstr tk <> []) ts2 ->
  text_of cfg o1 ts1 = Done t1 -> text_of cfg o2 ts2 = Done t2 ->
  text_str t1 = text_str t2.
Proof.
  intros Hs H1 H2 E1 E2.
  rewrite (text_of_render _ _ _ _ H1 E1), (text_of_render _ _ _ _ H2 E2).
  apply render_tsim. exact Hs.
Qed.

(* ---------------------------------------------------------------- is_text_empty *)

Lemma str_blank_app a b : str_blank (a ++ b) = str_blank a && str_blank b.
Proof. apply forallb_app. Qed.

Lemma is_text_empty_append_fragment t f t' :
  append_fragment t f = Done t' -> is_text_empty t' = is_text_empty t && str_blank (ftext f).
Proof.
  unfold append_fragment. destruct (snd (text_span t) <=? foff f); [|discriminate].
  destruct (ftext f) as [|c s] eqn:E; intro H; inversion H; subst.
  - rewrite andb_true_r. reflexivity.
  - unfold is_text_empty. cbn [frags]. rewrite forallb_app. cbn [forallb].
    rewrite andb_true_r, E. reflexivity.
Qed.

Lemma is_text_empty_append_str t s off t' :
  append_str t s off = Done t' -> is_text_empty t' = is_text_empty t && str_blank s.
Proof. unfold append_str. intro H. apply is_text_empty_append_fragment in H. exact H. Qed.

Lemma is_text_empty_render cfg ts : forall t cs cur t',
  Forall newline_ok ts -> Forall (fun tk => tstr tk <> []) ts ->
  text_loop cfg ts t cs cur = Done t' ->
  is_text_empty t' = is_text_empty t && str_blank cur && str_blank (render ts).
Proof.
  induction ts as [|tk r IH]; intros t cs cur t' Hnl Hne H.
  - cbn [text_loop] in H. apply is_text_empty_append_str in H.
    rewrite render_nil. cbn [str_blank forallb]. rewrite andb_true_r. exact H.
  - inversion Hne as [|? ? Hn Hr]; subst. inversion Hnl as [|? ? Hk Hl]; subst.
    cbn [text_loop] in H. rewrite render_cons, str_blank_app. unfold render_tok.
    destruct (kind tk) eqn:K.
    all: try (apply IH in H; [|exact Hl|exact Hr]; rewrite H, str_blank_app, <- !andb_assoc; reflexivity).
    all: destruct (append_str t cur cs) as [t1|] eqn:E1; cbn [obind] in H; [|discriminate];
      apply is_text_empty_append_str in E1.
    + destruct (p_debug cfg && p_strict_escape cfg && negb (blen (tstr tk) =? 2)); [discriminate|].
      apply IH in H; [|exact Hl|exact Hr]. rewrite H, E1, <- !andb_assoc. reflexivity.
    + destruct (append_fragment t1 _) as [t2|] eqn:E2; cbn [obind] in H; [|discriminate].
      apply is_text_empty_append_fragment in E2. cbn [ftext] in E2.
      assert (Hb : str_blank (tstr tk) = true).
      { destruct (Hk K) as [-> | ->]; reflexivity. }
      rewrite Hb, andb_true_r in E2.
      apply IH in H; [|exact Hl|exact Hr]. rewrite H, E2, E1.
      change (str_blank [32]) with true. change (str_blank []) with true.
      rewrite andb_true_r. reflexivity.
    + apply IH in H; [|exact Hl|exact Hr]. rewrite H, E1.
      change (str_blank []) with true. rewrite andb_true_r. reflexivity.
    + apply IH in H; [|exact Hl|exact Hr]. rewrite H, E1.
      change (str_blank []) with true. rewrite andb_true_r. reflexivity.
Qed.

Lemma text_of_empty_render cfg o ts t :
  Forall newline_ok ts -> Forall (fun tk => tstr tk <> []) ts ->
  text_of cfg o ts = Done t -> is_text_empty t = str_blank (render ts).
Proof.
  intros Hnl Hne H. destruct ts as [|t0 r].
  - cbn [text_of] in H. inversion H; subst. reflexivity.
  - cbn [text_of] in H. destruct (o =? tstart t0); [|discriminate].
    apply is_text_empty_render in H; [|exact Hnl|exact Hne]. exact H.
Qed.

Theorem text_blind_empty cfg o1 o2 ts1 ts2 t1 t2 :
  tsim ts1 ts2 ->
  Forall (fun tk => tstr tk <> []) ts1 -> Forall (fun tk => tstr tk <> []) ts2 ->
  Forall newline_ok ts1 -> Forall newline_ok ts2 ->
  text_of cfg o1 ts1 = Done t1 -> text_of cfg o2 ts2 = Done t2 ->
  is_text_empty t1 = is_text_empty t2.
Proof.
  intros Hs H1 H2 N1 N2 E1 E2.
  rewrite (text_of_empty_render _ _ _ _ N1 H1 E1), (text_of_empty_render _ _ _ _ N2 H2 E2).
  f_equal. apply render_tsim. exact Hs.
Qed.

(* ---------------------------------------------------------------- no panic *)

Lemma append_fragment_ok t f :
  snd (text_span t) <= foff f ->
  exists t', append_fragment t f = Done t' /\ snd (text_span t') <= frag_end f.
Proof.
  intro H. unfold append_fragment. destruct (snd (text_span t) <=? foff f) eqn:E.
  2:{ apply N.leb_gt in E. lia. }
  destruct (ftext f) as [|c s] eqn:Ef.
  - exists t. split; [reflexivity|]. unfold frag_end. rewrite Ef. cbn [blen]. lia.
  - eexists. split; [reflexivity|]. unfold text_span. cbn [frags].
    destruct (frags t) as [|f0 fr]; cbn [app snd].
    + cbn [last]. lia.
    + change (f0 :: fr ++ [f]) with ((f0 :: fr) ++ [f]). rewrite last_last. lia.
Qed.

Lemma text_loop_no_panic cfg ts : p_strict_escape cfg = false ->
  forall t cs cur off,
  Forall (fun tk => tstr tk <> []) ts -> adjacent_from off ts ->
  snd (text_span t) <= cs -> cs + blen cur <= off ->
  exists t', text_loop cfg ts t cs cur = Done t'.
Proof.
  intro Hse. induction ts as [|tk r IH]; intros t cs cur off Hne Ha H1 H2.
  - cbn [text_loop]. unfold append_str.
    destruct (append_fragment_ok t {| ftext := cur; foff := cs; fsoft := false |}) as (t' & E & _);
      [exact H1|]. exists t'. exact E.
  - inversion Hne as [|? ? Hn Hr]; subst. destruct Ha as [Hs Ha].
    cbn [text_loop].
    destruct (append_fragment_ok t {| ftext := cur; foff := cs; fsoft := false |}) as (t1 & E1 & B1);
      [exact H1|]. unfold frag_end in B1. cbn [foff ftext] in B1. fold (append_str t cur cs) in E1.
    assert (Hend : tend tk = off + blen (tstr tk)) by (unfold tend; rewrite Hs; reflexivity).
    destruct (kind tk) eqn:K.
    all: try (apply (IH t cs (cur ++ tstr tk) (tend tk)); [exact Hr|exact Ha|exact H1|rewrite blen_app; lia]).
    all: rewrite E1; cbn [obind].
    + rewrite Hse, andb_false_r. cbn [andb].
      apply (IH t1 (tstart tk + 1) (tl (tstr tk)) (tend tk)); [exact Hr|exact Ha|lia|].
      destruct (tstr tk) as [|c s]; [contradiction Hn; reflexivity|].
      cbn [tl blen] in *. pose proof (utf8_len_pos c). lia.
    + destruct (append_fragment_ok t1 {| ftext := tstr tk; foff := tstart tk; fsoft := true |}) as (t2 & E2 & B2);
        [cbn [foff]; lia|]. rewrite E2. cbn [obind].
      unfold frag_end in B2. cbn [foff ftext] in B2.
      apply (IH t2 (tend tk) [] (tend tk)); [exact Hr|exact Ha|unfold tend; exact B2|cbn [blen]; lia].
    + apply (IH t1 (tend tk) [] (tend tk)); [exact Hr|exact Ha|lia|cbn [blen]; lia].
    + apply (IH t1 (tend tk) [] (tend tk)); [exact Hr|exact Ha|lia|cbn [blen]; lia].
Qed.

Theorem text_of_no_panic cfg o ts :
  p_strict_escape cfg = false -> Forall (fun tk => tstr tk <> []) ts -> adjacent_from o ts ->
  exists t, text_of cfg o ts = Done t.
Proof.
  intros Hse Hne Ha. destruct ts as [|t0 r].
  - eexists. reflexivity.
  - cbn [text_of]. pose proof Ha as [Hs _]. rewrite Hs, N.eqb_refl.
    apply (text_loop_no_panic cfg (t0 :: r) Hse (text_empty o) o [] o); [exact Hne|exact Ha| |].
    + unfold text_span. cbn [text_empty frags toff snd]. lia.
    + cbn [blen]. lia.
Qed.

(* the hypothesis that tokens are non-empty cannot be dropped: an (impossible) empty
   escaped token moves the start of the current run past the next token *)
Example text_of_no_panic_needs_nonempty cfg :
  p_strict_escape cfg = false ->
  let ts := [ {| kind := KEscaped; tstr := []; tstart := 0 |};
              {| kind := KWord; tstr := [97; 98]; tstart := 0 |};
              {| kind := KNewline; tstr := [10]; tstart := 2 |} ] in
  adjacent_from 0 ts /\ text_of cfg 0 ts = Panic site_text_append.
Proof.
  intro Hse. split; [repeat split|].
  cbn [text_of tstart]. change (0 =? 0) with true. cbv iota.
  cbn [text_loop kind tstr tstart]. rewrite Hse, andb_false_r. reflexivity.
Qed.

(* ================================================================ part B *)

(* ---------------------------------------------------------------- token kinds *)

Lemma ws_comment_not_newline k : is_ws_comment k = true -> tk_eqb k KNewline = false.
Proof. destruct k; intro H; try discriminate H; reflexivity. Qed.

Lemma ws_comment_empty k : is_ws_comment k = true -> is_empty_tok k = true.
Proof. destruct k; intro H; try discriminate H; reflexivity. Qed.

Lemma tk_eqb_newline k : tk_eqb k KNewline = true -> k = KNewline.
Proof. destruct k; intro H; try discriminate H; reflexivity. Qed.

(* ---------------------------------------------------------------- B1: blank lines *)

Lemma blank_line_nonempty l : blank_line l -> l <> [].
Proof. intros (w & nl & -> & _) E. apply app_eq_nil in E as [_ E]. discriminate. Qed.

Lemma pull_line_blank l r : blank_line l -> pull_line (l ++ r) = (l, r).
Proof.
  intros (w & nl & -> & Hk & Hw). induction w as [|a w IH].
  - cbn [app pull_line]. rewrite Hk. reflexivity.
  - cbn [forallb] in Hw. apply andb_true_iff in Hw as [Ha Hw].
    cbn [app pull_line]. rewrite (ws_comment_not_newline _ Ha).
    cbn [app] in IH. rewrite (IH Hw). reflexivity.
Qed.

Lemma blank_line_empty l : blank_line l -> line_is_empty l = true.
Proof.
  intros (w & nl & -> & Hk & Hw). unfold line_is_empty. rewrite forallb_app.
  apply andb_true_iff. split.
  - rewrite forallb_forall in *. intros x Hx. apply ws_comment_empty. apply Hw. exact Hx.
  - cbn [forallb]. rewrite Hk. reflexivity.
Qed.

Lemma blank_line_marker l r : blank_line l -> is_single_line_marker (l ++ r) = false.
Proof.
  intros (w & nl & -> & Hk & Hw). destruct w as [|a w].
  - cbn [app is_single_line_marker]. rewrite Hk. reflexivity.
  - cbn [forallb] in Hw. apply andb_true_iff in Hw as [Ha _].
    cbn [app is_single_line_marker]. destruct (kind a); try discriminate Ha; reflexivity.
Qed.

(* ---------------------------------------------------------------- pull_line *)

Lemma pull_line_split ts : forall a b, pull_line ts = (a, b) -> ts = a ++ b.
Proof.
  induction ts as [|t r IH]; intros a b H; cbn [pull_line] in H.
  - inversion H; reflexivity.
  - destruct (tk_eqb (kind t) KNewline).
    + inversion H; reflexivity.
    + destruct (pull_line r) as [a' b'] eqn:E. inversion H; subst.
      cbn [app]. f_equal. apply IH. reflexivity.
Qed.

Lemma pull_line_nonempty ts a b : ts <> [] -> pull_line ts = (a, b) -> a <> [].
Proof.
  destruct ts as [|t r]; [contradiction|]. intros _ H. cbn [pull_line] in H.
  destruct (tk_eqb (kind t) KNewline).
  - inversion H; discriminate.
  - destruct (pull_line r) as [a' b']. inversion H; discriminate.
Qed.

Lemma pull_line_len ts a b : ts <> [] -> pull_line ts = (a, b) -> (length b < length ts)%nat.
Proof.
  intros Hne H. pose proof (pull_line_nonempty _ _ _ Hne H) as Ha.
  apply pull_line_split in H. subst ts. rewrite app_length.
  destruct a; [contradiction|]. cbn [length]. lia.
Qed.

Lemma app_same_tail {A} (b r : list A) : b ++ r = r -> b = [].
Proof.
  intro H. apply (f_equal (@length A)) in H. rewrite app_length in H.
  destruct b; [reflexivity|]. cbn [length] in H. lia.
Qed.

Lemma length_pos_ne {A} (q : list A) : q <> [] -> (0 < length q)%nat.
Proof. destruct q; [contradiction|]. cbn [length]. lia. Qed.

Lemma app_ne_l {A} (q x : list A) : q <> [] -> q ++ x <> [].
Proof. intros H E. apply app_eq_nil in E as [E _]. contradiction. Qed.

Lemma nil_or_not {A} (q : list A) : q = [] \/ q <> [].
Proof. destruct q; [left; reflexivity | right; discriminate]. Qed.

(* ---------------------------------------------------------------- unfolding *)

Definition finish_block (l m r' : list tok) : option (list tok * list tok) :=
  match rev (strip_trailing_newlines (rev (l ++ m))) with
  | [] => None
  | _ :: _ => Some (rev (strip_trailing_newlines (rev (l ++ m))), r')
  end.

Lemma finish_block_rem l m r1 blk r2 :
  finish_block l m r1 = Some (blk, r2) -> r1 = r2 /\ forall x, finish_block l m x = Some (blk, x).
Proof.
  unfold finish_block. destruct (rev (strip_trailing_newlines (rev (l ++ m)))); [discriminate|].
  intro H. inversion H; subst. split; [reflexivity|]. intro x. reflexivity.
Qed.

Lemma more_lines_S_ne f ts : ts <> [] ->
  more_lines (S f) ts =
  if is_single_line_marker ts then ([], ts)
  else let '(l, r) := pull_line ts in
       if line_is_empty l then ([], r)
       else let '(m, r') := more_lines f r in (l ++ m, r').
Proof. destruct ts; [contradiction|]. reflexivity. Qed.

Lemma next_block_S_ne f ts : ts <> [] ->
  next_block (S f) ts =
  let '(l, r) := pull_line ts in
  if line_is_empty l then next_block f r
  else let '(m, r') := if is_single_line_marker l then ([], r) else more_lines (S (length r)) r in
       finish_block l m r'.
Proof. destruct ts; [contradiction|]. reflexivity. Qed.

(* ---------------------------------------------------------------- lengths *)

Lemma more_lines_len f : forall ts m r, more_lines f ts = (m, r) -> (length r <= length ts)%nat.
Proof.
  induction f as [|f IH]; intros ts m r H.
  - cbn [more_lines] in H. inversion H; subst. lia.
  - destruct (nil_or_not ts) as [-> | Hne].
    + cbn in H. inversion H; subst. lia.
    + rewrite (more_lines_S_ne f ts Hne) in H.
      destruct (is_single_line_marker ts); [inversion H; subst; lia|].
      destruct (pull_line ts) as [a b] eqn:Ep. apply (pull_line_len _ _ _ Hne) in Ep.
      destruct (line_is_empty a); [inversion H; subst; lia|].
      destruct (more_lines f b) as [m' r'] eqn:Em. apply IH in Em. inversion H; subst. lia.
Qed.

Lemma next_block_len f : forall ts blk r, next_block f ts = Some (blk, r) -> (length r < length ts)%nat.
Proof.
  induction f as [|f IH]; intros ts blk r H.
  - cbn [next_block] in H. discriminate.
  - destruct (nil_or_not ts) as [-> | Hne]; [cbn in H; discriminate|].
    rewrite (next_block_S_ne f ts Hne) in H.
    destruct (pull_line ts) as [a b] eqn:Ep. apply (pull_line_len _ _ _ Hne) in Ep.
    destruct (line_is_empty a).
    + apply IH in H. lia.
    + destruct (is_single_line_marker a).
      * apply finish_block_rem in H as [<- _]. exact Ep.
      * destruct (more_lines (S (length b)) b) as [m r'] eqn:Em. apply more_lines_len in Em.
        apply finish_block_rem in H as [<- _]. lia.
Qed.

(* ---------------------------------------------------------------- B2: fuel *)

Lemma more_lines_fuel f1 : forall f2 ts, (length ts < f1)%nat -> (length ts < f2)%nat ->
  more_lines f1 ts = more_lines f2 ts.
Proof.
  induction f1 as [|f1 IH]; intros f2 ts H1 H2; [lia|]. destruct f2 as [|f2]; [lia|].
  destruct (nil_or_not ts) as [-> | Hne]; [reflexivity|].
  rewrite !more_lines_S_ne by exact Hne.
  destruct (is_single_line_marker ts); [reflexivity|].
  destruct (pull_line ts) as [a b] eqn:Ep. apply (pull_line_len _ _ _ Hne) in Ep.
  destruct (line_is_empty a); [reflexivity|].
  rewrite (IH f2 b); [reflexivity|lia|lia].
Qed.

Lemma next_block_fuel f1 : forall f2 ts, (length ts < f1)%nat -> (length ts < f2)%nat ->
  next_block f1 ts = next_block f2 ts.
Proof.
  induction f1 as [|f1 IH]; intros f2 ts H1 H2; [lia|]. destruct f2 as [|f2]; [lia|].
  destruct (nil_or_not ts) as [-> | Hne]; [reflexivity|].
  rewrite !next_block_S_ne by exact Hne.
  destruct (pull_line ts) as [a b] eqn:Ep. apply (pull_line_len _ _ _ Hne) in Ep.
  destruct (line_is_empty a); [|reflexivity].
  apply IH; lia.
Qed.

(* ---------------------------------------------------------------- B3, B4 *)

Theorem split_blind_leading l r f1 f2 :
  blank_line l -> (length (l ++ r) < f1)%nat -> (length r < f2)%nat ->
  next_block f1 (l ++ r) = next_block f2 r.
Proof.
  intros Hl H1 H2. destruct f1 as [|f1]; [lia|].
  pose proof (blank_line_nonempty l Hl) as Hne.
  rewrite next_block_S_ne by (apply app_ne_l; exact Hne).
  rewrite (pull_line_blank l r Hl), (blank_line_empty l Hl).
  apply next_block_fuel; [|exact H2].
  rewrite app_length in H1. apply length_pos_ne in Hne. lia.
Qed.

Theorem blocks_blind_leading cfg l r f old evs :
  blank_line l -> blocks_loop cfg f (l ++ r) old evs = blocks_loop cfg f r old evs.
Proof.
  intro Hl. destruct f as [|f]; [reflexivity|]. cbn [blocks_loop].
  rewrite (split_blind_leading l r (S (length (l ++ r))) (S (length r)) Hl); [reflexivity|lia|lia].
Qed.

(* ---------------------------------------------------------------- complete lines *)

(* [nl_end q]: q is empty or its last token is a newline token (q consists of complete lines) *)
Fixpoint nl_end (q : list tok) : Prop :=
  match q with
  | [] => True
  | t :: r => match r with [] => kind t = KNewline | _ :: _ => nl_end r end
  end.

Lemma nl_end_cons t r : r <> [] -> nl_end (t :: r) = nl_end r.
Proof. destruct r; [contradiction|]. reflexivity. Qed.

Lemma nl_end_tail t r : nl_end (t :: r) -> nl_end r.
Proof. destruct r as [|t' r']; [intros _; exact I|]. intro H. exact H. Qed.

Lemma nl_end_snoc p nl : kind nl = KNewline -> nl_end (p ++ [nl]).
Proof.
  intro Hk. induction p as [|a p IH]; [exact Hk|].
  cbn [app]. rewrite nl_end_cons; [exact IH|]. intro E. apply app_eq_nil in E as [_ E]. discriminate.
Qed.

Lemma nl_end_app a b : nl_end a -> nl_end b -> nl_end (a ++ b).
Proof.
  intros Ha Hb. induction a as [|t a IH]; [exact Hb|].
  cbn [app]. destruct (nil_or_not (a ++ b)) as [E | Hne].
  - apply app_eq_nil in E as [-> ->]. exact Ha.
  - rewrite nl_end_cons by exact Hne. apply IH. apply nl_end_tail in Ha. exact Ha.
Qed.

Lemma nl_end_app_r a b : nl_end (a ++ b) -> nl_end b.
Proof.
  induction a as [|t a IH]; intro H; [exact H|].
  cbn [app] in H. apply IH. apply nl_end_tail in H. exact H.
Qed.

Lemma nl_end_inv q : q <> [] -> nl_end q -> exists p nl, q = p ++ [nl] /\ kind nl = KNewline.
Proof.
  intros Hne H. destruct (exists_last Hne) as (p & x & ->). exists p, x. split; [reflexivity|].
  apply nl_end_app_r in H. exact H.
Qed.

Lemma marker_app q x : q <> [] -> is_single_line_marker (q ++ x) = is_single_line_marker q.
Proof. destruct q; [contradiction|]. reflexivity. Qed.

Lemma pull_line_app q : forall a b, q <> [] -> nl_end q -> pull_line q = (a, b) ->
  forall x, pull_line (q ++ x) = (a, b ++ x).
Proof.
  induction q as [|t q IH]; intros a b Hne Hq E x; [contradiction|].
  cbn [pull_line] in E. cbn [app pull_line].
  destruct (tk_eqb (kind t) KNewline) eqn:Et.
  - inversion E; subst. reflexivity.
  - destruct (pull_line q) as [a' b'] eqn:E'. inversion E; subst.
    destruct (nil_or_not q) as [-> | Hq'].
    + cbn [nl_end] in Hq. rewrite Hq in Et. discriminate Et.
    + rewrite (IH a' b Hq' (nl_end_tail _ _ Hq) eq_refl x). reflexivity.
Qed.

Lemma pull_line_nl_end q : forall a b, nl_end q -> pull_line q = (a, b) -> nl_end b.
Proof.
  induction q as [|t q IH]; intros a b Hq E; cbn [pull_line] in E.
  - inversion E; exact I.
  - destruct (tk_eqb (kind t) KNewline) eqn:Et.
    + inversion E; subst. apply nl_end_tail in Hq. exact Hq.
    + destruct (pull_line q) as [a' b'] eqn:E'. inversion E; subst.
      apply (IH a' b); [|reflexivity]. apply nl_end_tail in Hq. exact Hq.
Qed.

(* the line pulled off is complete when something follows it *)
Lemma pull_line_nl ts : forall a b, pull_line ts = (a, b) -> b <> [] -> nl_end a.
Proof.
  induction ts as [|t r IH]; intros a b E Hb; cbn [pull_line] in E.
  - inversion E; exact I.
  - destruct (tk_eqb (kind t) KNewline) eqn:Et.
    + inversion E; subst. apply tk_eqb_newline in Et. exact Et.
    + destruct (pull_line r) as [a' b'] eqn:E'. inversion E; subst.
      assert (Hr : r <> []). { intros ->. cbn in E'. inversion E'; subst. contradiction. }
      rewrite nl_end_cons by (eapply pull_line_nonempty; [exact Hr|exact E']).
      apply (IH a' b eq_refl Hb).
Qed.

(* ---------------------------------------------------------------- B5 *)

Lemma more_lines_insert l r : blank_line l ->
  forall f q m f', nl_end q ->
  more_lines f (q ++ r) = (m, r) ->
  (length (q ++ r) < f)%nat -> (length (q ++ l ++ r) < f')%nat ->
  exists r', more_lines f' (q ++ l ++ r) = (m, r') /\ (r' = r \/ r' = l ++ r).
Proof.
  intro Hl. pose proof (blank_line_nonempty l Hl) as Hlne.
  induction f as [|f IH]; intros q m f' Hq E H1 H2; [lia|]. destruct f' as [|f']; [lia|].
  destruct (nil_or_not q) as [-> | Hne].
  - cbn [app] in *.
    assert (Hm : m = []).
    { destruct (nil_or_not r) as [-> | Hr].
      - cbn in E. inversion E; reflexivity.
      - rewrite (more_lines_S_ne f r Hr) in E.
        destruct (is_single_line_marker r); [inversion E; reflexivity|].
        destruct (pull_line r) as [a b] eqn:Ep. apply (pull_line_len _ _ _ Hr) in Ep.
        destruct (line_is_empty a); [inversion E; subst; lia|].
        destruct (more_lines f b) as [m' r'] eqn:Em. apply more_lines_len in Em.
        inversion E; subst. lia. }
    subst m. exists r. split; [|left; reflexivity].
    rewrite more_lines_S_ne by (apply app_ne_l; exact Hlne).
    rewrite (blank_line_marker l r Hl), (pull_line_blank l r Hl), (blank_line_empty l Hl).
    reflexivity.
  - rewrite more_lines_S_ne in E by (apply app_ne_l; exact Hne).
    rewrite more_lines_S_ne by (apply app_ne_l; exact Hne).
    rewrite marker_app in E by exact Hne. rewrite marker_app by exact Hne.
    destruct (is_single_line_marker q) eqn:Emk.
    { inversion E as [[Hm Hr]]. apply app_same_tail in Hr. contradiction. }
    destruct (pull_line q) as [a b] eqn:Ep.
    pose proof (pull_line_app q a b Hne Hq Ep) as Hpa.
    pose proof (pull_line_nl_end q a b Hq Ep) as Hb.
    pose proof (pull_line_len q a b Hne Ep) as Hlen.
    rewrite Hpa in E. rewrite Hpa.
    destruct (line_is_empty a) eqn:Ea.
    + inversion E as [[Hm Hr]]. apply app_same_tail in Hr. subst b.
      exists (l ++ r). split; [reflexivity|right; reflexivity].
    + destruct (more_lines f (b ++ r)) as [m' r''] eqn:Em. inversion E; subst r'' m.
      rewrite !app_length in *.
      destruct (IH b m' f' Hb Em) as (r' & E' & Hr'); [rewrite app_length; lia|rewrite !app_length; lia|].
      rewrite E'. exists r'. split; [reflexivity|exact Hr'].
Qed.

Lemma split_blind_after_aux l r blk : blank_line l ->
  forall f pre f', pre <> [] -> nl_end pre ->
  next_block f (pre ++ r) = Some (blk, r) ->
  (length (pre ++ r) < f)%nat -> (length (pre ++ l ++ r) < f')%nat ->
  exists r', next_block f' (pre ++ l ++ r) = Some (blk, r') /\ (r' = r \/ r' = l ++ r).
Proof.
  intro Hl.
  induction f as [|f IH]; intros pre f' Hne Hq E H1 H2; [lia|]. destruct f' as [|f']; [lia|].
  rewrite next_block_S_ne in E by (apply app_ne_l; exact Hne).
  rewrite next_block_S_ne by (apply app_ne_l; exact Hne).
  destruct (pull_line pre) as [a b] eqn:Ep.
  pose proof (pull_line_app pre a b Hne Hq Ep) as Hpa.
  pose proof (pull_line_nl_end pre a b Hq Ep) as Hb.
  pose proof (pull_line_len pre a b Hne Ep) as Hlen.
  rewrite Hpa in E. rewrite Hpa.
  rewrite !app_length in H1. rewrite !app_length in H2.
  destruct (line_is_empty a) eqn:Ea.
  - destruct (nil_or_not b) as [-> | Hbne].
    + cbn [app] in E. apply next_block_len in E. lia.
    + apply IH; [exact Hbne|exact Hb|exact E|rewrite app_length; lia|rewrite !app_length; lia].
  - destruct (is_single_line_marker a) eqn:Es.
    + apply finish_block_rem in E as [Hr E]. apply app_same_tail in Hr. subst b.
      exists (l ++ r). split; [apply E|right; reflexivity].
    + destruct (more_lines (S (length (b ++ r))) (b ++ r)) as [m r''] eqn:Em.
      apply finish_block_rem in E as [Hr E]. subst r''.
      destruct (more_lines_insert l r Hl _ b m (S (length (b ++ l ++ r))) Hb Em) as (r' & E' & Hr');
        [lia|lia|].
      rewrite E'. exists r'. split; [apply E|exact Hr'].
Qed.

Theorem split_blind_after pre r blk l f f' :
  next_block f (pre ++ r) = Some (blk, r) ->
  (length (pre ++ r) < f)%nat -> (length (pre ++ l ++ r) < f')%nat ->
  (exists p nl, pre = p ++ [nl] /\ kind nl = KNewline) ->
  blank_line l ->
  exists r', next_block f' (pre ++ l ++ r) = Some (blk, r') /\ (r' = r \/ r' = l ++ r).
Proof.
  intros E H1 H2 (p & nl & -> & Hk) Hl.
  apply (split_blind_after_aux l r blk Hl f (p ++ [nl]) f'); [|apply nl_end_snoc; exact Hk|exact E|exact H1|exact H2].
  intro X. apply app_eq_nil in X as [_ X]. discriminate.
Qed.

(* ---------------------------------------------------------------- B6 *)

(* what a splitter call consumed consists of complete lines when something follows *)
Lemma more_lines_consumed f : forall ts m r, more_lines f ts = (m, r) ->
  exists mid, ts = mid ++ r /\ (r <> [] -> nl_end mid).
Proof.
  induction f as [|f IH]; intros ts m r H.
  - cbn [more_lines] in H. inversion H; subst. exists []. split; [reflexivity|intros _; exact I].
  - destruct (nil_or_not ts) as [-> | Hne].
    + cbn in H. inversion H; subst. exists []. split; [reflexivity|intros _; exact I].
    + rewrite (more_lines_S_ne f ts Hne) in H.
      destruct (is_single_line_marker ts).
      { inversion H; subst. exists []. split; [reflexivity|intros _; exact I]. }
      destruct (pull_line ts) as [a b] eqn:Ep.
      pose proof (pull_line_split ts a b Ep) as Hs. pose proof (pull_line_nl ts a b Ep) as Ha.
      destruct (line_is_empty a).
      { inversion H; subst b m. exists a. split; [exact Hs|exact Ha]. }
      destruct (more_lines f b) as [m' r'] eqn:Em. inversion H; subst r' m.
      destruct (IH b m' r Em) as (mid & Hb & Hmid). exists (a ++ mid). split.
      * rewrite <- app_assoc, <- Hb. exact Hs.
      * intro Hr. apply nl_end_app; [|exact (Hmid Hr)]. apply Ha. rewrite Hb. intro X.
        apply app_eq_nil in X as [_ X]. contradiction.
Qed.

Lemma next_block_consumed f : forall ts blk r, next_block f ts = Some (blk, r) ->
  exists mid, ts = mid ++ r /\ (r <> [] -> nl_end mid).
Proof.
  induction f as [|f IH]; intros ts blk r H.
  - cbn [next_block] in H. discriminate.
  - destruct (nil_or_not ts) as [-> | Hne]; [cbn in H; discriminate|].
    rewrite (next_block_S_ne f ts Hne) in H.
    destruct (pull_line ts) as [a b] eqn:Ep.
    pose proof (pull_line_split ts a b Ep) as Hs. pose proof (pull_line_nl ts a b Ep) as Ha.
    assert (Hcomb : forall mid, b = mid ++ r -> (r <> [] -> nl_end mid) ->
                    exists mid', ts = mid' ++ r /\ (r <> [] -> nl_end mid')).
    { intros mid Hb Hmid. exists (a ++ mid). split.
      - rewrite <- app_assoc, <- Hb. exact Hs.
      - intro Hr. apply nl_end_app; [|exact (Hmid Hr)]. apply Ha. rewrite Hb. intro X.
        apply app_eq_nil in X as [_ X]. contradiction. }
    destruct (line_is_empty a).
    + destruct (IH b blk r H) as (mid & Hb & Hmid). exact (Hcomb mid Hb Hmid).
    + destruct (is_single_line_marker a).
      * apply finish_block_rem in H as [<- _]. exists a. split; [exact Hs|exact Ha].
      * destruct (more_lines (S (length b)) b) as [m r'] eqn:Em.
        apply finish_block_rem in H as [<- _].
        destruct (more_lines_consumed _ b m r' Em) as (mid & Hb & Hmid). exact (Hcomb mid Hb Hmid).
Qed.

Lemma reach_suffix ts r : reach ts r -> exists pre, ts = pre ++ r.
Proof.
  induction 1 as [ts | ts blk r0 r Hnb _ [pre' ->]].
  - exists []. reflexivity.
  - apply next_block_consumed in Hnb as (mid & -> & _). exists (mid ++ pre'). rewrite app_assoc. reflexivity.
Qed.

(* locality: where a block ends depends on what follows only through the kind of the next token *)
Lemma more_lines_local r0 r0' : r0 <> [] -> r0' <> [] ->
  is_single_line_marker r0 = is_single_line_marker r0' ->
  forall f q m f', nl_end q ->
  more_lines f (q ++ r0) = (m, r0) ->
  (length (q ++ r0) < f)%nat -> (length (q ++ r0') < f')%nat ->
  more_lines f' (q ++ r0') = (m, r0').
Proof.
  intros Hr Hr' Hmk.
  induction f as [|f IH]; intros q m f' Hq E H1 H2; [lia|]. destruct f' as [|f']; [lia|].
  destruct (nil_or_not q) as [-> | Hne].
  - cbn [app] in *. rewrite (more_lines_S_ne f r0 Hr) in E. rewrite (more_lines_S_ne f' r0' Hr').
    rewrite <- Hmk. destruct (is_single_line_marker r0).
    + inversion E; reflexivity.
    + exfalso. destruct (pull_line r0) as [a b] eqn:Ep. apply (pull_line_len _ _ _ Hr) in Ep.
      destruct (line_is_empty a); [inversion E; subst; lia|].
      destruct (more_lines f b) as [m' r'] eqn:Em. apply more_lines_len in Em.
      inversion E; subst. lia.
  - rewrite more_lines_S_ne in E by (apply app_ne_l; exact Hne).
    rewrite more_lines_S_ne by (apply app_ne_l; exact Hne).
    rewrite marker_app in E by exact Hne. rewrite marker_app by exact Hne.
    destruct (is_single_line_marker q) eqn:Emk.
    { inversion E as [[Hm Hx]]. apply app_same_tail in Hx. contradiction. }
    destruct (pull_line q) as [a b] eqn:Ep.
    pose proof (pull_line_app q a b Hne Hq Ep) as Hpa.
    pose proof (pull_line_nl_end q a b Hq Ep) as Hb.
    pose proof (pull_line_len q a b Hne Ep) as Hlen.
    rewrite Hpa in E. rewrite Hpa.
    rewrite app_length in H1. rewrite app_length in H2.
    destruct (line_is_empty a) eqn:Ea.
    + inversion E as [[Hm Hx]]. apply app_same_tail in Hx. subst b. reflexivity.
    + destruct (more_lines f (b ++ r0)) as [m' r''] eqn:Em. inversion E; subst r'' m.
      rewrite (IH b m' f' Hb Em); [reflexivity|rewrite app_length; lia|rewrite app_length; lia].
Qed.

Lemma next_block_local r0 r0' blk : r0 <> [] -> r0' <> [] ->
  is_single_line_marker r0 = is_single_line_marker r0' ->
  forall f pre f', pre <> [] -> nl_end pre ->
  next_block f (pre ++ r0) = Some (blk, r0) ->
  (length (pre ++ r0) < f)%nat -> (length (pre ++ r0') < f')%nat ->
  next_block f' (pre ++ r0') = Some (blk, r0').
Proof.
  intros Hr Hr' Hmk.
  induction f as [|f IH]; intros pre f' Hne Hq E H1 H2; [lia|]. destruct f' as [|f']; [lia|].
  rewrite next_block_S_ne in E by (apply app_ne_l; exact Hne).
  rewrite next_block_S_ne by (apply app_ne_l; exact Hne).
  destruct (pull_line pre) as [a b] eqn:Ep.
  pose proof (pull_line_app pre a b Hne Hq Ep) as Hpa.
  pose proof (pull_line_nl_end pre a b Hq Ep) as Hb.
  pose proof (pull_line_len pre a b Hne Ep) as Hlen.
  rewrite Hpa in E. rewrite Hpa.
  rewrite app_length in H1. rewrite app_length in H2.
  destruct (line_is_empty a) eqn:Ea.
  - destruct (nil_or_not b) as [-> | Hbne].
    + cbn [app] in E. apply next_block_len in E. lia.
    + apply IH; [exact Hbne|exact Hb|exact E|rewrite app_length; lia|rewrite app_length; lia].
  - destruct (is_single_line_marker a) eqn:Es.
    + apply finish_block_rem in E as [Hx E]. apply app_same_tail in Hx. subst b. apply E.
    + destruct (more_lines (S (length (b ++ r0))) (b ++ r0)) as [m r''] eqn:Em.
      apply finish_block_rem in E as [Hx E]. subst r''.
      rewrite (more_lines_local r0 r0' Hr Hr' Hmk _ b m (S (length (b ++ r0'))) Hb Em); [apply E|lia|lia].
Qed.

Lemma obind_ext {A B} (o : outcome A) (f g : A -> outcome B) :
  (forall a, f a = g a) -> obind o f = obind o g.
Proof. intro H. destruct o; cbn [obind]; [apply H|reflexivity]. Qed.

Theorem blocks_blind_between cfg l ts r : reach ts r ->
  forall pre f old evs, ts = pre ++ r ->
  (pre = [] \/ exists p nl, pre = p ++ [nl] /\ kind nl = KNewline) ->
  blank_line l ->
  blocks_loop cfg f (pre ++ l ++ r) old evs = blocks_loop cfg f (pre ++ r) old evs.
Proof.
  induction 1 as [ts | ts blk r0 r Hnb Hreach IH]; intros pre f old evs Hts Hpre Hl.
  - symmetry in Hts. apply app_same_tail in Hts. subst pre. cbn [app].
    apply blocks_blind_leading. exact Hl.
  - subst ts. destruct f as [|f]; [reflexivity|]. cbn [blocks_loop].
    destruct (reach_suffix _ _ Hreach) as [pre' Hr0].
    destruct (next_block_consumed _ _ _ _ Hnb) as (mid & Hsplit & Hmid).
    pose proof (next_block_len _ _ _ _ Hnb) as Hlen.
    assert (Hpre_eq : pre = mid ++ pre').
    { rewrite Hr0, app_assoc in Hsplit. apply app_inv_tail in Hsplit. exact Hsplit. }
    assert (Hprene : pre <> []).
    { intros ->. cbn [app] in Hlen. rewrite Hr0, app_length in Hlen. lia. }
    assert (Hq : nl_end pre).
    { destruct Hpre as [-> | (p & nl & -> & Hk)]; [contradiction|]. apply nl_end_snoc. exact Hk. }
    destruct (nil_or_not pre') as [-> | Hne'].
    + cbn [app] in Hr0. subst r0.
      destruct (split_blind_after_aux l r blk Hl _ pre (S (length (pre ++ l ++ r))) Hprene Hq Hnb)
        as (r' & E' & Hr'); [lia|lia|].
      rewrite Hnb, E'. destruct Hr' as [-> | ->]; [reflexivity|].
      apply obind_ext. intro evs'. apply blocks_blind_leading. exact Hl.
    + assert (Hr0ne : r0 <> []) by (rewrite Hr0; apply app_ne_l; exact Hne').
      assert (Hmidne : mid <> []).
      { intros ->. cbn [app] in Hsplit. rewrite Hsplit in Hlen. lia. }
      assert (Hnb' : next_block (S (length (mid ++ pre' ++ l ++ r))) (mid ++ pre' ++ l ++ r)
                     = Some (blk, pre' ++ l ++ r)).
      { apply (next_block_local r0 (pre' ++ l ++ r) blk Hr0ne (app_ne_l _ _ Hne')) with
          (f := S (length (pre ++ r))); [|exact Hmidne|exact (Hmid Hr0ne)| |rewrite <- Hsplit; lia|lia].
        - rewrite Hr0, !marker_app by exact Hne'. reflexivity.
        - rewrite <- Hsplit. exact Hnb. }
      rewrite Hnb. rewrite Hpre_eq, <- app_assoc, Hnb'.
      apply obind_ext. intro evs'. rewrite Hr0. apply IH; [exact Hr0| |exact Hl].
      right. apply nl_end_inv; [exact Hne'|]. rewrite Hpre_eq in Hq. apply nl_end_app_r in Hq. exact Hq.
Qed.

(* ---------------------------------------------------------------- the hypotheses are satisfiable *)

Example split_blind_after_satisfiable :
  let a := {| kind := KWord; tstr := [97]; tstart := 0 |} in
  let n1 := {| kind := KNewline; tstr := [10]; tstart := 1 |} in
  let n2 := {| kind := KNewline; tstr := [10]; tstart := 2 |} in
  let b := {| kind := KWord; tstr := [98]; tstart := 3 |} in
  let c := {| kind := KLineComment; tstr := [45; 45; 120]; tstart := 3 |} in
  let n3 := {| kind := KNewline; tstr := [10]; tstart := 6 |} in
  let pre := [a; n1; n2] in let r := [b] in let l := [c; n3] in
  next_block 4 (pre ++ r) = Some ([a], r) /\ blank_line l /\ reach (pre ++ r) r /\
  (exists p nl, pre = p ++ [nl] /\ kind nl = KNewline) /\
  next_block 6 (pre ++ l ++ r) = Some ([a], l ++ r).
Proof.
  cbv zeta. repeat split.
  - exists [{| kind := KLineComment; tstr := [45; 45; 120]; tstart := 3 |}],
           {| kind := KNewline; tstr := [10]; tstart := 6 |}. repeat split.
  - eapply reach_step; [reflexivity|apply reach_here].
  - exists [{| kind := KWord; tstr := [97]; tstart := 0 |}; {| kind := KNewline; tstr := [10]; tstart := 1 |}],
           {| kind := KNewline; tstr := [10]; tstart := 2 |}. repeat split.
Qed.
