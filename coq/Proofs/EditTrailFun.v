(* Property C17, the trailing edit: the functions of Model/Parser.v below the components (alias,
   intermediate references, modifiers, note, component body) and the single-line and text blocks,
   under [wsimb], with the logic of EditTrailPrim.v. *)
From Coq Require Import List Lia.
From CL Require Import Base.StrLemmas Model.Lexer Model.PText Model.CommentMask Model.Parser Model.Edits
  Proofs.EditParserProofs Proofs.EditSimDefs Proofs.EditSimQty Proofs.EditSimComp Proofs.EditInsDefs Proofs.EditInsPrim.
From CL Require Import Proofs.EditTrailDefs Proofs.EditTrailStr Proofs.EditTrailPrim Proofs.EditTrailQty.
Import ListNotations.

(* ================================================================ lists *)
Definition noesc (t : tok) : Prop := esc_lone t = false.

Lemma okc_kind a r1 r2 : kind a <> KEscaped -> okc a r1 r2.
Proof. intro K. left. unfold esc_lone. rewrite (tkb_neq _ _ K). reflexivity. Qed.
Lemma noesc_kind a : kind a <> KEscaped -> noesc a.
Proof. intro K. unfold noesc, esc_lone. rewrite (tkb_neq _ _ K). reflexivity. Qed.

Lemma wsimb_app_wi e a1 a2 b1 b2 : Wi a1 a2 -> Forall noesc a1 -> wsimb e b1 b2 -> wsimb e (a1 ++ b1) (a2 ++ b2).
Proof.
  unfold Wi. induction 1 as [|a b r1 r2 Hab Ho H IH|a b r1 r2 Hab Ha H IH|g r1 r2 Hg Ha H IH]; intros N Hb.
  - exact Hb.
  - inversion N; subst. cbn [app]. apply w_cons; [exact Hab | left; assumption | apply IH; assumption].
  - inversion N; subst. cbn [app]. apply w_wsx; [exact Hab | | apply IH; assumption].
    destruct r1 as [|t q]; [discriminate Ha | exact Ha].
  - cbn [app]. apply w_ins; [exact Hg | | apply IH; assumption].
    destruct r1 as [|t q]; [discriminate Ha | exact Ha].
Qed.

Lemma ksim_wi_noesc l1 l2 : ksim l1 l2 -> Forall noesc l1 -> Wi l1 l2.
Proof.
  unfold Wi. induction 1 as [|a b r1 r2 Hab _ IH]; intro N; [constructor|]. inversion N; subst.
  apply w_cons; [exact Hab | left; assumption | apply IH; assumption].
Qed.

Lemma wi_nonl_ksim l1 l2 : Wi l1 l2 -> has_nl l1 = false -> ksim l1 l2.
Proof.
  unfold Wi. induction 1 as [|a b r1 r2 Hab Ho H IH|a b r1 r2 Hab Ha H IH|g r1 r2 Hg Ha H IH]; intro N.
  - constructor.
  - rewrite has_nl_cons in N. apply orb_false_iff in N as [_ N]. constructor; [exact Hab | exact (IH N)].
  - exfalso. rewrite has_nl_cons in N. apply orb_false_iff in N as [_ N]. destruct (atnl_false_inv _ Ha) as (t & q & -> & Kt).
    rewrite has_nl_cons in N. unfold is_nl in N. rewrite Kt in N. discriminate.
  - exfalso. destruct (atnl_false_inv _ Ha) as (t & q & -> & Kt). rewrite has_nl_cons in N. unfold is_nl in N. rewrite Kt in N. discriminate.
Qed.

(* tokens in front of a token that was found are not the lone backslash *)
Lemma wsimb_split_noesc (f : tkind -> bool) e l1 l2 : wsimb e l1 l2 -> forall n, position f l1 = Some n -> Forall noesc (firstn n l1).
Proof.
  induction 1 as [|a b r1 r2 Hab Ho H IH|a b r1 r2 Hab Ha H IH|g r1 r2 Hg Ha H IH]; intros n P.
  - discriminate.
  - cbn [position] in P. destruct (f (kind a)); [inversion P; constructor|].
    destruct (position f r1) as [k|] eqn:E; cbn [option_map] in P; [|discriminate]. inversion P; subst. cbn [firstn].
    constructor; [|apply IH; reflexivity]. destruct Ho as [Ho | [-> _]]; [exact Ho | discriminate E].
  - cbn [position] in P. destruct (f (kind a)); [inversion P; constructor|].
    destruct (position f r1) as [k|] eqn:E; cbn [option_map] in P; [|discriminate]. inversion P; subst. cbn [firstn].
    constructor; [|apply IH; reflexivity]. destruct Hab as (Ka & _). apply noesc_kind. rewrite Ka. discriminate.
  - apply IH. exact P.
Qed.

(* the found token included: everything inserted is followed by a newline token of the list *)
Lemma wsimb_split_incl (f : tkind -> bool) e l1 l2 :
  f KWs = false -> f KLineComment = false -> wsimb e l1 l2 ->
  match position f l1, position f l2 with
  | Some n1, Some n2 => Wi (firstn (S n1) l1) (firstn (S n2) l2)
  | _, _ => True
  end.
Proof.
  intros F1 F2. unfold Wi. induction 1 as [|a b r1 r2 Hab Ho H IH|a b r1 r2 Hab Ha H IH|g r1 r2 Hg Ha H IH].
  - exact I.
  - cbn [position]. rewrite <- (krel_kind _ _ Hab). destruct (f (kind a)) eqn:Fa.
    + cbn [firstn]. apply w_cons; [exact Hab | right; split; reflexivity | constructor].
    + destruct (position f r1) as [n1|] eqn:P1, (position f r2) as [n2|]; cbn [option_map]; try exact I.
      change (firstn (S (S n1)) (a :: r1)) with (a :: firstn (S n1) r1). change (firstn (S (S n2)) (b :: r2)) with (b :: firstn (S n2) r2).
      apply w_cons; [exact Hab | | exact IH]. destruct Ho as [Ho | [-> _]]; [left; exact Ho | discriminate P1].
  - pose proof Hab as (Ka & Kb & _). cbn [position]. rewrite Ka, Kb, F1.
    destruct (position f r1) as [n1|] eqn:P1, (position f r2) as [n2|]; cbn [option_map]; try exact I.
    change (firstn (S (S n1)) (a :: r1)) with (a :: firstn (S n1) r1). change (firstn (S (S n2)) (b :: r2)) with (b :: firstn (S n2) r2).
    apply w_wsx; [exact Hab | | exact IH]. destruct r1 as [|t q]; [discriminate P1|]. cbn [atnl firstn] in *. exact Ha.
  - cbn [position]. rewrite (gtok_f f g false F1 F2 Hg).
    destruct (position f r1) as [n1|] eqn:P1, (position f r2) as [n2|]; cbn [option_map]; try exact I.
    change (firstn (S (S n2)) (g :: r2)) with (g :: firstn (S n2) r2).
    apply w_ins; [exact Hg | | exact IH]. destruct r1 as [|t q]; [discriminate P1|]. cbn [atnl firstn] in *. exact Ha.
Qed.

Lemma cwc_firstn_all g l : Forall (fun t => g (kind t) = true) (firstn (cwc g l) l).
Proof.
  induction l as [|t r IH]; [constructor|]. rewrite cwc_cons. destruct (g (kind t)) eqn:E; [|constructor].
  cbn [firstn]. constructor; assumption.
Qed.

Lemma wi_existsb_nwb l1 l2 : Wi l1 l2 ->
  existsb (fun t => negb (is_ws_block (kind t))) l1 = existsb (fun t => negb (is_ws_block (kind t))) l2.
Proof.
  unfold Wi. induction 1 as [|a b r1 r2 Hab Ho H IH|a b r1 r2 Hab Ha H IH|g r1 r2 Hg Ha H IH].
  - reflexivity.
  - cbn [existsb]. rewrite (krel_kind _ _ Hab), IH. reflexivity.
  - destruct Hab as (Ka & Kb & _). cbn [existsb]. rewrite Ka, Kb, IH. reflexivity.
  - destruct (atnl_false_inv _ Ha) as (t & q & -> & Kt). cbn [existsb] in *. rewrite <- IH, Kt. cbn [is_ws_block negb orb].
    rewrite orb_true_r. reflexivity.
Qed.

Lemma wsimb_tl_position (f : tkind -> bool) e l1 l2 n1 n2 :
  synced f e (skipn n1 l1) (skipn n2 l2) -> wsimb e (skipn (S n1) l1) (skipn (S n2) l2).
Proof.
  intros (a & b & r1 & r2 & E1 & E2 & _ & _ & _ & H). rewrite <- (tl_skipn_tok n1), <- (tl_skipn_tok n2), E1, E2. exact H.
Qed.

Lemma position_cons_false_w (f : tkind -> bool) t r n :
  f (kind t) = false -> position f (t :: r) = Some n -> exists e, n = S e /\ position f r = Some e.
Proof.
  intros Ft H. cbn [position] in H. rewrite Ft in H. destruct (position f r) as [e|]; cbn [option_map] in H; [|discriminate].
  inversion H; subst. exists e. split; reflexivity.
Qed.

(* ================================================================ tactics *)
Ltac wn_err_ret := eapply WN_bind; [first [apply WN_error_any | apply WN_warn]|]; intros _ _ _; apply WN_ret.

Section Fun.
  Variable cfg : pcfg.

  (* ================================================================ A. token-neutral functions *)
  Lemma check_empty_name_w e n1 n2 : trw e n1 n2 -> WN anyrel (check_empty_name n1) (check_empty_name n2).
  Proof.
    intro H. unfold check_empty_name. rewrite (trw_empty _ _ _ H).
    destruct (is_text_empty n2); [apply WN_error | apply WN_ret; exact I].
  Qed.

  Lemma parse_alias_w e ts1 ts2 o1 o2 : wsimb e ts1 ts2 ->
    WN (prel (trw e) (orel (trw e))) (parse_alias cfg ts1 o1) (parse_alias cfg ts2 o2).
  Proof.
    intro H. unfold parse_alias.
    assert (Hplain : WN (prel (trw e) (orel (trw e))) (nt <- textM cfg o1 ts1 ;; ret (nt, @None text))
                                                        (nt <- textM cfg o2 ts2 ;; ret (nt, @None text))).
    { eapply WN_bind; [apply WN_textM; exact H|]. intros t1 t2 Ht. apply WN_ret. split; [exact Ht | exact I]. }
    destruct (has cfg X_COMPONENT_ALIAS); [|exact Hplain].
    pose proof (wsimb_split (fun k => tk_eqb k KOr) e ts1 ts2 eq_refl eq_refl H) as X.
    destruct (position (fun k => tk_eqb k KOr) ts1) as [n1|] eqn:P1,
             (position (fun k => tk_eqb k KOr) ts2) as [n2|] eqn:P2; try contradiction; [|exact Hplain].
    destruct X as [Xn (sep1 & sep2 & a1 & a2 & E1 & E2 & Hsep & _ & _ & Ha)]. rewrite E1, E2.
    eapply WN_bind; [apply WN_textM; exact Ha|]. intros at1 at2 Hat.
    eapply WN_bind with (RA := orel (trw e)).
    - rewrite (wsimb_existsb (fun k => tk_eqb k KOr) _ _ _ eq_refl eq_refl Ha).
      destruct (existsb _ a2); [wn_err_ret; exact I|].
      rewrite (trw_empty _ _ _ Hat). destruct (is_text_empty at2); [wn_err_ret; exact I|].
      apply WN_ret. exact Hat.
    - intros al1 al2 Hal. eapply WN_bind; [apply WN_textM; exact Xn|].
      intros t1 t2 Ht. apply WN_ret. split; [apply trw_weaken; exact Ht | exact Hal].
  Qed.

  (* ================================================================ intermediate references *)
  (* the decision of parse_intermediate_ref_data on the tokens between the parentheses *)
  Definition inter_tail (filtered slice inner after : list tok) : M (option interdata * list tok) :=
    let good (i : tok) (rel sec : bool) : M (option interdata * list tok) :=
      let v := digits_val (tstr i) in
      if v <=? i16_max then
        ret (Some {| im_relative := rel; im_section := sec; im_val := v; im_span := tokens_span slice |}, after)
      else error D_INTER_INT [tok_span i] ;;; ret (None, after) in
    match filtered with
    | [] => error D_INTER_EMPTY [tokens_span slice] ;;; ret (None, after)
    | [i] =>
        if tk_eqb (kind i) KInt then good i false false
        else error D_INTER_INVALID [tokens_span inner] ;;; ret (None, after)
    | [a; i] =>
        if tk_eqb (kind a) KTilde && tk_eqb (kind i) KInt then good i true false
        else if tk_eqb (kind a) KEq && tk_eqb (kind i) KInt then good i false true
        else if (tk_eqb (kind a) KMinus || tk_eqb (kind a) KPlus) && tk_eqb (kind i) KInt
        then error D_INTER_SIGN [tok_span a] ;;; ret (None, after)
        else error D_INTER_INVALID [tokens_span inner] ;;; ret (None, after)
    | [a; b; i] =>
        if tk_eqb (kind a) KEq && tk_eqb (kind b) KTilde && tk_eqb (kind i) KInt then good i true true
        else if tk_eqb (kind a) KTilde && tk_eqb (kind b) KEq && tk_eqb (kind i) KInt
        then error D_INTER_ORDER [tok_span a; tok_span b] ;;; ret (None, after)
        else if (tk_eqb (kind b) KMinus || tk_eqb (kind b) KPlus) && tk_eqb (kind i) KInt
        then error D_INTER_SIGN [tok_span b] ;;; ret (None, after)
        else error D_INTER_INVALID [tokens_span inner] ;;; ret (None, after)
    | _ =>
        let r := rev filtered in
        match r with
        | i :: s :: _ =>
            if (tk_eqb (kind s) KMinus || tk_eqb (kind s) KPlus) && tk_eqb (kind i) KInt
            then error D_INTER_SIGN [tok_span s] ;;; ret (None, after)
            else error D_INTER_INVALID [tokens_span inner] ;;; ret (None, after)
        | _ => error D_INTER_INVALID [tokens_span inner] ;;; ret (None, after)
        end
    end.

  Lemma parse_inter_unfold ts :
    parse_inter ts =
    match ts with
    | t0 :: _ =>
        if negb (tk_eqb (kind t0) KOpenParen) then ret (None, ts)
        else
          match position (fun k => tk_eqb k KCloseParen) ts with
          | None => panic site_inter_paren
          | Some endp =>
              inter_tail (filter (fun t => negb (is_ws_block (kind t))) (firstn (endp - 1) (tl (firstn (S endp) ts))))
                         (firstn (S endp) ts) (firstn (endp - 1) (tl (firstn (S endp) ts))) (skipn (S endp) ts)
          end
    | [] => ret (None, ts)
    end.
  Proof. reflexivity. Qed.

  (* with a newline token between the parentheses the group is malformed: an error, whatever was inserted *)
  Lemma inter_tail_nl fl slice inner after : has_nl fl = true ->
    exists c l, inter_tail fl slice inner after = (error c l ;;; ret (None, after)).
  Proof.
    intro H. unfold inter_tail. destruct fl as [|a [|b [|c [|d r]]]].
    - discriminate.
    - rewrite has_nl_cons in H. cbn [has_nl existsb] in H. rewrite orb_false_r in H.
      destruct (tk_eqb (kind a) KInt) eqn:Ea; [apply tkb_true in Ea; rewrite (kind_not_nl _ _ Ea) in H by discriminate; discriminate|].
      eexists; eexists; reflexivity.
    - rewrite !has_nl_cons in H. cbn [has_nl existsb] in H. rewrite orb_false_r in H.
      destruct (tk_eqb (kind b) KInt) eqn:Eb.
      + apply tkb_true in Eb. rewrite (kind_not_nl _ _ Eb) in H by discriminate. rewrite orb_false_r in H.
        unfold is_nl in H. apply tkb_true in H. rewrite H. cbn [tk_eqb tkind_beq andb orb]. eexists; eexists; reflexivity.
      + rewrite !andb_false_r. eexists; eexists; reflexivity.
    - destruct (tk_eqb (kind c) KInt) eqn:Ec.
      + apply tkb_true in Ec. rewrite !has_nl_cons in H. cbn [has_nl existsb] in H. rewrite (kind_not_nl _ _ Ec) in H by discriminate.
        rewrite !orb_false_r in H. rewrite !andb_true_r.
        destruct (tk_eqb (kind a) KEq && tk_eqb (kind b) KTilde) eqn:T1.
        { apply andb_prop in T1 as [A B]. apply tkb_true in A. apply tkb_true in B.
          rewrite (kind_not_nl _ _ A), (kind_not_nl _ _ B) in H by discriminate. discriminate. }
        destruct (tk_eqb (kind a) KTilde && tk_eqb (kind b) KEq); [eexists; eexists; reflexivity|].
        destruct (tk_eqb (kind b) KMinus || tk_eqb (kind b) KPlus); eexists; eexists; reflexivity.
      + rewrite !andb_false_r. eexists; eexists; reflexivity.
    - cbv zeta. destruct (rev (a :: b :: c :: d :: r)) as [|i [|s q]]; try (eexists; eexists; reflexivity).
      destruct ((tk_eqb (kind s) KMinus || tk_eqb (kind s) KPlus) && tk_eqb (kind i) KInt); eexists; eexists; reflexivity.
  Qed.

  Lemma inter_tail_k fl1 fl2 sl1 sl2 in1 in2 af1 af2 e : ksim fl1 fl2 -> wsimb e af1 af2 ->
    WN (prel (orel irel) (wsimb e)) (inter_tail fl1 sl1 in1 af1) (inter_tail fl2 sl2 in2 af2).
  Proof.
    intros Hf Haf. pose proof (Forall2_rev' _ _ _ Hf) as Hrv. unfold inter_tail.
    assert (Herr : forall c l1 l2, WN (prel (orel irel) (wsimb e)) (error c l1 ;;; ret (@None interdata, af1))
                                      (error c l2 ;;; ret (@None interdata, af2))).
    { intros c l1 l2. wn_err_ret. split; [exact I | exact Haf]. }
    assert (Hgood : forall i1 i2 c rl sc, krel i1 i2 -> c && tk_eqb (kind i2) KInt = true ->
      WN (prel (orel irel) (wsimb e))
         (if digits_val (tstr i1) <=? i16_max
          then ret (Some {| im_relative := rl; im_section := sc; im_val := digits_val (tstr i1); im_span := tokens_span sl1 |}, af1)
          else error D_INTER_INT [tok_span i1] ;;; ret (None, af1))
         (if digits_val (tstr i2) <=? i16_max
          then ret (Some {| im_relative := rl; im_section := sc; im_val := digits_val (tstr i2); im_span := tokens_span sl2 |}, af2)
          else error D_INTER_INT [tok_span i2] ;;; ret (None, af2))).
    { intros i1 i2 c rl sc Hi E. rewrite (krel_int_tstr _ _ _ Hi E).
      destruct (digits_val (tstr i2) <=? i16_max); [|apply Herr]. apply WN_ret. split; [reflexivity | exact Haf]. }
    destruct Hf as [|a1 a2 g1 g2 Ha Hg]; [apply Herr|].
    destruct Hg as [|b1 b2 g1 g2 Hb Hg].
    { cbv iota. rewrite (krel_kind _ _ Ha). destruct (tk_eqb (kind a2) KInt) eqn:E; [|apply Herr].
      apply (Hgood a1 a2 true); [exact Ha | exact E]. }
    destruct Hg as [|c1 c2 g1 g2 Hc Hg].
    { cbv iota. rewrite (krel_kind _ _ Ha), (krel_kind _ _ Hb).
      destruct (tk_eqb (kind a2) KTilde && tk_eqb (kind b2) KInt) eqn:E1; [apply (Hgood b1 b2 _ _ _ Hb E1)|].
      destruct (tk_eqb (kind a2) KEq && tk_eqb (kind b2) KInt) eqn:E2; [apply (Hgood b1 b2 _ _ _ Hb E2)|].
      destruct ((tk_eqb (kind a2) KMinus || tk_eqb (kind a2) KPlus) && tk_eqb (kind b2) KInt); apply Herr. }
    destruct Hg as [|d1 d2 g1 g2 Hd Hg].
    { cbv iota. rewrite (krel_kind _ _ Ha), (krel_kind _ _ Hb), (krel_kind _ _ Hc).
      destruct (tk_eqb (kind a2) KEq && tk_eqb (kind b2) KTilde && tk_eqb (kind c2) KInt) eqn:E1;
        [apply (Hgood c1 c2 _ _ _ Hc E1)|].
      destruct (tk_eqb (kind a2) KTilde && tk_eqb (kind b2) KEq && tk_eqb (kind c2) KInt); [apply Herr|].
      destruct ((tk_eqb (kind b2) KMinus || tk_eqb (kind b2) KPlus) && tk_eqb (kind c2) KInt); apply Herr. }
    cbv iota zeta.
    remember (rev (a1 :: b1 :: c1 :: d1 :: g1)) as rv1 eqn:Er1. remember (rev (a2 :: b2 :: c2 :: d2 :: g2)) as rv2 eqn:Er2.
    clear Er1 Er2. destruct Hrv as [|i1 i2 w1 w2 Hi Hw]; [apply Herr|].
    destruct Hw as [|s1 s2 w1 w2 Hs Hw]; [apply Herr|].
    rewrite (krel_kind _ _ Hi), (krel_kind _ _ Hs).
    destruct ((tk_eqb (kind s2) KMinus || tk_eqb (kind s2) KPlus) && tk_eqb (kind i2) KInt); apply Herr.
  Qed.

  Lemma filter_nwb_has_nl l : has_nl (filter (fun t => negb (is_ws_block (kind t))) l) = has_nl l.
  Proof.
    induction l as [|t r IH]; [reflexivity|]. cbn [filter]. destruct (is_ws_block (kind t)) eqn:E; cbn [negb].
    - rewrite has_nl_cons, IH. unfold is_nl. destruct (kind t); try discriminate; reflexivity.
    - rewrite !has_nl_cons, IH. reflexivity.
  Qed.

  Lemma inter_inner_w en (t : tok) (r : list tok) : firstn (S en - 1) (tl (firstn (S (S en)) (t :: r))) = firstn en r.
  Proof.
    replace (S en - 1)%nat with en by lia. change (firstn (S (S en)) (t :: r)) with (t :: firstn (S en) r).
    cbn [tl]. rewrite firstn_firstn. f_equal. lia.
  Qed.

  Lemma parse_inter_w e ts1 ts2 : wsimb e ts1 ts2 -> WN (prel (orel irel) (wsimb e)) (parse_inter ts1) (parse_inter ts2).
  Proof.
    intro H. rewrite !parse_inter_unfold.
    destruct ts1 as [|t01 r1].
    { destruct ts2 as [|t02 r2]; [apply WN_ret; split; [exact I | exact H]|].
      pose proof (wsimb_hd _ _ _ H) as Hh. cbn [hdk] in Hh.
      assert (X : tk_eqb (kind t02) KOpenParen = false) by (destruct (kind t02); try reflexivity; discriminate Hh).
      rewrite X. apply WN_ret. split; [exact I | exact H]. }
    destruct (tk_eqb (kind t01) KOpenParen) eqn:K0; cbn [negb].
    2:{ pose proof (wsimb_hd _ _ _ H) as Hh. cbn [hdk] in Hh.
        destruct ts2 as [|t02 r2]; [apply WN_ret; split; [exact I | exact H]|]. cbn [hdk] in Hh.
        assert (X : tk_eqb (kind t02) KOpenParen = false).
        { destruct (kcl_cases _ _ Hh) as [[E _] | [_ E]]; [rewrite <- E; exact K0|]. destruct (kind t02); try reflexivity; discriminate E. }
        rewrite X. apply WN_ret. split; [exact I | exact H]. }
    apply tkb_true in K0.
    assert (Ka : kcl (kind t01) <> None) by (rewrite K0; discriminate).
    destruct (wsimb_head_inv _ _ _ _ H Ka) as (t02 & r2 & -> & H0 & _ & Hr).
    rewrite <- (krel_kind _ _ H0), K0. cbn [tk_eqb tkind_beq negb].
    pose proof (wsimb_split (fun k => tk_eqb k KCloseParen) e _ _ eq_refl eq_refl H) as X.
    destruct (position (fun k => tk_eqb k KCloseParen) (t01 :: r1)) as [n1|] eqn:P1,
             (position (fun k => tk_eqb k KCloseParen) (t02 :: r2)) as [n2|] eqn:P2; try contradiction; [|apply WN_panic_l].
    destruct X as [Xn Xs]. pose proof (wsimb_tl_position _ _ _ _ _ _ Xs) as Haf.
    assert (F01 : tk_eqb (kind t01) KCloseParen = false) by (rewrite K0; reflexivity).
    assert (F02 : tk_eqb (kind t02) KCloseParen = false) by (rewrite <- (krel_kind _ _ H0), K0; reflexivity).
    destruct (position_cons_false_w _ _ _ _ F01 P1) as (e1 & -> & Q1).
    destruct (position_cons_false_w _ _ _ _ F02 P2) as (e2 & -> & Q2).
    rewrite !inter_inner_w. cbn [firstn] in Xn.
    assert (Hin : Wi (firstn e1 r1) (firstn e2 r2)).
    { destruct (wsimb_head_inv _ _ _ _ Xn Ka) as (b' & q' & E' & _ & _ & X'). inversion E'; subst. exact X'. }
    destruct (has_nl (firstn e1 r1)) eqn:N.
    - assert (N2 : has_nl (firstn e2 r2) = true) by (rewrite <- (wsimb_has_nl _ _ _ Hin); exact N).
      rewrite <- filter_nwb_has_nl in N, N2.
      destruct (inter_tail_nl _ (firstn (S (S e1)) (t01 :: r1)) (firstn e1 r1) (skipn (S (S e1)) (t01 :: r1)) N) as (c1 & l1 & ->).
      destruct (inter_tail_nl _ (firstn (S (S e2)) (t02 :: r2)) (firstn e2 r2) (skipn (S (S e2)) (t02 :: r2)) N2) as (c2 & l2 & ->).
      eapply WN_bind; [apply WN_error_any|]. intros _ _ _. apply WN_ret. split; [exact I | exact Haf].
    - apply inter_tail_k; [|exact Haf]. apply Forall2_filter_k; [|exact (wi_nonl_ksim _ _ Hin N)].
      intros a b Hab. rewrite (krel_kind _ _ Hab). reflexivity.
  Qed.

  Lemma parse_mods_loop_w e : forall f1 f2 ts1 ts2 ms1 ms2 mods i1 i2, wsimb e ts1 ts2 -> orel irel i1 i2 ->
    WN (prel eq (orel irel)) (parse_mods_loop cfg f1 ts1 ms1 mods i1) (parse_mods_loop cfg f2 ts2 ms2 mods i2).
  Proof.
    induction f1 as [|f1 IH]; intros f2 ts1 ts2 ms1 ms2 mods i1 i2 Hts Hi; [apply WN_panic_l|].
    destruct f2 as [|f2]; [apply WN_panic_r|]. cbn [parse_mods_loop].
    destruct ts1 as [|t1 r1].
    { destruct ts2 as [|t2 r2]; [apply WN_ret; split; [reflexivity | exact Hi]|].
      pose proof (wsimb_hd _ _ _ Hts) as Hh. cbn [hdk] in Hh.
      assert (X : mod_bit (kind t2) = None) by (destruct (kind t2); try reflexivity; discriminate Hh).
      rewrite X. apply WN_panic_r. }
    destruct (mod_bit (kind t1)) as [bit|] eqn:Eb; [|apply WN_panic_l].
    assert (Ka : kcl (kind t1) <> None) by (destruct (kind t1); try discriminate Eb; discriminate).
    destruct (wsimb_head_inv _ _ _ _ Hts Ka) as (t2 & r2 & -> & Ht & _ & Hr).
    rewrite <- (krel_kind _ _ Ht), Eb.
    eapply WN_bind with (RA := prel (orel irel) (wsimb e)).
    - destruct (tk_eqb (kind t1) KAnd && has cfg X_INTERMEDIATE_PREPARATIONS);
        [apply parse_inter_w; exact Hr | apply WN_ret; split; assumption].
    - intros [j1 q1] [j2 q2] [Hj Hq]. cbn [fst snd] in Hj, Hq.
      destruct (N.land mods bit =? bit); [|apply IH; assumption].
      eapply WN_bind; [apply WN_error|]. intros _ _ _. apply IH; assumption.
  Qed.

  Lemma parse_modifiers_w e mts1 mts2 p1 p2 : wsimb e mts1 mts2 ->
    WN mrel (parse_modifiers cfg mts1 p1) (parse_modifiers cfg mts2 p2).
  Proof.
    intro H. unfold parse_modifiers.
    destruct mts1 as [|a r1].
    { destruct mts2 as [|b r2]; [apply WN_ret; split; [reflexivity | exact I]|].
      (* an inserted token cannot be the first modifier token: the loop panics on it *)
      pose proof (wsimb_hd _ _ _ H) as Hh. cbn [hdk] in Hh.
      assert (X : mod_bit (kind b) = None) by (destruct (kind b); try reflexivity; discriminate Hh).
      intros T s1 s2 S. unfold bind. cbn [parse_mods_loop length]. rewrite X. exact I. }
    pose proof (wsimb_ne _ _ _ H ltac:(discriminate)) as N2. destruct mts2 as [|b r2]; [contradiction N2; reflexivity|].
    eapply WN_bind.
    - apply (parse_mods_loop_w e) with (i1 := None) (i2 := None); [exact H | exact I].
    - intros [m1 j1] [m2 j2] [Hm Hj]. apply WN_ret. split; assumption.
  Qed.

  (* ================================================================ B. primitives with more in their results *)
  Lemma WL_until_ne f : f KWs = false -> f KLineComment = false ->
    WL W (orel (fun l1 l2 => wsimb (f KNewline) l1 l2 /\ Forall noesc l1)) (until f) (until f) W.
  Proof.
    intros F1 F2 s1 s2 S. pose proof (WL_until f F1 F2 s1 s2 S) as X. unfold until in *. pose proof S as (Hr & _).
    destruct (position f (b_rest s1)) as [n1|] eqn:P1, (position f (b_rest s2)) as [n2|]; try exact X.
    destruct X as [X1 X2]. split; [|exact X2]. split; [exact X1 | exact (wsimb_split_noesc f _ _ _ Hr n1 P1)].
  Qed.

  Lemma WL_consume_while_stop_g g : g KWs = false -> g KLineComment = false -> g KNewline = false ->
    WL W (fun l1 l2 => ksim l1 l2 /\ Forall (fun t => g (kind t) = true) l1) (consume_while g) (consume_while g) W.
  Proof.
    intros G1 G2 G3 s1 s2 S. pose proof (WL_consume_while_stop g G1 G2 G3 s1 s2 S) as X. rewrite !consume_while_cwc in *.
    destruct X as [X1 X2]. split; [|exact X2]. split; [exact X1 | apply cwc_firstn_all].
  Qed.

  Lemma WL_at_kind_any k : WL W anyrel (at_kind k) (at_kind k) W.
  Proof. intros s1 s2 S. cbn. split; [exact I | exact S]. Qed.

  Lemma WJ_ws_comments :
    HJ (Sw W) ws_comments ws_comments (fun _ s1 _ s2 => Sw W s1 s2 /\ (b_rest s1 = [] <-> b_rest s2 = [])).
  Proof.
    intros s1 s2 S. unfold ws_comments. rewrite !consume_while_cwc. pose proof S as (Hr & _).
    destruct (wsimb_run is_ws_comment true _ _ eq_refl eq_refl Hr) as [[X1 X2] | (X1 & X2 & X3)].
    - split; [exact (Sw_advance _ _ _ _ _ _ S (synced_W _ _ _ _ X2))|]. rewrite !advance_rest.
      destruct X2 as (a & b & r1 & r2 & -> & -> & _). split; discriminate.
    - split; [apply (Sw_advance _ _ _ _ _ _ S); rewrite X2, X3; constructor|]. rewrite !advance_rest, X2, X3. tauto.
  Qed.

  (* the blank after `>`: consumed on the right when it was inserted *)
  Lemma WL_consume_ws : WL W anyrel (consume KWs) (consume KWs) W.
  Proof.
    intros s1 s2 S. rewrite !consume_step. pose proof S as (Hr & _). change (tk_eqb KEof KWs) with false.
    remember (b_rest s1) as l1 eqn:E1. remember (b_rest s2) as l2 eqn:E2.
    destruct Hr as [|a b r1 r2 Hab Ho H|a b r1 r2 Hab Ha H|g r1 r2 Hg Ha H].
    - split; [exact I|]. apply (Sw_rest _ _ _ _ S). rewrite <- E1, <- E2. constructor.
    - rewrite <- (krel_kind _ _ Hab). destruct (tk_eqb (kind a) KWs).
      + split; [exact I|]. apply (Sw_step1 _ _ _ _ _ _ _ _ S). exact H.
      + split; [exact I|]. apply (Sw_rest _ _ _ _ S). rewrite <- E1, <- E2. apply w_cons; assumption.
    - destruct Hab as (Ka & Kb & Hx). rewrite Ka, Kb. cbn [tk_eqb tkind_beq].
      split; [exact I|]. apply (Sw_step1 _ _ _ _ _ _ _ _ S). exact H.
    - assert (X : match r1 with [] => Done (@None tok, s1) | t :: r => if tk_eqb (kind t) KWs then Done (Some t, step1 s1 t r) else Done (None, s1) end
                  = Done (None, s1)).
      { destruct r1 as [|t q]; [reflexivity|]. cbn [atnl] in Ha. rewrite Ha. reflexivity. }
      rewrite X. destruct (tk_eqb (kind g) KWs).
      + split; [exact I|]. destruct S as (_ & Sa & Se). split; [cbn; rewrite <- E1; exact H | split; assumption].
      + split; [exact I|]. apply (Sw_rest _ _ _ _ S). rewrite <- E1, <- E2. apply w_ins; assumption.
  Qed.

  (* ================================================================ B. modifiers *)
  Definition accR (a1 a2 : list tok) : Prop := Wi a1 a2 /\ Forall noesc a1.

  Lemma accR_nil : accR [] [].
  Proof. split; constructor. Qed.

  Lemma accR_app a1 a2 b1 b2 : accR a1 a2 -> accR b1 b2 -> accR (a1 ++ b1) (a2 ++ b2).
  Proof.
    intros [Ha Na] [Hb Nb]. split; [apply wsimb_app_wi; assumption | apply Forall_app; split; assumption].
  Qed.

  Lemma accR_one k t1 t2 : krelk k t1 t2 -> k <> KEscaped -> accR [t1] [t2].
  Proof.
    intros [Ht Kt] Kk. assert (N : kind t1 <> KEscaped) by (rewrite Kt; exact Kk). split.
    - apply w_cons; [exact Ht | apply okc_kind; exact N | constructor].
    - constructor; [apply noesc_kind; exact N | constructor].
  Qed.

  Definition paren_group_w : M (option (list tok)) :=
    with_recover (
      op <-? consume KOpenParen ;;
      inner <-? until (fun k => tk_eqb k KCloseParen) ;;
      cp <- bump KCloseParen ;;
      ret (Some (op :: inner ++ [cp]))).

  Lemma paren_group_rel : WL W (orel accR) paren_group_w paren_group_w W.
  Proof.
    unfold paren_group_w. apply WL_with_recover.
    eapply WL_obindM; [apply WL_consume_k; discriminate | | auto]. intros op1 op2 Hop.
    eapply WL_obindM; [apply WL_until_ne; reflexivity | | auto]. intros in1 in2 [Hin Nin].
    eapply WL_bind; [apply WL_bump_k; discriminate|]. intros cp1 cp2 Hcp. apply WL_ret. cbn [orel].
    change (op1 :: in1 ++ [cp1]) with ([op1] ++ in1 ++ [cp1]). change (op2 :: in2 ++ [cp2]) with ([op2] ++ in2 ++ [cp2]).
    apply accR_app; [apply (accR_one _ _ _ Hop); discriminate|].
    apply accR_app; [split; assumption | apply (accR_one _ _ _ Hcp); discriminate].
  Qed.

  Lemma modifiers_loop_w : forall f1 f2 acc1 acc2, accR acc1 acc2 ->
    WL W accR (modifiers_loop cfg f1 acc1) (modifiers_loop cfg f2 acc2) W.
  Proof.
    induction f1 as [|f1 IH]; intros f2 acc1 acc2 Hacc; [apply WL_panic_l|].
    destruct f2 as [|f2]; [apply WL_panic_r|]. cbn [modifiers_loop].
    unfold WL. eapply HJ_bind_d; [apply WJ_peek|]. intros k1 k2 Hk. cbv beta.
    assert (Hret : WL (Wk k1) accR (ret acc1) (ret acc2) W).
    { eapply WL_pre; [|apply WL_ret; exact Hacc]. intros l1 l2 [X _]. exact X. }
    assert (Hstep : forall k, kcl k <> None -> k <> KEscaped -> k1 = k ->
              WL (Wk k1) accR (t <- bump_any ;; modifiers_loop cfg f1 (acc1 ++ [t]))
                              (t <- bump_any ;; modifiers_loop cfg f2 (acc2 ++ [t])) W).
    { intros k Kc Ke ->. eapply WL_bind; [apply WL_bump_any_k; exact Kc|]. intros t1 t2 Ht.
      apply IH. apply accR_app; [exact Hacc | exact (accR_one _ _ _ Ht Ke)]. }
    destruct (kcl_cases _ _ Hk) as [[<- Kn] | [E1 E2]].
    - destruct k1; try exact Hret;
        try (first [ solve [apply (Hstep KAt); [discriminate | discriminate | reflexivity]]
                   | solve [apply (Hstep KQuestion); [discriminate | discriminate | reflexivity]]
                   | solve [apply (Hstep KPlus); [discriminate | discriminate | reflexivity]]
                   | solve [apply (Hstep KMinus); [discriminate | discriminate | reflexivity]] ]).
      eapply WL_bind; [apply WL_bump_any_k; discriminate|]. intros t1 t2 Ht.
      pose proof (accR_app _ _ _ _ Hacc (accR_one _ _ _ Ht ltac:(discriminate))) as Hacc'.
      destruct (has cfg X_INTERMEDIATE_PREPARATIONS); [|apply IH; exact Hacc'].
      eapply WL_bind; [apply paren_group_rel|].
      intros [ts1|] [ts2|] Hts; cbn [orel] in Hts; try contradiction.
      + replace (acc1 ++ t1 :: ts1) with ((acc1 ++ [t1]) ++ ts1) by (rewrite <- app_assoc; reflexivity).
        replace (acc2 ++ t2 :: ts2) with ((acc2 ++ [t2]) ++ ts2) by (rewrite <- app_assoc; reflexivity).
        apply IH. apply accR_app; assumption.
      + apply IH. exact Hacc'.
    - destruct k1; try discriminate E1; destruct k2; try discriminate E2; exact Hret.
  Qed.

  Lemma modifiers_w : WL W Wi (modifiers cfg) (modifiers cfg) W.
  Proof.
    unfold modifiers. destruct (negb (has cfg X_COMPONENT_MODIFIERS)); [apply WL_ret; constructor|].
    eapply WL_bind; [apply WL_rest|]. intros r1 r2 _.
    eapply WL_conseq_R; [apply modifiers_loop_w; exact accR_nil|]. intros a b [H _]. exact H.
  Qed.

  (* ================================================================ B. notes *)
  Lemma note_w : WL W (orel (trw false)) (note cfg) (note cfg) W.
  Proof.
    unfold note. apply WL_with_recover.
    eapply WL_obindM; [apply WL_consume; discriminate | | auto]. intros op1 op2 _.
    eapply WL_bind; [apply WN_of; apply WN_current_offset|]. intros off1 off2 _.
    eapply WL_obindM; [apply WL_until; reflexivity | | auto]. intros n1 n2 Hn. cbn [tk_eqb tkind_beq] in Hn.
    eapply WL_bind; [apply WL_bump; discriminate|]. intros cp1 cp2 _.
    eapply WL_bind; [apply WN_of; apply WN_textM; exact Hn|]. intros t1 t2 Ht. apply WL_ret. exact Ht.
  Qed.

  Lemma check_note_w : WL W anyrel (check_note cfg) (check_note cfg) W.
  Proof.
    unfold check_note. eapply WL_bind with (RA := orel (@anyrel unit unit)); [|intros _ _ _; apply WL_ret; exact I].
    apply WL_with_recover.
    eapply WL_obindM; [apply WL_consume; discriminate | | auto]. intros op1 op2 _.
    eapply WL_obindM; [apply WL_until; reflexivity | | auto]. intros i1 i2 _.
    eapply WL_bind; [apply WL_bump; discriminate|]. intros cp1 cp2 _. cbv zeta.
    eapply WL_bind with (RA := anyrel).
    { destruct (tstart op1 =? 0); [apply WL_panic_l|]. destruct (tstart op2 =? 0); [apply WL_panic_r|]. apply WL_ret. exact I. }
    intros _ _ _. eapply WL_bind; [apply WN_of; apply WN_warn|]. intros _ _ _. apply WL_ret. exact I.
  Qed.

  (* ================================================================ B. the body of a component *)
  Definition brw (b1 b2 : body) : Prop :=
    Wi (bd_name b1) (bd_name b2) /\ (bd_close b1 = None <-> bd_close b2 = None) /\ orel Wi (bd_qty b1) (bd_qty b2).

  Definition single_warn (b : bool) : M unit :=
    if b then ret tt else (co <- current_offset ;; warn D_SINGLE_WORD [(co, co)]).

  Lemma single_warn_w b1 b2 : WN anyrel (single_warn b1) (single_warn b2).
  Proof.
    unfold single_warn. destruct b1, b2.
    - apply WN_ret. exact I.
    - intros T s1 s2 S. cbn. pose proof (WN_warn_r (A := unit) D_SINGLE_WORD [(current_offset_of s2, current_offset_of s2)] tt T s1 s2 S) as X.
      exact X.
    - intros T s1 s2 S. cbn. pose proof (WN_warn_l (B := unit) D_SINGLE_WORD [(current_offset_of s1, current_offset_of s1)] tt T s1 s2 S) as X.
      exact X.
    - eapply WN_bind; [apply WN_current_offset|]. intros c1 c2 _. apply WN_warn.
  Qed.

  Lemma comp_body_w : WL W (orel brw) comp_body comp_body W.
  Proof.
    unfold comp_body. eapply WL_bind with (RA := orel brw).
    - apply WL_with_recover.
      eapply WL_obindM; [apply WL_until; reflexivity | | auto]. intros n1 n2 Hn. cbn [is_marker_or_open] in Hn.
      eapply WL_obindM; [apply WL_consume; discriminate | | auto]. intros ob1 ob2 _.
      eapply WL_obindM; [apply WL_until; reflexivity | | auto]. intros q1 q2 Hq. cbn [tk_eqb tkind_beq] in Hq.
      eapply WL_bind; [apply WL_bump; discriminate|]. intros cb1 cb2 _. apply WL_ret. cbn [orel].
      split; [exact Hn|]. split; [cbn; split; discriminate|]. cbn [bd_qty]. rewrite (wi_existsb_nwb _ _ Hq).
      destruct (existsb _ q2); [exact Hq | exact I].
    - intros [b1|] [b2|] Hb; cbn [orel] in Hb; try contradiction; [apply WL_ret; exact Hb|].
      apply WL_with_recover.
      eapply WL_bind; [apply (WL_consume_while_stop_g is_single_word_tok); reflexivity|]. intros ts1 ts2 [Hts Gts].
      destruct Hts as [|a b r1 r2 Hab Hr].
      + eapply WL_bind; [apply WL_rest|]. intros r1 r2 _.
        eapply WL_bind; [apply WL_at_kind_any|]. intros w1 w2 _.
        eapply WL_bind with (RA := anyrel); [|intros _ _ _; apply WL_ret; exact I].
        apply WN_of.
        change (WN anyrel (match r1 with [] => ret tt | _ => single_warn w1 end) (match r2 with [] => ret tt | _ => single_warn w2 end)).
        destruct r1, r2; first [apply (single_warn_w true true) | apply (single_warn_w true w2) | apply (single_warn_w w1 true) | apply single_warn_w].
      + apply WL_ret. cbn [orel]. split; [|split; [cbn; tauto | exact I]]. cbn [bd_name].
        apply ksim_wi_noesc; [constructor; assumption|].
        eapply Forall_impl; [|exact Gts]. intros t Ht. cbv beta in Ht. apply noesc_kind. intro E. rewrite E in Ht. discriminate Ht.
  Qed.
End Fun.
