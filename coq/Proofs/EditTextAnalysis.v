(* Property C17, text mode, analysis stage.  [Proofs/EditAnalysis.v] shows the analysis pass blind
   to everything but [proj] OUTSIDE text mode; in text mode (`>> [mode]: text`) the collector copies
   the source of every component, `self.input[span.range()]` with comment tokens removed
   (event_consumer.rs:570-595, [Analysis.in_text] / [Analysis.comp_src]), so two event streams
   must also agree on those copies.

   [analyse_text]: two event streams with the same projection whose component sources are [teq]
   (any congruence for concatenation that preserves emptiness) give [teq]-related recipes: same
   panic site if any, same validity, same component tables, same section names, same steps, and
   paragraph texts related by [teq] one by one ([rrel]).  No hypothesis about modes: the document
   may switch into and out of text mode.

   The two collector states differ in paragraph texts only (fields a_sections, a_cur, a_block):
   [srel s1 s2] says [s2 = retext s1 secs cur blk] with related contents; every function of the
   pass that does not write paragraph text commutes with [retext]. *)
From Coq Require Import ZArith Lia.
From CL Require Import Base.StrLemmas Model.Lexer Model.PText Model.CommentMask Model.Parser Model.Edits Model.EventBridge
  Model.MetaMap Gen.ExtBits Proofs.EditSimDefs Proofs.EditAnalysis Proofs.EditTextFrame.
From CL Require Model.Events Model.Analysis.
Module A := CL.Model.Analysis.
Open Scope N_scope.

Definition out_rel {T} (R : T -> T -> Prop) (o1 o2 : outcome T) : Prop :=
  match o1, o2 with Done a, Done b => R a b | Panic p, Panic q => p = q | _, _ => False end.

(* the state with other paragraph texts *)
Definition retext (s : A.astate) (secs : list A.section) (cur : A.section) (blk : option A.blockbuf) : A.astate :=
  {| A.a_sections := secs; A.a_cur := cur; A.a_ingredients := A.a_ingredients s; A.a_cookware := A.a_cookware s;
     A.a_timers := A.a_timers s; A.a_inline := A.a_inline s; A.a_define := A.a_define s;
     A.a_duplicate := A.a_duplicate s; A.a_block := blk; A.a_counter := A.a_counter s;
     A.a_errors := A.a_errors s; A.a_halted := A.a_halted s |}.

Ltac crunch E :=
  repeat (cbv beta iota zeta in E;
          match type of E with
          | context [match ?y with _ => _ end] => destruct y eqn:?; try discriminate E
          end).

Section TextBlind.
  Variable ci_key : str -> str.
  Variable yaml_ok : str -> bool.
  Variable find_iq : str -> option (str * str).
  Variable unit_class : str -> N.
  Variable x : A.aext.
  Variable acfg : A.acfg.
  Hypothesis yaml_ok_blind : crlf_blind yaml_ok.

  Variable teq : str -> str -> Prop.
  Hypothesis teq_refl : forall a, teq a a.
  Hypothesis teq_app : forall a b c d, teq a b -> teq c d -> teq (a ++ c) (b ++ d).
  Hypothesis teq_nil : forall a b, teq a b -> Events.is_nil a = Events.is_nil b.

  Notation astep inp := (A.step ci_key yaml_ok find_iq unit_class inp x acfg).
  Notation arun inp := (A.run ci_key yaml_ok find_iq unit_class inp x acfg).

  Definition crl (c1 c2 : A.content) : Prop :=
    match c1, c2 with
    | A.CStep a, A.CStep b => a = b
    | A.CText a, A.CText b => teq a b
    | _, _ => False
    end.
  Definition secrel (s1 s2 : A.section) : Prop :=
    A.sec_name s1 = A.sec_name s2 /\ Forall2 crl (A.sec_content s1) (A.sec_content s2).
  Definition obrel (b1 b2 : option A.blockbuf) : Prop :=
    match b1, b2 with
    | None, None => True
    | Some (A.BStep a), Some (A.BStep b) => a = b
    | Some (A.BText a), Some (A.BText b) => teq a b
    | _, _ => False
    end.
  Definition srel (s1 s2 : A.astate) : Prop :=
    exists secs cur blk, s2 = retext s1 secs cur blk
      /\ Forall2 secrel (A.a_sections s1) secs /\ secrel (A.a_cur s1) cur /\ obrel (A.a_block s1) blk.

  (* ---------------------------------------------------------------- small facts *)
  Lemma step_indices_from_rel l1 l2 : Forall2 crl l1 l2 -> forall i, A.step_indices_from i l1 = A.step_indices_from i l2.
  Proof.
    induction 1 as [|a b r1 r2 H _ IH]; intro i; [reflexivity|]. cbn [A.step_indices_from]. rewrite IH.
    destruct a, b; cbn in H; try contradiction; reflexivity.
  Qed.
  Lemma step_indices_rel c1 c2 : secrel c1 c2 -> A.step_indices (A.sec_content c1) = A.step_indices (A.sec_content c2).
  Proof. intros [_ H]. apply step_indices_from_rel. exact H. Qed.
  Lemma F2_length {T V} (R : T -> V -> Prop) l1 l2 : Forall2 R l1 l2 -> length l1 = length l2.
  Proof. induction 1; cbn [length]; congruence. Qed.

  Lemma empty_rel c1 c2 : secrel c1 c2 -> A.section_is_empty c1 = A.section_is_empty c2.
  Proof. intros [Hn Hc]. unfold A.section_is_empty. rewrite Hn. destruct Hc; reflexivity. Qed.

  Lemma pushed_rel s secs cur blk :
    Forall2 secrel (A.a_sections s) secs -> secrel (A.a_cur s) cur ->
    Forall2 secrel (A.pushed_sections s) (A.pushed_sections (retext s secs cur blk)).
  Proof.
    intros Hs Hc. unfold A.pushed_sections. cbn [retext A.a_cur A.a_sections]. rewrite (empty_rel _ _ Hc).
    destruct (A.section_is_empty cur); [exact Hs|]. apply Forall2_app; [exact Hs | constructor; [exact Hc | constructor]].
  Qed.

  (* ---------------------------------------------------------------- functions that leave paragraph text alone *)
  Lemma metadata_retext s secs cur blk k v :
    A.metadata x (retext s secs cur blk) k v = retext (A.metadata x s k v) secs cur blk.
  Proof.
    unfold A.metadata. cbn [retext A.a_duplicate A.a_define].
    repeat match goal with |- context [if ?c then _ else _] => destruct c end; reflexivity.
  Qed.
  Lemma metadata_keeps s k v :
    A.a_sections (A.metadata x s k v) = A.a_sections s /\ A.a_cur (A.metadata x s k v) = A.a_cur s
    /\ A.a_block (A.metadata x s k v) = A.a_block s.
  Proof.
    unfold A.metadata.
    repeat match goal with |- context [if ?c then _ else _] => destruct c end; repeat split; reflexivity.
  Qed.

  Lemma ingredient_retext s secs cur blk ig :
    A.step_indices (A.sec_content cur) = A.step_indices (A.sec_content (A.a_cur s)) ->
    length secs = length (A.a_sections s) ->
    A.ingredient ci_key x (retext s secs cur blk) ig
    = match A.ingredient ci_key x s ig with Done (s', i) => Done (retext s' secs cur blk, i) | Panic p => Panic p end.
  Proof.
    intros H1 H2. unfold A.ingredient, A.resolve_intermediate_ref, A.resolve_reference, A.link_reference, obind.
    cbn [retext A.a_cur A.a_sections A.a_ingredients A.a_define A.a_duplicate]. rewrite H1, H2.
    repeat match goal with |- context [match ?y with _ => _ end] => destruct y eqn:? end; reflexivity.
  Qed.
  Lemma ingredient_keeps s ig s1 i :
    A.ingredient ci_key x s ig = Done (s1, i) -> A.a_sections s1 = A.a_sections s /\ A.a_cur s1 = A.a_cur s.
  Proof. intro E. unfold A.ingredient, obind in E. crunch E; inversion E; subst; split; reflexivity. Qed.

  Lemma cookware_retext s secs cur blk cw :
    A.cookware ci_key (retext s secs cur blk) cw
    = match A.cookware ci_key s cw with Done (s', i) => Done (retext s' secs cur blk, i) | Panic p => Panic p end.
  Proof.
    unfold A.cookware, A.resolve_reference, A.link_reference, obind.
    cbn [retext A.a_cookware A.a_define A.a_duplicate].
    repeat match goal with |- context [match ?y with _ => _ end] => destruct y eqn:? end; reflexivity.
  Qed.
  Lemma cookware_keeps s cw s1 i :
    A.cookware ci_key s cw = Done (s1, i) -> A.a_sections s1 = A.a_sections s /\ A.a_cur s1 = A.a_cur s.
  Proof. intro E. unfold A.cookware, obind in E. crunch E; inversion E; subst; split; reflexivity. Qed.

  Lemma timer_retext s secs cur blk t :
    A.timer unit_class x (retext s secs cur blk) t
    = (retext (fst (A.timer unit_class x s t)) secs cur blk, snd (A.timer unit_class x s t)).
  Proof. reflexivity. Qed.

  (* ---------------------------------------------------------------- the End event *)
  Lemma finish_rel s secs cur blk c1 c2 :
    Forall2 secrel (A.a_sections s) secs -> secrel (A.a_cur s) cur -> crl c1 c2 ->
    out_rel srel (A.finish_block acfg s c1) (A.finish_block acfg (retext s secs cur blk) c2).
  Proof.
    intros Hs Hc Hk. unfold A.finish_block. cbn [retext A.a_define A.a_cur A.a_counter A.a_sections].
    assert (E1 : A.skipped acfg c1 = A.skipped acfg c2).
    { destruct c1, c2; cbn in Hk; try contradiction; cbn [A.skipped]; [subst; reflexivity | rewrite (teq_nil _ _ Hk); reflexivity]. }
    assert (E2 : A.is_text c1 = A.is_text c2) by (destruct c1, c2; cbn in Hk; try contradiction; reflexivity).
    assert (E3 : A.is_step c1 = A.is_step c2) by (destruct c1, c2; cbn in Hk; try contradiction; reflexivity).
    rewrite E1, E2, E3.
    assert (Hc' : secrel {| A.sec_name := A.sec_name (A.a_cur s); A.sec_content := A.sec_content (A.a_cur s) ++ [c1] |}
                         {| A.sec_name := A.sec_name cur; A.sec_content := A.sec_content cur ++ [c2] |}).
    { destruct Hc as [Hn Hcc]. split; [exact Hn|]. cbn [A.sec_content]. apply Forall2_app; [exact Hcc | constructor; [exact Hk | constructor]]. }
    destruct (negb (A.skipped acfg c2) && (negb (A.dm_eqb (A.a_define s) A.DMComponents) || A.is_text c2)).
    - destruct (A.is_step c2).
      + destruct (4294967295 <=? N.of_nat (A.a_counter s)); [reflexivity|]. cbn [out_rel].
        eexists secs, _, None. split; [reflexivity|]. cbn. split; [assumption | split; [exact Hc' | exact I]].
      + cbn [out_rel]. eexists secs, _, None. split; [reflexivity|]. cbn. split; [assumption | split; [exact Hc' | exact I]].
    - cbn [out_rel]. exists secs, cur, None. split; [reflexivity|]. cbn. split; [assumption | split; [assumption | exact I]].
  Qed.

  (* ---------------------------------------------------------------- one event *)
  (* the two sources give [teq] copies of a component *)
  Definition src_ok (in1 in2 : str) (e1 e2 : pevent) : Prop :=
    match comp_span e1, comp_span e2 with
    | Some sp1, Some sp2 =>
        exists sl1 sl2, A.byte_slice in1 sp1 = Some sl1 /\ A.byte_slice in2 sp2 = Some sl2
                        /\ teq (A.comp_src acfg sl1) (A.comp_src acfg sl2)
    | _, _ => True
    end.

  Lemma metadata_args s k1 v1 k2 v2 :
    tx k1 = tx k2 -> text_outer_trimmed v1 = text_outer_trimmed v2 ->
    A.metadata x s (abstract_text k1) (abstract_text v1) = A.metadata x s (abstract_text k2) (abstract_text v2).
  Proof. intros Hk Hv. unfold A.metadata. rewrite !abs_trimmed, !abs_outer, Hk, Hv. reflexivity. Qed.

  Ltac srdone := split; [reflexivity | cbn; split; [assumption | split; assumption]].

  Lemma step_text in1 in2 s1 s2 e1 e2 :
    srel s1 s2 -> proj e1 = proj e2 -> src_ok in1 in2 e1 e2 ->
    out_rel srel (astep in1 s1 (abstract_event e1)) (astep in2 s2 (abstract_event e2)).
  Proof.
    intros (secs & cur & blk & -> & Hs & Hc & Hb) H K. rename s1 into s.
    unfold A.step. cbn [retext A.a_halted].
    destruct (A.a_halted s); [cbn [out_rel]; exists secs, cur, blk; srdone|].
    destruct e1, e2; try discriminate H; cbn [proj abstract_event] in *.
    - (* YAML *) injection H as H. rewrite !abs_str, (yaml_ok_blind _ _ H). cbn [out_rel].
      exists secs, cur, blk. srdone.
    - (* metadata *) injection H as Hk Hv. rewrite metadata_retext, (metadata_args s _ _ _ _ Hk Hv). cbn [out_rel].
      destruct (metadata_keeps s (abstract_text key0) (abstract_text value0)) as (K1 & K2 & K3).
      exists secs, cur, blk. split; [reflexivity|]. rewrite K1, K2, K3. split; [assumption | split; assumption].
    - (* section *) injection H as H. rewrite !abs_otrimmed, H. cbn [out_rel].
      eexists (A.pushed_sections (retext s secs cur blk)), _, blk. split; [reflexivity|]. cbn.
      split; [apply pushed_rel; assumption|]. split; [split; [reflexivity | constructor] | exact Hb].
    - (* start *) injection H as ->. cbn [out_rel]. cbn [retext A.a_define].
      eexists secs, cur, _. split; [reflexivity|]. cbn. split; [exact Hs|]. split; [exact Hc|].
      destruct (A.dm_eqb (A.a_define s) A.DMText); [apply teq_refl|]. destruct (abstract_kind is_step0); [reflexivity | apply teq_refl].
    - (* end *) injection H as ->. unfold A.end_block. cbn [retext A.a_block A.a_define A.a_counter].
      destruct (A.a_block s) as [[items|t1]|], blk as [[items2|t2]|]; cbn in Hb; try contradiction.
      + subst items2. destruct (Events.block_kind_eqb (abstract_kind is_step0) Events.BKStep); [|reflexivity].
        apply finish_rel; [assumption | assumption | reflexivity].
      + destruct (Events.block_kind_eqb (abstract_kind is_step0) Events.BKText || A.dm_eqb (A.a_define s) A.DMText); [|reflexivity].
        apply finish_rel; assumption.
      + reflexivity.
    - (* text *) injection H as H. cbn [retext A.a_block].
      destruct (A.a_block s) as [[items|t1]|] eqn:Eb, blk as [[items2|t2]|]; cbn in Hb; try contradiction.
      + subst items2. unfold A.in_step. cbn [retext A.a_define A.a_inline]. rewrite !abs_str, H.
        destruct (A.dm_eqb (A.a_define s) A.DMComponents).
        { cbn [out_rel]. exists secs, cur, (Some (A.BStep items)). split; [reflexivity|]. rewrite Eb.
          split; [assumption | split; [assumption | reflexivity]]. }
        destruct (A.x_inline x).
        * destruct (A.split_iq find_iq _ _ _ _) as [[items' n']|]; cbv beta iota delta [obind out_rel]; [|reflexivity].
          eexists secs, cur, _. split; [reflexivity|]. cbn. split; [assumption | split; [assumption | reflexivity]].
        * cbn [out_rel]. eexists secs, cur, _. split; [reflexivity|]. cbn. split; [assumption | split; [assumption | reflexivity]].
      + unfold A.in_text. rewrite !abs_str, H. cbn [out_rel].
        eexists secs, cur, _. split; [reflexivity|]. cbn. split; [exact Hs|]. split; [exact Hc|].
        apply teq_app; [exact Hb | apply teq_refl].
      + reflexivity.
    - (* ingredient *) pose proof (ingredient_blind ci_key x s i i0 H) as E. cbn [abstract_event] in E.
      cbn [comp_span] in K. unfold src_ok in K. cbn [comp_span] in K. destruct K as (sl1 & sl2 & B1 & B2 & T).
      cbn [retext A.a_block].
      destruct (A.a_block s) as [[items|t1]|], blk as [[items2|t2]|]; cbn in Hb; try contradiction.
      + subst items2. unfold A.in_step.
        rewrite ingredient_retext; [|symmetry; apply step_indices_rel; exact Hc | symmetry; exact (F2_length _ _ _ Hs)].
        rewrite -> E. clear E. destruct (A.ingredient ci_key x s _) as [[s' i']|] eqn:Ei; cbv beta iota delta [obind out_rel]; [|reflexivity].
        destruct (ingredient_keeps _ _ _ _ Ei) as [K1 K2].
        eexists secs, cur, _. split; [reflexivity|]. cbn. rewrite K1, K2. split; [assumption | split; [assumption | reflexivity]].
      + unfold A.in_text. cbn [retext A.a_define Events.pi_span].
        destruct (negb (A.dm_eqb (A.a_define s) A.DMText)); [reflexivity|]. rewrite B1, B2. cbn [out_rel].
        eexists secs, cur, _. split; [reflexivity|]. cbn. split; [exact Hs|]. split; [exact Hc|].
        apply teq_app; assumption.
      + reflexivity.
    - (* cookware *) pose proof (cookware_blind ci_key s c c0 H) as E. cbn [abstract_event] in E.
      unfold src_ok in K. cbn [comp_span] in K. destruct K as (sl1 & sl2 & B1 & B2 & T).
      cbn [retext A.a_block].
      destruct (A.a_block s) as [[items|t1]|], blk as [[items2|t2]|]; cbn in Hb; try contradiction.
      + subst items2. unfold A.in_step. rewrite cookware_retext. rewrite -> E. clear E.
        destruct (A.cookware ci_key s _) as [[s' i']|] eqn:Ei; cbv beta iota delta [obind out_rel]; [|reflexivity].
        destruct (cookware_keeps _ _ _ _ Ei) as [K1 K2].
        eexists secs, cur, _. split; [reflexivity|]. cbn. rewrite K1, K2. split; [assumption | split; [assumption | reflexivity]].
      + unfold A.in_text. cbn [retext A.a_define Events.pc_span].
        destruct (negb (A.dm_eqb (A.a_define s) A.DMText)); [reflexivity|]. rewrite B1, B2. cbn [out_rel].
        eexists secs, cur, _. split; [reflexivity|]. cbn. split; [exact Hs|]. split; [exact Hc|].
        apply teq_app; assumption.
      + reflexivity.
    - (* timer *) pose proof (timer_blind unit_class x s t t0 H) as E. cbn [abstract_event] in E.
      unfold src_ok in K. cbn [comp_span] in K. destruct K as (sl1 & sl2 & B1 & B2 & T).
      cbn [retext A.a_block].
      destruct (A.a_block s) as [[items|t1]|], blk as [[items2|t2]|]; cbn in Hb; try contradiction.
      + subst items2. unfold A.in_step. rewrite timer_retext. rewrite -> E. clear E.
        destruct (A.timer unit_class x s _) as [s' i'] eqn:Ei. cbn [fst snd out_rel].
        assert (K1 : A.a_sections s' = A.a_sections s /\ A.a_cur s' = A.a_cur s).
        { unfold A.timer in Ei. inversion Ei; subst. split; reflexivity. }
        destruct K1 as [K1 K2].
        eexists secs, cur, _. split; [reflexivity|]. cbn. rewrite K1, K2. split; [assumption | split; [assumption | reflexivity]].
      + unfold A.in_text. cbn [retext A.a_define Events.pt_span].
        destruct (negb (A.dm_eqb (A.a_define s) A.DMText)); [reflexivity|]. rewrite B1, B2. cbn [out_rel].
        eexists secs, cur, _. split; [reflexivity|]. cbn. split; [exact Hs|]. split; [exact Hc|].
        apply teq_app; assumption.
      + reflexivity.
    - (* diagnostic *) injection H as H _. rewrite H. destruct (d_err d0); cbn [out_rel].
      + exists secs, cur, blk. srdone.
      + exists secs, cur, blk. srdone.
  Qed.

  (* ---------------------------------------------------------------- the event loop *)
  Definition evs_ok (in1 in2 : str) (e1 e2 : list pevent) : Prop :=
    Forall2 (fun a b => proj a = proj b /\ src_ok in1 in2 a b) e1 e2.

  Lemma run_text in1 in2 e1 e2 : evs_ok in1 in2 e1 e2 -> forall s1 s2, srel s1 s2 ->
    out_rel srel (arun in1 s1 (abstract_events e1)) (arun in2 s2 (abstract_events e2)).
  Proof.
    induction 1 as [|a b r1 r2 [Hp Hk] _ IH]; intros s1 s2 R; [exact R|].
    unfold abstract_events. cbn [map A.run].
    pose proof (step_text in1 in2 s1 s2 a b R Hp Hk) as S. unfold out_rel in S.
    destruct (astep in1 s1 (abstract_event a)) as [s1'|p1], (astep in2 s2 (abstract_event b)) as [s2'|p2];
      try contradiction; cbn [obind]; [apply IH; exact S | exact S].
  Qed.

  (* what is compared: validity, and the recipe up to [teq] on paragraph texts *)
  Definition recrel (r1 r2 : A.recipe) : Prop :=
    Forall2 secrel (A.r_sections r1) (A.r_sections r2) /\ A.r_ingredients r1 = A.r_ingredients r2
    /\ A.r_cookware r1 = A.r_cookware r2 /\ A.r_timers r1 = A.r_timers r2 /\ A.r_inline r1 = A.r_inline r2.
  Definition rrel (p1 p2 : option A.recipe * bool) : Prop :=
    snd p1 = snd p2 /\ match fst p1, fst p2 with
                       | Some r1, Some r2 => recrel r1 r2
                       | None, None => True
                       | _, _ => False
                       end.

  Theorem analyse_text in1 in2 e1 e2 :
    evs_ok in1 in2 e1 e2 ->
    out_rel rrel (A.analyse ci_key yaml_ok find_iq unit_class in1 x acfg (abstract_events e1))
                 (A.analyse ci_key yaml_ok find_iq unit_class in2 x acfg (abstract_events e2)).
  Proof.
    intro H. unfold A.analyse.
    assert (R0 : srel A.init A.init).
    { exists [], {| A.sec_name := None; A.sec_content := [] |}, None. repeat split; constructor. }
    pose proof (run_text in1 in2 e1 e2 H _ _ R0) as R. unfold out_rel in R.
    destruct (arun in1 A.init (abstract_events e1)) as [s1|p1], (arun in2 A.init (abstract_events e2)) as [s2|p2];
      try contradiction; cbv beta iota delta [obind out_rel]; [|exact R].
    destruct R as (secs & cur & blk & -> & Hs & Hc & Hb). unfold rrel, A.output, A.is_valid. cbn [retext A.a_halted A.a_errors fst snd].
    split; [reflexivity|]. destruct (A.a_halted s1); [exact I|]. unfold recrel. cbn.
    split; [apply pushed_rel; assumption|]. repeat split; reflexivity.
  Qed.
End TextBlind.

(* ------------------------------------------------------------------ the normal form *)
(* a function applied to every paragraph text of a recipe; [rrel] for [teq a b := f a = f b /\ ..]
   gives recipes that are EQUAL after it *)
Definition cmap (f : str -> str) (c : A.content) : A.content :=
  match c with A.CStep s => A.CStep s | A.CText t => A.CText (f t) end.
Definition secmap (f : str -> str) (s : A.section) : A.section :=
  {| A.sec_name := A.sec_name s; A.sec_content := map (cmap f) (A.sec_content s) |}.
Definition rmap (f : str -> str) (r : A.recipe) : A.recipe :=
  {| A.r_sections := map (secmap f) (A.r_sections r); A.r_ingredients := A.r_ingredients r;
     A.r_cookware := A.r_cookware r; A.r_timers := A.r_timers r; A.r_inline := A.r_inline r |}.
Definition pmap (f : str -> str) (o : outcome (option A.recipe * bool)) : outcome (option A.recipe * bool) :=
  match o with
  | Done (Some r, v) => Done (Some (rmap f r), v)
  | other => other
  end.

Lemma rrel_pmap (teq : str -> str -> Prop) (f : str -> str) o1 o2 :
  (forall a b, teq a b -> f a = f b) -> out_rel (rrel teq) o1 o2 -> pmap f o1 = pmap f o2.
Proof.
  intros Hf H. destruct o1 as [[r1 v1]|p1], o2 as [[r2 v2]|p2]; cbn in H; try contradiction; [|subst; reflexivity].
  destruct H as [Hv H]. cbn in Hv, H. subst v2. destruct r1 as [r1|], r2 as [r2|]; try contradiction; [|reflexivity].
  cbn [pmap]. do 2 f_equal. destruct H as (Hs & Hi & Hc & Ht & Hn). unfold rmap. rewrite Hi, Hc, Ht, Hn.
  assert (Em : map (secmap f) (A.r_sections r1) = map (secmap f) (A.r_sections r2)); [|rewrite Em; reflexivity].
  clear Hi Hc Ht Hn. induction Hs as [|a b l1 l2 [Hn' Hcc] _ IH]; [reflexivity|]. cbn [map]. rewrite IH. f_equal.
  unfold secmap. rewrite Hn'. f_equal.
  clear -Hcc Hf. induction Hcc as [|c d m1 m2 Hcd _ IH]; [reflexivity|]. cbn [map]. rewrite IH. f_equal.
  destruct c, d; cbn in Hcd; try contradiction; cbn [cmap]; [subst; reflexivity | rewrite (Hf _ _ Hcd); reflexivity].
Qed.
