(* The comment scanner of Model/CommentMask.v agrees with the lexer of Model/Lexer.v, and
   letters and digits outside comments sit in Word / Int / ZeroInt / Escaped tokens.
   Both for every input, under explicit hypotheses on the Unicode classification [U]
   (satisfied by the classification dumped from the implementation: see the end). *)
From CL Require Import Base.StrLemmas Model.Lexer Model.CommentMask Proofs.LexerProofs.

(* characters that start an escape or a comment *)
Definition special (c : N) : bool := (c =? 45) || (c =? 91) || (c =? 92).

Lemma scan_plain c r : special c = false -> scan MNormal (c :: r) = false :: scan MNormal r.
Proof.
  unfold special. intro H. apply orb_false_iff in H as [H H3]. apply orb_false_iff in H as [H1 H2].
  cbn [scan]. rewrite H3, H1, H2. reflexivity.
Qed.

Lemma scan_plain_run a b :
  forallb (fun c => negb (special c)) a = true ->
  scan MNormal (a ++ b) = repeat false (length a) ++ scan MNormal b.
Proof.
  induction a as [|c a IH]; cbn [forallb app length repeat]; intro H; [reflexivity|].
  apply andb_true_iff in H as [H1 H2]. apply negb_true_iff in H1.
  rewrite scan_plain by exact H1. rewrite IH by exact H2. reflexivity.
Qed.

Lemma forallb_impl {A} (p q : A -> bool) l :
  (forall x, p x = true -> q x = true) -> forallb p l = true -> forallb q l = true.
Proof.
  intros H. induction l as [|x l IH]; cbn [forallb]; [reflexivity|]. intro E.
  apply andb_true_iff in E as [E1 E2]. rewrite (H _ E1), (IH E2). reflexivity.
Qed.

(* a line comment: everything up to the newline *)
Lemma scan_line s a b :
  span_while (fun x => negb (x =? 10)) s = (a, b) ->
  scan MLine s = repeat true (length a) ++ scan MNormal b.
Proof.
  revert a b. induction s as [|c r IH]; intros a b H; cbn [span_while] in H.
  - inversion H; reflexivity.
  - destruct (c =? 10) eqn:E; cbn [negb] in H.
    + inversion H; subst. cbn [length repeat app].
      assert (S : special c = false) by (apply N.eqb_eq in E; subst; reflexivity).
      rewrite scan_plain by exact S. cbn [scan]. rewrite E. reflexivity.
    + destruct (span_while (fun x => negb (x =? 10)) r) as [a' b'] eqn:E'. inversion H; subst.
      cbn [scan length repeat app]. rewrite E. f_equal. apply IH. reflexivity.
Qed.

(* a block comment body: up to and including the first `-]`, or everything *)
Lemma scan_body s a b :
  block_body s = (a, b) -> scan MBody s = repeat true (length a) ++ scan MNormal b.
Proof.
  revert a b. induction s as [|c r IH]; intros a b H; cbn [block_body] in H.
  - inversion H; reflexivity.
  - destruct ((c =? 45) && next_is 93 r) eqn:E.
    + inversion H; subst. cbn [scan]. rewrite E.
      apply andb_true_iff in E as [_ E]. apply next_is_cons in E. rewrite E.
      cbn [scan length repeat app tl]. reflexivity.
    + destruct (block_body r) as [a' b'] eqn:E'. inversion H; subst.
      cbn [scan length repeat app]. rewrite E. f_equal. apply IH. reflexivity.
Qed.

Lemma scan_length st s : length (scan st s) = length s.
Proof.
  revert st. induction s as [|c r IH]; intro st; [reflexivity|].
  destruct st; cbn [scan];
    repeat match goal with |- context [if ?b then _ else _] => destruct b end;
    cbn [length]; rewrite IH; reflexivity.
Qed.

Section Mask.
  Variable U : N -> ucls.
  (* `-`, `[` and `\` are neither word characters nor blank space: no token swallows them *)
  Hypothesis special_breaks : forall c, special c = true -> is_word_char U c = false /\ is_lex_ws U c = false.

  Lemma word_chars_plain a : forallb (is_word_char U) a = true -> forallb (fun c => negb (special c)) a = true.
  Proof.
    apply forallb_impl. intros x Hx. destruct (special x) eqn:E; [|reflexivity].
    destruct (special_breaks x E) as [H _]. congruence.
  Qed.
  Lemma ws_chars_plain a : forallb (is_lex_ws U) a = true -> forallb (fun c => negb (special c)) a = true.
  Proof.
    apply forallb_impl. intros x Hx. destruct (special x) eqn:E; [|reflexivity].
    destruct (special_breaks x E) as [_ H]. congruence.
  Qed.
  Lemma digit_chars_plain a : forallb is_digit a = true -> forallb (fun c => negb (special c)) a = true.
  Proof.
    apply forallb_impl. intros x Hx. unfold is_digit in Hx. apply andb_true_iff in Hx as [H1 H2].
    apply N.leb_le in H1, H2. unfold special.
    destruct (x =? 45) eqn:E1; [apply N.eqb_eq in E1; lia|].
    destruct (x =? 91) eqn:E2; [apply N.eqb_eq in E2; lia|].
    destruct (x =? 92) eqn:E3; [apply N.eqb_eq in E3; lia|]. reflexivity.
  Qed.

  Lemma single_kind_not_comment c k : single_kind c = Some k -> is_comment k = false.
  Proof.
    unfold single_kind. intro H.
    repeat match type of H with (if ?b then _ else _) = _ => destruct b end;
      inversion H; reflexivity.
  Qed.

  (* the scanner, started in the normal state at a token boundary, emits the token's flag
     once per character and is back in the normal state at the next boundary *)
  Lemma scan_token c r k t rest :
    lex_one U c r = (k, t, rest) ->
    scan MNormal (c :: r) = repeat (is_comment k) (length t) ++ scan MNormal rest.
  Proof.
    unfold lex_one. intro H.
    destruct (c =? 92) eqn:E92.
    { destruct r as [|d r']; inversion H; subst; cbn [scan]; rewrite E92; reflexivity. }
    destruct (c =? 62) eqn:E62.
    { apply N.eqb_eq in E62. subst c.
      destruct (next_is 62 r) eqn:En; inversion H; subst.
      - apply next_is_cons in En. rewrite En. cbn [tl].
        change (62 :: 62 :: tl r) with ([62; 62] ++ tl r). rewrite scan_plain_run by reflexivity. reflexivity.
      - rewrite scan_plain by reflexivity. reflexivity. }
    destruct (c =? 45) eqn:E45.
    { destruct (next_is 45 r) eqn:En.
      - destruct (span_while (fun x => negb (x =? 10)) r) as [a b] eqn:Es. inversion H; subst.
        cbn [scan]. rewrite E92, E45, En. cbn [andb is_comment length repeat app]. f_equal.
        apply scan_line. exact Es.
      - inversion H; subst. cbn [scan]. rewrite E92, E45, En. cbn [andb].
        destruct (c =? 91); reflexivity. }
    destruct ((c =? 91) && next_is 45 r) eqn:E91.
    { destruct (block_body (tl r)) as [a b] eqn:Eb. inversion H; subst.
      cbn [scan]. rewrite E92, E45, E91. cbn [andb is_comment length repeat app]. f_equal.
      apply andb_true_iff in E91 as [_ En]. apply next_is_cons in En. rewrite En.
      cbn [scan tl length repeat app]. f_equal. rewrite En in Eb. cbn [tl] in Eb.
      apply scan_body. exact Eb. }
    assert (Hc : scan MNormal (c :: r) = false :: scan MNormal r).
    { cbn [scan]. rewrite E92, E45, E91. reflexivity. }
    destruct (c =? 10) eqn:E10.
    { inversion H; subst. rewrite Hc. reflexivity. }
    destruct ((c =? 13) && next_is 10 r) eqn:E13.
    { inversion H; subst. rewrite Hc. apply andb_true_iff in E13 as [_ En]. apply next_is_cons in En.
      rewrite En at 1. rewrite scan_plain by reflexivity. reflexivity. }
    destruct (is_digit c) eqn:Ed.
    { destruct (span_while is_digit r) as [a b] eqn:Es. inversion H; subst. rewrite Hc.
      pose proof (span_while_app _ _ _ _ Es) as Ha. pose proof (span_while_all _ _ _ _ Es) as Hall.
      rewrite <- Ha. rewrite scan_plain_run by (apply digit_chars_plain; exact Hall).
      destruct a; [reflexivity|]. destruct (c =? 48); reflexivity. }
    destruct (single_kind c) as [k'|] eqn:Ek.
    { inversion H; subst. rewrite Hc. rewrite (single_kind_not_comment _ _ Ek). reflexivity. }
    destruct (is_lex_ws U c) eqn:Ew.
    { destruct (span_while (is_lex_ws U) r) as [a b] eqn:Es. inversion H; subst. rewrite Hc.
      pose proof (span_while_app _ _ _ _ Es) as Ha. pose proof (span_while_all _ _ _ _ Es) as Hall.
      rewrite <- Ha. rewrite scan_plain_run by (apply ws_chars_plain; exact Hall). reflexivity. }
    destruct (u_punct (U c)) eqn:Ep.
    { inversion H; subst. rewrite Hc. reflexivity. }
    destruct (span_while (is_word_char U) r) as [a b] eqn:Es. inversion H; subst. rewrite Hc.
    pose proof (span_while_app _ _ _ _ Es) as Ha. pose proof (span_while_all _ _ _ _ Es) as Hall.
    rewrite <- Ha. rewrite scan_plain_run by (apply word_chars_plain; exact Hall). reflexivity.
  Qed.

  Lemma mask_fuel fuel s off ts : lex_fuel U fuel s off = Some ts -> scan MNormal s = token_mask ts.
  Proof.
    revert s off ts. induction fuel as [|f IH]; intros s off ts H.
    - destruct s; cbn in H; [inversion H; reflexivity | discriminate].
    - destruct s as [|c r]; cbn [lex_fuel] in H; [inversion H; reflexivity|].
      destruct (lex_one U c r) as [[k t] rest] eqn:E.
      destruct (lex_fuel U f rest (off + blen t)) as [ts'|] eqn:E'; [|discriminate].
      inversion H; subst. unfold token_mask. cbn [map concat kind tstr].
      rewrite (scan_token _ _ _ _ _ E). f_equal. apply (IH _ _ _ E').
  Qed.

  (* the independent scanner marks exactly the characters of the lexer's comment tokens *)
  Theorem mask_is_lexer s off ts : lex_at U s off = Some ts -> mask s = token_mask ts.
  Proof. apply mask_fuel. Qed.

  (* ---------------------------------------------------------------- letters and digits *)
  (* what "alphanumeric" may not be: the structural characters, blank space, punctuation *)
  Hypothesis alnum_not_struct : forall c, u_alnum (U c) = true ->
    u_punct (U c) = false /\ is_lex_ws U c = false /\ single_kind c = None
    /\ (c =? 10) = false /\ (c =? 13) = false /\ (c =? 62) = false /\ (c =? 45) = false /\ (c =? 91) = false.

  Lemma lex_one_content c r k t rest :
    lex_one U c r = (k, t, rest) ->
    content_kind k = true \/ is_comment k = true \/ forallb (fun x => negb (u_alnum (U x))) t = true.
  Proof.
    unfold lex_one. intro H.
    assert (NA : forall x, (u_alnum (U x) = true -> False) -> negb (u_alnum (U x)) = true).
    { intros x Hx. destruct (u_alnum (U x)); [exfalso; apply Hx; reflexivity | reflexivity]. }
    destruct (c =? 92) eqn:E92.
    { destruct r; inversion H; subst; left; reflexivity. }
    destruct (c =? 62) eqn:E62.
    { apply N.eqb_eq in E62. subst c. right; right.
      assert (N62 : negb (u_alnum (U 62)) = true).
      { apply NA. intro A. destruct (alnum_not_struct _ A) as (_ & _ & _ & _ & _ & X & _). discriminate. }
      destruct (next_is 62 r); inversion H; subst; cbn [forallb]; rewrite N62; reflexivity. }
    destruct (c =? 45) eqn:E45.
    { destruct (next_is 45 r).
      - destruct (span_while _ r). inversion H; subst. right; left; reflexivity.
      - inversion H; subst. right; right. cbn [forallb]. rewrite NA; [reflexivity|].
        intro A. destruct (alnum_not_struct _ A) as (_ & _ & _ & _ & _ & _ & X & _). congruence. }
    destruct ((c =? 91) && next_is 45 r) eqn:E91.
    { destruct (block_body (tl r)). inversion H; subst. right; left; reflexivity. }
    destruct (c =? 10) eqn:E10.
    { inversion H; subst. right; right. cbn [forallb]. rewrite NA; [reflexivity|].
      intro A. destruct (alnum_not_struct _ A) as (_ & _ & _ & X & _). congruence. }
    destruct ((c =? 13) && next_is 10 r) eqn:E13.
    { inversion H; subst. right; right. apply andb_true_iff in E13 as [E13 _].
      cbn [forallb]. rewrite NA.
      - rewrite NA; [reflexivity|]. intro A. destruct (alnum_not_struct _ A) as (_ & _ & _ & X & _). discriminate.
      - intro A. destruct (alnum_not_struct _ A) as (_ & _ & _ & _ & X & _). congruence. }
    destruct (is_digit c) eqn:Ed.
    { destruct (span_while is_digit r) as [a b]. inversion H; subst. left.
      destruct a; [reflexivity|]. destruct (c =? 48); reflexivity. }
    destruct (single_kind c) as [k'|] eqn:Ek.
    { inversion H; subst. right; right. cbn [forallb]. rewrite NA; [reflexivity|].
      intro A. destruct (alnum_not_struct _ A) as (_ & _ & X & _). congruence. }
    destruct (is_lex_ws U c) eqn:Ew.
    { destruct (span_while (is_lex_ws U) r) as [a b] eqn:Es. inversion H; subst. right; right.
      pose proof (span_while_all _ _ _ _ Es) as Hall. cbn [forallb]. rewrite NA.
      - cbn [andb]. revert Hall. apply forallb_impl. intros x Hx. apply NA. intro A.
        destruct (alnum_not_struct _ A) as (_ & X & _). congruence.
      - intro A. destruct (alnum_not_struct _ A) as (_ & X & _). congruence. }
    destruct (u_punct (U c)) eqn:Ep.
    { inversion H; subst. right; right. cbn [forallb]. rewrite NA; [reflexivity|].
      intro A. destruct (alnum_not_struct _ A) as (X & _). congruence. }
    destruct (span_while (is_word_char U) r). inversion H; subst. left; reflexivity.
  Qed.

  Lemma content_fuel fuel s off ts :
    lex_fuel U fuel s off = Some ts ->
    Forall (fun t => content_kind (kind t) = true \/ is_comment (kind t) = true
                     \/ forallb (fun x => negb (u_alnum (U x))) (tstr t) = true) ts.
  Proof.
    revert s off ts. induction fuel as [|f IH]; intros s off ts H.
    - destruct s; cbn in H; [inversion H; constructor | discriminate].
    - destruct s as [|c r]; cbn [lex_fuel] in H; [inversion H; constructor|].
      destruct (lex_one U c r) as [[k t] rest] eqn:E.
      destruct (lex_fuel U f rest (off + blen t)) as [ts'|] eqn:E'; [|discriminate].
      inversion H; subst. constructor; [|eapply IH; exact E'].
      cbn [kind tstr]. eapply lex_one_content. exact E.
  Qed.

  (* a letter or digit of the input lies in a comment token or in a Word, Int, ZeroInt or
     Escaped token: no other token kind ever holds one *)
  Theorem alnum_tokens s off ts :
    lex_at U s off = Some ts ->
    Forall (fun t => forall x, In x (tstr t) -> u_alnum (U x) = true ->
                     content_kind (kind t) = true \/ is_comment (kind t) = true) ts.
  Proof.
    intro H. pose proof (content_fuel _ _ _ _ H) as F.
    eapply Forall_impl; [|exact F]. intros t [Hc|[Hc|Hn]] x Hx Ha; [left; exact Hc | right; exact Hc|].
    exfalso. rewrite forallb_forall in Hn. specialize (Hn x Hx). rewrite Ha in Hn. discriminate.
  Qed.
End Mask.
