(* C13 on the real converters: the unit tables dumped from Converter::default() and from the live
   build of units.toml + spanish.toml (Gen/UnitsLive.v, regenerated from /repo by checks/c16.py)
   give every key of every Time unit the documented meaning under the model of
   dynamic_time_units. *)
From CL Require Model.Builder Model.BuilderSpec Gen.UnitsLive.
From CL Require Import Base.StrLemmas Model.StdMeta Model.StdMetaDoc Proofs.StdMetaProofs Proofs.StdMetaDocProofs.
Open Scope N_scope.

(* the view of a converter that parse_time needs (Model.StdMeta.conv), from a dump *)
Definition is_time (q : Builder.pq) : bool := match q with Builder.Time => true | _ => false end.
Definition conv_of_dump (d : BuilderSpec.converter_dump) : conv :=
  map (fun u => {| u_keys := Builder.all_keys u; u_time := is_time (Builder.quantity u);
                   u_ratio := Builder.ratio u; u_diff := Builder.difference u |})
      (BuilderSpec.d_units d).

(* the list view finds a key where the converter's index finds it *)
Definition index_agrees (d : BuilderSpec.converter_dump) : bool :=
  forallb (fun ki => match find_unit (conv_of_dump d) (fst ki) with
                     | Some (j, _) => j =? N.of_nat (snd ki)
                     | None => false
                     end) (BuilderSpec.d_index d).

Definition key_check (cv : conv) (u : tunit) (k : str) : bool :=
  match find_unit cv k with
  | Some (_, u') => u_time u' && Qeq_bool (u_ratio u') (u_ratio u) && Qeq_bool (u_diff u') 0
  | None => false
  end.

Definition time_unit_check (cv : conv) : bool :=
  match minute_unit cv with
  | Some (_, mu) =>
    u_time mu && Qeq_bool (u_diff mu) 0 && negb (Qeq_bool (u_ratio mu) 0)
    && forallb (fun u => if u_time u then forallb (key_check cv u) (u_keys u) else true) cv
  | None => false
  end.

Lemma unit_means_comp cv k r r' : (r == r')%Q -> unit_means cv k r -> unit_means cv k r'.
Proof. intros E H q. destruct (H q) as (q' & T & Q). exists q'. split; [exact T|]. rewrite Q, E. reflexivity. Qed.

Lemma time_unit_check_sound cv :
  cv <> [] -> time_unit_check cv = true ->
  exists mi mu, minute_unit cv = Some (mi, mu) /\ u_time mu = true
    /\ forall u k, In u cv -> u_time u = true -> In k (u_keys u) ->
                   unit_means cv k (u_ratio u / u_ratio mu).
Proof.
  intros NE H. unfold time_unit_check in H. destruct (minute_unit cv) as [[mi mu]|] eqn:MU; [|discriminate].
  apply andb_true_iff in H as [H ALL]. apply andb_true_iff in H as [H RM]. apply andb_true_iff in H as [TM DM].
  apply Qeq_bool_iff in DM. apply negb_true_iff in RM.
  exists mi, mu. split; [reflexivity|]. split; [exact TM|]. intros u k IU TU IK.
  rewrite forallb_forall in ALL. specialize (ALL u IU). rewrite TU in ALL.
  rewrite forallb_forall in ALL. specialize (ALL k IK). unfold key_check in ALL.
  destruct (find_unit cv k) as [[ui u']|] eqn:FU; [|discriminate].
  apply andb_true_iff in ALL as [A DU]. apply andb_true_iff in A as [TU' RU].
  apply Qeq_bool_iff in DU, RU.
  apply (unit_means_comp cv k (u_ratio u' / u_ratio mu)); [rewrite RU; reflexivity|].
  apply (unit_means_dynamic cv k mi mu ui u'); try assumption.
  intro Z. apply Qeq_bool_iff in Z. congruence.
Qed.

Lemma live_default_check :
  time_unit_check (conv_of_dump UnitsLive.live_default) = true
  /\ index_agrees UnitsLive.live_default = true /\ conv_ok (conv_of_dump UnitsLive.live_default) = true.
Proof. vm_compute. auto. Qed.

Lemma live_spanish_check :
  time_unit_check (conv_of_dump UnitsLive.live_spanish) = true
  /\ index_agrees UnitsLive.live_spanish = true /\ conv_ok (conv_of_dump UnitsLive.live_spanish) = true.
Proof. vm_compute. auto. Qed.

Definition live_convs : list conv :=
  [conv_of_dump UnitsLive.live_default; conv_of_dump UnitsLive.live_spanish].

Lemma live_time_units cv :
  In cv live_convs ->
  exists mi mu, minute_unit cv = Some (mi, mu) /\ u_time mu = true /\ (u_ratio mu == 60 # 1)%Q
    /\ forall u k, In u cv -> u_time u = true -> In k (u_keys u) ->
                   unit_means cv k (u_ratio u / u_ratio mu).
Proof.
  intros [<-|[<-|[]]].
  - destruct (time_unit_check_sound (conv_of_dump UnitsLive.live_default)) as (mi & mu & MU & TM & ALL);
      [discriminate|apply live_default_check|].
    exists mi, mu. repeat split; try assumption. vm_compute in MU. inversion MU. reflexivity.
  - destruct (time_unit_check_sound (conv_of_dump UnitsLive.live_spanish)) as (mi & mu & MU & TM & ALL);
      [discriminate|apply live_spanish_check|].
    exists mi, mu. repeat split; try assumption. vm_compute in MU. inversion MU. reflexivity.
Qed.
