(* Property C17, the padded block comment at DOCUMENT level: `word [- c -] next`.

   [a | b] is a token boundary of the Cooklang part [a ++ b]; the last two tokens of [a] are a word or
   number token [wd] and a blank token [ws]; [b] starts with a character that is not blank space.
   Inserted at the boundary: [x1 ++ [-c-] ++ x2] with [x1], [x2] made of U+0020 - [x1] lengthens the
   blank token, [x2] is a blank token of its own; both may be empty ([x1 = x2 = []]: the comment glued
   to the next word, `word [- c -]next`).  When a blank is added the blank token must end with U+0020
   (a TAB followed by U+0020 is not a run that [Text::text_trimmed] collapses).  The place: outside
   braces ([mode_after]), not in the value of a metadata line ([lmode_after]).

   [pad_tokens]        the tokens of the edited text: [pline]-related to those of the source
   [pad_events(_fm)]   the event streams are related by [fwr] (EditTrailDefs.v): same observation, same
                       validity (EditTrailObs.v); with EditTrailDoc.parse_wblind: the same recipe up to
                       blank space in step and paragraph text, the same validity, the same metadata map. *)
From Coq Require Import List Lia.
From CL Require Import Base.StrLemmas Model.Lexer Model.PText Model.CommentMask Model.Parser Model.Edits
  Proofs.LexerProofs Proofs.MaskProofs Proofs.EditProofs Proofs.EditParserProofs Proofs.EditLink Proofs.ParserTotal
  Proofs.EditSimDefs Proofs.EditSimDoc Proofs.EditInsDefs Proofs.EditInsPrim Proofs.ParserFM Proofs.EditSimFM2.
From CL Require Import Proofs.EditTrailDefs Proofs.EditTrailStr Proofs.EditTrailPrim Proofs.EditTrailFun Proofs.EditTrailLex Proofs.EditTrailDoc
  Proofs.EditPadDefs Proofs.EditPadPrim Proofs.EditPadFun Proofs.EditPadStep Proofs.EditPadSplit.
Import ListNotations.

(* ---------------------------------------------------------------- places, by their components *)
Fixpoint lmode_after (l : lmode) (ts : list tok) : lmode :=
  match ts with [] => l | t :: r => lmode_after (lnext l (kind t)) r end.

Lemma pbr_after l : forall m, pbr (pmode_after m l) = mode_after (pbr m) l.
Proof. induction l as [|t r IH]; intro m; [reflexivity|]. cbn [pmode_after mode_after]. rewrite IH. reflexivity. Qed.
Lemma pln_after l : forall m, pln (pmode_after m l) = lmode_after (pln m) l.
Proof. induction l as [|t r IH]; intro m; [reflexivity|]. cbn [pmode_after lmode_after]. rewrite IH. reflexivity. Qed.
Lemma lmode_after_app l a b : lmode_after l (a ++ b) = lmode_after (lmode_after l a) b.
Proof. revert l. induction a as [|t r IH]; intro l; [reflexivity|]. cbn [app lmode_after]. apply IH. Qed.
Lemma mode_after_app m a b : mode_after m (a ++ b) = mode_after (mode_after m a) b.
Proof. revert m. induction a as [|t r IH]; intro m; [reflexivity|]. cbn [app mode_after]. apply IH. Qed.

Definition m0 : pmode := {| pg := false; pbr := MOut; pln := LStart |}.

(* after a word or number token that stands outside braces and not in a metadata value *)
Lemma gap_ok_after p wd : swt (kind wd) = true -> mode_after MOut p = MOut -> lmode_after LStart p <> LVal ->
  gap_ok (pmode_after m0 (p ++ [wd])) = true.
Proof.
  intros Kw Hm Hl. rewrite pmode_after_app. cbn [pmode_after]. unfold gap_ok. cbn [pnext pg pbr pln].
  rewrite Kw, pbr_after, pln_after. cbn [m0 pbr pln]. rewrite Hm, (swt_next_mode _ _ Kw). cbn [br_out andb].
  unfold lnext. rewrite (swt_not_nl _ Kw).
  destruct (lmode_after LStart p).
  - destruct (kind wd); try discriminate Kw; reflexivity.
  - reflexivity.
  - destruct (kind wd); try discriminate Kw; reflexivity.
  - contradiction Hl; reflexivity.
Qed.

(* ---------------------------------------------------------------- token lists *)
Lemma psim_shift n ts : Forall (fun t => tstr t <> []) ts -> Forall newline_ok ts -> lone_last ts ->
  forall m, psim m ts (shift n ts).
Proof.
  induction ts as [|t r IH]; intros H1 H2 HL m; [constructor|].
  inversion H1; inversion H2; subst. destruct HL as [HL1 HL2]. cbn [shift map].
  apply p_cons.
  - repeat split; auto.
  - destruct HL1 as [HL1 | ->]; [left; exact HL1 | right; split; reflexivity].
  - apply IH; assumption.
Qed.

Lemma psim_prefix p : forall m r1 r2,
  Forall (fun t => tstr t <> []) p -> Forall newline_ok p -> nolone p ->
  psim (pmode_after m p) r1 r2 -> psim m (p ++ r1) (p ++ r2).
Proof.
  induction p as [|t r IH]; intros m r1 r2 H1 H2 H3 H; [exact H|].
  inversion H1; inversion H2; inversion H3; subst. cbn [app pmode_after] in *.
  apply p_cons; [apply krel_refl; assumption | left; assumption | apply IH; assumption].
Qed.

Lemma sp32_snoc x : sp32 x -> x ++ [32] = 32 :: x.
Proof. induction x as [|c r IH]; intro H; [reflexivity|]. apply sp32_cons_inv in H as [-> H]. cbn [app]. rewrite (IH H). reflexivity. Qed.

Lemma spins_append32 s x : sp32 x -> (x = [] \/ exists u, s = u ++ [32]) -> spins false s (s ++ x).
Proof.
  intros Hx [-> | (u & ->)]; [rewrite app_nil_r; apply spins_refl|]. rewrite <- app_assoc. apply spins_app_l.
  cbn [app]. rewrite <- (sp32_snoc _ Hx). apply spins_ins32; [exact Hx | apply spins_refl].
Qed.

(* the source tokens and the edited tokens *)
Theorem pad_psim p wd ws tb' g1 cm g2 n :
  Forall (fun t => tstr t <> []) (p ++ wd :: ws :: tb') -> Forall newline_ok (p ++ wd :: ws :: tb') -> lone_last (p ++ wd :: ws :: tb') ->
  swt (kind wd) = true -> kind ws = KWs -> mode_after MOut p = MOut -> lmode_after LStart p <> LVal ->
  kind g1 = KWs -> tstr g1 <> [] -> kind cm = KBlockComment -> tstr cm <> [] -> Forall gapt g2 ->
  spins false (tstr ws) (tstr g1 ++ render g2) ->
  pline (p ++ wd :: ws :: tb') (p ++ wd :: (g1 :: cm :: g2) ++ shift n tb').
Proof.
  intros N O LL Kw Ks Hm Hl K1 N1 Kc Nc G2 Hs.
  exists m0. split; [reflexivity|]. split; [reflexivity|].
  pose proof (lone_last_app_l p _ LL ltac:(discriminate)) as NLp. apply lone_last_app_r in LL. destruct LL as [Lw [Ls Lt]].
  apply Forall_app in N as [Np N]. apply Forall_app in O as [Op O].
  inversion N as [|? ? Nw N']; inversion O as [|? ? Ow O']; subst.
  inversion N' as [|? ? Ns Nt]; inversion O' as [|? ? Os Ot]; subst.
  apply psim_prefix; [exact Np | exact Op | exact NLp|].
  apply p_cons; [apply krel_refl; assumption | destruct Lw as [X | X]; [left; exact X | discriminate X]|].
  assert (Sg : spins false (tstr ws) (render (g1 :: cm :: g2))).
  { rewrite !render_cons. unfold render_tok at 1 2. rewrite K1, Kc. exact Hs. }
  apply p_gap.
  - pose proof (gap_ok_after p wd Kw Hm Hl) as X. rewrite pmode_after_app in X. exact X.
  - split; [exact Ks|]. split; [exact Ns|]. split; [exact K1|]. split; [|exact Sg].
    constructor; [split; [rewrite K1; reflexivity | exact N1]|]. constructor; [split; [rewrite Kc; reflexivity | exact Nc] | exact G2].
  - apply psim_shift; assumption.
Qed.

(* ---------------------------------------------------------------- the lexer *)
Lemma shift_0 ts : shift 0 ts = ts.
Proof.
  induction ts as [|t q IH]; [reflexivity|]. cbn [shift map]. fold (shift 0 q). rewrite IH. destruct t as [k s o].
  unfold shift_tok. cbn [kind tstr tstart]. rewrite N.add_0_r. reflexivity.
Qed.
Lemma shift_shift a b ts : shift a (shift b ts) = shift (b + a) ts.
Proof.
  induction ts as [|t q IH]; [reflexivity|]. cbn [shift map]. fold (shift b q). fold (shift a (shift b q)). fold (shift (b + a) q).
  rewrite IH. unfold shift_tok. cbn [kind tstr tstart]. rewrite N.add_assoc. reflexivity.
Qed.

Section PadLex.
  Variable U : N -> ucls.
  Hypothesis special_breaks : forall c, special c = true -> is_word_char U c = false /\ is_lex_ws U c = false.
  Hypothesis eol_breaks : forall c, (c =? 10) || (c =? 13) = true -> is_word_char U c = false /\ is_lex_ws U c = false.
  Hypothesis blank_ws : is_lex_ws U 32 = true /\ is_word_char U 32 = false.

  (* the blank token that [x2] makes *)
  Definition ws2_toks (x2 : str) (o : N) : list tok := match x2 with [] => [] | _ => [mk KWs x2 o] end.

  Lemma ws2_gap x2 o : Forall gapt (ws2_toks x2 o).
  Proof. destruct x2; [constructor|]. constructor; [split; [reflexivity | discriminate] | constructor]. Qed.
  Lemma ws2_render x2 o : render (ws2_toks x2 o) = x2.
  Proof. destruct x2; [reflexivity|]. cbn. rewrite app_nil_r. reflexivity. Qed.

  (* [x2 ++ b]: a blank token of its own in front of the tokens of [b] *)
  Lemma lex_ws2 x2 b o tb : sp32 x2 -> stops U b -> lex_at U b o = Some tb ->
    lex_at U (x2 ++ b) o = Some (ws2_toks x2 o ++ shift (blen x2) tb).
  Proof.
    intros Hx Hs Hb. destruct x2 as [|c r].
    - cbn [app ws2_toks blen]. rewrite Hb, shift_0. reflexivity.
    - apply (lex_blanks_then U blank_ws); [discriminate | exact Hx | exact Hs|].
      apply (lex_at_shift U). exact Hb.
  Qed.

  Theorem pad_tokens a b c x1 x2 off p wd ws tb' d y :
    no_close c = true -> sp32 x1 -> sp32 x2 ->
    lex_at U a off = Some (p ++ [wd; ws]) -> b = d :: y -> is_lex_ws U d = false -> lex_at U b (off + blen a) = Some tb' ->
    swt (kind wd) = true -> kind ws = KWs -> mode_after MOut p = MOut -> lmode_after LStart p <> LVal ->
    (x1 ++ x2 = [] \/ exists u, tstr ws = u ++ [32]) ->
    exists ts2, lex_at U (a ++ b) off = Some ((p ++ [wd; ws]) ++ tb')
                /\ lex_at U (a ++ (x1 ++ block_comment_text c ++ x2) ++ b) off = Some ts2
                /\ pline ((p ++ [wd; ws]) ++ tb') ts2.
  Proof.
    intros Hc H1 H2 La Eb Hd Lb Kw Ks Hm Hl Hsp.
    assert (Hst : stops U b) by (rewrite Eb; exact Hd).
    (* the source *)
    assert (Lab : lex_at U (a ++ b) off = Some ((p ++ [wd; ws]) ++ tb')).
    { rewrite Eb. apply (lex_app U special_breaks eol_breaks); [exact La | | rewrite <- Eb; exact Lb].
      rewrite safe_end_last, rev_app_distr. cbn [rev app]. unfold last_tok_safe. rewrite Ks, Hd. reflexivity. }
    (* the edited text: [a ++ x1 ++ ([-c-] ++ x2 ++ b)] *)
    set (bc := block_comment_text c).
    set (o1 := off + blen a + blen x1).
    assert (Lr : lex_at U (bc ++ x2 ++ b) o1 = Some (mk KBlockComment bc o1 :: ws2_toks x2 (o1 + blen bc) ++ shift (blen x2) (shift (blen x1 + blen bc) tb'))).
    { assert (E : x2 ++ b = hd 0 (x2 ++ b) :: tl (x2 ++ b)) by (destruct x2; [rewrite Eb; reflexivity | reflexivity]).
      rewrite E. change (mk KBlockComment bc o1 :: ?l) with ([mk KBlockComment bc o1] ++ l).
      apply (lex_app U special_breaks eol_breaks).
      - exact (lex_block_comment U c o1 Hc).
      - cbn [safe_end]. unfold last_tok_safe. cbn [kind tstr mk]. apply closed_block_comment.
      - rewrite <- E. apply lex_ws2; [exact H2 | exact Hst|].
        replace (o1 + blen bc) with (off + blen a + (blen x1 + blen bc)) by (unfold o1; lia).
        apply (lex_at_shift U). exact Lb. }
    exists ((p ++ [wd]) ++ [mk KWs (tstr ws ++ x1) (tstart ws)] ++
            (mk KBlockComment bc o1 :: ws2_toks x2 (o1 + blen bc) ++ shift (blen x2) (shift (blen x1 + blen bc) tb'))).
    split; [exact Lab|]. split.
    - replace (a ++ (x1 ++ bc ++ x2) ++ b) with (a ++ x1 ++ (bc ++ x2 ++ b)) by (rewrite <- !app_assoc; reflexivity).
      apply (lex_ws_extend U special_breaks eol_breaks a off (p ++ [wd]) ws x1).
      + rewrite <- app_assoc. exact La.
      + exact Ks.
      + apply (sp32_lex_ws U blank_ws). exact H1.
      + unfold bc, block_comment_text. cbn [stops app]. destruct (special_breaks 91 eq_refl) as [_ X]. exact X.
      + exact Lr.
    - pose proof (lex_nonempty U _ _ _ Lab) as N. pose proof (lex_newline_ok U _ _ _ Lab) as O.
      pose proof (lex_lone_last U _ _ _ Lab) as LL.
      rewrite <- !app_assoc in *. cbn [app] in *.
      rewrite shift_shift.
      apply (pad_psim p wd ws tb' (mk KWs (tstr ws ++ x1) (tstart ws)) (mk KBlockComment bc o1) (ws2_toks x2 (o1 + blen bc)));
        try assumption; try reflexivity.
      + cbn [tstr mk]. apply Forall_app in N as [_ N]. inversion N as [|? ? _ N']; inversion N' as [|? ? Ns _]; subst.
        intro E. apply app_eq_nil in E as [E _]. contradiction.
      + unfold bc, block_comment_text. discriminate.
      + apply ws2_gap.
      + cbn [tstr mk]. rewrite ws2_render, <- app_assoc. apply spins_append32; [apply sp32_app; assumption|].
        destruct Hsp as [E | Hu]; [left; exact E | right; exact Hu].
  Qed.
End PadLex.

(* ---------------------------------------------------------------- documents *)
Section PadDoc.
  Variable U : N -> ucls.
  Variable cfg : pcfg.

  Theorem blocks_p f1 f2 ts1 ts2 old evs1 evs2 :
    pline ts1 ts2 -> evw evs1 evs2 -> OR evw (blocks_loop cfg f1 ts1 old evs1) (blocks_loop cfg f2 ts2 old evs2).
  Proof. apply (blocks_loop_p cfg). Qed.

  Lemma blocks_fwr_p f1 f2 ts1 ts2 old evs :
    pline ts1 ts2 ->
    OR fwr (obind (blocks_loop cfg f1 ts1 old evs) (fun e => Done (rev e)))
           (obind (blocks_loop cfg f2 ts2 old evs) (fun e => Done (rev e))).
  Proof.
    intro H. pose proof (blocks_p f1 f2 ts1 ts2 old evs evs H (evw_refl evs)) as R.
    unfold OR in *. destruct (blocks_loop cfg f1 ts1 old evs) as [e1|]; cbn [obind]; [|exact I].
    destruct (blocks_loop cfg f2 ts2 old evs) as [e2|]; cbn [obind]; [|exact I].
    apply evw_fwr. exact R.
  Qed.

  Theorem events_p s1 s2 ts1 ts2 :
    parse_frontmatter cfg s1 = None -> parse_frontmatter cfg s2 = None ->
    lex_at U s1 0 = Some ts1 -> lex_at U s2 0 = Some ts2 -> pline ts1 ts2 ->
    OR fwr (events U cfg s1) (events U cfg s2).
  Proof. intros F1 F2 L1 L2 H. unfold events. rewrite F1, F2, L1, L2. apply blocks_fwr_p. exact H. Qed.

  Theorem events_p_fm s1 s2 fm1 fm2 ts1 ts2 :
    parse_frontmatter cfg s1 = Some fm1 -> parse_frontmatter cfg s2 = Some fm2 ->
    yaml_text fm1 = yaml_text fm2 -> yaml_off fm1 = yaml_off fm2 ->
    lex_at U (cook_text fm1) (cook_off fm1) = Some ts1 -> lex_at U (cook_text fm2) (cook_off fm2) = Some ts2 ->
    pline ts1 ts2 ->
    OR fwr (events U cfg s1) (events U cfg s2).
  Proof.
    intros F1 F2 Hy Hyo L1 L2 H. unfold events. rewrite F1, F2, L1, L2, <- Hy, <- Hyo. apply blocks_fwr_p. exact H.
  Qed.

  Hypothesis special_breaks : forall c, special c = true -> is_word_char U c = false /\ is_lex_ws U c = false.
  Hypothesis eol_breaks : forall c, (c =? 10) || (c =? 13) = true -> is_word_char U c = false /\ is_lex_ws U c = false.
  Hypothesis blank_ws : is_lex_ws U 32 = true /\ is_word_char U 32 = false.

  (* no front matter *)
  Theorem pad_events a b c x1 x2 p wd ws tb' d y :
    no_close c = true -> sp32 x1 -> sp32 x2 ->
    parse_frontmatter cfg (a ++ b) = None -> parse_frontmatter cfg (a ++ (x1 ++ block_comment_text c ++ x2) ++ b) = None ->
    lex_at U a 0 = Some (p ++ [wd; ws]) -> b = d :: y -> is_lex_ws U d = false -> lex_at U b (blen a) = Some tb' ->
    swt (kind wd) = true -> kind ws = KWs -> mode_after MOut p = MOut -> lmode_after LStart p <> LVal ->
    (x1 ++ x2 = [] \/ exists u, tstr ws = u ++ [32]) ->
    OR fwr (events U cfg (a ++ b)) (events U cfg (a ++ (x1 ++ block_comment_text c ++ x2) ++ b)).
  Proof.
    intros Hc H1 H2 F1 F2 La Eb Hd Lb Kw Ks Hm Hl Hsp.
    destruct (pad_tokens U special_breaks eol_breaks blank_ws a b c x1 x2 0 p wd ws tb' d y Hc H1 H2 La Eb Hd Lb Kw Ks Hm Hl Hsp)
      as (ts2 & Lab & L2 & Hts).
    exact (events_p _ _ _ _ F1 F2 Lab L2 Hts).
  Qed.

  (* below a front matter whose Cooklang part is [a ++ b] *)
  Theorem pad_events_fm s fm a b c x1 x2 p wd ws tb' d y :
    no_close c = true -> sp32 x1 -> sp32 x2 ->
    parse_frontmatter cfg s = Some fm -> cook_text fm = a ++ b ->
    lex_at U a (cook_off fm) = Some (p ++ [wd; ws]) -> b = d :: y -> is_lex_ws U d = false ->
    lex_at U b (cook_off fm + blen a) = Some tb' ->
    swt (kind wd) = true -> kind ws = KWs -> mode_after MOut p = MOut -> lmode_after LStart p <> LVal ->
    (x1 ++ x2 = [] \/ exists u, tstr ws = u ++ [32]) ->
    OR fwr (events U cfg s) (events U cfg (take_bytes s (cook_off fm) ++ a ++ (x1 ++ block_comment_text c ++ x2) ++ b)).
  Proof.
    intros Hc H1 H2 F C La Eb Hd Lb Kw Ks Hm Hl Hsp.
    assert (Hct : cook_text fm <> []) by (rewrite C, Eb; destruct a; discriminate).
    destruct (parse_frontmatter_insert_some_nonempty cfg s fm a (x1 ++ block_comment_text c ++ x2) b F C Hct) as (fm' & F' & Hy & Hyo & Hct' & Hco).
    destruct (pad_tokens U special_breaks eol_breaks blank_ws a b c x1 x2 (cook_off fm) p wd ws tb' d y Hc H1 H2 La Eb Hd Lb Kw Ks Hm Hl Hsp)
      as (ts2 & Lab & L2 & Hts).
    apply (events_p_fm s _ fm fm' ((p ++ [wd; ws]) ++ tb') ts2 F F'); try (symmetry; assumption).
    - rewrite C. exact Lab.
    - rewrite Hct', Hco. exact L2.
    - exact Hts.
  Qed.
End PadDoc.
