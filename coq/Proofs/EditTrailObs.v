(* Property C17, the trailing edit: from the relation [fwr] on event lists (EditTrailDefs.v) to the
   observation of the property.  The definitions [is_pdiag] ... [has_error] are those of
   Properties/C17.v, word for word (convertible: `reflexivity`).

   Stages: [fwr] --(proj, diagnostics filtered)--> [obsr] on [pev] lists; [obsr] is kept by [merge];
   [obsr]-related lists have the same [norm]. *)
From Coq Require Import List Lia.
From CL Require Import Base.StrLemmas Model.Lexer Model.PText Model.CommentMask Model.Parser Model.Edits
  Proofs.EditParserProofs Proofs.EditSimDefs Proofs.EditInsDefs.
From CL Require Import Proofs.EditTrailDefs Proofs.EditTrailStr.
Import ListNotations.

(* ---------------------------------------------------------------- the observation (Properties/C17.v) *)
Definition is_pdiag (e : pev) : bool := match e with PDiag _ _ => true | _ => false end.

Fixpoint merge (l : list pev) : list pev :=
  match l with
  | [] => []
  | PText a :: r => match merge r with PText b :: r' => PText (a ++ b) :: r' | m => PText a :: m end
  | x :: r => x :: merge r
  end.
Definition is_blank (c : N) : bool := (c =? 32) || (c =? 9).
Fixpoint squeeze (prev : bool) (s : str) : str :=
  match s with
  | [] => []
  | c :: r => if is_blank c then (if prev then squeeze true r else 32 :: squeeze true r)
              else c :: squeeze false r
  end.
Definition drop_last_blank (s : str) : str :=
  match rev s with c :: r => if is_blank c then rev r else s | [] => [] end.
Fixpoint norm (at_start : bool) (l : list pev) : list pev :=
  match l with
  | [] => []
  | PText s :: r =>
      let s1 := squeeze at_start s in
      let s2 := match r with PEnd _ :: _ => drop_last_blank s1 | _ => s1 end in
      match s2 with [] => norm at_start r | _ => PText s2 :: norm false r end
  | PStart b :: r => PStart b :: norm true r
  | x :: r => x :: norm false r
  end.
Definition observed (evs : list pevent) : list pev :=
  norm true (merge (filter (fun e => negb (is_pdiag e)) (map proj evs))).

Definition has_error (evs : list pevent) : bool :=
  existsb (fun e => match e with EvDiag d => d_err d | _ => false end) evs.

(* ---------------------------------------------------------------- strings: squeeze *)
Lemma is_blank_32 : is_blank 32 = true. Proof. reflexivity. Qed.

Lemma spins_app e a a' b b' : spins false a a' -> spins e b b' -> spins e (a ++ b) (a' ++ b').
Proof.
  intros Ha Hb. induction Ha as [|w He Hw|c r1 r2 _ IH|r1 r2 _ IH].
  - exact Hb.
  - discriminate.
  - cbn [app]. apply sp_cons. exact IH.
  - cbn [app] in *. apply sp_ins. exact IH.
Qed.

Lemma squeeze_spins s s' : spins false s s' -> forall p, squeeze p s = squeeze p s'.
Proof.
  induction 1 as [|w He Hw|c r1 r2 _ IH|r1 r2 _ IH]; intro p.
  - reflexivity.
  - discriminate.
  - cbn [squeeze]. rewrite (IH true), (IH false). reflexivity.
  - pose proof (IH true) as E. cbn [squeeze] in E |- *. rewrite is_blank_32 in E |- *. rewrite E. reflexivity.
Qed.

Lemma spins_true_split s s' : spins true s s' -> exists s0 w, spins false s s0 /\ sp32 w /\ s' = s0 ++ w.
Proof.
  induction 1 as [|w He Hw|c r1 r2 _ IH|r1 r2 _ IH].
  - exists [], []. split; [apply sp_nil|]. split; reflexivity.
  - exists [], w. split; [apply sp_nil|]. split; [exact Hw | reflexivity].
  - destruct IH as (s0 & w & H1 & H2 & ->). exists (c :: s0), w. split; [apply sp_cons; exact H1|]. split; [exact H2 | reflexivity].
  - destruct IH as (s0 & w & H1 & H2 & ->). exists (32 :: s0), w. split; [apply sp_ins; exact H1|]. split; [exact H2 | reflexivity].
Qed.

(* [drop_last_blank] by recursion from the front *)
Fixpoint dlb (s : str) : str :=
  match s with
  | [] => []
  | c :: r => match r with [] => if is_blank c then [] else [c] | _ :: _ => c :: dlb r end
  end.

Lemma dlb_cons2 c y : y <> [] -> dlb (c :: y) = c :: dlb y.
Proof. destruct y; [intro H; contradiction H; reflexivity | reflexivity]. Qed.
Lemma dlb_cons_nb c y : is_blank c = false -> dlb (c :: y) = c :: dlb y.
Proof. intro H. destruct y; [cbn [dlb]; rewrite H|]; reflexivity. Qed.

Lemma dlb_snoc x c : dlb (x ++ [c]) = if is_blank c then x else x ++ [c].
Proof.
  induction x as [|a r IH]; [cbn [app dlb]; destruct (is_blank c); reflexivity|].
  change ((a :: r) ++ [c]) with (a :: (r ++ [c])). rewrite dlb_cons2 by (destruct r; discriminate).
  rewrite IH. destruct (is_blank c); reflexivity.
Qed.

Lemma drop_last_blank_dlb s : drop_last_blank s = dlb s.
Proof.
  induction s as [|c x _] using rev_ind; [reflexivity|].
  unfold drop_last_blank. rewrite rev_app_distr. cbn [rev app]. rewrite dlb_snoc.
  destruct (is_blank c); [apply rev_involutive | reflexivity].
Qed.

Lemma squeeze_true_sp32 w : sp32 w -> squeeze true w = [].
Proof.
  induction w as [|c r IH]; intro H; [reflexivity|]. apply sp32_cons_inv in H as [-> H].
  cbn [squeeze]. rewrite is_blank_32. apply IH. exact H.
Qed.
Lemma dlb_squeeze_sp32 w p : sp32 w -> dlb (squeeze p w) = [].
Proof.
  intro H. destruct p; [rewrite (squeeze_true_sp32 _ H); reflexivity|].
  destruct w as [|c r]; [reflexivity|]. apply sp32_cons_inv in H as [-> H].
  cbn [squeeze]. rewrite is_blank_32, (squeeze_true_sp32 _ H). reflexivity.
Qed.

Lemma squeeze_true_app_nil w : sp32 w -> forall r, squeeze true (r ++ w) = [] <-> squeeze true r = [].
Proof.
  intros Hw r. induction r as [|a r IH]; cbn [app squeeze].
  - split; intros _; [reflexivity | apply squeeze_true_sp32; exact Hw].
  - destruct (is_blank a); [exact IH | split; discriminate].
Qed.

Lemma dlb_squeeze_app w : sp32 w -> forall x p, dlb (squeeze p (x ++ w)) = dlb (squeeze p x).
Proof.
  intros Hw x. induction x as [|c r IH]; intro p; cbn [app].
  - cbn [squeeze dlb]. apply dlb_squeeze_sp32. exact Hw.
  - cbn [squeeze]. destruct (is_blank c) eqn:Bc.
    + destruct p; [apply IH|].
      assert (D : squeeze true r = [] \/ squeeze true r <> [])
        by (destruct (squeeze true r); [left; reflexivity | right; discriminate]).
      destruct D as [D|D].
      * rewrite D, (proj2 (squeeze_true_app_nil w Hw r) D). reflexivity.
      * rewrite !dlb_cons2; [rewrite IH; reflexivity | exact D |].
        intro X. apply D. apply (squeeze_true_app_nil w Hw r). exact X.
    + rewrite !dlb_cons_nb by exact Bc. rewrite IH. reflexivity.
Qed.

Lemma drop_squeeze_spins s s' :
  spins true s s' -> forall p, drop_last_blank (squeeze p s) = drop_last_blank (squeeze p s').
Proof.
  intros H p. destruct (spins_true_split _ _ H) as (s0 & w & H1 & H2 & ->).
  rewrite !drop_last_blank_dlb, (dlb_squeeze_app w H2), (squeeze_spins _ _ H1 p). reflexivity.
Qed.

Lemma drop_squeeze_sp32 w p : sp32 w -> drop_last_blank (squeeze p w) = [].
Proof. intro H. rewrite drop_last_blank_dlb. apply dlb_squeeze_sp32. exact H. Qed.

(* ---------------------------------------------------------------- the relation on projected events *)
Definition is_ptext (e : pev) : bool := match e with PText _ => true | _ => false end.
Definition is_pcomp (e : pev) : bool :=
  match e with PIngr _ _ _ _ _ _ | PCook _ _ _ _ _ | PTimer _ _ => true | _ => false end.

Inductive obsr : list pev -> list pev -> Prop :=
| ob_nil : obsr [] []
| ob_cons x l1 l2 : is_ptext x = false -> obsr l1 l2 -> obsr (x :: l1) (x :: l2)
| ob_text s1 s2 l1 l2 : spins false s1 s2 -> obsr l1 l2 -> obsr (PText s1 :: l1) (PText s2 :: l2)
| ob_end_text b s1 s2 l1 l2 :
    spins true s1 s2 -> obsr l1 l2 -> obsr (PText s1 :: PEnd b :: l1) (PText s2 :: PEnd b :: l2)
| ob_end_blank b w c l1 l2 :
    sp32 w -> is_pcomp c = true -> obsr l1 l2 -> obsr (c :: PEnd b :: l1) (c :: PText w :: PEnd b :: l2).

Definition nd (e : pev) : bool := negb (is_pdiag e).

Lemma fwr_obsr e1 e2 : fwr e1 e2 -> obsr (filter nd (map proj e1)) (filter nd (map proj e2)).
Proof.
  induction 1 as [|e1 e2 l1 l2 He _ IH|t1 t2 l1 l2 Ht _ IH|d1 d2 l1 l2 H1 H2 _ IH|w l1 l2 Hw _ IH|w l1 l2 Hw _ IH
                 |b t1 t2 l1 l2 Ht Hn _ IH|b t2 c1 c2 l1 l2 Hb Hc He _ IH].
  - apply ob_nil.
  - unfold erel in He. cbn [map]. rewrite He. destruct (proj e2) eqn:P; cbn [filter nd is_pdiag negb];
      try (apply ob_cons; [reflexivity | exact IH]).
    + apply ob_text; [apply spins_refl | exact IH].
    + exact IH.
  - cbn [map proj filter nd is_pdiag negb]. apply ob_text; assumption.
  - cbn [map proj filter nd is_pdiag negb]. exact IH.
  - destruct w; try discriminate Hw. cbn [map proj filter nd is_pdiag negb]. exact IH.
  - destruct w; try discriminate Hw. cbn [map proj filter nd is_pdiag negb]. exact IH.
  - cbn [map proj filter nd is_pdiag negb]. apply ob_end_text; assumption.
  - unfold erel in He. cbn [map]. rewrite <- He.
    destruct c1; try discriminate Hc; cbn [proj filter nd is_pdiag negb];
      (apply ob_end_blank; [exact Hb | reflexivity | exact IH]).
Qed.

(* ---------------------------------------------------------------- merge *)
Definition mtext (a : str) (m : list pev) : list pev :=
  match m with PText b :: r' => PText (a ++ b) :: r' | _ => PText a :: m end.
Lemma merge_text a r : merge (PText a :: r) = mtext a (merge r).
Proof. cbn [merge]. destruct (merge r) as [|[] ?]; reflexivity. Qed.

Lemma obsr_text_merge s1 s2 m1 m2 :
  spins false s1 s2 -> obsr m1 m2 -> obsr (mtext s1 m1) (mtext s2 m2).
Proof.
  intros Hs H. unfold mtext. destruct H as [|x l1 l2 Hx H|a1 a2 l1 l2 Ha H|b a1 a2 l1 l2 Ha H|b w c l1 l2 Hw Hc H].
  - apply ob_text; [exact Hs | apply ob_nil].
  - destruct x; try discriminate Hx; (apply ob_text; [exact Hs | apply ob_cons; [reflexivity | exact H]]).
  - apply ob_text; [apply spins_app; assumption | exact H].
  - apply ob_end_text; [apply spins_app; assumption | exact H].
  - destruct c; try discriminate Hc; (apply ob_text; [exact Hs | apply ob_end_blank; [exact Hw | reflexivity | exact H]]).
Qed.

Lemma obsr_merge l1 l2 : obsr l1 l2 -> obsr (merge l1) (merge l2).
Proof.
  induction 1 as [|x l1 l2 Hx _ IH|a1 a2 l1 l2 Ha _ IH|b a1 a2 l1 l2 Ha _ IH|b w c l1 l2 Hw Hc _ IH].
  - apply ob_nil.
  - destruct x; try discriminate Hx; cbn [merge]; (apply ob_cons; [reflexivity | exact IH]).
  - rewrite !merge_text. apply obsr_text_merge; assumption.
  - cbn [merge]. apply ob_end_text; assumption.
  - destruct c; try discriminate Hc; cbn [merge]; (apply ob_end_blank; [exact Hw | reflexivity | exact IH]).
Qed.

(* ---------------------------------------------------------------- norm *)
Definition look (l : list pev) : bool := match l with PEnd _ :: _ => true | _ => false end.

Lemma norm_text p s r :
  norm p (PText s :: r) =
  let s2 := if look r then drop_last_blank (squeeze p s) else squeeze p s in
  match s2 with [] => norm p r | _ :: _ => PText s2 :: norm false r end.
Proof. destruct r as [|[] r]; reflexivity. Qed.

Lemma obsr_look l1 l2 : obsr l1 l2 -> look l1 = look l2.
Proof.
  destruct 1 as [|x l1 l2 Hx H|a1 a2 l1 l2 Ha H|b a1 a2 l1 l2 Ha H|b w c l1 l2 Hw Hc H]; reflexivity.
Qed.

Lemma obsr_norm l1 l2 : obsr l1 l2 -> forall p, norm p l1 = norm p l2.
Proof.
  induction 1 as [|x l1 l2 Hx H IH|a1 a2 l1 l2 Ha H IH|b a1 a2 l1 l2 Ha H IH|b w c l1 l2 Hw Hc H IH]; intro p.
  - reflexivity.
  - destruct x; try discriminate Hx; cbn [norm]; rewrite IH; reflexivity.
  - rewrite !norm_text. rewrite (obsr_look _ _ H), (squeeze_spins _ _ Ha p), (IH p), (IH false). reflexivity.
  - rewrite !norm_text. cbn [look]. rewrite (drop_squeeze_spins _ _ Ha p). cbn [norm]. rewrite (IH false). reflexivity.
  - destruct c; try discriminate Hc; cbn [norm];
      rewrite (drop_squeeze_sp32 w false Hw), (IH false); reflexivity.
Qed.

(* ---------------------------------------------------------------- the two results *)
Theorem fwr_observed e1 e2 : fwr e1 e2 -> observed e1 = observed e2.
Proof.
  intro H. unfold observed. apply obsr_norm. apply obsr_merge. exact (fwr_obsr _ _ H).
Qed.

Definition eflag (e : pevent) : bool := match e with EvDiag d => d_err d | _ => false end.
Definition pflag (x : pev) : bool := match x with PDiag b _ => b | _ => false end.
Lemma eflag_proj e : eflag e = pflag (proj e). Proof. destruct e; reflexivity. Qed.
Lemma has_error_cons x r : has_error (x :: r) = eflag x || has_error r. Proof. reflexivity. Qed.
Lemma is_comp_eflag c : is_comp c = true -> eflag c = false. Proof. destruct c; try discriminate; reflexivity. Qed.

Theorem fwr_has_error e1 e2 : fwr e1 e2 -> has_error e1 = has_error e2.
Proof.
  induction 1 as [|e1 e2 l1 l2 He _ IH|t1 t2 l1 l2 Ht _ IH|d1 d2 l1 l2 H1 H2 _ IH|w l1 l2 Hw _ IH|w l1 l2 Hw _ IH
                 |b t1 t2 l1 l2 Ht Hn _ IH|b t2 c1 c2 l1 l2 Hb Hc He _ IH]; rewrite ?has_error_cons.
  - reflexivity.
  - unfold erel in He. rewrite !eflag_proj, He, IH. reflexivity.
  - cbn [eflag orb]. exact IH.
  - cbn [eflag]. rewrite H1, H2. reflexivity.
  - destruct w; try discriminate Hw. cbn [is_warning] in Hw. cbn [eflag]. apply Bool.negb_true_iff in Hw.
    rewrite Hw. exact IH.
  - destruct w; try discriminate Hw. cbn [is_warning] in Hw. cbn [eflag]. apply Bool.negb_true_iff in Hw.
    rewrite Hw. exact IH.
  - cbn [eflag orb]. exact IH.
  - unfold erel in He. pose proof (is_comp_eflag _ Hc) as E1. pose proof E1 as E2.
    rewrite eflag_proj, He, <- eflag_proj in E2. rewrite E1, E2. cbn [eflag orb]. exact IH.
Qed.
