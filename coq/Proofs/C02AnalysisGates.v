(* The extension gates of the analysis pass (C02): event_consumer.rs 352 (MODES),
   518 (INLINE_QUANTITIES), 988 (ADVANCED_UNITS on timers) as modelled in Model/Analysis.v.
   Both directions: extension off -> the core reading; extension on but trigger absent ->
   the same state as with it off. *)
From CL Require Import Model.Analysis.

Section Gates.
  Variable ci_key : str -> str.
  Variable yaml_ok : str -> bool.
  Variable find_iq : str -> option (str * str).
  Variable unit_class : str -> N.
  Variable input : str.
  Variable cfg : acfg.

  Definition with_inline (x : aext) (b : bool) : aext :=
    {| x_modes := x_modes x; x_inline := b; x_advanced := x_advanced x |}.
  Definition with_modes (x : aext) (b : bool) : aext :=
    {| x_modes := b; x_inline := x_inline x; x_advanced := x_advanced x |}.
  Definition with_advanced (x : aext) (b : bool) : aext :=
    {| x_modes := x_modes x; x_inline := x_inline x; x_advanced := b |}.

  (* ---- INLINE_QUANTITIES: in_step 507-529 -------------------------------------- *)
  (* off: a text event becomes exactly one Text item, whatever it contains *)
  Lemma inline_off x s t items :
    x_inline x = false -> dm_eqb (a_define s) DMComponents = false ->
    in_step ci_key find_iq unit_class x s (EText t) items
    = Done (set_block s (Some (BStep (items ++ [IText (text_str t)])))).
  Proof. intros Hx Hd. unfold in_step. rewrite Hd, Hx. reflexivity. Qed.

  Lemma set_inline_same s : set_inline s (a_inline s) = s.
  Proof. destruct s; reflexivity. Qed.

  (* on, but the text holds no number followed by a unit the converter knows: same state *)
  Lemma inline_untriggered x s t items :
    find_iq (text_str t) = None -> is_nil (text_str t) = false ->
    in_step ci_key find_iq unit_class (with_inline x true) s (EText t) items
    = in_step ci_key find_iq unit_class (with_inline x false) s (EText t) items.
  Proof.
    intros Hf Hn. unfold in_step. destruct (dm_eqb (a_define s) DMComponents); [reflexivity|].
    cbn [x_inline with_inline split_iq obind]. rewrite Hf, Hn. cbn [obind].
    rewrite set_inline_same. reflexivity.
  Qed.

  (* ---- MODES: metadata 352-380 ---------------------------------------------------- *)
  Lemma modes_analysis_off x s key value :
    x_modes x = false -> metadata x s key value = s.
  Proof. intro H. unfold metadata. rewrite H. reflexivity. Qed.

  Lemma modes_analysis_untriggered x s key value :
    (match text_trimmed key with c :: _ => c =? 91 | [] => false end)
    && (match rev (text_trimmed key) with c :: _ => c =? 93 | [] => false end) = false ->
    metadata x s key value = s.
  Proof.
    intro H. unfold metadata. rewrite <- andb_assoc, H, andb_false_r. reflexivity.
  Qed.

  (* ---- ADVANCED_UNITS on timers: timer 988-1012 ------------------------------------ *)
  (* off: a timer never makes the recipe invalid, whatever its quantity *)
  Lemma timer_units_off x s t :
    x_advanced x = false ->
    a_errors (fst (timer unit_class x s t)) = a_errors s.
  Proof.
    intro H. unfold timer. rewrite H. cbn [fst].
    destruct (option_map (quantity_info false) (pt_quantity t)); cbn; destruct (a_errors s); reflexivity.
  Qed.

  (* on, and the quantity is a number with a unit the converter knows as time: same result *)
  Lemma timer_units_untriggered x s t :
    (match pt_quantity t with
     | Some q => negb (pvalue_is_text (qv_value (pq_value q)))
                 && match pq_unit q with Some u => unit_class (text_trimmed u) =? 1 | None => true end
     | None => true
     end) = true ->
    timer unit_class (with_advanced x true) s t = timer unit_class (with_advanced x false) s t.
  Proof.
    intro H. unfold timer. cbn [x_advanced with_advanced].
    destruct (pt_quantity t) as [q|]; cbn [option_map]; [|reflexivity].
    apply andb_prop in H. destruct H as [H1 H2].
    unfold quantity_info, value_info. cbn [qi_text qi_unit].
    apply negb_true_iff in H1. rewrite H1.
    destruct (pq_unit q) as [u|]; cbn [option_map]; [rewrite H2|]; reflexivity.
  Qed.
End Gates.
