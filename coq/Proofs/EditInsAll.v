(* Property C17, event level, comment insertion: everything put together.  A block comment inserted
   directly after a word or number token and before a blank token, outside braces, leaves the event stream
   of a document unchanged (positions aside). *)
From CL Require Import Base.StrLemmas Model.Lexer Model.PText Model.CommentMask Model.Parser Model.Edits
  Proofs.LexerProofs Proofs.MaskProofs Proofs.EditProofs Proofs.EditParserProofs Proofs.EditLink
  Proofs.EditSimDefs Proofs.EditSimDoc Proofs.EditInsDefs Proofs.EditInsPrim Proofs.EditInsSplit
  Proofs.EditInsFun Proofs.EditInsStep Proofs.EditInsDoc.

Section InsAll.
  Variable cfg : pcfg.

  Theorem block_jsim blk1 blk2 evs1 evs2 old :
    jany blk1 blk2 -> Forall2 erel evs1 evs2 ->
    OR (Forall2 erel) (run_block blk1 evs1 (parse_block cfg old)) (run_block blk2 evs2 (parse_block cfg old)).
  Proof.
    apply (block_rel_j cfg (parse_quantity_j cfg) check_empty_name_j (parse_alias_j cfg) (parse_modifiers_j cfg)
             (modifiers_j cfg) (metadata_entry_j cfg) (section_j cfg) (parse_text_block_j cfg)).
  Qed.

  Theorem components_jsim :
    HJ (St jany) (ingredient_p cfg) (ingredient_p cfg) (CP erel anyR)
    /\ HJ (St jany) (cookware_p cfg) (cookware_p cfg) (CP erel anyR)
    /\ HJ (St jany) (timer_p cfg) (timer_p cfg) (CP erel anyR).
  Proof.
    split; [|split].
    - apply (ingredient_j cfg (parse_quantity_j cfg) check_empty_name_j (parse_alias_j cfg) (parse_modifiers_j cfg) (modifiers_j cfg)).
    - apply (cookware_j cfg (parse_quantity_j cfg) check_empty_name_j (parse_alias_j cfg) (parse_modifiers_j cfg) (modifiers_j cfg)).
    - apply (timer_j cfg (parse_quantity_j cfg) (modifiers_j cfg)).
  Qed.

  Theorem blocks_jsim f1 f2 ts1 ts2 old evs1 evs2 :
    jany ts1 ts2 -> Forall2 erel evs1 evs2 ->
    OR (Forall2 erel) (blocks_loop cfg f1 ts1 old evs1) (blocks_loop cfg f2 ts2 old evs2).
  Proof. apply (blocks_loop_j cfg block_jsim). Qed.

  Variable U : N -> ucls.
  Hypothesis special_breaks : forall c, special c = true -> is_word_char U c = false /\ is_lex_ws U c = false.
  Hypothesis eol_breaks : forall c, (c =? 10) || (c =? 13) = true -> is_word_char U c = false /\ is_lex_ws U c = false.

  Theorem mid_comment_events_all a b c p wd ws tb' :
    no_close c = true ->
    parse_frontmatter cfg (a ++ b) = None -> parse_frontmatter cfg (a ++ block_comment_text c ++ b) = None ->
    lex_at U a 0 = Some (p ++ [wd]) -> lex_at U b (blen a) = Some (ws :: tb') ->
    lex_at U (a ++ b) 0 = Some ((p ++ [wd]) ++ ws :: tb') ->
    swt (kind wd) = true -> kind ws = KWs -> mode_after MOut p = MOut ->
    OR same_events (events U cfg (a ++ b)) (events U cfg (a ++ block_comment_text c ++ b)).
  Proof. apply (mid_comment_events U cfg blocks_jsim special_breaks eol_breaks). Qed.

  Theorem mid_comment_events_fm_all s fm a b c p wd ws tb' :
    no_close c = true ->
    parse_frontmatter cfg s = Some fm -> cook_text fm = a ++ b -> a ++ b <> [] ->
    lex_at U a (cook_off fm) = Some (p ++ [wd]) -> lex_at U b (cook_off fm + blen a) = Some (ws :: tb') ->
    lex_at U (a ++ b) (cook_off fm) = Some ((p ++ [wd]) ++ ws :: tb') ->
    swt (kind wd) = true -> kind ws = KWs -> mode_after MOut p = MOut ->
    OR same_events (events U cfg s)
                   (events U cfg (take_bytes s (cook_off fm) ++ a ++ block_comment_text c ++ b)).
  Proof. apply (mid_comment_events_fm U cfg blocks_jsim special_breaks eol_breaks). Qed.
End InsAll.
