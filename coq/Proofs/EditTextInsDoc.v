(* Property C17, text mode: the block comment inserted after a word or number token, whole
   documents, recipe level, NO hypothesis about modes (Proofs/EditTextIns.v put together with the
   analysis side of Proofs/EditTextAnalysis.v and the lexer fact of Proofs/EditTextLex.v).

   Conclusion as for CRLF ([EditTextCrlf.same_parse_upto drop_cr]): [jsim] relates the tokens by
   [krel], which lets a newline token be "\n" on one side and "\r\n" on the other, so what is
   proved of two paragraph texts is equality after [drop_cr]; everything else is equal. *)
From Coq Require Import Lia.
From CL Require Import Base.StrLemmas Model.Lexer Model.PText Model.CommentMask Model.Parser Model.Edits Model.EventBridge
  Model.MetaMap Gen.ExtBits Proofs.LexerProofs Proofs.MaskProofs Proofs.EditProofs Proofs.EditParserProofs Proofs.EditLink
  Proofs.ParserTotal Proofs.ParserFM Proofs.EditSimDefs Proofs.EditSimDoc Proofs.EditSimFM2 Proofs.ParseTotal
  Proofs.EditInsDefs Proofs.EditInsPrim Proofs.EditInsSplit Proofs.EditInsFun Proofs.EditInsStep Proofs.EditInsDoc Proofs.EditInsAll
  Proofs.EditAnalysis Proofs.EditTextFrame Proofs.EditTextSim Proofs.EditTextAnalysis Proofs.EditTextLex Proofs.EditTextCrlf
  Proofs.EditTextIns.
From CL Require Model.Events Model.Analysis.
Open Scope N_scope.

Lemma filter_idem {A} (f : A -> bool) l : filter f (filter f l) = filter f l.
Proof.
  induction l as [|x l IH]; [reflexivity|]. cbn [filter]. destruct (f x) eqn:E; [|exact IH].
  cbn [filter]. rewrite E, IH. reflexivity.
Qed.

Lemma crelF_src_ok acfg s1 s2 D1 D2 e1 e2 :
  Analysis.text_raw acfg = false -> lex_local D1 -> lex_local D2 ->
  crelF s1 s2 D1 D2 e1 e2 -> src_ok acfg teq_crlf s1 s2 e1 e2.
Proof.
  intros Hr L1 L2 H. unfold crelF in H. unfold src_ok.
  destruct (comp_span e1) as [sp1|]; [|exact I]. destruct (comp_span e2) as [sp2|]; [|exact I].
  destruct H as (c1 & c2 & K & S1 & S2 & B1 & B2). eexists _, _. split; [exact B1|]. split; [exact B2|].
  unfold Analysis.comp_src. rewrite Hr. rewrite (L1 c1 S1), (L2 c2 S2).
  pose proof (ksim_strip _ _ K) as T. rewrite !filter_idem in T. exact T.
Qed.

Lemma evrelF_evs_ok acfg s1 s2 D1 D2 e1 e2 :
  Analysis.text_raw acfg = false -> lex_local D1 -> lex_local D2 ->
  evrelF s1 s2 D1 D2 e1 e2 -> evs_ok acfg teq_crlf s1 s2 e1 e2.
Proof.
  intros Hr L1 L2 [He Hc]. unfold evs_ok. revert Hc. induction He as [|a b r1 r2 Hab _ IH]; intro Hc; [constructor|].
  inversion Hc as [|? ? ? ? Hc1 Hc2]; subst.
  constructor; [split; [exact Hab | exact (crelF_src_ok _ _ _ _ _ _ _ Hr L1 L2 Hc1)] | exact (IH Hc2)].
Qed.

Lemma evrelF_parse ac U cfg ci_key yaml_ok find_iq unit_class x Y ystr yeqb yaml s1 s2 D1 D2 :
  p_strict_escape cfg = false -> Analysis.text_raw ac = false ->
  crlf_blind yaml_ok -> crlf_blind yaml -> lex_local D1 -> lex_local D2 ->
  OR (evrelF s1 s2 D1 D2) (events U cfg s1) (events U cfg s2) ->
  same_parse_upto drop_cr ac U cfg ci_key yaml_ok find_iq unit_class x Y ystr yeqb yaml s1 s2.
Proof.
  intros Hc Hr By Bm L1 L2 H. unfold same_parse_upto, parse_model_cfg, parse_meta_model.
  destruct (events_ok U cfg s1 Hc) as (e1 & E1 & _). destruct (events_ok U cfg s2 Hc) as (e2 & E2 & _).
  rewrite E1, E2 in *. cbn [obind]. unfold OR in H. split.
  - apply (rrel_pmap teq_crlf drop_cr); [intros a b [T _]; exact T|].
    apply analyse_text; [exact By | apply teq_crlf_refl | apply teq_crlf_app | apply teq_crlf_nil|].
    exact (evrelF_evs_ok ac s1 s2 D1 D2 e1 e2 Hr L1 L2 H).
  - rewrite (metadata_blind Y ystr yeqb yaml _ Bm e1 e2); [reflexivity|]. apply Forall2_erel_proj. apply H.
Qed.

Section InsDocP.
  Variable U : N -> ucls.
  Variable cfg : pcfg.
  Hypothesis special_breaks : forall c, special c = true -> is_word_char U c = false /\ is_lex_ws U c = false.
  Hypothesis eol_breaks : forall c, (c =? 10) || (c =? 13) = true -> is_word_char U c = false /\ is_lex_ws U c = false.

  Lemma blocks_jp s1 s2 D1 D2 f1 f2 ts1 ts2 old evs1 evs2 :
    segx s1 D1 -> segx s2 D2 ->
    jany ts1 ts2 -> sr D1 ts1 -> sr D2 ts2 -> evrelF s1 s2 D1 D2 evs1 evs2 ->
    OR (evrelF s1 s2 D1 D2) (blocks_loop cfg f1 ts1 old evs1) (blocks_loop cfg f2 ts2 old evs2).
  Proof.
    intros HD1 HD2. destruct (components_jsim cfg) as (Ci & Cc & Ct).
    exact (blocks_loop_jp s1 s2 D1 D2 cfg HD1 HD2 Ci Cc Ct (metadata_entry_j cfg) (section_j cfg) (parse_text_block_j cfg)
             f1 f2 ts1 ts2 old evs1 evs2).
  Qed.

  Lemma evrelF_rev s1 s2 d1 d2 e1 e2 : evrelF s1 s2 d1 d2 e1 e2 -> evrelF s1 s2 d1 d2 (rev e1) (rev e2).
  Proof. intros [A B]. split; apply Forall2_rev'; assumption. Qed.

  Theorem events_jsim_p s1 s2 ts1 ts2 :
    parse_frontmatter cfg s1 = None -> parse_frontmatter cfg s2 = None ->
    lex_at U s1 0 = Some ts1 -> lex_at U s2 0 = Some ts2 -> jany ts1 ts2 ->
    OR (evrelF s1 s2 ts1 ts2) (events U cfg s1) (events U cfg s2).
  Proof.
    intros F1 F2 L1 L2 H. unfold events. rewrite F1, F2, L1, L2.
    pose proof (blocks_jp s1 s2 ts1 ts2 (S (length ts1)) (S (length ts2)) ts1 ts2 true [] []
                  (lex_segx U _ _ L1) (lex_segx U _ _ L2) H (sr_refl _) (sr_refl _) (conj (Forall2_nil _) (Forall2_nil _))) as R.
    unfold OR in *. destruct (blocks_loop cfg _ ts1 true []) as [e1|]; cbn [obind]; [|exact I].
    destruct (blocks_loop cfg _ ts2 true []) as [e2|]; cbn [obind]; [|exact I]. apply evrelF_rev. exact R.
  Qed.

  Theorem events_jsim_fm_p s1 s2 fm1 fm2 ts1 ts2 :
    parse_frontmatter cfg s1 = Some fm1 -> parse_frontmatter cfg s2 = Some fm2 ->
    yaml_text fm1 = yaml_text fm2 -> yaml_off fm1 = yaml_off fm2 ->
    lex_at U (cook_text fm1) (cook_off fm1) = Some ts1 -> lex_at U (cook_text fm2) (cook_off fm2) = Some ts2 ->
    jany ts1 ts2 ->
    OR (evrelF s1 s2 ts1 ts2) (events U cfg s1) (events U cfg s2).
  Proof.
    intros F1 F2 Hy Hyo L1 L2 H. unfold events. rewrite F1, F2, L1, L2, <- Hy, <- Hyo.
    destruct (parse_frontmatter_located cfg s1 fm1 F1) as [(pre1 & Es1 & Hp1) _].
    destruct (parse_frontmatter_located cfg s2 fm2 F2) as [(pre2 & Es2 & Hp2) _].
    assert (G1 : segx s1 ts1). { exists (cook_off fm1), (cook_off fm1 + blen (cook_text fm1)). rewrite Es1 at 1. exact (lex_at_seg U _ _ _ pre1 L1 Hp1). }
    assert (G2 : segx s2 ts2). { exists (cook_off fm2), (cook_off fm2 + blen (cook_text fm2)). rewrite Es2 at 1. exact (lex_at_seg U _ _ _ pre2 L2 Hp2). }
    set (y := EvYaml (text_from_str (yaml_text fm1) (yaml_off fm1))).
    assert (E0 : evrelF s1 s2 ts1 ts2 [y] [y]).
    { split; (constructor; [|constructor]); [reflexivity | exact I]. }
    pose proof (blocks_jp s1 s2 ts1 ts2 (S (length ts1)) (S (length ts2)) ts1 ts2 false [y] [y] G1 G2 H (sr_refl _) (sr_refl _) E0) as R.
    unfold OR in *. destruct (blocks_loop cfg _ ts1 false _) as [e1|]; cbn [obind]; [|exact I].
    destruct (blocks_loop cfg _ ts2 false _) as [e2|]; cbn [obind]; [|exact I]. apply evrelF_rev. exact R.
  Qed.

  (* ---------------------------------------------------------------- the recipe *)
  Theorem mid_comment_text_mode ac ci_key yaml_ok find_iq unit_class x Y ystr yeqb yaml a b c p wd ws tb' :
    p_strict_escape cfg = false -> Analysis.text_raw ac = false -> no_close c = true ->
    parse_frontmatter cfg (a ++ b) = None -> parse_frontmatter cfg (a ++ block_comment_text c ++ b) = None ->
    lex_at U a 0 = Some (p ++ [wd]) -> lex_at U b (blen a) = Some (ws :: tb') ->
    lex_at U (a ++ b) 0 = Some ((p ++ [wd]) ++ ws :: tb') ->
    swt (kind wd) = true -> kind ws = KWs -> mode_after MOut p = MOut ->
    crlf_blind yaml_ok -> crlf_blind yaml ->
    same_parse_upto drop_cr ac U cfg ci_key yaml_ok find_iq unit_class x Y ystr yeqb yaml
      (a ++ b) (a ++ block_comment_text c ++ b).
  Proof.
    intros Hs Hr Hc F1 F2 La Lb Lab Kw Ks Hm By Bm.
    destruct (mid_comment_tokens U special_breaks eol_breaks a b c 0 p wd ws tb' Hc La Lb Lab Kw Ks Hm) as (ts2 & L2 & J).
    apply (evrelF_parse ac U cfg ci_key yaml_ok find_iq unit_class x Y ystr yeqb yaml _ _ ((p ++ [wd]) ++ ws :: tb') ts2);
      try assumption; [exact (lex_local_lexed U _ _ _ special_breaks Lab) | exact (lex_local_lexed U _ _ _ special_breaks L2)|].
    apply (events_jsim_p _ _ _ _ F1 F2 Lab L2). exists MOut. exact J.
  Qed.

  Theorem mid_comment_text_mode_fm ac ci_key yaml_ok find_iq unit_class x Y ystr yeqb yaml s fm a b c p wd ws tb' :
    p_strict_escape cfg = false -> Analysis.text_raw ac = false -> no_close c = true ->
    parse_frontmatter cfg s = Some fm -> cook_text fm = a ++ b -> a ++ b <> [] ->
    lex_at U a (cook_off fm) = Some (p ++ [wd]) -> lex_at U b (cook_off fm + blen a) = Some (ws :: tb') ->
    lex_at U (a ++ b) (cook_off fm) = Some ((p ++ [wd]) ++ ws :: tb') ->
    swt (kind wd) = true -> kind ws = KWs -> mode_after MOut p = MOut ->
    crlf_blind yaml_ok -> crlf_blind yaml ->
    same_parse_upto drop_cr ac U cfg ci_key yaml_ok find_iq unit_class x Y ystr yeqb yaml
      s (take_bytes s (cook_off fm) ++ a ++ block_comment_text c ++ b).
  Proof.
    intros Hs Hr Hc F C Hne La Lb Lab Kw Ks Hm By Bm.
    assert (Hct : cook_text fm <> []) by (rewrite C; exact Hne).
    destruct (parse_frontmatter_insert_some_nonempty cfg s fm a (block_comment_text c) b F C Hct)
      as (fm' & F' & Hy & Hyo & Hct' & Hco).
    destruct (mid_comment_tokens U special_breaks eol_breaks a b c (cook_off fm) p wd ws tb' Hc La Lb Lab Kw Ks Hm) as (ts2 & L2 & J).
    apply (evrelF_parse ac U cfg ci_key yaml_ok find_iq unit_class x Y ystr yeqb yaml _ _ ((p ++ [wd]) ++ ws :: tb') ts2);
      try assumption; [exact (lex_local_lexed U _ _ _ special_breaks Lab) | exact (lex_local_lexed U _ _ _ special_breaks L2)|].
    apply (events_jsim_fm_p s _ fm fm' ((p ++ [wd]) ++ ws :: tb') ts2 F F'); try (symmetry; assumption).
    - rewrite C. exact Lab.
    - rewrite Hct', Hco. exact L2.
    - exists MOut. exact J.
  Qed.
End InsDocP.
