(* Property C17, event level, the PADDED block comment: `word [- c -] next` - the blank between a word
   (or number) and what follows it replaced by blank + block comment + blank; also `word [- c -]next`
   (the comment glued to what follows) and longer blank runs, several comments.  Definitions.

   [psim m l1 l2]  the right token list is the left one where a blank token [w] that stands directly
                   after a word or number token, outside braces and not in the value of a metadata
                   line, is replaced by a GAP [g]: a list of blank and block comment tokens that starts
                   with a blank token and whose blanks, concatenated, are the text of [w] with U+0020s
                   inserted directly before a U+0020 ([spins false] of EditTrailDefs.v).  Positions are
                   free, comment and newline texts are free ([krel]).
   [pmode]         where a gap may stand: [pg] the previous token was a word or a number; [pbr] the
                   token-level brace state of EditInsDefs.v; [pln] the place in the line - [LVal]
                   after the colon of a line whose first token is `>>` (a metadata VALUE is read
                   through str::trim only, so an inner blank more would change it).
   [qsim]          the same without places (what the functions that get a token list need).
   The logic is [HJ] of EditInsDefs.v over the state relation [Sw] of EditTrailDefs.v; events are
   related by [evw] (text up to [spins]). *)
From Coq Require Import List Lia.
From CL Require Import Base.StrLemmas Model.Lexer Model.PText Model.CommentMask Model.Parser Model.Edits
  Proofs.EditParserProofs Proofs.EditSimDefs Proofs.EditInsDefs Proofs.EditInsPrim Proofs.EditTrailDefs.
Import ListNotations.

(* ---------------------------------------------------------------- places *)
Inductive lmode := LStart | LOther | LMeta | LVal.

Definition lnext (l : lmode) (k : tkind) : lmode :=
  if tk_eqb k KNewline then LStart
  else match l with
       | LStart => if tk_eqb k KMeta then LMeta else LOther
       | LMeta => if tk_eqb k KColon then LVal else LMeta
       | LOther => LOther
       | LVal => LVal
       end.

Record pmode := { pg : bool; pbr : mode; pln : lmode }.

Definition pnext (m : pmode) (k : tkind) : pmode :=
  {| pg := swt k; pbr := next_mode (pbr m) k; pln := lnext (pln m) k |}.

Fixpoint pmode_after (m : pmode) (ts : list tok) : pmode :=
  match ts with [] => m | t :: r => pmode_after (pnext m (kind t)) r end.

Definition br_out (b : mode) : bool := match b with MOut => true | MIn => false end.
Definition ln_free (l : lmode) : bool := match l with LVal => false | _ => true end.
Definition gap_ok (m : pmode) : bool := pg m && br_out (pbr m) && ln_free (pln m).

(* ---------------------------------------------------------------- gaps *)
Definition gapt (t : tok) : Prop := is_ws_block (kind t) = true /\ tstr t <> [].

Definition gapl (w : tok) (g : list tok) : Prop :=
  kind w = KWs /\ tstr w <> [] /\ hdk g = KWs /\ Forall gapt g /\ spins false (tstr w) (render g).

Inductive psim : pmode -> list tok -> list tok -> Prop :=
| p_nil m : psim m [] []
| p_cons m a b r1 r2 : krel a b -> okc a r1 r2 -> psim (pnext m (kind a)) r1 r2 -> psim m (a :: r1) (b :: r2)
| p_gap m w g r1 r2 : gap_ok m = true -> gapl w g -> psim (pnext m KWs) r1 r2 -> psim m (w :: r1) (g ++ r2).

Inductive qsim : list tok -> list tok -> Prop :=
| q_nil : qsim [] []
| q_cons a b r1 r2 : krel a b -> qsim r1 r2 -> qsim (a :: r1) (b :: r2)
| q_gap w g r1 r2 : gapl w g -> qsim r1 r2 -> qsim (w :: r1) (g ++ r2).

Definition pany (l1 l2 : list tok) : Prop := exists m, psim m l1 l2.
(* no gap at the head: the previous token was not a word *)
Definition pnog (l1 l2 : list tok) : Prop := exists m, pg m = false /\ psim m l1 l2.
(* the first token of a line *)
Definition pline (l1 l2 : list tok) : Prop := exists m, pg m = false /\ pln m = LStart /\ psim m l1 l2.

(* found by a kind test: the two runs stand before corresponding tokens *)
Definition psynced (f : tkind -> bool) (m : pmode) (l1 l2 : list tok) : Prop :=
  exists a b r1 r2, l1 = a :: r1 /\ l2 = b :: r2 /\ krel a b /\ f (kind a) = true /\ okc a r1 r2
                    /\ psim (pnext m (kind a)) r1 r2.
