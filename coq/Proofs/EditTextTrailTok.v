(* Property C17, text mode, the trailing edit: what a component parser consumed on either side.
   Before and after a component parser the remaining tokens are [wsimb true]-related
   (Proofs/EditTrailStep.v [ingredient_w] ...).  The consumed runs both end in a token that is neither
   blank nor comment (Proofs/EditTextSolid.v), so the relation splits along the cut ([consumed_wrun]):
   the runs are related by [wrun] - [wsimb] inside a run: tokens inserted, or a blank lengthened,
   directly before a NEWLINE TOKEN of the run.
   What `in_text` keeps of the two runs ([tx]: the non-comment tokens) is then equal up to blank
   space, line ends read as blank space ([wrun_Tq], normal form of Proofs/EditTextNorm.v). *)
From Coq Require Import Lia.
From CL Require Import Base.StrLemmas Model.Lexer Model.PText Model.CommentMask Model.Parser Model.Edits
  Proofs.EditParserProofs Proofs.EditSimDefs Proofs.EditInsDefs Proofs.EditAnalysis
  Proofs.EditTrailDefs Proofs.EditTrailStr Proofs.EditTextNorm.
Open Scope N_scope.

Definition solid (t : tok) : bool := negb (is_ws_comment (kind t)).
Definition nsolid (l : list tok) : nat := length (filter solid l).
Definition tx (l : list tok) : str := concat (map tstr (filter not_comment l)).

Inductive wrun : list tok -> list tok -> Prop :=
| wr_nil : wrun [] []
| wr_cons a b r1 r2 : krel a b -> wrun r1 r2 -> wrun (a :: r1) (b :: r2)
| wr_wsx a b n r1 r2 : wsx a b -> kind n = KNewline -> wrun (n :: r1) r2 -> wrun (a :: n :: r1) (b :: r2)
| wr_ins g n r1 r2 : gtok g -> kind n = KNewline -> wrun (n :: r1) r2 -> wrun (n :: r1) (g :: r2).

Lemma nsolid_app a b : nsolid (a ++ b) = (nsolid a + nsolid b)%nat.
Proof. unfold nsolid. rewrite filter_app, app_length. reflexivity. Qed.

Lemma gtok_not_solid g : gtok g -> solid g = false.
Proof. unfold solid. intros [(K & _)|(K & _)]; rewrite K; reflexivity. Qed.

Lemma wsimb_nsolid e l1 l2 : wsimb e l1 l2 -> nsolid l1 = nsolid l2.
Proof.
  induction 1 as [|a b r1 r2 Hab _ _ IH|a b r1 r2 (Ka & Kb & _) _ _ IH|g r1 r2 Hg _ _ IH]; [reflexivity| | |].
  - assert (E : solid a = solid b) by (unfold solid; rewrite (krel_kind _ _ Hab); reflexivity).
    unfold nsolid in *. cbn [filter]. rewrite E. destruct (solid b); cbn [length]; congruence.
  - assert (E1 : solid a = false) by (unfold solid; rewrite Ka; reflexivity).
    assert (E2 : solid b = false) by (unfold solid; rewrite Kb; reflexivity).
    unfold nsolid in *. cbn [filter]. rewrite E1, E2. exact IH.
  - unfold nsolid in *. cbn [filter]. rewrite (gtok_not_solid _ Hg). exact IH.
Qed.

Lemma snoc_cons_inv (a : tok) c1' c0 t1 : a :: c1' = c0 ++ [t1] -> (c1' = [] /\ c0 = [] /\ a = t1) \/ exists c0', c0 = a :: c0' /\ c1' = c0' ++ [t1].
Proof.
  destruct c0 as [|x c0]; cbn [app]; intro H; injection H as -> H.
  - left. repeat split; congruence.
  - right. exists c0. split; [reflexivity | exact H].
Qed.

Lemma wsimb_cut e l1 l2 : wsimb e l1 l2 -> forall c0 t1 r1, l1 = (c0 ++ [t1]) ++ r1 -> solid t1 = true ->
  exists x0 t2 y, l2 = (x0 ++ [t2]) ++ y /\ wrun (c0 ++ [t1]) (x0 ++ [t2]) /\ wsimb e r1 y /\ solid t2 = true.
Proof.
  induction 1 as [|a b q1 q2 Hab Ho Hq IH|a b q1 q2 Hw Hn Hq IH|g q1 q2 Hg Hn Hq IH]; intros c0 t1 r1 E St.
  - destruct c0; discriminate E.
  - assert (E' : a :: q1 = (c0 ++ [t1]) ++ r1) by exact E.
    destruct c0 as [|x c0]; cbn [app] in E'; injection E' as -> E'.
    + subst q1. exists [], b, q2. cbn [app]. split; [reflexivity|]. split; [apply wr_cons; [exact Hab | apply wr_nil]|].
      split; [exact Hq|]. unfold solid in *. rewrite <- (krel_kind _ _ Hab). exact St.
    + destruct (IH c0 t1 r1 E' St) as (x0 & t2 & y & -> & Hr & Hy & S2).
      exists (b :: x0), t2, y. cbn [app]. split; [reflexivity|]. split; [apply wr_cons; assumption|]. split; assumption.
  - assert (E' : a :: q1 = (c0 ++ [t1]) ++ r1) by exact E.
    destruct c0 as [|x c0]; cbn [app] in E'; injection E' as -> E'.
    + exfalso. destruct Hw as (Ka & _). unfold solid in St. rewrite Ka in St. discriminate.
    + destruct (IH c0 t1 r1 E' St) as (x0 & t2 & y & -> & Hr & Hy & S2).
      exists (b :: x0), t2, y. cbn [app]. split; [reflexivity|]. split; [|split; assumption].
      destruct c0 as [|n c0]; cbn [app] in *.
      * subst q1. cbn [atnl] in Hn. apply wr_wsx; assumption.
      * subst q1. cbn [atnl] in Hn. apply wr_wsx; assumption.
  - destruct (IH c0 t1 r1 E St) as (x0 & t2 & y & -> & Hr & Hy & S2).
    exists (g :: x0), t2, y. cbn [app]. split; [reflexivity|]. split; [|split; assumption].
    destruct c0 as [|n c0]; cbn [app] in *; subst q1; cbn [atnl] in Hn; apply wr_ins; assumption.
Qed.

Lemma nsolid_snoc_pos l t : solid t = true -> (0 < nsolid (l ++ [t]))%nat.
Proof. intro H. rewrite nsolid_app. unfold nsolid at 2. cbn [filter]. rewrite H. cbn [length]. lia. Qed.

(* the runs two component parsers consumed *)
Theorem consumed_wrun c0 t1 r1 d0 t2 r2 :
  wsimb true ((c0 ++ [t1]) ++ r1) ((d0 ++ [t2]) ++ r2) -> wsimb true r1 r2 ->
  solid t1 = true -> solid t2 = true -> wrun (c0 ++ [t1]) (d0 ++ [t2]).
Proof.
  intros H Hr S1 S2. destruct (wsimb_cut _ _ _ H c0 t1 r1 eq_refl S1) as (x0 & t & y & E & Hw & Hy & St).
  assert (X : x0 ++ [t] = d0 ++ [t2]); [|rewrite <- X; exact Hw].
  pose proof (wsimb_nsolid _ _ _ Hr) as N1. pose proof (wsimb_nsolid _ _ _ Hy) as N2.
  apply app_eq_app in E. destruct E as (l & [[E1 E2] | [E1 E2]]).
  - (* d0 ++ [t2] = (x0 ++ [t]) ++ l *)
    destruct l as [|z l] using rev_ind; [rewrite app_nil_r in E1; symmetry; exact E1|]. clear IHl.
    exfalso. rewrite app_assoc in E1. apply app_inj_tail in E1 as [_ <-].
    rewrite E2, nsolid_app in N2. pose proof (nsolid_snoc_pos l t2 S2). lia.
  - destruct l as [|z l] using rev_ind; [rewrite app_nil_r in E1; exact E1|]. clear IHl.
    exfalso. rewrite app_assoc in E1. apply app_inj_tail in E1 as [_ <-].
    rewrite E2, nsolid_app in N1. pose proof (nsolid_snoc_pos l t St). lia.
Qed.

(* ------------------------------------------------------------------ what text mode keeps of the runs *)
Lemma nl_text_blank t : newline_ok t -> kind t = KNewline -> tstr t <> [] /\ blanksN (tstr t).
Proof. intros H K. destruct (H K) as [-> | ->]; split; try discriminate; reflexivity. Qed.

Lemma wrun_Tq c1 c2 : wrun c1 c2 ->
  Tq (tx c1) (tx c2)
  /\ (forall n r, c1 = n :: r -> kind n = KNewline -> exists ch Y, tx c2 = ch :: Y /\ is_blankN ch = true)
  /\ (tx c1 = [] <-> tx c2 = []).
Proof.
  induction 1 as [|a b r1 r2 Hab _ (IH1 & IH2 & IH3)|a b n r1 r2 Hw Kn _ (IH1 & IH2 & IH3)|g n r1 r2 Hg Kn _ (IH1 & IH2 & IH3)].
  - split; [apply Tq_refl|]. split; [intros n r E; discriminate E | tauto].
  - destruct Hab as (Hk & Na & Nb & Oa & Ob & Hs).
    destruct (is_comment (kind b)) eqn:C.
    + assert (Ca : not_comment a = false) by (unfold not_comment; rewrite Hk, C; reflexivity).
      assert (Cb : not_comment b = false) by (unfold not_comment; rewrite C; reflexivity).
      assert (T1 : tx (a :: r1) = tx r1) by (unfold tx; cbn [filter]; rewrite Ca; reflexivity).
      assert (T2 : tx (b :: r2) = tx r2) by (unfold tx; cbn [filter]; rewrite Cb; reflexivity).
      rewrite T1, T2. split; [exact IH1|]. split; [|exact IH3].
      intros n r E K. injection E as -> _. rewrite <- Hk, K in C. discriminate C.
    + assert (Ca : not_comment a = true) by (unfold not_comment; rewrite Hk, C; reflexivity).
      assert (Cb : not_comment b = true) by (unfold not_comment; rewrite C; reflexivity).
      assert (T1 : tx (a :: r1) = tstr a ++ tx r1) by (unfold tx; cbn [filter]; rewrite Ca; reflexivity).
      assert (T2 : tx (b :: r2) = tstr b ++ tx r2) by (unfold tx; cbn [filter]; rewrite Cb; reflexivity).
      rewrite T1, T2. split; [|split].
      * apply Tq_app; [|exact IH1]. destruct (is_cn (kind a)) eqn:Cn; [|rewrite (Hs eq_refl); apply Tq_refl].
        destruct (kind a) eqn:K; try discriminate Cn; try (rewrite <- Hk in C; discriminate C).
        destruct (nl_text_blank a Oa K) as [A1 A2]. destruct (nl_text_blank b Ob ltac:(congruence)) as [B1 B2].
        apply Tq_blanks; assumption.
      * intros n r E K. injection E as -> _. destruct (nl_text_blank b Ob ltac:(congruence)) as [B1 B2].
        destruct (tstr b) as [|ch Y]; [contradiction|]. apply blanksN_cons in B2 as [B2 _].
        eexists ch, _. split; [reflexivity | exact B2].
      * split; intro X; apply app_eq_nil in X as [X _]; contradiction.
  - destruct Hw as (Ka & Kb & Na & s & Es & Hs).
    assert (Ca : not_comment a = true) by (unfold not_comment; rewrite Ka; reflexivity).
    assert (Cb : not_comment b = true) by (unfold not_comment; rewrite Kb; reflexivity).
    destruct (IH2 n r1 eq_refl Kn) as (ch & Y & EY & Bc).
    assert (T1 : tx (a :: n :: r1) = tstr a ++ tx (n :: r1)) by (unfold tx; cbn [filter]; rewrite Ca; reflexivity).
    assert (T2 : tx (b :: r2) = tstr a ++ s ++ tx r2) by (unfold tx; cbn [filter]; rewrite Cb; cbn [map concat]; rewrite Es, <- app_assoc; reflexivity).
    rewrite T1, T2. split; [|split].
    + apply Tq_app; [apply Tq_refl|]. eapply Tq_trans; [exact IH1|]. rewrite EY. apply Tq_absorb; [apply sp32_blanksN; exact Hs | exact Bc].
    + intros n0 r E K. injection E as -> _. congruence.
    + split; intro X; apply app_eq_nil in X as [X _]; contradiction.
  - destruct (IH2 n r1 eq_refl Kn) as (ch & Y & EY & Bc).
    destruct Hg as [(Kg & Sg & Ng) | (Kg & Ng)].
    + assert (Cg : not_comment g = true) by (unfold not_comment; rewrite Kg; reflexivity).
      assert (T2 : tx (g :: r2) = tstr g ++ tx r2) by (unfold tx; cbn [filter]; rewrite Cg; reflexivity).
      rewrite T2. split; [|split].
      * eapply Tq_trans; [exact IH1|]. rewrite EY. apply Tq_absorb; [apply sp32_blanksN; exact Sg | exact Bc].
      * intros n0 r E K. destruct (tstr g) as [|c0 Y0]; [contradiction|]. apply sp32_cons_inv in Sg as [-> _].
        eexists 32, _. split; reflexivity.
      * split; intro X.
        -- exfalso. apply IH3 in X. rewrite EY in X. discriminate.
        -- apply app_eq_nil in X as [X _]. contradiction.
    + assert (Cg : not_comment g = false) by (unfold not_comment; rewrite Kg; reflexivity).
      assert (T2 : tx (g :: r2) = tx r2) by (unfold tx; cbn [filter]; rewrite Cg; reflexivity).
      rewrite T2. split; [exact IH1|]. split; [exact IH2 | exact IH3].
Qed.
